#!/usr/bin/env python3
"""Regenerates MANIFEST.json from checks.json + manifest_text.json (level texts per property)."""
import json, os
V = os.path.dirname(os.path.dirname(os.path.abspath(__file__)))
checks = json.load(open(os.path.join(V, "checks.json")))
texts = json.load(open(os.path.join(V, "manifest_text.json")))
props = [json.loads(l) for l in open(os.path.join(V, "properties.jsonl"))]
man = {
 "version": 1,
 "setup_cmd": "bin/setup",
 "hooks": {"guard": "verif", "enable": "none in /repo: every check instruments the working tree at run time (tools/cmd/vinstr rewrites sync/atomic/channel/go/time sites, go build -overlay adds internal/verifrt and the harness); the build tag `verif` is reserved and unused",
           "baseline_off_cmd": "cd /repo && go test -mod=mod -vet=off -count=1 ./...", "source_commits": [], "add_only": True},
 "engines": [
  {"name": "lean", "path": "lean/", "serves_properties": [], "kind_free_text": "Lean 4 project: executable models (Model/), abstract specs and executable property predicates (Spec/), proofs (Proofs/), property theorems (Props/), regenerated facts (Generated/) and tie theorems (Tie/), line-protocol driver (Driver/, native executable)"},
  {"name": "vinstr", "path": "tools/cmd/vinstr", "serves_properties": [], "kind_free_text": "Go AST instrumenter + fact extractor (translator input): rewrites every synchronisation site of the working tree to go through verifrt, emits sites.json/facts.json"},
  {"name": "verifrt+harness", "path": "rt/", "serves_properties": [], "kind_free_text": "deterministic scheduler runtime (exact quiescence, replayable schedules, random/PCT strategies), client-program generators, recording adapter, white-box container differential"},
  {"name": "check", "path": "bin/check", "serves_properties": [], "kind_free_text": "driver: facts regeneration, lake build + axiom audit, harness build cache, executions → Lean driver (model replay + predicates), known findings, replays, evidence"}
 ],
 "checks": [], "not_applicable": [],
 "notes": "Technique: machine-checked proof in Lean 4 of theorems about executable models; models tied to /repo on every run by (i) regenerated facts + tie theorems, (ii) replay of real executions through the models' step functions, (iii) white-box container differentials. See DESIGN.md."
}
claimed = []
for p in props:
    pid = p["id"]
    cfg = checks["properties"].get(pid)
    t = texts.get(pid, {})
    if cfg and cfg.get("theorems") and t.get("claim", True):
        claimed.append(pid)
        man["checks"].append({
            "property_id": pid,
            "quick_cmd": "bin/check %s --tier quick" % pid,
            "thorough_cmd": "bin/check %s --tier thorough" % pid,
            "evidence_file": "evidence/%s.json" % pid,
            "replay_cmd_template": "bin/check %s --replay {path}" % pid,
            "engine": "lean4+vsched",
            "level_claimed": {"category": t.get("category", "proof"), "text": t.get("text", ""), "design_ref": "DESIGN.md §8 " + pid},
            "level_note": t.get("note", ""),
            "technique": t.get("technique", "Lean 4 theorems about an executable model; model tied to the code by regenerated facts and trace replay"),
        })
    else:
        man["not_applicable"].append({"property_id": pid, "reason": t.get("na", "theorems not yet proved in this round (the executable predicate and the explorations exist, but nothing is claimed without a proof)")})
for e in man["engines"]:
    e["serves_properties"] = claimed
json.dump(man, open(os.path.join(V, "MANIFEST.json"), "w"), indent=1)
print("claimed:", claimed)
