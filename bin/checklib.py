import sys, os, json, subprocess, hashlib, time, tempfile, shutil, re, glob, random

VERIF = os.path.dirname(os.path.dirname(os.path.abspath(__file__)))
REPO = os.environ.get("VERIF_REPO", "/repo")
LEAN = os.path.join(VERIF, "lean")
CACHE = os.path.join(VERIF, ".cache")
DRIVER = os.path.join(LEAN, ".lake", "build", "bin", "driver")
GOENV = dict(os.environ, GOFLAGS="-mod=mod", GOPROXY="off", GOSUMDB="off", GOTOOLCHAIN="local")
ALLOWED_AXIOMS = {"propext", "Classical.choice", "Quot.sound"}
FORBIDDEN = re.compile(r"\b(sorry|admit|native_decide|bv_decide|implemented_by)\b|^\s*axiom\s|^\s*unsafe\s|maxHeartbeats\s+0")

with open(os.path.join(VERIF, "checks.json")) as f:
    CHECKS = json.load(f)


def log(*a):
    print(*a, file=sys.stderr, flush=True)


def sh(cmd, **kw):
    return subprocess.run(cmd, shell=isinstance(cmd, str), capture_output=True, text=True, **kw)


# ---------------------------------------------------------------- tree hash / harness build

def tree_hash():
    h = hashlib.sha256()
    files = []
    for root, dirs, fs in os.walk(REPO):
        dirs[:] = [d for d in dirs if d not in (".git", "examples", "docs", "assets", "mocks")]
        for fn in fs:
            if fn.endswith(".go") and not fn.endswith("_test.go") or fn in ("go.mod",):
                files.append(os.path.join(root, fn))
    for p in sorted(files):
        h.update(p.encode()); h.update(open(p, "rb").read())
    for p in sorted(glob.glob(os.path.join(VERIF, "rt", "**", "*.go"), recursive=True) + glob.glob(os.path.join(VERIF, "tools", "**", "*.go"), recursive=True)):
        h.update(p.encode()); h.update(open(p, "rb").read())
    return h.hexdigest()[:20]


def build_harness():
    """instrument /repo's working tree and build the harness; cached by tree hash.
    returns (binary path or None, sites.json path, facts.json path, error text)"""
    th = tree_hash()
    d = os.path.join(CACHE, "h", th)
    binp = os.path.join(d, "harness")
    if os.path.exists(binp) and os.path.exists(os.path.join(d, "sites.json")):
        return binp, d, ""
    os.makedirs(os.path.join(CACHE, "bin"), exist_ok=True)
    vin = os.path.join(CACHE, "bin", "vinstr")
    r = sh("cd %s/tools && go1.26.8 build -o %s ./cmd/vinstr" % (VERIF, vin), env=GOENV)
    if r.returncode != 0:
        return None, d, "vinstr build failed:\n" + r.stderr
    tmp = tempfile.mkdtemp(prefix="vinstr-")
    try:
        adds = " ".join("-add internal/verifmain/%s=%s" % (os.path.basename(f), f) for f in sorted(glob.glob(os.path.join(VERIF, "rt", "harness", "*.go"))))
        adds += " " + " ".join("-add %s=%s" % (os.path.relpath(f, os.path.join(VERIF, "rt", "inpkg")), f) for f in sorted(glob.glob(os.path.join(VERIF, "rt", "inpkg", "**", "*.go"), recursive=True)))
        nomem = ""
        for memflag in ("", "-mem=false"):
            r = sh("%s %s -repo %s -out %s %s" % (vin, memflag, REPO, tmp, adds), env=GOENV)
            if r.returncode != 0:
                err = "instrumentation failed (exit %d):\n%s%s" % (r.returncode, r.stdout, r.stderr)
            else:
                os.makedirs(d, exist_ok=True)
                r2 = sh("cd %s && go1.26.8 build -overlay %s/overlay.json -o %s ./internal/verifmain" % (REPO, tmp, binp), env=GOENV)
                if r2.returncode == 0:
                    err = ""
                    break
                err = "instrumented build failed:\n" + r2.stderr[-3000:]
            # the wrappers for plain memory accesses (C19) may not fit a changed tree: every other
            # check still needs a harness, so try again without them
            if memflag == "":
                nomem = err
        if err:
            return None, d, err
        if nomem:
            open(os.path.join(d, "nomem"), "w").write(nomem)
        # white-box container differential binary (in-package tests compiled as a program)
        shutil.copy(os.path.join(tmp, "sites.json"), os.path.join(d, "sites.json"))
        if os.path.exists(os.path.join(tmp, "facts.json")):
            shutil.copy(os.path.join(tmp, "facts.json"), os.path.join(d, "facts.json"))
        # keep only the newest few cache entries
        ents = sorted(glob.glob(os.path.join(CACHE, "h", "*")), key=os.path.getmtime)
        for e in ents[:-3]:
            shutil.rmtree(e, ignore_errors=True)
        return binp, d, ""
    finally:
        shutil.rmtree(tmp, ignore_errors=True)


# ---------------------------------------------------------------- lean

def lake_build(targets):
    r = sh("cd %s && lake build %s" % (LEAN, " ".join(targets)))
    return r.returncode == 0, (r.stdout + r.stderr)


def audit(theorems, imports):
    """#print axioms for each theorem; returns (ok_count, details list, error text)"""
    if not theorems:
        return 0, [], ""
    src = "\n".join("import %s" % m for m in imports) + "\n" + "\n".join("#print axioms %s" % t for t in theorems) + "\n"
    fd, path = tempfile.mkstemp(suffix=".lean", prefix="Audit", dir=os.path.join(LEAN))
    os.write(fd, src.encode()); os.close(fd)
    try:
        r = sh("cd %s && lake env lean %s" % (LEAN, path))
    finally:
        os.unlink(path)
    out = r.stdout + r.stderr
    details, okc = [], 0
    for t in theorems:
        short = t.split(".")[-1]
        m = re.search(r"'%s' depends on axioms: \[([^\]]*)\]" % re.escape(t), out, re.S)
        m2 = re.search(r"'%s' does not depend on any axioms" % re.escape(t), out)
        if m:
            axs = {a.strip() for a in m.group(1).replace("\n", " ").split(",") if a.strip()}
            good = axs <= ALLOWED_AXIOMS
            details.append({"theorem": t, "axioms": sorted(axs), "ok": good})
            okc += good
        elif m2:
            details.append({"theorem": t, "axioms": [], "ok": True}); okc += 1
        else:
            details.append({"theorem": t, "axioms": None, "ok": False, "note": "not found"})
    err = "" if r.returncode == 0 else out[-2000:]
    return okc, details, err


def forbidden_scan():
    hits = []
    for p in glob.glob(os.path.join(LEAN, "VarmqVerif", "**", "*.lean"), recursive=True):
        in_block = False
        for n, line in enumerate(open(p), 1):
            s = line
            if "/-" in s and "-/" not in s: in_block = True
            if in_block:
                if "-/" in s: in_block = False
                continue
            code = s.split("--")[0]
            if FORBIDDEN.search(code):
                hits.append("%s:%d: %s" % (os.path.relpath(p, LEAN), n, s.strip()))
    return hits


# ---------------------------------------------------------------- running executions

def run_family(binp, family, n, seed, props, shards=1, start=0, extra=None, quiet=False, mem=False):
    """run n executions of a family through the driver (all shards in parallel). returns dict with results"""
    res = {"runs": 0, "bad": [], "rejected": [], "hashes": set(), "nontrivial": set(), "livelocks": [], "errors": []}
    tmpd = tempfile.mkdtemp(prefix="vrun-")
    try:
        procs = [_spawn(binp, family, n, seed, props, sh_i, shards, start, quiet, tmpd, mem) for sh_i in range(shards)]
        for sh_i in range(shards):
            p1, p2, outp = procs[sh_i]
            while True:
                p2.wait(); p1.wait()
                out = open(outp).read()
                last = _parse(out, family, res)
                if p1.returncode == 3 and last is not None:
                    res["livelocks"].append(last)
                    p1, p2, outp = _spawn(binp, family, n, seed, props, sh_i, shards, last + 1, quiet, tmpd, mem)
                    continue
                if p1.returncode not in (0, 3):
                    res["errors"].append("harness exit %s in family %s shard %d" % (p1.returncode, family, sh_i))
                break
    finally:
        shutil.rmtree(tmpd, ignore_errors=True)
    return res


def _spawn(binp, family, n, seed, props, shard, shards, start, quiet, tmpd, mem=False):
    cmd = [binp, "-family", family, "-n", str(n), "-seed", str(seed), "-shard", str(shard), "-shards", str(shards), "-start", str(start)]
    if quiet:
        cmd.append("-quiet")
    if mem:
        cmd.append("-mem")
    pre = lambda: __import__("resource").setrlimit(__import__("resource").RLIMIT_AS, (16 << 30, 16 << 30))
    outp = os.path.join(tmpd, "out-%d-%d.txt" % (shard, start))
    p1 = subprocess.Popen(cmd, stdout=subprocess.PIPE, stderr=subprocess.DEVNULL, preexec_fn=pre)
    p2 = subprocess.Popen([DRIVER] + props, stdin=p1.stdout, stdout=open(outp, "w"), text=True)
    p1.stdout.close()
    return p1, p2, outp


RES_RE = re.compile(r"^RESULT (\d+)(.*)$")


def _parse(out, family, res):
    last = None
    for line in out.splitlines():
        m = RES_RE.match(line)
        if m:
            idx = int(m.group(1)); last = idx
            res["runs"] += 1
            kv = dict(t.split("=", 1) for t in m.group(2).split() if "=" in t)
            h = (kv.get("ph", ""), kv.get("sh", ""))
            res["hashes"].add(h)
            if kv.get("nt") == "1":
                res["nontrivial"].add(h)
            for t in kv.get("ms", "").split(","):
                if ":" in t:
                    mname, st = t.split(":", 1)
                    d = res.setdefault("models", {}).setdefault(mname, {"accepted": 0, "not_applicable": 0, "rejected": 0})
                    d["accepted" if st == "ok" else "not_applicable" if st == "na" else "rejected"] += 1
        elif line.startswith("V "):
            _, idx, prop, msg = line.split(" ", 3)
            res["bad"].append((family, int(idx), prop, msg))
        elif line.startswith("M "):
            _, idx, rest = line.split(" ", 2)
            res["rejected"].append((family, int(idx), rest))
    return last


def extract_replay(binp, family, idx, seed):
    """re-run execution idx alone and return (program json, seed, schedule)"""
    r = subprocess.run([binp, "-family", family, "-n", str(idx + 1), "-start", str(idx), "-seed", str(seed), "-quiet"], capture_output=True, text=True)
    prog, sched, es = None, None, None
    for line in r.stdout.splitlines():
        if line.startswith("BEGIN "):
            es = int(line.split()[2])
        elif line.startswith("P "):
            prog = json.loads(line[2:])
        elif line.startswith("S "):
            sched = json.loads(line[2:])
    return prog, es, sched


def replay_file(binp, path, props, show=False, mem=False):
    r1 = subprocess.run([binp, "-replay", path] + (["-mem"] if mem else []), capture_output=True, text=True)
    r2 = subprocess.run([DRIVER] + props, input=r1.stdout, capture_output=True, text=True)
    if show:
        for l in r1.stdout.splitlines():
            if not l.startswith("E ") and not l.startswith("S ") and not l.startswith("M "):
                print(l)
        print(r2.stdout)
    bad = [l for l in r2.stdout.splitlines() if l.startswith("V ") or l.startswith("M ")]
    return bad, r1.stdout


# ---------------------------------------------------------------- known findings

def load_known():
    p = os.path.join(VERIF, "known_findings.json")
    if not os.path.exists(p):
        return []
    return json.load(open(p)).get("findings", [])


def match_known(known, pid, msg):
    for k in known:
        if k.get("property") == pid and k.get("status") == "known" and re.search(k["signature"], msg):
            return k
    return None


# ---------------------------------------------------------------- main check

def write_evidence(pid, ev):
    os.makedirs(os.path.join(VERIF, "evidence"), exist_ok=True)
    with open(os.path.join(VERIF, "evidence", pid + ".json"), "w") as f:
        json.dump(ev, f, indent=1)


def run_check(pid, tier, seed):
    t0 = time.time()
    cfg = CHECKS["properties"].get(pid)
    if cfg is None:
        print("unknown property", pid); return 2
    known = load_known()
    violations = []   # (kind, message, replay path)
    notes = []
    os.makedirs(os.path.join(VERIF, "replays"), exist_ok=True)

    # 1+3. instrument + build harness (also yields sites.json / facts.json for the translator)
    binp, hdir, err = build_harness()
    gen_ok = True
    if binp is None:
        violations.append(("tie", "instrumentation/build of the working tree failed: " + err.strip().splitlines()[-1] if err.strip() else "build failed", None, err))
    else:
        r = sh("python3 %s/bin/genfacts.py %s %s" % (VERIF, hdir, os.path.join(LEAN, "VarmqVerif", "Generated", "Facts.lean")))
        if r.returncode != 0:
            gen_ok = False
            violations.append(("tie", "fact extraction failed: " + (r.stderr.strip().splitlines() or ["?"])[-1], None, r.stderr))

    if binp is not None and cfg.get("mem") and os.path.exists(os.path.join(hdir, "nomem")):
        violations.append(("tie", "the wrappers for plain memory accesses do not compile on this tree (the race check cannot observe it)", None, open(os.path.join(hdir, "nomem")).read()))
    site_tab = []
    if binp is not None and cfg.get("mem"):
        try:
            site_tab = json.load(open(os.path.join(hdir, "sites.json")))
        except Exception:
            site_tab = []

    def name_sites(msg):
        def rep(m):
            i = int(m.group(1))
            if 0 <= i < len(site_tab):
                st = site_tab[i]
                return "%s %s in %s [%s]" % ("write of" if st.get("op") == "w" else "read of", st.get("recv"), st.get("func"), st.get("file", ""))
            return m.group(0)
        return re.sub(r"site (\d+)", rep, msg)

    # 2. lean build + audit
    theorems = cfg.get("theorems", [])
    modules = cfg.get("modules", [])
    # the driver first, on its own: it must be usable for the search even when a proof obligation fails
    drv_ok, drv_out = lake_build(["driver"])
    lean_ok, out = lake_build(modules) if modules else (True, "")
    if not drv_ok:
        lean_ok, out = False, drv_out + out
    discharged, details, aerr = (0, [], "")
    failing = []
    if lean_ok:
        discharged, details, aerr = audit(theorems, modules)
        for d in details:
            if not d["ok"]:
                failing.append(d["theorem"])
    else:
        for m in re.finditer(r"error: ([^\n]*)", out):
            failing.append(m.group(1))
        failing = failing[:10] or ["lake build failed"]
    checker_note = ""
    if lean_ok and tier == "thorough" and modules:
        # independent re-check of the compiled proofs of this property
        r = sh("cd %s && lake env leanchecker %s" % (LEAN, modules[0]))
        checker_note = "leanchecker %s: %s" % (modules[0], "ok" if r.returncode == 0 else "FAILED")
        if r.returncode != 0:
            failing.append("leanchecker rejected %s: %s" % (modules[0], (r.stdout + r.stderr)[-300:]))
    fb = forbidden_scan()
    if fb:
        failing.append("forbidden tokens: " + "; ".join(fb[:5]))
    proof_broken = (not lean_ok) or failing

    # 4. executions
    fam_cfg = cfg.get("families", [])
    scale = CHECKS["tiers"][tier]
    total = {"runs": 0, "bad": [], "rejected": [], "hashes": set(), "nontrivial": set(), "livelocks": [], "errors": []}
    per_family = {}
    if binp is not None and os.path.exists(DRIVER):
        for fam, weight in fam_cfg:
            n = max(10, int(scale["n"] * weight * cfg.get("scale", {}).get(tier, 1)))
            r = run_family(binp, fam, n, seed, [pid], shards=scale["shards"], mem=bool(cfg.get("mem")))
            per_family[fam] = {"executions": r["runs"], "violating": len({(b[0], b[1]) for b in r["bad"]}), "model_rejected": len(r["rejected"]), "livelocks": len(r["livelocks"]),
                               "traces_per_model": {m: "%d accepted, %d not applicable" % (d["accepted"], d["not_applicable"]) for m, d in sorted(r.get("models", {}).items())}}
            for k in ("bad", "rejected", "livelocks", "errors"):
                total[k] += [(fam, x) if k == "livelocks" else x for x in r[k]]
            total["runs"] += r["runs"]
            total["hashes"] |= {(fam,) + h for h in r["hashes"]}
            total["nontrivial"] |= {(fam,) + h for h in r["nontrivial"]}
        # 5. container differential
        for d in cfg.get("diffs", []):
            dr = run_diff(binp, d, tier, seed)
            per_family["diff:" + d] = dr["summary"]
            total["runs"] += dr["cases"]
            total["hashes"] |= {("diff", d, i) for i in range(dr["distinct"])}
            total["nontrivial"] |= {("diff", d, i) for i in range(dr["nontrivial"])}
            for b in dr["bad"]:
                total["rejected"].append(("diff:" + d, b[0], b[1]))
            for case, msg, ops in dr.get("viol", [])[:3]:
                path = os.path.join(VERIF, "replays", "%s-diff-%s-%d-case%s.json" % (pid, d, seed, case))
                json.dump({"property": pid, "differential": d, "case": case, "operations": ops, "violation": msg,
                           "how_to_replay": "the operation lines are the input of `harness -diff %s` / `driver diff:%s`; run `bin/check %s` with VERIF_SEED=%d" % (d, d, pid, seed)}, open(path, "w"), indent=1)
                violations.append(("predicate", "container %s: %s" % (d, msg), path, ""))
    elif binp is not None:
        violations.append(("tie", "Lean driver executable missing (setup not run?)", None, ""))

    # 4b. corpus: replays of past failures (of the pinned tree and of later findings) run on every check
    corpus_run = 0
    if binp is not None and os.path.exists(DRIVER):
        for cf in sorted(glob.glob(os.path.join(VERIF, "corpus", "*", pid + "-*.json"))):
            try:
                if "program" not in json.load(open(cf)):
                    continue
            except Exception:
                continue
            bad, _ = replay_file(binp, cf, [pid], mem=bool(cfg.get("mem")))
            corpus_run += 1
            for l in bad:
                if l.startswith("V "):
                    _, idx, prop, msg = l.split(" ", 3)
                    if prop == pid and not match_known(known, pid, msg):
                        violations.append(("predicate", "corpus replay: " + (name_sites(msg) if site_tab else msg), cf, ""))
                        break

    # triage
    known_hits = {}
    seen_sig = set()
    for fam, idx, prop, msg in total["bad"]:
        if prop != pid:
            continue
        if site_tab:
            msg = name_sites(msg)
        k = match_known(known, pid, msg)
        if k:
            known_hits.setdefault(k["id"], (k, 0))
            known_hits[k["id"]] = (k, known_hits[k["id"]][1] + 1)
            continue
        if "without reaching a scheduling point" in msg or msg == "process crashed":
            # the watchdog is a wall-clock limit: on a loaded machine a step can simply be slow. Believe it only
            # if the execution, replayed alone, does it again
            prog, es, sched = extract_replay(binp, fam, idx, seed)
            tmpf = os.path.join(VERIF, "replays", ".wd-%s-%d-%d.json" % (pid, seed, idx))
            json.dump({"property": pid, "family": fam, "index": idx, "seed": es, "program": prog, "schedule": sched}, open(tmpf, "w"))
            again, _ = replay_file(binp, tmpf, [pid], mem=bool(cfg.get("mem")))
            os.remove(tmpf)
            if not [l for l in again if l.startswith("V ") and (" %s " % pid) in l]:
                notes.append("watchdog fired in %s #%d but the execution replayed alone shows no violation: machine load, ignored" % (fam, idx))
                continue
        sig = re.sub(r"\d+", "N", msg)
        if sig in seen_sig and len(violations) >= 3:
            continue
        seen_sig.add(sig)
        path = os.path.join(VERIF, "replays", "%s-%s-%d-%d.json" % (pid, fam, seed, idx))
        prog, es, sched = extract_replay(binp, fam, idx, seed)
        json.dump({"property": pid, "family": fam, "index": idx, "seed": es, "program": prog, "schedule": sched, "violation": msg,
                   "how_to_replay": "bin/check %s --replay %s" % (pid, path)}, open(path, "w"), indent=1)
        violations.append(("predicate", msg, path, ""))
    rejected = [r for r in total["rejected"]]
    for fam, idx in total["livelocks"]:
        pass
    if rejected and not violations:
        fam, idx, why = rejected[0]
        if not str(fam).startswith("diff:"):
            path = os.path.join(VERIF, "replays", "%s-%s-%d-%d-corr.json" % (pid, fam, seed, idx))
            prog, es, sched = extract_replay(binp, fam, idx, seed)
            json.dump({"property": pid, "family": fam, "index": idx, "seed": es, "program": prog, "schedule": sched,
                       "correspondence": why, "note": "the model rejected this implementation trace; no execution violating the property predicate was found"}, open(path, "w"), indent=1)
        else:
            path = os.path.join(VERIF, "replays", "%s-%s-%d-corr.json" % (pid, fam.replace(":", "-"), seed))
            json.dump({"property": pid, "differential": fam, "case": idx, "disagreement": why,
                       "note": "model and implementation disagree on this container operation sequence"}, open(path, "w"), indent=1)
        violations.append(("correspondence", "model/implementation correspondence broken: %s" % (why,), path, "nofail"))
    if proof_broken and not [v for v in violations if v[0] == "predicate"]:
        path = os.path.join(VERIF, "replays", "%s-proof-%d.json" % (pid, seed))
        json.dump({"property": pid, "proof_obligations_not_checking": failing, "lake_output_tail": out[-3000:] if not lean_ok else "",
                   "note": "no execution violating the property predicate was found in this run"}, open(path, "w"), indent=1)
        violations.append(("proof", "proof obligation no longer checks: %s" % "; ".join(map(str, failing[:3])), path, "nofail"))
    for e in total["errors"]:
        notes.append(e)

    # 6. evidence
    obligations = len(theorems)
    hashes = total["hashes"]
    samples = sample_programs(binp, fam_cfg, seed) if binp else []
    ev = {
        "property_id": pid, "tier": tier, "seed": seed, "level": cfg.get("level") or ("proof" if obligations > 0 else "exploration"),
        "coverage": {
            "obligations": obligations, "discharged": discharged if lean_ok else 0,
            "checker_cmd": "cd /verif/lean && lake build %s && lake env lean <generated #print axioms file>" % " ".join(modules),
            "trusted_base": CHECKS["trusted_base"] + cfg.get("trusted_extra", []),
            "theorems": details,
            "independent_recheck": checker_note,
            "traces_validated_against_impl": total["runs"] - len(total["rejected"]),
            "evaluations": total["runs"],
            "distinct_nontrivial": len(total["nontrivial"]),
            "distinct": len(hashes),
            "rule": "executions of generated client programs under the deterministic scheduler; distinct = different (program hash, schedule hash); non-trivial = the worker function was entered at least once and at least two goroutines were interleaved (schedule has >= 3 context switches); container differentials: distinct operation sequences, non-trivial = crosses a chunk boundary / performs a heap swap",
            "samples": samples,
            "per_family": per_family,
            "known_findings_hit": {k: v[1] for k, v in known_hits.items()},
            "model_rejections": [list(map(str, r)) for r in total["rejected"][:5]],
            "livelocks": len(total["livelocks"]),
            "corpus_replays": corpus_run,
        },
        "assumptions": cfg.get("assumptions", []) + CHECKS["assumptions"],
        "wall_s": round(time.time() - t0, 2),
        "violations": len(violations),
    }
    write_evidence(pid, ev)
    for k, (kf, cnt) in known_hits.items():
        print("KNOWN-FINDING: property=%s %s (%d executions)" % (pid, kf["what"], cnt))
    for n in notes:
        log("note:", n)
    if violations:
        for kind, msg, path, flag in violations[:5]:
            log("  %s: %s" % (kind, msg))
        # one VIOLATION line per distinct replay
        done = set()
        for kind, msg, path, flag in violations:
            if path in done: continue
            done.add(path)
            if path is None:
                path = os.path.join(VERIF, "replays", "%s-tie-%d.json" % (pid, seed))
                json.dump({"property": pid, "tie_failure": msg, "detail": flag[-3000:]}, open(path, "w"), indent=1)
                print("VIOLATION property=%s replay=%s no-failing-input-found" % (pid, path))
            elif flag == "nofail":
                print("VIOLATION property=%s replay=%s no-failing-input-found" % (pid, path))
            else:
                print("VIOLATION property=%s replay=%s" % (pid, path))
        return 1
    print("OK property=%s tier=%s executions=%d theorems=%d/%d wall=%.1fs" % (pid, tier, total["runs"], discharged, obligations, time.time() - t0))
    return 0


def sample_programs(binp, fam_cfg, seed):
    out = []
    for fam, _ in fam_cfg[:3]:
        r = subprocess.run([binp, "-family", fam, "-n", "2", "-seed", str(seed), "-progs"], capture_output=True, text=True)
        for l in r.stdout.splitlines()[:1]:
            try:
                out.append(json.loads(l))
            except Exception:
                pass
    return out


def run_diff(binp, name, tier, seed):
    """white-box container differential: harness -diff <name> prints op lines + observed outputs; the driver replays the model"""
    n = 400 if tier == "quick" else 20000
    r1 = subprocess.run([binp, "-diff", name, "-n", str(n), "-seed", str(seed)], capture_output=True, text=True)
    r2 = subprocess.run([DRIVER, "diff:" + name], input=r1.stdout, capture_output=True, text=True)
    bad, cases, distinct, nontriv = [], 0, 0, 0
    viol = []
    for l in r2.stdout.splitlines():
        if l.startswith("DIFFBAD "):
            _, case, rest = l.split(" ", 2)
            bad.append((case, rest))
        elif l.startswith("DIFFVIOL "):
            # the implementation's answer itself is against the specification: a concrete failing input
            _, case, rest = l.split(" ", 2)
            ops = [x for x in r1.stdout.splitlines() if x.startswith("DC %s " % case) or x.startswith("D %s " % case)]
            viol.append((case, rest, ops))
        elif l.startswith("DIFFSUM "):
            kv = dict(t.split("=") for t in l.split()[1:])
            cases, distinct, nontriv = int(kv["cases"]), int(kv["distinct"]), int(kv["nontrivial"])
    if r1.returncode != 0:
        bad.append(("harness", "diff generator failed: " + r1.stderr[-300:]))
    return {"bad": bad, "viol": viol, "cases": cases, "distinct": distinct, "nontrivial": nontriv, "summary": {"cases": cases, "disagreements": len(bad), "specification_violations": len(viol)}}


def do_replay(pid, path):
    binp, hdir, err = build_harness()
    if binp is None:
        print("build failed:", err); return 2
    data = json.load(open(path))
    if "program" not in data:
        print(json.dumps(data, indent=1)); return 1
    bad, _ = replay_file(binp, path, [pid], show=True, mem=bool(CHECKS["properties"].get(pid, {}).get("mem")))
    if bad:
        print("VIOLATION property=%s replay=%s" % (pid, path)); return 1
    print("replay: no violation of %s on the current tree" % pid)
    return 0
