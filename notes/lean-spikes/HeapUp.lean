/-! Scratch spike: Go's container/heap `up`, heap order restored. Core only. -/
namespace HeapSpike

structure Item where
  prio : Int
  idx  : Nat
deriving DecidableEq, Repr

/-- heapQueue.Less: smaller priority first, ties by insertion index -/
def lt (a b : Item) : Prop := a.prio < b.prio ∨ (a.prio = b.prio ∧ a.idx < b.idx)
instance : DecidableRel lt := fun a b => by unfold lt; exact inferInstance
def le (a b : Item) : Prop := ¬ lt b a

theorem le_refl (a : Item) : le a a := by unfold le lt; omega
theorem le_trans {a b c : Item} : le a b → le b c → le a c := by unfold le lt; omega
theorem le_of_lt {a b : Item} : lt a b → le a b := by unfold le lt; omega
theorem le_total (a b : Item) : le a b ∨ le b a := by unfold le lt; omega

abbrev par (i : Nat) : Nat := (i - 1) / 2

/-- `up` of container/heap: `for { i := (j-1)/2; if i == j || !less(j,i) {break}; swap(i,j); j = i }` -/
def up (a : Array Item) (j : Nat) (hj : j < a.size) : Array Item :=
  if h0 : j = 0 then a
  else
    have hi : par j < a.size := by unfold par; omega
    if lt a[j] a[par j] then
      up (a.swap (par j) j hi hj) (par j) (by simpa using hi)
    else a
termination_by j
decreasing_by unfold par; omega

theorem size_up (a : Array Item) (j : Nat) (hj : j < a.size) : (up a j hj).size = a.size := by
  fun_induction up a j hj <;> simp_all

/-- heap order on the whole array -/
def Heap (a : Array Item) : Prop := ∀ i (hi : i < a.size), 0 < i → le (a[par i]'(by unfold par; omega)) a[i]

/-- heap order everywhere except at `j` w.r.t. its parent; children of `j` already dominate `j`'s parent -/
structure UpInv (a : Array Item) (j : Nat) : Prop where
  others : ∀ i (hi : i < a.size), 0 < i → i ≠ j → le (a[par i]'(by unfold par; omega)) a[i]
  grand  : ∀ c (hc : c < a.size), 0 < c → (hpc : par c = j) → 0 < j →
             le (a[par j]'(by unfold par at *; omega)) a[c]

theorem up_heap (a : Array Item) (j : Nat) (hj : j < a.size) (H : UpInv a j) : Heap (up a j hj) := by
  fun_induction up a j hj with
  | case1 a hj =>
      intro i hi hpos; exact H.others i hi hpos (by omega)
  | case2 a j hj h0 hi hlt ih =>
      apply ih
      have hpj : par j < j := by unfold par; omega
      constructor
      · intro k hk hkpos hne
        have hk' : k < a.size := by simpa using hk
        have hpk : par k < a.size := by unfold par; omega
        simp only [Array.getElem_swap]
        by_cases hkj : k = j
        · subst hkj
          simp [hne, le_of_lt hlt]
        · have hkp : k ≠ par j := hne
          simp only [hkj, hkp, if_false]
          by_cases h1 : par k = par j
          · -- sibling of j
            simp only [h1, if_true]
            have := H.others k hk' hkpos hkj
            simp only [h1] at this
            exact le_trans (le_of_lt hlt) this
          · by_cases h2 : par k = j
            · have hjp : j ≠ par j := by omega
              simp only [h2, hjp, if_false, if_true]
              exact H.grand k hk' hkpos h2 (by omega)
            · simp only [h1, h2, if_false]
              exact H.others k hk' hkpos hkj
      · intro c hc hcpos hpc hppos
        have hc' : c < a.size := by simpa using hc
        have hne1 : par (par j) ≠ par j := by unfold par at *; omega
        have hne2 : par (par j) ≠ j := by unfold par at *; omega
        simp only [Array.getElem_swap, hne1, hne2, if_false]
        have hPi := H.others (par j) hi hppos (by omega)
        by_cases hcj : c = j
        · subst hcj
          have : c ≠ par c := by omega
          simpa [this] using hPi
        · have hcp : c ≠ par j := by intro h; rw [h] at hpc; unfold par at *; omega
          simp only [hcj, hcp, if_false]
          have := H.others c hc' hcpos hcj
          simp only [hpc] at this
          exact le_trans hPi this
  | case3 a j hj h0 hi hnlt =>
      intro i hi' hpos
      by_cases hij : i = j
      · subst hij; exact hnlt
      · exact H.others i hi' hpos hij

/-- heap.Push: append, then `up` from the last index. -/
theorem push_heap (a : Array Item) (x : Item) (H : Heap a) :
    Heap (up (a.push x) a.size (by simp)) := by
  apply up_heap
  constructor
  · intro i hi hpos hne
    have hi' : i < a.size := by simp at hi; omega
    have hp : par i < a.size := by unfold par; omega
    simpa [Array.getElem_push_lt, hi', hp] using H i hi' hpos
  · intro c hc _ hpc _
    simp at hc
    unfold par at hpc; omega

#print axioms push_heap
end HeapSpike
