#!/bin/bash
# confirm_race.sh <DIR-ID>: confirm a C19 seeded change with the Go race detector in a fresh worktree
P=$1; W=/tmp/confirm-$P
export GOFLAGS=-mod=mod GOPROXY=off GOSUMDB=off GOTOOLCHAIN=local CGO_ENABLED=1
git -C /repo worktree add -q --detach $W HEAD || exit 1
cd $W
DEMO=$(ls /tmp/seed/$P-out/*_test.go 2>/dev/null | head -1)
RUN=$(python3 -c "import json,re;m=json.load(open('/tmp/seed/$P-out/meta.json'));r=re.search(r'-run\s+(\S+)',m['demo_cmd']);print(r.group(1).strip(chr(39)+chr(34)) if r else '')")
cp $DEMO $W/zz_demo_test.go
echo "--- demo WITHOUT change (-race):"; timeout 900 go1.26.8 test -race -vet=off -count=1 -run "$RUN" -timeout 800s . 2>&1 | grep -c "WARNING: DATA RACE"; 
git apply /tmp/seed/$P-out/patch.diff || echo "PATCH FAILED"
echo "--- demo WITH change (-race):"; timeout 900 go1.26.8 test -race -vet=off -count=1 -run "$RUN" -timeout 800s . 2>&1 | grep -c "WARNING: DATA RACE"
rm -f $W/zz_demo_test.go
echo "--- suite WITH change (no -race):"; go1.26.8 test -vet=off -count=1 ./... 2>&1 | grep -v "no test files" | awk '{print $1,$2}' | sort | uniq -c | head -5
cd /; git -C /repo worktree remove --force $W
