#!/bin/bash
# confirm.sh <PROP>: independent confirmation of a seeded change in a fresh scratch worktree
P=$1; W=/tmp/confirm-$P
export GOFLAGS=-mod=mod GOPROXY=off GOSUMDB=off GOTOOLCHAIN=local
git -C /repo worktree add -q --detach $W HEAD || exit 1
cd $W
DEMO=$(ls /tmp/seed/$P-out/*_test.go 2>/dev/null | head -1)
RUN=$(python3 -c "import json,re;m=json.load(open('/tmp/seed/$P-out/meta.json'));r=re.search(r'-run\s+(\S+)',m['demo_cmd']);print(r.group(1).strip(chr(39)+chr(34)) if r else '')")
cp $DEMO $W/zz_demo_test.go
echo "--- demo WITHOUT change:"; timeout 600 go1.26.8 test -vet=off -count=1 -run "$RUN" -timeout 500s . 2>&1 | tail -3
git apply /tmp/seed/$P-out/patch.diff || echo "PATCH FAILED"
echo "--- demo WITH change:"; timeout 600 go1.26.8 test -vet=off -count=1 -run "$RUN" -timeout 300s . 2>&1 | grep -v "^\s" | tail -4
rm -f $W/zz_demo_test.go
echo "--- suite WITH change:"; go1.26.8 test -vet=off -count=1 ./... 2>&1 | grep -v "no test files" | awk '{print $1,$2}' | sort | uniq -c | head -5
cd /; git -C /repo worktree remove --force $W
