package verifrt

import (
	"strconv"
	"unsafe"
)

// Plain memory accesses of library code, for the happens-before race check (property C19).
// vinstr rewrites a read of a struct field `x.f` to `(*verifrt.Rd(site, &x.f))` and a write
// `x.f = v` to `*verifrt.Wr(site, &x.f) = v` (likewise for local variables captured by function
// literals). No scheduling point: the race check works on the happens-before order of the
// execution, not on adjacency. Lines are written only when Config.Mem is set.

func Rd[T any](site int, p *T) *T {
	memAcc(site, unsafe.Pointer(p), unsafe.Sizeof(*p), "r")
	return p
}

func Wr[T any](site int, p *T) *T {
	// a write to shared memory is a scheduling point: what another goroutine does between the
	// previous synchronisation operation and this write is an interleaving of its own
	// (e.g. a job handed to a worker before one of its fields is set)
	if s := S; !s.dead() && s.cur != nil && s.cur.id != 0 {
		s.yield(&pending{desc: "write"})
	}
	memAcc(site, unsafe.Pointer(p), unsafe.Sizeof(*p), "w")
	return p
}

func memAcc(site int, p unsafe.Pointer, size uintptr, rw string) {
	s := S
	if s.dead() || !s.cfg.Mem || p == nil || size == 0 || s.cfg.NoTrace {
		return
	}
	// keep the object alive until the execution ends: an address is never reused within a trace
	s.memKeep = append(s.memKeep, p)
	gid := -1
	if s.cur != nil {
		gid = s.cur.id
	}
	name := "?"
	addr := uintptr(p)
	if reg := s.reg.find(addr); reg != nil {
		name = reg.name + ".@" + strconv.Itoa(int(addr-reg.lo))
		for _, f := range s.reg.fieldTable(reg.typ) {
			if f.off == addr-reg.lo && f.size == size {
				name = reg.name + "." + f.path
			}
		}
	}
	s.trace = append(s.trace, "M "+strconv.Itoa(gid)+" "+rw+" "+strconv.FormatUint(uint64(addr), 10)+" "+strconv.Itoa(int(size))+" "+strconv.Itoa(site)+" "+esc(name))
}

// Sync lets the harness record its own synchronisation (a job handle passed from the thread that
// submitted it to the thread that uses it, the main goroutine joining the client threads).
func Sync(kind, key string) {
	s := S
	if s.dead() || !s.cfg.Mem {
		return
	}
	s.logRaw("H", kind, key)
}
