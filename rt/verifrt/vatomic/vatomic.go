// Package vatomic shadows sync/atomic for the instrumented build: same type names and methods,
// plus V-prefixed variants that carry the site id inserted by the instrumenter.
package vatomic

import (
	"sync/atomic"
	"unsafe"

	rt "github.com/goptics/varmq/internal/verifrt"
)

type Uint32 struct{ v atomic.Uint32 }

func (x *Uint32) Load() uint32                    { return x.VLoad(-1) }
func (x *Uint32) Store(v uint32)                  { x.VStore(-1, v) }
func (x *Uint32) Add(d uint32) uint32             { return x.VAdd(-1, d) }
func (x *Uint32) Swap(v uint32) uint32            { return x.VSwap(-1, v) }
func (x *Uint32) CompareAndSwap(o, n uint32) bool { return x.VCompareAndSwap(-1, o, n) }
func (x *Uint32) VLoad(site int) uint32 {
	if rt.Dead() {
		return x.v.Load()
	}
	rt.Point("a.load")
	r := x.v.Load()
	rt.Emit(site, unsafe.Pointer(x), "u32", "load", "", rt.Utoa(uint64(r)))
	return r
}
func (x *Uint32) VStore(site int, v uint32) {
	if rt.Dead() {
		x.v.Store(v)
		return
	}
	rt.Point("a.store")
	x.v.Store(v)
	rt.Emit(site, unsafe.Pointer(x), "u32", "store", rt.Utoa(uint64(v)), "")
}
func (x *Uint32) VAdd(site int, d uint32) uint32 {
	if rt.Dead() {
		return x.v.Add(d)
	}
	rt.Point("a.add")
	r := x.v.Add(d)
	rt.Emit(site, unsafe.Pointer(x), "u32", "add", rt.Itoa(int(int32(d))), rt.Utoa(uint64(r)))
	return r
}
func (x *Uint32) VSwap(site int, v uint32) uint32 {
	if rt.Dead() {
		return x.v.Swap(v)
	}
	rt.Point("a.swap")
	r := x.v.Swap(v)
	rt.Emit(site, unsafe.Pointer(x), "u32", "swap", rt.Utoa(uint64(v)), rt.Utoa(uint64(r)))
	return r
}
func (x *Uint32) VCompareAndSwap(site int, o, n uint32) bool {
	if rt.Dead() {
		return x.v.CompareAndSwap(o, n)
	}
	rt.Point("a.cas")
	r := x.v.CompareAndSwap(o, n)
	rt.Emit(site, unsafe.Pointer(x), "u32", "cas", rt.Utoa(uint64(o))+","+rt.Utoa(uint64(n)), rt.Btoa(r))
	return r
}

type Uint64 struct{ v atomic.Uint64 }

func (x *Uint64) Load() uint64                    { return x.VLoad(-1) }
func (x *Uint64) Store(v uint64)                  { x.VStore(-1, v) }
func (x *Uint64) Add(d uint64) uint64             { return x.VAdd(-1, d) }
func (x *Uint64) Swap(v uint64) uint64            { return x.VSwap(-1, v) }
func (x *Uint64) CompareAndSwap(o, n uint64) bool { return x.VCompareAndSwap(-1, o, n) }
func (x *Uint64) VLoad(site int) uint64 {
	if rt.Dead() {
		return x.v.Load()
	}
	rt.Point("a.load")
	r := x.v.Load()
	rt.Emit(site, unsafe.Pointer(x), "u64", "load", "", rt.Utoa(r))
	return r
}
func (x *Uint64) VStore(site int, v uint64) {
	if rt.Dead() {
		x.v.Store(v)
		return
	}
	rt.Point("a.store")
	x.v.Store(v)
	rt.Emit(site, unsafe.Pointer(x), "u64", "store", rt.Utoa(v), "")
}
func (x *Uint64) VAdd(site int, d uint64) uint64 {
	if rt.Dead() {
		return x.v.Add(d)
	}
	rt.Point("a.add")
	r := x.v.Add(d)
	rt.Emit(site, unsafe.Pointer(x), "u64", "add", rt.Itoa(int(int64(d))), rt.Utoa(r))
	return r
}
func (x *Uint64) VSwap(site int, v uint64) uint64 {
	if rt.Dead() {
		return x.v.Swap(v)
	}
	rt.Point("a.swap")
	r := x.v.Swap(v)
	rt.Emit(site, unsafe.Pointer(x), "u64", "swap", rt.Utoa(v), rt.Utoa(r))
	return r
}
func (x *Uint64) VCompareAndSwap(site int, o, n uint64) bool {
	if rt.Dead() {
		return x.v.CompareAndSwap(o, n)
	}
	rt.Point("a.cas")
	r := x.v.CompareAndSwap(o, n)
	rt.Emit(site, unsafe.Pointer(x), "u64", "cas", rt.Utoa(o)+","+rt.Utoa(n), rt.Btoa(r))
	return r
}

type Int32 struct{ v atomic.Int32 }

func (x *Int32) Load() int32                    { return x.VLoad(-1) }
func (x *Int32) Store(v int32)                  { x.VStore(-1, v) }
func (x *Int32) Add(d int32) int32              { return x.VAdd(-1, d) }
func (x *Int32) CompareAndSwap(o, n int32) bool { return x.VCompareAndSwap(-1, o, n) }
func (x *Int32) VLoad(site int) int32 {
	if rt.Dead() {
		return x.v.Load()
	}
	rt.Point("a.load")
	r := x.v.Load()
	rt.Emit(site, unsafe.Pointer(x), "i32", "load", "", rt.Itoa(int(r)))
	return r
}
func (x *Int32) VStore(site int, v int32) {
	if rt.Dead() {
		x.v.Store(v)
		return
	}
	rt.Point("a.store")
	x.v.Store(v)
	rt.Emit(site, unsafe.Pointer(x), "i32", "store", rt.Itoa(int(v)), "")
}
func (x *Int32) VAdd(site int, d int32) int32 {
	if rt.Dead() {
		return x.v.Add(d)
	}
	rt.Point("a.add")
	r := x.v.Add(d)
	rt.Emit(site, unsafe.Pointer(x), "i32", "add", rt.Itoa(int(d)), rt.Itoa(int(r)))
	return r
}
func (x *Int32) VCompareAndSwap(site int, o, n int32) bool {
	if rt.Dead() {
		return x.v.CompareAndSwap(o, n)
	}
	rt.Point("a.cas")
	r := x.v.CompareAndSwap(o, n)
	rt.Emit(site, unsafe.Pointer(x), "i32", "cas", rt.Itoa(int(o))+","+rt.Itoa(int(n)), rt.Btoa(r))
	return r
}

type Int64 struct{ v atomic.Int64 }

func (x *Int64) Load() int64                    { return x.VLoad(-1) }
func (x *Int64) Store(v int64)                  { x.VStore(-1, v) }
func (x *Int64) Add(d int64) int64              { return x.VAdd(-1, d) }
func (x *Int64) CompareAndSwap(o, n int64) bool { return x.VCompareAndSwap(-1, o, n) }
func (x *Int64) VLoad(site int) int64 {
	if rt.Dead() {
		return x.v.Load()
	}
	rt.Point("a.load")
	r := x.v.Load()
	rt.Emit(site, unsafe.Pointer(x), "i64", "load", "", rt.Itoa(int(r)))
	return r
}
func (x *Int64) VStore(site int, v int64) {
	if rt.Dead() {
		x.v.Store(v)
		return
	}
	rt.Point("a.store")
	x.v.Store(v)
	rt.Emit(site, unsafe.Pointer(x), "i64", "store", rt.Itoa(int(v)), "")
}
func (x *Int64) VAdd(site int, d int64) int64 {
	if rt.Dead() {
		return x.v.Add(d)
	}
	rt.Point("a.add")
	r := x.v.Add(d)
	rt.Emit(site, unsafe.Pointer(x), "i64", "add", rt.Itoa(int(d)), rt.Itoa(int(r)))
	return r
}
func (x *Int64) VCompareAndSwap(site int, o, n int64) bool {
	if rt.Dead() {
		return x.v.CompareAndSwap(o, n)
	}
	rt.Point("a.cas")
	r := x.v.CompareAndSwap(o, n)
	rt.Emit(site, unsafe.Pointer(x), "i64", "cas", rt.Itoa(int(o))+","+rt.Itoa(int(n)), rt.Btoa(r))
	return r
}

type Bool struct{ v atomic.Bool }

func (x *Bool) Load() bool                    { return x.VLoad(-1) }
func (x *Bool) Store(v bool)                  { x.VStore(-1, v) }
func (x *Bool) Swap(v bool) bool              { return x.VSwap(-1, v) }
func (x *Bool) CompareAndSwap(o, n bool) bool { return x.VCompareAndSwap(-1, o, n) }
func (x *Bool) VLoad(site int) bool {
	if rt.Dead() {
		return x.v.Load()
	}
	rt.Point("a.load")
	r := x.v.Load()
	rt.Emit(site, unsafe.Pointer(x), "bool", "load", "", rt.Btoa(r))
	return r
}
func (x *Bool) VStore(site int, v bool) {
	if rt.Dead() {
		x.v.Store(v)
		return
	}
	rt.Point("a.store")
	x.v.Store(v)
	rt.Emit(site, unsafe.Pointer(x), "bool", "store", rt.Btoa(v), "")
}
func (x *Bool) VSwap(site int, v bool) bool {
	if rt.Dead() {
		return x.v.Swap(v)
	}
	rt.Point("a.swap")
	r := x.v.Swap(v)
	rt.Emit(site, unsafe.Pointer(x), "bool", "swap", rt.Btoa(v), rt.Btoa(r))
	return r
}
func (x *Bool) VCompareAndSwap(site int, o, n bool) bool {
	if rt.Dead() {
		return x.v.CompareAndSwap(o, n)
	}
	rt.Point("a.cas")
	r := x.v.CompareAndSwap(o, n)
	rt.Emit(site, unsafe.Pointer(x), "bool", "cas", rt.Btoa(o)+","+rt.Btoa(n), rt.Btoa(r))
	return r
}

// Value shadows atomic.Value (no type-consistency panic modelling beyond Go's own).
type Value struct{ v atomic.Value }

func (x *Value) Load() any   { return x.VLoad(-1) }
func (x *Value) Store(v any) { x.VStore(-1, v) }
func (x *Value) VLoad(site int) any {
	if rt.Dead() {
		return x.v.Load()
	}
	rt.Point("a.load")
	r := x.v.Load()
	rt.Emit(site, unsafe.Pointer(x), "value", "load", "", rt.FmtVal(r))
	return r
}
func (x *Value) VStore(site int, v any) {
	if rt.Dead() {
		x.v.Store(v)
		return
	}
	rt.Point("a.store")
	x.v.Store(v)
	rt.Emit(site, unsafe.Pointer(x), "value", "store", rt.FmtVal(v), "")
}

// Pointer shadows atomic.Pointer[T]; the logged value only says whether the pointer is nil (addresses are not stable).
type Pointer[T any] struct{ v atomic.Pointer[T] }

func ptrs[T any](p *T) string {
	if p == nil {
		return "nil"
	}
	return "ptr"
}

func (x *Pointer[T]) Load() *T                    { return x.VLoad(-1) }
func (x *Pointer[T]) Store(v *T)                  { x.VStore(-1, v) }
func (x *Pointer[T]) Swap(v *T) *T                { return x.VSwap(-1, v) }
func (x *Pointer[T]) CompareAndSwap(o, n *T) bool { return x.VCompareAndSwap(-1, o, n) }
func (x *Pointer[T]) VLoad(site int) *T {
	if rt.Dead() {
		return x.v.Load()
	}
	rt.Point("a.load")
	r := x.v.Load()
	rt.Emit(site, unsafe.Pointer(x), "ptr", "load", "", ptrs(r))
	return r
}
func (x *Pointer[T]) VStore(site int, v *T) {
	if rt.Dead() {
		x.v.Store(v)
		return
	}
	rt.Point("a.store")
	x.v.Store(v)
	rt.Emit(site, unsafe.Pointer(x), "ptr", "store", ptrs(v), "")
}
func (x *Pointer[T]) VSwap(site int, v *T) *T {
	if rt.Dead() {
		return x.v.Swap(v)
	}
	rt.Point("a.swap")
	r := x.v.Swap(v)
	rt.Emit(site, unsafe.Pointer(x), "ptr", "swap", ptrs(v), ptrs(r))
	return r
}
func (x *Pointer[T]) VCompareAndSwap(site int, o, n *T) bool {
	if rt.Dead() {
		return x.v.CompareAndSwap(o, n)
	}
	rt.Point("a.cas")
	r := x.v.CompareAndSwap(o, n)
	rt.Emit(site, unsafe.Pointer(x), "ptr", "cas", ptrs(o)+","+ptrs(n), rt.Btoa(r))
	return r
}
