package verifrt

import (
	"strconv"
	"unsafe"
)

// Hooks used by the vsync / vatomic shadow packages. Every visible operation is
//   (1) a scheduling point (yield, possibly with an enabledness condition), then
//   (2) the operation itself, executed while no other registered goroutine runs, then
//   (3) one trace line.

// Dead reports whether shadow operations must degrade to plain unsynchronised operations
// (no execution in progress, or the execution is being torn down).
func Dead() bool { return S.dead() }

// Point is a plain scheduling point before an always-enabled operation.
func Point(desc string) {
	S.yield(&pending{desc: desc})
}

// Block is a scheduling point before an operation that is enabled only when cond holds.
func Block(desc string, cond func() bool) {
	S.yield(&pending{desc: desc, enabled: cond})
}

// Emit logs one event for the shadow object at address p.
func Emit(site int, p unsafe.Pointer, kind, op, arg, res string) {
	s := S
	if s.dead() || s.cfg.NoTrace {
		return
	}
	s.log(site, s.reg.nameOf(p, kind), op, arg, res)
}

func EmitNamed(site int, obj, op, arg, res string) {
	s := S
	if s.dead() {
		return
	}
	s.log(site, obj, op, arg, res)
}

// Panic logs and raises a runtime panic with Go's own message (so that library recover()
// calls see what they would see in a real run).
func Panic(site int, p unsafe.Pointer, kind, msg string) {
	s := S
	if !s.dead() {
		obj := ""
		if p != nil {
			obj = s.reg.nameOf(p, kind)
		}
		s.log(site, obj, "panic", msg, "")
	}
	panic(goPanic(msg))
}

type goPanic string

func (g goPanic) Error() string { return string(g) }
func (g goPanic) RuntimeError() {}

// Fatal is for conditions that are fatal errors in Go (unlock of unlocked mutex): not recoverable.
func Fatal(site int, p unsafe.Pointer, kind, msg string) {
	s := S
	if !s.dead() {
		s.log(site, s.reg.nameOf(p, kind), "fatal", msg, "")
	}
	panic(crashPanic{"fatal error: " + msg})
}

func FmtVal(v any) string {
	s := S
	if s.dead() {
		return "?"
	}
	return s.reg.fmtVal(v)
}

func Itoa(i int) string    { return strconv.Itoa(i) }
func Utoa(u uint64) string { return strconv.FormatUint(u, 10) }
func Btoa(b bool) string {
	if b {
		return "true"
	}
	return "false"
}

// ---------------------------------------------------------------- call / return logging

type CallTok struct {
	site int
	recv string
	live bool
}

// Call logs the entry of an instrumented leaf-container method.
func Call(site int, recv any, args ...any) CallTok {
	s := S
	if s.dead() || s.cfg.NoTrace {
		return CallTok{}
	}
	r := s.reg.fmtVal(recv)
	a := ""
	for i, x := range args {
		if i > 0 {
			a += ","
		}
		a += s.reg.fmtVal(x)
	}
	s.log(site, r, "call:"+Sites[site].Op, a, "")
	return CallTok{site: site, recv: r, live: true}
}

// Ret logs the return of the method; results are passed as pointers to the (named) results.
func Ret(t CallTok, results ...any) {
	s := S
	if !t.live || s.dead() {
		return
	}
	a := ""
	for i, x := range results {
		if i > 0 {
			a += ","
		}
		a += s.reg.fmtPtr(x)
	}
	s.log(t.site, t.recv, "ret:"+Sites[t.site].Op, "", a)
}
