// Package verifrt is the deterministic-scheduler runtime that the instrumented copy of
// goptics/varmq is linked against (DESIGN.md §3.3). Exactly one registered goroutine runs at a
// time; before every visible operation the goroutine parks and the scheduler picks the next
// goroutine among those whose pending operation is enabled. Every operation is logged as one
// trace line. The package is added to the build through `go build -overlay`; nothing of it is
// ever written into /repo.
package verifrt

import (
	"unsafe"
	"fmt"
	"math/rand"
	"runtime"
	"strconv"
	"strings"
	"time"
)

// Watchdog is how long one scheduled step may run before the scheduler declares a livelock (a
// loop that never reaches a scheduling point, e.g. a walk over a corrupted list). OnLivelock is
// called with the partial result; it must not return (the stuck goroutine cannot be killed).
var Watchdog = 20 * time.Second
var OnLivelock func(res *Result)

// SiteInfo is filled by the generated sites_gen.go.
type SiteInfo struct {
	Func string // enclosing function, e.g. "worker.processNextJob" or "worker.goEventLoop$1"
	Kind string // atomic | mutex | cond | wg | chan | go | new | call | pool | time | ctx
	Recv string // source text of the receiver / channel operand
	Op   string // method or operation name
}

var Sites []SiteInfo

type pending struct {
	enabled func() bool // nil = always enabled
	desc    string
	idle    bool // enabled only when nothing else is (used by the harness to observe quiescence)
}

type G struct {
	id      int
	path    string
	wake    chan struct{}
	pend    *pending
	done    bool
	started bool
	nkids   int
	role    string // "client", "lib", "wf" ...
	exiting bool
	// select bookkeeping: a pending receive that a rendezvous partner may complete
}

type Config struct {
	Seed     int64
	Strategy string // "random" | "pct" | "replay"
	Schedule []int  // forced choices (goroutine ids / negative = tick of ticker -(k+1)); then fall back to strategy
	MaxSteps int
	MaxTicks int
	PCTDepth int
	PCTLen   int // estimated length for change points
	TickBias int // 1 in TickBias choices prefers a tick when available (0 = uniform)
	TickHold bool // no tick fires before the harness calls AllowTicks()
	Stick    int  // strategy "sticky": probability (percent) of continuing with the same goroutine
	Delays   []int    // step numbers at which the goroutine that just ran is parked until nobody else can run (a long stall at a random point)
	Hold     []string // breakpoint: after a goroutine logged an event containing Hold[0], its next event containing Hold[1] parks it until nobody else can run (once)
	Mem      bool // log plain memory accesses (M lines) and harness synchronisation (H lines)
	NoTrace  bool
	FailFast bool
}

type Result struct {
	Trace     []string
	Choices   []int
	Steps     int
	Crashed   string   // non-empty: panic that would have killed the process
	Quiescent bool     // no enabled goroutine remained (and step budget not exhausted)
	Blocked   []string // descriptions of goroutines still blocked at the end
	Live      int
	Ticks     int
	Aborted   bool // the harness cut the execution (simulated process death)
}

type Sched struct {
	holdSkip int
	holdArmed map[int]bool
	held      map[int]bool
	holdDone  bool
	last int
	memKeep []unsafe.Pointer
	ticksOn bool
	cfg     Config
	gs      []*G
	cur     *G
	parked  chan struct{}
	trace   []string
	choices []int
	rng     *rand.Rand
	steps   int
	ticks   int
	crashed string
	aborted bool
	killed  bool
	reg     *registry
	tickers []*Ticker
	now     int64 // virtual nanoseconds
	// pct
	prio     map[int]int
	changeAt map[int]bool
	nextLow  int
}

// S is the scheduler of the execution in progress. Only the running goroutine touches it.
var S *Sched

type crashPanic struct{ msg string }

func newSched(cfg Config) *Sched {
	if cfg.MaxSteps == 0 {
		cfg.MaxSteps = 20000
	}
	s := &Sched{cfg: cfg, parked: make(chan struct{}), rng: rand.New(rand.NewSource(cfg.Seed)), reg: newRegistry()}
	if len(cfg.Hold) >= 3 {
		s.holdSkip, _ = strconv.Atoi(cfg.Hold[2])
	}
	if cfg.Strategy == "pct" {
		s.prio = map[int]int{}
		s.changeAt = map[int]bool{}
		n := cfg.PCTLen
		if n <= 0 {
			n = 300
		}
		for i := 0; i < cfg.PCTDepth; i++ {
			s.changeAt[s.rng.Intn(n)+1] = true
		}
		s.nextLow = -1
	}
	return s
}

func (s *Sched) newG(parent *G, role string) *G {
	g := &G{id: len(s.gs), wake: make(chan struct{}, 1), role: role}
	if parent == nil {
		g.path = "0"
	} else {
		g.path = parent.path + "." + strconv.Itoa(parent.nkids)
		parent.nkids++
	}
	g.pend = &pending{desc: "start"}
	s.gs = append(s.gs, g)
	if s.prio != nil {
		s.prio[g.id] = 1000 + s.rng.Intn(1000)
	}
	return g
}

func (s *Sched) spawn(g *G, fn func()) {
	go func() {
		<-g.wake
		defer func() {
			if r := recover(); r != nil {
				if cp, ok := r.(crashPanic); ok {
					s.setCrash(cp.msg)
				} else {
					s.setCrash(fmt.Sprint(r))
				}
			}
			g.done = true
			g.pend = nil
			s.parked <- struct{}{}
		}()
		if s.killed {
			return
		}
		g.started = true
		g.pend = nil
		fn()
	}()
}

func (s *Sched) setCrash(msg string) {
	if s.crashed == "" {
		s.crashed = msg
		s.logRaw("X", "crash", msg)
	}
}

// yield parks the running goroutine until the scheduler selects it again.
func (s *Sched) yield(p *pending) {
	g := s.cur
	if s.killed {
		if g != nil && !g.exiting {
			g.exiting = true
			runtime.Goexit()
		}
		return
	}
	if p == nil {
		p = &pending{}
	}
	g.pend = p
	s.parked <- struct{}{}
	<-g.wake
	if s.killed {
		g.exiting = true
		runtime.Goexit()
	}
	g.pend = nil
}

// dead reports whether operations must become no-ops (execution is being torn down).
func (s *Sched) dead() bool { return s == nil || s.killed }

func (s *Sched) enabledList() []*G {
	var en, idle []*G
	for _, g := range s.gs {
		if g.done || g.pend == nil {
			continue
		}
		if g.pend.idle {
			idle = append(idle, g)
			continue
		}
		if g.pend.enabled == nil || g.pend.enabled() {
			en = append(en, g)
		}
	}
	if len(s.held) > 0 {
		var rest []*G
		for _, g := range en {
			if !s.held[g.id] {
				rest = append(rest, g)
			}
		}
		if len(rest) > 0 {
			en = rest
		} else {
			s.held = nil // nobody else can run: the breakpoint is released
		}
	}
	if len(en) == 0 && len(idle) > 0 && len(s.tickable()) == 0 {
		// client threads first; the main goroutine (final observation) only when it is alone
		return idle[len(idle)-1:]
	}
	return en
}

func (s *Sched) tickable() []*Ticker {
	if s.ticks >= s.cfg.MaxTicks || (s.cfg.TickHold && !s.ticksOn) {
		return nil
	}
	var ts []*Ticker
	for _, t := range s.tickers {
		if t.active && len(t.C) == 0 {
			ts = append(ts, t)
		}
	}
	return ts
}

// pick returns a goroutine (>=0) or a ticker (encoded as -(index+1)).
func (s *Sched) pick(en []*G, ts []*Ticker) int {
	step := len(s.choices)
	if step < len(s.cfg.Schedule) {
		c := s.cfg.Schedule[step]
		if c >= 0 {
			for _, g := range en {
				if g.id == c {
					return c
				}
			}
		} else {
			for _, t := range ts {
				if t.idx == -(c + 1) {
					return c
				}
			}
		}
		// forced choice not enabled: schedule diverged; fall through to strategy
		s.logRaw("X", "diverged", fmt.Sprintf("step=%d choice=%d", step, c))
	}
	n := len(en) + len(ts)
	switch s.cfg.Strategy {
	case "pct":
		if s.changeAt[step] && len(en) > 0 {
			// lower the priority of the goroutine that would run now
			best := s.pctBest(en)
			s.prio[best.id] = s.nextLow
			s.nextLow--
		}
		if len(ts) > 0 && (len(en) == 0 || (s.cfg.TickBias > 0 && s.rng.Intn(s.cfg.TickBias) == 0)) {
			return -(ts[s.rng.Intn(len(ts))].idx + 1)
		}
		return s.pctBest(en).id
	case "sticky":
		// random with inertia: keep running the goroutine that ran last with probability Stick/100 (runs of
		// geometric length), otherwise choose uniformly: reaches interleavings that need one goroutine to
		// make many steps while another is parked between two of its own
		if len(ts) > 0 && (len(en) == 0 || (s.cfg.TickBias > 0 && s.rng.Intn(s.cfg.TickBias*4) == 0)) {
			return -(ts[s.rng.Intn(len(ts))].idx + 1)
		}
		if s.last >= 0 && s.rng.Intn(100) < s.cfg.Stick {
			for _, g := range en {
				if g.id == s.last {
					return g.id
				}
			}
		}
		c := en[s.rng.Intn(len(en))].id
		s.last = c
		return c
	default:
		if len(ts) > 0 && s.cfg.TickBias > 0 && len(en) > 0 {
			if s.rng.Intn(s.cfg.TickBias) == 0 {
				return -(ts[s.rng.Intn(len(ts))].idx + 1)
			}
			return en[s.rng.Intn(len(en))].id
		}
		k := s.rng.Intn(n)
		if k < len(en) {
			return en[k].id
		}
		return -(ts[k-len(en)].idx + 1)
	}
}

func (s *Sched) pctBest(en []*G) *G {
	best := en[0]
	for _, g := range en[1:] {
		if s.prio[g.id] > s.prio[best.id] {
			best = g
		}
	}
	return best
}

// Run executes main (and everything it spawns through Go) under the scheduler.
func Run(cfg Config, main func()) *Result {
	s := newSched(cfg)
	S = s
	g0 := s.newG(nil, "main")
	s.spawn(g0, main)
	quiescent := false
	for {
		if s.crashed != "" || s.aborted || s.steps >= s.cfg.MaxSteps {
			break
		}
		en := s.enabledList()
		ts := s.tickable()
		if len(en) == 0 && len(ts) == 0 {
			quiescent = true
			break
		}
		c := s.pick(en, ts)
		s.choices = append(s.choices, c)
		s.steps++
		if c < 0 {
			t := s.tickers[-(c + 1)]
			s.ticks++
			s.now += int64(t.d)
			t.C <- Time{ns: s.now}
			kind := "tick"
			if len(en) == 0 {
				kind = "qtick" // nobody could run: the system was at rest when time passed
			}
			s.logRaw("T", kind, fmt.Sprintf("%s %d", t.name, s.now))
			continue
		}
		g := s.gs[c]
		s.cur = g
		for _, d := range s.cfg.Delays {
			if d == s.steps && g.id != 0 {
				if s.held == nil {
					s.held = map[int]bool{}
				}
				// after this step g stalls: everybody else runs until nothing else can
				s.held[g.id] = true
				s.logRaw("X", "hold", "stall")
			}
		}
		g.wake <- struct{}{}
		select {
		case <-s.parked:
		case <-time.After(Watchdog):
			s.logRaw("X", "crash", "livelock: a goroutine ran for "+Watchdog.String()+" without reaching a scheduling point")
			res := &Result{Trace: s.trace, Choices: s.choices, Steps: s.steps, Crashed: "livelock: no scheduling point reached in " + Watchdog.String()}
			if OnLivelock != nil {
				OnLivelock(res)
			}
			panic("verifrt: livelock")
		}
	}
	res := &Result{Choices: s.choices, Steps: s.steps, Crashed: s.crashed, Quiescent: quiescent, Ticks: s.ticks, Aborted: s.aborted}
	for _, g := range s.gs {
		if !g.done {
			res.Live++
			d := "?"
			if g.pend != nil {
				d = g.pend.desc
			}
			res.Blocked = append(res.Blocked, fmt.Sprintf("g%d(%s,%s):%s", g.id, g.path, g.role, d))
		}
	}
	// tear down: wake the remaining goroutines one at a time; they Goexit at their yield point
	s.killed = true
	for _, g := range s.gs {
		if g.done {
			continue
		}
		s.cur = g
		g.wake <- struct{}{}
		<-s.parked
	}
	res.Trace = s.trace
	S = nil
	return res
}

// Go is the rewritten `go` statement.
func Go(site int, fn func()) {
	s := S
	if s.dead() {
		return
	}
	s.yield(&pending{desc: "go"})
	g := s.newG(s.cur, "lib")
	s.log(site, "", "go", "g"+strconv.Itoa(g.id), "")
	s.spawn(g, fn)
}

// GoRole spawns a harness goroutine with a role label.
func GoRole(role string, fn func()) int {
	s := S
	if s.dead() {
		return -1
	}
	g := s.newG(s.cur, role)
	s.logRaw("G", "spawn", fmt.Sprintf("g%d %s", g.id, role))
	s.spawn(g, fn)
	return g.id
}

// Abort ends the execution at this point as if the process had died: no goroutine runs any more.
func Abort() {
	s := S
	if s.dead() {
		return
	}
	s.aborted = true
	s.logRaw("X", "abort", "simulated process death")
	s.yield(&pending{desc: "aborted", enabled: func() bool { return false }})
}

// AllowTicks opens the tick gate of Config.TickHold.
func AllowTicks() {
	s := S
	if s.dead() {
		return
	}
	s.yield(&pending{desc: "allowticks"})
	s.ticksOn = true
}

// Yield is an explicit scheduling point for harness code (e.g. inside worker functions).
func Yield() {
	s := S
	if s.dead() {
		return
	}
	s.yield(&pending{desc: "yield"})
}

// WaitIdle blocks the calling harness goroutine until no other goroutine can make a step.
func WaitIdle() {
	s := S
	if s.dead() {
		return
	}
	s.yield(&pending{desc: "waitidle", idle: true})
}

// NumLive returns the number of registered goroutines that have not finished, by role.
func NumLive() map[string]int {
	m := map[string]int{}
	s := S
	if s.dead() {
		return m
	}
	for _, g := range s.gs {
		if !g.done {
			m[g.role]++
		}
	}
	return m
}

// WaitUntil blocks the calling harness goroutine until cond holds (evaluated by the scheduler).
func WaitUntil(desc string, cond func() bool) {
	s := S
	if s.dead() {
		return
	}
	s.yield(&pending{desc: desc, enabled: cond})
}

func CurG() int {
	if S == nil || S.cur == nil {
		return -1
	}
	return S.cur.id
}

// ---------------------------------------------------------------- trace

func esc(v string) string {
	if v == "" {
		return "_"
	}
	if !strings.ContainsAny(v, " \t\n%") {
		return v
	}
	var b strings.Builder
	for i := 0; i < len(v); i++ {
		c := v[i]
		if c == ' ' || c == '\t' || c == '\n' || c == '%' {
			fmt.Fprintf(&b, "%%%02x", c)
		} else {
			b.WriteByte(c)
		}
	}
	return b.String()
}

// log writes: E <g> <func> <obj> <op> <arg> <res>
func (s *Sched) log(site int, obj, op, arg, res string) {
	if s.cfg.NoTrace {
		return
	}
	fn := "?"
	if site >= 0 && site < len(Sites) {
		fn = Sites[site].Func
		if obj == "" {
			obj = Sites[site].Recv
		}
	}
	gid := -1
	if s.cur != nil {
		gid = s.cur.id
	}
	line := "E " + strconv.Itoa(gid) + " " + esc(fn) + " " + esc(obj) + " " + esc(op) + " " + esc(arg) + " " + esc(res)
	s.trace = append(s.trace, line)
	if len(s.cfg.Hold) >= 2 && !s.holdDone && gid >= 0 {
		if s.holdArmed[gid] && strings.Contains(line, s.cfg.Hold[1]) && s.holdSkip > 0 {
			// not yet: the n-th occurrence is wanted
			s.holdSkip--
			s.holdArmed[gid] = false
		} else if s.holdArmed[gid] && strings.Contains(line, s.cfg.Hold[1]) {
			if s.held == nil {
				s.held = map[int]bool{}
			}
			s.held[gid] = true
			s.holdDone = true
			s.trace = append(s.trace, "X "+strconv.Itoa(gid)+" hold breakpoint")
		} else if strings.Contains(line, s.cfg.Hold[0]) {
			if s.holdArmed == nil {
				s.holdArmed = map[int]bool{}
			}
			s.holdArmed[gid] = true
		}
	}
}

func (s *Sched) logRaw(tag, kind, rest string) {
	if s.cfg.NoTrace {
		return
	}
	gid := -1
	if s.cur != nil {
		gid = s.cur.id
	}
	s.trace = append(s.trace, tag+" "+strconv.Itoa(gid)+" "+kind+" "+rest)
}

// Log lets the harness add its own lines (API call/return, worker function enter/exit).
func Log(tag, kind, rest string) {
	if S.dead() {
		return
	}
	S.logRaw(tag, kind, rest)
}

func Crash(msg string) {
	if S.dead() {
		return
	}
	panic(crashPanic{msg})
}
