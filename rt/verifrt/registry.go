package verifrt

import (
	"fmt"
	"reflect"
	"sort"
	"strconv"
	"strings"
	"unsafe"
)

// registry gives stable logical names to library objects: structs allocated through the
// rewritten `&T{...}` / `new(T)` get "<Type>#<n>"; a shadow sync object living inside such a
// struct is named "<Type>#<n>.<field path>"; channels are named at their rewritten `make` site.
type region struct {
	lo, hi uintptr
	name   string
	typ    reflect.Type
	keep   any
}

type registry struct {
	regions []region // sorted by lo
	counts  map[string]int
	chans   map[uintptr]*chanInfo
	anon    map[uintptr]string
	nanon   int
	fields  map[reflect.Type][]fieldOff
}

type fieldOff struct {
	off  uintptr
	size uintptr
	path string
}

type chanInfo struct {
	name   string
	closed bool
	keep   any
}

func newRegistry() *registry {
	return &registry{counts: map[string]int{}, chans: map[uintptr]*chanInfo{}, anon: map[uintptr]string{}, fields: map[reflect.Type][]fieldOff{}}
}

func baseTypeName(t reflect.Type) string {
	n := t.Name()
	if i := strings.IndexByte(n, '['); i >= 0 {
		n = n[:i]
	}
	if n == "" {
		n = "anon"
	}
	return n
}

// New registers a freshly allocated struct and returns it unchanged.
func New[T any](p *T) *T {
	s := S
	if s.dead() || p == nil {
		return p
	}
	t := reflect.TypeOf(p).Elem()
	if t.Kind() != reflect.Struct || t.Size() == 0 {
		return p
	}
	r := s.reg
	base := baseTypeName(t)
	r.counts[base]++
	name := base + "#" + strconv.Itoa(r.counts[base])
	lo := uintptr(unsafe.Pointer(p))
	reg := region{lo: lo, hi: lo + t.Size(), name: name, typ: t, keep: p}
	i := sort.Search(len(r.regions), func(i int) bool { return r.regions[i].lo >= lo })
	r.regions = append(r.regions, region{})
	copy(r.regions[i+1:], r.regions[i:])
	r.regions[i] = reg
	return p
}

func (r *registry) find(addr uintptr) *region {
	i := sort.Search(len(r.regions), func(i int) bool { return r.regions[i].lo > addr })
	if i == 0 {
		return nil
	}
	reg := &r.regions[i-1]
	if addr >= reg.lo && addr < reg.hi {
		return reg
	}
	return nil
}

func (r *registry) fieldTable(t reflect.Type) []fieldOff {
	if ft, ok := r.fields[t]; ok {
		return ft
	}
	var out []fieldOff
	var walk func(t reflect.Type, base uintptr, path string)
	walk = func(t reflect.Type, base uintptr, path string) {
		for i := 0; i < t.NumField(); i++ {
			f := t.Field(i)
			p := f.Name
			if f.Anonymous {
				p = path
			} else if path != "" {
				p = path + "." + f.Name
			}
			out = append(out, fieldOff{off: base + f.Offset, size: f.Type.Size(), path: p})
			if f.Type.Kind() == reflect.Struct && !strings.Contains(f.Type.PkgPath(), "verifrt") {
				walk(f.Type, base+f.Offset, p)
			}
		}
	}
	walk(t, 0, "")
	r.fields[t] = out
	return out
}

// nameOf names the shadow object at address p.
func (r *registry) nameOf(p unsafe.Pointer, kind string) string {
	addr := uintptr(p)
	if reg := r.find(addr); reg != nil {
		off := addr - reg.lo
		best := ""
		for _, f := range r.fieldTable(reg.typ) {
			if f.off == off {
				// deepest path with this offset whose size is not larger than a previous match
				best = f.path
			}
		}
		if best != "" {
			return reg.name + "." + best
		}
		return reg.name + ".@" + strconv.Itoa(int(off))
	}
	if n, ok := r.anon[addr]; ok {
		return n
	}
	r.nanon++
	n := "anon#" + strconv.Itoa(r.nanon) + ":" + kind
	r.anon[addr] = n
	return n
}

// IDOf returns the logical name of a registered struct pointer (or of an interface holding one).
func IDOf(v any) string {
	s := S
	if s.dead() {
		return "?"
	}
	return s.reg.idOf(v)
}

func (r *registry) idOf(v any) string {
	if v == nil {
		return "nil"
	}
	rv := reflect.ValueOf(v)
	for rv.Kind() == reflect.Interface {
		if rv.IsNil() {
			return "nil"
		}
		rv = rv.Elem()
	}
	if rv.Kind() == reflect.Pointer {
		if rv.IsNil() {
			return "nil"
		}
		if reg := r.find(rv.Pointer()); reg != nil && reg.lo == rv.Pointer() {
			return reg.name
		}
		if reg := r.find(rv.Pointer()); reg != nil {
			return reg.name + "+" + strconv.Itoa(int(rv.Pointer()-reg.lo))
		}
		return "ptr:" + baseTypeName(rv.Type().Elem())
	}
	return ""
}

// fmtVal renders a value for the trace.
func (r *registry) fmtVal(v any) string {
	if v == nil {
		return "nil"
	}
	rv := reflect.ValueOf(v)
	return r.fmtRV(rv, 0)
}

func (r *registry) fmtRV(rv reflect.Value, depth int) string {
	if !rv.IsValid() {
		return "nil"
	}
	switch rv.Kind() {
	case reflect.Bool:
		if rv.Bool() {
			return "true"
		}
		return "false"
	case reflect.Int, reflect.Int8, reflect.Int16, reflect.Int32, reflect.Int64:
		return strconv.FormatInt(rv.Int(), 10)
	case reflect.Uint, reflect.Uint8, reflect.Uint16, reflect.Uint32, reflect.Uint64, reflect.Uintptr:
		return strconv.FormatUint(rv.Uint(), 10)
	case reflect.String:
		return "s:" + rv.String()
	case reflect.Interface:
		if rv.IsNil() {
			return "nil"
		}
		if rv.CanInterface() {
			if e, ok := rv.Interface().(error); ok {
				return "err:" + e.Error()
			}
		}
		return r.fmtRV(rv.Elem(), depth)
	case reflect.Pointer:
		if rv.IsNil() {
			return "nil"
		}
		if rv.CanInterface() {
			if e, ok := rv.Interface().(error); ok {
				return "err:" + e.Error()
			}
		}
		if reg := r.find(rv.Pointer()); reg != nil {
			if reg.lo == rv.Pointer() {
				return reg.name
			}
			return r.nameOf(unsafe.Pointer(rv.Pointer()), "ptr")
		}
		return "ptr:" + baseTypeName(rv.Type().Elem())
	case reflect.Slice:
		if rv.Type().Elem().Kind() == reflect.Uint8 {
			return "b:" + string(rv.Bytes())
		}
		if depth > 1 {
			return "[...]"
		}
		parts := make([]string, 0, rv.Len())
		for i := 0; i < rv.Len(); i++ {
			parts = append(parts, r.fmtRV(rv.Index(i), depth+1))
		}
		return "[" + strings.Join(parts, ",") + "]"
	case reflect.Struct:
		if rv.CanInterface() {
			if t, ok := rv.Interface().(Time); ok {
				return "t:" + strconv.FormatInt(t.ns, 10)
			}
		}
		if rv.NumField() <= 4 && depth < 2 {
			parts := make([]string, 0, rv.NumField())
			for i := 0; i < rv.NumField(); i++ {
				parts = append(parts, r.fmtRV(rv.Field(i), depth+1))
			}
			return "{" + strings.Join(parts, ",") + "}"
		}
		return "struct:" + baseTypeName(rv.Type())
	case reflect.Chan:
		if rv.IsNil() {
			return "nilchan"
		}
		return r.chanName(rv.Pointer())
	case reflect.Func:
		if rv.IsNil() {
			return "nil"
		}
		return "func"
	}
	return fmt.Sprintf("%v", rv.Kind())
}

func (r *registry) chanName(p uintptr) string {
	if p == 0 {
		return "nilchan"
	}
	if ci, ok := r.chans[p]; ok {
		return ci.name
	}
	return "foreignchan"
}

// fmtPtr renders *p for a pointer p to a result variable.
func (r *registry) fmtPtr(p any) string {
	rv := reflect.ValueOf(p)
	if rv.Kind() != reflect.Pointer || rv.IsNil() {
		return "?"
	}
	return r.fmtRV(rv.Elem(), 0)
}
