package verifrt

import (
	"reflect"
	"strconv"
	"time"
)

func chanPtr(ch any) uintptr {
	rv := reflect.ValueOf(ch)
	if !rv.IsValid() || rv.Kind() != reflect.Chan || rv.IsNil() {
		return 0
	}
	return rv.Pointer()
}

// MakeChan names a channel created by library code.
func MakeChan[C any](site int, ch C) C {
	s := S
	if s.dead() {
		return ch
	}
	p := chanPtr(ch)
	r := s.reg
	base := "ch"
	if site >= 0 && site < len(Sites) {
		base = Sites[site].Recv
	}
	r.counts["ch:"+base]++
	name := "ch#" + strconv.Itoa(r.counts["ch:"+base]) + ":" + base
	r.chans[p] = &chanInfo{name: name, keep: ch}
	rv := reflect.ValueOf(ch)
	s.log(site, name, "make", strconv.Itoa(rv.Cap()), "")
	return ch
}

func (s *Sched) chanInfoOf(p uintptr) *chanInfo {
	if p == 0 {
		return nil
	}
	return s.reg.chans[p]
}

func (s *Sched) isClosed(p uintptr) bool {
	ci := s.chanInfoOf(p)
	return ci != nil && ci.closed
}

// Send is the rewritten blocking `ch <- v`.
func Send[T any](site int, ch chan<- T, v T) {
	s := S
	if s.dead() {
		return
	}
	p := chanPtr(ch)
	name := s.reg.chanName(p)
	if p == 0 {
		s.yield(&pending{desc: "send nil chan", enabled: func() bool { return false }})
		return
	}
	s.yield(&pending{desc: "send " + name, enabled: func() bool {
		return s.isClosed(p) || len(ch) < cap(ch)
	}})
	if s.isClosed(p) {
		Panic(site, nil, "chan", "send on closed channel")
	}
	ch <- v
	s.log(site, name, "send", s.reg.fmtVal(v), strconv.Itoa(len(ch)))
}

// TrySend is `select { case ch <- v: ... default: ... }`.
func TrySend[T any](site int, ch chan<- T, v T) bool {
	s := S
	if s.dead() {
		return false
	}
	p := chanPtr(ch)
	name := s.reg.chanName(p)
	s.yield(&pending{desc: "trysend " + name})
	if p == 0 {
		s.log(site, name, "trysend", s.reg.fmtVal(v), "false")
		return false
	}
	if s.isClosed(p) {
		Panic(site, nil, "chan", "send on closed channel")
	}
	ok := len(ch) < cap(ch)
	if ok {
		ch <- v
	}
	s.log(site, name, "trysend", s.reg.fmtVal(v), Btoa(ok))
	return ok
}

func recvAny[T any](site int, ch <-chan T) (T, bool) {
	var zero T
	s := S
	if s.dead() {
		return zero, false
	}
	p := chanPtr(ch)
	if p == 0 {
		s.yield(&pending{desc: "recv nil chan", enabled: func() bool { return false }})
		return zero, false
	}
	ci := s.chanInfoOf(p)
	if ci == nil {
		// foreign channel (context.Done, user supplied): probe with a non-blocking receive; a
		// successful probe is the receive itself.
		var got T
		var gotOK, have bool
		s.yield(&pending{desc: "recv foreign", enabled: func() bool {
			if have {
				return true
			}
			select {
			case v, ok := <-ch:
				got, gotOK, have = v, ok, true
				return true
			default:
				return false
			}
		}})
		s.log(site, "foreignchan", "recv", "", Btoa(gotOK))
		return got, gotOK
	}
	name := ci.name
	s.yield(&pending{desc: "recv " + name, enabled: func() bool {
		return ci.closed || len(ch) > 0
	}})
	if len(ch) > 0 {
		v := <-ch
		s.log(site, name, "recv", "", s.reg.fmtVal(v))
		return v, true
	}
	// closed and empty
	s.log(site, name, "recv", "", "closed")
	return zero, false
}

func Recv[T any](site int, ch <-chan T) T {
	v, _ := recvAny(site, ch)
	return v
}

func Recv2[T any](site int, ch <-chan T) (T, bool) {
	return recvAny(site, ch)
}

// Close is the rewritten close(ch).
func Close[C any](site int, ch C) {
	s := S
	if s.dead() {
		return
	}
	p := chanPtr(ch)
	name := s.reg.chanName(p)
	s.yield(&pending{desc: "close " + name})
	if p == 0 {
		Panic(site, nil, "chan", "close of nil channel")
	}
	ci := s.chanInfoOf(p)
	if ci == nil {
		ci = &chanInfo{name: "foreignchan", keep: ch}
		s.reg.chans[p] = ci
	}
	if ci.closed {
		Panic(site, nil, "chan", "close of closed channel")
	}
	ci.closed = true
	reflect.ValueOf(ch).Close()
	s.log(site, name, "close", "", "")
}

// ---------------------------------------------------------------- general select

type SelCase struct {
	Dir  int // 0 recv, 1 send
	Ch   any
	Send any
}

func CaseRecv(ch any) SelCase        { return SelCase{Dir: 0, Ch: ch} }
func CaseSend(ch any, v any) SelCase { return SelCase{Dir: 1, Ch: ch, Send: v} }

// Select performs a general select. It returns the chosen case index (-1 = default), and for a
// receive case the received value and ok flag.
func Select(site int, hasDefault bool, cases ...SelCase) (int, reflect.Value, bool) {
	s := S
	if s.dead() {
		return -1, reflect.Value{}, false
	}
	ready := func(c SelCase) bool {
		p := chanPtr(c.Ch)
		if p == 0 {
			return false
		}
		rv := reflect.ValueOf(c.Ch)
		ci := s.chanInfoOf(p)
		if c.Dir == 1 {
			return (ci != nil && ci.closed) || rv.Len() < rv.Cap()
		}
		if ci == nil {
			return false // foreign channels in a select are handled by the probe below
		}
		return ci.closed || rv.Len() > 0
	}
	// foreign receive channels: probe non-destructively is impossible in general; they are
	// supported only when they carry no values (Done-style channels): a closed one is ready.
	probeForeign := func(c SelCase) bool {
		if c.Dir != 0 {
			return false
		}
		p := chanPtr(c.Ch)
		if p == 0 || s.chanInfoOf(p) != nil {
			return false
		}
		rv := reflect.ValueOf(c.Ch)
		chosen, _, rok := reflect.Select([]reflect.SelectCase{{Dir: reflect.SelectRecv, Chan: rv}, {Dir: reflect.SelectDefault}})
		return chosen == 0 && !rok
	}
	anyReady := func() bool {
		for _, c := range cases {
			if ready(c) || probeForeign(c) {
				return true
			}
		}
		return false
	}
	if hasDefault {
		s.yield(&pending{desc: "select+default"})
	} else {
		s.yield(&pending{desc: "select", enabled: anyReady})
	}
	for i, c := range cases {
		if !(ready(c) || probeForeign(c)) {
			continue
		}
		rv := reflect.ValueOf(c.Ch)
		p := chanPtr(c.Ch)
		name := s.reg.chanName(p)
		if c.Dir == 1 {
			if s.isClosed(p) {
				Panic(site, nil, "chan", "send on closed channel")
			}
			sv := reflect.ValueOf(c.Send)
			if !sv.IsValid() {
				sv = reflect.Zero(rv.Type().Elem())
			}
			rv.Send(sv)
			s.log(site, name, "sel.send", s.reg.fmtVal(c.Send), strconv.Itoa(i))
			return i, reflect.Value{}, false
		}
		v, ok := rv.TryRecv()
		if !ok {
			v = reflect.Zero(rv.Type().Elem())
			s.log(site, name, "sel.recv", strconv.Itoa(i), "closed")
		} else {
			s.log(site, name, "sel.recv", strconv.Itoa(i), s.reg.fmtRV(v, 0))
		}
		return i, v, ok
	}
	s.log(site, "", "sel.default", "", "")
	return -1, reflect.Value{}, false
}

// SelVal converts the value received by Select.
func SelVal[T any](v reflect.Value) T {
	var zero T
	if !v.IsValid() {
		return zero
	}
	if x, ok := v.Interface().(T); ok {
		return x
	}
	return zero
}

// ---------------------------------------------------------------- virtual time

type Time struct{ ns int64 }

func (t Time) Add(d time.Duration) Time { return Time{t.ns + int64(d)} }
func (t Time) Before(u Time) bool       { return t.ns < u.ns }
func (t Time) After(u Time) bool        { return t.ns > u.ns }
func (t Time) Equal(u Time) bool        { return t.ns == u.ns }
func (t Time) IsZero() bool             { return t.ns == 0 }
func (t Time) Sub(u Time) time.Duration { return time.Duration(t.ns - u.ns) }

func Now() Time {
	s := S
	if s.dead() {
		return Time{}
	}
	return Time{ns: s.now}
}

type Ticker struct {
	C      chan Time
	d      time.Duration
	active bool
	idx    int
	name   string
}

func NewTicker(site int, d time.Duration) *Ticker {
	s := S
	t := &Ticker{C: make(chan Time, 1), d: d, active: true}
	if s.dead() {
		return t
	}
	if d <= 0 {
		Panic(site, nil, "time", "non-positive interval for NewTicker")
	}
	t.idx = len(s.tickers)
	t.name = "ticker#" + strconv.Itoa(t.idx+1)
	s.tickers = append(s.tickers, t)
	s.reg.chans[chanPtr(t.C)] = &chanInfo{name: t.name + ".C", keep: t.C}
	s.log(site, t.name, "newticker", strconv.FormatInt(int64(d), 10), "")
	return t
}

func (t *Ticker) Stop() { t.VStop(-1) }
func (t *Ticker) VStop(site int) {
	s := S
	if s.dead() {
		return
	}
	s.yield(&pending{desc: "ticker.stop"})
	t.active = false
	s.log(site, t.name, "tickerstop", "", "")
}

// Advance lets the harness move virtual time without a tick.
func Advance(d time.Duration) {
	s := S
	if s.dead() {
		return
	}
	s.now += int64(d)
}

// Cancel wraps a call of a context.CancelFunc so that it appears in the trace.
func Cancel(site int, f func()) {
	s := S
	if s.dead() {
		return
	}
	s.yield(&pending{desc: "cancel"})
	if f != nil {
		f()
	}
	s.log(site, "", "cancel", "", "")
}
