// Package vsync shadows package sync for the instrumented build.
package vsync

import (
	"unsafe"

	rt "github.com/goptics/varmq/internal/verifrt"
)

type Locker interface {
	Lock()
	Unlock()
}

type vlocker interface {
	Locker
	unlockQuiet()
	lockedW() bool
}

// RWMutex: writer flag + reader count. Writer preference of the real RWMutex (a waiting writer
// blocks new readers) is NOT modelled; see DESIGN.md §7.
type RWMutex struct {
	w bool
	r int
}

type Mutex = RWMutex

func (m *RWMutex) Lock()         { m.VLock(-1) }
func (m *RWMutex) Unlock()       { m.VUnlock(-1) }
func (m *RWMutex) RLock()        { m.VRLock(-1) }
func (m *RWMutex) RUnlock()      { m.VRUnlock(-1) }
func (m *RWMutex) TryLock() bool { return m.VTryLock(-1) }
func (m *RWMutex) TryRLock() bool { return m.VTryRLock(-1) }

func (m *RWMutex) VLock(site int) {
	if rt.Dead() {
		return
	}
	rt.Block("mu.lock", func() bool { return !m.w && m.r == 0 })
	m.w = true
	rt.Emit(site, unsafe.Pointer(m), "mutex", "lock", "", "")
}
func (m *RWMutex) VTryLock(site int) bool {
	if rt.Dead() {
		return true
	}
	rt.Point("mu.trylock")
	ok := !m.w && m.r == 0
	if ok {
		m.w = true
	}
	rt.Emit(site, unsafe.Pointer(m), "mutex", "trylock", "", rt.Btoa(ok))
	return ok
}
func (m *RWMutex) VTryRLock(site int) bool {
	if rt.Dead() {
		return true
	}
	rt.Point("mu.tryrlock")
	// (a real RWMutex also refuses while a writer is waiting; writer preference is not modelled)
	ok := !m.w
	if ok {
		m.r++
	}
	rt.Emit(site, unsafe.Pointer(m), "mutex", "tryrlock", "", rt.Btoa(ok))
	return ok
}
func (m *RWMutex) VUnlock(site int) {
	if rt.Dead() {
		return
	}
	rt.Point("mu.unlock")
	if !m.w {
		rt.Fatal(site, unsafe.Pointer(m), "mutex", "sync: Unlock of unlocked RWMutex")
	}
	m.w = false
	rt.Emit(site, unsafe.Pointer(m), "mutex", "unlock", "", "")
}
func (m *RWMutex) VRLock(site int) {
	if rt.Dead() {
		return
	}
	rt.Block("mu.rlock", func() bool { return !m.w })
	m.r++
	rt.Emit(site, unsafe.Pointer(m), "mutex", "rlock", "", "")
}
func (m *RWMutex) VRUnlock(site int) {
	if rt.Dead() {
		return
	}
	rt.Point("mu.runlock")
	if m.r <= 0 {
		rt.Fatal(site, unsafe.Pointer(m), "mutex", "sync: RUnlock of unlocked RWMutex")
	}
	m.r--
	rt.Emit(site, unsafe.Pointer(m), "mutex", "runlock", "", "")
}
func (m *RWMutex) unlockQuiet()  { m.w = false }
func (m *RWMutex) lockedW() bool { return m.w }

// Cond
type condWaiter struct{ signaled bool }

type Cond struct {
	L       Locker
	waiters []*condWaiter
}

func NewCond(l Locker) *Cond { return rt.New(&Cond{L: l}) }

func (c *Cond) Wait() { c.VWait(-1) }
func (c *Cond) VWait(site int) {
	if rt.Dead() {
		return
	}
	rt.Point("cond.wait")
	w := &condWaiter{}
	c.waiters = append(c.waiters, w)
	vl, ok := c.L.(vlocker)
	if !ok {
		rt.Crash("verifrt: Cond with a foreign Locker")
	}
	if !vl.lockedW() {
		rt.Fatal(site, unsafe.Pointer(c), "cond", "sync: unlock of unlocked mutex")
	}
	vl.unlockQuiet()
	rt.Emit(site, unsafe.Pointer(c), "cond", "park", "", rt.Itoa(len(c.waiters)))
	rt.Block("cond.parked", func() bool { return w.signaled })
	rt.Emit(site, unsafe.Pointer(c), "cond", "wake", "", "")
	if m, ok := c.L.(*RWMutex); ok {
		m.VLock(site)
	} else {
		c.L.Lock()
	}
}
func (c *Cond) Broadcast() { c.VBroadcast(-1) }
func (c *Cond) VBroadcast(site int) {
	if rt.Dead() {
		return
	}
	rt.Point("cond.broadcast")
	n := len(c.waiters)
	for _, w := range c.waiters {
		w.signaled = true
	}
	c.waiters = nil
	rt.Emit(site, unsafe.Pointer(c), "cond", "broadcast", "", rt.Itoa(n))
}
func (c *Cond) Signal() { c.VSignal(-1) }
func (c *Cond) VSignal(site int) {
	if rt.Dead() {
		return
	}
	rt.Point("cond.signal")
	n := 0
	if len(c.waiters) > 0 {
		c.waiters[0].signaled = true
		c.waiters = c.waiters[1:]
		n = 1
	}
	rt.Emit(site, unsafe.Pointer(c), "cond", "signal", "", rt.Itoa(n))
}

// WaitGroup
type WaitGroup struct{ n int }

func (wg *WaitGroup) Add(d int) { wg.VAdd(-1, d) }
func (wg *WaitGroup) Done()     { wg.VDone(-1) }
func (wg *WaitGroup) Wait()     { wg.VWait(-1) }
func (wg *WaitGroup) VAdd(site int, d int) {
	if rt.Dead() {
		wg.n += d
		return
	}
	rt.Point("wg.add")
	if wg.n+d < 0 {
		rt.Emit(site, unsafe.Pointer(wg), "wg", "add", rt.Itoa(d), rt.Itoa(wg.n+d))
		rt.Panic(site, unsafe.Pointer(wg), "wg", "sync: negative WaitGroup counter")
	}
	wg.n += d
	rt.Emit(site, unsafe.Pointer(wg), "wg", "add", rt.Itoa(d), rt.Itoa(wg.n))
}
func (wg *WaitGroup) VDone(site int) { wg.VAdd(site, -1) }
func (wg *WaitGroup) VWait(site int) {
	if rt.Dead() {
		return
	}
	rt.Block("wg.wait", func() bool { return wg.n == 0 })
	rt.Emit(site, unsafe.Pointer(wg), "wg", "wait", "", "")
}
func (wg *WaitGroup) Go(f func()) {
	wg.Add(1)
	rt.Go(-1, func() { defer wg.Done(); f() })
}

// Pool is a deterministic LIFO stand-in for sync.Pool (no per-P caches, no GC drops).
type Pool struct {
	New   func() any
	items []any
}

func (p *Pool) Get() any  { return p.VGet(-1) }
func (p *Pool) Put(x any) { p.VPut(-1, x) }
func (p *Pool) VGet(site int) any {
	if rt.Dead() {
		if p.New != nil {
			return p.New()
		}
		return nil
	}
	rt.Point("pool.get")
	var x any
	fresh := false
	if n := len(p.items); n > 0 {
		x = p.items[n-1]
		p.items = p.items[:n-1]
	} else if p.New != nil {
		x = p.New()
		fresh = true
	}
	rt.Emit(site, unsafe.Pointer(p), "pool", "get", rt.Btoa(fresh), rt.FmtVal(x))
	return x
}
func (p *Pool) VPut(site int, x any) {
	if rt.Dead() {
		return
	}
	rt.Point("pool.put")
	p.items = append(p.items, x)
	rt.Emit(site, unsafe.Pointer(p), "pool", "put", rt.FmtVal(x), "")
}

// Once shadows sync.Once: the first caller runs f under the Once's mutex, every other caller blocks on that mutex until
// f has returned (which is what sync.Once guarantees); the events are the lock / unlock of that mutex.
type Once struct {
	m    RWMutex
	done bool
}

func (o *Once) Do(f func()) { o.VDo(-1, f) }

func (o *Once) VDo(site int, f func()) {
	o.m.VLock(site)
	defer o.m.VUnlock(site)
	if !o.done {
		defer func() { o.done = true }()
		f()
	}
}
