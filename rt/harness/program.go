package main

import (
	"context"
	"errors"
	"fmt"
	"sort"
	"strings"
	"time"

	"github.com/goptics/varmq/internal/queues"

	varmq "github.com/goptics/varmq"
	rt "github.com/goptics/varmq/internal/verifrt"
)

// Program is one client program: configuration + k client threads of API calls.
type Program struct {
	Family   string   `json:"family"`
	Kind     string   `json:"kind"` // plain | err | result
	Conc     int      `json:"conc"`
	ExpiryNs int64    `json:"expiry,omitempty"`
	MinIdle  int      `json:"minidle,omitempty"`
	Strategy int      `json:"strategy"` // 0 rr 1 max 2 min
	Ctx      bool     `json:"ctx,omitempty"`
	Queues   []string `json:"queues"` // bound in setup: fifo | prio | pers | persprio | dist | distprio
	Threads  [][]Op   `json:"threads"`
	WFYields int      `json:"wfyields"`
	Outcomes []int    `json:"outcomes,omitempty"` // by payload: 0 ok, 1 error, 2 panic
	Gate     bool     `json:"gate,omitempty"`     // worker function blocks until released
	Errs     bool     `json:"errs,omitempty"`     // a goroutine consumes Errs()
	MaxTicks int      `json:"maxticks,omitempty"`
	TickHold bool     `json:"tickhold,omitempty"` // ticks fire only after the op "ticks"
	Hold     string   `json:"hold,omitempty"`     // breakpoint "A|B" (verifrt.Config.Hold): a directed schedule for a check-then-act window
	AckHold   bool    `json:"ackhold,omitempty"`   // Acknowledge of the adapters blocks until the op "ackopen"
	NoIDBatch bool    `json:"noidbatch,omitempty"` // batch items k with k%3 == 1 are submitted without an ID
	PCT      bool     `json:"pct,omitempty"`      // prefer priority-based schedules (few preemptions at random depths)
	TickBias int      `json:"tickbias,omitempty"`
	Faults   []Fault  `json:"faults,omitempty"`
	Preload  []int    `json:"preload,omitempty"` // payloads already on adapter 0 before binding
	BadEntry []int    `json:"badentry,omitempty"` // positions (in Preload order) of undecodable entries
	BadKinds []int    `json:"badkinds,omitempty"` // what each of them looks like (see adapter.preload)
	Paused   bool     `json:"paused,omitempty"`  // pause right after setup
	CrashAt  int      `json:"crashat,omitempty"` // cut the execution after this many adapter calls and recover (0 = never)
	Tag      string   `json:"tag,omitempty"`     // promise of the generator: "seq" | "ordered"
	Consumers int     `json:"consumers,omitempty"` // number of workers consuming the shared distributed adapter (default 1)
	Steps    int      `json:"steps,omitempty"`    // scheduler step budget for this program (0 = default)
	Caps     []int    `json:"caps,omitempty"`     // [initial, max] FIFO segment capacities for this execution (default: the library's)
}

type Fault struct {
	Op  string `json:"op"` // enq | deq | ack
	Nth int    `json:"nth"`
}

type Op struct {
	Op    string `json:"op"`
	Q     int    `json:"q,omitempty"`
	K     int    `json:"k,omitempty"`
	Ks    []int  `json:"ks,omitempty"`
	Prio  int    `json:"prio,omitempty"`
	Prios []int  `json:"prios,omitempty"`
	N     int    `json:"n,omitempty"`
	B     int    `json:"b,omitempty"`
	NoID  bool   `json:"noid,omitempty"`
}

// ---------------------------------------------------------------- handles

type jobHandle interface {
	ID() string
	Status() string
	IsClosed() bool
	Wait()
	Close() error
}

type groupHandle interface {
	NumPending() int
	Wait()
}

type queueHandle interface {
	add(k int, prio int, noid bool) (jobHandle, bool)
	addAll(ks []int, prios []int) groupHandle
	Purge()
	Close() error
	NumPending() int
}

type env struct {
	p        *Program
	w        varmq.Worker
	bind     func(kind string) queueHandle
	qs       []queueHandle
	jobs     map[int]jobHandle
	added    map[int]int // payload -> 0 unknown, 1 accepted, 2 rejected
	groups   map[int]groupHandle
	released map[int]bool
	relAll   bool
	ackOpen  bool
	lifeGen  int
	cid      int
	cancel   context.CancelFunc
	adapters []*adapter
	genN     int
	entered  map[int]int
	cidx     int
	shared   *[]*adapter // adapters shared by all consumers of a distributed program
}

func (e *env) outcome(k int) int {
	if k >= 0 && k < len(e.p.Outcomes) {
		return e.p.Outcomes[k]
	}
	return 0
}

var errBoom = errors.New("boom")

// body is the worker function shared by the three worker kinds.
func (e *env) body(j varmq.Job[int]) (int, error) {
	k := j.Data()
	rt.Log("W", "enter", fmt.Sprintf("%d %s %s c%d", k, sesc(j.ID()), rt.IDOf(j), e.cidx))
	e.entered[k]++
	for i := 0; i < e.p.WFYields; i++ {
		rt.Yield()
	}
	if e.p.Gate {
		rt.WaitUntil("gate", func() bool { return e.relAll || e.released[k] })
	}
	oc := e.outcome(k)
	rt.Log("W", "exit", fmt.Sprintf("%d %d", k, oc))
	switch oc {
	case 1:
		return 0, fmt.Errorf("fail-%d", k)
	case 2:
		// panic values of different dynamic types: string, error, int, struct
		switch k % 4 {
		case 0:
			panic(fmt.Sprintf("panic-%d", k))
		case 1:
			panic(fmt.Errorf("panic-%d", k))
		case 2:
			panic(1000 + k)
		default:
			panic(struct{ K int }{k})
		}
	}
	return k*10 + 7, nil
}

func sesc(s string) string {
	if s == "" {
		return "_"
	}
	return strings.ReplaceAll(s, " ", "%20")
}

func (e *env) jobOpts(k int, noid bool) []varmq.JobConfigFunc {
	if noid {
		return nil
	}
	return []varmq.JobConfigFunc{varmq.WithJobId(fmt.Sprintf("id%d", k))}
}

func (e *env) items(ks, prios []int) []varmq.Item[int] {
	items := make([]varmq.Item[int], len(ks))
	for i, k := range ks {
		items[i] = varmq.Item[int]{ID: fmt.Sprintf("id%d", k), Data: k}
		if e.p.NoIDBatch && k%3 == 1 {
			items[i].ID = "" // the worker's ID generator names this item
		}
		if i < len(prios) {
			items[i].Priority = prios[i]
		}
	}
	return items
}

// ---- plain worker
type plainQ struct {
	e  *env
	q  varmq.Queue[int]
	pq varmq.PriorityQueue[int]
	sq varmq.PersistentQueue[int]
	sp varmq.PersistentPriorityQueue[int]
	dq varmq.DistributedQueue[int]
	dp varmq.DistributedPriorityQueue[int]
}

func (q *plainQ) base() varmq.IExternalBaseQueue {
	switch {
	case q.q != nil:
		return q.q
	case q.pq != nil:
		return q.pq
	case q.sq != nil:
		return q.sq
	case q.sp != nil:
		return q.sp
	case q.dq != nil:
		return q.dq
	}
	return q.dp
}
func (q *plainQ) Purge()          { q.base().Purge() }
func (q *plainQ) Close() error    { return q.base().Close() }
func (q *plainQ) NumPending() int { return q.base().NumPending() }
func (q *plainQ) add(k, prio int, noid bool) (jobHandle, bool) {
	o := q.e.jobOpts(k, noid)
	switch {
	case q.q != nil:
		j, ok := q.q.Add(k, o...)
		if !ok {
			return nil, false
		}
		return j, true
	case q.pq != nil:
		j, ok := q.pq.Add(k, prio, o...)
		if !ok {
			return nil, false
		}
		return j, true
	case q.sq != nil:
		return nil, q.sq.Add(k, o...)
	case q.sp != nil:
		return nil, q.sp.Add(k, prio, o...)
	case q.dq != nil:
		return nil, q.dq.Add(k, o...)
	}
	return nil, q.dp.Add(k, prio, o...)
}
func (q *plainQ) addAll(ks, prios []int) groupHandle {
	switch {
	case q.q != nil:
		return q.q.AddAll(q.e.items(ks, prios))
	case q.pq != nil:
		return q.pq.AddAll(q.e.items(ks, prios))
	}
	return nil
}

// ---- err worker
type errQ struct {
	e  *env
	q  varmq.ErrQueue[int]
	pq varmq.ErrPriorityQueue[int]
}

func (q *errQ) base() varmq.IExternalBaseQueue {
	if q.q != nil {
		return q.q
	}
	return q.pq
}
func (q *errQ) Purge()          { q.base().Purge() }
func (q *errQ) Close() error    { return q.base().Close() }
func (q *errQ) NumPending() int { return q.base().NumPending() }
func (q *errQ) add(k, prio int, noid bool) (jobHandle, bool) {
	o := q.e.jobOpts(k, noid)
	if q.q != nil {
		j, ok := q.q.Add(k, o...)
		if !ok {
			return nil, false
		}
		return j, true
	}
	j, ok := q.pq.Add(k, prio, o...)
	if !ok {
		return nil, false
	}
	return j, true
}
func (q *errQ) addAll(ks, prios []int) groupHandle {
	if q.q != nil {
		return q.q.AddAll(q.e.items(ks, prios))
	}
	return q.pq.AddAll(q.e.items(ks, prios))
}

// ---- result worker
type resQ struct {
	e  *env
	q  varmq.ResultQueue[int, int]
	pq varmq.ResultPriorityQueue[int, int]
}

func (q *resQ) base() varmq.IExternalBaseQueue {
	if q.q != nil {
		return q.q
	}
	return q.pq
}
func (q *resQ) Purge()          { q.base().Purge() }
func (q *resQ) Close() error    { return q.base().Close() }
func (q *resQ) NumPending() int { return q.base().NumPending() }
func (q *resQ) add(k, prio int, noid bool) (jobHandle, bool) {
	o := q.e.jobOpts(k, noid)
	if q.q != nil {
		j, ok := q.q.Add(k, o...)
		if !ok {
			return nil, false
		}
		return j, true
	}
	j, ok := q.pq.Add(k, prio, o...)
	if !ok {
		return nil, false
	}
	return j, true
}
func (q *resQ) addAll(ks, prios []int) groupHandle {
	if q.q != nil {
		return q.q.AddAll(q.e.items(ks, prios))
	}
	return q.pq.AddAll(q.e.items(ks, prios))
}

// ---------------------------------------------------------------- setup

func (e *env) configs() []any {
	p := e.p
	cs := []any{p.Conc}
	if p.ExpiryNs > 0 {
		cs = append(cs, varmq.WithIdleWorkerExpiryDuration(time.Duration(p.ExpiryNs)))
	}
	if p.MinIdle > 0 {
		cs = append(cs, varmq.WithMinIdleWorkerRatio(uint8(p.MinIdle)))
	}
	if p.Strategy > 0 {
		cs = append(cs, varmq.WithStrategy(varmq.Strategy(p.Strategy)))
	}
	if p.Ctx {
		ctx, cancel := context.WithCancel(context.Background())
		e.cancel = cancel
		cs = append(cs, varmq.WithContext(ctx))
	}
	cs = append(cs, varmq.WithJobIdGenerator(func() string {
		e.genN++
		return fmt.Sprintf("gen%d", e.genN)
	}))
	return cs
}

func (e *env) newAdapter(prio bool) *adapter {
	if e.shared != nil && len(*e.shared) > len(e.adapters) {
		// recovery / further consumer: reuse the adapter that already exists
		a := (*e.shared)[len(e.adapters)]
		e.adapters = append(e.adapters, a)
		return a
	}
	a := newAdapter(len(e.adapters), prio, e.p.Faults)
	a.crashAt = e.p.CrashAt
	if e.p.AckHold {
		a.hold = func() bool { return e.ackOpen }
	}
	e.adapters = append(e.adapters, a)
	if e.shared != nil {
		*e.shared = append(*e.shared, a)
	}
	return a
}

// newObjAdapter: a custom in-memory queue (WithQueue) that also acknowledges; it stores the job objects themselves, so the
// producer's handle and the job the worker runs are one object with an acknowledgement ID
func (e *env) newObjAdapter() *adapter {
	a := e.newAdapter(false)
	a.objMode = true
	return a
}

func (e *env) adapterFor(i int, prio bool) *adapter {
	// distributed programs may share adapter 0 between queues
	return e.newAdapter(prio)
}

func (e *env) setup() {
	p := e.p
	switch p.Kind {
	case "err":
		wb := varmq.NewErrWorker(func(j varmq.Job[int]) error {
			_, err := e.body(j)
			return err
		}, e.configs()...)
		e.w = wb
		e.bind = func(kind string) queueHandle {
			switch kind {
			case "prio":
				return &errQ{e: e, pq: wb.BindPriorityQueue()}
			case "ackq":
				return &errQ{e: e, q: wb.WithQueue(e.newObjAdapter())}
			default:
				return &errQ{e: e, q: wb.BindQueue()}
			}
		}
	case "result":
		wb := varmq.NewResultWorker(func(j varmq.Job[int]) (int, error) {
			return e.body(j)
		}, e.configs()...)
		e.w = wb
		e.bind = func(kind string) queueHandle {
			switch kind {
			case "prio":
				return &resQ{e: e, pq: wb.BindPriorityQueue()}
			case "ackq":
				return &resQ{e: e, q: wb.WithQueue(e.newObjAdapter())}
			default:
				return &resQ{e: e, q: wb.BindQueue()}
			}
		}
	default:
		wb := varmq.NewWorker(func(j varmq.Job[int]) {
			e.body(j)
		}, e.configs()...)
		e.w = wb
		e.bind = func(kind string) queueHandle {
			switch kind {
			case "prio":
				return &plainQ{e: e, pq: wb.BindPriorityQueue()}
			case "ackq":
				return &plainQ{e: e, q: wb.WithQueue(e.newObjAdapter())}
			case "pers":
				return &plainQ{e: e, sq: wb.WithPersistentQueue(e.newAdapter(false))}
			case "persprio":
				return &plainQ{e: e, sp: wb.WithPersistentPriorityQueue(e.newAdapter(true).prioView())}
			case "dist":
				return &plainQ{e: e, dq: wb.WithDistributedQueue(e.sharedAdapter(false))}
			case "distprio":
				return &plainQ{e: e, dp: wb.WithDistributedPriorityQueue(e.sharedAdapter(true).prioView())}
			default:
				return &plainQ{e: e, q: wb.BindQueue()}
			}
		}
	}
}

func (e *env) sharedAdapter(prio bool) *adapter {
	if len(*e.shared) > 0 {
		a := (*e.shared)[0]
		if len(e.adapters) == 0 {
			e.adapters = append(e.adapters, a)
		}
		return a
	}
	return e.newAdapter(prio)
}

// ---------------------------------------------------------------- interpreter

func errCode(err error) string {
	switch {
	case err == nil:
		return "nil"
	case errors.Is(err, varmq.ErrRunningWorker):
		return "ErrRunningWorker"
	case errors.Is(err, varmq.ErrNotRunningWorker):
		return "ErrNotRunningWorker"
	case errors.Is(err, varmq.ErrSameConcurrency):
		return "ErrSameConcurrency"
	case errors.Is(err, varmq.ErrJobProcessing):
		return "ErrJobProcessing"
	case errors.Is(err, varmq.ErrJobAlreadyClosed):
		return "ErrJobAlreadyClosed"
	case errors.Is(err, varmq.ErrAcknowledgeJob):
		return "ErrAcknowledgeJob"
	}
	return "err:" + sesc(err.Error())
}

func (e *env) call(api string, args string) int {
	e.cid++
	rt.Log("C", fmt.Sprint(e.cid), api+" "+args)
	return e.cid
}
func (e *env) ret(cid int, api string, res string) {
	rt.Log("R", fmt.Sprint(cid), api+" "+res)
	switch api {
	case "restart", "resume", "stop", "waitandstop", "bind", "cancelctx":
		e.lifeGen++ // the error channel may have been replaced: the Errs() consumer looks again
	}
}

func (e *env) waitJob(k int) jobHandle {
	rt.WaitUntil("handle", func() bool { return e.added[k] != 0 })
	rt.Sync("acq", fmt.Sprintf("job:%d", k)) // the handle was passed to this thread by the submitter
	return e.jobs[k]
}

func (e *env) exec(op Op) {
	w := e.w
	switch op.Op {
	case "add":
		c := e.call("add", fmt.Sprintf("%d %d %d", op.Q, op.K, op.Prio))
		j, ok := e.qs[op.Q].add(op.K, op.Prio, op.NoID)
		ref := "nil"
		if j != nil {
			ref = rt.IDOf(j)
			e.jobs[op.K] = j
		}
		rt.Sync("rel", fmt.Sprintf("job:%d", op.K))
		if ok {
			e.added[op.K] = 1
		} else {
			e.added[op.K] = 2
		}
		e.ret(c, "add", fmt.Sprintf("%d %v %s", op.K, ok, ref))
	case "addall":
		c := e.call("addall", fmt.Sprintf("%d %d %s %s", op.Q, op.B, ints(op.Ks), ints(op.Prios)))
		g := e.qs[op.Q].addAll(op.Ks, op.Prios)
		rt.Sync("rel", fmt.Sprintf("grp:%d", op.B))
		e.groups[op.B] = g
		for _, k := range op.Ks {
			rt.Sync("rel", fmt.Sprintf("job:%d", k))
			e.added[k] = 1 // acceptance of batch items is not reported by the API
		}
		e.ret(c, "addall", fmt.Sprintf("%d %s", op.B, rt.IDOf(g)))
	case "jclose":
		j := e.waitJob(op.K)
		if j == nil {
			return
		}
		c := e.call("jclose", fmt.Sprint(op.K))
		err := j.Close()
		e.ret(c, "jclose", fmt.Sprintf("%d %s", op.K, errCode(err)))
	case "jwait":
		j := e.waitJob(op.K)
		if j == nil {
			return
		}
		c := e.call("jwait", fmt.Sprint(op.K))
		j.Wait()
		e.ret(c, "jwait", fmt.Sprintf("%d %s", op.K, j.Status()))
	case "jstatus":
		j := e.waitJob(op.K)
		if j == nil {
			return
		}
		c := e.call("jstatus", fmt.Sprint(op.K))
		s := j.Status()
		e.ret(c, "jstatus", fmt.Sprintf("%d %s", op.K, s))
	case "jresult":
		j := e.waitJob(op.K)
		if j == nil {
			return
		}
		c := e.call("jresult", fmt.Sprint(op.K))
		switch h := j.(type) {
		case varmq.EnqueuedResultJob[int]:
			v, err := h.Result()
			e.ret(c, "jresult", fmt.Sprintf("%d %d %s", op.K, v, errCode(err)))
		case varmq.EnqueuedErrJob:
			err := h.Err()
			e.ret(c, "jresult", fmt.Sprintf("%d 0 %s", op.K, errCode(err)))
		default:
			j.Wait()
			e.ret(c, "jresult", fmt.Sprintf("%d 0 nil", op.K))
		}
	case "jdrain":
		j := e.waitJob(op.K)
		if d, ok := j.(varmq.Drainer); ok {
			c := e.call("jdrain", fmt.Sprint(op.K))
			d.Drain()
			e.ret(c, "jdrain", fmt.Sprint(op.K))
		}
	case "gwait":
		rt.WaitUntil("group", func() bool { return e.groups[op.B] != nil })
		rt.Sync("acq", fmt.Sprintf("grp:%d", op.B))
		c := e.call("gwait", fmt.Sprint(op.B))
		e.groups[op.B].Wait()
		e.ret(c, "gwait", fmt.Sprintf("%d %d", op.B, e.groups[op.B].NumPending()))
	case "gpending":
		rt.WaitUntil("group", func() bool { return e.groups[op.B] != nil })
		rt.Sync("acq", fmt.Sprintf("grp:%d", op.B))
		c := e.call("gpending", fmt.Sprint(op.B))
		n := e.groups[op.B].NumPending()
		e.ret(c, "gpending", fmt.Sprintf("%d %d", op.B, n))
	case "gcollect":
		// read the batch stream until it is closed
		rt.WaitUntil("group", func() bool { return e.groups[op.B] != nil })
		rt.Sync("acq", fmt.Sprintf("grp:%d", op.B))
		c := e.call("gcollect", fmt.Sprint(op.B))
		var got []string
		switch g := e.groups[op.B].(type) {
		case varmq.EnqueuedResultGroupJob[int]:
			ch := g.Results()
			for {
				r, ok := rt.Recv2(-1, ch)
				if !ok {
					break
				}
				got = append(got, fmt.Sprintf("%s|%d|%s", sesc(r.JobId), r.Data, errCode(r.Err)))
			}
		case varmq.EnqueuedErrGroupJob:
			ch := g.Errs()
			for {
				r, ok := rt.Recv2(-1, ch)
				if !ok {
					break
				}
				got = append(got, fmt.Sprintf("_|0|%s", errCode(r)))
			}
		}
		e.ret(c, "gcollect", fmt.Sprintf("%d [%s]", op.B, strings.Join(got, ",")))
	case "purge":
		c := e.call("purge", fmt.Sprint(op.Q))
		e.qs[op.Q].Purge()
		e.ret(c, "purge", fmt.Sprint(op.Q))
	case "qclose":
		c := e.call("qclose", fmt.Sprint(op.Q))
		err := e.qs[op.Q].Close()
		e.ret(c, "qclose", fmt.Sprintf("%d %s", op.Q, errCode(err)))
	case "qpending":
		c := e.call("qpending", fmt.Sprint(op.Q))
		n := e.qs[op.Q].NumPending()
		e.ret(c, "qpending", fmt.Sprintf("%d %d", op.Q, n))
	case "pause":
		c := e.call("pause", "")
		err := w.Pause()
		e.ret(c, "pause", errCode(err)+" "+w.Status())
	case "pauseandwait":
		c := e.call("pauseandwait", "")
		err := w.PauseAndWait()
		e.ret(c, "pauseandwait", errCode(err)+" "+w.Status())
	case "resume":
		c := e.call("resume", "")
		err := w.Resume()
		e.ret(c, "resume", errCode(err)+" "+w.Status())
	case "stop":
		c := e.call("stop", "")
		err := w.Stop()
		e.ret(c, "stop", errCode(err)+" "+w.Status())
	case "waitandstop":
		c := e.call("waitandstop", "")
		err := w.WaitAndStop()
		e.ret(c, "waitandstop", errCode(err)+" "+w.Status())
	case "restart":
		c := e.call("restart", "")
		err := w.Restart()
		e.ret(c, "restart", errCode(err)+" "+w.Status())
	case "tune":
		c := e.call("tune", fmt.Sprint(op.N))
		err := w.TunePool(op.N)
		e.ret(c, "tune", fmt.Sprintf("%s %d", errCode(err), w.NumConcurrency()))
	case "wuf":
		c := e.call("wuf", "")
		w.WaitUntilFinished()
		e.ret(c, "wuf", "")
	case "bind":
		kind := "fifo"
		if op.N == 1 {
			kind = "prio"
		}
		if op.N == 2 && e.p.Kind == "plain" {
			// a persistent queue that already holds entries (op.Ks) is bound while the worker is in use
			kind = "pers"
			a := e.newAdapter(false)
			a.preload(op.Ks, nil, nil)
			e.adapters = e.adapters[:len(e.adapters)-1] // bind() below takes it again
		}
		c := e.call("bind", kind)
		q := e.bind(kind)
		e.qs = append(e.qs, q)
		e.ret(c, "bind", fmt.Sprintf("%d %s", len(e.qs)-1, w.Status()))
	case "status":
		c := e.call("status", "")
		_ = w.Context() // introspection: must be free to run next to any control call
		_ = w.Errs()
		e.ret(c, "status", fmt.Sprintf("%s %v %v %v", w.Status(), w.IsRunning(), w.IsPaused(), w.IsStopped()))
	case "counts":
		c := e.call("counts", "")
		m := w.Metrics()
		e.ret(c, "counts", fmt.Sprintf("%d %d %d %d %d %d %d %d", w.NumPending(), w.NumProcessing(), w.NumConcurrency(), w.NumIdleWorkers(), m.Submitted(), m.Completed(), m.Successful(), m.Failed()))
	case "mreset":
		// (only in the family of the same name, which no check of a counter property runs)
		c := e.call("mreset", "")
		w.Metrics().Reset()
		e.ret(c, "mreset", "")
	case "cancelctx":
		if e.cancel != nil {
			c := e.call("cancelctx", "")
			e.cancel()
			e.ret(c, "cancelctx", "")
		}
	case "release":
		rt.Yield()
		e.released[op.K] = true
		rt.Log("C", "0", fmt.Sprintf("release %d", op.K))
	case "releaseall":
		rt.Yield()
		e.relAll = true
		rt.Log("C", "0", "releaseall")
	case "yield":
		rt.Yield()
	case "waitidle":
		rt.WaitIdle()
		rt.Log("C", "0", "rest") // nothing else can run at this moment
	case "ackopen":
		rt.Yield()
		e.ackOpen = true
		rt.Log("C", "0", "ackopen")
	case "ticks":
		rt.AllowTicks()
	case "advance":
		// virtual time passes without a tick (N nanoseconds)
		rt.Yield()
		rt.Advance(time.Duration(op.N))
	}
}

func ints(xs []int) string {
	if len(xs) == 0 {
		return "[]"
	}
	s := make([]string, len(xs))
	for i, x := range xs {
		s[i] = fmt.Sprint(x)
	}
	return "[" + strings.Join(s, ",") + "]"
}

func newEnv(p *Program, shared *[]*adapter, cidx int) *env {
	return &env{p: p, jobs: map[int]jobHandle{}, added: map[int]int{}, groups: map[int]groupHandle{}, released: map[int]bool{}, entered: map[int]int{}, shared: shared, cidx: cidx}
}

func (e *env) bindAll(first bool) {
	p := e.p
	for i, kind := range p.Queues {
		adapterKind := kind == "dist" || kind == "distprio" || kind == "pers" || kind == "persprio"
		if first && i == 0 && len(p.Preload) > 0 && adapterKind && len(*e.shared) == 0 {
			a := e.newAdapter(kind == "distprio" || kind == "persprio")
			e.adapters = e.adapters[:0] // bind() below takes it again
			a.preload(p.Preload, p.BadEntry, p.BadKinds)
		}
		c := e.call("bind", kind)
		e.qs = append(e.qs, e.bind(kind))
		e.ret(c, "bind", fmt.Sprintf("%d %s", i, e.w.Status()))
	}
}

func (e *env) final(done []bool) {
	stuck := 0
	for _, d := range done {
		if !d {
			stuck++
		}
	}
	live := rt.NumLive()
	w := e.w
	m := w.Metrics()
	rt.Log("F", "final", fmt.Sprintf("status=%s pending=%d processing=%d conc=%d idle=%d submitted=%d completed=%d successful=%d failed=%d stuck=%d livelib=%d livewf=%d",
		w.Status(), w.NumPending(), w.NumProcessing(), w.NumConcurrency(), w.NumIdleWorkers(), m.Submitted(), m.Completed(), m.Successful(), m.Failed(), stuck, live["lib"], live["wf"]))
	for i, q := range e.qs {
		rt.Log("F", "queue", fmt.Sprintf("%d %d", i, q.NumPending()))
	}
	// status of every job handle at rest
	ks := make([]int, 0, len(e.jobs))
	for k := range e.jobs {
		ks = append(ks, k)
	}
	sort.Ints(ks)
	for _, k := range ks {
		if j := e.jobs[k]; j != nil {
			rt.Log("F", "job", fmt.Sprintf("%d %s", k, j.Status()))
		}
	}
}

func runProgram(p *Program, cfg rt.Config) *rt.Result {
	shared := []*adapter{}
	res := runPhase(p, cfg, &shared, true)
	if res.Aborted {
		// the process died: a fresh process binds to what the adapters hold now
		for _, a := range shared {
			a.recover()
		}
		cfg2 := cfg
		cfg2.Seed = cfg.Seed + 7
		cfg2.Schedule = nil
		if cfg2.Strategy == "replay" {
			cfg2.Strategy = "random"
		}
		res2 := runPhase(p, cfg2, &shared, false)
		res.Trace = append(append(res.Trace, "X 0 recover phase2"), res2.Trace...)
		res.Quiescent = res2.Quiescent
		res.Crashed = res2.Crashed
		res.Blocked = res2.Blocked
		res.Steps += res2.Steps
	}
	return res
}

func runPhase(p *Program, cfg rt.Config, shared *[]*adapter, first bool) *rt.Result {
	if len(p.Caps) == 2 {
		oi, om := queues.VerifSetCaps(p.Caps[0], p.Caps[1])
		defer queues.VerifSetCaps(oi, om)
	}
	return rt.Run(cfg, func() {
		e := newEnv(p, shared, 0)
		e.setup()
		e.bindAll(first)
		var others []*env
		for c := 1; c < p.Consumers; c++ {
			o := newEnv(p, shared, c)
			o.setup()
			o.bindAll(false)
			others = append(others, o)
		}
		if p.Paused && first {
			e.exec(Op{Op: "pause"})
		}
		var done []bool
		if first {
			done = make([]bool, len(p.Threads))
			for ti, th := range p.Threads {
				ti, th := ti, th
				rt.GoRole("client", func() {
					for _, op := range th {
						e.exec(op)
					}
					done[ti] = true
				})
			}
		}
		if p.Errs {
			for _, x := range append([]*env{e}, others...) {
				x := x
				rt.GoRole("errs", func() {
					for {
						// Errs() takes a lock of the worker: call it from this goroutine only, never from a
						// condition evaluated by the scheduler
						gen := x.lifeGen
						ch := x.w.Errs()
						if ch != nil {
							for {
								v, ok := rt.Recv2(-1, ch)
								if !ok {
									break
								}
								rt.Log("O", "err", sesc(v.Error()))
							}
						}
						rt.WaitUntil("errs-new", func() bool { return x.lifeGen != gen })
					}
				})
			}
		}
		rt.WaitIdle()
		rt.Sync("joinall", "_") // the main goroutine continues after the client threads
		// final observations at quiescence
		e.final(done)
		for _, o := range others {
			m := o.w.Metrics()
			rt.Log("F", "consumer", fmt.Sprintf("%d status=%s submitted=%d completed=%d successful=%d failed=%d", o.cidx, o.w.Status(), m.Submitted(), m.Completed(), m.Successful(), m.Failed()))
		}
		for _, a := range *shared {
			a.dump()
		}
	})
}
