package main

import "math/rand"

var families = map[string]func(r *rand.Rand, i int) *Program{
	"basic": genBasic,
}

func kinds(r *rand.Rand) string { return []string{"plain", "err", "result"}[r.Intn(3)] }

func genBasic(r *rand.Rand, i int) *Program {
	p := &Program{Kind: kinds(r), Conc: 1 + r.Intn(3), Queues: []string{[]string{"fifo", "prio"}[r.Intn(2)]}, WFYields: r.Intn(3)}
	nt := 1 + r.Intn(2)
	k := 0
	for t := 0; t < nt; t++ {
		var th []Op
		n := 1 + r.Intn(4)
		for j := 0; j < n; j++ {
			th = append(th, Op{Op: "add", K: k, Prio: r.Intn(3)})
			if r.Intn(3) == 0 {
				th = append(th, Op{Op: "jwait", K: k})
			}
			k++
		}
		if r.Intn(2) == 0 {
			th = append(th, Op{Op: "wuf"})
		}
		p.Threads = append(p.Threads, th)
	}
	return p
}
