package main

import "math/rand"

// Program families (DESIGN.md §3.3). Every random choice comes from r, which is seeded from
// (VERIF_SEED, execution index), so a program is reproducible from the seed alone; replays carry
// the program itself.
var families = map[string]func(r *rand.Rand, i int) *Program{
	"basic":     genBasic,
	"lifecycle": genLifecycle,
	"barriers":  genBarriers,
	"cancel":    genCancel,
	"batch":     genBatch,
	"pool":      genPool,
	"tune":      genTune,
	"pause":     genPause,
	"status":    genStatus,
	"counts":    genCounts,
	"outcomes":  genOutcomes,
	"gate":      genGate,
	"lifeseq":   genLifeSeq,
	"order":     genOrder,
	"multiq":    genMultiQ,
	"tunewrap":  genTuneWrap,
	"persist":   genPersist,
	"crash":     genCrash,
	"slowack":   genSlowAck,
	"ackq":      genAckQ,
	"mreset":    genMReset,
	"dist":      genDist,
	"lenrace":   genLenRace,
	"burst":     genBurst,
	"bigbatch":  genBigBatch,
	"reap":      genReap,
	"eqprio":    genEqPrio,
	"shrink":    genShrink,
	"stale":     genStale,
	"bind2":     genBind2,
}

// bind2: a persistent queue that already holds entries is bound to a worker that is already running
// (possibly idle, its event loop asleep): the entries have to be processed without any further event.
func genBind2(r *rand.Rand, i int) *Program {
	g := &gen{r: r}
	p := &Program{Kind: "plain", Conc: 1 + r.Intn(2), Queues: []string{qkind(r)}, WFYields: r.Intn(2)}
	var t []Op
	for j := 0; j < r.Intn(4); j++ {
		t = append(t, Op{Op: "yield"})
	}
	if r.Intn(3) == 0 {
		t = append(t, g.add(), Op{Op: "wuf"})
	}
	ks := []int{200, 201, 202}[:1+r.Intn(3)]
	t = append(t, Op{Op: "bind", N: 2, Ks: ks}, Op{Op: "counts"})
	p.Threads = [][]Op{t}
	if r.Intn(3) == 0 {
		p.Threads = append(p.Threads, []Op{{Op: "pause"}, {Op: "yield"}, {Op: "resume"}})
	}
	return p
}

// stale: the event loop of the previous run is parked in the middle of reserve() (after it loaded
// curProcessing and the limit) across a TunePool down and a Restart, and released when everybody else
// is at rest: the check-then-act of reserve() against a second dispatcher. Worker functions are gated.
func genStale(r *rand.Rand, i int) *Program {
	p := &Program{Kind: "plain", Conc: 2 + r.Intn(2), Queues: []string{qkind(r)}, Gate: true,
		Hold: "worker.reserve worker#1.curProcessing load|worker.reserve worker#1.concurrency load|1"}
	t := []Op{{Op: "add", K: 0}, {Op: "add", K: 1}, {Op: "release", K: 0}, {Op: "jresult", K: 0}, {Op: "tune", N: 1}, {Op: "restart"},
		{Op: "release", K: 1}, {Op: "jresult", K: 1}, {Op: "add", K: 2}, {Op: "add", K: 3}, {Op: "waitidle"}, {Op: "counts"}, {Op: "releaseall"}, {Op: "wuf"}}
	if r.Intn(3) == 0 {
		// variants: no TunePool (the bound is then the original limit), or Restart before TunePool
		t = []Op{{Op: "add", K: 0}, {Op: "add", K: 1}, {Op: "release", K: 0}, {Op: "jresult", K: 0}, {Op: "restart"}, {Op: "tune", N: 1},
			{Op: "release", K: 1}, {Op: "jresult", K: 1}, {Op: "add", K: 2}, {Op: "add", K: 3}, {Op: "waitidle"}, {Op: "counts"}, {Op: "releaseall"}, {Op: "wuf"}}
	}
	p.Threads = [][]Op{t}
	return p
}

// shrink: a pool kept full by a high minimum-idle ratio is tuned down while new jobs are dispatched
// and finish: TunePool's shrink loop against the dispatcher and freePoolNode.
func genShrink(r *rand.Rand, i int) *Program {
	g := &gen{r: r}
	p := &Program{Kind: kinds(r), Conc: 2 + r.Intn(3), Queues: []string{qkind(r)}, WFYields: r.Intn(3), MinIdle: []int{100, 100, 60}[r.Intn(3)]}
	a := g.adds(p.Conc)
	a = append(a, Op{Op: "wuf"}, Op{Op: "tune", N: 1 + r.Intn(p.Conc-1)}, Op{Op: "counts"})
	b := []Op{{Op: "yield"}}
	for j := 0; j < 1+r.Intn(3); j++ {
		b = append(b, Op{Op: "yield"}, g.add())
	}
	b = append(b, Op{Op: "wuf"}, Op{Op: "counts"})
	p.Threads = [][]Op{a, b}
	if r.Intn(2) == 0 {
		// directed: the tuning goroutine is parked right after its first look at the idle list until
		// everybody else has come to rest
		p.Hold = "worker.TunePool worker#1.concurrency store|List#1 ret:"
	}
	return p
}

// eqprio: limit 1, one queue, producers submitting jobs of few distinct priorities while the worker
// is dispatching: submissions of one thread with equal priority must start in submission order.
func genEqPrio(r *rand.Rand, i int) *Program {
	g := &gen{r: r}
	p := &Program{Kind: kinds(r), Conc: 1, Queues: []string{[]string{"prio", "prio", "fifo"}[r.Intn(3)]}, WFYields: 4 + r.Intn(20)}
	nt := 1 + r.Intn(2)
	for t := 0; t < nt; t++ {
		var th []Op
		for j := 0; j < 3+r.Intn(3); j++ {
			a := g.add()
			a.Prio = r.Intn(2)
			th = append(th, a)
			if r.Intn(4) == 0 {
				th = append(th, Op{Op: "yield"})
			}
		}
		p.Threads = append(p.Threads, th)
	}
	p.Threads[0] = append(p.Threads[0], Op{Op: "wuf"})
	return p
}

// reap: the idle-worker reaper against the dispatcher: several workers become idle, time passes
// (two ticks make them expired), then new submissions race the reaper's pass over its snapshot.
func genReap(r *rand.Rand, i int) *Program {
	g := &gen{r: r}
	p := &Program{Kind: kinds(r), Conc: 3 + r.Intn(3), Queues: []string{qkind(r)}, WFYields: 1 + r.Intn(2),
		MinIdle: []int{0, 1, 34}[r.Intn(3)], ExpiryNs: 1000, MaxTicks: 1 + r.Intn(3), TickBias: 2 + r.Intn(4), TickHold: true}
	a := g.adds(p.Conc)
	a = append(a, Op{Op: "wuf"}, Op{Op: "advance", N: 5000}, Op{Op: "ticks"})
	a = append(a, g.adds(2+r.Intn(3))...)
	a = append(a, Op{Op: "wuf"}, Op{Op: "counts"})
	p.Threads = [][]Op{a}
	if r.Intn(3) == 0 {
		p.Threads = append(p.Threads, []Op{{Op: "yield"}, {Op: "yield"}, {Op: "add", K: 50}, {Op: "counts"}})
	}
	if r.Intn(4) == 0 {
		// the reaper is parked in the middle of a pass (after taking its snapshot of the idle list) across a
		// Stop and a Restart, and released when everybody else is at rest: a pass that outlives its run
		p.Conc = 2 + r.Intn(2)
		p.MinIdle = 0
		p.MaxTicks = 2 + r.Intn(2)
		p.Hold = "worker.goRemoveIdleWorkers$1 ticker|ret:NodeSlice"
		g2 := &gen{r: r}
		t := g2.adds(p.Conc)
		t = append(t, Op{Op: "wuf"}, Op{Op: "advance", N: 5000}, Op{Op: "ticks"}, Op{Op: "yield"}, Op{Op: "yield"}, Op{Op: "stop"}, Op{Op: "restart"}, Op{Op: "counts"}, Op{Op: "waitidle"}, Op{Op: "counts"})
		p.Threads = [][]Op{t}
		return p
	}
	if r.Intn(3) == 0 {
		// the limit is tuned after the pool has grown, then time passes at rest: the reaper has to trim to
		// the minimum of the NEW limit (non-default ratio, enough ticks at rest)
		p.Conc = 4 + r.Intn(3)
		p.MinIdle = []int{50, 34, 100}[r.Intn(3)]
		p.MaxTicks = 4 + r.Intn(3)
		g2 := &gen{r: r}
		t := g2.adds(p.Conc)
		t = append(t, Op{Op: "wuf"}, Op{Op: "tune", N: []int{1, 2, 8, 12}[r.Intn(4)]}, Op{Op: "advance", N: 5000}, Op{Op: "ticks"}, Op{Op: "counts"})
		p.Threads = [][]Op{t}
	}
	return p
}

// bigbatch: one batch of several hundred items whose stream is read only after Wait (or never).
func genBigBatch(r *rand.Rand, i int) *Program {
	p := &Program{Kind: []string{"result", "err", "plain"}[r.Intn(3)], Conc: 2 + r.Intn(3), Queues: []string{qkind(r)}, Steps: 400000}
	n := 260 + r.Intn(120)
	var ks, prios []int
	for j := 0; j < n; j++ {
		ks = append(ks, j)
		prios = append(prios, r.Intn(3))
		oc := 0
		if p.Kind == "err" {
			oc = 1
		}
		p.Outcomes = append(p.Outcomes, oc)
	}
	th := []Op{{Op: "addall", B: 0, Ks: ks, Prios: prios}, {Op: "gwait", B: 0}, {Op: "gpending", B: 0}}
	if p.Kind != "plain" && r.Intn(2) == 0 {
		th = append(th, Op{Op: "gcollect", B: 0})
	}
	p.Threads = [][]Op{th}
	return p
}

// burst: several producers cross FIFO segment boundaries concurrently (segment capacities lowered
// for the execution so that a handful of jobs crosses several boundaries).
func genBurst(r *rand.Rand, i int) *Program {
	g := &gen{r: r}
	caps := [][]int{{1, 1}, {1, 2}, {2, 3}, {2, 2}, {3, 4}}
	p := &Program{Kind: kinds(r), Conc: 1 + r.Intn(3), Queues: []string{"fifo"}, Caps: caps[r.Intn(len(caps))], WFYields: r.Intn(2), Paused: r.Intn(3) == 0}
	nt := 2 + r.Intn(2)
	for t := 0; t < nt; t++ {
		th := g.adds(2 + r.Intn(3))
		if r.Intn(3) == 0 {
			th = append(th, Op{Op: "qpending"})
		}
		p.Threads = append(p.Threads, th)
	}
	if r.Intn(3) == 0 {
		// a batch that crosses segment boundaries while somebody else dequeues down to the empty queue (Purge does)
		var ks, prios []int
		for j := 0; j < 4+r.Intn(6); j++ {
			ks = append(ks, g.k)
			prios = append(prios, 0)
			g.k++
		}
		p.Threads = append(p.Threads, []Op{{Op: "addall", B: 0, Ks: ks, Prios: prios}, {Op: "gwait", B: 0}})
		p.Threads = append(p.Threads, []Op{{Op: "purge"}, {Op: "yield"}, {Op: "purge"}})
	}
	if p.Paused {
		p.Threads = append(p.Threads, []Op{{Op: "yield"}, {Op: "yield"}, {Op: "resume"}})
	}
	p.Threads[0] = append(p.Threads[0], Op{Op: "wuf"})
	return p
}

// lenrace: length readers racing producers and purgers on a paused worker (nobody else dequeues).
func genLenRace(r *rand.Rand, i int) *Program {
	g := &gen{r: r}
	p := &Program{Kind: kinds(r), Conc: 1 + r.Intn(2), Queues: []string{"fifo"}, Paused: r.Intn(3) > 0}
	a := g.adds(1 + r.Intn(3))
	purger := []Op{{Op: "purge"}}
	if r.Intn(2) == 0 {
		purger = append(purger, Op{Op: "purge"})
	}
	reader := []Op{{Op: "qpending"}, {Op: "counts"}, {Op: "qpending"}}
	p.Threads = [][]Op{a, purger, reader}
	if r.Intn(2) == 0 {
		p.Threads = append(p.Threads, g.adds(1+r.Intn(2)))
	}
	return p
}

// persist: persistent (acknowledging) queues with preloaded entries, undecodable entries and adapter faults.
func genPersist(r *rand.Rand, i int) *Program {
	g := &gen{r: r, k: 100}
	p := &Program{Kind: "plain", Conc: 1 + r.Intn(3), Queues: []string{[]string{"pers", "persprio"}[r.Intn(2)]}, WFYields: r.Intn(2), Errs: true}
	n := r.Intn(5)
	for j := 0; j < n; j++ {
		p.Preload = append(p.Preload, j)
		if r.Intn(5) == 0 {
			p.BadEntry = append(p.BadEntry, j)
			p.BadKinds = append(p.BadKinds, r.Intn(6))
		}
	}
	for j := 0; j < 8; j++ {
		p.Outcomes = append(p.Outcomes, []int{0, 0, 0, 2}[r.Intn(4)])
	}
	if r.Intn(3) == 0 {
		p.Faults = append(p.Faults, Fault{Op: []string{"enq", "deq", "ack"}[r.Intn(3)], Nth: 1 + r.Intn(3)})
	}
	a := g.adds(r.Intn(4))
	p.Threads = [][]Op{append(a, Op{Op: "wuf"})}
	if r.Intn(3) == 0 {
		p.Threads = append(p.Threads, []Op{{Op: "pause"}, {Op: "yield"}, {Op: "resume"}})
	}
	if r.Intn(5) == 0 {
		// the worker's context is cancelled while deliveries are under way
		p.Ctx = true
		p.Threads = append(p.Threads, []Op{{Op: "yield"}, {Op: "cancelctx"}})
	}
	return p
}

// slowack: the backend's Acknowledge blocks for a while (until "ackopen"); meanwhile the program comes to rest and is observed.
// A job whose acknowledgement is in progress keeps its slot: nothing handed out may be waiting behind it.
func genSlowAck(r *rand.Rand, i int) *Program {
	g := &gen{r: r, k: 100}
	p := &Program{Kind: "plain", Conc: 1 + r.Intn(3), Queues: []string{[]string{"pers", "persprio"}[r.Intn(2)]}, WFYields: r.Intn(2), AckHold: true}
	for j := 0; j < r.Intn(3); j++ {
		p.Preload = append(p.Preload, j)
	}
	t := g.adds(p.Conc + 1 + r.Intn(3))
	t = append(t, Op{Op: "waitidle"}, Op{Op: "counts"})
	if r.Intn(3) == 0 {
		t = append(t, g.adds(1+r.Intn(2))...)
		t = append(t, Op{Op: "waitidle"}, Op{Op: "counts"})
	}
	t = append(t, Op{Op: "ackopen"}, Op{Op: "wuf"})
	p.Threads = [][]Op{t}
	if r.Intn(3) == 0 {
		p.Threads = append(p.Threads, []Op{{Op: "tune", N: 1 + r.Intn(3)}})
	}
	return p
}

// ackq: the programs of the cancel / status / basic / outcomes families on a custom in-memory queue bound with WithQueue that
// also acknowledges (IQueue + IAcknowledgeable): the producer's handle and the job the worker runs are the same object, it
// carries an acknowledgement ID, and its owner may Close it at any moment — also right when the worker closes it.
func genAckQ(r *rand.Rand, i int) *Program {
	var p *Program
	switch r.Intn(4) {
	case 0:
		p = genCancel(r, i)
	case 1:
		p = genStatus(r, i)
	case 2:
		p = genOutcomes(r, i)
	default:
		p = genBasic(r, i)
	}
	for q := range p.Queues {
		p.Queues[q] = "ackq"
	}
	return p
}

// mreset: the programs of the counts family with a monitor that samples and resets the metrics while jobs are submitted and
// finish (Metrics().Reset() is a public call like any other; only the race check runs this family: the counter properties
// are stated for counters nobody resets)
func genMReset(r *rand.Rand, i int) *Program {
	p := genCounts(r, i)
	var m []Op
	for j := 0; j < 1+r.Intn(3); j++ {
		m = append(m, Op{Op: "counts"}, Op{Op: "mreset"})
	}
	p.Threads = append(p.Threads, m)
	return p
}

// crash: the process dies after a random number of adapter calls; a fresh worker recovers.
func genCrash(r *rand.Rand, i int) *Program {
	p := genPersist(r, i)
	p.Faults = nil
	p.BadEntry = nil
	p.BadKinds = nil
	p.Outcomes = nil
	p.CrashAt = 1 + r.Intn(14)
	return p
}

// dist: 1..3 consumers on one shared distributed adapter, items present before binding and added later.
func genDist(r *rand.Rand, i int) *Program {
	g := &gen{r: r, k: 100}
	p := &Program{Kind: "plain", Conc: 1 + r.Intn(2), Queues: []string{[]string{"dist", "distprio"}[r.Intn(2)]}, WFYields: r.Intn(2), Consumers: 1 + r.Intn(3), Errs: r.Intn(2) == 0}
	n := r.Intn(4)
	for j := 0; j < n; j++ {
		p.Preload = append(p.Preload, j)
	}
	a := g.adds(1 + r.Intn(4))
	p.Threads = [][]Op{a}
	if r.Intn(2) == 0 {
		p.Threads = append(p.Threads, g.adds(1+r.Intn(2)))
	}
	if r.Intn(5) == 0 {
		p.Faults = append(p.Faults, Fault{Op: "deq", Nth: 1 + r.Intn(3)})
	}
	if r.Intn(4) == 0 {
		// only what the adapter already holds when the consumers bind: nobody announces anything later
		if len(p.Preload) == 0 {
			p.Preload = []int{0, 1}
		}
		p.Threads = [][]Op{{{Op: "counts"}}}
	}
	return p
}

// tunewrap: TunePool with values around the int → uint32 conversion boundary.
func genTuneWrap(r *rand.Rand, i int) *Program {
	g := &gen{r: r}
	p := &Program{Kind: "plain", Conc: 1 + r.Intn(2), Queues: []string{"fifo"}}
	vals := []int{1 << 32, 2 << 32, 1<<32 + 1, 1<<32 + 2, 1<<31 + 1, 3, 2}
	p.Threads = [][]Op{{{Op: "tune", N: vals[r.Intn(len(vals))]}, {Op: "counts"}}, g.adds(1 + r.Intn(2))}
	return p
}

// order: a paused worker is loaded by one producer, then resumed: the execution order must be the
// queue's order (FIFO, or priority then FIFO), also after purge-and-reuse.
func genOrder(r *rand.Rand, i int) *Program {
	g := &gen{r: r}
	p := &Program{Kind: kinds(r), Conc: 1, Queues: []string{qkind(r)}, Paused: true, Tag: "ordered", WFYields: r.Intn(2)}
	if r.Intn(4) == 0 {
		p.Conc = 2 + r.Intn(2)
	}
	var th []Op
	n := 2 + r.Intn(7)
	for j := 0; j < n; j++ {
		a := g.add()
		a.Prio = []int{-9223372036854775808, -1, 0, 0, 1, 1, 2, 9223372036854775807}[r.Intn(8)]
		th = append(th, a)
	}
	if r.Intn(3) == 0 {
		// one batch, large enough for any size-dependent code path in the batch submission
		// (slices.Sort* switch algorithm at 12 elements), priorities mixed and repeated
		m := 3 + r.Intn(40)
		var ks, prios []int
		for j := 0; j < m; j++ {
			ks = append(ks, g.k)
			g.k++
			prios = append(prios, r.Intn(4))
		}
		b := Op{Op: "addall", B: 0, Ks: ks, Prios: prios}
		at := r.Intn(len(th) + 1)
		th = append(th[:at], append([]Op{b}, th[at:]...)...)
		p.Steps = 100000
	}
	th = append(th, Op{Op: "resume"}, Op{Op: "wuf"})
	p.Threads = [][]Op{th}
	return p
}

// multiq: several queues of mixed kinds bound to one paused worker, loaded, then resumed at
// concurrency 1: the (queue, job) sequence must follow the configured strategy.
func genMultiQ(r *rand.Rand, i int) *Program {
	g := &gen{r: r}
	p := &Program{Kind: "plain", Conc: 1, Paused: true, Tag: "ordered", Strategy: r.Intn(3)}
	nq := 2 + r.Intn(3)
	ks := []string{"fifo", "prio", "pers", "persprio", "fifo", "prio"}
	for q := 0; q < nq; q++ {
		p.Queues = append(p.Queues, ks[r.Intn(len(ks))])
	}
	if r.Intn(4) == 0 {
		// one queue of the worker's own first, a distributed queue after it (it registers through a path of its own)
		// (one distributed queue: all distributed queues of a program share one adapter)
		nq = 2
		p.Queues = []string{qkind(r), []string{"dist", "distprio"}[r.Intn(2)]}
	}
	var th []Op
	n := 2 + r.Intn(8)
	for j := 0; j < n; j++ {
		a := g.add()
		a.Q = r.Intn(nq)
		a.Prio = r.Intn(3)
		th = append(th, a)
	}
	if r.Intn(3) == 0 {
		th = append(th, Op{Op: "counts"})
	}
	th = append(th, Op{Op: "resume"}, Op{Op: "wuf"}, Op{Op: "counts"})
	p.Threads = [][]Op{th}
	return p
}

func kinds(r *rand.Rand) string { return []string{"plain", "err", "result"}[r.Intn(3)] }
func qkind(r *rand.Rand) string { return []string{"fifo", "prio"}[r.Intn(2)] }

type gen struct {
	r *rand.Rand
	k int
	b int
}

func (g *gen) add() Op {
	op := Op{Op: "add", K: g.k, Prio: g.r.Intn(3) - 1}
	g.k++
	return op
}

func (g *gen) adds(n int) []Op {
	var ops []Op
	for i := 0; i < n; i++ {
		ops = append(ops, g.add())
	}
	return ops
}

func genBasic(r *rand.Rand, i int) *Program {
	g := &gen{r: r}
	p := &Program{Kind: kinds(r), Conc: 1 + r.Intn(3), Queues: []string{qkind(r)}, WFYields: r.Intn(3)}
	nt := 1 + r.Intn(2)
	for t := 0; t < nt; t++ {
		var th []Op
		n := 1 + r.Intn(4)
		for j := 0; j < n; j++ {
			a := g.add()
			th = append(th, a)
			if r.Intn(3) == 0 {
				th = append(th, Op{Op: "jwait", K: a.K})
			}
		}
		if r.Intn(2) == 0 {
			th = append(th, Op{Op: "wuf"})
		}
		p.Threads = append(p.Threads, th)
	}
	return p
}

var lifeOps = []string{"pause", "pauseandwait", "resume", "stop", "waitandstop", "restart", "tune", "bind", "wuf", "status"}

// lifecycle: one or two control threads racing with a producer; optional context, optional expiry.
func genLifecycle(r *rand.Rand, i int) *Program {
	g := &gen{r: r}
	p := &Program{Kind: kinds(r), Conc: 1 + r.Intn(3), Queues: []string{qkind(r)}, WFYields: r.Intn(2), Ctx: r.Intn(4) == 0}
	if r.Intn(4) == 0 {
		p.ExpiryNs = 1000
		p.MaxTicks = 3
		p.TickBias = 6
	}
	var ctl []Op
	n := 1 + r.Intn(4)
	for j := 0; j < n; j++ {
		o := lifeOps[r.Intn(len(lifeOps))]
		op := Op{Op: o}
		if o == "tune" {
			op.N = 1 + r.Intn(4)
		}
		if o == "bind" {
			op.N = r.Intn(2)
		}
		ctl = append(ctl, op)
	}
	if p.Ctx && r.Intn(2) == 0 {
		ctl = append(ctl, Op{Op: "cancelctx"})
	}
	prod := g.adds(1 + r.Intn(3))
	p.Threads = [][]Op{ctl, prod}
	if r.Intn(3) == 0 {
		p.Threads = append(p.Threads, []Op{{Op: lifeOps[r.Intn(6)]}})
	}
	return p
}

// lifeseq: a single thread of lifecycle calls (for the reference state machine of C14), followed
// by a probe job.
func genLifeSeq(r *rand.Rand, i int) *Program {
	g := &gen{r: r}
	p := &Program{Kind: kinds(r), Conc: 1 + r.Intn(2), WFYields: 0, Ctx: r.Intn(3) == 0, Tag: "seq"}
	if r.Intn(3) > 0 {
		p.Queues = []string{qkind(r)}
	}
	if r.Intn(4) == 0 {
		p.ExpiryNs = 1000
		p.MaxTicks = 2
		p.TickBias = 8
	}
	var th []Op
	if len(p.Queues) > 0 && r.Intn(2) == 0 {
		th = append(th, g.adds(1+r.Intn(2))...)
	}
	n := 1 + r.Intn(5)
	for j := 0; j < n; j++ {
		o := lifeOps[r.Intn(8)]
		op := Op{Op: o}
		if o == "tune" {
			op.N = 1 + r.Intn(3)
		}
		if o == "bind" {
			op.N = r.Intn(2)
		}
		th = append(th, op, Op{Op: "status"})
		if p.Ctx && r.Intn(6) == 0 {
			th = append(th, Op{Op: "cancelctx"}, Op{Op: "waitidle"}, Op{Op: "status"})
		}
	}
	// probe: bind a queue if none, submit one job, let everything settle, read the status
	if len(p.Queues) == 0 {
		th = append(th, Op{Op: "bind"}, Op{Op: "status"})
	}
	th = append(th, Op{Op: "waitidle"}, g.add(), Op{Op: "waitidle"}, Op{Op: "status"}, Op{Op: "counts"})
	p.Threads = [][]Op{th}
	return p
}

// barriers: barrier callers × submissions × cancellations × purge.
func genBarriers(r *rand.Rand, i int) *Program {
	g := &gen{r: r}
	p := &Program{Kind: kinds(r), Conc: 1 + r.Intn(2), Queues: []string{qkind(r)}, WFYields: r.Intn(2)}
	prod := g.adds(1 + r.Intn(3))
	var extra []Op
	for _, a := range prod {
		switch r.Intn(5) {
		case 0:
			extra = append(extra, Op{Op: "jclose", K: a.K})
		}
	}
	if r.Intn(4) == 0 {
		extra = append(extra, Op{Op: "purge"})
	}
	bar := []string{"wuf", "pauseandwait", "stop", "waitandstop", "wuf", "wuf"}
	th2 := []Op{{Op: bar[r.Intn(len(bar))]}}
	if r.Intn(3) == 0 {
		th2 = append(th2, Op{Op: "resume"})
	}
	p.Threads = [][]Op{append(prod, extra...), th2}
	if r.Intn(3) == 0 {
		p.Threads = append(p.Threads, []Op{{Op: bar[r.Intn(len(bar))]}})
	}
	if r.Intn(3) == 0 {
		// a long-running job in flight while others are cancelled (the deterministic hang of §6)
		p.Gate = true
		p.Threads = append(p.Threads, []Op{{Op: "yield"}, {Op: "yield"}, {Op: "releaseall"}})
	}
	return p
}

// cancel: Close / Purge / queue Close racing dispatch and completion.
func genCancel(r *rand.Rand, i int) *Program {
	g := &gen{r: r}
	p := &Program{Kind: kinds(r), Conc: 1 + r.Intn(2), Queues: []string{qkind(r)}, WFYields: r.Intn(3)}
	prod := g.adds(2 + r.Intn(3))
	if i%5 == 3 {
		// a busy pool with a queue behind it: the entry cancelled while pending is met by the dispatcher while other
		// jobs are still running (a slot given back twice there lets one job too many start)
		p.Conc = 2
		p.WFYields = 2 + r.Intn(3)
		prod = append(prod, g.adds(5+r.Intn(2)-len(prod))...)
	}
	var a, b []Op
	for n, ad := range prod {
		a = append(a, ad)
		if i%5 == 3 && n == 2 {
			a = append(a, Op{Op: "jclose", K: ad.K})
			continue
		}
		switch r.Intn(4) {
		case 0:
			a = append(a, Op{Op: "jclose", K: ad.K})
		case 1:
			b = append(b, Op{Op: "jclose", K: ad.K})
		case 2:
			b = append(b, Op{Op: "jwait", K: ad.K})
		}
		if r.Intn(6) == 0 {
			b = append(b, Op{Op: "jclose", K: ad.K})
		}
	}
	switch r.Intn(5) {
	case 0:
		b = append(b, Op{Op: "purge"})
	case 1:
		b = append(b, Op{Op: "qclose"})
		a = append(a, g.add())
	}
	a = append(a, Op{Op: "wuf"})
	p.Threads = [][]Op{a, b}
	if r.Intn(2) == 0 {
		// a reader blocked in Result()/Err() on a job somebody tries to cancel
		var c []Op
		for j := 0; j < 1+r.Intn(2); j++ {
			c = append(c, Op{Op: "jresult", K: prod[r.Intn(len(prod))].K})
		}
		p.Threads = append(p.Threads, c)
	}
	if r.Intn(3) == 0 {
		p.Paused = true
		p.Threads = append(p.Threads, []Op{{Op: "yield"}, {Op: "resume"}})
	}
	return p
}

// batch: AddAll with rejection, cancellation, purge; stream collection.
func genBatch(r *rand.Rand, i int) *Program {
	g := &gen{r: r}
	p := &Program{Kind: kinds(r), Conc: 1 + r.Intn(3), Queues: []string{qkind(r)}, WFYields: r.Intn(2), NoIDBatch: r.Intn(3) == 0}
	n := r.Intn(5)
	if r.Intn(6) == 0 {
		n = 0
	} else if r.Intn(5) == 0 {
		n = 5 + r.Intn(4)
	}
	var ks, prios []int
	for j := 0; j < n; j++ {
		ks = append(ks, g.k)
		prios = append(prios, r.Intn(3))
		p.Outcomes = append(p.Outcomes, []int{0, 0, 1, 2}[r.Intn(4)])
		g.k++
	}
	a := []Op{{Op: "addall", B: 0, Ks: ks, Prios: prios}}
	if r.Intn(2) == 0 {
		a = append(a, Op{Op: "gpending", B: 0})
	}
	if p.Kind != "plain" {
		a = append(a, Op{Op: "gcollect", B: 0})
	}
	a = append(a, Op{Op: "gwait", B: 0}, Op{Op: "gpending", B: 0})
	var b []Op
	switch r.Intn(6) {
	case 0:
		b = append(b, Op{Op: "purge"})
	case 1:
		a = append([]Op{{Op: "qclose"}}, a...)
	case 2:
		b = append(b, Op{Op: "gpending", B: 0}, Op{Op: "gwait", B: 0})
	case 3:
		// the queue is closed while AddAll is (possibly) still running: a tail of the batch is refused
		b = append(b, Op{Op: "qclose"})
		if r.Intn(2) == 0 {
			b = append([]Op{{Op: "yield"}}, b...)
		}
	}
	p.Threads = [][]Op{a}
	if len(b) > 0 {
		p.Threads = append(p.Threads, b)
	}
	return p
}

// pool: idle expiry ticks, TunePool sequences, Stop/Restart cycles.
func genPool(r *rand.Rand, i int) *Program {
	g := &gen{r: r}
	p := &Program{Kind: "plain", Conc: 1 + r.Intn(4), Queues: []string{"fifo"}, WFYields: r.Intn(2), MinIdle: []int{0, 1, 50, 100}[r.Intn(4)]}
	if r.Intn(2) == 0 {
		p.ExpiryNs = 1000
		p.MaxTicks = 2 + r.Intn(4)
		p.TickBias = 4 + r.Intn(6)
	}
	a := g.adds(2 + r.Intn(4))
	var c []Op
	for j := 0; j < 1+r.Intn(3); j++ {
		switch r.Intn(5) {
		case 0:
			c = append(c, Op{Op: "tune", N: 1 + r.Intn(5)})
		case 1:
			c = append(c, Op{Op: "stop"}, Op{Op: "restart"})
		case 2:
			c = append(c, Op{Op: "restart"})
		case 3:
			c = append(c, Op{Op: "counts"})
		case 4:
			c = append(c, Op{Op: "wuf"}, Op{Op: "tune", N: 1 + r.Intn(5)})
		}
	}
	if r.Intn(3) == 0 {
		c = append(c, Op{Op: "stop"})
	}
	p.Threads = [][]Op{a, c}
	return p
}

// tune: TunePool up/down under load with gated worker functions (in-flight counting).
func genTune(r *rand.Rand, i int) *Program {
	g := &gen{r: r}
	p := &Program{Kind: "plain", Conc: 1 + r.Intn(3), Queues: []string{qkind(r)}, WFYields: 1 + r.Intn(2)}
	a := g.adds(3 + r.Intn(4))
	var c []Op
	for j := 0; j < 1+r.Intn(3); j++ {
		c = append(c, Op{Op: "tune", N: 1 + r.Intn(4)})
		if r.Intn(3) == 0 {
			c = append(c, Op{Op: "counts"})
		}
	}
	if r.Intn(4) == 0 {
		c = append(c, Op{Op: "bind", N: r.Intn(2)})
	}
	if r.Intn(4) == 0 {
		c = append(c, Op{Op: "pause"}, Op{Op: "resume"})
	}
	if r.Intn(3) == 0 {
		// the limit flips between n and n−1 under load: every flip down may land inside a reservation
		n := 2 + r.Intn(2)
		p.Conc = n
		c = nil
		for j := 0; j < 3+r.Intn(4); j++ {
			c = append(c, Op{Op: "tune", N: n - 1 + j%2})
		}
		a = append(a, g.adds(2)...)
	}
	p.Threads = [][]Op{a, c}
	return p
}

// pause: Pause / PauseAndWait / Stop placed against the dispatcher under continuous submission.
func genPause(r *rand.Rand, i int) *Program {
	g := &gen{r: r}
	p := &Program{Kind: kinds(r), Conc: 1 + r.Intn(2), Queues: []string{qkind(r)}, WFYields: r.Intn(2)}
	a := g.adds(2 + r.Intn(4))
	bar := []string{"pause", "pauseandwait", "stop", "pauseandwait"}
	c := []Op{{Op: bar[r.Intn(len(bar))]}, {Op: "counts"}}
	if r.Intn(2) == 0 {
		c = append(c, Op{Op: "waitidle"}, Op{Op: []string{"resume", "restart"}[r.Intn(2)]})
	}
	p.Threads = [][]Op{a, c}
	return p
}

// status: status samplers racing submission, dispatch and completion.
func genStatus(r *rand.Rand, i int) *Program {
	g := &gen{r: r}
	p := &Program{Kind: kinds(r), Conc: 1 + r.Intn(2), Queues: []string{qkind(r)}, WFYields: 1 + r.Intn(2)}
	var a, b []Op
	for j := 0; j < 1+r.Intn(3); j++ {
		ad := g.add()
		a = append(a, ad, Op{Op: "jstatus", K: ad.K})
		b = append(b, Op{Op: "jstatus", K: ad.K})
		if r.Intn(2) == 0 {
			a = append(a, Op{Op: "jwait", K: ad.K}, Op{Op: "jstatus", K: ad.K})
		}
		if r.Intn(2) == 0 {
			b = append(b, Op{Op: "jstatus", K: ad.K}, Op{Op: "jwait", K: ad.K}, Op{Op: "jstatus", K: ad.K})
		}
	}
	p.Threads = [][]Op{a, b}
	if r.Intn(3) == 0 && g.k > 0 {
		// a pending job is cancelled while the pool is busy; samplers keep reading its status while the
		// dispatcher later dequeues and skips it
		k := g.k - 1
		p.Threads = append(p.Threads, []Op{{Op: "jclose", K: k}, {Op: "jstatus", K: k}, {Op: "jstatus", K: k}, {Op: "jstatus", K: k}, {Op: "jstatus", K: k}})
		p.Conc = 1
	}
	if r.Intn(3) == 0 {
		// an owner that closes its handle as soon as the outcome is delivered
		k := r.Intn(g.k)
		p.Threads = append(p.Threads, []Op{{Op: "jresult", K: k}, {Op: "jclose", K: k}, {Op: "jstatus", K: k}})
	}
	if r.Intn(3) == 0 {
		// an owner that is not interested in the outcome: Drain() right after the submission, while the job is on its way
		k := r.Intn(g.k)
		p.Threads = append(p.Threads, []Op{{Op: "jdrain", K: k}, {Op: "jstatus", K: k}, {Op: "jwait", K: k}, {Op: "jstatus", K: k}})
	}
	return p
}

// counts: counter readers racing enqueue / dequeue / purge / completion.
func genCounts(r *rand.Rand, i int) *Program {
	g := &gen{r: r}
	p := &Program{Kind: kinds(r), Conc: 1 + r.Intn(3), Queues: []string{qkind(r)}, WFYields: r.Intn(2)}
	if r.Intn(3) == 0 {
		p.Queues = append(p.Queues, qkind(r))
	}
	for j := 0; j < 8; j++ {
		p.Outcomes = append(p.Outcomes, []int{0, 0, 1, 2}[r.Intn(4)])
	}
	a := g.adds(2 + r.Intn(4))
	for j := range a {
		a[j].Q = r.Intn(len(p.Queues))
	}
	var b []Op
	for j := 0; j < 2+r.Intn(3); j++ {
		if r.Intn(2) == 0 {
			b = append(b, Op{Op: "counts"})
		} else {
			b = append(b, Op{Op: "qpending", Q: r.Intn(len(p.Queues))})
		}
	}
	if r.Intn(4) == 0 {
		b = append(b, Op{Op: "purge", Q: r.Intn(len(p.Queues))}, Op{Op: "qpending"})
	}
	p.Threads = [][]Op{a, b}
	return p
}

// outcomes: value / error / panic per job; Result read several times by several goroutines.
func genOutcomes(r *rand.Rand, i int) *Program {
	g := &gen{r: r}
	p := &Program{Kind: kinds(r), Conc: 1 + r.Intn(3), Queues: []string{qkind(r)}, WFYields: r.Intn(2), Errs: r.Intn(2) == 0}
	var a, b []Op
	n := 1 + r.Intn(4)
	for j := 0; j < n; j++ {
		p.Outcomes = append(p.Outcomes, r.Intn(3))
		ad := g.add()
		ad.NoID = r.Intn(4) == 0
		a = append(a, ad)
		a = append(a, Op{Op: "jresult", K: ad.K})
		if r.Intn(2) == 0 {
			if r.Intn(3) == 0 {
				// Drain() on a handle whose job may not have finished, then the outcome is asked for all the same
				b = append(b, Op{Op: "jdrain", K: ad.K})
			}
			b = append(b, Op{Op: "jresult", K: ad.K})
		}
		if r.Intn(3) == 0 {
			a = append(a, Op{Op: "jresult", K: ad.K})
		}
	}
	if r.Intn(3) == 0 {
		// all submissions first, the reads afterwards: with a limit above 1 several worker functions return at about
		// the same time, each outcome has to reach its own handle
		var adds, reads []Op
		for _, op := range a {
			if op.Op == "add" {
				adds = append(adds, op)
			} else {
				reads = append(reads, op)
			}
		}
		a = append(adds, reads...)
		p.Conc = 2 + r.Intn(2)
		p.WFYields = 1
	}
	a = append(a, Op{Op: "wuf"}, Op{Op: "counts"})
	p.Threads = [][]Op{a, b}
	return p
}

// gate: worker functions block until released; checks min(pending, limit) parallelism.
func genGate(r *rand.Rand, i int) *Program {
	g := &gen{r: r}
	p := &Program{Kind: "plain", Conc: 1 + r.Intn(3), Queues: []string{qkind(r)}, Gate: true}
	a := g.adds(1 + r.Intn(5))
	var c []Op
	if r.Intn(2) == 0 {
		// also limits far beyond any int32 / uint32 arithmetic on them
		c = append(c, Op{Op: "tune", N: []int{1, 2, 3, 4, 1 << 31, 1<<32 - 1, 1 << 32, 1<<62 + 5}[r.Intn(8)]})
	}
	p.Threads = [][]Op{a}
	if len(c) > 0 {
		p.Threads = append(p.Threads, c)
	}
	if r.Intn(2) == 0 {
		// some of the gated jobs are let go one after the other while the rest stay in flight: every slot given back
		// is taken by the next pending job, which then stays in flight too — the number of invocations in flight is
		// directly visible at every start
		extra := g.adds(2 + r.Intn(4))
		p.Threads[0] = append(p.Threads[0], extra...)
		var rel []Op
		for k := 0; k < 1+r.Intn(4); k++ {
			rel = append(rel, Op{Op: "release", K: k})
			if r.Intn(3) == 0 {
				rel = append(rel, Op{Op: "yield"})
			}
		}
		p.Threads = append(p.Threads, rel)
	}
	return p
}
