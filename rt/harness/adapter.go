package main

import (
	"encoding/json"
	"fmt"
	"sort"
	"strings"

	rt "github.com/goptics/varmq/internal/verifrt"
)

// adapter is the recording stand-in for an external persistent / distributed queue. It is the
// executable twin of Spec/Adapter.lean: every method is one atomic step (preceded by a scheduling
// point) and logs one `A` line. Unacknowledged deliveries survive a crash.
type entry struct {
	data []byte
	obj  any // object mode (a custom in-memory queue bound with WithQueue that also acknowledges): the job itself
	prio int
	seq  int
}

// label of an entry in the A lines: the payload number
func (e entry) label() string {
	if e.obj != nil {
		if d, ok := e.obj.(interface{ Data() int }); ok {
			return fmt.Sprint(d.Data())
		}
		return "obj"
	}
	return payloadOf(e.data)
}

func (e entry) item() any {
	if e.obj != nil {
		return e.obj
	}
	return e.data
}

type adapter struct {
	id      int
	prio    bool
	pending []entry
	unacked map[string]entry
	order   []string // ack ids in issue order
	acked   []string
	subs    []func(string)
	seq     int
	nEnq    int
	nDeq    int
	nAck    int
	faults  []Fault
	closed  bool
	calls   int
	crashAt int  // simulate process death when this many adapter calls have been made (0 = never)
	hold    func() bool // when set: Acknowledge blocks until it returns true (a slow backend)
	objMode bool        // stores the job objects themselves (WithQueue with an acknowledging in-memory queue)
}

func newAdapter(id int, prio bool, faults []Fault) *adapter {
	return &adapter{id: id, prio: prio, unacked: map[string]entry{}, faults: faults}
}

func (a *adapter) fault(op string, nth int) bool {
	for _, f := range a.faults {
		if f.Op == op && f.Nth == nth {
			return true
		}
	}
	return false
}

func (a *adapter) log(op, arg, res string) {
	a.calls++
	rt.Log("A", fmt.Sprint(a.id), op+" "+arg+" "+res)
	if a.crashAt > 0 && a.calls == a.crashAt {
		rt.Abort()
	}
}

// recover returns unacknowledged deliveries to the pending list (in their original order) and forgets
// subscribers: the state a fresh process finds.
func (a *adapter) recover() {
	var back []entry
	for _, id := range a.order {
		if e, ok := a.unacked[id]; ok {
			back = append(back, e)
		}
	}
	sort.SliceStable(back, func(i, j int) bool { return back[i].seq < back[j].seq })
	a.pending = append(back, a.pending...)
	a.unacked = map[string]entry{}
	a.order = nil
	a.subs = nil
	a.crashAt = 0
	a.faults = nil
}

func payloadOf(b []byte) string {
	var v struct {
		Id   string `json:"id"`
		Data any    `json:"data"`
	}
	if err := json.Unmarshal(b, &v); err != nil {
		return "bad"
	}
	return fmt.Sprintf("%v", v.Data)
}

func (a *adapter) preload(ks []int, bad []int, kinds []int) {
	isBad := map[int]bool{}
	kindOf := map[int]int{}
	for n, b := range bad {
		isBad[b] = true
		if n < len(kinds) {
			kindOf[b] = kinds[n]
		} else {
			kindOf[b] = b % 6
		}
	}
	for i, k := range ks {
		var data []byte
		if isBad[i] {
			switch kindOf[i] {
			case 5:
				// a well-formed entry of a job that was already closed (written by another producer, or
				// found at recovery): delivered, never run
				data = []byte(fmt.Sprintf(`{"id":"id%d","status":"Closed","data":%d}`, k, k))
			case 0:
				data = []byte("{not json")
			case 1:
				data = []byte(fmt.Sprintf(`{"id":"id%d","status":"Bogus","data":%d}`, k, k))
			case 2:
				// valid JSON written by somebody else: no field of a job entry
				data = []byte(`{"kind":"heartbeat"}`)
			case 3:
				// a job entry without a status
				data = []byte(fmt.Sprintf(`{"id":"id%d","data":%d}`, k, k))
			default:
				data = []byte(`[1,2,3]`)
			}
		} else {
			data = []byte(fmt.Sprintf(`{"id":"id%d","status":"Queued","data":%d}`, k, k))
		}
		a.pending = append(a.pending, entry{data: data, prio: 0, seq: a.seq})
		a.seq++
		rt.Log("A", fmt.Sprint(a.id), fmt.Sprintf("preload %d %v", k, isBad[i]))
	}
}

func (a *adapter) enqueue(item any, prio int) bool {
	rt.Yield()
	a.nEnq++
	b, ok := item.([]byte)
	en := entry{data: b, prio: prio, seq: a.seq}
	if a.objMode && !ok {
		en.obj, ok = item, true
	}
	if !ok || a.closed || a.fault("enq", a.nEnq) {
		a.log("enq", "?", "false")
		return false
	}
	a.pending = append(a.pending, en)
	a.seq++
	if a.prio {
		sort.SliceStable(a.pending, func(i, j int) bool { return a.pending[i].prio < a.pending[j].prio })
	}
	a.log("enq", en.label(), "true")
	subs := a.subs
	for _, s := range subs {
		rt.Yield()
		rt.Log("A", fmt.Sprint(a.id), "notify enqueued")
		s("enqueued")
	}
	return true
}

func (a *adapter) Enqueue(item any) bool { return a.enqueue(item, 0) }

func (a *adapter) Len() int {
	rt.Yield()
	n := len(a.pending)
	a.log("len", "_", fmt.Sprint(n))
	return n
}

func (a *adapter) Dequeue() (any, bool) {
	v, ok, _ := a.DequeueWithAckId()
	return v, ok
}

func (a *adapter) DequeueWithAckId() (any, bool, string) {
	rt.Yield()
	a.nDeq++
	if len(a.pending) == 0 || a.fault("deq", a.nDeq) {
		a.log("deq", "_", "false")
		return nil, false, ""
	}
	e := a.pending[0]
	a.pending = a.pending[1:]
	id := fmt.Sprintf("ack%d-%d", a.id, e.seq)
	a.unacked[id] = e
	a.order = append(a.order, id)
	a.log("deq", e.label(), id)
	return e.item(), true, id
}

func (a *adapter) Acknowledge(ackID string) bool {
	rt.Yield()
	if a.hold != nil {
		rt.WaitUntil("ackhold", a.hold)
	}
	a.nAck++
	e, ok := a.unacked[ackID]
	if !ok || a.fault("ack", a.nAck) {
		a.log("ack", ackID, "false")
		return false
	}
	delete(a.unacked, ackID)
	a.acked = append(a.acked, ackID)
	a.log("ack", ackID, "true "+e.label())
	return true
}

func (a *adapter) Values() []any {
	rt.Yield()
	vs := make([]any, len(a.pending))
	for i, e := range a.pending {
		vs[i] = e.item()
	}
	a.log("values", "_", fmt.Sprint(len(vs)))
	return vs
}

func (a *adapter) Purge() {
	rt.Yield()
	n := len(a.pending)
	a.pending = nil
	a.log("purge", "_", fmt.Sprint(n))
}

func (a *adapter) Close() error {
	rt.Yield()
	a.closed = true
	a.log("close", "_", "_")
	return nil
}

func (a *adapter) Subscribe(fn func(string)) {
	rt.Yield()
	a.subs = append(a.subs, fn)
	a.log("subscribe", "_", fmt.Sprint(len(a.subs)))
}

func (a *adapter) dump() {
	var pend, un []string
	for _, e := range a.pending {
		pend = append(pend, e.label())
	}
	for _, id := range a.order {
		if e, ok := a.unacked[id]; ok {
			un = append(un, id+":"+e.label())
		}
	}
	rt.Log("F", "adapter", fmt.Sprintf("%d pending=[%s] unacked=[%s] acked=[%s]", a.id, strings.Join(pend, ","), strings.Join(un, ","), strings.Join(a.acked, ",")))
}

// prioAdapter gives the adapter the IPriorityQueue signature.
type prioAdapter struct{ *adapter }

func (p prioAdapter) Enqueue(item any, priority int) bool { return p.adapter.enqueue(item, priority) }

func (a *adapter) prioView() prioAdapter { return prioAdapter{a} }
