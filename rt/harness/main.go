// Command verifmain is the correspondence harness (DESIGN.md §3.3). It is compiled into the
// instrumented copy of goptics/varmq through the build overlay as package
// github.com/goptics/varmq/internal/verifmain and drives the *real* library code with generated
// client programs under the deterministic scheduler of internal/verifrt, printing one trace per
// execution for the Lean driver.
package main

import (
	"bufio"
	"encoding/json"
	"flag"
	"fmt"
	"math/rand"
	"os"
	"runtime/debug"
	"strings"

	rt "github.com/goptics/varmq/internal/verifrt"
)

func main() {
	family := flag.String("family", "basic", "program family")
	n := flag.Int("n", 100, "number of executions")
	seed := flag.Int64("seed", 1, "seed")
	replay := flag.String("replay", "", "replay file (JSON: program + schedule)")
	outPath := flag.String("out", "-", "trace output")
	maxSteps := flag.Int("maxsteps", 20000, "scheduler step budget per execution")
	quiet := flag.Bool("quiet", false, "do not print E lines (observations only)")
	hold := flag.String("hold", "", "breakpoint A|B: after a goroutine logged an event containing A, its next event containing B parks it until nobody else can run")
	mem := flag.Bool("mem", false, "log plain memory accesses (M lines) and harness synchronisation (H lines) for the race check")
	progOnly := flag.Bool("progs", false, "print generated programs only")
	diff := flag.String("diff", "", "container differential to generate: fifo | pq | manager | config | codec")
	start := flag.Int("start", 0, "first execution index")
	shard := flag.Int("shard", 0, "shard index")
	shards := flag.Int("shards", 1, "number of shards")
	flag.Parse()

	var w *bufio.Writer
	if *outPath == "-" {
		w = bufio.NewWriterSize(os.Stdout, 1<<20)
	} else {
		f, err := os.Create(*outPath)
		if err != nil {
			panic(err)
		}
		defer f.Close()
		w = bufio.NewWriterSize(f, 1<<20)
	}
	defer w.Flush()

	if *diff != "" {
		if !runDiff(*diff, *n, *seed, w) {
			fmt.Fprintln(os.Stderr, "unknown diff", *diff)
			w.Flush()
			os.Exit(2)
		}
		return
	}
	if *replay != "" {
		b, err := os.ReadFile(*replay)
		if err != nil {
			panic(err)
		}
		var rp Replay
		if err := json.Unmarshal(b, &rp); err != nil {
			panic(err)
		}
		ms := *maxSteps
		if rp.Program.Steps > 0 {
			ms = rp.Program.Steps
		}
		res := runProgram(&rp.Program, rt.Config{Seed: rp.Seed, Strategy: "replay", Schedule: rp.Schedule, MaxSteps: ms, MaxTicks: rp.Program.MaxTicks, TickHold: rp.Program.TickHold, Mem: *mem, Hold: holdOf(rp.Program.Hold)})
		emit(w, 0, &rp.Program, rp.Seed, res, *quiet)
		return
	}

	gen, ok := families[*family]
	if !ok {
		fmt.Fprintln(os.Stderr, "unknown family", *family)
		os.Exit(2)
	}
	debug.SetMemoryLimit(6 << 30)
	for i := *start; i < *n; i++ {
		if i%*shards != *shard {
			continue
		}
		es := *seed*1000003 + int64(i)
		r := rand.New(rand.NewSource(es))
		p := gen(r, i)
		p.Family = *family
		if *progOnly {
			b, _ := json.Marshal(p)
			fmt.Fprintln(w, string(b))
			continue
		}
		cfg := rt.Config{Seed: es, Strategy: "random", MaxSteps: *maxSteps, MaxTicks: p.MaxTicks, TickBias: p.TickBias, TickHold: p.TickHold, Mem: *mem}
		if *hold != "" {
			cfg.Hold = strings.SplitN(*hold, "|", 3)
		} else if p.Hold != "" {
			cfg.Hold = strings.SplitN(p.Hold, "|", 3)
		}
		if p.Steps > 0 {
			cfg.MaxSteps = p.Steps
		}
		sw := r.Intn(3)
		if p.PCT && sw == 0 {
			sw = 1
		}
		switch sw {
		case 2:
			cfg.Strategy = "sticky"
			cfg.Stick = []int{60, 80, 90, 96}[r.Intn(4)]
		case 1:
			cfg.Strategy = "pct"
			cfg.PCTDepth = 1 + r.Intn(3)
			cfg.PCTLen = 200 + r.Intn(400)
		}
		// in a third of the executions one goroutine stalls at a random step until everybody else has
		// come to rest (the shape of most check-then-act windows)
		if r.Intn(3) == 0 {
			cfg.Delays = []int{20 + r.Intn(500)}
			if r.Intn(3) == 0 {
				cfg.Delays = append(cfg.Delays, 20+r.Intn(700))
			}
		}
		rt.OnLivelock = func(res *rt.Result) {
			// the stuck goroutine cannot be stopped: report what we have and leave; the caller
			// restarts the run after this index
			emit(w, i, p, es, res, *quiet)
			w.Flush()
			os.Exit(3)
		}
		res := runProgram(p, cfg)
		emit(w, i, p, es, res, *quiet)
	}
}

type Replay struct {
	Program  Program `json:"program"`
	Seed     int64   `json:"seed"`
	Schedule []int   `json:"schedule"`
}

func emit(w *bufio.Writer, idx int, p *Program, seed int64, res *rt.Result, quiet bool) {
	pb, _ := json.Marshal(p)
	fmt.Fprintf(w, "BEGIN %d %d\n", idx, seed)
	fmt.Fprintf(w, "P %s\n", pb)
	for _, l := range res.Trace {
		if quiet && strings.HasPrefix(l, "E ") {
			continue
		}
		w.WriteString(l)
		w.WriteByte('\n')
	}
	sb, _ := json.Marshal(res.Choices)
	fmt.Fprintf(w, "S %s\n", sb)
	crashed := "_"
	if res.Crashed != "" {
		crashed = strings.ReplaceAll(res.Crashed, " ", "%20")
		crashed = strings.ReplaceAll(crashed, "\n", "%0a")
	}
	blocked := "_"
	if len(res.Blocked) > 0 {
		blocked = strings.ReplaceAll(strings.Join(res.Blocked, ";"), " ", "%20")
	}
	fmt.Fprintf(w, "END %d quiescent=%v steps=%d crashed=%s blocked=%s\n", idx, res.Quiescent, res.Steps, crashed, blocked)
}

func holdOf(h string) []string {
	if h == "" {
		return nil
	}
	return strings.SplitN(h, "|", 3)
}
