package main

import (
	"bufio"
	"encoding/json"
	"fmt"
	"math"
	"math/rand"
	"reflect"
	"strings"

	varmq "github.com/goptics/varmq"
	"github.com/goptics/varmq/internal/queues"
)

// White-box container differential (DESIGN.md §3.4): drive the real containers with generated
// operation sequences and print, per operation, the result and the internal shape. The Lean driver
// replays the same lines on the models and compares.

func shapeFifo(q *queues.Queue[int]) string {
	var parts []string
	for _, c := range queues.VerifFifoShape(q) {
		parts = append(parts, fmt.Sprintf("%d,%d,%d", c[0], c[1], c[2]))
	}
	if len(parts) == 0 {
		return "-"
	}
	return strings.Join(parts, ";")
}

func intsCSV(vs []any) string {
	parts := make([]string, len(vs))
	for i, v := range vs {
		parts[i] = fmt.Sprint(v)
	}
	return strings.Join(parts, ",")
}

func diffFifo(w *bufio.Writer, n int, seed int64) {
	caps := [][2]int{{1, 1}, {1, 2}, {2, 3}, {2, 8}, {3, 5}, {4, 4}, {5, 3}, {8, 64}, {1024, 102400}}
	for c := 0; c < n; c++ {
		r := rand.New(rand.NewSource(seed*7919 + int64(c)))
		cp := caps[r.Intn(len(caps))]
		nops := 20 + r.Intn(200)
		if cp[0] == 1024 {
			nops = 1500 + r.Intn(3500)
		}
		oi, om := queues.VerifSetCaps(cp[0], cp[1])
		q := queues.NewQueue[int]()
		fmt.Fprintf(w, "DC %d fifo %d %d\n", c, cp[0], cp[1])
		next := 0
		burst, mode := 0, 0
		for i := 0; i < nops; i++ {
			if burst == 0 {
				mode = r.Intn(10)
				burst = 1 + r.Intn(12)
				if cp[0] == 1024 {
					burst = 1 + r.Intn(1400)
				}
			}
			burst--
			switch {
			case mode <= 4:
				ok := q.Enqueue(next)
				fmt.Fprintf(w, "D %d enq %d => b:%v # %s\n", c, next, ok, shapeFifo(q))
				next++
			case mode <= 7:
				v, ok := q.Dequeue()
				if ok {
					fmt.Fprintf(w, "D %d deq => i:%v # %s\n", c, v, shapeFifo(q))
				} else {
					fmt.Fprintf(w, "D %d deq => i:none # %s\n", c, shapeFifo(q))
				}
			case mode == 8:
				burst = 0
				switch r.Intn(6) {
				case 0:
					q.Purge()
					fmt.Fprintf(w, "D %d purge => u # %s\n", c, shapeFifo(q))
				case 1:
					if r.Intn(4) == 0 {
						q.Close()
						fmt.Fprintf(w, "D %d close => u # %s\n", c, shapeFifo(q))
					}
				case 2, 3:
					fmt.Fprintf(w, "D %d values => l:%s # %s\n", c, intsCSV(q.Values()), shapeFifo(q))
				default:
					fmt.Fprintf(w, "D %d len => n:%d # %s\n", c, q.Len(), shapeFifo(q))
				}
			default:
				fmt.Fprintf(w, "D %d len => n:%d # %s\n", c, q.Len(), shapeFifo(q))
			}
		}
		queues.VerifSetCaps(oi, om)
	}
}

func shapePQ(q *queues.PriorityQueue[int]) string {
	var parts []string
	for _, c := range queues.VerifPQShape(q) {
		parts = append(parts, fmt.Sprintf("%d,%d", c[0], c[1]))
	}
	if len(parts) == 0 {
		return "-"
	}
	return strings.Join(parts, ";")
}

func diffPQ(w *bufio.Writer, n int, seed int64) {
	prios := []int{math.MinInt64, -1, 0, 0, 1, 1, 2, 5, math.MaxInt64}
	for c := 0; c < n; c++ {
		r := rand.New(rand.NewSource(seed*104729 + int64(c)))
		q := queues.NewPriorityQueue[int]()
		fmt.Fprintf(w, "DC %d pq\n", c)
		nops := 20 + r.Intn(250)
		next := 0
		wide := r.Intn(3) == 0
		for i := 0; i < nops; i++ {
			switch m := r.Intn(20); {
			case m <= 9:
				p := prios[r.Intn(len(prios))]
				if wide {
					p = r.Intn(2000) - 1000
				}
				ok := q.Enqueue(next, p)
				fmt.Fprintf(w, "D %d enq %d %d => b:%v # %s\n", c, next, p, ok, shapePQ(q))
				next++
			case m <= 15:
				v, ok := q.Dequeue()
				if ok {
					fmt.Fprintf(w, "D %d deq => i:%v # %s\n", c, v, shapePQ(q))
				} else {
					fmt.Fprintf(w, "D %d deq => i:none # %s\n", c, shapePQ(q))
				}
			case m == 16:
				fmt.Fprintf(w, "D %d len => n:%d # %s\n", c, q.Len(), shapePQ(q))
			case m == 17:
				fmt.Fprintf(w, "D %d values => l:%s # %s\n", c, intsCSV(q.Values()), shapePQ(q))
			case m == 18:
				if r.Intn(3) == 0 {
					q.Purge()
					fmt.Fprintf(w, "D %d purge => u # %s\n", c, shapePQ(q))
				}
			default:
				if r.Intn(10) == 0 {
					q.Close()
					fmt.Fprintf(w, "D %d close => u # %s\n", c, shapePQ(q))
				}
			}
		}
	}
}

func diffManager(w *bufio.Writer, n int, seed int64) {
	for c := 0; c < n; c++ {
		r := rand.New(rand.NewSource(seed*31337 + int64(c)))
		strategy := r.Intn(4) // 3 = invalid
		nq := r.Intn(6)
		lens := make([]int, nq)
		for i := range lens {
			lens[i] = r.Intn(4)
			if r.Intn(3) == 0 {
				lens[i] = 0
			}
		}
		qm := varmq.VerifNewQM(strategy, lens)
		fmt.Fprintf(w, "DC %d manager %d %s\n", c, strategy, strings.Trim(strings.Join(strings.Fields(fmt.Sprint(lens)), ","), "[]"))
		for i := 0; i < 10+r.Intn(30); i++ {
			if nq > 0 && r.Intn(3) == 0 {
				qi := r.Intn(nq)
				v := r.Intn(5)
				qm.SetLen(qi, v)
				lens[qi] = v
				fmt.Fprintf(w, "D %d setlen %d %d => u # -\n", c, qi, v)
				continue
			}
			if r.Intn(12) == 0 && nq < 8 {
				// a queue bound while the worker is already dispatching
				v := r.Intn(4)
				qm.Register(v)
				lens = append(lens, v)
				nq++
				fmt.Fprintf(w, "D %d register %d => u # -\n", c, v)
				continue
			}
			if r.Intn(10) == 0 && nq > 0 {
				// Manager.UnregisterItem: swap-with-last removal, cursor reset when it is at or past the removed slot
				qi := r.Intn(nq)
				cnt, cur := qm.Unregister(qi)
				lens[qi] = lens[nq-1]
				lens = lens[:nq-1]
				nq--
				fmt.Fprintf(w, "D %d unregister %d => x:%d,%d,%s # -\n", c, qi, cnt, cur, strings.Trim(strings.Join(strings.Fields(fmt.Sprint(qm.VerifOrder())), "."), "[]"))
				continue
			}
			idx, cur, tot := qm.Next()
			fmt.Fprintf(w, "D %d next => x:%d,%d,%d # -\n", c, idx, cur, tot)
			if idx >= 0 {
				lens[idx]--
				qm.SetLen(idx, lens[idx])
			}
		}
	}
}

func diffConfig(w *bufio.Writer, n int, seed int64) {
	r := rand.New(rand.NewSource(seed))
	cs := 0
	dc := func() { if cs%40 == 0 { fmt.Fprintf(w, "DC %d config %d\n", cs/40, varmq.VerifCpus()) }; cs++ }
	special := []int{math.MinInt64, -5, -1, 0, 1, 2, 100, 1 << 31, 1<<32 - 1, 1 << 32, 1<<32 + 1, 1 << 33, 3 << 32, math.MaxInt64, 42949672, 42949673}
	for i := 0; i < n*4; i++ {
		var v int
		if i < len(special) {
			v = special[i]
		} else {
			switch r.Intn(3) {
			case 0:
				v = r.Intn(64) - 8
			case 1:
				v = int(r.Uint64())
			default:
				v = (r.Intn(8) << 32) + r.Intn(3) - 1
			}
		}
		dc()
		fmt.Fprintf(w, "D 0 safe %d => n:%d # -\n", v, varmq.VerifSafeConcurrency(v))
	}
	for p := 0; p < 256; p++ {
		dc()
		fmt.Fprintf(w, "D 0 clamp %d => n:%d # -\n", p, varmq.VerifClamp(uint8(p)))
	}
	concs := []uint32{0, 1, 2, 3, 10, 99, 100, 101, 1000, 42949672, 42949673, 1 << 31, math.MaxUint32}
	for i := 0; i < n*4; i++ {
		var cc uint32
		if i < len(concs) {
			cc = concs[i]
		} else {
			cc = uint32(r.Intn(5000))
		}
		pct := uint8(r.Intn(256))
		if i%3 == 0 {
			pct = uint8([]int{0, 1, 50, 100}[r.Intn(4)])
		}
		dc()
		fmt.Fprintf(w, "D 0 minidle %d %d => n:%d # -\n", cc, pct, varmq.VerifMinIdle(cc, pct))
	}
}

func diffCodec(w *bufio.Writer, n int, seed int64) {
	r := rand.New(rand.NewSource(seed))
	fmt.Fprintf(w, "DC 0 codec\n")
	for s := uint32(0); s < 7; s++ {
		fmt.Fprintf(w, "D 0 jstatus %d => s:%s # -\n", s, varmq.VerifStatusString(s))
		fmt.Fprintf(w, "D 0 wstatus %d => s:%s # -\n", s, varmq.VerifWorkerStatusString(s))
	}
	strs := []string{"Created", "Queued", "Processing", "Finished", "Closed", "Unknown", "created", "", "Closed ", "Running", "Bogus"}
	for k, st := range strs {
		if k%4 == 0 {
			fmt.Fprintf(w, "DC %d codec\n", 1+k/4)
		}
		env, _ := json.Marshal(map[string]any{"id": "x", "status": st, "data": 1})
		got, err := varmq.VerifParseStatus(env)
		out := "s:" + got
		if err != nil {
			out = "e:invalid"
		}
		fmt.Fprintf(w, "D 0 parse %s => %s # -\n", strings.ReplaceAll(string(mustJSON(st)), " ", "%20"), out)
	}
	// payload / id fidelity: a test of encoding/json (assumed law), labelled as such
	payloads := []any{"", "héllo \"q\" \\ \n\t ", 0.5, -1.25e10, true, false, nil, []any{1.0, "a", nil}, map[string]any{"k": []any{map[string]any{"z": 1.0}}}, float64(1 << 52), "😀"}
	for i := 0; i < n; i++ {
		var p any
		if i < len(payloads) {
			p = payloads[i]
		} else {
			p = randPayload(r, 0)
		}
		nasty := []string{"\x00", "\a", "\v", "\x1f", "\x7f", "\U000E0001", "\u2028", "\"", "\\", "\n", "é", "😀", "<>&", "\x1b[0m"}
		id := fmt.Sprintf("id-%d-%s%c", i, nasty[r.Intn(len(nasty))], rune(0x20+r.Intn(0x250)))
		st := uint32(r.Intn(5))
		_, pid, pst, pp, err := varmq.VerifRoundTrip(id, st, p)
		var want any
		b, _ := json.Marshal(p)
		json.Unmarshal(b, &want)
		ok := err == nil && pid == id && pst == varmq.VerifStatusString(st) && reflect.DeepEqual(pp, want)
		fmt.Fprintf(w, "D 0 roundtrip %d %s => b:%v # -\n", i, strings.ReplaceAll(string(mustJSON(map[string]any{"id": id, "payload": p})), " ", "%20"), ok)
	}
	typedRoundTrips(w, n)
	// a payload that cannot be encoded is rejected at submission with no effect
	for k := 0; k < 8; k++ {
		ok, enq, items, sub, pend := varmq.VerifAddUnencodable(k)
		fmt.Fprintf(w, "D 0 unencodable %d => r:%v,%d,%d,%d,%d # -\n", k, ok, enq, items, sub, pend)
	}
}

// typedRoundTrips: payload types other than `any` (the zero / empty values are where struct tags and
// pointer-ness of the envelope matter)
func typedRoundTrips(w *bufio.Writer, base int) {
	type rec struct {
		A int
		B []string
		C map[string]int
	}
	labels := []string{"[]int{}", "[]int{1,2}", "[]int(nil)", "[][]string{}", "map[string]int{}", "map[string]int{a:1}", "struct-zero", "struct{A:1,B:[]string{},C:map{}}",
		"empty-string", "int-0", "bool-false", "nil-pointer", "[]byte{}", "empty-id"}
	oks := []bool{
		varmq.VerifRoundTripTyped("t-slice-empty", 1, []int{}),
		varmq.VerifRoundTripTyped("t-slice", 1, []int{1, 2}),
		varmq.VerifRoundTripTyped("t-slice-nil", 1, []int(nil)),
		varmq.VerifRoundTripTyped("t-slice2-empty", 1, [][]string{}),
		varmq.VerifRoundTripTyped("t-map-empty", 1, map[string]int{}),
		varmq.VerifRoundTripTyped("t-map", 1, map[string]int{"a": 1}),
		varmq.VerifRoundTripTyped("t-struct-zero", 1, rec{}),
		varmq.VerifRoundTripTyped("t-struct", 1, rec{A: 1, B: []string{}, C: map[string]int{}}),
		varmq.VerifRoundTripTyped("t-string-empty", 1, ""),
		varmq.VerifRoundTripTyped("t-int-zero", 1, 0),
		varmq.VerifRoundTripTyped("t-bool-false", 1, false),
		varmq.VerifRoundTripTyped("t-ptr-nil", 1, (*int)(nil)),
		varmq.VerifRoundTripTyped("t-bytes-empty", 1, []byte{}),
		varmq.VerifRoundTripTyped("", 1, 7), // empty id
	}
	for i, ok := range oks {
		fmt.Fprintf(w, "D 0 roundtrip %d typed-payload:%s => b:%v # -\n", base+i, labels[i], ok)
	}
}

func mustJSON(v any) []byte { b, _ := json.Marshal(v); return b }

func randPayload(r *rand.Rand, d int) any {
	switch k := r.Intn(7); {
	case k == 0:
		return r.Float64() * 1e6
	case k == 1:
		return float64(r.Int63n(1 << 53))
	case k == 2:
		b := make([]rune, r.Intn(8))
		for i := range b {
			b[i] = rune(r.Intn(0x3000))
		}
		return string(b)
	case k == 3:
		return r.Intn(2) == 0
	case k == 4 || d > 2:
		return nil
	case k == 5:
		n := r.Intn(4)
		a := make([]any, n)
		for i := range a {
			a[i] = randPayload(r, d+1)
		}
		return a
	default:
		n := r.Intn(4)
		m := map[string]any{}
		for i := 0; i < n; i++ {
			m[fmt.Sprintf("k%d", r.Intn(10))] = randPayload(r, d+1)
		}
		return m
	}
}

func diffJobCfg(w *bufio.Writer, n int, seed int64) {
	r := rand.New(rand.NewSource(seed))
	words := []string{"", "", "a", "b", "id-7", "x y", "é"}
	for c := 0; c < n; c++ {
		fmt.Fprintf(w, "DC %d jobcfg\n", c)
		k := r.Intn(6)
		ids := make([]string, k)
		for i := range ids {
			ids[i] = words[r.Intn(len(words))]
		}
		gen := fmt.Sprintf("gen%d", r.Intn(3))
		js, _ := json.Marshal(ids)
		fmt.Fprintf(w, "D %d load %s %s => s:%s # -\n", c, gen, strings.ReplaceAll(string(js), " ", "%20"), strings.ReplaceAll(varmq.VerifLoadJobConfigs(gen, ids), " ", "%20"))
		id := words[r.Intn(len(words))]
		fmt.Fprintf(w, "D %d group %s => s:%s # -\n", c, strings.ReplaceAll(string(mustJSON(id)), " ", "%20"), strings.ReplaceAll(varmq.VerifGroupId(id), " ", "%20"))
		kind, isNil := r.Intn(3), r.Intn(2) == 0
		fmt.Fprintf(w, "D %d helper %d %v => s:%s # -\n", c, kind, isNil, varmq.VerifNilHelper(kind, isNil))
	}
}

func runDiff(name string, n int, seed int64, w *bufio.Writer) bool {
	switch name {
	case "jobcfg":
		diffJobCfg(w, n, seed)
	case "fifo":
		diffFifo(w, n, seed)
	case "pq":
		diffPQ(w, n, seed)
	case "manager":
		diffManager(w, n, seed)
	case "config":
		diffConfig(w, n, seed)
	case "codec":
		diffCodec(w, n, seed)
	default:
		return false
	}
	return true
}
