package varmq

import (
	"math"
	"encoding/json"
	"reflect"

	"github.com/goptics/varmq/utils"
)

// White-box accessors for the differential tie (overlay only).

func VerifSafeConcurrency(n int) uint32 { return withSafeConcurrency(n) }
func VerifClamp(p uint8) uint8         { return clampPercentage(p) }
func VerifCpus() uint32                { return utils.Cpus() }

func VerifMinIdle(conc uint32, ratio uint8) int {
	w := &worker[int, iJob[int]]{}
	w.concurrency.Store(conc)
	w.Configs.minIdleWorkerRatio = ratio
	return w.numMinIdleWorkers()
}

// VerifRoundTrip encodes a job as the library does and parses it back.
func VerifRoundTrip(id string, status uint32, payload any) (bytes []byte, pid string, pstatus string, ppayload any, err error) {
	j := newJob(payload, jobConfigs{Id: id})
	j.status.Store(status)
	bytes, err = j.Json()
	if err != nil {
		return
	}
	v, perr := parseToJob[any](bytes)
	if perr != nil {
		err = perr
		return
	}
	pj := v.(*job[any])
	return bytes, pj.ID(), pj.Status(), pj.Data(), nil
}

// VerifRoundTripTyped does the same for a worker whose payload type is T (not `any`): what the worker function
// receives must be what a JSON round trip of the submitted value gives.
func VerifRoundTripTyped[T any](id string, status uint32, payload T) bool {
	j := newJob(payload, jobConfigs{Id: id})
	j.status.Store(status)
	bytes, err := j.Json()
	if err != nil {
		return false
	}
	v, perr := parseToJob[T](bytes)
	if perr != nil {
		return false
	}
	pj := v.(*job[T])
	var want T
	b, _ := json.Marshal(payload)
	if json.Unmarshal(b, &want) != nil {
		return false
	}
	return pj.ID() == id && reflect.DeepEqual(pj.Data(), want)
}

func VerifParseStatus(envelope []byte) (string, error) {
	v, err := parseToJob[any](envelope)
	if err != nil {
		return "", err
	}
	return v.(*job[any]).Status(), nil
}

func VerifStatusString(s uint32) string {
	j := newJob(0, jobConfigs{})
	j.status.Store(s)
	return j.Status()
}

func VerifWorkerStatusString(s uint32) string {
	w := &worker[int, iJob[int]]{}
	w.status.Store(s)
	return w.Status()
}

// VerifStrategyNext drives queueManager.next() over sizers of the given lengths.
type verifSizer struct{ n *int }

func (v verifSizer) Len() int             { return *v.n }
func (v verifSizer) Dequeue() (any, bool) { return nil, false }
func (v verifSizer) Values() []any        { return nil }
func (v verifSizer) Purge()               {}
func (v verifSizer) Close() error         { return nil }

type VerifQM struct {
	qm   queueManager
	lens []*int
}

func VerifNewQM(strategy int, lens []int) *VerifQM {
	v := &VerifQM{qm: createQueueManager(Strategy(strategy))}
	for i := range lens {
		n := lens[i]
		v.lens = append(v.lens, &n)
		v.qm.Register(&verifSizer{&n})
	}
	return v
}

func (v *VerifQM) SetLen(i, n int) { *v.lens[i] = n }

// Register binds one more queue (of length n) while the manager is in use.
func (v *VerifQM) Register(n int) {
	v.lens = append(v.lens, &n)
	v.qm.Register(&verifSizer{&n})
}

// Unregister removes queue i (Manager.UnregisterItem: swap with the last, truncate, reset the cursor when it is >= i);
// the wrapper's own index table is permuted the same way, so indices keep naming the same slots as m.items.
func (v *VerifQM) Unregister(i int) (count int, cur int) {
	var it IBaseQueue
	for _, q := range v.qm.Manager.VerifItems() {
		if q.(*verifSizer).n == v.lens[i] {
			it = q
		}
	}
	v.qm.UnregisterItem(it)
	last := len(v.lens) - 1
	v.lens[i] = v.lens[last]
	v.lens = v.lens[:last]
	return v.qm.Count(), v.qm.Manager.VerifCursorOf()
}

// VerifOrder lists, for each slot of m.items, the index of the wrapper's table it is (identity when both agree).
func (v *VerifQM) VerifOrder() []int {
	var out []int
	for _, q := range v.qm.Manager.VerifItems() {
		k := -1
		for i, p := range v.lens {
			if p == q.(*verifSizer).n {
				k = i
			}
		}
		out = append(out, k)
	}
	return out
}

// Next returns the index of the selected queue or -1 / -2 / -3 for no items / all empty / invalid strategy.
func (v *VerifQM) Next() (int, int, int) {
	q, err := v.qm.next()
	cur := v.qm.Manager.VerifCursorOf()
	if err != nil {
		switch err.Error() {
		case "no items registered":
			return -1, cur, v.qm.Len()
		case "all items are empty":
			return -2, cur, v.qm.Len()
		}
		return -3, cur, v.qm.Len()
	}
	s := q.(*verifSizer)
	for i, p := range v.lens {
		if p == s.n {
			return i, cur, v.qm.Len()
		}
	}
	return -4, cur, v.qm.Len()
}

// VerifLoadJobConfigs applies WithJobId(ids...) on top of a generator that returns gen.
func VerifLoadJobConfigs(gen string, ids []string) string {
	c := newConfig()
	c.jobIdGenerator = func() string { return gen }
	opts := make([]JobConfigFunc, len(ids))
	for i, id := range ids {
		opts[i] = WithJobId(id)
	}
	return loadJobConfigs(c, opts...).Id
}

func VerifGroupId(id string) string { return generateGroupId(id) }

// VerifNilHelper runs Func/ErrFunc/ResultFunc on a job whose function is nil (or not) and reports what happens.
func VerifNilHelper(kind int, isNil bool) (out string) {
	defer func() {
		if r := recover(); r != nil {
			if r == errNilFunction {
				out = "panicNil"
			} else {
				out = "panicOther"
			}
		}
	}()
	switch kind {
	case 0:
		var f func()
		if !isNil {
			f = func() {}
		}
		Func()(newJob(f, jobConfigs{}))
		return "ran"
	case 1:
		var f func() error
		if !isNil {
			f = func() error { return nil }
		}
		if err := ErrFunc()(newJob(f, jobConfigs{})); err == errNilFunction {
			return "errNil"
		}
		return "ran"
	default:
		var f func() (int, error)
		if !isNil {
			f = func() (int, error) { return 1, nil }
		}
		if _, err := ResultFunc[int]()(newJob(f, jobConfigs{})); err == errNilFunction {
			return "errNil"
		}
		return "ran"
	}
}

// verifStore is a minimal acknowledging adapter (never used by the library itself).
type verifStore struct {
	items [][]byte
	enq   int
}

func (s *verifStore) Len() int                   { return len(s.items) }
func (s *verifStore) Values() []any              { return nil }
func (s *verifStore) Purge()                     { s.items = nil }
func (s *verifStore) Close() error               { return nil }
func (s *verifStore) Acknowledge(id string) bool { return true }
func (s *verifStore) Enqueue(item any) bool {
	s.enq++
	b, ok := item.([]byte)
	if !ok {
		return false
	}
	s.items = append(s.items, b)
	return true
}
func (s *verifStore) Dequeue() (any, bool) {
	if len(s.items) == 0 {
		return nil, false
	}
	b := s.items[0]
	s.items = s.items[1:]
	return b, true
}
func (s *verifStore) DequeueWithAckId() (any, bool, string) {
	v, ok := s.Dequeue()
	return v, ok, "a"
}

// VerifAddUnencodable submits a payload that encoding/json cannot encode to a persistent queue of a worker that has
// not been started (nothing is dispatched) and reports: accepted?, calls of the adapter's Enqueue, entries on the
// adapter, Submitted, NumPending.
func VerifAddUnencodable(kind int) (bool, int, int, uint64, int) {
	var payload any
	switch kind {
	case 0:
		payload = make(chan int)
	case 1:
		payload = func() {}
	case 2:
		payload = map[string]any{"x": make(chan int)}
	case 3:
		payload = []any{1, func() {}}
	case 4:
		// numbers that have no JSON encoding: encoding/json refuses them, a hand-written number formatter does not
		payload = math.NaN()
	case 5:
		payload = math.Inf(1)
	case 6:
		payload = float32(math.Inf(-1))
	default:
		payload = map[string]any{"v": math.NaN()}
	}
	w := newWorker(func(j iJob[any]) {})
	st := &verifStore{}
	q := newPersistentQueue[any](w, st)
	ok := q.Add(payload)
	return ok, st.enq, len(st.items), w.metrics.Submitted(), w.NumPending()
}
