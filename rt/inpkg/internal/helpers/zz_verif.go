package helpers

// White-box accessors for the container differential (overlay only).

func VerifCursor[T Sizer](m *Manager[T]) int { return m.roundRobinIndex }

func VerifSetCursor[T Sizer](m *Manager[T], i int) { m.roundRobinIndex = i }

func (m *Manager[T]) VerifCursorOf() int { return m.roundRobinIndex }

func (m *Manager[T]) VerifItems() []T { return m.items }
