package queues

import (
	"reflect"
	"unsafe"
)

// White-box accessors for the container differential (added through the build overlay only;
// never part of /repo).

func VerifSetCaps(initial, max int) (oldInitial, oldMax int) {
	oldInitial, oldMax = initialBufferCapacity, chunkMaxCapacity
	initialBufferCapacity, chunkMaxCapacity = initial, max
	return
}

// VerifFifoShape returns (Cap, NextReadIndex, NextWriteIndex) of every chunk reachable from readChunk.
func VerifFifoShape[T any](q *Queue[T]) [][3]int {
	var out [][3]int
	for c := q.readChunk; c != nil; c = c.Next {
		out = append(out, [3]int{c.Cap(), c.NextReadIndex, c.NextWriteIndex})
	}
	return out
}

// VerifFifoCounters reads the two counters whatever the tree calls or keeps them (reflection, so that a refactoring of the
// queue's fields does not take the whole harness down with it); ^0 when a counter is not there any more.
func VerifFifoCounters[T any](q *Queue[T]) (uint64, uint64) {
	rd := func(name string) uint64 {
		f := reflect.ValueOf(q).Elem().FieldByName(name)
		if !f.IsValid() || !f.CanAddr() {
			return ^uint64(0)
		}
		m := reflect.NewAt(f.Type(), unsafe.Pointer(f.UnsafeAddr())).MethodByName("Load")
		if !m.IsValid() {
			return ^uint64(0)
		}
		out := m.Call(nil)
		if len(out) != 1 || !out[0].CanUint() {
			return ^uint64(0)
		}
		return out[0].Uint()
	}
	return rd("writeCount"), rd("readCount")
}

// VerifPQShape returns the heap array as (priority, insertion index) pairs.
func VerifPQShape[T any](q *PriorityQueue[T]) [][2]int {
	var out [][2]int
	for _, it := range q.internal.items {
		out = append(out, [2]int{it.Priority, it.Index})
	}
	return out
}

// VerifPQInsertionCount reads the tie-break counter whatever its representation is (plain integer or an
// atomic type with a Load method); -1 when there is no such field any more.
func VerifPQInsertionCount[T any](q *PriorityQueue[T]) int {
	f := reflect.ValueOf(q).Elem().FieldByName("insertionCount")
	if !f.IsValid() {
		return -1
	}
	switch f.Kind() {
	case reflect.Int, reflect.Int8, reflect.Int16, reflect.Int32, reflect.Int64:
		return int(f.Int())
	case reflect.Uint, reflect.Uint8, reflect.Uint16, reflect.Uint32, reflect.Uint64:
		return int(f.Uint())
	}
	if f.CanAddr() {
		m := reflect.NewAt(f.Type(), unsafe.Pointer(f.UnsafeAddr())).MethodByName("Load")
		if m.IsValid() && m.Type().NumIn() == 0 && m.Type().NumOut() == 1 {
			r := m.Call(nil)[0]
			switch r.Kind() {
			case reflect.Int, reflect.Int8, reflect.Int16, reflect.Int32, reflect.Int64:
				return int(r.Int())
			case reflect.Uint, reflect.Uint8, reflect.Uint16, reflect.Uint32, reflect.Uint64:
				return int(r.Uint())
			}
		}
	}
	return -1
}
