package queues

// White-box accessors for the container differential (added through the build overlay only;
// never part of /repo).

func VerifSetCaps(initial, max int) (oldInitial, oldMax int) {
	oldInitial, oldMax = initialBufferCapacity, chunkMaxCapacity
	initialBufferCapacity, chunkMaxCapacity = initial, max
	return
}

// VerifFifoShape returns (Cap, NextReadIndex, NextWriteIndex) of every chunk reachable from readChunk.
func VerifFifoShape[T any](q *Queue[T]) [][3]int {
	var out [][3]int
	for c := q.readChunk; c != nil; c = c.Next {
		out = append(out, [3]int{c.Cap(), c.NextReadIndex, c.NextWriteIndex})
	}
	return out
}

func VerifFifoCounters[T any](q *Queue[T]) (uint64, uint64) {
	return q.writeCount.Load(), q.readCount.Load()
}

// VerifPQShape returns the heap array as (priority, insertion index) pairs.
func VerifPQShape[T any](q *PriorityQueue[T]) [][2]int {
	var out [][2]int
	for _, it := range q.internal.items {
		out = append(out, [2]int{it.Priority, it.Index})
	}
	return out
}

func VerifPQInsertionCount[T any](q *PriorityQueue[T]) int { return q.insertionCount }
