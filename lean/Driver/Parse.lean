import VarmqVerif.Spec.Obs
/-! Line protocol parser of the correspondence driver (DESIGN.md §3.3): harness lines → `Obs`. -/
namespace VarmqVerif.Driver
open VarmqVerif

def toks (s : String) : List String := (s.splitOn " ").filter (· ≠ "")

def natOf (s : String) : Nat := s.toNat?.getD 0
def intOf (s : String) : Int := s.toInt?.getD 0

def parseWStatus : String → Option WStatus
  | "Initiated" => some .initiated | "Running" => some .running | "Paused" => some .paused
  | "Stopped" => some .stopped | _ => none

def parseJStatus : String → Option JStatus
  | "Created" => some .created | "Queued" => some .queued | "Processing" => some .processing
  | "Finished" => some .finished | "Closed" => some .closed | _ => none

def parseErr : String → Err
  | "nil" => .none | "ErrRunningWorker" => .runningWorker | "ErrNotRunningWorker" => .notRunningWorker
  | "ErrSameConcurrency" => .sameConcurrency | "ErrJobProcessing" => .jobProcessing
  | "ErrJobAlreadyClosed" => .jobAlreadyClosed | "ErrAcknowledgeJob" => .acknowledge | _ => .other

/-- "[1,2,3]" → [1,2,3] -/
def parseNatList (s : String) : List Nat :=
  let inner := (s.drop 1).dropEnd 1
  if inner.isEmpty then [] else (inner.toString.splitOn ",").map natOf

def parseIntList (s : String) : List Int :=
  let inner := (s.drop 1).dropEnd 1
  if inner.isEmpty then [] else (inner.toString.splitOn ",").map intOf

def parseItems (s : String) : List StreamItem :=
  let inner := (s.drop 1).dropEnd 1
  if inner.isEmpty then [] else
    (inner.toString.splitOn ",").map fun it =>
      match it.splitOn "|" with
      | id :: v :: rest => { id := id, val := intOf v, err := "|".intercalate rest }
      | _ => { id := it, val := 0, err := "?" }

def parseCall (api : String) (a : List String) : Call :=
  match api, a with
  | "add", [q, k, p] => .add (natOf q) (natOf k) (intOf p)
  | "addall", q :: b :: ks :: rest => .addAll (natOf q) (natOf b) (parseNatList ks) (parseIntList (rest.headD "[]"))
  | "jclose", [k] => .jclose (natOf k)
  | "jwait", [k] => .jwait (natOf k)
  | "jstatus", [k] => .jstatus (natOf k)
  | "jresult", [k] => .jresult (natOf k)
  | "jdrain", [k] => .jdrain (natOf k)
  | "gwait", [b] => .gwait (natOf b)
  | "gpending", [b] => .gpending (natOf b)
  | "gcollect", [b] => .gcollect (natOf b)
  | "purge", [q] => .purge (natOf q)
  | "qclose", [q] => .qclose (natOf q)
  | "qpending", [q] => .qpending (natOf q)
  | "pause", _ => .pause
  | "pauseandwait", _ => .pauseAndWait
  | "resume", _ => .resume
  | "stop", _ => .stop
  | "waitandstop", _ => .waitAndStop
  | "restart", _ => .restart
  | "tune", [n] => .tune (intOf n)
  | "wuf", _ => .wuf
  | "bind", _ => .bind
  | "status", _ => .status
  | "counts", _ => .counts
  | "cancelctx", _ => .cancelCtx
  | _, _ => .other

def parseCounts (a : List String) : Counts :=
  match a.map intOf with
  | [p, pr, c, i, s, co, su, f] => { pending := p, processing := pr, conc := c, idle := i, submitted := s, completed := co, successful := su, failed := f }
  | _ => { pending := 0, processing := 0, conc := 0, idle := 0, submitted := 0, completed := 0, successful := 0, failed := 0 }

def parseRet (api : String) (a : List String) : Ret :=
  match api, a with
  | "add", k :: ok :: _ => .add (natOf k) (ok == "true")
  | "addall", b :: _ => .addAll (natOf b)
  | "jclose", [k, e] => .jclose (natOf k) (parseErr e)
  | "jwait", [k, st] => .jwait (natOf k) (parseJStatus st)
  | "jstatus", [k, st] => .jstatus (natOf k) (parseJStatus st)
  | "jresult", [k, v, e] => .jresult (natOf k) (intOf v) e
  | "gwait", [b, n] => .gwait (natOf b) (intOf n)
  | "gpending", [b, n] => .gpending (natOf b) (intOf n)
  | "gcollect", [b, items] => .gcollect (natOf b) (parseItems items)
  | "qpending", [q, n] => .qpending (natOf q) (intOf n)
  | "pause", [e, st] => .life (parseErr e) (parseWStatus st)
  | "pauseandwait", [e, st] => .life (parseErr e) (parseWStatus st)
  | "resume", [e, st] => .life (parseErr e) (parseWStatus st)
  | "stop", [e, st] => .life (parseErr e) (parseWStatus st)
  | "waitandstop", [e, st] => .life (parseErr e) (parseWStatus st)
  | "restart", [e, st] => .life (parseErr e) (parseWStatus st)
  | "tune", [e, c] => .tune (parseErr e) (intOf c)
  | "bind", [q, st] => .bind (natOf q) (parseWStatus st)
  | "status", [st, r, p, s] => .status (parseWStatus st) (r == "true") (p == "true") (s == "true")
  | "counts", a => .counts (parseCounts a)
  | _, _ => .unit

def kvOf (a : List String) (key : String) : String :=
  match a.find? (fun t => t.startsWith (key ++ "=")) with
  | some t => (t.drop (key.length + 1)).toString
  | none => ""

def parseFinal (a : List String) : Final :=
  let i := fun k => intOf (kvOf a k)
  { status := parseWStatus (kvOf a "status"),
    counts := { pending := i "pending", processing := i "processing", conc := i "conc", idle := i "idle",
                submitted := i "submitted", completed := i "completed", successful := i "successful", failed := i "failed" },
    stuck := natOf (kvOf a "stuck"), liveLib := natOf (kvOf a "livelib") }

/-- one harness line → an observation (E lines and bookkeeping lines give `none`) -/
def parseObs (line : String) : Option Obs :=
  match toks line with
  | "C" :: g :: cid :: api :: a =>
    if api == "release" then (match a with | [k] => some (.release (natOf k)) | _ => none)
    else if api == "releaseall" then some .releaseAll
    else if api == "rest" then some .rest
    else if api == "ackopen" then none
    else some (.call (natOf g) (natOf cid) (parseCall api a))
  | "R" :: g :: cid :: api :: a => some (.ret (natOf g) (natOf cid) (parseCall api []) (parseRet api a))
  | "W" :: g :: "enter" :: k :: id :: _ => some (.enter (natOf g) (natOf k) id)
  | "W" :: g :: "exit" :: k :: oc :: _ => some (.exit (natOf g) (natOf k) (natOf oc))
  | "O" :: _ :: "err" :: m :: _ => some (.errOffer m)
  | "F" :: _ :: "final" :: a => some (.fin (parseFinal a))
  | "F" :: _ :: "queue" :: q :: n :: _ => some (.fqueue (natOf q) (intOf n))
  | "X" :: _ :: "crash" :: m => some (.crash (" ".intercalate m))
  | "X" :: _ :: "abort" :: _ => none
  | "T" :: _ :: "qtick" :: _ => some .qtick
  | "T" :: _ => some .tick
  | "A" :: g :: a :: op :: arg :: res => some (.adapter (natOf g) (natOf a) op arg res)
  | "X" :: _ :: "recover" :: _ => some .recover
  | "F" :: _ :: "adapter" :: a :: rest =>
    let lst := fun (k : String) => let v := kvOf rest k; let inner := ((v.drop 1).dropEnd 1).toString
                                    if inner.isEmpty then [] else inner.splitOn ","
    some (.fadapter (natOf a) (lst "pending") (lst "unacked") (lst "acked"))
  | "F" :: _ :: "job" :: k :: st :: _ => some (.fjob (natOf k) (parseJStatus st))
  | "F" :: _ :: "consumer" :: c :: rest => some (.fconsumer (natOf c) (intOf (kvOf rest "submitted")) (intOf (kvOf rest "completed")))
  | _ => none

/-- some lines carry a second observation -/
def parseObs2 (line : String) : Option Obs :=
  match toks line with
  | "W" :: _ :: "enter" :: k :: _ :: _ :: c :: _ => if c.startsWith "c" then some (.enterAt (natOf (c.drop 1).toString) (natOf k)) else none
  | _ => none

/-- crude extraction of `"key":<number>` / `"key":"str"` / `"key":true` from the program JSON -/
def jsonField (js key : String) : String :=
  match js.splitOn ("\"" ++ key ++ "\":") with
  | _ :: rest :: _ =>
    let r := rest
    if r.startsWith "\"" then ((r.drop 1).toString.splitOn "\"").headD ""
    else (r.takeWhile (fun c => c.isAlphanum || c == (Char.ofNat 45))).toString
  | _ => ""

def jsonArrayField (js key : String) : String :=
  match js.splitOn ("\"" ++ key ++ "\":[") with
  | _ :: rest :: _ => "[" ++ (rest.splitOn "]").headD "" ++ "]"
  | _ => "[]"

def parseParams (js : String) : Params :=
  { conc := let c := intOf (jsonField js "conc"); if c < 1 then 16 else c.toNat,
    kind := jsonField js "kind",
    gate := jsonField js "gate" == "true",
    expiry := jsonField js "expiry" != "",
    errs := jsonField js "errs" == "true",
    noIdBatch := jsonField js "noidbatch" == "true",
    ackHold := jsonField js "ackhold" == "true",
    ctx := jsonField js "ctx" == "true",
    outcomes := parseNatList (jsonArrayField js "outcomes"),
    queues := (let a := jsonArrayField js "queues"; let inner := ((a.drop 1).dropEnd 1).toString
               if inner.isEmpty then [] else (inner.splitOn ",").map (fun t => (t.replace "\"" ""))),
    strategy := natOf (jsonField js "strategy"),
    tag := jsonField js "tag",
    minIdle := natOf (jsonField js "minidle") }

def parseEnd (a : List String) : EndInfo :=
  let blocked := kvOf a "blocked"
  { quiescent := kvOf a "quiescent" == "true",
    crashed := kvOf a "crashed" != "_",
    blockedClients := ((blocked.splitOn ";").filter (fun s => (s.splitOn ",client)").length > 1)).length }

end VarmqVerif.Driver
