import VarmqVerif.Model.Res
import VarmqVerif.Model.Job
import VarmqVerif.Model.Sig
import VarmqVerif.Model.Sig2
import VarmqVerif.Model.Race
import VarmqVerif.Model.Metr
import VarmqVerif.Model.Trim
import VarmqVerif.Model.Reap
import VarmqVerif.Model.Disp
import VarmqVerif.Model.FifoDisp
import VarmqVerif.Model.Cap
import VarmqVerif.Model.Config
import VarmqVerif.Model.Wake
import VarmqVerif.Model.Ack
import VarmqVerif.Model.Pool
import Driver.Parse
/-!
  Correspondence replay (DESIGN.md §3.3 (a)): the raw event lines of an implementation execution
  are projected onto the events of each model and fed to the model's `step`. A rejected event is a
  correspondence break: reported with the line number and the model's reason.
-/
namespace VarmqVerif.Driver
open VarmqVerif

/-- a raw trace line, tokenised -/
structure RawLine where
  tag : String
  g : Nat
  f : List String      -- remaining fields
  deriving Repr

def parseRaw (line : String) : Option RawLine :=
  match toks line with
  | tag :: g :: rest => some { tag := tag, g := natOf g, f := rest }
  | _ => none

/-- state of one model replay: still accepting, or rejected at (line, reason), or not applicable -/
inductive RState (σ : Type) where
  | ok (s : σ)
  | rejected (line : Nat) (why : String)
  | na (why : String)

def feedAll {σ ε} (step : σ → ε → Except String σ) (s : σ) (evs : List ε) : Except String σ :=
  evs.foldlM (fun s e => step s e) s

-- ---------------------------------------------------------------- Res

namespace ResMap
open Res

def apiOf (name : String) : Option Api :=
  match name with
  | "pause" => some .pause | "pauseandwait" => some .pauseAndWait | "stop" => some .stop
  | "waitandstop" => some .waitAndStop | "resume" => some .resume | "restart" => some .restart
  | "bind" => some .bind | "tune" => some .tune | "wuf" => some .wuf
  | _ => none

def lifecycleFns : List String := ["worker.pause", "worker.stop", "worker.Restart", "worker.startRun", "worker.Resume"]

/-- project one raw line onto Res events (needs the state only to tell who releases) -/
def events (s : State) (l : RawLine) : Except String (List Ev) :=
  let g := l.g
  match l.tag, l.f with
  | "E", [fn, obj, op, arg, res] =>
    if obj.startsWith "worker#" && !(obj.startsWith "worker#1.") then .error "NA second worker"
    else if obj == "worker#1.status" then
      if op == "load" then
        if fn == "worker.reserve" then .ok [.ldStatusD g (natOf res)]
        else if fn == "worker.WaitUntilFinished$1" then .ok [.ldStatusB g (natOf res)]
        else if lifecycleFns.contains fn then .ok [.ldStatusL g (natOf res)]
        else .ok [.ldStatusAny g (natOf res)]
      else if op == "store" then .ok [.stStatus g (natOf arg)]
      else .error s!"unmodelled operation {op} on the worker status in {fn}"
    else if obj == "worker#1.curProcessing" then
      if op == "load" then
        if fn == "worker.reserve" then .ok [.ldCurD g (natOf res)]
        else if fn == "worker.WaitUntilFinished$1" then .ok [.ldCurB g (natOf res)]
        else .ok [.ldCurAny g (natOf res)]
      else if op == "cas" then
        match arg.splitOn "," with
        | [o, n] => if fn == "worker.reserve" then .ok [.casCur g (natOf o) (natOf n) (res == "true")] else .error s!"CAS on curProcessing in {fn}"
        | _ => .error "malformed cas"
      else if op == "add" then
        if arg != "-1" then .error s!"curProcessing.Add({arg}) in {fn}: the model only knows the CAS in reserve() and Add(-1) in release()"
        else if s.rph g == .done then .ok [.relR g (natOf res)] else .ok [.relD g (natOf res)]
      else .error s!"unmodelled operation {op} on curProcessing in {fn}"
    else if obj == "worker#1.concurrency" then
      if op == "load" then
        -- reserve() loads the limit twice: before the CAS (with the loaded cur pending: ldConcD) and again after
        -- taking the slot and passing the status re-check (dispatcher phase `checked`: the limit re-check ldConcR,
        -- which decides between keeping the slot and having to give it back)
        (if fn == "worker.reserve" && (s.lc g).isSome then .ok [.ldConcD g (natOf res)]
         else if fn == "worker.reserve" && s.ph g == .checked then .ok [.ldConcR g (natOf res)]
         else .ok [.ldConcAny g (natOf res)])
      else if op == "store" then .ok [.stConc g (natOf arg)]
      else .error s!"unmodelled operation {op} on concurrency in {fn}"
    else if obj == "worker#1.lifecycle" then
      if op == "lock" then
        (if fn == "worker.goListenToContext$1" then .ok [.call g .ctxStop, .lockL g] else .ok [.lockL g])
      else if op == "unlock" then
        (if fn == "worker.goListenToContext$1" then .ok [.unlockL g, .ret g .ctxStop false] else .ok [.unlockL g])
      else .error s!"unmodelled operation {op} on w.lifecycle"
    else if fn == "Node.Send" && op == "send" then .ok [.send g]
    else .ok []
  | "W", "enter" :: k :: _ => .ok [.enter g (natOf k)]
  | "W", "exit" :: k :: _ => .ok [.exit g (natOf k)]
  | "C", _ :: api :: _ =>
    match apiOf api with
    | some a => .ok [.call g a]
    | none => .ok []
  | "R", _ :: api :: rest =>
    match apiOf api with
    | some a => .ok [.ret g a (rest.head? == some "nil")]
    | none => .ok []
  | _, _ => .ok []

def feed (st : RState State) (lineNo : Nat) (l : RawLine) : RState State :=
  match st with
  | .ok s =>
    match events s l with
    | .error m => if m.startsWith "NA" then .na m else .rejected lineNo m
    | .ok evs =>
      match feedAll Res.step s evs with
      | .ok s' => .ok s'
      | .error m => .rejected lineNo s!"{m} @ {l.tag} {l.g} {" ".intercalate l.f}"
  | r => r
end ResMap

end VarmqVerif.Driver

namespace VarmqVerif.Driver
-- ---------------------------------------------------------------- Job
namespace JobMap
open Job

structure MapSt where
  jobs : List (String × Nat) := []
  batches : List (String × Nat) := []
  chans : List (String × Nat) := []
  lastChan : List (Nat × Nat) := []      -- goroutine ↦ channel made by NewResponse, not yet attached
  curBatch : List (Nat × Nat) := []      -- goroutine ↦ batch being filled by AddAll

def idx (tab : List (String × Nat)) (name : String) : Nat × List (String × Nat) :=
  match tab.find? (·.1 == name) with
  | some (_, i) => (i, tab)
  | none => (tab.length, (name, tab.length) :: tab)

def known (tab : List (String × Nat)) (name : String) : Bool := tab.any (·.1 == name)

def aget (m : List (Nat × Nat)) (g : Nat) : Option Nat := (m.find? (·.1 == g)).map (·.2)
def aset (m : List (Nat × Nat)) (g v : Nat) : List (Nat × Nat) := (g, v) :: m.filter (·.1 != g)
def adel (m : List (Nat × Nat)) (g : Nat) : List (Nat × Nat) := m.filter (·.1 != g)

/-- "resultJob#3.status" → ("resultJob#3", "status") -/
def splitObj (obj : String) : String × String :=
  match obj.splitOn "." with
  | [a, b] => (a, b)
  | _ => (obj, "")

def isJobName (n : String) : Bool :=
  ["job#", "errorJob#", "resultJob#", "groupJob#", "errorGroupJob#", "resultGroupJob#"].any (fun p => n.startsWith p)

def events (m : MapSt) (s : State) (l : RawLine) : Except String (MapSt × List Ev) :=
  let g := l.g
  match l.tag, l.f with
  | "E", [fn, obj, op, arg, res] =>
    let (base, field) := splitObj obj
    if fn == "NewResponse" && op == "make" then
      let (c, chans) := idx m.chans obj
      .ok ({ m with chans := chans, lastChan := aset m.lastChan g c }, [])
    else if isJobName base && field == "wg" then
      let (j, jobs) := idx m.jobs base
      if op == "add" && arg == "1" then
        let ch := if fn == "newErrorJob" || fn == "newResultJob" then aget m.lastChan g else none
        .ok ({ m with jobs := jobs, lastChan := adel m.lastChan g }, [.newJob g j ch])
      else if op == "add" && arg == "-1" then .ok ({ m with jobs := jobs }, [.wgDone g j])
      else if op == "wait" then .ok ({ m with jobs := jobs }, [.wgWait g j])
      else .error s!"unmodelled wait-group operation {op} {arg} on {obj} in {fn}"
    else if isJobName base && field == "status" then
      let isNew := !(known m.jobs base)
      let (j, jobs) := idx m.jobs base
      let m := { m with jobs := jobs }
      if op == "store" then
        let v := natOf arg
        if fn == "parseToJob" then .ok (m, [.stParsed g j v])
        else if v == 1 then
          match isNew, aget m.curBatch g with
          | true, some b => .ok (m, [.newItem g j b, .stQueued g j])
          | _, _ => .ok (m, [.stQueued g j])
        else if v == 3 then .ok (m, [.stFinished g j])
        else .error s!"status {v} stored by {fn}: the model only knows Queued (Add), Finished (runner) and the CAS in claim()/tryClose()"
      else if op == "load" then
        if fn == "job.claim" then .ok (m, [.ldClaim g j (natOf res)])
        else if fn == "job.tryClose" then .ok (m, [.ldClose g j (natOf res)])
        else .ok (m, [.ldStatus g j (natOf res)])
      else if op == "cas" then
        match arg.splitOn "," with
        | [o, n] =>
          if fn == "job.claim" && natOf n == 2 then .ok (m, [.casClaim g j (natOf o) (res == "true")])
          else if fn == "job.tryClose" && natOf n == 4 then .ok (m, [.casClose g j (natOf o) (res == "true")])
          else .error s!"CAS {arg} on a job status in {fn}"
        | _ => .error "malformed cas"
      else .error s!"unmodelled operation {op} on a job status in {fn}"
    else if base.startsWith "WgCounter#" then
      let (b, batches) := idx m.batches base
      let m := { m with batches := batches }
      if field == "count" then
        if fn == "NewWgCounter" && op == "add" then
          .ok ({ m with curBatch := aset m.curBatch g b, lastChan := adel m.lastChan g }, [.newBatch g b (natOf arg) (aget m.lastChan g)])
        else if fn == "WgCounter.Done" && op == "load" then .ok (m, [.ldCount g b (natOf res)])
        else if fn == "WgCounter.Done" && op == "cas" then
          match arg.splitOn "," with
          | [o, n] => if natOf n + 1 == natOf o then .ok (m, [.casCount g b (natOf o) (res == "true")]) else .error "count CAS does not subtract one"
          | _ => .error "malformed cas"
        else if op == "load" then .ok (m, [.ldCountAny g b (natOf res)])
        else .error s!"unmodelled operation {op} {arg} on a batch counter in {fn}"
      else if field == "wg" then
        if fn == "NewWgCounter" then .ok (m, [])
        else if op == "add" && arg == "-1" then .ok (m, [.wgDoneB g b])
        else if op == "wait" then .ok (m, [.wgWaitB g b])
        else .error s!"unmodelled operation {op} {arg} on a batch wait group in {fn}"
      else .ok (m, [])
    else if obj.endsWith ":NewResponse.ch" then
      let (c, chans) := idx m.chans obj
      let m := { m with chans := chans }
      if op == "close" then .ok (m, [.closeChan g c])
      else if op == "send" then .ok (m, [.sendChan g c])
      else .ok (m, [])
    else .ok (m, [])
  | "W", "enter" :: _ :: _ :: ref :: _ =>
    if isJobName ((ref.splitOn "+").headD ref) then
      let (j, jobs) := idx m.jobs ref
      .ok ({ m with jobs := jobs }, [.enter g j])
    else .error s!"worker function entered with an unknown job reference {ref}"
  | "W", "exit" :: _ =>
    match (s.loc g).running with
    | some j => .ok (m, [.exit g j])
    | none => .error "worker function exit without entry"
  | "A", _ :: "ack" :: _ =>
    -- the adapter's Acknowledge is called from job.ack(), i.e. by the goroutine that closed the job
    match (s.loc g).owesDone with
    | some j => .ok (m, [.ack g j])
    | none => .error "Acknowledge called by a goroutine that is not closing a job"
  | "C", _ :: _ => .ok ({ m with lastChan := adel m.lastChan g }, [])
  | "R", _ :: "addall" :: _ => .ok ({ m with curBatch := adel m.curBatch g }, [])
  | _, _ => .ok (m, [])

structure St where
  m : MapSt := {}
  s : State := Job.init

def feed (st : RState St) (lineNo : Nat) (l : RawLine) : RState St :=
  match st with
  | .ok x =>
    match events x.m x.s l with
    | .error e => .rejected lineNo s!"{e} @ {l.tag} {l.g} {" ".intercalate l.f}"
    | .ok (m', evs) =>
      match feedAll Job.step x.s evs with
      | .ok s' => if s'.crashed then .rejected lineNo s!"model reached the crashed state @ {l.tag} {l.g} {" ".intercalate l.f}" else .ok { m := m', s := s' }
      | .error e => .rejected lineNo s!"{e} @ {l.tag} {l.g} {" ".intercalate l.f}"
  | r => r
end JobMap
end VarmqVerif.Driver

namespace VarmqVerif.Driver
-- ---------------------------------------------------------------- Sig
namespace SigMap
open Sig

structure St where
  s : State := Sig.init 1
  queue : Option String := none      -- the single queue this model follows
  sigMade : Bool := false

def isQueueObj (o : String) : Bool := o.startsWith "Queue#" || o.startsWith "PriorityQueue#"

def events (x : St) (l : RawLine) : Except String (St × List Ev) :=
  let g := l.g
  let s := x.s
  match l.tag, l.f with
  | "A", _ => .error "NA adapter-backed queue"
  | "E", [fn, obj, op, arg, res] =>
    if obj.startsWith "worker#" && !(obj.startsWith "worker#1.") then .error "NA second worker"
    else if obj.endsWith ":eventLoopSignal" then
      if op == "make" then (if x.sigMade then .error "NA restart (second signal channel)" else .ok ({ x with sigMade := true }, []))
      else if op == "close" then .error "NA stop (signal channel closed)"
      else if op == "recv" then (if res == "closed" then .error "NA stop" else .ok (x, [.recvTok g]))
      else if op == "trysend" then .ok (x, [.notify g (res == "true")])
      else .error s!"unmodelled operation {op} on the signal channel in {fn}"
    else if obj == "worker#1.status" then
      if op == "store" then .ok (x, [.stStatus g (natOf arg)])
      else if op == "load" && fn == "worker.IsRunning" && isDisp s g && (s.dph == .fresh || s.dph == .busy) then .ok (x, [.dStatus g (natOf res)])
      else .ok (x, [])
    else if obj == "worker#1.curProcessing" then
      if op == "load" && fn == "worker.goEventLoop$1" then .ok (x, [.dCur g (natOf res)])
      else if op == "cas" && res == "true" then (if isDisp s g then .ok (x, [.dCasOk g]) else .error "reserve CAS by a goroutine that is not the event loop")
      else if op == "add" then (if isDisp s g then .ok (x, [.dRel g (natOf res)]) else .ok (x, [.relX g (natOf res)]))
      else .ok (x, [])
    else if obj == "worker#1.concurrency" then
      if op == "load" && fn == "worker.goEventLoop$1" then .ok (x, [.dConc g (natOf res)])
      else if op == "store" then
        if fn.startsWith "new" then .ok ({ x with s := Sig.init (natOf arg) }, []) else .ok (x, [.stConc g (natOf arg)])
      else .ok (x, [])
    else if fn == "Manager.Len" && op == "ret:Len" && isDisp s g && s.dph == .sawRoom then
      -- no bound queue reported a length inside this Manager.Len(): the sum is over zero queues
      .ok (x, [.dLen g 0])
    else if isQueueObj obj && (op.startsWith "ret:") then
      let q := x.queue.getD obj
      let x := { x with queue := some q }
      if q != obj then .error "NA several queues"
      else if op == "ret:Len" then (if isDisp s g && s.dph == .sawRoom then .ok (x, [.dLen g (natOf res)]) else .ok (x, []))
      else if op == "ret:Enqueue" then (if res == "true" then .ok (x, [.enq g]) else .ok (x, []))
      else if op == "ret:Dequeue" then (if res.endsWith ",true" then (if isDisp s g then .ok (x, [.dDeq g]) else .ok (x, [.deqX g])) else .ok (x, []))
      else .ok (x, [])
    else .ok (x, [])
  | _, _ => .ok (x, [])

def feed (st : RState St) (lineNo : Nat) (l : RawLine) : RState St :=
  match st with
  | .ok x =>
    match events x l with
    | .error e => if e.startsWith "NA" then .na e else .rejected lineNo s!"{e} @ {l.tag} {l.g} {" ".intercalate l.f}"
    | .ok (x', evs) =>
      match feedAll Sig.step x'.s evs with
      | .ok s' => .ok { x' with s := s' }
      | .error e => .rejected lineNo s!"{e} @ {l.tag} {l.g} {" ".intercalate l.f}"
  | r => r
end SigMap

-- ---------------------------------------------------------------- Sig2 (Sig with Stop/Restart)
namespace SigMap2
open Sig2

structure St where
  s : State := Sig2.init 1
  queue : Option String := none      -- the single queue this model follows
  ctor : Bool := false               -- a worker constructor has made its signal channel

def isQueueObj (o : String) : Bool := o.startsWith "Queue#" || o.startsWith "PriorityQueue#"

/-- "ch#7:eventLoopSignal" → 7 -/
def chanId (obj : String) : Nat := natOf (((obj.drop 3).toString.splitOn ":").headD "")

/-- `pers`: the program binds exactly one queue and it is a persistent (not distributed) one: the recording adapter's
    calls are then the queue operations (enq / deq / len are logged atomically with their effect) -/
def events (pers : Bool) (x : St) (l : RawLine) : Except String (St × List Ev) :=
  let g := l.g
  let s := x.s
  match l.tag, l.f with
  | "A", a :: op :: rest =>
    if !pers then .error "NA adapter-backed queue"
    else if a != "0" then .error "NA several queues"
    else match op, rest with
      | "preload", _ => .ok (x, [.enq g])
      | "enq", [_, "true"] => .ok (x, [.enq g])
      | "deq", [_, "false"] => .ok (x, [])
      | "deq", [_, _] => if isD s g then .ok (x, [.dDeq g]) else .ok (x, [.deqX g])
      | "len", [_, n] => if isD s g && s.dph g == .sawRoom then .ok (x, [.dLen g (natOf n)]) else .ok (x, [])
      | "purge", [_, n] => .ok (x, List.replicate (natOf n) (.deqX g))
      | _, _ => .ok (x, [])
  | "A", _ => .error "NA adapter-backed queue"
  | "E", [fn, obj, op, arg, res] =>
    if obj.startsWith "worker#" && !(obj.startsWith "worker#1.") then .error "NA second worker"
    else if fn == "worker.goEventLoop" && op == "go" then .ok (x, [.spawnD g (natOf (arg.drop 1).toString)])
    else if obj == "nilchan" && fn == "worker.notifyToPullNextJobs" then
      (if s.chan.isSome then .error "notify on a nil channel while the model has a signal channel" else .ok (x, [.notify g (res == "true")]))
    else if obj.endsWith ":eventLoopSignal" then
      let ch := chanId obj
      if op == "make" then
        -- the constructor of a second worker (several consumers on one adapter): not this model
        (if fn.startsWith "new" && x.ctor then .error "NA second worker"
         else .ok ({ x with ctor := x.ctor || fn.startsWith "new" }, [.makeSig g ch]))
      else if op == "close" then (if s.chan != some ch then .error "close of a signal channel that is not the current one" else .ok (x, [.closeSig g]))
      else if op == "recv" then
        (if isD s g && s.dch g != ch then .error "event loop receives on a channel other than the one it was started on"
         else if res == "closed" then .ok (x, [.recvClosed g]) else .ok (x, [.recvTok g]))
      else if op == "trysend" then (if s.chan != some ch then .error "notify on a signal channel that is not the current one" else .ok (x, [.notify g (res == "true")]))
      else .error s!"unmodelled operation {op} on the signal channel in {fn}"
    else if obj == "worker#1.status" then
      if op == "store" then .ok (x, [.stStatus g (natOf arg)])
      else if op == "load" && fn == "worker.IsRunning" && isD s g && (s.dph g == .fresh || s.dph g == .busy) then .ok (x, [.dStatus g (natOf res)])
      else .ok (x, [])
    else if obj == "worker#1.curProcessing" then
      if op == "load" && fn == "worker.goEventLoop$1" then .ok (x, [.dCur g (natOf res)])
      else if op == "cas" && res == "true" then (if isD s g then .ok (x, [.dCasOk g]) else .error "reserve CAS by a goroutine that is not an event loop")
      else if op == "add" then (if isD s g then .ok (x, [.dRel g (natOf res)]) else .ok (x, [.relX g (natOf res)]))
      else .ok (x, [])
    else if obj == "worker#1.concurrency" then
      if op == "load" && fn == "worker.goEventLoop$1" then .ok (x, [.dConc g (natOf res)])
      else if op == "store" then
        if fn.startsWith "new" then .ok ({ x with s := { x.s with conc := natOf arg } }, []) else .ok (x, [.stConc g (natOf arg)])
      else .ok (x, [])
    else if fn == "Manager.Len" && op == "ret:Len" && isD s g && s.dph g == .sawRoom then
      .ok (x, [.dLen g 0])
    else if isQueueObj obj && (op.startsWith "ret:") then
      let q := x.queue.getD obj
      let x := { x with queue := some q }
      if q != obj then .error "NA several queues"
      else if op == "ret:Len" then (if isD s g && s.dph g == .sawRoom then .ok (x, [.dLen g (natOf res)]) else .ok (x, []))
      else if op == "ret:Enqueue" then (if res == "true" then .ok (x, [.enq g]) else .ok (x, []))
      else if op == "ret:Dequeue" then (if res.endsWith ",true" then (if isD s g then .ok (x, [.dDeq g]) else .ok (x, [.deqX g])) else .ok (x, []))
      else .ok (x, [])
    else .ok (x, [])
  | _, _ => .ok (x, [])

def feed (pers : Bool) (st : RState St) (lineNo : Nat) (l : RawLine) : RState St :=
  match st with
  | .ok x =>
    match events pers x l with
    | .error e => if e.startsWith "NA" then .na e else .rejected lineNo s!"{e} @ {l.tag} {l.g} {" ".intercalate l.f}"
    | .ok (x', evs) =>
      match feedAll Sig2.step x'.s evs with
      | .ok s' => .ok { x' with s := s' }
      | .error e => .rejected lineNo s!"{e} @ {l.tag} {l.g} {" ".intercalate l.f}"
  | r => r
end SigMap2

-- ---------------------------------------------------------------- Wake
namespace WakeMap
open Wake

structure St where
  s : State := Wake.init 1
  queue : Option String := none      -- the single queue this model follows
  sigMade : Bool := false

def isQueueObj (o : String) : Bool := o.startsWith "Queue#" || o.startsWith "PriorityQueue#"

def events (pers : Bool) (x : St) (l : RawLine) : Except String (St × List Ev) :=
  let g := l.g
  let s := x.s
  match l.tag, l.f with
  | "A", a :: op :: rest =>
    -- one persistent (not distributed) queue: the recording adapter's calls are the queue operations (see SigMap2)
    if !pers then .error "NA adapter-backed queue"
    else if a != "0" then .error "NA several queues"
    else match op, rest with
      | "preload", _ => .ok (x, [.enq g])
      | "enq", [_, "true"] => .ok (x, [.enq g])
      | "deq", [_, "false"] => .ok (x, [])
      | "deq", [_, _] => if isDisp s g then .ok (x, [.dDeq g]) else .ok (x, [.deqX g])
      | "len", [_, n] =>
        if isDisp s g && s.dph == .sawRoom then .ok (x, [.dLen g (natOf n)])
        else if s.wph g == .sawStatus Wake.running then .ok (x, [.wLen g (natOf n)]) else .ok (x, [])
      | "purge", [_, n] => .ok (x, List.replicate (natOf n) (.deqX g))
      | _, _ => .ok (x, [])
  | "A", _ => .error "NA adapter-backed queue"
  | "E", [fn, obj, op, arg, res] =>
    if obj.startsWith "worker#" && !(obj.startsWith "worker#1.") then .error "NA second worker"
    else if obj.endsWith ":eventLoopSignal" then
      if op == "make" then (if x.sigMade then .error "NA restart (second signal channel)" else .ok ({ x with sigMade := true }, []))
      else if op == "close" then .error "NA stop (signal channel closed)"
      else if op == "recv" then (if res == "closed" then .error "NA stop" else .ok (x, [.recvTok g]))
      else if op == "trysend" then .ok (x, [.notify g (res == "true")])
      else .error s!"unmodelled operation {op} on the signal channel in {fn}"
    else if obj == "worker#1.mx" then
      if op == "lock" then .ok (x, [.lockMx g]) else if op == "unlock" then .ok (x, [.unlockMx g]) else .ok (x, [])
    else if obj.startsWith "Cond#" then
      if op == "park" then .ok (x, [.wPark g]) else if op == "wake" then .ok (x, [.wWake g])
      else if op == "broadcast" then .ok (x, [.bcast g (natOf res)]) else .error s!"unmodelled operation {op} on the condition variable"
    else if obj == "worker#1.status" then
      if op == "store" then .ok (x, [.stStatus g (natOf arg)])
      else if op == "load" && fn == "worker.IsRunning" && isDisp s g && (s.dph == .fresh || s.dph == .busy) then .ok (x, [.dStatus g (natOf res)])
      else if op == "load" && fn == "worker.WaitUntilFinished$1" then .ok (x, [.wStatus g (natOf res)])
      else .ok (x, [])
    else if obj == "worker#1.curProcessing" then
      if op == "load" && fn == "worker.goEventLoop$1" then .ok (x, [.dCur g (natOf res)])
      else if op == "load" && fn == "worker.WaitUntilFinished$1" then .ok (x, [.wCur g (natOf res)])
      else if op == "load" && fn == "worker.pause" then .ok (x, [.pCur g (natOf res)])
      else if op == "cas" && res == "true" then (if isDisp s g then .ok (x, [.dCasOk g]) else .error "reserve CAS by a goroutine that is not the event loop")
      else if op == "add" then (if isDisp s g then .ok (x, [.dRel g (natOf res)]) else .ok (x, [.relX g (natOf res)]))
      else .ok (x, [])
    else if obj == "worker#1.concurrency" then
      if op == "load" && fn == "worker.goEventLoop$1" then .ok (x, [.dConc g (natOf res)])
      else if op == "store" then
        if fn.startsWith "new" then .ok ({ x with s := Wake.init (natOf arg) }, []) else .ok (x, [.stConc g (natOf arg)])
      else .ok (x, [])
    else if fn == "Manager.Len" && op == "ret:Len" && isDisp s g && s.dph == .sawRoom then
      .ok (x, [.dLen g 0])
    else if fn == "Manager.Len" && op == "ret:Len" && s.wph g == .sawStatus Wake.running then
      .ok (x, [.wLen g 0])
    else if isQueueObj obj && (op.startsWith "ret:") then
      let q := x.queue.getD obj
      let x := { x with queue := some q }
      if q != obj then .error "NA several queues"
      else if op == "ret:Len" then
        (if isDisp s g && s.dph == .sawRoom then .ok (x, [.dLen g (natOf res)])
         else if s.wph g == .sawStatus Wake.running then .ok (x, [.wLen g (natOf res)]) else .ok (x, []))
      else if op == "ret:Enqueue" then (if res == "true" then .ok (x, [.enq g]) else .ok (x, []))
      else if op == "ret:Dequeue" then (if res.endsWith ",true" then (if isDisp s g then .ok (x, [.dDeq g]) else .ok (x, [.deqX g])) else .ok (x, []))
      else .ok (x, [])
    else .ok (x, [])
  | _, _ => .ok (x, [])

def feed (pers : Bool) (st : RState St) (lineNo : Nat) (l : RawLine) : RState St :=
  match st with
  | .ok x =>
    match events pers x l with
    | .error e => if e.startsWith "NA" then .na e else .rejected lineNo s!"{e} @ {l.tag} {l.g} {" ".intercalate l.f}"
    | .ok (x', evs) =>
      match feedAll Wake.step x'.s evs with
      | .ok s' => .ok { x' with s := s' }
      | .error e => .rejected lineNo s!"{e} @ {l.tag} {l.g} {" ".intercalate l.f}"
  | r => r
end WakeMap
end VarmqVerif.Driver

namespace VarmqVerif.Driver
-- ---------------------------------------------------------------- Ack
namespace AckMap
open Ack

structure St where
  s : State := Ack.init
  payloads : List (String × Nat) := []     -- payload text ↦ sequence number
  seen : Bool := false

def seqOfAck (id : String) : Nat := natOf ((id.splitOn "-").getD 1 "0")

def events (x : St) (l : RawLine) : Except String (St × List Ev) :=
  match l.tag, l.f with
  | "A", a :: op :: arg :: res =>
    if a != "0" then .error "NA second adapter" else
    let x := { x with seen := true }
    match op, res with
    | "preload", _ => .ok ({ x with payloads := (arg, x.s.next) :: x.payloads }, [.enq true])
    | "enq", ["true"] => .ok ({ x with payloads := (arg, x.s.next) :: x.payloads }, [.enq true])
    | "enq", _ => .ok (x, [.enq false])
    | "deq", [id] => if id == "false" then .ok (x, [.deqFail]) else .ok (x, [.deq (seqOfAck id)])
    | "ack", ok :: _ => .ok (x, [.ack (seqOfAck arg) (ok == "true")])
    | "purge", _ => .error "NA adapter purge"
    | _, _ => .ok (x, [])
  | "W", "enter" :: k :: _ =>
    if !x.seen then .ok (x, []) else
    match x.payloads.find? (·.1 == k) with
    | some (_, n) => .ok (x, [.enter n])
    | none => .ok (x, [])       -- a job of an in-memory queue bound next to the adapter
  | "W", "exit" :: k :: _ =>
    if !x.seen then .ok (x, []) else
    match x.payloads.find? (·.1 == k) with
    | some (_, n) => .ok (x, [.exit n])
    | none => .ok (x, [])
  | "X", "recover" :: _ => .ok (x, [.recover])
  | _, _ => .ok (x, [])

def feed (st : RState St) (lineNo : Nat) (l : RawLine) : RState St :=
  match st with
  | .ok x =>
    match events x l with
    | .error e => if e.startsWith "NA" then .na e else .rejected lineNo s!"{e} @ {l.tag} {l.g} {" ".intercalate l.f}"
    | .ok (x', evs) =>
      match feedAll Ack.step x'.s evs with
      | .ok s' => .ok { x' with s := s' }
      | .error e => .rejected lineNo s!"{e} @ {l.tag} {l.g} {" ".intercalate l.f}"
  | r => r
end AckMap
end VarmqVerif.Driver

namespace VarmqVerif.Driver
-- ---------------------------------------------------------------- Pool
namespace PoolMap
open Pool

structure St where
  s : State := Pool.init
  nodes : List (String × Nat) := []
  jobs : List (String × Nat) := []
  got : List (Nat × Nat) := []         -- goroutine ↦ node it just obtained from the cache (for `go Serve`)
  ctx : List (Nat × Nat) := []         -- goroutine ↦ node of the Node method it is in (Send / Stop / Serve)
  pend : List (Nat × Nat) := []        -- goroutine ↦ node argument of the List call in progress

def idx (tab : List (String × Nat)) (name : String) : Nat × List (String × Nat) :=
  match tab.find? (·.1 == name) with
  | some (_, i) => (i, tab)
  | none => (tab.length, (name, tab.length) :: tab)

def aget (m : List (Nat × Nat)) (g : Nat) : Option Nat := (m.find? (·.1 == g)).map (·.2)
def aset (m : List (Nat × Nat)) (g v : Nat) : List (Nat × Nat) := (g, v) :: m.filter (·.1 != g)

def events (x : St) (l : RawLine) : Except String (St × List Ev) :=
  let g := l.g
  match l.tag, l.f with
  | "E", [fn, obj, op, arg, res] =>
    if (obj.startsWith "Pool#" && !(obj.startsWith "Pool#1.")) || (obj.startsWith "List#" && obj != "List#1" && !(obj.startsWith "List#1.")) then .error "NA second worker"
    else if obj == "Pool#1.Cache" && op == "get" then
      let (n, nodes) := idx x.nodes res
      .ok ({ x with nodes := nodes, got := aset x.got g n }, [.get g n])
    else if obj == "Pool#1.Cache" && op == "put" then
      let (n, nodes) := idx x.nodes arg
      .ok ({ x with nodes := nodes }, [.put g n])
    else if op == "go" && fn == "worker.initPoolNode" then
      match aget x.got g with
      | some n => .ok (x, [.spawn g n (natOf (arg.drop 1).toString)])
      | none => .error "Serve goroutine started without a node from the cache"
    else if obj == "List#1" && (op == "call:PushNode" || op == "call:Remove") then
      let (n, nodes) := idx x.nodes arg
      .ok ({ x with nodes := nodes, pend := aset x.pend g n }, [])
    else if obj == "List#1" && op == "ret:PushNode" then
      match aget x.pend g with | some n => .ok (x, [.push g n]) | none => .error "PushNode return without call"
    else if obj == "List#1" && op == "ret:Remove" then
      match aget x.pend g with | some n => .ok (x, [.remove g n (res == "true")]) | none => .error "Remove return without call"
    else if obj == "List#1" && op == "ret:PopBackIfLonger" && res == "nil" then
      .ok (x, [])      -- the list is not longer than the minimum: nothing is taken (says nothing about emptiness)
    else if obj == "List#1" && (op == "ret:PopBack" || op == "ret:PopBackIfLonger") then
      if res == "nil" then .ok (x, [.pop g none]) else
      let (n, nodes) := idx x.nodes res
      .ok ({ x with nodes := nodes }, [.pop g (some n)])
    else if obj.startsWith "Node#" && (op == "call:Send" || op == "call:Stop" || op == "call:Serve") then
      let (n, nodes) := idx x.nodes obj
      .ok ({ x with nodes := nodes, ctx := aset x.ctx g n }, [])
    else if obj.endsWith ":CreateNode.ch" && op == "send" then
      match aget x.ctx g with
      | some n =>
        if fn == "Node.Stop" then .ok (x, [.sendStop g n])
        else
          let jn := (((arg.drop 1).toString.splitOn ",").headD "")
          let (j, jobs) := idx x.jobs jn
          .ok ({ x with jobs := jobs }, [.sendJob g n j])
      | none => .error "send on a node channel outside Node.Send/Node.Stop"
    else if obj.endsWith ":CreateNode.ch" && op == "recv" then
      match aget x.ctx g with
      | some n =>
        if res.endsWith ",false}" then .ok (x, [.recv g n .stop])
        else
          let jn := (((res.drop 1).toString.splitOn ",").headD "")
          let (j, jobs) := idx x.jobs jn
          .ok ({ x with jobs := jobs }, [.recv g n (.job j)])
      | none => .error "receive on a node channel outside Node.Serve"
    else .ok (x, [])
  | _, _ => .ok (x, [])

def feed (st : RState St) (lineNo : Nat) (l : RawLine) : RState St :=
  match st with
  | .ok x =>
    match events x l with
    | .error e => if e.startsWith "NA" then .na e else .rejected lineNo s!"{e} @ {l.tag} {l.g} {" ".intercalate l.f}"
    | .ok (x', evs) =>
      match feedAll Pool.step x'.s evs with
      | .ok s' => .ok { x' with s := s' }
      | .error e => .rejected lineNo s!"{e} @ {l.tag} {l.g} {" ".intercalate l.f}"
  | r => r
end PoolMap
end VarmqVerif.Driver

namespace VarmqVerif.Driver
-- ---------------------------------------------------------------- Race (C19)
namespace RaceMap
open Race

structure St where
  s : Race.State := {}
  objs : List String := []          -- interned synchronisation objects (index = id)
  clients : List Nat := []          -- goroutines started by the harness (client threads)
  sites : List (Nat × Nat × String) := []   -- event index ↦ (goroutine, location name) of accesses, for reports
  seen : Bool := false              -- an M line was seen (the trace was recorded with -mem)
  chans : List (String × (Nat × Nat × Nat)) := []   -- channel ↦ (capacity, sends, receives)

def intern (x : St) (o : String) : St × Nat :=
  match x.objs.findIdx? (· == o) with
  | some i => (x, i)
  | none => ({ x with objs := x.objs ++ [o] }, x.objs.length)

def gid (s : String) : Nat := natOf (s.drop 1).toString

/-- the events of one trace line (most lines: none or one) -/
def events (x : St) (l : RawLine) : St × List Ev :=
  let g := l.g
  match l.tag, l.f with
  | "M", rw :: addr :: size :: site :: _ =>
    let e := if rw == "w" then Ev.wr g (natOf addr) (natOf size) (natOf site) else Ev.rd g (natOf addr) (natOf size) (natOf site)
    ({ x with seen := true, sites := (x.s.n, g, l.f.getD 4 "?") :: x.sites }, [e])
  | "G", "spawn" :: c :: _ => ({ x with clients := gid c :: x.clients }, [.fork g (gid c)])
  | "H", [kind, key] =>
    if kind == "joinall" then (x, x.clients.map (fun c => Ev.join g c))
    else
      let (x, o) := intern x ("H:" ++ key)
      (x, [if kind == "rel" then .rel g o else .acq g o])
  | "E", [_, obj, op, arg, res] =>
    if op == "go" then (x, [.fork g (gid arg)])
    else if op.startsWith "call:" || op.startsWith "ret:" || op == "newticker" || op == "tickerstop" then (x, [])
    -- sync.Cond gives no ordering of its own (the waiter re-acquires L, which is an event of its own)
    else if op == "park" || op == "wake" || op == "broadcast" || op == "signal" || op == "sel.default" then (x, [])
    else if obj == "nilchan" then (x, [])
    else if op == "cancel" then let (x, o) := intern x "ctx"; (x, [.rel g o])
    else if obj == "foreignchan" then let (x, o) := intern x "ctx"; (x, [.acq g o])
    else if op == "make" then ({ x with chans := (obj, (natOf arg, 0, 0)) :: x.chans.filter (·.1 != obj) }, [])
    else if op == "lock" then
      let (x, w) := intern x (obj ++ "/w"); let (x, r) := intern x (obj ++ "/r"); (x, [.acq g w, .acq g r])
    else if op == "trylock" then
      (if res == "true" then let (x, w) := intern x (obj ++ "/w"); let (x, r) := intern x (obj ++ "/r"); (x, [.acq g w, .acq g r]) else (x, []))
    else if op == "tryrlock" then
      (if res == "true" then let (x, w) := intern x (obj ++ "/w"); (x, [.acq g w]) else (x, []))
    else if op == "unlock" then let (x, w) := intern x (obj ++ "/w"); (x, [.rel g w])
    else if op == "rlock" then let (x, w) := intern x (obj ++ "/w"); (x, [.acq g w])
    else if op == "runlock" then let (x, r) := intern x (obj ++ "/r"); (x, [.rel g r])
    else if (op == "trysend" || op == "tryrecv") && res == "false" then (x, [])
    else
      let isSend := op == "send" || op == "trysend" || op == "sel.send"
      let isRecv := op == "recv" || op == "tryrecv" || op == "sel.recv"
      match x.chans.find? (·.1 == obj) with
      | some (_, (cap, ns, nr)) =>
        if op == "close" then let (x, c) := intern x (obj ++ "/closed"); (x, [.rel g c])
        else if isRecv && res == "closed" then let (x, c) := intern x (obj ++ "/closed"); (x, [.acq g c])
        else if cap == 0 then
          -- unbuffered: send and receive synchronise in both directions
          let (x, o) := intern x obj; (x, [.acqrel g o])
        else if isSend then
          -- the k-th send is received by the k-th receive; it completes after the (k - cap)-th receive
          let x := { x with chans := (obj, (cap, ns + 1, nr)) :: x.chans.filter (·.1 != obj) }
          let (x, m) := intern x s!"{obj}/m{ns}"
          if ns ≥ cap then let (x, sl) := intern x s!"{obj}/s{ns - cap}"; (x, [.acq g sl, .rel g m]) else (x, [.rel g m])
        else if isRecv then
          let x := { x with chans := (obj, (cap, ns, nr + 1)) :: x.chans.filter (·.1 != obj) }
          let (x, m) := intern x s!"{obj}/m{nr}"
          let (x, sl) := intern x s!"{obj}/s{nr}"
          (x, [.acq g m, .rel g sl])
        else let (x, o) := intern x obj; (x, [.acqrel g o])
      | none =>
        let (x, o) := intern x obj
        if op == "load" || op == "wait" || op == "get" then (x, [.acq g o])
        else if op == "store" || op == "put" then (x, [.rel g o])
        else (x, [.acqrel g o])     -- add, cas, swap, operations on channels made elsewhere, anything unknown
  | _, _ => (x, [])

def feed (x : St) (l : RawLine) : St :=
  if l.tag == "X" && l.f.head? == some "recover" then { objs := x.objs, seen := x.seen } else
  let (x, evs) := events x l
  { x with s := evs.foldl Race.step x.s }

def describe (x : St) (r : Report) : String :=
  let look := fun (i : Nat) => match x.sites.find? (·.1 == i) with | some (_, g, n) => s!"g{g} {n}" | none => "?"
  s!"data race: site {r.siteI} ({look r.i}) and site {r.siteJ} ({look r.j}) access the same memory, at least one writes, and neither happens before the other"
end RaceMap
end VarmqVerif.Driver

namespace VarmqVerif.Driver
-- ---------------------------------------------------------------- Metr (metrics counters)
namespace MetrMap
open Metr

structure St where
  s : Metr.State := {}

def isQueueObj (o : String) : Bool := o.startsWith "Queue#" || o.startsWith "PriorityQueue#"

def ctrOf (obj : String) : Option Ctr :=
  if obj == "metrics#1.submitted" then some .sub else if obj == "metrics#1.completed" then some .comp
  else if obj == "metrics#1.successful" then some .succ else if obj == "metrics#1.failed" then some .fail else none

def events (kind : String) (_ : St) (l : RawLine) : Except String (List Ev) :=
  let g := l.g
  match l.tag, l.f with
  -- adapter-backed queues: an accepted Enqueue of the recording adapter is the accepted submission (the producer's Add
  -- counts it on a persistent queue, the consumer's notification handler — called by the adapter in the same goroutine —
  -- on a distributed one); entries that were on the adapter before the bind are never counted
  | "A", [_, "enq", _, "true"] => .ok [.enqOk g]
  | "A", _ => .ok []
  | "W", "enter" :: _ => .ok [.enter g]
  -- a plain worker function (NewWorker) has no error result: only a panic (2) makes the job fail
  | "W", ["exit", _, oc] => .ok [.exit g (if kind == "plain" then oc == "2" else oc != "0")]
  | "E", [fn, obj, op, arg, res] =>
    if obj.startsWith "metrics#" && !(obj.startsWith "metrics#1.") then .error "NA second worker"
    else match ctrOf obj with
      | some c =>
        if op == "load" then .ok [.ld c (natOf res)]
        else if op == "add" then
          if arg != "1" then .error s!"counter changed by {arg} in {fn}"
          else match c with
            | .sub => .ok [.incSub g (natOf res)] | .comp => .ok [.incComp g (natOf res)]
            | .succ => .ok [.incSucc g (natOf res)] | .fail => .ok [.incFail g (natOf res)]
        else if op == "store" then .error "NA metrics reset"
        else .error s!"unmodelled operation {op} on a metrics counter in {fn}"
      | none =>
        if isQueueObj obj && op == "ret:Enqueue" && res == "true" then .ok [.enqOk g] else .ok []
  | _, _ => .ok []

def feed (kind : String) (st : RState St) (lineNo : Nat) (l : RawLine) : RState St :=
  match st with
  | .ok x =>
    match events kind x l with
    | .error e => if e.startsWith "NA" then .na e else .rejected lineNo s!"{e} @ {l.tag} {l.g} {" ".intercalate l.f}"
    | .ok evs =>
      match feedAll Metr.step x.s evs with
      | .ok s' => .ok { s := s' }
      | .error e => .rejected lineNo s!"{e} @ {l.tag} {l.g} {" ".intercalate l.f}"
  | r => r
end MetrMap
end VarmqVerif.Driver

namespace VarmqVerif.Driver
-- ---------------------------------------------------------------- Trim (how many workers the pool keeps; no idle expiry)
namespace TrimMap
open Trim

structure St where
  s : Trim.State := {}
  serveOf : List (Nat × Nat) := []      -- server goroutine ↦ pool node
  created : List (Nat × Nat) := []      -- goroutine ↦ node it has just taken from the cache (initPoolNode)
  popNil : List Nat := []               -- dispatchers whose PopBack returned nil (a worker is being created)
  tuneArg : List (Nat × Nat) := []      -- goroutine ↦ argument of its PopBackIfLonger call

def nodeId (s : String) : Nat := natOf ((s.splitOn "#").getD 1 "")
def aget (l : List (Nat × Nat)) (k : Nat) : Option Nat := (l.find? (·.1 == k)).map (·.2)
def aset (l : List (Nat × Nat)) (k v : Nat) : List (Nat × Nat) := (k, v) :: l.filter (·.1 != k)

def events (x : St) (l : RawLine) : Except String (St × List Ev) :=
  let g := l.g
  match l.tag, l.f with
  | "E", [fn, obj, op, arg, res] =>
    if op == "newticker" then .error "NA idle-worker expiry (the reaper is outside this model)"
    else if obj.startsWith "List#" && !(obj == "List#1" || obj.startsWith "List#1.") then .error "NA second worker"
    else if fn == "worker.initPoolNode" && op == "get" then
      let k := nodeId res
      if x.popNil.contains g then .ok ({ x with popNil := x.popNil.filter (· != g), created := aset x.created g k }, [.create k])
      else .ok ({ x with created := aset x.created g k }, [])
    else if fn == "Node.Serve" && op == "call:Serve" then .ok ({ x with serveOf := aset x.serveOf g (nodeId obj) }, [])
    else if obj == "List#1" && op == "ret:PopBack" then
      if res == "nil" then .ok ({ x with popNil := g :: x.popNil }, []) else .ok (x, [.take (nodeId res)])
    else if obj == "List#1" && op == "ret:PushNode" then
      match aget x.serveOf g with
      | some k => .ok (x, [.keep k])
      | none => .ok (x, [.start])
    else if obj == "List#1" && op == "ret:Len" then
      match aget x.serveOf g with
      | some k => if x.s.busy k then .ok (x, [.look k]) else .ok (x, [])
      | none => .ok (x, [])
    else if fn == "Node.Stop" && op == "call:Stop" then
      match aget x.serveOf g with
      | some k => if nodeId obj == k then .ok (x, [.retire k]) else .error "a worker goroutine stops another worker"
      | none => .ok (x, [])
    else if obj == "List#1" && op == "call:PopBackIfLonger" then .ok ({ x with tuneArg := aset x.tuneArg g (natOf arg) }, [])
    else if obj == "List#1" && op == "ret:PopBackIfLonger" then
      if res == "nil" then .ok (x, []) else .ok (x, [.tune ((aget x.tuneArg g).getD 0)])
    else if obj == "List#1" && op == "ret:NodeSlice" then .ok (x, [.stopAll])
    else .ok (x, [])
  | _, _ => .ok (x, [])

def feed (st : RState St) (lineNo : Nat) (l : RawLine) : RState St :=
  match st with
  | .ok x =>
    match events x l with
    | .error e => if e.startsWith "NA" then .na e else .rejected lineNo s!"{e} @ {l.tag} {l.g} {" ".intercalate l.f}"
    | .ok (x', evs) =>
      match feedAll (Trim.step false) x'.s evs with
      | .ok s' => .ok { x' with s := s' }
      | .error e => .rejected lineNo s!"{e} @ {l.tag} {l.g} {" ".intercalate l.f}"
  | r => r
end TrimMap
/-! ## Reap: the pool under an idle-worker expiry (reaper passes, per-run stop channel) -/
namespace ReapMap
open Reap

structure St where
  s : Reap.State := {}
  expiry : Bool := false                -- a ticker was created: the worker has an idle-worker expiry
  serveOf : List (Nat × Nat) := []      -- server goroutine ↦ pool node
  popNil : List Nat := []               -- dispatchers whose PopBack returned nil (a worker is being created)
  reaperRun : List (Nat × Nat) := []    -- reaper goroutine ↦ number of the run that started it
  lastConc : List (Nat × Nat) := []     -- goroutine ↦ limit it loaded in numMinIdleWorkers
  pend : List (Nat × Nat) := []         -- goroutine ↦ node argument of the List call in progress

def nodeId (s : String) : Nat := natOf ((s.splitOn "#").getD 1 "")
def aget (l : List (Nat × Nat)) (k : Nat) : Option Nat := (l.find? (·.1 == k)).map (·.2)
def aset (l : List (Nat × Nat)) (k v : Nat) : List (Nat × Nat) := (k, v) :: l.filter (·.1 != k)

/-- "[Node#1,Node#2]" → [1,2] -/
def nodeList (s : String) : List Nat :=
  let inner := ((s.drop 1).toString.dropEnd 1).toString
  if inner.isEmpty then [] else (inner.splitOn ",").map nodeId

/-- numMinIdleWorkers() for the limit the reaper loaded: the code's arithmetic (model Config, uint32 wrap included);
    `ratio` is what the program passed to WithMinIdleWorkerRatio (0 = option not used), clamped like the option does -/
def target (ratio conc : Nat) : Nat :=
  let pct := if ratio == 0 then 0 else min ratio 100
  (Config.numMinIdleWorkersI conc pct).toNat

def events (ratio : Nat) (x : St) (l : RawLine) : Except String (St × List Ev) :=
  let g := l.g
  match l.tag, l.f with
  | "E", [fn, obj, op, arg, res] =>
    if obj.startsWith "List#" && !(obj == "List#1" || obj.startsWith "List#1.") then .error "NA second worker"
    else if op == "newticker" then .ok ({ x with expiry := true }, [])
    else if fn == "worker.goRemoveIdleWorkers" && op == "go" then
      .ok ({ x with reaperRun := aset x.reaperRun (natOf (arg.drop 1).toString) x.s.gen }, [])
    else if fn == "worker.numMinIdleWorkers" && op == "load" then .ok ({ x with lastConc := aset x.lastConc g (natOf res) }, [])
    else if fn == "worker.stopTickers" && op == "close" then .ok (x, [.kill])
    else if fn == "worker.initPoolNode" && op == "get" then
      if x.popNil.contains g then .ok ({ x with popNil := x.popNil.filter (· != g) }, [.create (nodeId res)])
      else .ok (x, [])
    else if fn == "Node.Serve" && op == "call:Serve" then .ok ({ x with serveOf := aset x.serveOf g (nodeId obj) }, [])
    else if obj == "List#1" && op == "ret:PopBack" then
      if res == "nil" then .ok ({ x with popNil := g :: x.popNil }, []) else .ok (x, [.take (nodeId res)])
    else if obj == "List#1" && (op == "call:PushNode" || op == "call:Remove") then .ok ({ x with pend := aset x.pend g (nodeId arg) }, [])
    else if obj == "List#1" && op == "ret:PushNode" then
      if !x.expiry then .error "NA no idle-worker expiry (model Trim)"
      else match aget x.pend g, aget x.serveOf g with
      | some n, some k => if n == k then .ok (x, [.back n]) else .error s!"worker goroutine of node {k} pushed node {n}"
      | some n, none => .ok (x, [.start n])
      | none, _ => .error "PushNode return without call"
    else if obj == "List#1" && op == "ret:NodeSlice" then
      match aget x.reaperRun g with
      | some r =>
        let snap := nodeList res
        if snap != x.s.idle then .error s!"NodeSlice returned {snap} but the idle list is {x.s.idle}"
        else match aget x.lastConc g with
          | some c => .ok (x, [.snap r (target ratio c)])
          | none => .error "reaper snapshot without numMinIdleWorkers()"
      | none => .ok (x, [.stopAll])
    else if obj == "List#1" && op == "ret:Remove" then
      match aget x.reaperRun g, aget x.pend g with
      | some r, some n => .ok (x, [.rmv r n (res == "true")])
      | some _, none => .error "Remove return without call"
      | none, some n => .ok (x, [.stopRmv n (res == "true")])     -- stopAndRemoveAllWorkers
      | none, none => .error "Remove return without call"
    else if fn == "Node.Stop" && op == "call:Stop" && (aget x.serveOf g).isSome && x.expiry then
      .error "a worker goroutine stopped a worker although an idle-worker expiry is configured (freePoolNode always keeps the worker then)"
    else if obj == "List#1" && op == "ret:PopBackIfLonger" && res != "nil" && x.expiry then
      .error "TunePool took a worker out of the idle list although an idle-worker expiry is configured"
    else .ok (x, [])
  | _, _ => .ok (x, [])

def feed (ratio : Nat) (st : RState St) (lineNo : Nat) (l : RawLine) : RState St :=
  match st with
  | .ok x =>
    match events ratio x l with
    | .error e => if e.startsWith "NA" then .na e else .rejected lineNo s!"{e} @ {l.tag} {l.g} {" ".intercalate l.f}"
    | .ok (x', evs) =>
      match feedAll (Reap.step false) x'.s evs with
      | .ok s' => .ok { x' with s := s' }
      | .error e => .rejected lineNo s!"{e} @ {l.tag} {l.g} {" ".intercalate l.f}"
  | r => r
end ReapMap
/-! ## Disp: execution order against hand-out order -/
namespace DispMap
open Disp

structure St where
  s : Disp.State := {}
  names : List (String × Nat) := []     -- job handle name ↦ number
  slot : List Nat := []                 -- dispatcher goroutines that hold a slot taken in reserve()
  lastDeq : List (Nat × Nat) := []      -- dispatcher goroutine ↦ job it dequeued and has not handed over yet
  curJob : List (Nat × Nat) := []       -- pool goroutine ↦ job whose worker function it entered
  adapter : Bool := false               -- adapter-backed queue: a job is identified by its payload ("p<k>"), its handle is re-created

def idx (tab : List (String × Nat)) (name : String) : Nat × List (String × Nat) :=
  match tab.find? (·.1 == name) with
  | some (_, i) => (i, tab)
  | none => (tab.length, (name, tab.length) :: tab)
def aget (l : List (Nat × Nat)) (k : Nat) : Option Nat := (l.find? (·.1 == k)).map (·.2)
def aset (l : List (Nat × Nat)) (k v : Nat) : List (Nat × Nat) := (k, v) :: l.filter (·.1 != k)
def adel (l : List (Nat × Nat)) (k : Nat) : List (Nat × Nat) := l.filter (·.1 != k)

def events (x : St) (l : RawLine) : Except String (St × List Ev) :=
  let g := l.g
  match l.tag, l.f with
  | "A", a :: op :: rest =>
    -- one consumer on adapter 0 (several consumers / several adapters: not this model); the recording adapter logs
    -- a delivery atomically with its effect; undecodable entries have no payload number and are dequeued and skipped
    if a != "0" then .error "NA several adapter-backed queues"
    else match op, rest with
      | "deq", [_, "false"] => .ok ({ x with adapter := true }, [])
      | "deq", [k, _] =>
        if !x.slot.contains g then .error "delivery by the adapter to a goroutine that holds no slot"
        else
          let (j, names) := idx x.names (if k.toNat?.isSome then s!"p{k}" else s!"bad{x.names.length}")
          .ok ({ x with adapter := true, names := names, lastDeq := aset x.lastDeq g j }, [.deq j])
      | _, _ => .ok ({ x with adapter := true }, [])
  | "A", _ => .error "NA adapter-backed queue"
  | "W", "enter" :: k :: _ :: name :: _ =>
    -- a handle the dispatcher dequeued by name (in-memory queue), else the payload delivered by an adapter
    let (j, names) := idx x.names (if (x.names.any (·.1 == name)) || !x.adapter then name else s!"p{k}")
    .ok ({ x with names := names, curJob := aset x.curJob g j }, [.enter j])
  | "E", [fn, obj, op, arg, res] =>
    if obj.startsWith "worker#" && !(obj.startsWith "worker#1.") then .error "NA second worker"
    else if obj == "worker#1.concurrency" && op == "load" then .ok (x, [.lim (natOf res)])
    else if obj == "worker#1.concurrency" && op == "store" then .ok (x, [.lim (natOf arg)])
    else if fn == "worker.reserve" && obj == "worker#1.curProcessing" && op == "cas" && res == "true" then
      .ok ({ x with slot := g :: x.slot.filter (· != g) }, [])
    else if (fn == "Queue.Dequeue" || fn == "PriorityQueue.Dequeue") && op == "ret:Dequeue" && x.slot.contains g then
      match res.splitOn "," with
      | [name, "true"] =>
        let (j, names) := idx x.names name
        .ok ({ x with names := names, lastDeq := aset x.lastDeq g j }, [.deq j])
      | _ => .ok (x, [])
    else if fn == "Node.Send" && op == "call:Send" then
      .ok ({ x with lastDeq := adel x.lastDeq g, slot := x.slot.filter (· != g) }, [])
    else if obj == "worker#1.curProcessing" && op == "add" && (arg == "-1" || arg == "4294967295") then
      match aget x.curJob g with
      | some j => .ok ({ x with curJob := adel x.curJob g }, [.done j])
      | none =>
        match aget x.lastDeq g with
        | some j => .ok ({ x with lastDeq := adel x.lastDeq g, slot := x.slot.filter (· != g) }, [.done j])
        | none => .ok ({ x with slot := x.slot.filter (· != g) }, [])
    else .ok (x, [])
  | _, _ => .ok (x, [])

def feed (st : RState St) (lineNo : Nat) (l : RawLine) : RState St :=
  match st with
  | .ok x =>
    match events x l with
    | .error e => if e.startsWith "NA" then .na e else .rejected lineNo s!"{e} @ {l.tag} {l.g} {" ".intercalate l.f}"
    | .ok (x', evs) =>
      match feedAll Disp.step x'.s evs with
      | .ok s' => .ok { x' with s := s' }
      | .error e => .rejected lineNo s!"{e} @ {l.tag} {l.g} {" ".intercalate l.f}"
  | r => r
end DispMap
/-! ## FifoDisp: Disp composed with the FIFO specification (one standard queue) -/
namespace FifoDispMap
open FifoDisp

structure St where
  s : FifoDisp.State := {}
  dm : DispMap.St := {}                 -- bookkeeping of DispMap (job numbering, who holds a slot, …); its `s` is not used
  pendEnq : List (Nat × String) := []   -- goroutine ↦ job handle it is enqueueing

def events (x : St) (l : RawLine) : Except String (St × List Ev) :=
  let g := l.g
  match l.tag, l.f with
  | "A", _ => .error "NA adapter-backed queue"
  | "E", [fn, obj, op, arg, res] =>
    if obj.startsWith "PriorityQueue#" then .error "NA priority queue (its hand-out order is the sorted order: theorems PQ.*)"
    else if obj.startsWith "Queue#" && !(obj == "Queue#1" || obj.startsWith "Queue#1.") then .error "NA several queues"
    else if fn == "Queue.Enqueue" && op == "call:Enqueue" then .ok ({ x with pendEnq := (g, arg) :: x.pendEnq.filter (·.1 != g) }, [])
    else if fn == "Queue.Enqueue" && op == "ret:Enqueue" then
      if res != "true" then .ok (x, []) else
      match x.pendEnq.find? (·.1 == g) with
      | some (_, name) =>
        let (j, names) := DispMap.idx x.dm.names name
        .ok ({ x with dm := { x.dm with names := names } }, [.enq j])
      | none => .error "Enqueue return without call"
    else if fn == "Queue.Dequeue" && op == "ret:Dequeue" && !x.dm.slot.contains g then
      match res.splitOn "," with
      | [name, "true"] =>
        let (j, names) := DispMap.idx x.dm.names name
        .ok ({ x with dm := { x.dm with names := names } }, [.drop j])
      | _ => .ok (x, [])
    else match DispMap.events x.dm l with
      | .error e => .error e
      | .ok (dm', evs) => .ok ({ x with dm := dm' }, evs.map .d)
  | _, _ =>
    match DispMap.events x.dm l with
    | .error e => .error e
    | .ok (dm', evs) => .ok ({ x with dm := dm' }, evs.map .d)

def feed (st : RState St) (lineNo : Nat) (l : RawLine) : RState St :=
  match st with
  | .ok x =>
    match events x l with
    | .error e => if e.startsWith "NA" then .na e else .rejected lineNo s!"{e} @ {l.tag} {l.g} {" ".intercalate l.f}"
    | .ok (x', evs) =>
      match feedAll FifoDisp.step x'.s evs with
      | .ok s' => .ok { x' with s := s' }
      | .error e => .rejected lineNo s!"{e} @ {l.tag} {l.g} {" ".intercalate l.f}"
  | r => r
end FifoDispMap
/-! ## Cap: number of workers against the slot accounting -/
namespace CapMap
open Cap

structure St where
  s : Cap.State := {}
  slot : List Nat := []                 -- dispatcher goroutines that hold a slot and have no worker for it yet
  serveOf : List (Nat × Nat) := []      -- server goroutine ↦ pool node

def nodeId (s : String) : Nat := natOf ((s.splitOn "#").getD 1 "")
def aget (l : List (Nat × Nat)) (k : Nat) : Option Nat := (l.find? (·.1 == k)).map (·.2)
def aset (l : List (Nat × Nat)) (k v : Nat) : List (Nat × Nat) := (k, v) :: l.filter (·.1 != k)

def events (x : St) (l : RawLine) : Except String (St × List Ev) :=
  let g := l.g
  match l.tag, l.f with
  | "E", [fn, obj, op, arg, res] =>
    if (obj.startsWith "worker#" && !(obj.startsWith "worker#1.")) || (obj.startsWith "List#" && !(obj == "List#1" || obj.startsWith "List#1.")) then .error "NA second worker"
    else if obj == "worker#1.concurrency" && op == "load" then .ok (x, [.lim (natOf res)])
    else if obj == "worker#1.concurrency" && op == "store" then .ok (x, [.lim (natOf arg)])
    else if fn == "worker.reserve" && obj == "worker#1.curProcessing" && op == "cas" && res == "true" then
      .ok ({ x with slot := g :: x.slot.filter (· != g) }, [.reserve])
    else if obj == "worker#1.curProcessing" && op == "add" && (arg == "-1" || arg == "4294967295") then
      if x.slot.contains g then .ok ({ x with slot := x.slot.filter (· != g) }, [.unreserve]) else .ok (x, [.release])
    else if fn == "Node.Serve" && op == "call:Serve" then .ok ({ x with serveOf := aset x.serveOf g (nodeId obj) }, [])
    else if obj == "List#1" && op == "ret:PopBack" then
      .ok ({ x with slot := x.slot.filter (· != g) }, [if res == "nil" then .create else .take])
    else if obj == "List#1" && op == "ret:PushNode" then
      .ok (x, [if (aget x.serveOf g).isSome then .push else .start])
    else if fn == "Node.Stop" && op == "call:Stop" && aget x.serveOf g == some (nodeId obj) then .ok (x, [.retire])
    else if obj == "List#1" && op == "ret:Remove" && res == "true" then .ok (x, [.remove])
    else if obj == "List#1" && op == "ret:PopBackIfLonger" && res != "nil" then .ok (x, [.remove])
    else .ok (x, [])
  | _, _ => .ok (x, [])

def feed (st : RState St) (lineNo : Nat) (l : RawLine) : RState St :=
  match st with
  | .ok x =>
    match events x l with
    | .error e => if e.startsWith "NA" then .na e else .rejected lineNo s!"{e} @ {l.tag} {l.g} {" ".intercalate l.f}"
    | .ok (x', evs) =>
      match feedAll Cap.step x'.s evs with
      | .ok s' => .ok { x' with s := s' }
      | .error e => .rejected lineNo s!"{e} @ {l.tag} {l.g} {" ".intercalate l.f}"
  | r => r
end CapMap
end VarmqVerif.Driver
