import VarmqVerif.Model.Res
import Driver.Parse
/-!
  Correspondence replay (DESIGN.md §3.3 (a)): the raw event lines of an implementation execution
  are projected onto the events of each model and fed to the model's `step`. A rejected event is a
  correspondence break: reported with the line number and the model's reason.
-/
namespace VarmqVerif.Driver
open VarmqVerif

/-- a raw trace line, tokenised -/
structure RawLine where
  tag : String
  g : Nat
  f : List String      -- remaining fields
  deriving Repr

def parseRaw (line : String) : Option RawLine :=
  match toks line with
  | tag :: g :: rest => some { tag := tag, g := natOf g, f := rest }
  | _ => none

/-- state of one model replay: still accepting, or rejected at (line, reason), or not applicable -/
inductive RState (σ : Type) where
  | ok (s : σ)
  | rejected (line : Nat) (why : String)
  | na (why : String)

def feedAll {σ ε} (step : σ → ε → Except String σ) (s : σ) (evs : List ε) : Except String σ :=
  evs.foldlM (fun s e => step s e) s

-- ---------------------------------------------------------------- Res

namespace ResMap
open Res

def apiOf (name : String) : Option Api :=
  match name with
  | "pause" => some .pause | "pauseandwait" => some .pauseAndWait | "stop" => some .stop
  | "waitandstop" => some .waitAndStop | "resume" => some .resume | "restart" => some .restart
  | "bind" => some .bind | "tune" => some .tune | "wuf" => some .wuf
  | _ => none

def lifecycleFns : List String := ["worker.pause", "worker.stop", "worker.Restart", "worker.startRun", "worker.Resume"]

/-- project one raw line onto Res events (needs the state only to tell who releases) -/
def events (s : State) (l : RawLine) : Except String (List Ev) :=
  let g := l.g
  match l.tag, l.f with
  | "E", [fn, obj, op, arg, res] =>
    if obj.startsWith "worker#" && !(obj.startsWith "worker#1.") then .error "NA second worker"
    else if obj == "worker#1.status" then
      if op == "load" then
        if fn == "worker.reserve" then .ok [.ldStatusD g (natOf res)]
        else if fn == "worker.WaitUntilFinished$1" then .ok [.ldStatusB g (natOf res)]
        else if lifecycleFns.contains fn then .ok [.ldStatusL g (natOf res)]
        else .ok [.ldStatusAny g (natOf res)]
      else if op == "store" then .ok [.stStatus g (natOf arg)]
      else .error s!"unmodelled operation {op} on the worker status in {fn}"
    else if obj == "worker#1.curProcessing" then
      if op == "load" then
        if fn == "worker.reserve" then .ok [.ldCurD g (natOf res)]
        else if fn == "worker.WaitUntilFinished$1" then .ok [.ldCurB g (natOf res)]
        else .ok [.ldCurAny g (natOf res)]
      else if op == "cas" then
        match arg.splitOn "," with
        | [o, n] => if fn == "worker.reserve" then .ok [.casCur g (natOf o) (natOf n) (res == "true")] else .error s!"CAS on curProcessing in {fn}"
        | _ => .error "malformed cas"
      else if op == "add" then
        if arg != "-1" then .error s!"curProcessing.Add({arg}) in {fn}: the model only knows the CAS in reserve() and Add(-1) in release()"
        else if s.rph g == .done then .ok [.relR g (natOf res)] else .ok [.relD g (natOf res)]
      else .error s!"unmodelled operation {op} on curProcessing in {fn}"
    else if obj == "worker#1.concurrency" then
      if op == "load" then (if fn == "worker.reserve" then .ok [.ldConcD g (natOf res)] else .ok [.ldConcAny g (natOf res)])
      else if op == "store" then .ok [.stConc g (natOf arg)]
      else .error s!"unmodelled operation {op} on concurrency in {fn}"
    else if obj == "worker#1.lifecycle" then
      if op == "lock" then
        (if fn == "worker.goListenToContext$1" then .ok [.call g .ctxStop, .lockL g] else .ok [.lockL g])
      else if op == "unlock" then
        (if fn == "worker.goListenToContext$1" then .ok [.unlockL g, .ret g .ctxStop false] else .ok [.unlockL g])
      else .error s!"unmodelled operation {op} on w.lifecycle"
    else if fn == "Node.Send" && op == "send" then .ok [.send g]
    else .ok []
  | "W", "enter" :: k :: _ => .ok [.enter g (natOf k)]
  | "W", "exit" :: k :: _ => .ok [.exit g (natOf k)]
  | "C", _ :: api :: _ =>
    match apiOf api with
    | some a => .ok [.call g a]
    | none => .ok []
  | "R", _ :: api :: rest =>
    match apiOf api with
    | some a => .ok [.ret g a (rest.head? == some "nil")]
    | none => .ok []
  | _, _ => .ok []

def feed (st : RState State) (lineNo : Nat) (l : RawLine) : RState State :=
  match st with
  | .ok s =>
    match events s l with
    | .error m => if m.startsWith "NA" then .na m else .rejected lineNo m
    | .ok evs =>
      match feedAll Res.step s evs with
      | .ok s' => .ok s'
      | .error m => .rejected lineNo s!"{m} @ {l.tag} {l.g} {" ".intercalate l.f}"
  | r => r
end ResMap

end VarmqVerif.Driver
