import VarmqVerif.Spec.Props3
import Driver.Parse
import Driver.Replay
import Driver.Diff
/-!
  Correspondence / oracle driver (DESIGN.md §3.3). Reads a stream of traces
    BEGIN idx seed / P json / ...lines... / S schedule / END idx k=v...
  and prints, per trace, one line
    RESULT idx <prop>=ok|BAD ...   followed by `V idx prop message` lines for violations.
-/
open VarmqVerif VarmqVerif.Driver

structure Cur where
  idx : String := ""
  params : Params := {}
  obs : Array Obs := #[]
  nlines : Nat := 0
  ph : UInt64 := 0
  sh : UInt64 := 0
  switches : Nat := 0
  res : RState Res.State := .ok (Res.init 1)
  job : RState JobMap.St := .ok {}
  sig : RState SigMap.St := .ok {}
  sig2 : RState SigMap2.St := .ok {}
  race : RaceMap.St := {}
  metr : RState MetrMap.St := .ok {}
  trim : RState TrimMap.St := .ok {}
  reap : RState ReapMap.St := .ok {}
  disp : RState DispMap.St := .ok {}
  fdisp : RState FifoDispMap.St := .ok {}
  cap : RState CapMap.St := .ok {}
  ack : RState AckMap.St := .ok {}
  wake : RState WakeMap.St := .ok {}
  pool : RState PoolMap.St := .ok {}
  calls : List (Nat × Call) := []

def wanted (sel : List String) (id : String) : Bool := sel.isEmpty || sel.contains id

def finish (sel : List String) (c : Cur) (e : EndInfo) : IO Unit := do
  let tr := c.obs.toList
  let mut summary := ""
  let mut viols : Array String := #[]
  for (id, chk) in Spec.allChecks3 do
    if wanted sel id then
      let vs := chk c.params tr e
      summary := summary ++ s!" {id}={if vs.isEmpty then "ok" else "BAD"}"
      for v in vs do
        viols := viols.push s!"V {c.idx} {id} {v}"
  if sel.contains "C19" then
    let rs := c.race.s.reports
    summary := summary ++ s!" C19={if !c.race.seen then "na" else if rs.isEmpty then "ok" else "BAD"}"
    -- one line per pair of source sites
    let mut seenPairs : List (Nat × Nat) := []
    for r in rs do
      if !seenPairs.contains (r.siteI, r.siteJ) then
        seenPairs := (r.siteI, r.siteJ) :: seenPairs
        viols := viols.push s!"V {c.idx} C19 {RaceMap.describe c.race r}"
  let entered := tr.any (fun o => match o with | .enter .. => true | _ => false)
  let nt := if entered && c.switches ≥ 3 then 1 else 0
  let (model1, ml1) : String × List String := match c.res with
    | .ok _ => ("ok", [])
    | .na _ => ("na", [])
    | .rejected ln why => ("Res", [s!"M {c.idx} Res line={ln} {why}"])
  let (model2, ml2) : String × List String := match c.job with
    | .ok _ => ("ok", [])
    | .na _ => ("na", [])
    | .rejected ln why => ("Job", [s!"M {c.idx} Job line={ln} {why}"])
  let (model3, ml3) : String × List String := match c.sig with
    | .ok _ => ("ok", [])
    | .na _ => ("na", [])
    | .rejected ln why => ("Sig", [s!"M {c.idx} Sig line={ln} {why}"])
  let (model4, ml4) : String × List String := match c.ack with
    | .ok _ => ("ok", [])
    | .na _ => ("na", [])
    | .rejected ln why => ("Ack", [s!"M {c.idx} Ack line={ln} {why}"])
  let (model5, ml5) : String × List String := match c.wake with
    | .ok _ => ("ok", [])
    | .na _ => ("na", [])
    | .rejected ln why => ("Wake", [s!"M {c.idx} Wake line={ln} {why}"])
  let (model6, ml6) : String × List String := match c.pool with
    | .ok _ => ("ok", [])
    | .na _ => ("na", [])
    | .rejected ln why => ("Pool", [s!"M {c.idx} Pool line={ln} {why}"])
  let (model7, ml7) : String × List String := match c.sig2 with
    | .ok _ => ("ok", [])
    | .na why => ("na", [s!"N {c.idx} Sig2 {why}"])
    | .rejected ln why => ("Sig2", [s!"M {c.idx} Sig2 line={ln} {why}"])
  let (model8, ml8) : String × List String := match c.metr with
    | .ok _ => ("ok", [])
    | .na _ => ("na", [])
    | .rejected ln why => ("Metr", [s!"M {c.idx} Metr line={ln} {why}"])
  let (model9, ml9) : String × List String := match c.trim with
    | .ok _ => ("ok", [])
    | .na why => ("na", [s!"N {c.idx} Trim {why}"])
    | .rejected ln why => ("Trim", [s!"M {c.idx} Trim line={ln} {why}"])
  let (model10, ml10) : String × List String := match c.reap with
    | .ok x => (if x.expiry then "ok" else "na", [])
    | .na _ => ("na", [])
    | .rejected ln why => ("Reap", [s!"M {c.idx} Reap line={ln} {why}"])
  let (model11, ml11) : String × List String := match c.disp with
    | .ok _ => ("ok", [])
    | .na _ => ("na", [])
    | .rejected ln why => ("Disp", [s!"M {c.idx} Disp line={ln} {why}"])
  let (model12, ml12) : String × List String := match c.fdisp with
    | .ok _ => ("ok", [])
    | .na _ => ("na", [])
    | .rejected ln why => ("FifoDisp", [s!"M {c.idx} FifoDisp line={ln} {why}"])
  let (model13, ml13) : String × List String := match c.cap with
    | .ok _ => ("ok", [])
    | .na _ => ("na", [])
    | .rejected ln why => ("Cap", [s!"M {c.idx} Cap line={ln} {why}"])
  let model := if model13 != "ok" && model13 != "na" then model13 else if model12 != "ok" && model12 != "na" then model12 else if model11 != "ok" && model11 != "na" then model11 else if model10 != "ok" && model10 != "na" then model10 else if model9 != "ok" && model9 != "na" then model9 else if model8 != "ok" && model8 != "na" then model8 else if model7 != "ok" && model7 != "na" then model7 else if model6 != "ok" && model6 != "na" then model6 else if model5 != "ok" && model5 != "na" then model5 else if model1 != "ok" && model1 != "na" then model1 else if model2 != "ok" && model2 != "na" then model2 else if model3 != "ok" && model3 != "na" then model3 else if model4 != "ok" && model4 != "na" then model4 else "ok"
  let mlines := ml1 ++ ml2 ++ ml3 ++ ml4 ++ ml5 ++ ml6 ++ ml7 ++ ml8 ++ ml9 ++ ml10 ++ ml11 ++ ml12 ++ ml13
  let nas := (if model1 == "na" then 1 else 0) + (if model2 == "na" then 1 else 0) + (if model3 == "na" then 1 else 0)
  IO.println s!"RESULT {c.idx}{summary} model={model} na={nas} obs={tr.length} lines={c.nlines} ph={c.ph} sh={c.sh} nt={nt} ms=Res:{model1},Job:{model2},Sig:{model3},Ack:{model4},Wake:{model5},Pool:{model6},Sig2:{model7},Metr:{model8},Trim:{model9},Reap:{model10},Disp:{model11},FifoDisp:{model12},Cap:{model13}"
  for m in mlines do IO.println m
  for v in viols do IO.println v

partial def loop (h : IO.FS.Stream) (sel : List String) (c : Cur) : IO Unit := do
  let line ← h.getLine
  if line.isEmpty then return ()
  let line := (line.dropEndWhile (fun ch => ch == '\n' || ch == '\r')).toString
  if line.startsWith "BEGIN " then
    loop h sel { idx := ((line.splitOn " ").getD 1 "") }
  else if line.startsWith "P " then
    loop h sel { c with params := parseParams (line.drop 2).toString, ph := hash line }
  else if line.startsWith "S " then
    -- number of context switches in the schedule
    let cs := ((line.drop 3).toString.splitOn ",")
    let sw := (cs.zip (cs.drop 1)).foldl (fun n (a, b) => if a != b then n + 1 else n) 0
    loop h sel { c with sh := hash line, switches := sw }
  else if line.startsWith "END " then
    finish sel c (parseEnd (toks line))
    loop h sel {}
  else
    let c := match parseRaw line with
      | some rl => { c with res := ResMap.feed c.res (c.nlines + 1) rl, job := JobMap.feed c.job (c.nlines + 1) rl,
                               sig := SigMap.feed c.sig (c.nlines + 1) rl,
                               sig2 := SigMap2.feed (c.params.kind == "plain" && (c.params.queues == ["pers"] || c.params.queues == ["persprio"] || c.params.queues == ["dist"] || c.params.queues == ["distprio"])) c.sig2 (c.nlines + 1) rl,
                               metr := MetrMap.feed c.params.kind c.metr (c.nlines + 1) rl,
                               trim := TrimMap.feed c.trim (c.nlines + 1) rl,
                               reap := ReapMap.feed c.params.minIdle c.reap (c.nlines + 1) rl,
                               disp := DispMap.feed c.disp (c.nlines + 1) rl,
                               fdisp := FifoDispMap.feed c.fdisp (c.nlines + 1) rl,
                               cap := CapMap.feed c.cap (c.nlines + 1) rl,
                               race := (if sel.contains "C19" then RaceMap.feed c.race rl else c.race),
                               ack := AckMap.feed c.ack (c.nlines + 1) rl,
                               wake := WakeMap.feed (c.params.kind == "plain" && (c.params.queues == ["pers"] || c.params.queues == ["persprio"] || c.params.queues == ["dist"] || c.params.queues == ["distprio"])) c.wake (c.nlines + 1) rl,
                               pool := PoolMap.feed c.pool (c.nlines + 1) rl }
      | none => c
    match parseObs line with
    | some (.call g cid cl) => loop h sel { c with obs := c.obs.push (.call g cid cl), nlines := c.nlines + 1, calls := (cid, cl) :: c.calls }
    | some (.ret g cid cl r) =>
      -- the return line does not repeat the arguments: take the call from its call line
      let cl' := match c.calls.find? (·.1 == cid) with | some (_, x) => x | none => cl
      loop h sel { c with obs := c.obs.push (.ret g cid cl' r), nlines := c.nlines + 1, calls := c.calls.filter (·.1 != cid) }
    | some .recover =>
      -- a fresh process: object names start again, so the model replays start again
      loop h sel { c with obs := c.obs.push .recover, nlines := c.nlines + 1, res := .ok (Res.init 1), job := .ok {}, sig := .ok {}, sig2 := (if c.params.queues.any (fun q => q.startsWith "pers" || q.startsWith "dist") then .na "NA recovered adapter (its contents precede this process)" else .ok {}), metr := .ok {}, trim := .ok {}, reap := .ok {}, disp := .ok {}, fdisp := .ok {}, cap := .ok {}, wake := (if c.params.queues.any (fun q => q.startsWith "pers" || q.startsWith "dist") then .na "NA recovered adapter" else .ok {}), pool := .ok {}, calls := [] }
    | some o =>
      let obs := match parseObs2 line with | some o2 => (c.obs.push o).push o2 | none => c.obs.push o
      loop h sel { c with obs := obs, nlines := c.nlines + 1 }
    | none => loop h sel { c with nlines := c.nlines + 1 }

def main (args : List String) : IO Unit := do
  if args.any (·.startsWith "diff:") then
    runDiff
  else
    let h ← IO.getStdin
    loop h args {}
