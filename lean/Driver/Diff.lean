import VarmqVerif.Model.Fifo
import VarmqVerif.Model.PQ
import VarmqVerif.Model.Manager
import VarmqVerif.Model.Config
import VarmqVerif.Model.Codec
import VarmqVerif.Model.JobCfg
import Driver.Parse
/-!
  White-box container differential (DESIGN.md §3.4): the harness prints, per operation on the real
  container, the result and the internal shape; here the same operation is run on the model and
  the two are compared.

    DC <case> <kind> <params…>
    D  <case> <op> <args…> => <out> # <shape>
-/
namespace VarmqVerif.Driver
open VarmqVerif

def csvNat (s : String) : List Nat := if s.isEmpty then [] else (s.splitOn ",").map natOf
def csvInt (s : String) : List Int := if s.isEmpty then [] else (s.splitOn ",").map intOf

def showNatList (l : List Nat) : String := ",".intercalate (l.map toString)

inductive DState where
  | none
  | fifo (s : Fifo.State Nat)
  | pq (s : PQ.State Nat)
  | manager (strategy : Nat) (lens : List Int) (rr : Nat)
  | config (cpus : Nat)
  | codec
  | jobcfg

structure DAcc where
  st : DState := .none
  case_ : String := ""
  cases : Nat := 0
  ops : Nat := 0
  bad : Nat := 0
  nontrivial : Nat := 0      -- cases that crossed a chunk boundary / performed a heap swap / selected a queue
  curNontrivial : Bool := false
  hashes : List UInt64 := []
  curHash : UInt64 := 7
  shapeOff : Bool := false   -- fifo/pq: the internal layout has already diverged in this case; outputs are still compared

def fifoShape (s : Fifo.State Nat) : String :=
  match Fifo.shape s with
  | [] => "-"
  | l => ";".intercalate (l.map (fun (c, r, w) => s!"{c},{r},{w}"))

def pqShape (s : PQ.State Nat) : String :=
  match PQ.shape s with
  | [] => "-"
  | l => ";".intercalate (l.map (fun (p, i) => s!"{p},{i}"))

def fifoOut : Fifo.Out Nat → String
  | .bool b => s!"b:{b}"
  | .item (some x) => s!"i:{x}"
  | .item none => "i:none"
  | .nat n => s!"n:{n}"
  | .list xs => "l:" ++ showNatList xs
  | .unit => "u"

def pqOut : PQ.Out Nat → String
  | .bool b => s!"b:{b}"
  | .item (some x) => s!"i:{x}"
  | .item none => "i:none"
  | .nat n => s!"n:{n}"
  | .list xs => "l:" ++ showNatList xs
  | .unit => "u"

/-- run one D line on the model; returns (new state, model output, model shape, nontrivial?) or an error -/
def stepD (st : DState) (op : String) (args : List String) : Except String (DState × String × String × Bool) :=
  match st with
  | .fifo s =>
    let o : Option (Fifo.Op Nat) := match op, args with
      | "enq", [x] => some (.enq (natOf x)) | "deq", _ => some .deq | "len", _ => some .len
      | "values", _ => some .values | "purge", _ => some .purge | "close", _ => some .close | _, _ => none
    match o with
    | some o =>
      let (s', out) := Fifo.step s o
      .ok (.fifo s', fifoOut out, fifoShape s', (Fifo.shape s').length > 1)
    | none => .error s!"unknown fifo op {op}"
  | .pq s =>
    let o : Option (PQ.Op Nat) := match op, args with
      | "enq", [x, p] => some (.enq (natOf x) (intOf p)) | "deq", _ => some .deq | "len", _ => some .len
      | "values", _ => some .values | "purge", _ => some .purge | "close", _ => some .close | _, _ => none
    match o with
    | some o =>
      let (s', out) := PQ.step s o
      .ok (.pq s', pqOut out, pqShape s', (PQ.shape s').length > 2)
    | none => .error s!"unknown pq op {op}"
  | .manager strategy lens rr =>
    match op, args with
    | "setlen", [i, n] => .ok (.manager strategy (lens.set (natOf i) (intOf n)) rr, "u", "-", false)
    | "register", [n] => .ok (.manager strategy (Manager.register lens (intOf n)) rr, "u", "-", true)
    | "unregister", [i] =>
      let (lens', rr') := Manager.unregister lens rr (natOf i)
      let order := ".".intercalate ((List.range lens'.length).map toString)
      .ok (.manager strategy lens' rr', s!"x:{Manager.count lens'},{rr'},{order}", "-", true)
    | "next", _ =>
      let (r, rr') := Manager.next strategy lens rr
      let tot := Manager.total lens
      match r with
      | .ok i => .ok (.manager strategy (lens.set i ((lens.getD i 0) - 1)) rr', s!"x:{i},{rr'},{tot}", "-", true)
      | .error (.mgr .noItems) => .ok (.manager strategy lens rr', s!"x:-1,{rr'},{tot}", "-", false)
      | .error (.mgr .allEmpty) => .ok (.manager strategy lens rr', s!"x:-2,{rr'},{tot}", "-", false)
      | .error .invalidStrategy => .ok (.manager strategy lens rr', s!"x:-3,{rr'},{tot}", "-", false)
    | _, _ => .error s!"unknown manager op {op}"
  | .config cpus =>
    match op, args with
    | "safe", [n] => .ok (st, s!"n:{Config.withSafeConcurrencyI cpus (intOf n)}", "-", intOf n ≥ 4294967296 || intOf n < 1)
    | "clamp", [p] => .ok (st, s!"n:{Config.clampPercentageI (natOf p)}", "-", natOf p == 0 || natOf p > 100)
    | "minidle", [c, p] => .ok (st, s!"n:{Config.numMinIdleWorkersI (natOf c) (natOf p)}", "-", true)
    | _, _ => .error s!"unknown config op {op}"
  | .codec =>
    match op, args with
    | "jstatus", [n] => .ok (st, s!"s:{Codec.renderNat (natOf n)}", "-", true)
    | "wstatus", [n] =>
      let str := match natOf n with | 0 => "Initiated" | 1 => "Running" | 2 => "Paused" | 3 => "Stopped" | _ => "Unknown"
      .ok (st, s!"s:{str}", "-", true)
    | "parse", [q] =>
      -- the argument is the JSON string literal of the status text
      let raw := ((q.replace "%20" " ").drop 1).dropEnd 1 |>.toString
      match Codec.parse raw with
      | some s => .ok (st, s!"s:{Codec.render s}", "-", true)
      | none => .ok (st, "e:invalid", "-", true)
    | "roundtrip", _ => .ok (st, "b:true", "-", false)
    -- rejected, adapter not called, nothing stored, not counted, nothing pending
    | "unencodable", _ => .ok (st, "r:false,0,0,0,0", "-", true)   -- encoding/json fidelity: a test of the assumed law, not a model run
    | _, _ => .error s!"unknown codec op {op}"
  | .jobcfg =>
    -- JSON string literals / arrays of the harness: strip quotes, split on `","`
    let unq := fun (q : String) => (((q.replace "%20" " ").drop 1).dropEnd 1).toString
    match op, args with
    | "load", [gen, js] =>
      let inner := (((js.replace "%20" " ").drop 1).dropEnd 1).toString
      let ids := if inner.isEmpty then [] else (inner.splitOn ",").map unq
      .ok (st, s!"s:{(JobCfg.loadJobConfigs gen ids).replace " " "%20"}", "-", ids.any (· != ""))
    | "group", [q] => .ok (st, s!"s:{(JobCfg.groupId (unq q)).replace " " "%20"}", "-", true)
    | "helper", [k, isNil] =>
      let h : JobCfg.Helper := match natOf k with | 0 => .func | 1 => .errFunc | _ => .resultFunc
      let o := match JobCfg.helperOutcome h (isNil == "true") with | .ran => "ran" | .panicNil => "panicNil" | .errNil => "errNil"
      .ok (st, s!"s:{o}", "-", isNil == "true")
    | _, _ => .error s!"unknown jobcfg op {op}"
  | .none => .error "D line before DC"

/-- does the implementation's answer to `next` violate the strategy's specification in the state the
    model is in? (the model's own answer always satisfies it: Proofs/Manager) -/
def managerSpecViol (strategy : Nat) (lens : List Int) (rr : Nat) (out : String) : Option String :=
  let body := (out.drop 2).toString
  let i : Int := intOf ((body.splitOn ",").headD "0")
  let n := lens.length
  let nonEmpty := (List.range n).filter (fun j => lens.getD j 0 > 0)
  if strategy > 2 then none else
  if i < 0 then
    if nonEmpty.isEmpty then none else some s!"no queue selected (code {i}) although queues {nonEmpty} are non-empty (lengths {lens})"
  else
    let iu := i.toNat
    if lens.getD iu 0 ≤ 0 then some s!"queue {iu} selected although it is empty (lengths {lens})"
    else if strategy == 0 then
      -- the next non-empty queue in binding order, cyclically from the cursor
      let order := (List.range n).map (fun k => (rr + k) % n)
      match order.find? (fun j => lens.getD j 0 > 0) with
      | some j => if j == iu then none else some s!"RoundRobin selected queue {iu}; the next non-empty queue in binding order after the previous selection is {j} (lengths {lens}, cursor {rr})"
      | none => none
    else if strategy == 1 then
      let mx := lens.foldl max 0
      if lens.getD iu 0 == mx then none else some s!"MaxLen selected queue {iu} of length {lens.getD iu 0}; the longest has {mx} (lengths {lens})"
    else
      let pos := lens.filter (· > 0)
      let mn := pos.foldl min (pos.headD 0)
      if lens.getD iu 0 == mn then none else some s!"MinLen selected queue {iu} of length {lens.getD iu 0}; the shortest non-empty has {mn} (lengths {lens})"

def endCase (a : DAcc) : DAcc :=
  if a.case_.isEmpty then a else
  { a with cases := a.cases + 1, nontrivial := a.nontrivial + (if a.curNontrivial then 1 else 0),
           hashes := a.curHash :: a.hashes, curNontrivial := false, curHash := 7, case_ := "" }

partial def diffLoop (h : IO.FS.Stream) (a : DAcc) : IO DAcc := do
  let line ← h.getLine
  if line.isEmpty then return endCase a
  let line := (line.dropEndWhile (fun ch => ch == '\n' || ch == '\r')).toString
  match toks line with
  | "DC" :: c :: kind :: ps =>
    let a := endCase a
    let st : DState := match kind, ps with
      | "fifo", [ic, mc] => .fifo (Fifo.init (natOf ic) (natOf mc))
      | "pq", _ => .pq PQ.init
      | "manager", strat :: rest => .manager (natOf strat) (csvInt (rest.headD "")) 0
      | "config", [cpus] => .config (natOf cpus)
      | "codec", _ => .codec
      | "jobcfg", _ => .jobcfg
      | _, _ => .none
    diffLoop h { a with st := st, case_ := c, curHash := mixHash 7 (hash line), shapeOff := false }
  | "D" :: c :: op :: rest =>
    -- split "args… => out # shape"
    let args := rest.takeWhile (· != "=>")
    let after := (rest.dropWhile (· != "=>")).drop 1
    let out := after.headD ""
    let shape := (after.dropWhile (· != "#")).drop 1 |>.headD "-"
    let a0st := a.st
    match stepD a.st op args with
    | .error m =>
      if a0st matches .none then diffLoop h { a with ops := a.ops + 1 } else
      IO.println s!"DIFFBAD {c} {op}: {m}"
      diffLoop h { a with ops := a.ops + 1, bad := a.bad + 1 }
    | .ok (st', mout, mshape, nt) =>
      let a := { a with st := st', ops := a.ops + 1, curNontrivial := a.curNontrivial || nt, curHash := mixHash a.curHash (hash (op :: args)) }
      let isQueue := match a0st with | .fifo _ => true | .pq _ => true | _ => false
      if isQueue && mout == out && (a.shapeOff || mshape != shape) then
        -- same answer, different internal layout: the correspondence is broken (reported once per case), but the
        -- abstract contents still agree, so the case goes on and the answers keep being compared: an answer that
        -- differs later is a failing input for the queue's specification
        if !a.shapeOff then
          IO.println s!"DIFFBAD {c} op#{a.ops} {op} {" ".intercalate args}: implementation {out} # {shape}; model {mout} # {mshape}"
        diffLoop h { a with bad := a.bad + (if a.shapeOff then 0 else 1), shapeOff := true }
      else if mout != out || mshape != shape then
        IO.println s!"DIFFBAD {c} op#{a.ops} {op} {" ".intercalate args}: implementation {out} # {shape}; model {mout} # {mshape}"
        if isQueue && mout != out then
          -- the model is proved to answer as the FIFO / priority specification does (Proofs/Fifo, Proofs/PQRefine)
          IO.println s!"DIFFVIOL {c} op#{a.ops} {op} {" ".intercalate args} answered {out}; the queue specification ({match a0st with | .pq _ => "what was enqueued, smallest priority first and in submission order among equal priorities" | _ => "what was enqueued, in order"}, minus what was dequeued or purged) answers {mout}"
        -- is the implementation's answer itself against the specification? (first disagreement of a case only:
        -- afterwards model and implementation are in different states)
        match a0st, op with
        | .manager strategy lens rr, "next" =>
          match managerSpecViol strategy lens rr out with
          | some m => IO.println s!"DIFFVIOL {c} {m}"
          | none => pure ()
        | .codec, "unencodable" =>
          IO.println s!"DIFFVIOL {c} a payload that cannot be encoded (kind {" ".intercalate args}) was not rejected without effect: accepted, Enqueue calls, stored entries, Submitted, NumPending = {(out.drop 2).toString}"
        | .codec, "roundtrip" =>
          -- an id / payload that does not come back from Json() → parseToJob as a JSON round trip of it: a failing input
          IO.println s!"DIFFVIOL {c} id/payload {(" ".intercalate (args.drop 1)).replace "%20" " "} is not what the worker receives after Json() and parseToJob"
        | _, _ => pure ()
        -- stateless tables go on; stateful containers have diverged
        diffLoop h { a with bad := a.bad + 1, st := (match a0st with | .codec => a0st | .config _ => a0st | .jobcfg => a0st | _ => .none) }
      else diffLoop h a
  | _ => diffLoop h a

def runDiff : IO Unit := do
  let h ← IO.getStdin
  let a ← diffLoop h {}
  let distinct := a.hashes.eraseDups.length
  IO.println s!"DIFFSUM cases={a.cases} ops={a.ops} bad={a.bad} distinct={distinct} nontrivial={a.nontrivial}"

end VarmqVerif.Driver
