-- This module serves as the root of the `VarmqVerif` library.
-- Import modules here that should be built as part of the library.
import VarmqVerif.Basic
