import VarmqVerif.Spec.Obs
import VarmqVerif.Spec.Props
import VarmqVerif.Spec.Props2
import VarmqVerif.Spec.Props3
