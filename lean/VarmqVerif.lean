import VarmqVerif.Spec.Obs
import VarmqVerif.Spec.Props
import VarmqVerif.Spec.Props2
