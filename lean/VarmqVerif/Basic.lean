def hello := "world"
