import VarmqVerif.Proofs.Manager
import VarmqVerif.Tie.Facts
/-!
  C15 — multi-queue selection follows the configured strategy and starves no queue.
  `Manager` abstracts the bound queues to their current lengths; the theorems hold for any number
  of queues of any kind and unbounded event sequences.
-/
namespace VarmqVerif.Props.C15
open VarmqVerif Manager

/-- RoundRobin returns the first non-empty queue in cyclic order from the cursor and advances the
    cursor just past it; it fails exactly when every queue is empty (cursor unchanged) -/
theorem round_robin_spec (lens : List Int) (rr : Nat) (hrr : rr < lens.length) :
    ((∃ j, ∃ hj : j < lens.length, 0 < lens[j]) →
       ∃ q, ∃ hq : q < lens.length, roundRobin lens rr = (.ok q, (q + 1) % lens.length) ∧ 0 < lens[q] ∧
         ∀ t (ht : t < lens.length), dist lens.length rr t < dist lens.length rr q → lens[t] ≤ 0) ∧
    ((∀ j (hj : j < lens.length), lens[j] ≤ 0) → roundRobin lens rr = (.error .allEmpty, rr)) :=
  rr_spec lens rr hrr

/-- the cursor stays a valid index, so the Go loop never indexes out of range -/
theorem round_robin_cursor_valid (lens : List Int) (rr : Nat) (hrr : rr < lens.length) :
    (roundRobin lens rr).2 < lens.length := rr_cursor_lt lens rr hrr

/-- a queue that is non-empty whenever a selection is made is selected within n selections -/
theorem round_robin_no_starvation (s : St) (hwf : s.WF) (i : Nat) (hi : i < s.lens.length) (evs : List Ev)
    (hne : NonemptyAtSelects i s evs) (hn : s.lens.length ≤ numSelects evs) :
    s.servedOf i + 1 ≤ (run s evs).servedOf i := rr_no_starvation s hwf i hi evs hne hn

/-- two queues that are both non-empty at every selection receive equal shares (difference ≤ 1),
    over any number of interleaved submissions and selections -/
theorem round_robin_equal_share (s : St) (hwf : s.WF) (i j : Nat) (hi : i < s.lens.length) (hj : j < s.lens.length)
    (evs : List Ev) (hni : NonemptyAtSelects i s evs) (hnj : NonemptyAtSelects j s evs) :
    (run s evs).servedOf i - s.servedOf i ≤ (run s evs).servedOf j - s.servedOf j + 1 ∧
    (run s evs).servedOf j - s.servedOf j ≤ (run s evs).servedOf i - s.servedOf i + 1 :=
  rr_equal_share s hwf i j hi hj evs hni hnj

/-- MaxLen picks a (the first) queue with the most pending jobs -/
theorem max_len_spec (lens : List Int) (hnn : ∀ l ∈ lens, 0 ≤ l) :
    (∀ i, maxLen lens = .ok i → ∃ hi : i < lens.length, 0 < lens[i] ∧
       (∀ j (hj : j < lens.length), lens[j] ≤ lens[i]) ∧ (∀ j (hj : j < i), lens[j] < lens[i])) ∧
    (maxLen lens = .error .allEmpty ↔ lens ≠ [] ∧ ∀ j (hj : j < lens.length), lens[j] = 0) ∧
    (maxLen lens = .error .noItems ↔ lens = []) ∧
    ((∃ i, maxLen lens = .ok i) ↔ ∃ j, ∃ hj : j < lens.length, 0 < lens[j]) := maxLen_spec lens hnn

/-- MinLen picks a (the first) non-empty queue with the fewest pending jobs -/
theorem min_len_spec (lens : List Int) :
    (∀ i, minLen lens = .ok i → ∃ hi : i < lens.length, 0 < lens[i] ∧
       (∀ j (hj : j < lens.length), 0 < lens[j] → lens[i] ≤ lens[j]) ∧ (∀ j (hj : j < i), 0 < lens[j] → lens[i] < lens[j])) ∧
    (minLen lens = .error .allEmpty ↔ lens ≠ [] ∧ ∀ j (hj : j < lens.length), lens[j] ≤ 0) ∧
    (minLen lens = .error .noItems ↔ lens = []) ∧
    ((∃ i, minLen lens = .ok i) ↔ ∃ j, ∃ hj : j < lens.length, 0 < lens[j]) := minLen_spec lens

/-- removing a queue (`Manager.UnregisterItem`, unused by the library but exported by the helper) keeps the
    selection machinery sound: one item fewer, the cursor is a valid index of what is left (or the manager is
    empty), every remaining queue keeps its slot except the former last one, which takes the freed slot, and
    `Len()` drops by exactly the removed queue's length -/
theorem unregister_keeps_manager_sound (lens : List Int) (rr i : Nat) (h : i < lens.length)
    (hrr : rr < lens.length ∨ lens = []) :
    count (unregister lens rr i).1 + 1 = count lens ∧
    ((unregister lens rr i).2 < (unregister lens rr i).1.length ∨ (unregister lens rr i).1 = []) ∧
    (∀ j, j < lens.length - 1 →
      (unregister lens rr i).1[j]? = if j = i then lens[lens.length - 1]? else lens[j]?) ∧
    total (unregister lens rr i).1 + lens[i] = total lens :=
  ⟨count_unregister lens rr i h, unregister_cursor lens rr i hrr,
   fun j hj => unregister_getElem lens rr i j h hj, total_unregister lens rr i h⟩

example : (1 : Nat) < [5, 6, 7, 8].length ∧ unregister [5, 6, 7, 8] 2 1 = ([5, 8, 7], 0) := by decide

/-- after any removal the next round-robin selection still runs on a valid cursor and leaves one: together with
    `round_robin_cursor_valid` and `Register` (which only appends) the cursor is in range — or the manager empty —
    after every sequence of Register / UnregisterItem / GetRoundRobinItem calls -/
theorem select_after_unregister_in_range (lens : List Int) (rr i : Nat) (hrr : rr < lens.length ∨ lens = [])
    (hne : (unregister lens rr i).1 ≠ []) :
    (roundRobin (unregister lens rr i).1 (unregister lens rr i).2).2 < (unregister lens rr i).1.length := by
  rcases unregister_cursor lens rr i hrr with h | h
  · exact rr_cursor_lt _ _ h
  · exact absurd h hne

example : (2 < [0, 6, 7, 8].length ∨ [0, 6, 7, 8] = ([] : List Int)) ∧ (unregister [0, 6, 7, 8] 2 3).1 ≠ [] ∧
    roundRobin (unregister [0, 6, 7, 8] 2 3).1 (unregister [0, 6, 7, 8] 2 3).2 = (.ok 2, 0) := by decide

/-- every bind path of the current tree registers its queue exactly once (regenerated call graph) -/
theorem registered_once : Generated.registerCalls.all (fun p => p.2 == 1) = true := Tie.register_once

end VarmqVerif.Props.C15
