import VarmqVerif.Proofs.Pool
import VarmqVerif.Proofs.Res
import VarmqVerif.Proofs.Config
import VarmqVerif.Proofs.Trim
import VarmqVerif.Proofs.Reap
import VarmqVerif.Proofs.Cap
/-!
  C18 — pool size tracks configuration; idle workers are trimmed; Stop leaks nothing (partial).
  Proved: per node exactly one goroutine will keep serving it while it is idle/held/in flight and
  none once it is stopped or cached (server accounting), at most two for the moment a stopped node
  is recycled before its old goroutine saw the sentinel; nodes in use are bounded by curProcessing
  ≤ largest limit (Res); the minimum-idle arithmetic; "keeps at least one idle worker while running"
  without an idle expiry (Trim) and with one (Reap: the reaper's passes, per-run stop channel).
  The goroutine census after Stop and "retires idle workers beyond the minimum once they have been
  idle that long" are evaluated on explored executions by the predicate (exact census from the
  scheduler's registry). Wall-clock "idle that long" is abstracted to tick events.
-/
namespace VarmqVerif.Props.C18
open VarmqVerif

theorem servers_bounded {s : Pool.State} {n : Nat} (h : Pool.Reach s) :
    (s.nodes n).srvs.length ≤ 2 ∧ Pool.eff (s.nodes n) ≤ 1 := Pool.servers_bounded h

theorem idle_node_has_one_server {s : Pool.State} {n j : Nat} (h : Pool.Reach s) (hl : (s.nodes n).loc = .idle) :
    Pool.eff (s.nodes n) = 1 ∧ (s.nodes n).buf ≠ some (.job j) := Pool.idle_ready h hl

theorem idle_list_exact {s : Pool.State} {n : Nat} (h : Pool.Reach s) : n ∈ s.idle ↔ (s.nodes n).loc = .idle := Pool.idle_iff h

theorem busy_le_limit {s : Res.State} (h : Res.Reach s) : s.nExec + s.handed + s.nHold ≤ s.maxConc :=
  Nat.le_trans (Res.executing_le_cur h) (Res.cur_le_maxConc h)

theorem min_idle_ge_one (conc : BitVec 32) (pct : BitVec 8) : 1 ≤ (Config.numMinIdleWorkers conc pct).toNat :=
  Config.min_idle_ge_one conc pct

/-- "keeps at least one idle worker while running" (no idle expiry; model `Trim`: take / create / look-then-keep-or-
    retire / PopBackIfLonger / stopAndRemoveAllWorkers, any number of workers and tuners, any interleaving): a running
    pool in which no worker is out of the idle list has an idle worker -/
theorem idle_worker_kept {s : Trim.State} (h : Trim.Reach false s) (hr : s.running = true) (hq : ∀ g, s.busy g = false) :
    1 ≤ s.idle := Trim.idle_worker_kept h hr hq

/-- … and at every moment it has a worker, idle or out with a job -/
theorem never_empty_handed {s : Trim.State} (h : Trim.Reach false s) (hr : s.running = true) :
    1 ≤ s.idle ∨ ∃ g, s.busy g = true := Trim.never_empty_handed h hr

/-- TunePool's one-step shrink never takes the idle list below the minimum it was given -/
theorem tune_keeps_minimum {s s' : Trim.State} {m : Nat} (h : Trim.step false s (.tune m) = .ok s') :
    m ≤ s'.idle ∧ 1 ≤ s'.idle := Trim.tune_keeps_minimum h

/-- the defect repaired by c42df87, as a theorem: with the two-step shrink (look, then pop) of the earlier code a
    running pool with nobody out and no idle worker is reachable -/
theorem old_shrink_can_empty_the_pool :
    ∃ s, Trim.Reach true s ∧ s.running = true ∧ (∀ g, s.busy g = false) ∧ s.idle = 0 := Trim.old_shrink_can_empty_the_pool

/-- "The worker never keeps more worker goroutines than the largest concurrency configured" (model `Cap`: slots, workers out
    with a job, idle workers, the order node-back-then-slot in the pool goroutine; with and without expiry): the number of worker
    goroutines that exist never exceeds the largest limit so far -/
theorem workers_le_limit {s : Cap.State} (h : Cap.Reach s) : Cap.alive s ≤ s.maxLim := Cap.workers_le_limit h

/-- curProcessing is exactly the slots held by dispatchers + workers with a job + finished workers still holding theirs -/
theorem slots_exact {s : Cap.State} (h : Cap.Reach s) : s.cur = s.hold + s.busy + s.rel := Cap.slots_exact h

/-- a worker is created only while fewer than the largest limit exist -/
theorem create_only_below_limit {s s' : Cap.State} (h : Cap.Reach s) (hc : Cap.step s .create = .ok s') :
    Cap.alive s < s.maxLim := Cap.create_only_below_limit h hc

/-! with an idle-worker expiry (model `Reap`: pool nodes by identity, any number of runs, reaper passes with a snapshot
    split at numMinIdleWorkers() ≥ 1, removal only by the reaper of the current run while its stop channel is open) -/

/-- "keeps at least one idle worker while running": a running pool always has a worker, idle or out with a job -/
theorem reaped_never_empty_handed {s : Reap.State} (h : Reap.Reach false s) (hr : s.running = true) :
    s.idle ≠ [] ∨ s.out ≠ [] := Reap.never_empty_handed h hr

/-- … and an idle one whenever nobody is out: the reaper never takes the last worker -/
theorem reaped_idle_worker_kept {s : Reap.State} (h : Reap.Reach false s) (hr : s.running = true) (hq : s.out = []) :
    1 ≤ s.idle.length := Reap.idle_worker_kept h hr hq

/-- the first numMinIdleWorkers() nodes of the reaper's snapshot survive its pass: each is idle or out with a job -/
theorem reaper_spares_protected {s : Reap.State} {p : Reap.Pass} (h : Reap.Reach false s) (hr : s.running = true)
    (hl : s.live = true) (hp : s.pass = some p) : ∀ x ∈ p.prot, x ∈ s.idle ∨ x ∈ s.out :=
  Reap.reaper_spares_protected h hr hl hp

/-- "retires idle workers beyond the configured minimum": never below it — while a pass of the reaper is under way at
    least as many workers are alive (idle, or out with a job) as the pass protects, and a pass protects the first
    min(numMinIdleWorkers(), length of its snapshot) nodes -/
theorem reaper_keeps_minimum {s : Reap.State} {p : Reap.Pass} (h : Reap.Reach false s) (hr : s.running = true)
    (hl : s.live = true) (hp : s.pass = some p) : p.prot.length ≤ s.idle.length + s.out.length :=
  Reap.reaper_keeps_minimum h hr hl hp

theorem snapshot_protects_min {s s' : Reap.State} {t : Nat} (hl : s.live = true)
    (h : Reap.step false s (.snap s.gen t) = .ok s') : ∃ p, s'.pass = some p ∧ p.prot.length = min t s.idle.length :=
  Reap.snapshot_protects_min hl h

/-- the reaper of a run that has ended removes nothing (the stop-channel check of fix b9eba0f) -/
theorem ended_run_cannot_remove {s : Reap.State} {r n : Nat} {ok : Bool} (hne : r ≠ s.gen ∨ s.live = false) :
    ∀ s', Reap.step false s (.rmv r n ok) ≠ .ok s' := Reap.ended_run_cannot_remove hne

/-- the defect repaired by b9eba0f, as a theorem: without that check the pass of an ended run removes the only idle
    worker of the next run -/
theorem old_reaper_can_empty_the_pool :
    ∃ s, Reap.Reach true s ∧ s.running = true ∧ s.out = [] ∧ s.idle = [] := Reap.old_reaper_can_empty_the_pool

end VarmqVerif.Props.C18
