import VarmqVerif.Proofs.JobCfg
import VarmqVerif.Proofs.Job
/-!
  C07 — each handle gets its own job's outcome; panics are contained (partial).
  Proved: the job ID rule (last non-empty WithJobId, else the generator), group ids, the nil-function
  branches of Func/ErrFunc/ResultFunc; a value is only ever sent on the response channel of the job
  that runs (model `Job`: `Response.Send` happens inside that job's worker-function wrapper, on its own
  channel, while it is Processing), and a closed channel has no sender. That Result()/Err() return
  exactly that value on every call, that a panic becomes the job's error, is counted as failed and
  offered on the error channel while all other jobs still report their own outcomes, is evaluated on
  explored executions by the predicate (all assignments of value/error/panic, concurrency 1..3,
  several readers). `recover` itself is part of the trusted Go runtime.
-/
namespace VarmqVerif.Props.C07
open VarmqVerif

theorem job_id_generator (g : String) (opts : List String) (h : ∀ o ∈ opts, o = "") : JobCfg.loadJobConfigs g opts = g :=
  JobCfg.load_all_empty g opts h

theorem job_id_last_nonempty (g : String) (pre post : List String) (id : String) (hid : id ≠ "")
    (hpost : ∀ o ∈ post, o = "") : JobCfg.loadJobConfigs g (pre ++ id :: post) = id :=
  JobCfg.load_last_nonempty g pre post id hid hpost

theorem group_id (id : String) : JobCfg.groupId id = "g:" ++ id := JobCfg.group_id_prefix id

theorem nil_function_outcomes :
    JobCfg.helperOutcome .func true = .panicNil ∧ JobCfg.helperOutcome .errFunc true = .errNil ∧
    JobCfg.helperOutcome .resultFunc true = .errNil ∧ ∀ h, JobCfg.helperOutcome h false = .ran := JobCfg.nil_func_outcomes

/-- a closed response channel has no goroutine that could still send on it -/
theorem closed_channel_has_no_sender {s : Job.State} {c g j : Nat} (h : Job.Reach s) (hc : (s.chans c).closed = true)
    (hr : (s.loc g).running = some j) : (s.jobs j).chan ≠ some c := Job.stream_closed_no_sender h hc hr

theorem no_panic_from_the_library {s : Job.State} (h : Job.Reach s) : s.crashed = false := Job.no_crash h

end VarmqVerif.Props.C07
