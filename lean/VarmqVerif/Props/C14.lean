import VarmqVerif.Proofs.LifeC
import VarmqVerif.Proofs.Res
import VarmqVerif.Proofs.Sig2
import VarmqVerif.Tie.Facts
/-!
  C14 — lifecycle calls follow the documented state machine for every call sequence.
  `LifeC` transcribes the lifecycle functions of worker.go at call granularity (calls are serialised
  by w.lifecycle — model `Res` checks on every replayed trace that each status store happens under
  that lock and inside a call that may make it); `Spec.Life.step` is the documented machine (the
  same definition the executable predicate `Spec.C14.check` compares the real code against).
-/
namespace VarmqVerif.Props.C14
open VarmqVerif LifeC

/-- for every sequence of calls, context cancellations and listener firings (any length, any
    interleaving) the errors returned and the Status reported are exactly those of the documented
    machine -/
theorem lifecycle_refines {hc : Bool} {c : Nat} {evs : List Ev} {s : State} {os : List (Option (Err × WStatus))}
    (h : run (init hc c) evs = some (s, os)) :
    ∃ revs r, revs.length = evs.length ∧ rrun (rinit c) revs = some (r, os) ∧ Rel s r := LifeC.lifecycle_refines h

theorem restart_leaves_running {s s' : State} {o : Option (Err × WStatus)} (h : step s (.call .restart) = some (s', o)) :
    s'.ws = .running ∧ o = some (.none, .running) := LifeC.restart_leaves_running h

theorem bind_preserves_state {s s' : State} {o : Option (Err × WStatus)} (hn : s.ws ≠ .initiated)
    (h : step s (.call .bind) = some (s', o)) : s'.ws = s.ws := LifeC.bind_preserves_state hn h

theorem stale_listener_inert {s s' : State} {k : Nat} {o : Option (Err × WStatus)} (hk : k ≠ s.run)
    (h : step s (.fire k) = some (s', o)) : s'.ws = s.ws ∧ s'.conc = s.conc ∧ s'.run = s.run ∧ o = none :=
  LifeC.stale_listener_inert hk h

/-- cancelling the configured context stops the worker: the current run's listener exists, is
    enabled, and its firing stops it -/
theorem ctx_cancel_can_stop {s : State} (hi : Inv s) (hc : s.hasCtx = true) (hx : s.cfgCancelled = true)
    (hw : s.ws = .running ∨ s.ws = .paused) : ∃ s', step s (.fire s.run) = some (s', none) ∧ s'.ws = .stopped :=
  LifeC.ctx_cancel_can_stop hi hc hx hw

/-- the status strings of the current tree -/
theorem worker_status_strings : Generated.workerStatusStrings = [(0, "Initiated"), (1, "Running"), (2, "Paused"), (3, "Stopped")] :=
  Tie.worker_status_strings

/-- "never Running while unable to process": at the granularity of the signal channel and the event
    loops (model `Sig2`, any number of Stop/Restart cycles and goroutines), whenever the status is
    Running the worker's current signal channel is open and an event loop that has not ended listens
    on it -/
theorem running_has_event_loop {s : Sig2.State} (h : Sig2.Reach s) (hw : s.ws = Sig2.running) : Sig2.Listening s :=
  Sig2.running_listening h hw

/-- a closed signal channel is never the worker's current one -/
theorem closed_channel_not_current {s : Sig2.State} (h : Sig2.Reach s) {ch : Nat} (hc : s.chan = some ch) :
    s.closed ch = false := Sig2.closed_never_current h hc

end VarmqVerif.Props.C14
