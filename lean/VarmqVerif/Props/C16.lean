import VarmqVerif.Proofs.Job
/-!
  C16 — a job's reported status only moves forward and ends at Closed.
-/
namespace VarmqVerif.Props.C16
open VarmqVerif Job

/-- every value the status word ever holds is ≥ all earlier ones (hist is newest first), for every job
    that has a handle (jobs re-created by a consumer from a stored envelope that says "Finished" are
    the one exception; they have no handle) -/
theorem status_monotone {s : State} {j : Nat} (h : Reach s) (hp : (s.jobs j).parsedFinished = false) :
    List.Pairwise (· ≥ ·) (s.jobs j).hist := Job.status_monotone h hp

theorem status_is_newest {s : State} {j : Nat} (h : Reach s) : (s.jobs j).hist.head? = some (s.jobs j).st := Job.status_head h

theorem processing_while_running {s : State} {j : Nat} (h : Reach s) (hr : (s.jobs j).exited < (s.jobs j).entered) :
    (s.jobs j).st = processing := Job.processing_while_running h hr

theorem closed_is_final {s s' : State} {j : Nat} {e : Ev} (h : Reach s) (hc : (s.jobs j).st = closed)
    (hst : step s e = .ok s') : (s'.jobs j).st = closed := Job.closed_is_final h hc hst

theorem wait_returned_closed {s s' : State} {g j : Nat} (h : Reach s) (hst : step s (.wgWait g j) = .ok s')
    (hb : (s.jobs j).batch = none) : (s.jobs j).st = closed := (Job.wait_returns_closed h hst hb).1

end VarmqVerif.Props.C16
