import VarmqVerif.Proofs.Job
/-!
  C05 — job and batch handles complete exactly when the work has finished (safety half proved;
  "they do return" is progress: the wait-group counter reaches zero exactly when the single closer
  has run, see `batch_wg_exact`; exact hang detection on explored executions covers the rest).
-/
namespace VarmqVerif.Props.C05
open VarmqVerif Job

/-- Wait on a single job returns only when the job is Closed and its worker function is not running
    (it returned, or the job never started) -/
theorem wait_returns_closed {s s' : State} {g j : Nat} (h : Reach s) (hst : step s (.wgWait g j) = .ok s')
    (hb : (s.jobs j).batch = none) : (s.jobs j).st = closed ∧ (s.jobs j).exited = (s.jobs j).entered :=
  Job.wait_returns_closed h hst hb

/-- Wait on a batch returns only when every one of its `size` items exists and is Closed -/
theorem batch_wait_all_closed {s s' : State} {g b : Nat} (h : Reach s) (hst : step s (.wgWaitB g b) = .ok s') :
    (∀ j ∈ (s.batches b).items, (s.jobs j).st = closed) ∧ (s.batches b).items.length = (s.batches b).size ∧
    (s.batches b).count = 0 := Job.batch_wait_all_closed h hst

/-- Closed means not running -/
theorem closed_not_running {s : State} {j : Nat} (h : Reach s) (hc : (s.jobs j).st = closed) :
    (s.jobs j).exited = (s.jobs j).entered := Job.closed_not_running h hc

/-- the wait-group counter never goes negative, no channel is closed twice or sent on after close -/
theorem no_crash {s : State} (h : Reach s) : s.crashed = false := Job.no_crash h

/-- exactly one Done per job: the batch wait group equals the counter plus the Dones still owed -/
theorem batch_wg_exact {s : State} {b : Nat} (h : Reach s) :
    ∃ L : List Nat, L.Nodup ∧ (∀ g, g ∈ L ↔ (s.loc g).owesWg = some b) ∧ (s.batches b).wg = (s.batches b).count + L.length :=
  Job.batch_wg_exact h

end VarmqVerif.Props.C05
