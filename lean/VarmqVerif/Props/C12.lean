import VarmqVerif.Proofs.Codec
import VarmqVerif.Proofs.DispSkip
import VarmqVerif.Tie.Facts
/-!
  C12 — persistent/distributed jobs keep ID and payload; bad entries are isolated (partial by
  construction: `encoding/json` is a parameter, its round-trip law is an assumption that the
  differential run tests on generated payloads).
-/
namespace VarmqVerif.Props.C12
open VarmqVerif Codec

theorem status_roundtrip (s : JStatus) : parse (render s) = some s := parse_render s
theorem status_parse_exact (str : String) (s : JStatus) : parse str = some s ↔ str = render s := parse_some_iff str s
theorem envelope_roundtrip {π : Type} (j : Job π) :
    ∃ j', parseToJob (toEnvelope j) = .ok j' ∧ j'.id = j.id ∧ j'.status = j.status ∧ j'.payload = j.payload :=
  Codec.envelope_roundtrip j
theorem invalid_status_rejected {π : Type} (e : Envelope π) (h : ∀ s, e.status ≠ render s) :
    parseToJob e = .error ("invalid status: " ++ e.status) := parse_invalid e h
/-- the status strings of `Status()` and of `parseToJob` in the current tree are the model's table -/
theorem strings_of_tree : Generated.jobStatusStrings = statusStrings ∧ Generated.parseStatusStrings = statusStrings :=
  ⟨Tie.job_status_strings, Tie.parse_status_strings⟩
/-! "A stored entry that cannot be decoded is … skipped without blocking, reordering or corrupting the jobs behind it", at the
    level of the dispatcher (model `Disp`: the undecodable entry is dequeued — `deq j` — and its slot is given back without the
    worker function having been entered — `done j`; adapter-backed executions, undecodable entries included, are replayed
    through this model). -/

/-- skipping costs no capacity: the jobs in flight after the skip are exactly those before the entry was dequeued -/
theorem skip_restores_inflight {s s1 s2 : Disp.State} {j : Nat} (h1 : Disp.step s (.deq j) = .ok s1)
    (h2 : Disp.step s1 (.done j) = .ok s2) : Disp.inflight s2 = Disp.inflight s := Disp.skip_restores_inflight h1 h2

/-- … so whatever the dispatcher could take before the bad entry it can take after it (no blocking) -/
theorem next_deq_after_skip {s s1 s2 : Disp.State} {j k : Nat} (h1 : Disp.step s (.deq j) = .ok s1)
    (h2 : Disp.step s1 (.done j) = .ok s2) (hk : k ∉ s.deqd) (hkj : k ≠ j) : ∃ s3, Disp.step s2 (.deq k) = .ok s3 :=
  Disp.next_deq_after_skip h1 h2 hk hkj

/-- the hand-out order and the execution order of everybody else are untouched (no reordering), and the skipped entry never
    reaches the worker function -/
theorem skip_keeps_order {s s1 s2 : Disp.State} {j : Nat} (h1 : Disp.step s (.deq j) = .ok s1)
    (h2 : Disp.step s1 (.done j) = .ok s2) : s2.deqd = s.deqd ++ [j] ∧ s2.entered = s.entered ∧ s2.maxLim = s.maxLim :=
  Disp.skip_keeps_order h1 h2

theorem skip_never_runs {s1 s2 : Disp.State} {j : Nat} (h2 : Disp.step s1 (.done j) = .ok s2) :
    ∀ s3, Disp.step s2 (.enter j) ≠ .ok s3 := Disp.skip_never_runs h2

end VarmqVerif.Props.C12
