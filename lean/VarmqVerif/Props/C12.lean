import VarmqVerif.Proofs.Codec
import VarmqVerif.Tie.Facts
/-!
  C12 — persistent/distributed jobs keep ID and payload; bad entries are isolated (partial by
  construction: `encoding/json` is a parameter, its round-trip law is an assumption that the
  differential run tests on generated payloads).
-/
namespace VarmqVerif.Props.C12
open VarmqVerif Codec

theorem status_roundtrip (s : JStatus) : parse (render s) = some s := parse_render s
theorem status_parse_exact (str : String) (s : JStatus) : parse str = some s ↔ str = render s := parse_some_iff str s
theorem envelope_roundtrip {π : Type} (j : Job π) :
    ∃ j', parseToJob (toEnvelope j) = .ok j' ∧ j'.id = j.id ∧ j'.status = j.status ∧ j'.payload = j.payload :=
  Codec.envelope_roundtrip j
theorem invalid_status_rejected {π : Type} (e : Envelope π) (h : ∀ s, e.status ≠ render s) :
    parseToJob e = .error ("invalid status: " ++ e.status) := parse_invalid e h
/-- the status strings of `Status()` and of `parseToJob` in the current tree are the model's table -/
theorem strings_of_tree : Generated.jobStatusStrings = statusStrings ∧ Generated.parseStatusStrings = statusStrings :=
  ⟨Tie.job_status_strings, Tie.parse_status_strings⟩
end VarmqVerif.Props.C12
