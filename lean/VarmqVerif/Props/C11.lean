import VarmqVerif.Proofs.Ack
import VarmqVerif.Proofs.Job
/-!
  C11 — acknowledge only after processing, at most once: no accepted job lost in a crash.
  Model `Ack`: the adapter's pending / unacknowledged / acknowledged sets and the library's calls.
  `Reach` ranges over all finite executions, so every reachable state is a crash point; `recover`
  is the state a fresh process finds.
-/
namespace VarmqVerif.Props.C11
open VarmqVerif Ack

/-- at every crash point every accepted item is pending, unacknowledged, or acknowledged *and*
    completely processed -/
theorem held_or_done {s : State} {x : Nat} (h : Reach s) (hx : x ∈ s.accepted) :
    x ∈ s.pending ∨ x ∈ s.unacked ∨ (x ∈ s.acked ∧ x ∈ s.processed) := Ack.held_or_done h hx

/-- nothing is lost and nothing duplicated -/
theorem conservation {s : State} (h : Reach s) : (s.pending ++ s.unacked ++ s.acked).Perm s.accepted := Ack.conservation h

theorem acked_only_after_processing {s : State} (h : Reach s) : ∀ x ∈ s.acked, x ∈ s.processed := Ack.acked_processed h
theorem acked_at_most_once {s : State} (h : Reach s) : s.acked.Nodup := Ack.ack_at_most_once h
theorem unprocessed_not_acked {s : State} {x : Nat} (h : Reach s) (hx : x ∉ s.processed) : x ∉ s.acked :=
  Ack.not_processed_not_acked h hx

/-- after the process died, the fresh process finds every unacknowledged delivery pending again -/
theorem recovery_keeps_all {s s' : State} (h : Reach s) (hst : step s .recover = .ok s') :
    (∀ x, x ∈ s'.pending ↔ x ∈ s.pending ∨ x ∈ s.unacked) ∧ s'.unacked = [] ∧ s'.acked = s.acked :=
  Ack.recover_keeps_all h hst

/-- the library side of "only after processing": Acknowledge is called from job.Close() by the one goroutine
    that won the tryClose CAS, i.e. on a Closed job whose worker function is not running (model `Job`, where
    the adapter's Acknowledge call is the event `ack`) — this is the guard the `Ack` model checks on every trace -/
theorem ack_only_by_closer {s s' : Job.State} {g j : Nat} (h : Job.Reach s) (hst : Job.step s (.ack g j) = .ok s') :
    (s.jobs j).st = Job.closed ∧ (s.jobs j).exited = (s.jobs j).entered ∧ (s.jobs j).acks = 0 := Job.ack_by_closer h hst

end VarmqVerif.Props.C11
