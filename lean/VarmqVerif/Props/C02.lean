import VarmqVerif.Proofs.Res
import VarmqVerif.Proofs.Config
import VarmqVerif.Tie.Facts
/-!
  C02 — in-flight worker invocations never exceed the configured concurrency.
-/
namespace VarmqVerif.Props.C02
open VarmqVerif Res

/-- worker functions in progress, jobs handed to a node and slots held by dispatchers together never
    exceed curProcessing … -/
theorem executing_le_cur {s : State} (h : Reach s) : s.nExec + s.handed + s.nHold ≤ s.cur := Res.executing_le_cur h

/-- … and curProcessing never exceeds the largest limit that has been in effect: whatever Bind,
    Resume, Restart, TunePool calls and however many dispatcher loops interleave -/
theorem cur_le_limit {s : State} (h : Reach s) : s.cur ≤ s.maxConc := cur_le_maxConc h

theorem executing_le_limit {s : State} (h : Reach s) : s.nExec ≤ s.maxConc := executing_le_maxConc h

/-- the re-check after taking the slot (reserve() looks at the limit again): a dispatcher keeps the slot only if
    the value it took is within the limit in effect at the re-check, and has to give it back otherwise — this is
    what stops the event loop of a previous run that comes back with an old limit (fix f0c7ad4) -/
theorem kept_slot_within_limit {s s' : State} {g v : Nat} (h : step s (.ldConcR g v) = .ok s') (hh : s'.ph g = .holding) :
    s.tk g ≤ s.conc := Res.holding_within_limit h hh
theorem slot_over_limit_given_back {s s' : State} {g v : Nat} (h : step s (.ldConcR g v) = .ok s') (hg : s.conc < s.tk g) :
    s'.ph g = .mustRelease := Res.recheck_gives_back h hg
/-- every slot taken is a real one and never exceeds the largest limit the worker ever had -/
theorem taken_bounds {s : State} (hr : Reach s) (g : Nat) (hp : s.ph g ≠ .idle) : 1 ≤ s.tk g ∧ s.tk g ≤ s.maxConc :=
  Res.taken_bounds hr g hp

/-- the limit itself: withSafeConcurrency with Go's int → uint32 conversion (repaired: values that do not
    fit are clamped). The hypothesis `h` is the side condition the truncating version needed; it is kept in the
    statement and no longer used -/
theorem safe_concurrency_positive (cpus : BitVec 32) (c : BitVec 64) (hc : cpus ≠ 0)
    (_h : c.toInt % 2 ^ 32 ≠ 0 ∨ c.toInt < 1) : Config.withSafeConcurrency cpus c ≠ 0 :=
  Config.safe_conc_never_zero cpus c hc

/-- repaired (was the finding KF-C02-uint32-wrap, positive multiples of 2^32 became limit 0): with at least one
    CPU the limit is never 0, whatever `int` is passed -/
theorem safe_concurrency_never_zero (cpus : BitVec 32) (c : BitVec 64) (hc : cpus ≠ 0) :
    Config.withSafeConcurrency cpus c ≠ 0 := Config.safe_conc_never_zero cpus c hc

/-- repaired: values that do not fit are clamped to math.MaxUint32, not truncated -/
theorem safe_concurrency_clamped (cpus : BitVec 32) (c : BitVec 64) (h : 2 ^ 32 ≤ c.toInt) :
    Config.withSafeConcurrency cpus c = 0xFFFFFFFF#32 := Config.safe_conc_clamp cpus c h

/-- in the range of a uint32 the limit is the value that was asked for -/
theorem safe_concurrency_id (cpus : BitVec 32) (c : BitVec 64) (h1 : 1 ≤ c.toInt) (h2 : c.toInt < 2 ^ 32) :
    (Config.withSafeConcurrency cpus c).toNat = c.toInt.toNat := Config.safe_conc_id cpus c h1 h2

end VarmqVerif.Props.C02
