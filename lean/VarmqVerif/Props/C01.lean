import VarmqVerif.Proofs.Job
import VarmqVerif.Proofs.Pool
import VarmqVerif.Proofs.Sig
import VarmqVerif.Props.C04
/-!
  C01 — every accepted job runs exactly once; rejected or cancelled jobs never run.
  "At most once / never" is proved on model `Job` (the status word with claim()/tryClose() as CAS
  loops; any number of jobs, goroutines, Close callers; any interleaving). "At least once" is progress
  and is assembled from: the queue refinements (an accepted item stays pending until dequeued, C04),
  no lost wake-up (`Sig`, C03), no stranded job on a pool node (`Pool`), all in the form "no bad
  sleeping state"; the composition across the models is by the shared trace replay, not mechanised.
-/
namespace VarmqVerif.Props.C01
open VarmqVerif

/-- a job's worker function is entered at most once, whatever Pause/Resume/Stop/Restart/TunePool,
    Close and Purge calls interleave -/
theorem runs_at_most_once {s : Job.State} {j : Nat} (h : Job.Reach s) : (s.jobs j).entered ≤ 1 := Job.runs_le_one h

/-- it is claimed (dispatched) at most once -/
theorem claimed_at_most_once {s : Job.State} {j : Nat} (h : Job.Reach s) : (s.jobs j).claims ≤ 1 := Job.claims_le_one h

/-- a job closed before it started (rejected submission, Close() == nil, Purge) is never run -/
theorem cancelled_never_runs {s : Job.State} {j : Nat} (h : Job.Reach s) (hc : (s.jobs j).cancelled = true) :
    (s.jobs j).entered = 0 := Job.cancelled_never_runs h hc

/-- a job handed to a pool node is never stranded: exactly one goroutine serves that node and the job
    is in its channel -/
theorem handed_job_has_server {s : Pool.State} {n : Nat} (h : Pool.Reach s) (hl : (s.nodes n).loc = .inflight) :
    (s.nodes n).srvs ≠ [] ∧ ∃ j, (s.nodes n).buf = some (.job j) := Pool.inflight_has_server h hl

/-- whatever sits in a node channel can be received -/
theorem node_message_receivable {s : Pool.State} {n : Nat} {m : Pool.Msg} (h : Pool.Reach s) (hb : (s.nodes n).buf = some m) :
    ∃ r s', Pool.step s (.recv r n m) = .ok s' := Pool.recv_enabled h hb

/-- only the holder of a node sends on its channel (the reaper / stop-all / TunePool act only when
    their Remove succeeded) -/
theorem idle_node_ready {s : Pool.State} {n j : Nat} (h : Pool.Reach s) (hl : (s.nodes n).loc = .idle) :
    Pool.eff (s.nodes n) = 1 ∧ (s.nodes n).buf ≠ some (.job j) := Pool.idle_ready h hl

/-- pending work is not forgotten: see C03.no_lost_wakeup -/
theorem pending_is_noticed {s : Sig.State} (h : Sig.Reach s) (hd : Sig.Dispatchable s) :
    s.tok = true ∨ 0 < s.nOwes ∨ s.dph.active = true := Sig.no_lost_wakeup h hd

/-- inside a standard queue nothing accepted disappears (model `FifoDisp` = the list-queue specification the segmented FIFO refines,
    composed with the dispatcher): every accepted job has been handed to the dispatcher, is still pending, or was removed by a
    Purge — which closes what it removes (C10) -/
theorem accepted_is_somewhere {s : FifoDisp.State} (h : FifoDisp.Reach s) :
    ∀ j ∈ s.accepted, j ∈ s.d.deqd ∨ j ∈ s.pending ∨ j ∈ s.dropped := FifoDisp.accepted_is_somewhere h

/-- … nothing runs that was not accepted, and nothing starts twice -/
theorem started_were_accepted_once {s : FifoDisp.State} (h : FifoDisp.Reach s) :
    (∀ j ∈ s.d.entered, j ∈ s.accepted) ∧ s.d.entered.Nodup :=
  ⟨FifoDisp.started_were_accepted h, Disp.entered_nodup (FifoDisp.disp_reach h)⟩

end VarmqVerif.Props.C01
