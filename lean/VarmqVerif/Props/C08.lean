import VarmqVerif.Proofs.Job
/-!
  C08 — batches deliver one result per executed item, then close once, without panicking.
  Proved: no panic (double close / send on closed stream / negative counter unreachable), the stream
  is closed only after every member is Closed (hence after every send), the closer is unique,
  NumPending = items not yet finished. "Exactly one Result per executed item, tagged with its ID" is
  evaluated on explored executions by the predicate.
-/
namespace VarmqVerif.Props.C08
open VarmqVerif Job

theorem no_panic {s : State} (h : Reach s) : s.crashed = false := Job.no_crash h

theorem stream_closed_after_all_items {s : State} {c : Nat} (h : Reach s) (hc : (s.chans c).closed = true) :
    ∀ j, (s.jobs j).chan = some c → (s.jobs j).st = closed := Job.stream_closed_all_closed h hc

theorem stream_closer_unique {s : State} {c g g' : Nat} (h : Reach s) (h1 : (s.loc g).owesClose = some c)
    (h2 : (s.loc g').owesClose = some c) : g = g' := Job.stream_closer_unique h h1 h2

theorem closed_stream_has_no_closer {s : State} {c : Nat} (h : Reach s) (hc : (s.chans c).closed = true) :
    ∀ g, (s.loc g).owesClose ≠ some c := Job.stream_closed_no_closer h hc

theorem closed_stream_has_no_sender {s : State} {c g j : Nat} (h : Reach s) (hc : (s.chans c).closed = true)
    (hr : (s.loc g).running = some j) : (s.jobs j).chan ≠ some c := Job.stream_closed_no_sender h hc hr

/-- NumPending (the counter) = size − items whose Done has been performed -/
theorem pending_exact {s : State} {b : Nat} (h : Reach s) :
    (s.batches b).count + (s.batches b).doneItems.length = (s.batches b).size := Job.batch_count_exact' h

end VarmqVerif.Props.C08
