import VarmqVerif.Proofs.Fifo
import VarmqVerif.Proofs.PQ
import VarmqVerif.Tie.Facts
/-!
  C04 — dispatch order: FIFO per queue; lowest priority number first, ties FIFO.
  Property theorems only (helper lemmas live in Proofs/). Unbounded operation sequences, arbitrary
  element type, arbitrary Int priorities; the FIFO theorems are instantiated at the segment
  capacities regenerated from /repo on every run.
-/
namespace VarmqVerif.Props.C04
open VarmqVerif

def initCap : Nat := (Generated.const "queues.initialBufferCapacity").toNat
def maxCap : Nat := (Generated.const "queues.chunkMaxCapacity").toNat

theorem caps_ok : 1 ≤ initCap ∧ 1 ≤ maxCap := by decide

/-- the segmented FIFO of the current tree is observationally a plain list queue, for every
    sequence of enqueue/dequeue/len/values/purge/close, whatever segment boundaries it crosses -/
theorem fifo_refines_list {α : Type} (ops : List (Fifo.Op α)) :
    (Fifo.run (Fifo.init initCap maxCap) ops).2 = (ListQueue.run ListQueue.init ops).2 :=
  Fifo.refines_list caps_ok.1 caps_ok.2 ops

/-- and for every pair of capacities ≥ 1 (a changed constant keeps the property as long as it is ≥ 1) -/
theorem fifo_refines_list_any {α : Type} {ic mc : Nat} (h1 : 1 ≤ ic) (h2 : 1 ≤ mc) (ops : List (Fifo.Op α)) :
    (Fifo.run (Fifo.init ic mc) ops).2 = (ListQueue.run ListQueue.init ops).2 :=
  Fifo.refines_list h1 h2 ops

/-- without a purge, what has been dequeued is a prefix of what was accepted, in acceptance order -/
theorem fifo_order {α : Type} (ops : List (Fifo.Op α)) (hnp : ops.all ListQueue.notPurge = true) :
    ListQueue.accepted ops (Fifo.run (Fifo.init initCap maxCap) ops).2 =
      ListQueue.dequeued (Fifo.run (Fifo.init initCap maxCap) ops).2 ++ Fifo.abs (Fifo.run (Fifo.init initCap maxCap) ops).1 ∧
    ListQueue.dequeued (Fifo.run (Fifo.init initCap maxCap) ops).2 <+: ListQueue.accepted ops (Fifo.run (Fifo.init initCap maxCap) ops).2 :=
  Fifo.fifo_order caps_ok.1 caps_ok.2 ops hnp

/-- with purges: dequeued items are a subsequence of the accepted ones (order never changes) -/
theorem fifo_order_purge {α : Type} (ops : List (Fifo.Op α)) :
    (ListQueue.dequeued (Fifo.run (Fifo.init initCap maxCap) ops).2).Sublist
      (ListQueue.accepted ops (Fifo.run (Fifo.init initCap maxCap) ops).2) :=
  Fifo.fifo_order_purge caps_ok.1 caps_ok.2 ops

/-- the binary heap + insertion counter refines the stable sorted queue -/
theorem pq_refines_sorted {α : Type} (ops : List (PQ.Op α)) :
    PQ.OutsEq (PQ.run PQ.init ops).2 (SortedQueue.run SortedQueue.init ops).2 :=
  PQ.refines_sorted ops

theorem pq_refines_sorted_exact {α : Type} (ops : List (PQ.Op α)) (hv : ∀ op ∈ ops, op ≠ .values) :
    (PQ.run PQ.init ops).2 = (SortedQueue.run SortedQueue.init ops).2 :=
  PQ.refines_sorted_exact ops hv

/-- among equal priorities the queue is FIFO, also after purge and reuse (any state with an empty heap) -/
theorem pq_fifo_same_priority {α : Type} (s : PQ.State α) (h : PQ.Inv s) (hc : s.closed = false) (he : s.items = #[])
    (p : Int) (xs : List α) :
    (PQ.run s (xs.map (.enq · p) ++ List.replicate xs.length .deq)).2 =
      xs.map (fun _ => .bool true) ++ xs.map (fun x => .item (some x)) :=
  PQ.fifo_same_priority s h hc he p xs

/-- `Less` of the current tree is the order the model uses (regenerated guard text) -/
theorem less_is_model_order : Generated.guardsOf "heapQueue.Less" =
    ["if:pq.items[i].Priority==pq.items[j].Priority", "ret:pq.items[i].Index<pq.items[j].Index",
     "ret:pq.items[i].Priority<pq.items[j].Priority"] := Tie.less_guards

example : initCap = 1024 ∧ maxCap = 102400 := by decide

end VarmqVerif.Props.C04
