import VarmqVerif.Proofs.Fifo
import VarmqVerif.Proofs.PQ
import VarmqVerif.Proofs.Disp
import VarmqVerif.Proofs.FifoDisp
import VarmqVerif.Tie.Facts
/-!
  C04 — dispatch order: FIFO per queue; lowest priority number first, ties FIFO.
  Property theorems only (helper lemmas live in Proofs/). Unbounded operation sequences, arbitrary
  element type, arbitrary Int priorities; the FIFO theorems are instantiated at the segment
  capacities regenerated from /repo on every run.
-/
namespace VarmqVerif.Props.C04
open VarmqVerif

def initCap : Nat := (Generated.const "queues.initialBufferCapacity").toNat
def maxCap : Nat := (Generated.const "queues.chunkMaxCapacity").toNat

theorem caps_ok : 1 ≤ initCap ∧ 1 ≤ maxCap := by decide

/-- the segmented FIFO of the current tree is observationally a plain list queue, for every
    sequence of enqueue/dequeue/len/values/purge/close, whatever segment boundaries it crosses -/
theorem fifo_refines_list {α : Type} (ops : List (Fifo.Op α)) :
    (Fifo.run (Fifo.init initCap maxCap) ops).2 = (ListQueue.run ListQueue.init ops).2 :=
  Fifo.refines_list caps_ok.1 caps_ok.2 ops

/-- and for every pair of capacities ≥ 1 (a changed constant keeps the property as long as it is ≥ 1) -/
theorem fifo_refines_list_any {α : Type} {ic mc : Nat} (h1 : 1 ≤ ic) (h2 : 1 ≤ mc) (ops : List (Fifo.Op α)) :
    (Fifo.run (Fifo.init ic mc) ops).2 = (ListQueue.run ListQueue.init ops).2 :=
  Fifo.refines_list h1 h2 ops

/-- without a purge, what has been dequeued is a prefix of what was accepted, in acceptance order -/
theorem fifo_order {α : Type} (ops : List (Fifo.Op α)) (hnp : ops.all ListQueue.notPurge = true) :
    ListQueue.accepted ops (Fifo.run (Fifo.init initCap maxCap) ops).2 =
      ListQueue.dequeued (Fifo.run (Fifo.init initCap maxCap) ops).2 ++ Fifo.abs (Fifo.run (Fifo.init initCap maxCap) ops).1 ∧
    ListQueue.dequeued (Fifo.run (Fifo.init initCap maxCap) ops).2 <+: ListQueue.accepted ops (Fifo.run (Fifo.init initCap maxCap) ops).2 :=
  Fifo.fifo_order caps_ok.1 caps_ok.2 ops hnp

/-- with purges: dequeued items are a subsequence of the accepted ones (order never changes) -/
theorem fifo_order_purge {α : Type} (ops : List (Fifo.Op α)) :
    (ListQueue.dequeued (Fifo.run (Fifo.init initCap maxCap) ops).2).Sublist
      (ListQueue.accepted ops (Fifo.run (Fifo.init initCap maxCap) ops).2) :=
  Fifo.fifo_order_purge caps_ok.1 caps_ok.2 ops

/-- the binary heap + insertion counter refines the stable sorted queue -/
theorem pq_refines_sorted {α : Type} (ops : List (PQ.Op α)) :
    PQ.OutsEq (PQ.run PQ.init ops).2 (SortedQueue.run SortedQueue.init ops).2 :=
  PQ.refines_sorted ops

theorem pq_refines_sorted_exact {α : Type} (ops : List (PQ.Op α)) (hv : ∀ op ∈ ops, op ≠ .values) :
    (PQ.run PQ.init ops).2 = (SortedQueue.run SortedQueue.init ops).2 :=
  PQ.refines_sorted_exact ops hv

/-- among equal priorities the queue is FIFO, also after purge and reuse (any state with an empty heap) -/
theorem pq_fifo_same_priority {α : Type} (s : PQ.State α) (h : PQ.Inv s) (hc : s.closed = false) (he : s.items = #[])
    (p : Int) (xs : List α) :
    (PQ.run s (xs.map (.enq · p) ++ List.replicate xs.length .deq)).2 =
      xs.map (fun _ => .bool true) ++ xs.map (fun x => .item (some x)) :=
  PQ.fifo_same_priority s h hc he p xs

/-- `Less` of the current tree is the order the model uses (regenerated guard text) -/
theorem less_is_model_order : Generated.guardsOf "heapQueue.Less" =
    ["if:pq.items[i].Priority==pq.items[j].Priority", "ret:pq.items[i].Index<pq.items[j].Index",
     "ret:pq.items[i].Priority<pq.items[j].Priority"] := Tie.less_guards

example : initCap = 1024 ∧ maxCap = 102400 := by decide

/-! Worker level (model `Disp`: one dispatcher hands jobs out one after the other, pool goroutines start them in any
    order, a job is dequeued only while fewer than the largest limit are in flight — the latter is Res.busy_le_limit).
    The hand-out order `deqd` is the order in which the containers above returned the jobs. -/

/-- "with concurrency 1 this is exactly the execution order": as long as the limit never exceeded 1, the sequence of
    worker-function starts is a subsequence of the hand-out order (the jobs missing from it were cancelled or skipped) -/
theorem serial_is_handout_order {s : Disp.State} (h : Disp.Reach s) (hl : s.maxLim ≤ 1) : s.entered.Sublist s.deqd :=
  Disp.serial_is_handout_order h hl

/-- … and when a job starts, every job handed out before it has started or was skipped -/
theorem serial_order {s s' : Disp.State} {j : Nat} (h : Disp.Reach s) (hl : s.maxLim ≤ 1)
    (he : Disp.step s (.enter j) = .ok s') : ∀ i ∈ s.deqd.takeWhile (· != j), i ∈ s.entered ∨ i ∈ s.gone :=
  Disp.serial_order h hl he

/-- "with concurrency n the set of started jobs is a prefix of that order" — up to the jobs that hold one of the other
    n − 1 slots: when job j starts, and at every moment after it, at most n − 1 of the jobs handed out before j are
    still waiting to start (n the largest limit so far) -/
theorem ahead_slack {s s' : Disp.State} {j : Nat} (h : Disp.Reach s) (he : Disp.step s (.enter j) = .ok s') :
    (Disp.waitingAhead s j).length + 1 ≤ s.maxLim := Disp.ahead_slack h he

theorem ahead_slack_stable {s : Disp.State} (h : Disp.Reach s) {j : Nat} (hj : j ∈ s.entered) :
    (Disp.waitingAhead s j).length + 1 ≤ s.maxLim := Disp.ahead_slack_stable h hj

/-! End to end for a standard queue (model `FifoDisp` = Disp composed with the list queue that `fifo_refines_list` proves
    the segmented FIFO to be; submissions accepted at the back, the dispatcher takes the oldest, Purge drops the oldest). -/

/-- "a standard queue hands out jobs in the order their submissions were accepted" -/
theorem handout_is_acceptance_order {s : FifoDisp.State} (h : FifoDisp.Reach s) : s.d.deqd.Sublist s.accepted :=
  FifoDisp.handout_is_acceptance_order h

/-- "with concurrency 1 this is exactly the execution order": worker functions start in acceptance order -/
theorem serial_is_acceptance_order {s : FifoDisp.State} (h : FifoDisp.Reach s) (hl : s.d.maxLim ≤ 1) :
    s.d.entered.Sublist s.accepted := FifoDisp.serial_is_acceptance_order h hl

/-- started jobs were handed out, each starts at most once -/
theorem started_were_handed_out {s : Disp.State} (h : Disp.Reach s) : (∀ j ∈ s.entered, j ∈ s.deqd) ∧ s.entered.Nodup :=
  ⟨Disp.entered_subset_deqd h, Disp.entered_nodup h⟩

end VarmqVerif.Props.C04
