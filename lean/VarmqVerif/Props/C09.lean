import VarmqVerif.Proofs.Res
import VarmqVerif.Tie.Facts
/-!
  C09 — a paused or stopped worker starts nothing.
  Model `Res` (Model/Res.lean): every atomic operation on status / curProcessing / concurrency, the
  lifecycle lock, job hand-over, worker-function entry/exit and API call/return are events; any
  number of goroutines, dispatcher loops, barrier callers and jobs; any interleaving.
  `frozen` is the ghost flag "a PauseAndWait/Stop/WaitAndStop has returned nil, no Resume/Restart/
  Bind call was in progress during it, and none has been called since"; `budget` the ghost counter
  set when a plain Pause returns.
-/
namespace VarmqVerif.Props.C09
open VarmqVerif Res

/-- after PauseAndWait / Stop / WaitAndStop returned nil, no worker function can be entered until a
    Resume / Restart / Bind is called -/
theorem no_start_after_barrier {s : State} (h : Reach s) (hf : s.frozen = true) :
    ∀ g k, ∃ m, step s (.enter g k) = .error m := no_start_when_frozen h hf

/-- in such a state nothing is dispatched, handed over, executing or finishing -/
theorem frozen_is_quiet {s : State} (h : Reach s) (hf : s.frozen = true) : Quiet s := frozen_quiet h hf

/-- a stopped worker holds no dispatched job at all -/
theorem stopped_is_quiet {s : State} (h : Reach s) (hs : s.ws = stopped) : Quiet s := stopped_quiet h hs

/-- after a plain Pause returned: at most `b` jobs — those already past reserve() — may still start … -/
theorem pause_budget {s : State} {b : Nat} (h : Reach s) (hb : s.budget = some b) :
    isQuietStatus s.ws = true ∧ s.nHold + s.handed ≤ b := budget_bound h hb

/-- … none once the budget is used up … -/
theorem no_start_after_budget {s : State} (h : Reach s) (hb : s.budget = some 0) :
    ∀ g k, ∃ m, step s (.enter g k) = .error m := no_start_when_budget_zero h hb

/-- … and the budget is at most the largest concurrency limit -/
theorem pause_budget_le_limit {s s' : State} {g b : Nat} (h : Reach s) (hst : step s (.ret g .pause true) = .ok s')
    (hb : s'.budget = some b) (h0 : s.budget = none) : b ≤ s.maxConc := budget_le_maxConc h hst hb h0

end VarmqVerif.Props.C09
