import VarmqVerif.Proofs.Ack
import VarmqVerif.Proofs.Sig
/-!
  C13 — distributed consumers drain the shared queue; each item is run by exactly one (partial).
  The `Ack` model does not distinguish consumers: `deq`, `enter`, `exit`, `ack` may come from any
  worker bound to the adapter, so its theorems are statements about k consumers on one adapter.
  Draining is the per-consumer no-lost-wake-up theorem (`Sig`, with the notification handler as one
  more notifier) and is checked end-to-end on explored executions (1..3 consumers, plain/priority,
  items present before binding, announcements while saturated).
-/
namespace VarmqVerif.Props.C13
open VarmqVerif Ack

theorem step_entered {s s' : State} {e : Ev} (hst : step s e = .ok s') :
    s'.entered = s.entered ∨ s'.entered = [] ∨ ∃ x, x ∉ s.entered ∧ s'.entered = x :: s.entered := by
  cases e <;> simp only [step] at hst <;> (repeat' split at hst) <;>
    first
    | (injection hst with hst; subst hst; simp_all)
    | (exact absurd hst (by simp))
    | simp_all

theorem entered_nodup {s : State} (h : Reach s) : s.entered.Nodup := by
  induction h with
  | init => simp [init]
  | step e _ hst ih =>
    rcases step_entered hst with h1 | h1 | ⟨x, hx, h1⟩
    · rw [h1]; exact ih
    · rw [h1]; exact List.nodup_nil
    · rw [h1]; exact List.nodup_cons.mpr ⟨hx, ih⟩

/-- within one process lifetime an item on the shared adapter is executed by at most one consumer
    (the adapter hands each pending item to one DequeueWithAckId; the library enters the worker
    function once per delivery) -/
theorem executed_by_at_most_one {s : State} (h : Reach s) : s.entered.Nodup := entered_nodup h

/-- and it is never lost: pending, unacknowledged or acknowledged-and-processed -/
theorem never_lost {s : State} {x : Nat} (h : Reach s) (hx : x ∈ s.accepted) :
    x ∈ s.pending ∨ x ∈ s.unacked ∨ (x ∈ s.acked ∧ x ∈ s.processed) := Ack.held_or_done h hx

/-- an announced item is noticed by a consumer with a free slot (per consumer) -/
theorem announced_is_noticed {s : Sig.State} (h : Sig.Reach s) (hd : Sig.Dispatchable s) :
    s.tok = true ∨ 0 < s.nOwes ∨ s.dph.active = true := Sig.no_lost_wakeup h hd

end VarmqVerif.Props.C13
