import VarmqVerif.Proofs.Fifo
import VarmqVerif.Proofs.PQ
import VarmqVerif.Proofs.Res
import VarmqVerif.Proofs.Manager
import VarmqVerif.Proofs.Metr
import VarmqVerif.Props.C04
import VarmqVerif.Tie.Facts
/-!
  C17 — pending/processing counts and metrics stay in bounds and are exact at rest.
  Proved here: the length a queue reports is exactly its number of pending items (FIFO at the
  regenerated capacities, priority queue), hence never negative and never above the number of
  accepted submissions; NumProcessing never exceeds the largest limit; the worker's NumPending is the
  sum over its registered queues and every bind path registers exactly once; the metrics counters
  (model `Metr`: any number of goroutines entering/leaving worker functions, counting them successful
  or failed and then completed, submitters counting accepted submissions) are ordered at every moment
  and exact at rest, and every read returns the counter's value. That the real increments happen in
  the places and order `Metr.step` accepts is checked by replaying every explored execution.
-/
namespace VarmqVerif.Props.C17
open VarmqVerif

/-- FIFO: under the representation invariant (which every reachable state satisfies) Len is the
    number of pending items; it is read under the queue lock (`Tie.fifo_len_skeleton`) -/
theorem fifo_len_exact {α : Type} (ops : List (Fifo.Op α)) :
    (Fifo.step (Fifo.run (Fifo.init C04.initCap C04.maxCap) ops).1 .len).2 =
      .nat (Fifo.abs (Fifo.run (Fifo.init C04.initCap C04.maxCap) ops).1).length :=
  Fifo.len_exact (Fifo.run_inv (Fifo.inv_init C04.caps_ok.1 C04.caps_ok.2) ops)

/-- pending items never exceed the accepted submissions: what is pending or dequeued is a
    subsequence of what was accepted -/
theorem fifo_pending_le_accepted {α : Type} (ops : List (Fifo.Op α)) :
    (ListQueue.dequeued (Fifo.run (Fifo.init C04.initCap C04.maxCap) ops).2).Sublist
      (ListQueue.accepted ops (Fifo.run (Fifo.init C04.initCap C04.maxCap) ops).2) :=
  Fifo.fifo_order_purge C04.caps_ok.1 C04.caps_ok.2 ops

/-- NumProcessing() (a load of curProcessing) never exceeds the largest concurrency limit -/
theorem processing_le_limit {s s' : Res.State} {g v : Nat} (h : Res.Reach s) (hst : Res.step s (.ldCurAny g v) = .ok s') :
    v ≤ s.maxConc := Res.read_cur_le_maxConc h hst

/-- the worker's NumPending is the plain sum of its queues' lengths -/
theorem worker_pending_is_sum (lens : List Int) : Manager.total lens = lens.sum := Manager.total_eq_sum lens

/-- every bind path registers its queue exactly once, so no queue is counted twice -/
theorem registered_once : Generated.registerCalls.all (fun p => p.2 == 1) = true := Tie.register_once

/-- the FIFO length is read inside the queue's read lock in the current tree -/
theorem len_under_lock : Generated.skeletonOf "Queue.Len" =
    ["mutex:q.mx:RLock", "mutex:q.mx:RUnlock", "atomic:q.writeCount:Load", "atomic:q.readCount:Load"] := Tie.fifo_len_skeleton

/-- at every moment: Completed ≤ Successful + Failed ≤ finished invocations ≤ started invocations,
    Failed ≤ failed-or-panicked invocations, Successful ≤ successful invocations, Submitted ≤ accepted -/
theorem metrics_ordered (s : Metr.State) (h : Metr.Reach s) :
    s.comp ≤ s.succ + s.fail ∧ s.succ + s.fail ≤ s.exited ∧ s.exited ≤ s.entered ∧ s.fail ≤ s.exitedBad ∧
    s.succ + s.exitedBad ≤ s.exited + s.fail ∧ s.sub ≤ s.accepted := Metr.ordering s h

/-- at rest (nobody between the entry of a worker function and incCompleted, nobody owing an
    incSubmitted): Completed = Successful + Failed = finished invocations, Failed = failed-or-panicked
    invocations, Submitted = accepted submissions -/
theorem metrics_exact_at_rest (s : Metr.State) (h : Metr.Reach s) (hr : Metr.AtRest s) :
    s.comp = s.succ + s.fail ∧ s.succ + s.fail = s.exited ∧ s.exited = s.entered ∧ s.fail = s.exitedBad ∧ s.sub = s.accepted :=
  Metr.at_rest_exact s h hr

/-- a read of a counter returns its value and changes nothing; counters never decrease -/
theorem metrics_read_exact (s s' : Metr.State) (c : Metr.Ctr) (v : Nat) (h : Metr.step s (.ld c v) = .ok s') :
    v = s.ctr c ∧ s' = s := Metr.read_exact s s' c v h
theorem metrics_monotone (s s' : Metr.State) (e : Metr.Ev) (h : Metr.step s e = .ok s') :
    s.sub ≤ s'.sub ∧ s.comp ≤ s'.comp ∧ s.succ ≤ s'.succ ∧ s.fail ≤ s'.fail := Metr.counters_monotone s s' e h

end VarmqVerif.Props.C17
