import VarmqVerif.Proofs.Res
/-!
  C06 — worker-level barriers are exact (safety half; the "returns once its condition holds" half
  is progress, see C03 and DESIGN.md §9).
-/
namespace VarmqVerif.Props.C06
open VarmqVerif Res

/-- PauseAndWait / Stop / WaitAndStop return nil only in a state in which no worker function is
    executing and none has been handed a job or holds a processing slot -/
theorem barrier_return_exact {s s' : State} {g : Nat} {a : Api} (h : Reach s) (ha : a.isBarrier = true)
    (hst : step s (.ret g a true) = .ok s') (hd : s.dirty g = false) :
    s.nExec = 0 ∧ s.handed = 0 ∧ s.nHold = 0 := Res.barrier_return_exact h ha hst hd

/-- every job is at every instant accounted for by curProcessing: reserved + holding + handed +
    executing + finishing = curProcessing (what the barrier condition reads) -/
theorem slots_accounted {s : State} (h : Reach s) : s.cur = s.nRes + s.nHold + s.handed + s.nExec + s.nDone := acc_inv h

end VarmqVerif.Props.C06
