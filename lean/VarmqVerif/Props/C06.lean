import VarmqVerif.Proofs.Res
import VarmqVerif.Proofs.Wake
/-!
  C06 — worker-level barriers are exact. Safety on model `Res`; "returns once its condition holds"
  (cannot miss the wake-up) on model `Wake` in the form "no reachable idle state has a parked
  waiter" (fairness of the Go scheduler turns it into "eventually"). `Wake` covers executions
  without Stop/Restart (PauseAndWait, Pause, WaitUntilFinished, cancel, purge, TunePool, any
  number of waiters); with Stop/Restart the exact hang detection on explored executions applies.
-/
namespace VarmqVerif.Props.C06
open VarmqVerif Res

/-- PauseAndWait / Stop / WaitAndStop return nil only in a state in which no worker function is
    executing and none has been handed a job or holds a processing slot -/
theorem barrier_return_exact {s s' : State} {g : Nat} {a : Api} (h : Reach s) (ha : a.isBarrier = true)
    (hst : step s (.ret g a true) = .ok s') (hd : s.dirty g = false) :
    s.nExec = 0 ∧ s.handed = 0 ∧ s.nHold = 0 := Res.barrier_return_exact h ha hst hd

/-- every job is at every instant accounted for by curProcessing: reserved + holding + handed +
    executing + finishing = curProcessing (what the barrier condition reads) -/
theorem slots_accounted {s : State} (h : Reach s) : s.cur = s.nRes + s.nHold + s.handed + s.nExec + s.nDone := acc_inv h

/-- a goroutine parked in WaitUntilFinished / PauseAndWait either still has a true condition, or a
    Broadcast is on its way: owed by somebody, or the event loop is active and ends its activation with
    releaseWaiters, or a token / owed notify will activate it, or slots are in use whose last release
    broadcasts -/
theorem parked_waiter_covered {s : Wake.State} (h : Wake.Reach s) (hc : 0 < s.conc) (hp : 0 < s.nParked) :
    Wake.CondTrue s ∨ Wake.BcComing s := Wake.parked_covered h hc hp

/-- hence nobody sleeps forever: in a state where nothing will happen any more on the library side
    (no token, nothing owed, event loop parked, no slot in use, mutex free) nobody is parked — also
    when the last pending jobs were cancelled ones or the queue was purged (those are `deqX` / skipped
    `dDeq` events of the model) -/
theorem no_waiter_stranded {s : Wake.State} (h : Wake.Reach s) (hi : Wake.Idle s) (hc : 0 < s.conc) : s.nParked = 0 :=
  Wake.no_waiter_stranded h hi hc

/-- a Broadcast cannot slip between a waiter evaluating its condition and parking: whoever is inside
    condition() holds w.mx, and only one goroutine can -/
theorem condition_under_mutex {s : Wake.State} {g g' : Nat} (h : Wake.Reach s) (h1 : (s.wph g).crit = true)
    (h2 : (s.wph g').crit = true) : g = g' := Wake.crit_exclusive h g g' h1 h2

end VarmqVerif.Props.C06
