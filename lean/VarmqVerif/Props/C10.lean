import VarmqVerif.Proofs.Job
/-!
  C10 — cancel, purge and queue-close take effect, exclude execution, never crash.
-/
namespace VarmqVerif.Props.C10
open VarmqVerif Job

/-- Close() == nil before the job started ⇒ it is never executed -/
theorem close_before_start_excludes_run {s : State} {j : Nat} (h : Reach s) (hc : (s.jobs j).cancelled = true) :
    (s.jobs j).entered = 0 := Job.cancelled_never_runs h hc

/-- exactly one caller ever succeeds in closing a job (one Done, one acknowledgement, one stream close) -/
theorem single_closer {s : State} {j : Nat} (h : Reach s) : (s.jobs j).closes ≤ 1 := Job.closes_le_one h

/-- while the worker function runs the status is Processing, so Close returns ErrJobProcessing and
    changes nothing (tryClose returns before its CAS) -/
theorem processing_while_running {s : State} {j : Nat} (h : Reach s) (hr : (s.jobs j).exited < (s.jobs j).entered) :
    (s.jobs j).st = processing := Job.processing_while_running h hr

/-- Closed is final: a second Close sees Closed (ErrJobAlreadyClosed) -/
theorem closed_is_final {s s' : State} {j : Nat} {e : Ev} (h : Reach s) (hc : (s.jobs j).st = closed)
    (hst : step s e = .ok s') : (s'.jobs j).st = closed := Job.closed_is_final h hc hst

/-- no interleaving of Close / Purge / dispatch / completion panics -/
theorem no_crash {s : State} (h : Reach s) : s.crashed = false := Job.no_crash h

end VarmqVerif.Props.C10
