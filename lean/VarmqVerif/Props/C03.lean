import VarmqVerif.Proofs.Sig
import VarmqVerif.Proofs.Sig2
import VarmqVerif.Proofs.Res
import VarmqVerif.Tie.Facts
/-!
  C03 — accepted jobs always make progress: no lost wake-up, stuck job or deadlock.
  Progress is proved in the form "no reachable sleeping state is bad" (DESIGN.md §2.4): together
  with fairness of the Go scheduler (assumed) this gives "eventually".
  Model `Sig`: the signal token, the event loop with its four-load condition, and arbitrary
  goroutines that enqueue, release slots, store status/limit and notify; model `Res` for the slot
  accounting.
-/
namespace VarmqVerif.Props.C03
open VarmqVerif

/-- whenever the worker is running, a slot is free and a job is pending: a wake-up token is in the
    channel, or some goroutine still owes a notify(), or the event loop is active and will
    evaluate its condition again — for every interleaving of any number of goroutines -/
theorem no_lost_wakeup {s : Sig.State} (h : Sig.Reach s) (hd : Sig.Dispatchable s) :
    s.tok = true ∨ 0 < s.nOwes ∨ s.dph.active = true := Sig.no_lost_wakeup h hd

/-- the owed notify can always be performed (the send on the signal channel never blocks: it is a
    select with default; the ghost counters are consistent) -/
theorem notify_never_blocks {s : Sig.State} {g : Nat} (h : Sig.Reach s) :
    ∃ s', Sig.step s (.notify g (!s.tok)) = .ok s' := Sig.notify_enabled h g

/-- hence: if nobody is going to look any more (no token, nothing owed, event loop parked), then no
    work is dispatchable -/
theorem asleep_not_dispatchable {s : Sig.State} (h : Sig.Reach s) (ha : Sig.Asleep s) : ¬ Sig.Dispatchable s :=
  Sig.asleep_not_dispatchable h ha

/-- … i.e. min(pending + in flight, limit) slots are in use: "min(pending, limit) jobs run together" -/
theorem asleep_min_parallel {s : Sig.State} (h : Sig.Reach s) (ha : Sig.Asleep s) (hr : s.ws = Sig.running) :
    min (s.cur + s.qlen) s.conc ≤ s.cur := Sig.asleep_min_parallel h ha hr

/-- a slot in use is always attached to something that will give it back: a dispatcher inside
    processNextJob, a job handed to a node, an executing worker function or a runner about to
    release — no job sits in Processing without a goroutine -/
theorem slots_accounted {s : Res.State} (h : Res.Reach s) : s.cur = s.nRes + s.nHold + s.handed + s.nExec + s.nDone :=
  Res.acc_inv h

/-- the same across Stop and Restart (model `Sig2`: any number of signal channels and event loops, the
    previous run's event loop possibly still in the middle of an activation, notify() on the nil
    channel of a stopped worker swallowed): dispatchable work is covered by a token on the *current*
    channel, an owed notify(), or an event loop that will evaluate its condition again -/
theorem no_lost_wakeup_across_restarts {s : Sig2.State} (h : Sig2.Reach s) (hd : Sig2.Dispatchable s) :
    Sig2.TokCur s ∨ 0 < s.nOwes ∨ ∃ d, (s.dph d).willEval = true := Sig2.no_lost_wakeup h hd

/-- … and when nothing is owed and no event loop is active, the token lies on an open channel on
    which a live event loop listens -/
theorem token_has_listener {s : Sig2.State} (h : Sig2.Reach s) (h0 : s.nOwes = 0)
    (hq : ∀ d, (s.dph d).willEval = false) (hd : Sig2.Dispatchable s) : Sig2.TokCur s ∧ Sig2.Listening s :=
  Sig2.asleep_not_dispatchable h h0 hq hd

/-- the non-blocking send is always possible, also on the nil channel of a stopped worker -/
theorem notify_never_blocks_across_restarts {s : Sig2.State} (h : Sig2.Reach s) (g : Nat) :
    ∃ s', Sig2.step s (.notify g (match s.chan with | some ch => !s.tok ch | none => false)) = .ok s' :=
  Sig2.notify_enabled h g

end VarmqVerif.Props.C03
