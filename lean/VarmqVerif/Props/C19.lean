import VarmqVerif.Proofs.Race
import VarmqVerif.Tie.Facts
/-!
  C19 — no data race, in the sense of the Go memory model, on memory owned by the library.

  What is proved: the detector that judges every explored execution is exact with respect to the
  happens-before specification of model `Race` (for traces of any length, any number of goroutines,
  synchronisation objects and memory locations). What is NOT proved: that the executions explored
  cover all client programs and schedules (exploration), and that the trace contains every plain
  access (the instrumentation wraps struct fields and captured variables; slice/map elements and
  accesses through reflection are not observed). Happens-before is over-approximated only in the
  direction that removes reports (see Model/Race.lean and `RaceMap.events`), so a reported pair is a
  data race of that execution in the Go memory model.
-/
namespace VarmqVerif.Props.C19
open VarmqVerif Race

/-- no false alarm: every pair the detector reports consists of two accesses of different goroutines to
    overlapping memory, at least one a write, neither happening before the other -/
theorem report_is_race (tr : List Ev) (r : Report) (h : r ∈ detect tr) : RacePair tr r.i r.j :=
  detect_sound tr r h

/-- nothing missed within the execution: every unordered conflicting pair is reported -/
theorem race_is_reported (tr : List Ev) (i j : Nat) (h : RacePair tr i j) : ∃ r ∈ detect tr, r.i = i ∧ r.j = j :=
  detect_complete tr i j h

/-- the verdict on one execution: no report ⇔ the execution is race free -/
theorem silent_iff_race_free (tr : List Ev) : detect tr = [] ↔ ¬ Racy tr := detect_nil_iff tr

/-- a report names the source sites of its two accesses -/
theorem report_sites (tr : List Ev) (r : Report) (h : r ∈ detect tr) :
    ∃ e f a s w b u x, tr[r.i]? = some e ∧ tr[r.j]? = some f ∧
      e.access = some (a, s, w, r.siteI) ∧ f.access = some (b, u, x, r.siteJ) := detect_sites tr r h

end VarmqVerif.Props.C19
