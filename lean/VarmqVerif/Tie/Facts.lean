import VarmqVerif.Generated.Facts
import VarmqVerif.Model.Codec
/-!
  Tie (i) of DESIGN.md §3.2: `Generated/Facts.lean` is rewritten from /repo's working tree on every
  check run; the theorems below state that the regenerated facts are the ones the models were
  written against. They are grouped per property so that a change in /repo breaks the tie of the
  properties whose models depend on the changed fact, and of no other.
-/
namespace VarmqVerif.Tie
open VarmqVerif.Generated

-- ---------------------------------------------------------------- constants
/-- C04, C17: the segment capacities satisfy the side conditions of `Fifo.refines_list` -/
theorem fifo_caps_ok : 1 ≤ const "queues.initialBufferCapacity" ∧ 1 ≤ const "queues.chunkMaxCapacity" := by decide

/-- worker / job status enumerations are the ones of the models -/
theorem status_consts :
    const "varmq.initiated" = 0 ∧ const "varmq.running" = 1 ∧ const "varmq.paused" = 2 ∧ const "varmq.stopped" = 3 ∧
    const "varmq.created" = 0 ∧ const "varmq.queued" = 1 ∧ const "varmq.processing" = 2 ∧ const "varmq.finished" = 3 ∧
    const "varmq.closed" = 4 := by decide

/-- the signal, error and pool node channels have capacity 1 (the wake-up and hand-over arguments rely on it) -/
theorem chan_caps : const "varmq.eventLoopSignalCap" = 1 ∧ const "varmq.errorChanCap" = 1 ∧ const "varmq.poolChanCap" = 1 := by decide

theorem strategy_consts : const "varmq.RoundRobin" = 0 ∧ const "varmq.MaxLen" = 1 ∧ const "varmq.MinLen" = 2 := by decide

-- ---------------------------------------------------------------- status strings (C12, C14, C16)
theorem job_status_strings : jobStatusStrings = Codec.statusStrings := by decide
theorem parse_status_strings : parseStatusStrings = Codec.statusStrings := by decide
theorem worker_status_strings : workerStatusStrings = [(0, "Initiated"), (1, "Running"), (2, "Paused"), (3, "Stopped")] := by decide

-- ---------------------------------------------------------------- C15 / C17: one Register per bind path
theorem register_once : registerCalls.all (fun p => p.2 == 1) = true := by decide
theorem register_paths : registerCalls.length = 16 := by decide

-- ---------------------------------------------------------------- C04: heap order
theorem less_guards : guardsOf "heapQueue.Less" =
    ["if:pq.items[i].Priority==pq.items[j].Priority", "ret:pq.items[i].Index<pq.items[j].Index",
     "ret:pq.items[i].Priority<pq.items[j].Priority"] := by decide

-- ---------------------------------------------------------------- Res model (C02, C06, C09)
theorem reserve_skeleton : skeletonOf "worker.reserve" =
    ["atomic:w.curProcessing:Load", "atomic:w.concurrency:Load", "atomic:w.curProcessing:CompareAndSwap", "atomic:w.status:Load"] := by decide
theorem reserve_guards : guardsOf "worker.reserve" =
    ["if:c>=w.concurrency.Load()", "if:w.curProcessing.CompareAndSwap(c,c+1)", "if:s==paused||s==stopped"] := by decide
theorem release_skeleton : skeletonOf "worker.release" = ["atomic:w.curProcessing:Add"] := by decide
theorem barrier_skeleton : skeletonOf "worker.WaitUntilFinished$1" =
    ["atomic:w.status:Load", "atomic:w.curProcessing:Load", "atomic:w.curProcessing:Load"] := by decide

-- ---------------------------------------------------------------- Job model (C01, C05, C08, C10, C16)
theorem claim_skeleton : skeletonOf "job.claim" = ["atomic:j.status:Load", "atomic:j.status:CompareAndSwap"] := by decide
theorem claim_guards : guardsOf "job.claim" = ["if:s==closed", "if:j.status.CompareAndSwap(s,processing)"] := by decide
theorem tryClose_skeleton : skeletonOf "job.tryClose" = ["atomic:j.status:Load", "atomic:j.status:CompareAndSwap"] := by decide
theorem tryClose_guards : guardsOf "job.tryClose" = ["if:j.status.CompareAndSwap(s,closed)"] := by decide
theorem close_skeleton : skeletonOf "job.Close" = ["wg:j.wg:Done"] := by decide
theorem wgcounter_done_skeleton : skeletonOf "WgCounter.Done" =
    ["atomic:pt.count:Load", "atomic:pt.count:CompareAndSwap", "wg:pt.wg:Done"] := by decide
theorem wgcounter_done_guards : guardsOf "WgCounter.Done" =
    ["if:c==0", "ret:false", "if:pt.count.CompareAndSwap(c,c-1)", "ret:c==1"] := by decide

-- ---------------------------------------------------------------- C17: FIFO length is read under the queue lock
theorem fifo_len_skeleton : skeletonOf "Queue.Len" =
    ["mutex:q.mx:RLock", "mutex:q.mx:RUnlock", "atomic:q.writeCount:Load", "atomic:q.readCount:Load"] := by decide

end VarmqVerif.Tie
