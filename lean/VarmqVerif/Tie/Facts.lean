import VarmqVerif.Generated.Facts
import VarmqVerif.Model.Codec
/-!
  Tie (i) of DESIGN.md §3.2: `Generated/Facts.lean` is rewritten from /repo's working tree on every
  check run; the theorems below state that the regenerated facts are the ones the models were
  written against. They are grouped per property so that a change in /repo breaks the tie of the
  properties whose models depend on the changed fact, and of no other.
-/
namespace VarmqVerif.Tie
open VarmqVerif.Generated

-- ---------------------------------------------------------------- constants
/-- C04, C17: the segment capacities satisfy the side conditions of `Fifo.refines_list` -/
theorem fifo_caps_ok : 1 ≤ const "queues.initialBufferCapacity" ∧ 1 ≤ const "queues.chunkMaxCapacity" := by decide

/-- worker / job status enumerations are the ones of the models -/
theorem status_consts :
    const "varmq.initiated" = 0 ∧ const "varmq.running" = 1 ∧ const "varmq.paused" = 2 ∧ const "varmq.stopped" = 3 ∧
    const "varmq.created" = 0 ∧ const "varmq.queued" = 1 ∧ const "varmq.processing" = 2 ∧ const "varmq.finished" = 3 ∧
    const "varmq.closed" = 4 := by decide

/-- the signal, error and pool node channels have capacity 1 (the wake-up and hand-over arguments rely on it) -/
theorem chan_caps : const "varmq.eventLoopSignalCap" = 1 ∧ const "varmq.errorChanCap" = 1 ∧ const "varmq.poolChanCap" = 1 := by decide

theorem strategy_consts : const "varmq.RoundRobin" = 0 ∧ const "varmq.MaxLen" = 1 ∧ const "varmq.MinLen" = 2 := by decide

-- ---------------------------------------------------------------- status strings (C12, C14, C16)
theorem job_status_strings : jobStatusStrings = Codec.statusStrings := by decide
theorem parse_status_strings : parseStatusStrings = Codec.statusStrings := by decide
theorem worker_status_strings : workerStatusStrings = [(0, "Initiated"), (1, "Running"), (2, "Paused"), (3, "Stopped")] := by decide

-- ---------------------------------------------------------------- C15 / C17: one Register per bind path
theorem register_once : registerCalls.all (fun p => p.2 == 1) = true := by decide
theorem register_paths : registerCalls.length = 16 := by decide

-- ---------------------------------------------------------------- C04: heap order
theorem less_guards : guardsOf "heapQueue.Less" =
    ["if:pq.items[i].Priority==pq.items[j].Priority", "ret:pq.items[i].Index<pq.items[j].Index",
     "ret:pq.items[i].Priority<pq.items[j].Priority"] := by decide

/-- the FIFO model (Model/Fifo.lean) is a transcription of exactly these branches and calls of queue.go / chunk.go; the white-box
    differential compares behaviour on the operations it knows, this theorem reports a changed or added code path -/
theorem fifo_guards :
    guardsOf "Queue.Enqueue" = ["if:q.closed.Load()", "if:!ok", "if:q.writeChunk.Push(typedItem)", "if:q.writeChunk.Push(typedItem)"] ∧
    guardsOf "Queue.Dequeue" = ["if:ok", "if:q.readChunk.Next!=nil", "if:ok"] ∧
    guardsOf "Queue.Len" = ["if:writeCount<readCount"] ∧
    guardsOf "Chunk.Push" = ["if:c.IsFull()"] ∧ guardsOf "Chunk.Pop" = ["if:c.IsEmpty()"] := by decide
theorem fifo_calls :
    callsOf "Queue.Enqueue" = ["Load", "Lock", "Unlock", "Push", "Add", "Cap", "min", "Push", "Add"] ∧
    callsOf "Queue.Dequeue" = ["Lock", "Unlock", "Pop", "Add", "Pop", "Add", "new"] ∧
    callsOf "Queue.Purge" = ["Lock", "Unlock", "Store", "Store"] := by decide
/-- the functions of the container types (queues, chunks, heap, idle list and its nodes, manager, Response, WgCounter) are the ones the models transcribe: a new
    method that changes a representation behind the models' back is reported -/
theorem container_funcs : containerFuncs =
    ["Chunk.Cap", "Chunk.IsFull", "Chunk.Pop", "Chunk.Push", "List.Back", "List.Front", "List.Init", "List.InsertAfter", "List.Len",
     "List.NodeSlice", "List.PopBack", "List.PopBackIfLonger", "List.PopFront", "List.PushBack", "List.PushFront", "List.PushNode",
     "List.Remove", "List.insertValue", "Manager.Count", "Manager.GetMaxLenItem", "Manager.GetMinLenItem", "Manager.GetRoundRobinItem",
     "Manager.Len", "Manager.Register", "Manager.UnregisterItem", "Node.GetLastUsed", "Node.Next", "Node.Prev", "Node.Send", "Node.Serve",
     "Node.Stop", "Node.UpdateLastUsed", "PriorityQueue.Close", "PriorityQueue.Dequeue", "PriorityQueue.Enqueue",
     "PriorityQueue.Len", "PriorityQueue.Purge", "PriorityQueue.Values", "Queue.Close", "Queue.Dequeue", "Queue.Enqueue", "Queue.Len",
     "Queue.Purge", "Queue.Values", "Response.Close", "Response.Drain", "Response.Response", "Response.Send", "WgCounter.Count",
     "WgCounter.Done", "WgCounter.Wait", "heapQueue.Len", "heapQueue.Less", "heapQueue.Pop", "heapQueue.Push"] := by decide
/-- the idle list (model Pool / Trim / Reap: PopBack takes the last node, Remove refuses a node that is not linked,
    PopBackIfLonger is one step) and the queue manager (model Manager) are transcriptions of these branches -/
theorem list_guards :
    guardsOf "List.Remove" = ["if:node==&l.root||node.prev==nil||node.next==nil"] ∧
    guardsOf "List.PopBack" = ["if:l.len==0", "if:last!=&l.root"] ∧
    guardsOf "List.PopBackIfLonger" = ["if:l.len==0||l.len<=min", "if:last==&l.root"] ∧
    guardsOf "List.NodeSlice" = ["for:node!=&l.root"] := by decide
/-- the worker asks the strategy and nothing else: `queueManager.next` has no branch of its own besides the switch on the
    strategy, and calls exactly the three selection functions of the Manager model -/
theorem qm_next_is_the_strategy :
    guardsOf "queueManager.next" = [] ∧
    callsOf "queueManager.next" = ["GetRoundRobinItem", "GetMaxLenItem", "GetMinLenItem"] := by decide
/-- the codec model takes encoding/json as its parameter: Json() is one Marshal of the envelope, parseToJob one Unmarshal; a
    hand-written encoder or decoder path is reported -/
theorem codec_calls :
    callsOf "job.Json" = ["ID", "Status", "Marshal"] ∧ guardsOf "job.Json" = [] ∧
    callsOf "parseToJob" = ["Unmarshal", "Errorf", "newJob", "Store", "Store", "Store", "Store", "Store", "Errorf"] ∧ guardsOf "parseToJob" = ["if:err!=nil"] := by decide
theorem manager_guards :
    guardsOf "Manager.GetRoundRobinItem" = ["if:len(m.items)==0", "if:item.Len()>0", "if:m.roundRobinIndex==start"] ∧
    guardsOf "Manager.GetMaxLenItem" = ["if:len(m.items)==0", "if:maxItem.Len()==0"] ∧
    guardsOf "Manager.GetMinLenItem" = ["if:len(m.items)==0", "if:l>0&&(minLen==-1||l<minLen)", "if:minLen==-1"] := by decide
/-- `Manager.UnregisterItem` (model `Manager.unregister`): pointer-equality test, cursor reset when it is at or past the slot. -/
theorem manager_unregister_guards :
    guardsOf "Manager.UnregisterItem" = ["if:itemToRemovePtr==itemValuePtr", "if:m.roundRobinIndex>=i"] ∧
    skeletonOf "Manager.UnregisterItem" = ["mutex:m.mx:Lock", "mutex:m.mx:Unlock"] := by decide
theorem pq_guards :
    guardsOf "PriorityQueue.Enqueue" = ["if:q.closed.Load()", "if:!ok"] ∧ guardsOf "PriorityQueue.Dequeue" = ["if:q.internal.Len()==0"] := by decide

-- ---------------------------------------------------------------- Res model (C02, C06, C09)
theorem reserve_skeleton : skeletonOf "worker.reserve" =
    ["atomic:w.curProcessing:Load", "atomic:w.concurrency:Load", "atomic:w.curProcessing:CompareAndSwap", "atomic:w.status:Load", "atomic:w.concurrency:Load"] := by decide
theorem reserve_guards : guardsOf "worker.reserve" =
    ["if:c>=w.concurrency.Load()", "if:w.curProcessing.CompareAndSwap(c,c+1)", "if:s==paused||s==stopped||taken>w.concurrency.Load()"] := by decide
theorem release_skeleton : skeletonOf "worker.release" = ["atomic:w.curProcessing:Add"] := by decide
theorem barrier_skeleton : skeletonOf "worker.WaitUntilFinished$1" =
    ["atomic:w.status:Load", "atomic:w.curProcessing:Load", "atomic:w.curProcessing:Load"] := by decide

-- ---------------------------------------------------------------- Job model (C01, C05, C08, C10, C16)
theorem claim_skeleton : skeletonOf "job.claim" = ["atomic:j.status:Load", "atomic:j.status:CompareAndSwap"] := by decide
theorem claim_guards : guardsOf "job.claim" = ["if:s==closed", "if:j.status.CompareAndSwap(s,processing)"] := by decide
theorem tryClose_skeleton : skeletonOf "job.tryClose" = ["atomic:j.status:Load", "atomic:j.status:CompareAndSwap"] := by decide
theorem tryClose_guards : guardsOf "job.tryClose" = ["if:j.status.CompareAndSwap(s,closed)"] := by decide
theorem close_skeleton : skeletonOf "job.Close" = ["wg:j.wg:Done"] := by decide
theorem wgcounter_done_skeleton : skeletonOf "WgCounter.Done" =
    ["atomic:pt.count:Load", "atomic:pt.count:CompareAndSwap", "wg:pt.wg:Done"] := by decide
theorem wgcounter_done_guards : guardsOf "WgCounter.Done" =
    ["if:c==0", "ret:false", "if:pt.count.CompareAndSwap(c,c-1)", "ret:c==1"] := by decide

-- ---------------------------------------------------------------- C17: FIFO length is read under the queue lock
theorem fifo_len_skeleton : skeletonOf "Queue.Len" =
    ["mutex:q.mx:RLock", "mutex:q.mx:RUnlock", "atomic:q.writeCount:Load", "atomic:q.readCount:Load"] := by decide

-- ---------------------------------------------------------------- call orders (regenerated `calls`)
/-- position of the first occurrence -/
def posOf (x : String) (l : List String) : Nat := (l.findIdx? (· == x)).getD l.length

/-- a occurs, b occurs, and the first a precedes the first b -/
def before (a b : String) (l : List String) : Bool := posOf a l < posOf b l && posOf b l < l.length

/-- the runner: worker function, Finished, Close, return the node, release the slot, count, notify -/
theorem runner_calls : callsOf "worker.initPoolNode$1" =
    ["workerFunc", "changeStatus", "Close", "Is", "sendError", "freePoolNode", "release", "incCompleted", "notifyToPullNextJobs"] := by decide

def addFns : List String :=
  ["queue.Add", "queue.AddAll", "errorQueue.Add", "errorQueue.AddAll", "resultQueue.Add", "resultQueue.AddAll",
   "priorityQueue.Add", "priorityQueue.AddAll", "errorPriorityQueue.Add", "errorPriorityQueue.AddAll",
   "resultPriorityQueue.Add", "resultPriorityQueue.AddAll"]

/-- all 12 submission paths: Queued is stored before the job becomes visible; the submission is counted and
    the event loop notified after the enqueue -/
theorem queued_before_enqueue : addFns.all (fun f => before "changeStatus" "Enqueue" (callsOf f)) = true := by decide
theorem notify_after_enqueue : addFns.all (fun f => before "Enqueue" "incSubmitted" (callsOf f) && before "incSubmitted" "notifyToPullNextJobs" (callsOf f)) = true := by decide
theorem persistent_add_calls : callsOf "persistentQueue.Add" =
    ["newJob", "loadJobConfigs", "configs", "Json", "Enqueue", "Close", "incSubmitted", "Metrics", "notifyToPullNextJobs"] := by decide

theorem process_next_job_calls : callsOf "worker.processNextJob" =
    ["reserve", "next", "release", "Errorf", "DequeueWithAckId", "Dequeue", "release", "parseToJob", "release", "release",
     "setInternalQueue", "release", "claim", "release", "setAckId", "sendToNextChannel"] := by decide

theorem event_loop_calls : callsOf "worker.goEventLoop$1" =
    ["IsRunning", "Load", "Load", "Len", "processNextJob", "sendError", "releaseWaiters", "Load"] := by decide

theorem pause_calls : callsOf "worker.pause" = ["Load", "Store", "releaseWaiters", "Load"] := by decide
theorem pause_and_wait_calls : callsOf "worker.PauseAndWait" = ["Lock", "Unlock", "pause", "WaitUntilFinished"] := by decide
theorem stop_calls : callsOf "worker.stop" =
    ["Load", "pause", "WaitUntilFinished", "WaitUntilFinished", "cancel", "Store", "stopTickers", "closeChannels", "stopAndRemoveAllWorkers"] := by decide
theorem restart_calls : callsOf "worker.Restart" =
    ["Lock", "Unlock", "Load", "pause", "WaitUntilFinished", "stopAndRemoveAllWorkers", "WaitUntilFinished", "stopAndRemoveAllWorkers",
     "stopTickers", "closeChannels", "Lock", "make", "make", "cancel", "WithCancel", "Unlock", "run"] := by decide
theorem run_calls : callsOf "worker.run" =
    ["notifyToPullNextJobs", "Store", "goEventLoop", "goRemoveIdleWorkers", "goListenToContext", "PushNode", "initPoolNode"] := by decide
theorem listener_calls : callsOf "worker.goListenToContext$1" = ["Done", "Lock", "Unlock", "RLock", "RUnlock", "stop"] := by decide

theorem job_close_calls : callsOf "job.Close" = ["tryClose", "Done", "ack"] := by decide
theorem result_group_close_calls : callsOf "resultGroupJob.Close" = ["tryClose", "ack", "Done", "Close"] ∧
    callsOf "errorGroupJob.Close" = ["tryClose", "ack", "Done", "Close"] ∧ callsOf "groupJob.Close" = ["tryClose", "ack", "Done"] := by decide
theorem single_close_calls : callsOf "errorJob.Close" = ["Close", "Close"] ∧ callsOf "resultJob.Close" = ["Close", "Close"] := by decide
theorem purge_calls : callsOf "externalBaseQueue.Purge" = ["Purge", "notifyToPullNextJobs", "Dequeue", "Close", "notifyToPullNextJobs"] := by decide

theorem free_pool_node_calls : callsOf "worker.freePoolNode" =
    ["UpdateLastUsed", "Len", "NumConcurrency", "Len", "numMinIdleWorkers", "PushNode", "Stop", "Put"] := by decide
theorem reaper_calls : callsOf "worker.goRemoveIdleWorkers$1" =
    ["numMinIdleWorkers", "Len", "NodeSlice", "len", "Before", "Add", "GetLastUsed", "Now", "RLock", "RUnlock", "Remove", "RUnlock", "Stop", "Put"] := by decide
/-- the reaper checks that its run is still alive and removes the node under w.mx (read mode); stopTickers
    closes the stop channel under w.mx (write mode): a pass that outlives its run removes nothing -/
theorem reaper_skeleton : skeletonOf "worker.goRemoveIdleWorkers$1" =
    ["chan:stop:recv", "chan:ticker.C:recv", "chan::select", "mutex:w.mx:RLock", "chan:stop:recv", "mutex:w.mx:RUnlock", "chan::select",
     "mutex:w.mx:RUnlock", "pool:w.pool.Cache:Put"] ∧
    skeletonOf "worker.stopTickers" = ["mutex:w.mx:Lock", "mutex:w.mx:Unlock", "time:ticker:Stop", "chan:stop:close"] := by decide
theorem stop_all_calls : callsOf "worker.stopAndRemoveAllWorkers" = ["NodeSlice", "Remove", "Stop", "Put"] := by decide
theorem tune_pool_calls : callsOf "worker.TunePool" =
    ["Load", "Load", "withSafeConcurrency", "Store", "notifyToPullNextJobs", "numMinIdleWorkers", "PopBackIfLonger", "Stop", "Put"] := by decide

theorem wrapper_calls : callsOf "NewWorker$1" = ["WithSafe", "incFailed", "sendError", "incSuccessful"] ∧
    callsOf "NewErrWorker$1" = ["WithSafe", "SelectError", "sendError", "sendError", "incFailed", "incSuccessful"] ∧
    callsOf "NewResultWorker$1" = ["WithSafe", "SelectError", "sendError", "sendError", "incFailed", "incSuccessful"] := by decide

-- ---------------------------------------------------------------- containers: every operation is one critical section
theorem fifo_lock_skeletons :
    skeletonOf "Queue.Enqueue" = ["atomic:q.closed:Load", "mutex:q.mx:Lock", "mutex:q.mx:Unlock", "atomic:q.writeCount:Add", "atomic:q.writeCount:Add"] ∧
    skeletonOf "Queue.Dequeue" = ["mutex:q.mx:Lock", "mutex:q.mx:Unlock", "atomic:q.readCount:Add", "atomic:q.readCount:Add"] ∧
    skeletonOf "Queue.Purge" = ["mutex:q.mx:Lock", "mutex:q.mx:Unlock", "atomic:q.readCount:Store", "atomic:q.writeCount:Store"] ∧
    skeletonOf "Queue.Values" = ["mutex:q.mx:RLock", "mutex:q.mx:RUnlock"] := by decide
theorem pq_lock_skeletons :
    skeletonOf "PriorityQueue.Enqueue" = ["atomic:q.closed:Load", "mutex:q.mx:Lock", "mutex:q.mx:Unlock"] ∧
    skeletonOf "PriorityQueue.Dequeue" = ["mutex:q.mx:Lock", "mutex:q.mx:Unlock"] ∧
    skeletonOf "PriorityQueue.Len" = ["mutex:q.mx:RLock", "mutex:q.mx:RUnlock"] ∧
    skeletonOf "PriorityQueue.Purge" = ["mutex:q.mx:Lock", "mutex:q.mx:Unlock"] := by decide
theorem list_lock_skeletons :
    skeletonOf "List.PopBack" = ["mutex:l.mx:Lock", "mutex:l.mx:Unlock"] ∧ skeletonOf "List.PopBackIfLonger" = ["mutex:l.mx:Lock", "mutex:l.mx:Unlock"] ∧ skeletonOf "List.Remove" = ["mutex:l.mx:Lock", "mutex:l.mx:Unlock"] ∧
    skeletonOf "List.PushNode" = ["mutex:l.mx:Lock", "mutex:l.mx:Unlock"] := by decide
theorem manager_lock_skeletons :
    skeletonOf "Manager.GetRoundRobinItem" = ["mutex:m.mx:Lock", "mutex:m.mx:Unlock"] ∧ skeletonOf "Manager.Len" = ["mutex:m.mx:RLock", "mutex:m.mx:RUnlock"] ∧
    skeletonOf "Manager.Register" = ["mutex:m.mx:Lock", "mutex:m.mx:Unlock"] := by decide

/-- the wait condition reads Len() before curProcessing on a running worker (the dispatcher reserves before it dequeues) -/
theorem wuf_condition_calls : callsOf "worker.WaitUntilFinished$1" = ["Load", "Len", "Load", "Load"] := by decide

/-- the batch stream has one slot per item (NewResponse makes a channel of exactly the requested capacity), so a
    worker never blocks in Response.Send -/
theorem response_capacity_calls : callsOf "NewResponse" = ["make"] ∧ guardsOf "NewResponse" = [] := by decide

/-- binding a queue to a worker that has been started before starts no new run but wakes the event loop: the queue
    may already hold entries (persistent / distributed adapters) -/
theorem start_calls : callsOf "worker.start" = ["Lock", "Unlock", "startRun", "notifyToPullNextJobs"] ∧
    guardsOf "worker.start" = ["if:err!=nil"] := by decide

/-- binding a distributed queue: the deferred calls run last-in-first-out, so the queue is registered
    before the run starts (whose first notification makes the event loop look at the registered queues)
    and the subscription to the adapter's announcements comes last -/
theorem distributed_bind_calls :
    callsOf "workerBinder.WithDistributedQueue" = ["Subscribe", "start", "Register", "NewDistributedQueue"] ∧
    callsOf "workerBinder.WithDistributedPriorityQueue" = ["Subscribe", "start", "Register", "NewDistributedPriorityQueue"] := by decide

/-- local variables shared between goroutines through function literals: the worker function's outcome (`err`) lives
    in the per-job closure (`…$1`, one instance per invocation) and is only assigned by the closure nested in it; `w` is
    assigned once by the constructor before the worker exists for anybody else. A variable hoisted out of the per-job
    closure (one instance for all invocations) changes this list. -/
theorem shared_vars : Generated.sharedVars =
    ["err NewErrWorker$1 NewErrWorker$2", "err NewResultWorker$1 NewResultWorker$2", "err WithSafe WithSafe$1",
     "w NewErrWorker NewErrWorker", "w NewResultWorker NewResultWorker", "w NewWorker NewWorker"] := by decide

-- ---------------------------------------------------------------- C19: what the race check has to know about
/-- every kind of synchronisation operation in the code is one the happens-before mapping of the
    driver (`RaceMap.events`) gives a meaning to; a new primitive (sync.Once, sync.Map, atomic.Value …)
    fails this theorem instead of being silently treated as "orders everything" -/
def knownSyncKinds : List String := [
  "atomic:Add", "atomic:CompareAndSwap", "atomic:Load", "atomic:Store", "atomic:Swap",
  "chan:close", "chan:make", "chan:range", "chan:recv", "chan:select", "chan:send", "chan:trysend",
  "cond:Broadcast", "cond:Signal", "cond:Wait", "ctx:cancel", "go:go",
  "mutex:Lock", "mutex:RLock", "mutex:RUnlock", "mutex:TryLock", "mutex:TryRLock", "mutex:Unlock",
  "pool:Get", "pool:Put", "time:NewTicker", "time:Stop", "wg:Add", "wg:Done", "wg:Wait"]
theorem sync_kinds_known : Generated.syncKinds.all (fun k => knownSyncKinds.contains k) = true := by decide

/-- the instrumentation found plain accesses to wrap (a translator that silently stops wrapping would
    make the race check vacuous) -/
theorem mem_sites_present : 300 ≤ Generated.memSites := by decide

/-- the result slot of a Response is written and read under its mutex -/
theorem response_lock_skeleton :
    skeletonOf "Response.Send" = ["mutex:c.mx:Lock", "mutex:c.mx:Unlock", "chan:c.ch:send"] ∧
    skeletonOf "Response.Response" = ["chan:c.ch:recv", "mutex:c.mx:Lock", "mutex:c.mx:Unlock"] := by decide

end VarmqVerif.Tie
