import VarmqVerif.Spec.Props
import VarmqVerif.Model.Manager
/-
  Predicates that use reference machines: dispatch order (C04, C15: the `Manager` model and the
  per-queue order specs), the lifecycle machine (C14), pool/goroutine census (C18), batch streams
  (C08), outcomes (C07).
-/
namespace VarmqVerif
namespace Spec

-- ===================================================================== reference dispatch order
/-- pending content of one queue: (payload, priority, acceptance index) in acceptance order -/
abbrev QItems := List (Nat × Int × Nat)

def isPrioKind (k : String) : Bool := k == "prio" || k == "persprio" || k == "distprio"

/-- next item of a queue according to its kind: FIFO, or smallest priority then FIFO -/
def qNext (kind : String) (items : QItems) : Option (Nat × Int × Nat) :=
  if isPrioKind kind then
    items.foldl (fun best it => match best with
      | none => some it
      | some b => if it.2.1 < b.2.1 then some it else some b) none
  else items.head?

def qRemove (items : QItems) (k : Nat) : QItems := items.filter (·.1 != k)

/-- predicted dispatch sequence: repeatedly ask the Manager model which queue is next -/
def predict (strategy : Nat) (kinds : List String) : Nat → List QItems → Nat → List Nat
  | 0, _, _ => []
  | fuel + 1, qs, rr =>
    let lens : List Int := qs.map (fun q => (q.length : Int))
    match Manager.next strategy lens rr with
    | (.ok i, rr') =>
      match qNext (kinds.getD i "fifo") (qs.getD i []) with
      | some it => it.1 :: predict strategy kinds fuel (qs.set i (qRemove (qs.getD i []) it.1)) rr'
      | none => []
    | (.error _, _) => []

namespace C04
/-- dispatch order. For programs tagged "ordered" (paused worker, one producer, every submission
    accepted before Resume): the m-th job to start sits at position < m + (limit − 1) of the
    predicted order; with limit 1 the execution order is exactly the predicted order. -/
def checkOrdered (p : Params) (tr : List Obs) (_ : EndInfo) : List Viol :=
  if p.tag != "ordered" then [] else
  let nq := max p.queues.length 1
  -- accepted submissions in acceptance order
  let (qs, _) := tr.foldl (fun (acc : List QItems × Nat) o => match o with
    | .call _ _ (.add q k prio) => (acc.1.set q ((acc.1.getD q []) ++ [(k, prio, acc.2)]), acc.2 + 1)
    | .call _ _ (.addAll q _ ks prios) =>
      -- a batch is submitted in slice order
      (ks.zipIdx.foldl (fun (a : List QItems × Nat) (k, i) =>
        (a.1.set q ((a.1.getD q []) ++ [(k, prios.getD i 0, a.2)]), a.2 + 1)) acc)
    | _ => acc) (List.replicate nq [], 0)
  let rejected := tr.filterMap (fun o => match o with | .ret _ _ _ (.add k false) => some k | _ => none)
  let qs := qs.map (fun q => q.filter (fun it => !rejected.contains it.1))
  let total := qs.foldl (fun n q => n + q.length) 0
  let pred := predict p.strategy p.queues (total + 1) qs 0
  let entered := tr.filterMap (fun o => match o with | .enter _ k _ => some k | _ => none)
  let slack := p.conc - 1
  let (_, vs) := entered.foldl (fun (acc : Nat × List Viol) k =>
    let m := acc.1
    match pred.findIdx? (· == k) with
    | some pos => (m + 1, if pos > m + slack then acc.2 ++ [s!"job {k} started as number {m + 1} but is number {pos + 1} in the dispatch order {pred} (limit {p.conc})"] else acc.2)
    | none => (m + 1, acc.2 ++ [s!"job {k} started but is not in the predicted order {pred}"])) (0, [])
  vs

/-- submissions of one thread to the only queue of a worker with limit 1 start in submission order when
    their priorities are equal (any interleaving with the dispatcher, no "ordered" program needed):
    X is accepted before Y is even submitted, so X sits in front of Y for as long as both are pending -/
def sameThreadOrder (p : Params) (tr : List Obs) : List Viol :=
  if p.conc != 1 || p.queues.length > 1 || p.tag == "ordered" then [] else
  if tr.any (fun o => match o with | .call _ _ (.tune _) => true | .call _ _ (.addAll ..) => true | _ => false) then [] else
  -- the harness binds the program's queues itself (one bind call each); a further bind adds a queue
  if (tr.filter (fun o => match o with | .call _ _ .bind => true | _ => false)).length > max p.queues.length 1 then [] else
  let isPrio := (p.queues.head?.getD "").endsWith "prio"
  -- (job, thread, call position, return position, priority), accepted submissions only
  let (subs, _) := tr.foldl (fun (acc : List (Nat × Nat × Nat × Nat × Int) × Nat) o =>
    let i := acc.2
    match o with
    | .call g _ (.add _ k prio) => ((k, g, i, 0, if isPrio then prio else 0) :: acc.1, i + 1)
    | .ret _ _ _ (.add k true) => (acc.1.map (fun e => if e.1 == k then (e.1, e.2.1, e.2.2.1, i, e.2.2.2.2) else e), i + 1)
    | _ => (acc.1, i + 1)) ([], 0)
  let subs := subs.filter (fun e => e.2.2.2.1 > 0)
  let (starts, _) := tr.foldl (fun (acc : List (Nat × Nat) × Nat) o => match o with
    | .enter _ k _ => ((k, acc.2) :: acc.1, acc.2 + 1)
    | _ => (acc.1, acc.2 + 1)) ([], 0)
  let startOf := fun (k : Nat) => (starts.find? (·.1 == k)).map (·.2)
  subs.foldl (fun vs x =>
    subs.foldl (fun vs y =>
      -- same thread, equal priority, x accepted before y was submitted, both started, y first
      if x.2.1 == y.2.1 && x.2.2.2.2 == y.2.2.2.2 && x.2.2.2.1 < y.2.2.1 then
        match startOf x.1, startOf y.1 with
        | some sx, some sy => if sy < sx then vs ++ [s!"job {y.1} started before job {x.1} although {x.1} was accepted before {y.1} was submitted by the same thread with the same priority (limit 1, one queue)"] else vs
        | _, _ => vs
      else vs) vs) []

/-- "the set of started jobs is always a prefix of that order", at a moment of rest (`rest`: nothing but the observing
    client can run; programs with a slowly acknowledging backend): a goroutine that was handed a job is runnable until it
    starts it, so at rest every item handed out has started. An item that has not, while one handed out after it has, was
    overtaken and stays overtaken for as long as the rest lasts: the started set is not a prefix. (Without a later started
    item it is C03's at-rest clause that reports the waiting job.) -/
def restPrefix (p : Params) (tr : List Obs) : List Viol :=
  (foldCheck ({} : C03.St) (fun s b o b' =>
    let (s', _) := C03.onEvent p s b o b'
    match o with
    | .rest =>
      if !p.ackHold then (s', []) else
      let order := s.delivered.reverse
      let bad := order.zipIdx.filter (fun (k, i) => (b.job k).entered == 0 && (order.drop (i + 1)).any (fun k' => (b.job k').entered > 0))
      (s', if bad.isEmpty then [] else
        [s!"at rest, items {bad.map (·.1)} of the hand-out order {order} have not started although items handed out after them have: the started jobs are not a prefix of the hand-out order"])
    | _ => (s', [])) tr).2.2

def check (p : Params) (tr : List Obs) (e : EndInfo) : List Viol :=
  checkOrdered p tr e ++ sameThreadOrder p tr ++ restPrefix p tr

/-- the jobs of the predicted order that never started -/
def neverStarted (p : Params) (tr : List Obs) : List Nat × List Nat :=
  let nq := max p.queues.length 1
  let (qs, _) := tr.foldl (fun (acc : List QItems × Nat) o => match o with
    | .call _ _ (.add q k prio) => (acc.1.set q ((acc.1.getD q []) ++ [(k, prio, acc.2)]), acc.2 + 1)
    | .call _ _ (.addAll q _ ks prios) =>
      -- a batch is submitted in slice order
      (ks.zipIdx.foldl (fun (a : List QItems × Nat) (k, i) =>
        (a.1.set q ((a.1.getD q []) ++ [(k, prios.getD i 0, a.2)]), a.2 + 1)) acc)
    | _ => acc) (List.replicate nq [], 0)
  let rejected := tr.filterMap (fun o => match o with | .ret _ _ _ (.add k false) => some k | _ => none)
  let qs := qs.map (fun q => q.filter (fun it => !rejected.contains it.1))
  let total := qs.foldl (fun n q => n + q.length) 0
  let pred := predict p.strategy p.queues (total + 1) qs 0
  let entered := tr.filterMap (fun o => match o with | .enter _ k _ => some k | _ => none)
  (pred, pred.filter (fun k => !entered.contains k))
end C04

namespace C15
/-- C04's order predicate on several queues, plus starvation: in an "ordered" program (paused worker
    loaded by one producer, then Resume and WaitUntilFinished) every accepted job of every bound queue
    is dispatched; the execution may neither come to rest nor spin with a job left in a queue. -/
def check (p : Params) (tr : List Obs) (e : EndInfo) : List Viol :=
  C04.check p tr e ++
  (if p.tag != "ordered" || e.crashed then [] else
   let resumed := tr.any (fun o => match o with | .ret _ _ .resume _ => true | _ => false)
   let (pred, missing) := C04.neverStarted p tr
   if resumed && !missing.isEmpty then
     [s!"job(s) {missing} of the dispatch order {pred} are never dispatched although their queue is non-empty and the worker is running (strategy {p.strategy}, " ++
      (if e.quiescent then "execution at rest" else "event loop spins without dispatching") ++ ")"]
   else [])
end C15

-- ===================================================================== C14 lifecycle machine
namespace Life
/-- reference lifecycle machine (DESIGN.md §8 C14): status × call → (error, status) -/
def step (st : WStatus) (concNow : Nat) : Call → Option (Err × WStatus)
  | .bind => some (.none, if st == .initiated then .running else st)
  | .pause | .pauseAndWait =>
    some (match st with
      | .initiated => (.notRunningWorker, st) | .running => (.none, .paused) | _ => (.none, st))
  | .resume =>
    some (match st with
      | .initiated => (.none, .running) | .running => (.runningWorker, st)
      | .paused => (.none, .running) | .stopped => (.notRunningWorker, st))
  | .stop | .waitAndStop =>
    some (match st with
      | .initiated => (.notRunningWorker, st) | .stopped => (.none, st) | _ => (.none, .stopped))
  | .restart => some (.none, .running)
  | .tune n =>
    some (if st != .running then (.notRunningWorker, st)
          else if C02.limOf 16 n == concNow then (.sameConcurrency, st) else (.none, st))
  | _ => none
end Life

namespace C14
structure St where
  st : WStatus := .initiated
  conc : Nat := 1
  ctxCancelled : Bool := false
  deriving Repr

/-- with a cancelled context a running/paused worker may already have been stopped by the listener,
    or be observed in the middle of that stop (which passes through Paused) -/
def agree (s : St) (ref : WStatus) (obs : Option WStatus) : Bool :=
  obs.isNone || obs == some ref || (s.ctxCancelled && (ref == .running || ref == .paused) && (obs == some .stopped || obs == some .paused))

def onEvent (s : St) (_ : Book) (o : Obs) (_ : Book) : St × List Viol :=
  match o with
  | .call _ _ .cancelCtx => ({ s with ctxCancelled := true }, [])
  | .ret _ _ c r =>
    match Life.step s.st s.conc c with
    | none =>
      match r with
      | .status obs ru pa sto =>
        let v := if agree s s.st obs then [] else [s!"Status() reports {repr obs} where the lifecycle machine is in {repr s.st}"]
        let v2 := if obs.isSome && !s.ctxCancelled && (ru != (obs == some .running) || pa != (obs == some .paused) || sto != (obs == some .stopped)) then ["IsRunning/IsPaused/IsStopped disagree with Status()"] else []
        let s := if obs == some .stopped && s.ctxCancelled then { s with st := .stopped } else s
        (s, v ++ v2)
      | _ => (s, [])
    | some (e, st') =>
      let (eObs, stObs) : Err × Option WStatus := match r with
        | .life e st => (e, st)
        | .bind _ st => (.none, st)
        | .tune e _ => (e, none)            -- TunePool reports no status
        | _ => (e, some st')
      -- a listener of a cancelled context may have stopped the worker before the call
      let alt := if s.ctxCancelled && (s.st == .running || s.st == .paused) then Life.step .stopped s.conc c else none
      let okMain := eObs == e && agree s st' stObs
      let okAlt := match alt with | some (e2, st2) => eObs == e2 && agree s st2 stObs | none => false
      -- when only the alternative matched, the worker is somewhere on its way to Stopped (listener of a
      -- cancelled context): keep the reference until Stopped is actually observed
      let s' := if okMain then { s with st := st' } else if okAlt then s else { s with st := st' }
      let s' := match c, r with | .tune n, .tune .none _ => { s' with conc := C02.limOf 16 n } | _, _ => s'
      let s' := if stObs == some .stopped && s.ctxCancelled then { s' with st := .stopped } else s'
      (s', if okMain || okAlt then [] else [s!"{repr c} in state {repr s.st} returned ({repr eObs}, {repr stObs}); the lifecycle machine gives ({repr e}, {repr st'})"])
  | _ => (s, [])

def atEnd (p : Params) (s : St) (b : Book) (fin : Option Final) (e : EndInfo) : List Viol :=
  if !e.quiescent || e.crashed || b.crashed then [] else
  match fin with
  | some f =>
    let ref : WStatus := if s.ctxCancelled && (s.st == .running || s.st == .paused) then .stopped else s.st
    (if f.status != some ref then [s!"at rest the worker reports {repr f.status}; the lifecycle machine ends in {repr ref}"] else [])
    ++ (if f.status == some .running && !p.gate then
          (b.jobs.filter (fun (_, j) => accepted j && !mayBeGone j && j.entered == 0)).map (fun (k, _) => s!"worker reports Running but job {k} is never processed")
        else [])
  | none => []

def check (p : Params) (tr : List Obs) (e : EndInfo) : List Viol :=
  if p.tag != "seq" then [] else
  let (s, b, vs) := foldCheck ({ conc := p.conc } : St) onEvent tr
  vs ++ atEnd p s b (finalOf tr) e
end C14

-- ===================================================================== C18 pool / goroutines
namespace C18
structure St where
  maxLim : Nat := 1
  deriving Repr

def onEvent (s : St) (b : Book) (o : Obs) (_ : Book) : St × List Viol :=
  match o with
  | .call _ _ (.tune n) => ({ s with maxLim := max s.maxLim (C02.limOf 16 n) }, [])
  | .ret _ _ _ (.counts c) =>
    (s, if c.idle + b.inflight > s.maxLim + 1 then [s!"{c.idle} idle + {b.inflight} busy worker goroutines with largest limit {s.maxLim}"] else [])
  | _ => (s, [])

def atEnd (p : Params) (s : St) (b : Book) (fin : Option Final) (e : EndInfo) (tr : List Obs := []) : List Viol :=
  if !e.quiescent || e.crashed || b.crashed then [] else
  match fin with
  | some f =>
    let busy := b.inflight
    let expected : Nat := 1 + f.counts.idle.toNat + busy + (if p.expiry then 1 else 0) + (if p.ctx then 1 else 0)
    match f.status with
    | some .running =>
      (if f.counts.idle < 1 && busy < f.counts.conc.toNat then [s!"running and quiescent with {f.counts.idle} idle workers"] else [])
      ++ (if f.counts.idle.toNat + busy > max s.maxLim 1 then [s!"{f.counts.idle} idle + {busy} busy worker goroutines exceed the largest limit {s.maxLim}"] else [])
      ++ (if f.liveLib > expected then [s!"{f.liveLib} library goroutines alive while running, expected at most {expected} (leak)"] else [])
      ++ (let ticksAtRest := (tr.reverse.takeWhile (fun o => match o with | .exit .. => false | .enter .. => false | .tick => false | .ret .. => false | .call .. => false | _ => true)).filter (fun o => match o with | .qtick => true | _ => false) |>.length
          let target := max (f.counts.conc.toNat * (min p.minIdle 100) / 100) 1
          -- ticks that fire while nobody can run: time passes at rest. Two of them after the last use make every
          -- idle worker beyond the minimum expired, and the pass of the third retires it
          if p.expiry && ticksAtRest ≥ 3 && f.counts.idle.toNat > target then
            [s!"{f.counts.idle} idle workers after {ticksAtRest} expiry ticks at rest; the minimum for limit {f.counts.conc} and ratio {p.minIdle}% is {target}: idle workers beyond the minimum are not retired"]
          else [])
      ++ (if f.liveLib < expected then [s!"{f.liveLib} library goroutines alive while running with {f.counts.idle} idle and {busy} busy workers, expected {expected}: a worker in the pool has no goroutine"] else [])
    | some .paused =>
      (if f.liveLib > expected then [s!"{f.liveLib} library goroutines alive while paused, expected at most {expected} (leak)"] else [])
    | some .stopped =>
      (if f.liveLib > 0 && busy == 0 then [s!"{f.liveLib} library goroutine(s) still alive after Stop"] else [])
    | _ => []
  | none => []

def check (p : Params) (tr : List Obs) (e : EndInfo) : List Viol :=
  let (s, b, vs) := foldCheck ({ maxLim := p.conc } : St) onEvent tr
  vs ++ atEnd p s b (finalOf tr) e tr
  -- retiring idle workers (and TunePool) must not lose or strand a job: with an idle expiry
  -- configured, C01's "every accepted job is started" is part of this property
  ++ (if p.expiry then (C01.check p tr e).map (fun v => "with idle-worker expiry: " ++ v) else [])
end C18

-- ===================================================================== C08 batches
namespace C08
structure St where
  batches : List (Nat × List Nat) := []     -- b ↦ items
  deriving Repr

def onEvent (p : Params) (s : St) (b : Book) (o : Obs) (_ : Book) : St × List Viol :=
  match o with
  | .call _ _ (.addAll _ bid ks _) => ({ s with batches := (bid, ks) :: s.batches }, [])
  | .ret _ _ _ (.gpending bid n) =>
    let ks := lookupD [] s.batches bid
    let unfinished := (ks.filter (fun k => (b.job k).exited == 0)).length
    (s, (if n < 0 || n > ks.length then [s!"batch {bid} NumPending={n} out of range 0..{ks.length}"] else [])
        -- an item counts as pending until its runner has closed it, which happens after the worker function returned
        ++ (if n > unfinished + p.conc then [s!"batch {bid} NumPending={n} but only {unfinished} items have not finished (limit {p.conc})"] else [])
        ++ (let waiting := (ks.filter (fun k => let j := b.job k; j.entered == 0 && !mayBeGone j)).length
            if n < waiting then [s!"batch {bid} NumPending={n} but {waiting} items have not even started"] else []))
  | .ret _ _ _ (.gwait bid n) =>
    let ks := lookupD [] s.batches bid
    let bad := ks.filter (fun k => let j := b.job k; j.entered > j.exited || (j.exited == 0 && !mayBeGone j))
    (s, (if bad.isEmpty then [] else [s!"batch {bid} Wait returned while items {bad} had not finished"])
        ++ (if n != 0 then [s!"batch {bid} NumPending={n} right after its Wait returned"] else []))
  | .ret _ _ _ (.gcollect bid items) =>
    let ks := lookupD [] s.batches bid
    let executed := ks.filter (fun k => (b.job k).exited ≥ 1)
    let oc := fun k => p.outcomes.getD k 0
    let expect := if p.kind == "result" then executed else executed.filter (fun k => oc k != 0)
    let v1 := if items.length != expect.length then [s!"batch {bid} stream delivered {items.length} items, expected one per executed item = {expect.length}"] else []
    let unnamed := fun (k : Nat) => p.noIdBatch && k % 3 == 1
    let gens := items.filter (fun it => it.id.startsWith "g:gen")
    let v3 := if p.kind != "result" then []   -- only result streams carry job ids
              else if (expect.filter unnamed).length != gens.length then [s!"batch {bid}: {(expect.filter unnamed).length} executed items had no ID of their own but {gens.length} stream entries carry a generated ID"]
              else if (gens.map (·.id)).eraseDups.length != gens.length then [s!"batch {bid}: two stream entries carry the same generated ID"] else []
    let expect := expect.filter (fun k => !unnamed k)
    let v2 := if p.kind == "result" then
        expect.foldl (fun vs k =>
          let id := s!"g:id{k}"
          match items.filter (·.id == id) with
          | [it] => if oc k == 0 && (it.val != (k * 10 + 7 : Nat) || it.err != "nil") then vs ++ [s!"batch item {k}: stream carries ({it.val}, {it.err})"]
                    else if oc k != 0 && it.err == "nil" then vs ++ [s!"batch item {k} failed but its stream entry has no error"] else vs
          | l => vs ++ [s!"batch {bid}: {l.length} stream entries tagged {id}"]) []
      else []
    (s, v1 ++ v2 ++ v3)
  | .crash m => (s, [s!"process crashed: {m}"])
  | _ => (s, [])

def atEnd (p : Params) (s : St) (b : Book) (fin : Option Final) (e : EndInfo) : List Viol :=
  if !e.quiescent || e.crashed || b.crashed then [] else
  -- a running worker at rest with no worker function executing finishes nothing more (C05.atEnd):
  -- every item of every batch has then been executed, rejected, cancelled or purged
  let drained : Bool := match fin with
    | some f => f.status == some .running && b.inflight == 0 && !p.gate
    | none => false
  b.openCalls.foldl (fun vs c => match c.2 with
    | .gcollect bid =>
      let ks := lookupD [] s.batches bid
      if ks.all (fun k => (b.job k).exited ≥ 1 || (b.job k).maybeRejected || (b.job k).closedNil) then vs ++ [s!"batch {bid}: every item has finished but the stream was never closed"]
      else if drained then vs ++ [s!"batch {bid}: the worker is running and at rest, no item can still finish, but the stream was never closed"] else vs
    | .gwait bid =>
      let ks := lookupD [] s.batches bid
      if ks.all (fun k => (b.job k).exited ≥ 1) then vs ++ [s!"batch {bid}: every item has finished but Wait never returned"]
      else if drained then vs ++ [s!"batch {bid}: the worker is running and at rest, no item can still finish, but Wait never returned (NumPending never reached 0)"] else vs
    | _ => vs) []

def check (p : Params) (tr : List Obs) (e : EndInfo) : List Viol :=
  let (s, b, vs) := foldCheck ({} : St) (onEvent p) tr
  vs ++ atEnd p s b (finalOf tr) e ++ (if e.crashed then ["process crashed"] else [])
end C08

-- ===================================================================== C09 (pending jobs survive and are processed after Resume/Restart)
namespace C09b
def check (p : Params) (tr : List Obs) (e : EndInfo) : List Viol :=
  if !tr.any (fun o => match o with | .ret _ _ c (.life .none _) => isResumer c | _ => false) then [] else
  ((C01.check p tr e).filter (fun v => (v.splitOn "never started").length > 1)).map
    (fun v => "after Resume/Restart the pending jobs must be processed: " ++ v)
end C09b

-- ===================================================================== C10 (batch part)
namespace C10b
/-- a batch submitted to a queue whose Close() has returned is rejected as a whole: every item is
    cancelled, so the batch's Wait returns and its stream is closed (no side effect, no waiter left) -/
def check (p : Params) (tr : List Obs) (e : EndInfo) : List Viol :=
  let (s, b, _) := foldCheck ({} : C08.St) (C08.onEvent p) tr
  if !e.quiescent || e.crashed || b.crashed then [] else
  b.openCalls.foldl (fun vs c => match c.2 with
    | .gwait bid =>
      let ks := lookupD [] s.batches bid
      if !ks.isEmpty && ks.all (fun k => (b.job k).rejected) then vs ++ [s!"batch {bid} was submitted after Close() of its queue had returned, but Wait on it never returns (a rejected submission left a waiter behind)"] else vs
    | .gcollect bid =>
      let ks := lookupD [] s.batches bid
      if !ks.isEmpty && ks.all (fun k => (b.job k).rejected) then vs ++ [s!"batch {bid} was submitted after Close() of its queue had returned, but its stream is never closed"] else vs
    | _ => vs) []
end C10b

-- ===================================================================== C07 outcomes
namespace C07
def expectErr (oc k : Nat) (e : String) : Bool :=
  match oc with
  | 0 => e == "nil"
  | 1 => e == s!"err:fail-{k}"
  | _ => e != "nil" && (e.splitOn "panic").length > 1     -- "panic recovered inside …: <value>" whatever the type of the panic value

def onEvent (p : Params) (_ : Unit) (b : Book) (o : Obs) (_ : Book) : Unit × List Viol :=
  match o with
  | .ret _ _ _ (.jresult k v e) =>
    let j := b.job k
    if j.exited == 0 || p.kind == "plain" then ((), []) else
    let oc := p.outcomes.getD k 0
    ((), (if !expectErr oc k e then [s!"Result/Err of job {k} (outcome {oc}) returned error {e}"] else [])
      ++ (if p.kind == "result" && oc == 0 && v != (k * 10 + 7 : Nat) then [s!"Result of job {k} returned {v}, its worker function returned {k * 10 + 7}"] else []))
  | .enter _ k id =>
    -- single jobs: the given id or one of the generator; batch items: "g:" + that
    ((), if id != s!"id{k}" && !(id.startsWith "gen") && id != s!"g:id{k}" && !(p.noIdBatch && k % 3 == 1 && id.startsWith "g:gen")
         then [s!"job {k} reached the worker function with id {id}"] else [])
  | .ret _ _ _ (.gcollect bid items) =>
    -- a Result of a batch carries the ID its job ran with: the worker function saw "g:" + the item's (or a generated) ID
    let bad := if p.kind == "result" then items.filter (fun it => !(it.id.startsWith "g:")) else []
    ((), if bad.isEmpty then [] else [s!"batch {bid}: stream entries carry the IDs {bad.map (·.id)}, which no worker function ran with (every batch job's ID starts with g:)"])
  | .crash m => ((), [s!"process crashed: {m}"])
  | _ => ((), [])

def atEnd (p : Params) (tr : List Obs) (b : Book) (e : EndInfo) : List Viol :=
  if !e.quiescent || e.crashed || b.crashed then [] else
  match finalOf tr with
  | some f =>
    let exited := tr.filterMap (fun o => match o with | .exit _ k oc => some (k, oc) | _ => none)
    let failed := (exited.filter (fun (_, oc) => oc == 2 || (oc == 1 && p.kind != "plain"))).length
    let offers := (tr.filter (fun o => match o with | .errOffer _ => true | _ => false)).length
    (if f.counts.failed != failed && !p.gate then [s!"Failed={f.counts.failed} but {failed} invocations failed or panicked"] else [])
    -- the offer on Errs() is a non-blocking send on a 1-slot channel: later offers may find it full, the first one cannot
    ++ (if p.errs && failed ≥ 1 && offers == 0 then [s!"{failed} invocation(s) failed or panicked but nothing was ever offered on Errs() (a reader was waiting, the channel was empty)"] else [])
  | none => []

def check (p : Params) (tr : List Obs) (e : EndInfo) : List Viol :=
  let (_, b, vs) := foldCheck () (onEvent p) tr
  vs ++ atEnd p tr b e
end C07

def allChecks2 : List (String × (Params → List Obs → EndInfo → List Viol)) :=
  allChecks ++ [("C04", C04.check), ("C15", C15.check), ("C14", C14.check), ("C18", C18.check), ("C08", C08.check), ("C10", C10b.check), ("C09", C09b.check), ("C07", C07.check)]

end Spec
end VarmqVerif
