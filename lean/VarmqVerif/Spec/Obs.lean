/-
  Observable events (DESIGN.md §2.2/§2.3): what a client of goptics/varmq can see of one execution.
  The property predicates of `Spec/Props.lean` read ONLY these, so that they can be evaluated on an
  implementation trace whether or not any model accepts that trace, and the theorems of `Props/*`
  are statements `model execution → predicate`.

  Jobs are identified by their payload number `k` (unique per program), batches by `b`, queues by
  their bind index `q`. Worker status / job status / error values are small enumerations.
-/
namespace VarmqVerif

/-- worker.go `status` iota order -/
inductive WStatus | initiated | running | paused | stopped
  deriving DecidableEq, Repr, Inhabited

/-- job.go `status` iota order -/
inductive JStatus | created | queued | processing | finished | closed
  deriving DecidableEq, Repr, Inhabited

def JStatus.toNat : JStatus → Nat
  | .created => 0 | .queued => 1 | .processing => 2 | .finished => 3 | .closed => 4

/-- error results that the API distinguishes -/
inductive Err | none | runningWorker | notRunningWorker | sameConcurrency | jobProcessing
  | jobAlreadyClosed | acknowledge | other
  deriving DecidableEq, Repr, Inhabited

inductive Call where
  | add (q k : Nat) (prio : Int)
  | addAll (q b : Nat) (ks : List Nat) (prios : List Int)
  | jclose (k : Nat) | jwait (k : Nat) | jstatus (k : Nat) | jresult (k : Nat) | jdrain (k : Nat)
  | gwait (b : Nat) | gpending (b : Nat) | gcollect (b : Nat)
  | purge (q : Nat) | qclose (q : Nat) | qpending (q : Nat)
  | pause | pauseAndWait | resume | stop | waitAndStop | restart
  | tune (n : Int) | wuf | bind | status | counts | cancelCtx
  | other
  deriving DecidableEq, Repr, Inhabited

structure Counts where
  pending : Int
  processing : Int
  conc : Int
  idle : Int
  submitted : Int
  completed : Int
  successful : Int
  failed : Int
  deriving DecidableEq, Repr, Inhabited

/-- one item read from a batch stream: (job id string, value, error kind) -/
structure StreamItem where
  id : String
  val : Int
  err : String
  deriving DecidableEq, Repr, Inhabited

inductive Ret where
  | add (k : Nat) (ok : Bool)
  | addAll (b : Nat)
  | jclose (k : Nat) (e : Err)
  | jwait (k : Nat) (st : Option JStatus)
  | jstatus (k : Nat) (st : Option JStatus)
  | jresult (k : Nat) (v : Int) (e : String)
  | gwait (b : Nat) (pending : Int)
  | gpending (b : Nat) (pending : Int)
  | gcollect (b : Nat) (items : List StreamItem)
  | qpending (q : Nat) (n : Int)
  | life (e : Err) (st : Option WStatus)      -- pause/pauseAndWait/resume/stop/waitAndStop/restart
  | tune (e : Err) (conc : Int)
  | bind (q : Nat) (st : Option WStatus)
  | status (st : Option WStatus) (running paused stopped : Bool)
  | counts (c : Counts)
  | unit
  deriving DecidableEq, Repr, Inhabited

structure Final where
  status : Option WStatus
  counts : Counts
  stuck : Nat          -- client threads that did not finish
  liveLib : Nat        -- library goroutines still alive
  deriving DecidableEq, Repr, Inhabited

inductive Obs where
  | call (g cid : Nat) (c : Call)
  | ret (g cid : Nat) (c : Call) (r : Ret)
  | enter (g k : Nat) (id : String)
  | exit (g k : Nat) (oc : Nat)          -- oc: 0 ok, 1 error, 2 panic
  | release (k : Nat)                    -- the harness opened the gate of job k (all: k = 0, all = true)
  | releaseAll
  | errOffer (msg : String)              -- an error read from Errs()
  | fin (f : Final)
  | fqueue (q : Nat) (n : Int)
  | crash (msg : String)
  | tick
  | qtick                                        -- a tick that fired while no goroutine could run (time passing at rest)
  | rest                                         -- the harness observed that no other goroutine can run at this moment
  | adapter (g a : Nat) (op : String) (arg : String) (res : List String)   -- one call of the recording adapter
  | recover                                      -- the process died; what follows is a fresh process on the same adapters
  | fadapter (a : Nat) (pending unacked acked : List String)
  | fconsumer (c : Nat) (submitted completed : Int)
  | fjob (k : Nat) (st : Option JStatus)          -- status of job k's handle at rest
  | enterAt (c k : Nat)                          -- worker function of consumer c entered for payload k
  deriving DecidableEq, Repr, Inhabited

/-- Program parameters the predicates need (parsed from the `P` line). -/
structure Params where
  conc : Nat := 1
  kind : String := "plain"
  gate : Bool := false
  expiry : Bool := false
  errs : Bool := false            -- a goroutine of the harness keeps reading Errs()
  ackHold : Bool := false         -- the adapter's Acknowledge blocks until the harness opens it (a slow backend)
  noIdBatch : Bool := false       -- batch items k with k % 3 = 1 were submitted without an ID (named by the generator)
  ctx : Bool := false
  nqueues : Nat := 1
  outcomes : List Nat := []
  queues : List String := []     -- kinds of the queues bound in setup, in order
  strategy : Nat := 0            -- 0 round robin, 1 max len, 2 min len
  tag : String := ""             -- what the generator promises: "seq" (one client thread), "ordered" (all adds precede resume)
  minIdle : Nat := 0
  deriving Repr, Inhabited

structure EndInfo where
  quiescent : Bool := false
  crashed : Bool := false
  blockedClients : Nat := 0
  deriving Repr, Inhabited

end VarmqVerif
