import VarmqVerif.Spec.Obs
/-
  Executable property predicates over observable traces (DESIGN.md §2.3, §8). Each `Cxx.check`
  folds a small state over the trace and returns the list of violations found (empty = ok).
  They are deliberately *conservative*: whenever the observable trace does not determine whether
  the property's premise holds (e.g. a job that may or may not have been removed by a concurrent
  Purge), the predicate does not complain. The tight statements are the theorems about the
  models; these predicates are what is evaluated on implementation executions.
-/
namespace VarmqVerif
namespace Spec

abbrev Viol := String

/-- association list helpers (jobs are few per execution) -/
def lookupD {β} (d : β) (m : List (Nat × β)) (k : Nat) : β :=
  match m.find? (·.1 == k) with
  | some (_, v) => v
  | none => d

def upsert {β} (m : List (Nat × β)) (k : Nat) (v : β) : List (Nat × β) :=
  (k, v) :: m.filter (·.1 != k)

def isBarrier : Call → Bool
  | .pauseAndWait | .stop | .waitAndStop => true
  | _ => false

def isResumer : Call → Bool
  | .resume | .restart | .bind => true
  | _ => false

def isLifecycle : Call → Bool
  | .pause | .pauseAndWait | .resume | .stop | .waitAndStop | .restart | .bind | .cancelCtx | .tune _ => true
  | _ => false

/-- Per-job facts accumulated from the observable trace. -/
structure JobFacts where
  q : Nat := 0
  addCalled : Bool := false
  addRet : Option Bool := none     -- some true = accepted, some false = rejected
  batch : Bool := false
  entered : Nat := 0
  exited : Nat := 0
  closeCalled : Bool := false      -- some jclose call has started
  closedNil : Bool := false        -- some jclose returned nil
  cancelledBeforeStart : Bool := false -- a jclose returned nil while entered = 0
  maybePurged : Bool := false      -- a purge of its queue was in progress/after its add call began while it had not entered
  maybeRejected : Bool := false    -- batch item submitted after a Close of its queue had been called (the API does not report it)
  rejected : Bool := false         -- batch item submitted after a Close of its queue had returned: certainly rejected
  deriving Repr, Inhabited

/-- Common bookkeeping shared by several predicates. -/
structure Book where
  jobs : List (Nat × JobFacts) := []
  openCalls : List (Nat × Call) := []   -- cid ↦ call in progress
  inflight : Nat := 0
  crashed : Bool := false
  closedQueues : List Nat := []          -- queues for which a Close call has started
  closedDone : List Nat := []            -- queues for which a Close call has returned
  deriving Repr, Inhabited

def Book.job (b : Book) (k : Nat) : JobFacts := lookupD {} b.jobs k
def Book.setJob (b : Book) (k : Nat) (f : JobFacts) : Book := { b with jobs := upsert b.jobs k f }

def Book.anyOpen (b : Book) (p : Call → Bool) : Bool := b.openCalls.any (fun c => p c.2)

def Book.step (b : Book) : Obs → Book
  | .call _ cid c =>
    let b := { b with openCalls := (cid, c) :: b.openCalls }
    match c with
    | .add q k _ => b.setJob k { b.job k with q := q, addCalled := true }
    | .addAll q _ ks _ =>
      let closing := b.closedQueues.contains q
      let closedNow := b.closedDone.contains q
      ks.foldl (fun b k => b.setJob k { b.job k with q := q, addCalled := true, batch := true, addRet := some true, maybeRejected := closing, rejected := closedNow }) b
    | .qclose q =>
      -- items of an AddAll on q that is still running may be refused (the API does not report which)
      let racing := b.openCalls.foldl (fun acc c => match c.2 with | .addAll q' _ ks _ => if q' == q then acc ++ ks else acc | _ => acc) ([] : List Nat)
      let b := racing.foldl (fun b k => b.setJob k { b.job k with maybeRejected := true }) b
      { b with closedQueues := q :: b.closedQueues }
    | .jclose k => b.setJob k { b.job k with closeCalled := true }
    | .purge q =>
      { b with jobs := b.jobs.map (fun (k, f) => if f.q == q && f.addCalled && f.entered == 0 then (k, { f with maybePurged := true }) else (k, f)) }
    | _ => b
  | .ret _ cid c r =>
    let b := { b with openCalls := b.openCalls.filter (·.1 != cid) }
    let b := match c with | .qclose q => { b with closedDone := q :: b.closedDone } | _ => b
    match r with
    | .add k ok => b.setJob k { b.job k with addRet := some ok }
    | .jclose k .none =>
      let f := b.job k
      b.setJob k { f with closedNil := true, cancelledBeforeStart := f.cancelledBeforeStart || f.entered == 0 }
    | _ => b
  | .enter _ k _ =>
    let f := b.job k
    let b := b.setJob k { f with entered := f.entered + 1 }
    -- a job submitted while a purge of its queue is in progress may be removed by it
    { b with inflight := b.inflight + 1 }
  | .exit _ k _ =>
    let f := b.job k
    let b := b.setJob k { f with exited := f.exited + 1 }
    { b with inflight := b.inflight - 1 }
  | .crash _ => { b with crashed := true }
  | .adapter _ _ "preload" k [bad] =>
    -- an entry already on the adapter when the worker binds counts as an accepted submission
    if bad == "false" then b.setJob (k.toNat?.getD 0) { b.job (k.toNat?.getD 0) with addCalled := true, addRet := some true } else b
  | _ => b

/-- jobs added while a purge of the same queue is in progress may be purged too -/
def Book.markPurgeRace (b : Book) : Obs → Book
  | .call _ _ (.add q k _) =>
    if b.openCalls.any (fun c => c.2 == Call.purge q) then b.setJob k { b.job k with maybePurged := true } else b
  | .call _ _ (.addAll q _ ks _) =>
    if b.openCalls.any (fun c => c.2 == Call.purge q) then ks.foldl (fun b k => b.setJob k { b.job k with maybePurged := true }) b else b
  | _ => b

def Book.next (b : Book) (o : Obs) : Book := (b.step o).markPurgeRace o

/-- generic driver: fold a checker that sees the book *before* the event, the event, and the book after. -/
def foldCheck {σ} (init : σ) (f : σ → Book → Obs → Book → σ × List Viol) (tr : List Obs) : σ × Book × List Viol :=
  tr.foldl (fun (acc : σ × Book × List Viol) o =>
    let (s, b, vs) := acc
    let b' := b.next o
    let (s', v) := f s b o b'
    (s', b', vs ++ v)) (init, {}, [])

/-- final information of a trace -/
def finalOf (tr : List Obs) : Option Final :=
  tr.foldl (fun acc o => match o with | .fin f => some f | _ => acc) none

def accepted (f : JobFacts) : Bool := f.addRet == some true
def mayBeGone (f : JobFacts) : Bool := f.closedNil || f.closeCalled || f.maybePurged || f.maybeRejected

-- ===================================================================== C01
/-- at rest with every queue empty and nothing executing, an accepted job whose handle still reads
    Created/Queued can never run any more: it was lost -/
def droppedAtRest (tr : List Obs) (b : Book) (e : EndInfo) : List Viol :=
  if !e.quiescent || e.crashed || b.crashed then [] else
  let qsum := tr.foldl (fun n o => match o with | .fqueue _ m => n + m | _ => n) (0 : Int)
  let haveQ := tr.any (fun o => match o with | .fqueue .. => true | _ => false)
  if !haveQ || qsum != 0 || b.inflight != 0 then [] else
  tr.foldl (fun vs o => match o with
    | .fjob k (some st) =>
      if (st == .created || st == .queued) && (b.job k).addRet == some true
      then vs ++ [s!"accepted job {k} is lost: not pending, not closed, never run (status {repr st}, all queues empty)"] else vs
    | _ => vs) []

namespace C01
/-- exactly-once: never twice, never a rejected job, never a job cancelled before it started;
    at a quiescent end with a running worker every accepted, un-cancelled, un-purged job ran. -/
def onEvent (_ : Unit) (b : Book) (o : Obs) (_ : Book) : Unit × List Viol :=
  match o with
  | .enter _ k _ =>
    let f := b.job k
    ((), (if f.entered ≥ 1 then [s!"job {k} started a second time"] else [])
      ++ (if !f.addCalled then [s!"job {k} started but was never submitted"] else [])
      ++ (if f.addRet == some false then [s!"rejected job {k} started"] else [])
      ++ (if f.cancelledBeforeStart then [s!"job {k} started after Close returned nil before its start"] else []))
  | .ret _ _ _ (.add k false) =>
    ((), if (b.job k).entered ≥ 1 then [s!"job {k} reported rejected but was started"] else [])
  | _ => ((), [])

def atEnd (p : Params) (b : Book) (fin : Option Final) (e : EndInfo) : List Viol :=
  if !e.quiescent || e.crashed || b.crashed then [] else
  match fin with
  | some f =>
    if f.status == some .running && !p.gate then
      b.jobs.foldl (fun vs (k, j) =>
        if accepted j && !mayBeGone j && j.entered == 0 then vs ++ [s!"accepted job {k} never started although the worker is running and quiescent"]
        else if accepted j && j.entered ≥ 1 && j.exited < j.entered then vs ++ [s!"job {k} started but its worker function never returned at quiescence"]
        else vs) []
    else []
  | none => []

/-- whatever the worker's final state: a handle that reads Finished or Closed at rest belongs to a job that ran, or
    that its owner cancelled / purged / saw rejected — the library never completes a job it did not run -/
def closedUnrun (tr : List Obs) (b : Book) (e : EndInfo) : List Viol :=
  if !e.quiescent || e.crashed || b.crashed then [] else
  tr.foldl (fun vs o => match o with
    | .fjob k (some st) =>
      let j := b.job k
      if (st == .finished || st == .closed) && accepted j && !mayBeGone j && j.entered == 0
      then vs ++ [s!"job {k} reads {repr st} at rest although its worker function was never invoked and nobody cancelled or purged it"] else vs
    | _ => vs) []

def check (p : Params) (tr : List Obs) (e : EndInfo) : List Viol :=
  let (_, b, vs) := foldCheck () onEvent tr
  let vs := vs ++ closedUnrun tr b e
  let spin := if !e.quiescent && !e.crashed && !b.crashed then
      (b.jobs.filter (fun (_, j) => accepted j && !mayBeGone j && j.entered == 0)).map
        (fun (k, _) => s!"accepted job {k} never started: the library spins without reaching quiescence (step budget used up)")
    else []
  vs ++ atEnd p b (finalOf tr) e ++ droppedAtRest tr b e ++ spin
end C01

-- ===================================================================== C02
namespace C02
/-- conservative in-flight bound: at every start, the number of in-flight invocations is at most
    the largest limit possibly in effect at any time since the oldest in-flight job was submitted. -/
structure St where
  lims : List Nat          -- limits possibly in effect now
  mx : List (Nat × Nat)    -- per live job: max limit possibly in effect since its Add call
  cpus : Nat
  deriving Repr

/-- withSafeConcurrency: n < 1 means the number of CPUs; values that do not fit a uint32 are clamped -/
def limOf (cpus : Nat) (n : Int) : Nat := if n < 1 then cpus else min n.toNat 4294967295

def maxL (l : List Nat) : Nat := l.foldl max 0

def onEvent (s : St) (b : Book) (o : Obs) (b' : Book) : St × List Viol :=
  match o with
  | .call _ _ (.add _ k _) => ({ s with mx := upsert s.mx k (maxL s.lims) }, [])
  | .call _ _ (.addAll _ _ ks _) => ({ s with mx := ks.foldl (fun m k => upsert m k (maxL s.lims)) s.mx }, [])
  | .call _ _ (.tune n) =>
    let l := limOf s.cpus n
    ({ s with lims := l :: s.lims, mx := s.mx.map (fun (k, m) => (k, max m l)) }, [])
  | .ret _ _ (.tune n) (.tune .none 0) =>
    -- a positive limit was asked for and the worker now reports limit 0
    (s, if n ≥ 1 then [s!"TunePool({n}) returned nil but concurrency {n} maps to limit 0: no job can be dispatched any more"] else [])
  | .ret _ _ (.tune n) (.tune e c) =>
    -- the call is over: the limit is now exactly what NumConcurrency reported, unless another tune is in progress
    if b'.anyOpen (fun c => match c with | .tune _ => true | _ => false) then (s, [])
    else
      let l := if e == .none then limOf s.cpus n else c.toNat
      ({ s with lims := [l] }, [])
  | .enter _ k _ =>
    let live := b'.jobs.filter (fun (_, j) => j.entered > j.exited)
    let bound := maxL (live.map (fun (k', _) => lookupD (maxL s.lims) s.mx k'))
    (s, if b'.inflight > bound then [s!"{b'.inflight} invocations in flight at the start of job {k}, limit {bound}"] else [])
  | .exit _ k _ => ({ s with mx := s.mx.filter (·.1 != k) }, [])
  | _ => (s, [])

def check (p : Params) (tr : List Obs) (_ : EndInfo) : List Viol :=
  (foldCheck ({ lims := [p.conc], mx := [], cpus := 16 } : St) onEvent tr).2.2
end C02

-- ===================================================================== C09
namespace C09
/-- after PauseAndWait / Stop / WaitAndStop returned nil, nothing starts until Resume/Restart is
    called; after a plain Pause returned, fewer than `limit` further jobs start. -/
structure St where
  frozen : Bool := false          -- a full barrier returned and no resumer was called since
  pausedAt : Option Nat := none   -- plain pause returned: number of starts allowed after it
  lateStarts : Nat := 0
  maxLim : Nat := 1
  openP : List (Nat × Bool) := [] -- open Pause/barrier calls: cid ↦ a Resume/Restart was open at, or called during, the call
  deriving Repr

def onEvent (s : St) (b : Book) (o : Obs) (b' : Book) : St × List Viol :=
  match o with
  | .call _ cid c =>
    let s := match c with | .tune n => { s with maxLim := max s.maxLim (C02.limOf 16 n) } | _ => s
    if isResumer c || c == .cancelCtx then
      ({ s with frozen := false, pausedAt := none, lateStarts := 0, openP := s.openP.map (fun (i, _) => (i, true)) }, [])
    else if isBarrier c || c == .pause then ({ s with openP := (cid, b.anyOpen isResumer) :: s.openP }, [])
    else (s, [])
  | .ret _ cid c (.life .none st) =>
    -- a Resume/Restart that overlapped the call may have taken effect after it: the call then promises nothing
    let overlapped := (s.openP.find? (·.1 == cid)).map (·.2) |>.getD false
    let s := { s with openP := s.openP.filter (·.1 != cid) }
    if overlapped || b'.anyOpen isResumer then (s, [])
    else if isBarrier c && (st == some .paused || st == some .stopped) then ({ s with frozen := true }, [])
    else if c == .pause && st == some .paused && !s.frozen then
      ({ s with pausedAt := some (s.maxLim - b.inflight), lateStarts := 0 }, [])
    else (s, [])
  | .ret _ cid _ _ => ({ s with openP := s.openP.filter (·.1 != cid) }, [])
  | .enter _ k _ =>
    if s.frozen then (s, [s!"job {k} started after a PauseAndWait/Stop/WaitAndStop had returned and before any Resume/Restart"])
    else match s.pausedAt with
      | some allowed =>
        let n := s.lateStarts + 1
        ({ s with lateStarts := n }, if n > allowed then [s!"job {k}: {n} jobs started after Pause returned, at most {allowed} could already be dispatched"] else [])
      | none => (s, [])
  | _ => (s, [])

def check (p : Params) (tr : List Obs) (_ : EndInfo) : List Viol :=
  (foldCheck ({ maxLim := p.conc } : St) onEvent tr).2.2
end C09

-- ===================================================================== C06
namespace C06
/-- barrier exactness (safety half) and barrier liveness at quiescence. -/
structure St where
  -- per open barrier/wuf call: cid ↦ (resumer seen since call, jobs accepted before the call, lifecycle call overlapped)
  open_ : List (Nat × (Bool × List Nat × Bool)) := []
  settled : Option WStatus := none  -- status after the last completed lifecycle call, none if a lifecycle call is in progress
  deriving Repr

def acceptedNow (b : Book) : List Nat :=
  (b.jobs.filter (fun (_, j) => j.addRet == some true && !j.batch)).map (·.1)

def onEvent (s : St) (b : Book) (o : Obs) (b' : Book) : St × List Viol :=
  match o with
  | .call _ cid c =>
    let s := if isResumer c then { s with open_ := s.open_.map (fun (i, (_, js, l)) => (i, (true, js, l))) } else s
    let s := if isLifecycle c then { s with settled := none, open_ := s.open_.map (fun (i, (r, js, _)) => (i, (r, js, true))) } else s
    if isBarrier c then ({ s with open_ := (cid, (b.anyOpen isResumer, [], true)) :: s.open_ }, [])
    else if c == .wuf then ({ s with open_ := (cid, (false, if s.settled == some .running then acceptedNow b else [], s.settled != some .running)) :: s.open_ }, [])
    else (s, [])
  | .ret _ cid c r =>
    let ent := s.open_.find? (·.1 == cid)
    let s := { s with open_ := s.open_.filter (·.1 != cid) }
    let s := match r with
      | .life _ st => if b'.anyOpen isLifecycle then s else { s with settled := st }
      | .bind _ st => if b'.anyOpen isLifecycle then s else { s with settled := st }
      | .tune _ _ => if b'.anyOpen isLifecycle then s else s
      | _ => s
    match ent, r with
    | some (_, (resumed, _, _)), .life .none _ =>
      if isBarrier c && !resumed && b.inflight > 0 then
        (s, [s!"barrier call returned while {b.inflight} worker function(s) were executing"]) else (s, [])
    | some (_, (_, js, lifeOverlap)), .unit =>
      if c == .wuf && !lifeOverlap then
        let bad := js.filter (fun k => let j := b.job k; j.exited == 0 && !mayBeGone j)
        (s, if bad.isEmpty then [] else [s!"WaitUntilFinished returned on a running worker while jobs {bad} accepted before the call had not finished"])
      else (s, [])
    | _, _ => (s, [])
  | _ => (s, [])

def atEnd (p : Params) (s : St) (b : Book) (fin : Option Final) (e : EndInfo) : List Viol :=
  if !e.quiescent || e.crashed || b.crashed then [] else
  -- a barrier still parked at quiescence although nothing executes
  let parked := b.openCalls.filter (fun c => isBarrier c.2 || c.2 == .wuf || c.2 == .restart)
  if parked.isEmpty || b.inflight > 0 then [] else
  match fin with
  | some f =>
    let allDone := b.jobs.all (fun (_, j) => !(accepted j) || j.exited ≥ 1 || j.closedNil || (j.maybePurged && f.counts.pending == 0))
    parked.foldl (fun vs c =>
      if isBarrier c.2 || c.2 == .restart then vs ++ [s!"a PauseAndWait/Stop/WaitAndStop/Restart call is parked forever although no worker function is executing"]
      else if f.status != some .running then vs ++ [s!"WaitUntilFinished is parked forever on a non-running worker with nothing executing"]
      else if allDone && f.counts.pending == 0 then vs ++ [s!"WaitUntilFinished is parked forever although every accepted job has finished and nothing is pending"]
      else vs) []
  | none =>
    -- the final observation itself could not be taken (harness blocked): report only when nothing executes
    if p.gate then [] else [s!"a barrier call is parked at quiescence and the final observation could not be taken"]

def check (p : Params) (tr : List Obs) (e : EndInfo) : List Viol :=
  let (s, b, vs) := foldCheck ({} : St) onEvent tr
  vs ++ atEnd p s b (finalOf tr) e
end C06

-- ===================================================================== C05
namespace C05
/- Wait/Result/Err return only after the job finished or was cancelled/purged/rejected; once it
   has, they do return (checked at quiescence). -/
/-- a Close() that has returned an error (ErrJobProcessing) has cancelled nothing: only a Close that
    returned nil, or one that is still in progress, can be the reason for a handle to complete early -/
def cancelledOrClosing (b : Book) (k : Nat) : Bool :=
  let j := b.job k
  j.closedNil || j.maybePurged || j.maybeRejected || b.anyOpen (fun c => c == .jclose k)

def onEvent (bs : List (Nat × List Nat)) (b : Book) (o : Obs) (_ : Book) : List (Nat × List Nat) × List Viol :=
  match o with
  | .call _ _ (.addAll _ bid ks _) => (upsert bs bid ks, [])
  | .ret _ _ _ (.jwait k _) =>
    let j := b.job k
    (bs, if j.exited == 0 && !cancelledOrClosing b k then [s!"Wait on job {k} returned before its worker function returned"] else [])
  | .ret _ _ _ (.jresult k _ _) =>
    let j := b.job k
    (bs, if j.exited == 0 && !cancelledOrClosing b k then [s!"Result/Err on job {k} returned before its worker function returned (no Close() on it has succeeded or is in progress)"] else [])
  | .ret _ _ _ (.gwait bid _) =>
    -- "Wait on a batch handle returns only after the worker function has returned for every item of the batch":
    -- an item that has started and not finished was certainly accepted and cannot be cancelled any more; an item that
    -- has not started is excused only if it may have been cancelled, purged or refused
    let ks := lookupD [] bs bid
    let running := ks.filter (fun k => (b.job k).entered > (b.job k).exited)
    let waiting := ks.filter (fun k => (b.job k).entered == 0 && !cancelledOrClosing b k)
    (bs, (if running.isEmpty then [] else [s!"Wait on batch {bid} returned while the worker function was still running for items {running}"])
      ++ (if waiting.isEmpty then [] else [s!"Wait on batch {bid} returned before items {waiting} had started"]))
  | _ => (bs, [])

def atEnd (p : Params) (b : Book) (fin : Option Final) (e : EndInfo) : List Viol :=
  if !e.quiescent || e.crashed || b.crashed then [] else
  -- a running worker at rest (quiescent: nothing will ever happen again) with no worker function
  -- executing will never finish anything more: whoever still waits, waits forever
  let drained := match fin with
    | some f => f.status == some .running && b.inflight == 0 && !p.gate
    | none => false
  b.openCalls.foldl (fun vs c =>
    match c.2 with
    | .jwait k => if (b.job k).exited ≥ 1 || (b.job k).closedNil || drained then vs ++ [s!"Wait on finished/cancelled job {k} never returned"] else vs
    | .jresult k => if (b.job k).exited ≥ 1 || (b.job k).closedNil || drained then vs ++ [s!"Result/Err on finished/cancelled job {k} never returned"] else vs
    | .gwait bid => if drained then vs ++ [s!"Wait on batch {bid} never returned although the worker is running, nothing is pending and nothing executes"] else vs
    | _ => vs) []

def check (p : Params) (tr : List Obs) (e : EndInfo) : List Viol :=
  let (_, b, vs) := foldCheck ([] : List (Nat × List Nat)) onEvent tr
  vs ++ atEnd p b (finalOf tr) e
end C05

-- ===================================================================== C10
namespace C10
/-- Close semantics on a handle; process never crashes. -/
structure St where
  closeCalls : List (Nat × (Nat × Bool × Bool)) := []  -- cid ↦ (k, executing at call, a nil close had completed before call)
  deriving Repr

def onEvent (s : St) (b : Book) (o : Obs) (_ : Book) : St × List Viol :=
  match o with
  | .call _ cid (.jclose k) =>
    let j := b.job k
    ({ s with closeCalls := (cid, (k, j.entered > j.exited, j.closedNil)) :: s.closeCalls }, [])
  | .ret _ cid _ (.jclose k e) =>
    let ent := s.closeCalls.find? (·.1 == cid)
    let s := { s with closeCalls := s.closeCalls.filter (·.1 != cid) }
    let j := b.job k
    match ent with
    | some (_, (_, execAtCall, closedBefore)) =>
      let v1 := if execAtCall && j.entered > j.exited && e != .jobProcessing then [s!"Close on executing job {k} returned {repr e} instead of ErrJobProcessing"] else []
      let v2 := if closedBefore && e != .jobAlreadyClosed then [s!"second Close on job {k} returned {repr e} instead of ErrJobAlreadyClosed"] else []
      (s, v1 ++ v2)
    | none => (s, [])
  | .crash m => (s, [s!"process crashed: {m}"])
  | _ => (s, [])

/-- at rest with every queue empty and nothing executing, a job whose handle still reads Created/Queued
    was removed from its queue without being cancelled: silently dropped -/
def dropped (tr : List Obs) (b : Book) (e : EndInfo) : List Viol :=
  if !e.quiescent || e.crashed || b.crashed then [] else
  let qsum := tr.foldl (fun n o => match o with | .fqueue _ m => n + m | _ => n) (0 : Int)
  let haveQ := tr.any (fun o => match o with | .fqueue .. => true | _ => false)
  if !haveQ || qsum != 0 || b.inflight != 0 then [] else
  tr.foldl (fun vs o => match o with
    | .fjob k (some st) =>
      if (st == .created || st == .queued) && (b.job k).addRet == some true
      then vs ++ [s!"job {k} is neither pending nor closed at rest (status {repr st}, all queues empty): silently dropped"] else vs
    | _ => vs) []

def check (_ : Params) (tr : List Obs) (e : EndInfo) : List Viol :=
  let (_, b, vs) := foldCheck ({} : St) onEvent tr
  vs ++ (if e.crashed then ["process crashed"] else []) ++ dropped tr b e
end C10

-- ===================================================================== C16
namespace C16
/-- observed job status is monotone over non-overlapping reads; Processing while executing;
    Closed after Wait returned. -/
structure St where
  floor : List (Nat × Nat) := []                  -- k ↦ highest status returned by a completed read
  calls : List (Nat × (Nat × Nat × Bool)) := []   -- cid ↦ (k, floor at call, executing at call)
  waited : List Nat := []                         -- jobs for which a Wait has returned
  deriving Repr

def onEvent (s : St) (b : Book) (o : Obs) (_ : Book) : St × List Viol :=
  match o with
  | .call _ cid (.jstatus k) =>
    let j := b.job k
    let fl := if s.waited.contains k then 4 else lookupD 0 s.floor k
    ({ s with calls := (cid, (k, fl, j.entered > j.exited)) :: s.calls }, [])
  | .ret _ cid _ (.jstatus k (some st)) =>
    let ent := s.calls.find? (·.1 == cid)
    let s := { s with calls := s.calls.filter (·.1 != cid), floor := upsert s.floor k (max (lookupD 0 s.floor k) st.toNat) }
    let j := b.job k
    match ent with
    | some (_, (_, fl, execAtCall)) =>
      let v1 := if st.toNat < fl then [s!"status of job {k} went backwards: read {repr st} after a higher status had been observed"] else []
      let v2 := if execAtCall && j.entered > j.exited && st != .processing then [s!"status of job {k} read {repr st} while its worker function was running"] else []
      (s, v1 ++ v2)
    | none => (s, [])
  | .ret _ cid _ (.jstatus k none) =>
    -- the harness only calls Status() on a handle it holds: a string outside the five names is not a
    -- position on the chain Created … Closed at all
    ({ s with calls := s.calls.filter (·.1 != cid) }, [s!"status of job {k} read a value that is none of Created, Queued, Processing, Finished, Closed"])
  | .ret _ _ _ (.jwait k st) =>
    ({ s with waited := k :: s.waited, floor := upsert s.floor k 4 },
      if st != some .closed then [s!"status of job {k} read {repr st} right after Wait returned"] else [])
  | .fjob k st =>
    -- at rest: a handle whose Wait has returned is Closed and stays Closed
    (s, if s.waited.contains k && st.isSome && st != some .closed then [s!"status of job {k} is {repr st} at rest although a Wait on it had returned (must stay Closed)"] else [])
  | _ => (s, [])

def check (_ : Params) (tr : List Obs) (_ : EndInfo) : List Viol :=
  (foldCheck ({} : St) onEvent tr).2.2
end C16

-- ===================================================================== C17
namespace C17
/-- counters in bounds at every read; exact at a quiescent end. -/
structure St where
  addCalls : Nat := 0
  maxLim : Nat := 1
  deriving Repr

def inBounds (s : St) (b : Book) (c : Counts) : List Viol :=
  (if c.pending < 0 then [s!"NumPending returned {c.pending}"] else [])
  ++ (if c.pending > s.addCalls then [s!"NumPending {c.pending} exceeds the {s.addCalls} submissions made"] else [])
  ++ (if c.processing < 0 then [s!"NumProcessing returned {c.processing}"] else [])
  ++ (if c.processing > s.maxLim then [s!"NumProcessing {c.processing} exceeds the largest limit {s.maxLim}"] else [])
  ++ (if c.submitted > s.addCalls then [s!"Submitted {c.submitted} exceeds the {s.addCalls} submissions made"] else [])
  ++ (if c.completed > c.successful + c.failed then [s!"Completed {c.completed} > Successful+Failed {c.successful + c.failed}"] else [])
  ++ (if c.successful + c.failed > (b.jobs.foldl (fun n (_, j) => n + j.entered) 0 : Nat) then [s!"Successful+Failed exceeds started invocations"] else [])

def onEvent (s : St) (b : Book) (o : Obs) (_ : Book) : St × List Viol :=
  match o with
  | .call _ _ (.add _ _ _) => ({ s with addCalls := s.addCalls + 1 }, [])
  | .call _ _ (.addAll _ _ ks _) => ({ s with addCalls := s.addCalls + ks.length }, [])
  | .call _ _ (.tune n) => ({ s with maxLim := max s.maxLim (C02.limOf 16 n) }, [])
  | .ret _ _ _ (.counts c) => (s, inBounds s b c)
  | .ret _ _ _ (.qpending q n) =>
    (s, (if n < 0 then [s!"queue {q} NumPending returned {n}"] else []) ++ (if n > s.addCalls then [s!"queue {q} NumPending {n} exceeds submissions"] else []))
  | .fin f => (s, inBounds s b f.counts)
  | _ => (s, [])

def atEnd (p : Params) (b : Book) (tr : List Obs) (e : EndInfo) : List Viol :=
  if !e.quiescent || e.crashed || b.crashed then [] else
  match finalOf tr with
  | some f =>
    let c := f.counts
    let acc := (b.jobs.filter (fun (_, j) => accepted j && !j.rejected)).length
    let started := b.jobs.foldl (fun n (_, j) => n + j.entered) 0
    let finished := b.jobs.foldl (fun n (_, j) => n + j.exited) 0
    let clean := b.jobs.all (fun (_, j) => !j.closeCalled && !j.maybePurged)
    let certain := b.jobs.all (fun (_, j) => !j.maybeRejected || j.rejected)
    let qsum := tr.foldl (fun n o => match o with | .fqueue _ m => n + m | _ => n) (0 : Int)
    if !certain then [] else
    (if c.submitted != acc then [s!"at rest Submitted={c.submitted} but {acc} submissions were accepted"] else [])
    ++ (if c.completed != finished && !p.gate then [s!"at rest Completed={c.completed} but {finished} invocations finished"] else [])
    ++ (if c.successful + c.failed != finished && !p.gate then [s!"at rest Successful+Failed={c.successful + c.failed} but {finished} invocations finished"] else [])
    ++ (if clean && c.pending != (acc : Int) - started then [s!"at rest NumPending={c.pending} but accepted−dispatched={(acc : Int) - started}"] else [])
    ++ (if qsum != c.pending then [s!"at rest worker NumPending={c.pending} but the queues sum to {qsum}"] else [])
    ++ (if c.processing != (started : Int) - finished then [s!"at rest NumProcessing={c.processing} but {(started : Int) - finished} invocations are in progress"] else [])
  | none => []

def check (p : Params) (tr : List Obs) (e : EndInfo) : List Viol :=
  let (_, b, vs) := foldCheck ({ maxLim := p.conc } : St) onEvent tr
  vs ++ atEnd p b tr e
end C17

-- ===================================================================== C03
namespace C03
-- progress, as "no bad quiescent state".
/-- state for the at-rest clause: payloads the adapter has handed out (successful DequeueWithAckId) -/
structure St where
  delivered : List Nat := []
  deriving Repr

/-- "no job is left in Processing without a goroutine executing it", observed at a moment of rest in the middle of a
    run (`rest`: no goroutine other than the observing client can run): an item the queue handed out has a goroutine
    that is runnable until it enters the worker function, so at rest every handed-out item has entered. Evaluated in
    programs whose backend acknowledges slowly (`ackHold`; no undecodable entries there): a job whose acknowledgement
    is in progress must not make handed-out jobs wait behind it. -/
def onEvent (p : Params) (s : St) (b : Book) (o : Obs) (_ : Book) : St × List Viol :=
  match o with
  | .adapter _ _ "deq" arg res =>
    if res == ["false"] || arg == "_" then (s, []) else ({ s with delivered := arg.toNat?.getD 0 :: s.delivered }, [])
  | .rest =>
    if !p.ackHold then (s, []) else
    let waiting := s.delivered.reverse.filter (fun k => (b.job k).entered == 0)
    (s, if waiting.isEmpty then [] else
      [s!"items {waiting} were handed out by the queue but no goroutine has started them, and nothing can run: dispatched jobs wait behind another job's acknowledgement (left in Processing without a goroutine executing them)"])
  | _ => (s, [])

def check (p : Params) (tr : List Obs) (e : EndInfo) : List Viol :=
  let (_, _, vrest) := foldCheck ({} : St) (onEvent p) tr
  let (_, b, _) := foldCheck () (fun _ _ _ _ => ((), [])) tr
  vrest ++
  if e.crashed || b.crashed then ["process crashed (a goroutine died)"] else
  if !e.quiescent then
    -- the step budget (far above what any generated program needs) was used up: some goroutine spins
    let unfinished := (b.jobs.filter (fun (_, j) => accepted j && !mayBeGone j && j.exited == 0)).length
    [s!"no quiescence within the step budget: a library goroutine spins (livelock); {unfinished} accepted job(s) unfinished"] else
  match finalOf tr with
  | none => if b.inflight == 0 || !p.gate then ["the final observation could not be taken: an internal lock is held forever (deadlock)"] else []
  | some f =>
    if f.status != some .running then [] else
    let alive := (b.jobs.filter (fun (_, j) => accepted j && !mayBeGone j && j.exited == 0)).length
    let v1 := if !p.gate then
        (if f.counts.pending > 0 then [s!"quiescent while running with {f.counts.pending} job(s) pending and nothing executing: lost wake-up"] else [])
      else
        (let want := min alive f.counts.conc.toNat
         if b.inflight < want && f.counts.pending > 0 then [s!"only {b.inflight} job(s) executing with {f.counts.pending} pending and limit {f.counts.conc}: min(pending, limit) not reached"] else [])
    let v2 := if !p.gate && f.counts.processing > 0 then [s!"quiescent while running with NumProcessing={f.counts.processing} and no worker function executing: job stuck in Processing"] else []
    v1 ++ v2
end C03

def allChecks : List (String × (Params → List Obs → EndInfo → List Viol)) :=
  [("C01", C01.check), ("C02", C02.check), ("C03", C03.check), ("C05", C05.check), ("C06", C06.check),
   ("C09", C09.check), ("C10", C10.check), ("C16", C16.check), ("C17", C17.check)]

end Spec
end VarmqVerif
