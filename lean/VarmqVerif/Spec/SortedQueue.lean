import VarmqVerif.Model.PQ

/-!
# Abstract specification of the priority queue: a stable sorted list

The pending items are kept in a list sorted by `Heap.less` (priority, then insertion index).  Since
every accepted item gets a fresh insertion index the order is strict.  `Op` / `Out` / `Item` / `less`
are shared with the model (`VarmqVerif.Model.PQ`); nothing else of the model is used.

Core Lean only; executable.
-/

namespace VarmqVerif
namespace SortedQueue

open Heap PQ

structure State (α : Type) where
  items          : List (Item α)   -- sorted by `less`, head = next to be dequeued
  insertionCount : Nat
  closed         : Bool
deriving DecidableEq, Repr

variable {α : Type}

def init : State α := { items := [], insertionCount := 0, closed := false }

/-- Ordered (stable) insertion: `x` goes in front of the first element it is strictly `less` than,
i.e. behind every element that is less than or equivalent to it. -/
def insert (x : Item α) : List (Item α) → List (Item α)
  | []      => [x]
  | y :: ys => if less x y then x :: y :: ys else y :: insert x ys

/-- Insertion sort by `less`; used to state the abstraction function of the refinement proof. -/
def sort : List (Item α) → List (Item α)
  | []      => []
  | x :: xs => insert x (sort xs)

def step (s : State α) : Op α → State α × Out α
  | .enq x prio =>
      if s.closed then (s, .bool false)
      else
        let i : Item α := { val := x, prio := prio, idx := s.insertionCount }
        ({ s with insertionCount := s.insertionCount + 1, items := insert i s.items }, .bool true)
  | .deq =>
      match s.items with
      | []      => (s, .item none)
      | y :: ys => ({ s with items := ys }, .item (some y.val))
  | .len    => (s, .nat s.items.length)
  | .values => (s, .list (s.items.map (·.val)))       -- in dequeue order
  | .purge  => ({ s with items := [] }, .unit)       -- the counter keeps running
  | .close  => ({ s with closed := true }, .unit)

def run (s : State α) : List (Op α) → State α × List (Out α)
  | []        => (s, [])
  | op :: ops =>
      let r  := step s op
      let rs := run r.1 ops
      (rs.1, r.2 :: rs.2)

end SortedQueue
end VarmqVerif
