import VarmqVerif.Spec.Props2
/-
  Predicates over the recording adapter's calls: acknowledgement discipline and crash safety (C11),
  payload/ID fidelity and isolation of bad entries at worker level (C12), distributed consumers (C13).
-/
namespace VarmqVerif
namespace Spec

def sLookup {β} (m : List (String × β)) (k : String) : Option β := (m.find? (·.1 == k)).map (·.2)

-- ===================================================================== C11
namespace C11
structure St where
  issued : List (String × String) := []      -- ack id ↦ payload, in issue order
  done : List String := []                   -- ack ids whose delivery's worker function has returned
  ackCalls : List String := []               -- ack ids passed to Acknowledge so far
  accepted : List String := []               -- payloads the adapter accepted (Enqueue true, or valid preload)
  refused : List String := []                -- ack ids whose Acknowledge was refused by the adapter (fault)
  faults : Bool := false
  recovered : Bool := false
  deriving Repr

def onEvent (s : St) (_ : Book) (o : Obs) (_ : Book) : St × List Viol :=
  match o with
  | .adapter _ _ "preload" k [bad] => (if bad == "false" then { s with accepted := k :: s.accepted } else s, [])
  | .adapter _ _ "enq" k ["true"] => ({ s with accepted := k :: s.accepted }, [])
  | .adapter _ _ "enq" _ _ => ({ s with faults := true }, [])
  | .adapter _ _ "deq" k [id] => if id == "false" then ({ s with faults := true }, []) else ({ s with issued := (id, k) :: s.issued }, [])
  | .exit _ k _ =>
    -- the newest delivery of payload k whose worker function had not yet returned
    match s.issued.find? (fun (id, p) => p == toString k && !s.done.contains id) with
    | some (id, _) => ({ s with done := id :: s.done }, [])
    | none => (s, [])
  | .adapter _ _ "ack" id res =>
    let v1 := if (sLookup s.issued id).isNone then [s!"Acknowledge({id}): the adapter never issued this id"] else []
    let v2 := if s.ackCalls.contains id then [s!"Acknowledge({id}) called a second time"] else []
    let v3 := if (sLookup s.issued id).isSome && !s.done.contains id then [s!"Acknowledge({id}) before the worker function returned for that delivery"] else []
    let s := { s with ackCalls := id :: s.ackCalls }
    let s := if res.head? != some "true" then { s with refused := id :: s.refused, faults := true } else s
    (s, v1 ++ v2 ++ v3)
  | .recover => ({ s with recovered := true, done := [] }, [])
  | _ => (s, [])

def atEnd (objMode : Bool) (s : St) (b : Book) (tr : List Obs) (e : EndInfo) : List Viol :=
  if !e.quiescent || e.crashed || b.crashed then [] else
  let fas := tr.filterMap (fun o => match o with | .fadapter _ p u a => some (p, u, a) | _ => none)
  match fas with
  | [] => []
  | _ =>
    let pending := fas.foldl (fun l x => l ++ x.1) []
    let unacked := fas.foldl (fun l x => l ++ (x.2.1.map (fun t => (t.splitOn ":").getD 1 ""))) []
    let acked := fas.foldl (fun l x => l ++ x.2.2) []
    let ackedPayloads := acked.filterMap (fun id => sLookup s.issued id)
    -- nothing accepted may be lost
    let lost := s.accepted.filter (fun k => !(pending.contains k) && !(unacked.contains k) && !(ackedPayloads.contains k))
    let v1 := if lost.isEmpty then [] else [s!"accepted items {lost} are neither pending, nor unacknowledged, nor acknowledged: lost"]
    -- a running worker at rest has drained the adapter; what stays unacknowledged was refused or undecodable
    let running := (finalOf tr).map (·.status == some .running) |>.getD false
    let v2 := if running && !s.faults && !pending.isEmpty then [s!"worker running and quiescent but the adapter still holds pending items {pending}"] else []
    let stuckUnacked := unacked.filter (fun k => k != "bad" && s.accepted.contains k)
    -- (not for a custom in-memory queue that also acknowledges: the library acknowledges only jobs it re-created from bytes,
    --  and the property asks for "at most once", see DESIGN II.6)
    let v3 := if running && !objMode && !s.faults && !stuckUnacked.isEmpty then [s!"items {stuckUnacked} were delivered and processed but never acknowledged"] else []
    v1 ++ v2 ++ v3

def check (p : Params) (tr : List Obs) (e : EndInfo) : List Viol :=
  let (s, b, vs) := foldCheck ({} : St) onEvent tr
  vs ++ atEnd (p.queues.contains "ackq") s b tr e
end C11

-- ===================================================================== C12 (worker level)
namespace C12
structure St where
  valid : List Nat := []        -- payloads of decodable entries, in adapter order
  bad : Nat := 0
  faults : Bool := false
  deriving Repr

def onEvent (s : St) (_ : Book) (o : Obs) (_ : Book) : St × List Viol :=
  match o with
  | .adapter _ _ "preload" k [bad] => (if bad == "false" then { s with valid := s.valid ++ [k.toNat!] } else { s with bad := s.bad + 1 }, [])
  | .adapter _ _ "enq" k ["true"] => ({ s with valid := s.valid ++ [k.toNat?.getD 0] }, [])
  | .adapter _ _ "enq" _ _ => ({ s with faults := true }, [])
  | .adapter _ _ "ack" _ res => (if res.head? != some "true" then { s with faults := true } else s, [])
  | .enter _ k id =>
    (s, if id != s!"id{k}" && !(id.startsWith "gen") then [s!"payload {k} reached the worker function with id {id}"] else [])
  | _ => (s, [])

def atEnd (p : Params) (s : St) (b : Book) (tr : List Obs) (e : EndInfo) : List Viol :=
  if !e.quiescent || e.crashed || b.crashed || tr.any (· == .recover) then [] else
  if !(p.queues.any (fun k => k == "pers" || k == "persprio")) then [] else
  let running := (finalOf tr).map (·.status == some .running) |>.getD false
  if !running then [] else
  let entered := tr.filterMap (fun o => match o with | .enter _ k _ => some k | _ => none)
  let missing := s.valid.filter (fun k => !entered.contains k)
  let twice := s.valid.filter (fun k => (entered.filter (· == k)).length > 1)
  (if missing.isEmpty then [] else [s!"valid entries {missing} behind/among {s.bad} undecodable ones were never processed"])
  ++ (if twice.isEmpty then [] else [s!"entries {twice} were processed twice"])
  ++ (if p.conc == 1 && p.queues == ["pers"] && entered != s.valid.filter (fun k => entered.contains k) then [s!"entries were processed in order {entered}, the adapter held them in order {s.valid}"] else [])

def check (p : Params) (tr : List Obs) (e : EndInfo) : List Viol :=
  let (s, b, vs) := foldCheck ({} : St) onEvent tr
  vs ++ atEnd p s b tr e
end C12

-- ===================================================================== C13
namespace C13
structure St where
  accepted : List String := []
  enqCount : Nat := 0
  subsAt : List Nat := []        -- per subscriber (in subscription order): enqueues made before it subscribed
  starts : List (Nat × Nat) := []  -- (consumer, payload)
  faults : Bool := false
  deriving Repr

def onEvent (s : St) (_ : Book) (o : Obs) (_ : Book) : St × List Viol :=
  match o with
  | .adapter _ _ "preload" k [bad] => (if bad == "false" then { s with accepted := k :: s.accepted } else s, [])
  | .adapter _ _ "enq" k ["true"] => ({ s with accepted := k :: s.accepted, enqCount := s.enqCount + 1 }, [])
  | .adapter _ _ "enq" _ _ => ({ s with faults := true }, [])
  | .adapter _ _ "subscribe" _ _ => ({ s with subsAt := s.subsAt ++ [s.enqCount] }, [])
  | .enterAt c k =>
    let prev := s.starts.filter (·.2 == k)
    ({ s with starts := (c, k) :: s.starts },
      match prev with
      | (c0, _) :: _ => [s!"item {k} is executed by consumer {c} although consumer {c0} already executed it"]
      | [] => [])
  | _ => (s, [])

def atEnd (p : Params) (s : St) (b : Book) (tr : List Obs) (e : EndInfo) : List Viol :=
  if !e.quiescent || e.crashed || b.crashed then [] else
  if !(p.queues.any (fun k => k == "dist" || k == "distprio")) then [] else
  let running := (finalOf tr).map (·.status == some .running) |>.getD false
  if !running then [] else
  let missing := s.accepted.filter (fun k => !(s.starts.any (fun x => toString x.2 == k)))
  let v1 := if missing.isEmpty then [] else [s!"items {missing} on the shared adapter were never executed although all consumers are running and quiescent"]
  -- Submitted of each consumer = notifications it received = enqueues made after it subscribed
  let subm : List (Nat × Int) := (match finalOf tr with | some f => [(0, f.counts.submitted)] | none => [])
    ++ tr.filterMap (fun o => match o with | .fconsumer c sub _ => some (c, sub) | _ => none)
  let v2 := subm.foldl (fun vs (c, sub) =>
    match s.subsAt[c]? with
    | some at_ => if sub != (s.enqCount : Int) - at_ then vs ++ [s!"consumer {c}: Submitted={sub} but it received {(s.enqCount : Int) - at_} 'enqueued' notifications"] else vs
    | none => vs) []
  v1 ++ v2

def check (p : Params) (tr : List Obs) (e : EndInfo) : List Viol :=
  let (s, b, vs) := foldCheck ({} : St) onEvent tr
  vs ++ atEnd p s b tr e
end C13

def allChecks3 : List (String × (Params → List Obs → EndInfo → List Viol)) :=
  allChecks2 ++ [("C11", C11.check), ("C12", C12.check), ("C13", C13.check)]

end Spec
end VarmqVerif
