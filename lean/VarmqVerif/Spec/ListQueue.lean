/-
  Abstract specification of a closable FIFO queue: a plain list.
  `Op` and `Out` are the ones of the model (`VarmqVerif.Fifo.Op`, `VarmqVerif.Fifo.Out`); there is a
  single definition of each, in Model/Fifo.lean.
-/
import VarmqVerif.Model.Fifo

namespace VarmqVerif
namespace ListQueue

universe u
open Fifo (Op Out)

/-- `(items, closed)`: the queued items, oldest first, and the closed flag. -/
abbrev State (α : Type u) := List α × Bool

variable {α : Type u}

def init : State α := ([], false)

/-- enq appends unless closed; deq pops the head; len = length; values = items; purge = [];
    close sets the flag (and nothing else). -/
def step (s : State α) : Op α → State α × Out α
  | .enq x => if s.2 then (s, .bool false) else ((s.1 ++ [x], s.2), .bool true)
  | .deq =>
    match s.1 with
    | [] => (s, .item none)
    | y :: ys => ((ys, s.2), .item (some y))
  | .len => (s, .nat s.1.length)
  | .values => (s, .list s.1)
  | .purge => (([], s.2), .unit)
  | .close => ((s.1, true), .unit)

def run (s : State α) : List (Op α) → State α × List (Out α)
  | [] => (s, [])
  | op :: ops =>
    let r := step s op
    let rs := run r.1 ops
    (rs.1, r.2 :: rs.2)

/-- Items accepted by the queue in a trace: the arguments of the `enq` calls that returned `true`. -/
def accepted (ops : List (Op α)) (outs : List (Out α)) : List α :=
  (ops.zip outs).filterMap fun
    | (.enq x, .bool true) => some x
    | _ => none

/-- Items handed out by the queue in a trace: the results of the successful `deq` calls. -/
def dequeued (outs : List (Out α)) : List α :=
  outs.filterMap fun
    | .item (some x) => some x
    | _ => none

/-- `true` iff the operation is not a purge. -/
def notPurge : Op α → Bool
  | .purge => false
  | _ => true

end ListQueue
end VarmqVerif
