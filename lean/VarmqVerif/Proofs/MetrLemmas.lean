/-
  Inductive invariants of the metrics model `Metr` (Model/Metr.lean).

  `Cen`  the five conservation laws between the real counters, the ghost history counters and the
         ghost census (pure arithmetic, inductive on its own thanks to the "ghost counter is 0"
         guards of `step`).
  `Sup s l`  links the ghost census to the per-goroutine data: `l` is a duplicate-free support list,
         outside of it `ph g = idle ∧ owes g = 0`, and
           nRunning   = number of g ∈ l with ph g = running
           nExited    = number of g ∈ l with ph g = exited _
           nExitedBad = number of g ∈ l with ph g = exited true
           nCounted   = number of g ∈ l with ph g = counted
           nOwes      = sum of owes g over l
         (all written as `sumOn w f l`, the sum over l of a weight of `f g`).
         `nExitedBad ≤ nExited` is a consequence (pointwise comparison of the weights).
-/
import VarmqVerif.Model.Metr

namespace VarmqVerif
namespace Metr

/-! ## run / Reach -/

theorem reach_run {s s' : State} {es : List Ev} (hr : Reach s) (h : run s es = .ok s') : Reach s' := by
  induction es generalizing s with
  | nil => simp only [run] at h; cases h; exact hr
  | cons e es ih =>
    simp only [run] at h
    split at h
    · rename_i s1 h1
      exact ih (Reach.step e hr h1) h
    · cases h

/-- common opening: unfold the step function for one constructor, split all guards, discard the
    error branches, and substitute the successor state -/
macro "step_cases" h:ident : tactic =>
  `(tactic| (
    simp only [step] at $h:ident
    repeat' (split at $h:ident)
    all_goals (first | (cases $h:ident; done) | skip)
    all_goals (first | (injection $h:ident with $h:ident; subst $h:ident) | skip)))

/-! ## The conservation laws -/

def Cen (s : State) : Prop :=
  s.comp + s.nCounted = s.succ + s.fail ∧ s.succ + s.fail + s.nExited = s.exited ∧
  s.exited + s.nRunning = s.entered ∧ s.fail + s.nExitedBad = s.exitedBad ∧ s.sub + s.nOwes = s.accepted

theorem cen_init : Cen init := by simp [Cen, init]

theorem cen_step {s s' : State} {e : Ev} (hc : Cen s) (h : step s e = .ok s') : Cen s' := by
  unfold Cen at *
  cases e <;> step_cases h <;> simp_all <;> omega

theorem reach_cen {s : State} (hr : Reach s) : Cen s := by
  induction hr with
  | init => exact cen_init
  | step e _ h ih => exact cen_step ih h

/-! ## Weighted sums over a support list -/

def sumOn {β : Type} (w : β → Nat) (f : Nat → β) (l : List Nat) : Nat := (l.map (fun x => w (f x))).sum

@[simp] theorem sumOn_nil {β : Type} (w : β → Nat) (f : Nat → β) : sumOn w f [] = 0 := rfl

@[simp] theorem sumOn_cons {β : Type} (w : β → Nat) (f : Nat → β) (a : Nat) (t : List Nat) :
    sumOn w f (a :: t) = w (f a) + sumOn w f t := by
  simp [sumOn]

theorem sumOn_upd_not_mem {β : Type} (w : β → Nat) (f : Nat → β) (g : Nat) (v : β) (l : List Nat) (hg : g ∉ l) :
    sumOn w (upd f g v) l = sumOn w f l := by
  induction l with
  | nil => rfl
  | cons a t ih =>
    simp only [List.mem_cons, not_or] at hg
    have ha : a ≠ g := fun h => hg.1 h.symm
    simp only [sumOn_cons, ih hg.2, upd_other f g a v ha]

theorem sumOn_upd_mem {β : Type} (w : β → Nat) (f : Nat → β) (g : Nat) (v : β) (l : List Nat) (hn : l.Nodup) (hg : g ∈ l) :
    sumOn w (upd f g v) l + w (f g) = sumOn w f l + w v := by
  induction l with
  | nil => cases hg
  | cons a t ih =>
    rw [List.nodup_cons] at hn
    by_cases ha : a = g
    · subst ha
      simp only [sumOn_cons, upd_same, sumOn_upd_not_mem w f a v t hn.1]
      omega
    · have hgt : g ∈ t := by
        rcases List.mem_cons.mp hg with h | h
        · exact absurd h.symm ha
        · exact h
      have := ih hn.2 hgt
      simp only [sumOn_cons, upd_other f g a v ha]
      omega

theorem le_sumOn_of_mem {β : Type} (w : β → Nat) (f : Nat → β) (g : Nat) (l : List Nat) (hg : g ∈ l) :
    w (f g) ≤ sumOn w f l := by
  induction l with
  | nil => cases hg
  | cons a t ih =>
    simp only [sumOn_cons]
    rcases List.mem_cons.mp hg with h | h
    · subst h; omega
    · have := ih h; omega

theorem sumOn_eq_zero_iff {β : Type} (w : β → Nat) (f : Nat → β) (l : List Nat) :
    sumOn w f l = 0 ↔ ∀ g, g ∈ l → w (f g) = 0 := by
  constructor
  · intro h g hg
    have := le_sumOn_of_mem w f g l hg
    omega
  · intro h
    induction l with
    | nil => rfl
    | cons a t ih =>
      simp only [sumOn_cons]
      have h1 := h a List.mem_cons_self
      have h2 := ih (fun g hg => h g (List.mem_cons_of_mem a hg))
      omega

theorem sumOn_le_sumOn {β : Type} (w w' : β → Nat) (hw : ∀ x, w x ≤ w' x) (f : Nat → β) (l : List Nat) :
    sumOn w f l ≤ sumOn w' f l := by
  induction l with
  | nil => simp
  | cons a t ih =>
    simp only [sumOn_cons]
    have := hw (f a)
    omega

/-! ## The weights of the phases -/

def wRun : Ph → Nat | .running => 1 | _ => 0
def wEx : Ph → Nat | .exited _ => 1 | _ => 0
def wBad : Ph → Nat | .exited true => 1 | _ => 0
def wCnt : Ph → Nat | .counted => 1 | _ => 0

theorem wBad_le_wEx (p : Ph) : wBad p ≤ wEx p := by
  cases p with
  | exited b => cases b <;> simp [wBad, wEx]
  | _ => simp [wBad, wEx]

theorem wRun_eq_zero_iff (p : Ph) : wRun p = 0 ↔ p ≠ .running := by
  cases p <;> simp [wRun]

theorem wEx_eq_zero_iff (p : Ph) : wEx p = 0 ↔ ∀ b, p ≠ .exited b := by
  cases p <;> simp [wEx]

theorem wCnt_eq_zero_iff (p : Ph) : wCnt p = 0 ↔ p ≠ .counted := by
  cases p <;> simp [wCnt]

/-! ## The census counts the goroutines -/

structure Sup (s : State) (l : List Nat) : Prop where
  nodup : l.Nodup
  out : ∀ g, g ∉ l → s.ph g = .idle ∧ s.owes g = 0
  run : sumOn wRun s.ph l = s.nRunning
  ex : sumOn wEx s.ph l = s.nExited
  bad : sumOn wBad s.ph l = s.nExitedBad
  cnt : sumOn wCnt s.ph l = s.nCounted
  owe : sumOn id s.owes l = s.nOwes

theorem sup_init : Sup init [] :=
  ⟨by simp, by simp [init], by simp [init], by simp [init], by simp [init], by simp [init], by simp [init]⟩

/-- the support list can be extended by any goroutine -/
theorem sup_extend {s : State} {l : List Nat} (hs : Sup s l) (g : Nat) : ∃ l', Sup s l' ∧ g ∈ l' := by
  by_cases hg : g ∈ l
  · exact ⟨l, hs, hg⟩
  · obtain ⟨hi, ho⟩ := hs.out g hg
    refine ⟨g :: l, ⟨List.nodup_cons.mpr ⟨hg, hs.nodup⟩, ?_, ?_, ?_, ?_, ?_, ?_⟩, List.mem_cons_self⟩
    · intro x hx
      simp only [List.mem_cons, not_or] at hx
      exact hs.out x hx.2
    · simp [hi, wRun, hs.run]
    · simp [hi, wEx, hs.ex]
    · simp [hi, wBad, hs.bad]
    · simp [hi, wCnt, hs.cnt]
    · simp [ho, hs.owe]

/-- goroutine g ∈ l moves to phase v; the census moves by the difference of the weights -/
theorem sup_ph {s s' : State} {l : List Nat} (hs : Sup s l) (g : Nat) (hg : g ∈ l) (v : Ph)
    (hph : s'.ph = upd s.ph g v) (how : s'.owes = s.owes) (hno : s'.nOwes = s.nOwes)
    (h1 : s'.nRunning + wRun (s.ph g) = s.nRunning + wRun v)
    (h2 : s'.nExited + wEx (s.ph g) = s.nExited + wEx v)
    (h3 : s'.nExitedBad + wBad (s.ph g) = s.nExitedBad + wBad v)
    (h4 : s'.nCounted + wCnt (s.ph g) = s.nCounted + wCnt v) : Sup s' l := by
  refine ⟨hs.nodup, ?_, ?_, ?_, ?_, ?_, ?_⟩
  · intro x hx
    have hxg : x ≠ g := fun h => hx (h ▸ hg)
    rw [hph, how, upd_other _ _ _ _ hxg]
    exact hs.out x hx
  · have := sumOn_upd_mem wRun s.ph g v l hs.nodup hg
    have := hs.run
    rw [hph]; omega
  · have := sumOn_upd_mem wEx s.ph g v l hs.nodup hg
    have := hs.ex
    rw [hph]; omega
  · have := sumOn_upd_mem wBad s.ph g v l hs.nodup hg
    have := hs.bad
    rw [hph]; omega
  · have := sumOn_upd_mem wCnt s.ph g v l hs.nodup hg
    have := hs.cnt
    rw [hph]; omega
  · rw [how, hno]; exact hs.owe

/-- goroutine g ∈ l changes the number of incSubmitted it owes -/
theorem sup_owes {s s' : State} {l : List Nat} (hs : Sup s l) (g : Nat) (hg : g ∈ l) (v : Nat)
    (hph : s'.ph = s.ph) (how : s'.owes = upd s.owes g v) (hno : s'.nOwes + s.owes g = s.nOwes + v)
    (h1 : s'.nRunning = s.nRunning) (h2 : s'.nExited = s.nExited) (h3 : s'.nExitedBad = s.nExitedBad)
    (h4 : s'.nCounted = s.nCounted) : Sup s' l := by
  refine ⟨hs.nodup, ?_, ?_, ?_, ?_, ?_, ?_⟩
  · intro x hx
    have hxg : x ≠ g := fun h => hx (h ▸ hg)
    rw [hph, how, upd_other _ _ _ _ hxg]
    exact hs.out x hx
  · rw [hph, h1]; exact hs.run
  · rw [hph, h2]; exact hs.ex
  · rw [hph, h3]; exact hs.bad
  · rw [hph, h4]; exact hs.cnt
  · have := sumOn_upd_mem id s.owes g v l hs.nodup hg
    have := hs.owe
    simp only [id] at *
    rw [how]; omega

theorem sup_step {s s' : State} {e : Ev} {l : List Nat} (hs : Sup s l) (h : step s e = .ok s') :
    ∃ l', Sup s' l' := by
  cases e with
  | enqOk g =>
    obtain ⟨l', hs', hg⟩ := sup_extend hs g
    step_cases h
    exact ⟨l', sup_owes hs' g hg (s.owes g + 1) rfl rfl (by simp only; omega) rfl rfl rfl rfl⟩
  | incSub g res =>
    obtain ⟨l', hs', hg⟩ := sup_extend hs g
    step_cases h
    rename_i h1 h2 h3
    have h1' : s.owes g ≠ 0 := by simpa using h1
    have h2' : s.nOwes ≠ 0 := by simpa using h2
    exact ⟨l', sup_owes hs' g hg (s.owes g - 1) rfl rfl (by simp only; omega) rfl rfl rfl rfl⟩
  | enter g =>
    obtain ⟨l', hs', hg⟩ := sup_extend hs g
    step_cases h
    rename_i h1
    have h1' : s.ph g = .idle := by simpa using h1
    exact ⟨l', sup_ph hs' g hg .running rfl rfl rfl (by simp [h1', wRun]) (by simp [h1', wEx])
      (by simp [h1', wBad]) (by simp [h1', wCnt])⟩
  | exit g bad =>
    obtain ⟨l', hs', hg⟩ := sup_extend hs g
    simp only [step] at h
    split at h
    · cases h
    · split at h
      · cases h
      · rename_i h1 h2
        injection h with h; subst h
        have h1' : s.ph g = .running := by simpa using h1
        have h2' : s.nRunning ≠ 0 := by simpa using h2
        refine ⟨l', sup_ph hs' g hg (.exited bad) rfl rfl rfl ?_ ?_ ?_ ?_⟩
        · simp only [h1', wRun]; omega
        · simp [h1', wEx]
        · cases bad <;> simp [h1', wBad]
        · simp [h1', wCnt]
  | incSucc g res =>
    obtain ⟨l', hs', hg⟩ := sup_extend hs g
    step_cases h
    rename_i h1 h2 h3
    have h1' : s.ph g = .exited false := by simpa using h1
    have h2' : s.nExited ≠ 0 := by simpa using h2
    refine ⟨l', sup_ph hs' g hg .counted rfl rfl rfl ?_ ?_ ?_ ?_⟩
    · simp [h1', wRun]
    · simp only [h1', wEx]; omega
    · simp [h1', wBad]
    · simp [h1', wCnt]
  | incFail g res =>
    obtain ⟨l', hs', hg⟩ := sup_extend hs g
    step_cases h
    rename_i h1 h2 h3
    have h1' : s.ph g = .exited true := by simpa using h1
    have h2' : s.nExited ≠ 0 ∧ s.nExitedBad ≠ 0 := by simpa using h2
    refine ⟨l', sup_ph hs' g hg .counted rfl rfl rfl ?_ ?_ ?_ ?_⟩
    · simp [h1', wRun]
    · simp only [h1', wEx]; omega
    · simp only [h1', wBad]; omega
    · simp [h1', wCnt]
  | incComp g res =>
    obtain ⟨l', hs', hg⟩ := sup_extend hs g
    step_cases h
    rename_i h1 h2 h3
    have h1' : s.ph g = .counted := by simpa using h1
    have h2' : s.nCounted ≠ 0 := by simpa using h2
    refine ⟨l', sup_ph hs' g hg .idle rfl rfl rfl ?_ ?_ ?_ ?_⟩
    · simp [h1', wRun]
    · simp [h1', wEx]
    · simp [h1', wBad]
    · simp only [h1', wCnt]; omega
  | ld c v =>
    step_cases h
    exact ⟨l, hs⟩

theorem reach_sup {s : State} (hr : Reach s) : ∃ l, Sup s l := by
  induction hr with
  | init => exact ⟨[], sup_init⟩
  | step e _ h ih =>
    obtain ⟨l, hs⟩ := ih
    exact sup_step hs h

/-! ## Consequences of `Sup` -/

theorem sup_bad_le_ex {s : State} {l : List Nat} (hs : Sup s l) : s.nExitedBad ≤ s.nExited := by
  have := sumOn_le_sumOn wBad wEx wBad_le_wEx s.ph l
  have := hs.bad
  have := hs.ex
  omega

/-- a census entry that is a sum of a weight vanishing on `idle` is 0 iff the weight is 0 everywhere -/
theorem sup_zero_iff {s : State} {l : List Nat} (hs : Sup s l) (w : Ph → Nat) (hw : w .idle = 0) :
    sumOn w s.ph l = 0 ↔ ∀ g, w (s.ph g) = 0 := by
  rw [sumOn_eq_zero_iff]
  constructor
  · intro h g
    by_cases hg : g ∈ l
    · exact h g hg
    · rw [(hs.out g hg).1]; exact hw
  · intro h g _
    exact h g

theorem sup_owes_zero_iff {s : State} {l : List Nat} (hs : Sup s l) : s.nOwes = 0 ↔ ∀ g, s.owes g = 0 := by
  rw [← hs.owe, sumOn_eq_zero_iff]
  simp only [id]
  constructor
  · intro h g
    by_cases hg : g ∈ l
    · exact h g hg
    · exact (hs.out g hg).2
  · intro h g _
    exact h g

end Metr
end VarmqVerif
