/-
  Inductive invariants of the wake-up protocol model `Sig` (Model/Sig.lean).

  `Inv` (two clauses) is what the no-lost-wake-up theorem needs:
    (A) Dispatchable s → tok ∨ 0 < nOwes ∨ dph.active
    (B) dph = sawCur c → c ≤ cur ∨ tok ∨ 0 < nOwes
        (`cur` only drops below a value loaded by the event loop through `relX`, which adds an owed
         notify(); a notify() turns the owed call into the token; the event loop cannot receive the
         token while it is in phase `sawCur`).  (B) is used at `dConc` with c ≥ conc: the loop goes
         to `exiting` although cur < conc may hold by now.
  `Ghost` links the ghost fields `owes` and `nOwes`: `nOwes` is the sum of `owes` over a finite
  duplicate-free support.
-/
import VarmqVerif.Model.Sig

namespace VarmqVerif
namespace Sig

/-! ## run / Reach -/

theorem reach_run {s s' : State} {es : List Ev} (hr : Reach s) (h : run s es = .ok s') : Reach s' := by
  induction es generalizing s with
  | nil => simp only [run] at h; cases h; exact hr
  | cons e es ih =>
    simp only [run] at h
    split at h
    · rename_i s1 h1
      exact ih (Reach.step e hr h1) h
    · cases h

/-! ## The wake-up invariant -/

def InvA (s : State) : Prop :=
  Dispatchable s → s.tok = true ∨ 0 < s.nOwes ∨ s.dph.active = true

def InvB (s : State) : Prop :=
  ∀ c, s.dph = .sawCur c → c ≤ s.cur ∨ s.tok = true ∨ 0 < s.nOwes

def Inv (s : State) : Prop := InvA s ∧ InvB s

theorem inv_init (c : Nat) : Inv (init c) := by
  refine ⟨?_, ?_⟩
  · intro hd
    simp [Dispatchable, init, running] at hd
  · intro c' h
    simp [init] at h

/-- common opening: unfold the step function for one constructor, split all guards, discard the
    error branches, and substitute the successor state -/
macro "step_cases" h:ident : tactic =>
  `(tactic| (
    simp only [step] at $h:ident
    repeat' (split at $h:ident)
    all_goals (first | (cases $h:ident; done) | skip)
    all_goals (first | (injection $h:ident with $h:ident; subst $h:ident) | skip)))

/-- `Inv` is inductive.  Where the clauses are needed (all cases are closed by `grind` after the
    guards have been split):
    * enq, relX, stStatus running, stConc upwards (the events that can make the state dispatchable,
      or lower `cur` below a loaded value) all go through `owe`: 0 < nOwes afterwards;
    * stStatus v ≠ running, stConc downwards, deqX, dDeq: Dispatchable after → Dispatchable before;
    * notify: tok = true afterwards (whatever `sent` was); recvTok: phase `fresh`, active;
    * dStatus v ≠ running, dLen 0: the component just loaded is false in the current state;
    * dConc with c ≥ conc: clause (B) gives c ≤ cur (then conc ≤ cur: not dispatchable) or a token
      or an owed notify();
    * dCur in phase `exiting` → `parked`: both inactive, nothing else changes. -/
theorem inv_step {s s' : State} {e : Ev} (hi : Inv s) (h : step s e = .ok s') : Inv s' := by
  obtain ⟨hA, hB⟩ := hi
  unfold InvA Dispatchable at hA
  unfold InvB at hB
  unfold Inv InvA InvB Dispatchable
  cases e <;> step_cases h <;> grind [DPh.active, owe]

/-- Clause (A) alone is not inductive: the event loop holds a stale cur = 1, compares it with
    conc = 1 and leaves, although cur = 0 by now and nobody is going to wake it. -/
theorem invA_alone_not_inductive : ∃ s e s', InvA s ∧ step s e = .ok s' ∧ ¬ InvA s' := by
  refine ⟨{ ws := running, cur := 0, conc := 1, qlen := 1, disp := some 0, dph := .sawCur 1 }, .dConc 0 1, _, ?_, rfl, ?_⟩
  · intro _; simp [DPh.active]
  · simp [InvA, Dispatchable, DPh.active]

theorem reach_inv {s : State} (hr : Reach s) : Inv s := by
  induction hr with
  | init c => exact inv_init c
  | step e _ h ih => exact inv_step ih h

/-! ## The ghost counters -/

theorem sum_map_upd_not_mem (f : Nat → Nat) (g v : Nat) (l : List Nat) (hg : g ∉ l) :
    (l.map (upd f g v)).sum = (l.map f).sum := by
  induction l with
  | nil => rfl
  | cons a t ih =>
    simp only [List.mem_cons, not_or] at hg
    have ha : a ≠ g := fun h => hg.1 h.symm
    simp [List.map_cons, List.sum_cons, ih hg.2, upd, ha]

theorem sum_map_upd_mem (f : Nat → Nat) (g v : Nat) (l : List Nat) (hn : l.Nodup) (hg : g ∈ l) :
    (l.map (upd f g v)).sum + f g = (l.map f).sum + v := by
  induction l with
  | nil => cases hg
  | cons a t ih =>
    rw [List.nodup_cons] at hn
    by_cases ha : a = g
    · subst ha
      simp only [List.map_cons, List.sum_cons, upd_same, sum_map_upd_not_mem f a v t hn.1]
      omega
    · have hgt : g ∈ t := by
        rcases List.mem_cons.mp hg with h | h
        · exact absurd h.symm ha
        · exact h
      have := ih hn.2 hgt
      simp only [List.map_cons, List.sum_cons, upd_other f g a v ha]
      omega

/-- `nOwes` is the sum of `owes` over a finite duplicate-free list outside of which `owes` is 0 -/
def Ghost (s : State) : Prop :=
  ∃ l : List Nat, l.Nodup ∧ (∀ g, g ∉ l → s.owes g = 0) ∧ (l.map s.owes).sum = s.nOwes

theorem ghost_init (c : Nat) : Ghost (init c) := ⟨[], by simp, by simp [init], by simp [init]⟩

theorem ghost_owe {s : State} (g : Nat) (hs : Ghost s) : Ghost (owe s g) := by
  obtain ⟨l, hn, h0, hsum⟩ := hs
  by_cases hg : g ∈ l
  · refine ⟨l, hn, ?_, ?_⟩
    · intro x hx
      have hxg : x ≠ g := fun h => hx (h ▸ hg)
      simp [owe, upd, hxg, h0 x hx]
    · have := sum_map_upd_mem s.owes g (s.owes g + 1) l hn hg
      simp only [owe]
      omega
  · refine ⟨g :: l, List.nodup_cons.mpr ⟨hg, hn⟩, ?_, ?_⟩
    · intro x hx
      simp only [List.mem_cons, not_or] at hx
      simp [owe, upd, hx.1, h0 x hx.2]
    · have := sum_map_upd_not_mem s.owes g (s.owes g + 1) l hg
      have hz := h0 g hg
      simp only [owe, List.map_cons, List.sum_cons, upd_same]
      omega

/-- the ghost fields do not depend on the other fields -/
theorem ghost_congr {s t : State} (ho : t.owes = s.owes) (hn : t.nOwes = s.nOwes) (hs : Ghost s) : Ghost t := by
  unfold Ghost at *
  rw [ho, hn]
  exact hs

theorem ghost_step {s s' : State} {e : Ev} (hs : Ghost s) (h : step s e = .ok s') : Ghost s' := by
  cases e with
  | recvTok g => step_cases h <;> exact ghost_congr rfl rfl hs
  | dStatus g v => step_cases h <;> exact ghost_congr rfl rfl hs
  | dCur g v => step_cases h <;> exact ghost_congr rfl rfl hs
  | dConc g v => step_cases h <;> exact ghost_congr rfl rfl hs
  | dLen g n => step_cases h <;> exact ghost_congr rfl rfl hs
  | dCasOk g => step_cases h <;> exact ghost_congr rfl rfl hs
  | dDeq g => step_cases h <;> exact ghost_congr rfl rfl hs
  | dRel g res => step_cases h <;> exact ghost_congr rfl rfl hs
  | enq g => step_cases h; exact ghost_owe g (ghost_congr (s := s) rfl rfl hs)
  | deqX g => step_cases h <;> exact ghost_congr rfl rfl hs
  | relX g res => step_cases h; exact ghost_owe g (ghost_congr (s := s) rfl rfl hs)
  | stStatus g v =>
    step_cases h
    · exact ghost_owe g (ghost_congr (s := s) rfl rfl hs)
    · exact ghost_congr rfl rfl hs
  | stConc g v =>
    step_cases h
    · exact ghost_owe g (ghost_congr (s := s) rfl rfl hs)
    · exact ghost_congr rfl rfl hs
  | notify g sent =>
    step_cases h
    · exact ghost_congr rfl rfl hs
    · rename_i h1 h2 h3
      have hg0 : s.owes g ≠ 0 := by simpa using h2
      obtain ⟨l, hn, h0, hsum⟩ := hs
      have hg : g ∈ l := by
        apply Classical.byContradiction
        intro hg
        exact hg0 (h0 g hg)
      refine ⟨l, hn, ?_, ?_⟩
      · intro x hx
        have hxg : x ≠ g := fun h => hx (h ▸ hg)
        simp [upd, hxg, h0 x hx]
      · have := sum_map_upd_mem s.owes g (s.owes g - 1) l hn hg
        simp only
        omega

theorem reach_ghost {s : State} (hr : Reach s) : Ghost s := by
  induction hr with
  | init c => exact ghost_init c
  | step e _ h ih => exact ghost_step ih h

theorem le_sum_of_mem (f : Nat → Nat) (g : Nat) (l : List Nat) (hg : g ∈ l) : f g ≤ (l.map f).sum := by
  induction l with
  | nil => cases hg
  | cons a t ih =>
    simp only [List.map_cons, List.sum_cons]
    rcases List.mem_cons.mp hg with h | h
    · subst h; omega
    · have := ih h; omega

end Sig
end VarmqVerif
