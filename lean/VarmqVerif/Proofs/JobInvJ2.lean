/-
  Preservation of layer 1 (`InvJ`) of the `Job` invariant, second half of the events.
-/
import VarmqVerif.Proofs.JobLemmas

namespace VarmqVerif
namespace Job

set_option maxHeartbeats 1000000 in
theorem InvJ.step_late {s s' : State} {e : Ev} (I : InvJ s) (he : e.early = false)
    (h : step s e = .ok s') : InvJ s' := by
  obtain ⟨a1, a2, a3, a4, a5, a6, a7, a8, a9, a10, a11, a12, a13, a14⟩ := I
  cases e <;> simp [Ev.early] at he <;> step_cases h <;> constructor <;>
    first | assumption | grind [upd, setSt]

end Job
end VarmqVerif
