import VarmqVerif.Model.JobCfg
namespace VarmqVerif
namespace JobCfg

theorem load_nil (g : String) : loadJobConfigs g [] = g := rfl

theorem load_append (g : String) (opts : List String) (id : String) :
    loadJobConfigs g (opts ++ [id]) = applyOpt (loadJobConfigs g opts) id := by
  simp [loadJobConfigs, List.foldl_append]

/-- with no non-empty WithJobId the generator's id is used -/
theorem load_all_empty (g : String) (opts : List String) (h : ∀ o ∈ opts, o = "") : loadJobConfigs g opts = g := by
  induction opts generalizing g with
  | nil => rfl
  | cons o os ih =>
    have ho : o = "" := h o (by simp)
    have : loadJobConfigs g (o :: os) = loadJobConfigs (applyOpt g o) os := rfl
    rw [this, ho]
    simp only [applyOpt, if_true]
    exact ih g (fun x hx => h x (by simp [hx]))

/-- otherwise the last non-empty WithJobId wins, whatever precedes or follows it -/
theorem load_last_nonempty (g : String) (pre post : List String) (id : String) (hid : id ≠ "")
    (hpost : ∀ o ∈ post, o = "") : loadJobConfigs g (pre ++ id :: post) = id := by
  have h1 : loadJobConfigs g (pre ++ id :: post) = loadJobConfigs (applyOpt (loadJobConfigs g pre) id) post := by
    simp [loadJobConfigs, List.foldl_append]
  rw [h1]
  have h2 : applyOpt (loadJobConfigs g pre) id = id := by simp [applyOpt, hid]
  rw [h2]
  exact load_all_empty id post hpost

theorem group_id_prefix (id : String) : groupId id = "g:" ++ id := rfl

theorem nil_func_outcomes :
    helperOutcome .func true = .panicNil ∧ helperOutcome .errFunc true = .errNil ∧ helperOutcome .resultFunc true = .errNil ∧
    ∀ h, helperOutcome h false = .ran := by
  refine ⟨rfl, rfl, rfl, ?_⟩
  intro h; cases h <;> rfl

example : loadJobConfigs "gen1" ["", "a", "", "b", ""] = "b" := by decide
example : loadJobConfigs "gen1" ["", ""] = "gen1" := by decide

end JobCfg
end VarmqVerif
