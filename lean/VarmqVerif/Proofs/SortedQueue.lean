import VarmqVerif.Spec.SortedQueue
import VarmqVerif.Proofs.Heap

/-!
# Lemmas about the sorted-list specification (`Spec/SortedQueue.lean`)

Ordered insertion / insertion sort by `less`: permutation, sortedness (strict, given distinct
insertion indices), uniqueness of the strictly sorted arrangement of a multiset, and the invariant of
the specification itself.  Core Lean only.
-/

namespace VarmqVerif
namespace SortedQueue

open Heap PQ
variable {α : Type}

/-- Strictly sorted by `less` (every earlier element is `less` than every later one). -/
def Sorted (l : List (Item α)) : Prop := l.Pairwise (fun a b => less a b = true)

/-- Pairwise distinct insertion indices. -/
def IdxNodup (l : List (Item α)) : Prop := (l.map (·.idx)).Nodup

theorem insert_perm (x : Item α) (l : List (Item α)) : (insert x l).Perm (x :: l) := by
  induction l with
  | nil => exact .refl _
  | cons y ys ih =>
    unfold insert
    split
    · exact .refl _
    · exact (List.Perm.cons y ih).trans (List.Perm.swap x y ys)

theorem mem_insert {x z : Item α} {l : List (Item α)} : z ∈ insert x l ↔ z = x ∨ z ∈ l := by
  rw [(insert_perm x l).mem_iff]; simp

theorem length_insert (x : Item α) (l : List (Item α)) : (insert x l).length = l.length + 1 := by
  simpa using (insert_perm x l).length_eq

theorem insert_sorted (x : Item α) (l : List (Item α)) (hs : Sorted l)
    (hx : ∀ y ∈ l, y.idx ≠ x.idx) : Sorted (insert x l) := by
  induction l with
  | nil => simp [insert, Sorted]
  | cons y ys ih =>
    unfold Sorted at hs ⊢
    rw [List.pairwise_cons] at hs
    unfold insert
    split
    · rename_i hxy
      rw [List.pairwise_cons]
      refine ⟨?_, List.pairwise_cons.mpr hs⟩
      intro z hz
      rcases List.mem_cons.mp hz with rfl | hz
      · exact hxy
      · exact less_trans hxy (hs.1 z hz)
    · rename_i hxy
      have hyx : less y x = true := by
        rcases less_total (hx y List.mem_cons_self) with h | h
        · exact h
        · exact absurd h hxy
      rw [List.pairwise_cons]
      refine ⟨?_, ih hs.2 (fun z hz => hx z (List.mem_cons_of_mem _ hz))⟩
      intro z hz
      rcases mem_insert.mp hz with rfl | hz
      · exact hyx
      · exact hs.1 z hz

theorem sort_perm (l : List (Item α)) : (sort l).Perm l := by
  induction l with
  | nil => exact .refl _
  | cons x xs ih => exact (insert_perm x (sort xs)).trans (ih.cons x)

theorem mem_sort {z : Item α} {l : List (Item α)} : z ∈ sort l ↔ z ∈ l := (sort_perm l).mem_iff

theorem length_sort (l : List (Item α)) : (sort l).length = l.length := (sort_perm l).length_eq

theorem IdxNodup.perm {l₁ l₂ : List (Item α)} (h : IdxNodup l₁) (p : l₁.Perm l₂) : IdxNodup l₂ :=
  List.Nodup.perm h (p.map _)

theorem sort_sorted (l : List (Item α)) (hn : IdxNodup l) : Sorted (sort l) := by
  induction l with
  | nil => simp [sort, Sorted]
  | cons x xs ih =>
    unfold IdxNodup at hn
    rw [List.map_cons, List.nodup_cons] at hn
    apply insert_sorted x (sort xs) (ih hn.2)
    intro y hy heq
    exact hn.1 (heq ▸ List.mem_map_of_mem (mem_sort.mp hy))

/-- A multiset of items has at most one strictly sorted arrangement. -/
theorem sorted_unique {l₁ l₂ : List (Item α)} (h₁ : Sorted l₁) (h₂ : Sorted l₂)
    (p : l₁.Perm l₂) : l₁ = l₂ := by
  refine List.Perm.eq_of_pairwise ?_ h₁ h₂ p
  intro a b _ _ hab hba
  rw [less_asymm hab] at hba
  exact absurd hba (by simp)

/-- Hence `sort` depends only on the multiset (for distinct insertion indices). -/
theorem sort_eq_of_perm {l₁ l₂ : List (Item α)} (hn : IdxNodup l₁) (p : l₁.Perm l₂) :
    sort l₁ = sort l₂ :=
  sorted_unique (sort_sorted l₁ hn) (sort_sorted l₂ (hn.perm p))
    ((sort_perm l₁).trans (p.trans (sort_perm l₂).symm))

/-- If `r` is a minimum of `r :: l` then sorting puts it in front. -/
theorem sort_cons_min (r : Item α) (l : List (Item α)) (hn : IdxNodup (r :: l))
    (hmin : ∀ x ∈ l, less x r = false) : sort (r :: l) = r :: sort l := by
  have hn' : IdxNodup l := by
    unfold IdxNodup at hn ⊢; rw [List.map_cons, List.nodup_cons] at hn; exact hn.2
  apply sorted_unique (sort_sorted _ hn)
  · unfold Sorted
    rw [List.pairwise_cons]
    refine ⟨?_, sort_sorted l hn'⟩
    intro z hz
    have hzl := mem_sort.mp hz
    apply less_of_le_of_ne (hmin z hzl)
    unfold IdxNodup at hn; rw [List.map_cons, List.nodup_cons] at hn
    intro heq
    exact hn.1 (heq ▸ List.mem_map_of_mem hzl)
  · exact (sort_perm _).trans ((sort_perm l).symm.cons r)

/-- A sorted list is a fixed point of `sort`. -/
theorem sort_of_sorted (l : List (Item α)) (hn : IdxNodup l) (hs : Sorted l) : sort l = l :=
  sorted_unique (sort_sorted l hn) hs (sort_perm l)

/-! ## Equations of `SortedQueue.step` -/

theorem step_enq_closed (s : State α) (x : α) (p : Int) (h : s.closed = true) :
    step s (.enq x p) = (s, .bool false) := by
  simp [step, h]

theorem step_enq_open (s : State α) (x : α) (p : Int) (h : s.closed = false) :
    step s (.enq x p) =
      ({ s with insertionCount := s.insertionCount + 1,
                items := insert ⟨x, p, s.insertionCount⟩ s.items }, .bool true) := by
  simp [step, h]

theorem step_deq_nil (s : State α) (h : s.items = []) : step s .deq = (s, .item none) := by
  simp [step, h]

theorem step_deq_cons (s : State α) (y : Item α) (ys : List (Item α)) (h : s.items = y :: ys) :
    step s .deq = ({ s with items := ys }, .item (some y.val)) := by
  simp [step, h]
/-! ## What the specification says in plain words -/

/-- Invariant of the specification: strictly sorted, all insertion indices below the counter. -/
structure SInv (st : State α) : Prop where
  sorted : Sorted st.items
  bound  : ∀ it ∈ st.items, it.idx < st.insertionCount

theorem sinv_init : SInv (init : State α) := ⟨by simp [init, Sorted], by simp [init]⟩

theorem step_sinv (st : State α) (op : Op α) (h : SInv st) : SInv (step st op).1 := by
  cases op with
  | enq x prio =>
    by_cases hc : st.closed = true
    · rw [step_enq_closed _ _ _ hc]; exact h
    · rw [step_enq_open _ _ _ (by simpa using hc)]
      constructor
      · apply insert_sorted _ _ h.sorted
        intro y hy; have := h.bound y hy; simp; omega
      · intro it hit
        rcases mem_insert.mp hit with rfl | hit
        · exact Nat.lt_succ_self _
        · exact Nat.lt_succ_of_lt (h.bound it hit)
  | deq =>
    cases hi : st.items with
    | nil => rw [step_deq_nil _ hi]; exact h
    | cons y ys =>
      rw [step_deq_cons _ _ _ hi]
      have hs := h.sorted; have hb := h.bound
      rw [hi] at hs hb
      exact ⟨(List.pairwise_cons.mp hs).2, fun it hit => hb it (List.mem_cons_of_mem _ hit)⟩
  | len => exact h
  | values => exact h
  | purge => exact ⟨by simp [step, Sorted], by simp [step]⟩
  | close => exact ⟨h.sorted, h.bound⟩

theorem run_sinv (st : State α) (ops : List (Op α)) (h : SInv st) : SInv (run st ops).1 := by
  induction ops generalizing st with
  | nil => exact h
  | cons op ops ih => exact ih _ (step_sinv st op h)

/-- `Dequeue` on the specification: the returned value belongs to the pending item with the
*smallest priority*, and among the pending items of that priority to the one with the *smallest
insertion index*, i.e. the one accepted first; exactly that item is removed.  `none` is returned only
when nothing is pending (`deq_none_iff`). -/
theorem deq_is_min_then_fifo (st st' : State α) (v : α) (h : SInv st)
    (hstep : step st .deq = (st', .item (some v))) :
    ∃ it : Item α, it.val = v ∧ st.items = it :: st'.items ∧
      (∀ z ∈ st'.items, it.prio < z.prio ∨ (it.prio = z.prio ∧ it.idx < z.idx)) ∧
      (∀ z ∈ st.items, it.prio ≤ z.prio ∧ (z.prio = it.prio → it.idx ≤ z.idx)) := by
  cases hi : st.items with
  | nil => rw [step_deq_nil _ hi] at hstep; simp at hstep
  | cons y ys =>
    rw [step_deq_cons _ _ _ hi] at hstep
    have h1 : st' = { st with items := ys } := (congrArg Prod.fst hstep).symm
    have h2 : y.val = v := by
      have := congrArg Prod.snd hstep; simpa using this
    have hs := h.sorted
    rw [hi, Sorted, List.pairwise_cons] at hs
    subst h1
    refine ⟨y, h2, rfl, ?_, ?_⟩
    · intro z hz; exact (less_iff y z).mp (hs.1 z hz)
    · intro z hz
      rcases List.mem_cons.mp hz with rfl | hz
      · exact ⟨Int.le_refl _, fun _ => Nat.le_refl _⟩
      · have := (less_iff y z).mp (hs.1 z hz); omega

theorem deq_none_iff (st : State α) : (step st .deq).2 = .item none ↔ st.items = [] := by
  cases hi : st.items with
  | nil => simp [step_deq_nil _ hi]
  | cons y ys => simp [step_deq_cons _ _ _ hi]

/-! ## Trace-level FIFO for equal priorities -/

/-- Inserting an item that nothing in `l` is after appends it. -/
theorem insert_eq_append (x : Item α) (l : List (Item α)) (h : ∀ y ∈ l, less x y = false) :
    insert x l = l ++ [x] := by
  induction l with
  | nil => rfl
  | cons y ys ih =>
    have hy := h y List.mem_cons_self
    simp only [insert, hy, Bool.false_eq_true, if_false, List.cons_append]
    rw [ih (fun z hz => h z (List.mem_cons_of_mem _ hz))]

/-- The items created by accepting `xs` with priority `p`, starting at counter value `c`. -/
def stamp (p : Int) : Nat → List α → List (Item α)
  | _, []      => []
  | c, x :: xs => ⟨x, p, c⟩ :: stamp p (c + 1) xs

theorem run_enqs (p : Int) (xs : List α) (st : State α) (hc : st.closed = false)
    (hp : ∀ y ∈ st.items, y.prio = p ∧ y.idx < st.insertionCount) :
    run st (xs.map (fun x => Op.enq x p)) =
      ({ st with items := st.items ++ stamp p st.insertionCount xs,
                 insertionCount := st.insertionCount + xs.length },
       xs.map (fun _ => Out.bool true)) := by
  induction xs generalizing st with
  | nil => simp [run, stamp]
  | cons x xs ih =>
    simp only [List.map_cons, run]
    rw [step_enq_open _ _ _ hc]
    have hins : insert ⟨x, p, st.insertionCount⟩ st.items = st.items ++ [⟨x, p, st.insertionCount⟩] := by
      apply insert_eq_append
      intro y hy
      have := hp y hy
      rw [← Bool.not_eq_true, less_iff]; simp; omega
    rw [hins]
    dsimp only
    rw [ih ⟨st.items ++ [(⟨x, p, st.insertionCount⟩ : Item α)], st.insertionCount + 1, st.closed⟩ hc]
    · simp [stamp, Nat.add_assoc, Nat.add_comm 1]
    · intro y hy
      simp only [List.mem_append, List.mem_singleton] at hy
      rcases hy with hy | rfl
      · have := hp y hy; exact ⟨this.1, Nat.lt_succ_of_lt this.2⟩
      · exact ⟨rfl, Nat.lt_succ_self _⟩

theorem run_deqs (st : State α) (n : Nat) (hn : st.items.length = n) :
    run st (List.replicate n Op.deq) =
      ({ st with items := [] }, st.items.map (fun y => Out.item (some y.val))) := by
  induction n generalizing st with
  | zero =>
    have : st.items = [] := List.eq_nil_of_length_eq_zero hn
    simp [run, this]; cases st; simp_all
  | succ n ih =>
    cases hi : st.items with
    | nil => rw [hi] at hn; simp at hn
    | cons y ys =>
      simp only [List.replicate_succ, run]
      rw [step_deq_cons _ _ _ hi, ih _ (by rw [hi] at hn; simpa using hn)]
      simp

theorem run_append (st : State α) (ops₁ ops₂ : List (Op α)) :
    run st (ops₁ ++ ops₂) =
      ((run (run st ops₁).1 ops₂).1, (run st ops₁).2 ++ (run (run st ops₁).1 ops₂).2) := by
  induction ops₁ generalizing st with
  | nil => simp [run]
  | cons op ops ih => simp [run, ih]

theorem stamp_map_out (p : Int) (c : Nat) (xs : List α) :
    (stamp p c xs).map (fun y => Out.item (some y.val)) = xs.map (fun x => Out.item (some x)) := by
  induction xs generalizing c with
  | nil => rfl
  | cons x xs ih => simp [stamp, ih]

theorem length_stamp (p : Int) (c : Nat) (xs : List α) : (stamp p c xs).length = xs.length := by
  induction xs generalizing c with
  | nil => rfl
  | cons x xs ih => simp [stamp, ih]

/-- On the specification: starting from an open, empty queue (any counter value, e.g. after
`Purge`), enqueueing `xs` with one priority `p` and dequeueing `|xs|` times returns `xs` in order. -/
theorem fifo_same_priority (st : State α) (hc : st.closed = false) (he : st.items = [])
    (p : Int) (xs : List α) :
    (run st (xs.map (fun x => Op.enq x p) ++ List.replicate xs.length Op.deq)).2 =
      xs.map (fun _ => Out.bool true) ++ xs.map (fun x => Out.item (some x)) := by
  rw [run_append, run_enqs p xs st hc (by simp [he])]
  simp only [he, List.nil_append]
  rw [run_deqs _ _ (by simp [length_stamp])]
  simp only
  rw [stamp_map_out]

end SortedQueue
end VarmqVerif
