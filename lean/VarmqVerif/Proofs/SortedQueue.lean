import VarmqVerif.Spec.SortedQueue
import VarmqVerif.Proofs.Heap

/-!
# Lemmas about the sorted-list specification (`Spec/SortedQueue.lean`)

Ordered insertion / insertion sort by `less`: permutation, sortedness (strict, given distinct
insertion indices), uniqueness of the strictly sorted arrangement of a multiset, and the invariant of
the specification itself.  Core Lean only.
-/

namespace VarmqVerif
namespace SortedQueue

open Heap PQ
variable {α : Type}

/-- Strictly sorted by `less` (every earlier element is `less` than every later one). -/
def Sorted (l : List (Item α)) : Prop := l.Pairwise (fun a b => less a b = true)

/-- Pairwise distinct insertion indices. -/
def IdxNodup (l : List (Item α)) : Prop := (l.map (·.idx)).Nodup

theorem insert_perm (x : Item α) (l : List (Item α)) : (insert x l).Perm (x :: l) := by
  induction l with
  | nil => exact .refl _
  | cons y ys ih =>
    unfold insert
    split
    · exact .refl _
    · exact (List.Perm.cons y ih).trans (List.Perm.swap x y ys)

theorem mem_insert {x z : Item α} {l : List (Item α)} : z ∈ insert x l ↔ z = x ∨ z ∈ l := by
  rw [(insert_perm x l).mem_iff]; simp

theorem length_insert (x : Item α) (l : List (Item α)) : (insert x l).length = l.length + 1 := by
  simpa using (insert_perm x l).length_eq

theorem insert_sorted (x : Item α) (l : List (Item α)) (hs : Sorted l)
    (hx : ∀ y ∈ l, y.idx ≠ x.idx) : Sorted (insert x l) := by
  induction l with
  | nil => simp [insert, Sorted]
  | cons y ys ih =>
    unfold Sorted at hs ⊢
    rw [List.pairwise_cons] at hs
    unfold insert
    split
    · rename_i hxy
      rw [List.pairwise_cons]
      refine ⟨?_, List.pairwise_cons.mpr hs⟩
      intro z hz
      rcases List.mem_cons.mp hz with rfl | hz
      · exact hxy
      · exact less_trans hxy (hs.1 z hz)
    · rename_i hxy
      have hyx : less y x = true := by
        rcases less_total (hx y List.mem_cons_self) with h | h
        · exact h
        · exact absurd h hxy
      rw [List.pairwise_cons]
      refine ⟨?_, ih hs.2 (fun z hz => hx z (List.mem_cons_of_mem _ hz))⟩
      intro z hz
      rcases mem_insert.mp hz with rfl | hz
      · exact hyx
      · exact hs.1 z hz

theorem sort_perm (l : List (Item α)) : (sort l).Perm l := by
  induction l with
  | nil => exact .refl _
  | cons x xs ih => exact (insert_perm x (sort xs)).trans (ih.cons x)

theorem mem_sort {z : Item α} {l : List (Item α)} : z ∈ sort l ↔ z ∈ l := (sort_perm l).mem_iff

theorem length_sort (l : List (Item α)) : (sort l).length = l.length := (sort_perm l).length_eq

theorem IdxNodup.perm {l₁ l₂ : List (Item α)} (h : IdxNodup l₁) (p : l₁.Perm l₂) : IdxNodup l₂ :=
  List.Nodup.perm h (p.map _)

theorem sort_sorted (l : List (Item α)) (hn : IdxNodup l) : Sorted (sort l) := by
  induction l with
  | nil => simp [sort, Sorted]
  | cons x xs ih =>
    unfold IdxNodup at hn
    rw [List.map_cons, List.nodup_cons] at hn
    apply insert_sorted x (sort xs) (ih hn.2)
    intro y hy heq
    exact hn.1 (heq ▸ List.mem_map_of_mem (mem_sort.mp hy))

/-- A multiset of items has at most one strictly sorted arrangement. -/
theorem sorted_unique {l₁ l₂ : List (Item α)} (h₁ : Sorted l₁) (h₂ : Sorted l₂)
    (p : l₁.Perm l₂) : l₁ = l₂ := by
  refine List.Perm.eq_of_pairwise ?_ h₁ h₂ p
  intro a b _ _ hab hba
  rw [less_asymm hab] at hba
  exact absurd hba (by simp)

/-- Hence `sort` depends only on the multiset (for distinct insertion indices). -/
theorem sort_eq_of_perm {l₁ l₂ : List (Item α)} (hn : IdxNodup l₁) (p : l₁.Perm l₂) :
    sort l₁ = sort l₂ :=
  sorted_unique (sort_sorted l₁ hn) (sort_sorted l₂ (hn.perm p))
    ((sort_perm l₁).trans (p.trans (sort_perm l₂).symm))

/-- If `r` is a minimum of `r :: l` then sorting puts it in front. -/
theorem sort_cons_min (r : Item α) (l : List (Item α)) (hn : IdxNodup (r :: l))
    (hmin : ∀ x ∈ l, less x r = false) : sort (r :: l) = r :: sort l := by
  have hn' : IdxNodup l := by
    unfold IdxNodup at hn ⊢; rw [List.map_cons, List.nodup_cons] at hn; exact hn.2
  apply sorted_unique (sort_sorted _ hn)
  · unfold Sorted
    rw [List.pairwise_cons]
    refine ⟨?_, sort_sorted l hn'⟩
    intro z hz
    have hzl := mem_sort.mp hz
    apply less_of_le_of_ne (hmin z hzl)
    unfold IdxNodup at hn; rw [List.map_cons, List.nodup_cons] at hn
    intro heq
    exact hn.1 (heq ▸ List.mem_map_of_mem hzl)
  · exact (sort_perm _).trans ((sort_perm l).symm.cons r)

/-- A sorted list is a fixed point of `sort`. -/
theorem sort_of_sorted (l : List (Item α)) (hn : IdxNodup l) (hs : Sorted l) : sort l = l :=
  sorted_unique (sort_sorted l hn) hs (sort_perm l)

/-! ## Equations of `SortedQueue.step` -/

theorem step_enq_closed (s : State α) (x : α) (p : Int) (h : s.closed = true) :
    step s (.enq x p) = (s, .bool false) := by
  simp [step, h]

theorem step_enq_open (s : State α) (x : α) (p : Int) (h : s.closed = false) :
    step s (.enq x p) =
      ({ s with insertionCount := s.insertionCount + 1,
                items := insert ⟨x, p, s.insertionCount⟩ s.items }, .bool true) := by
  simp [step, h]

theorem step_deq_nil (s : State α) (h : s.items = []) : step s .deq = (s, .item none) := by
  simp [step, h]

theorem step_deq_cons (s : State α) (y : Item α) (ys : List (Item α)) (h : s.items = y :: ys) :
    step s .deq = ({ s with items := ys }, .item (some y.val)) := by
  simp [step, h]
end SortedQueue
end VarmqVerif
