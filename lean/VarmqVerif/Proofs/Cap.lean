/-
  Theorems about the model `Cap` (Model/Cap.lean), for every reachable state:
    * `inv_reach`          cur = hold + busy + rel,  cur ≤ maxLim,  idle + busy ≤ maxLim
    * `workers_le_limit`   the number of worker goroutines that exist (idle + out with a job) never exceeds the largest
                           concurrency limit configured so far          (C18, first clause)
    * `slots_exact`        curProcessing is exactly: slots held by dispatchers + workers with a job + finished workers
                           that have not given their slot back yet
    * `create_only_below_limit`  a worker is created only when fewer than maxLim exist
  and the order matters: `release_before_push_rejected` (a pool goroutine that frees its slot before it is done with its
  node is not an execution of this model — with that order the bound fails, seeded change C18-a).
-/
import VarmqVerif.Model.Cap

namespace VarmqVerif
namespace Cap

structure J (s : State) : Prop where
  slots : s.cur = s.hold + s.busy + s.rel
  cap : s.cur ≤ s.maxLim
  workers : s.idle + s.busy ≤ s.maxLim

theorem J_init : J init := ⟨rfl, Nat.le_refl _, Nat.le_refl _⟩

theorem J_step {s s' : State} (e : Ev) (hJ : J s) (h : step s e = .ok s') : J s' := by
  obtain ⟨h1, h2, h3⟩ := hJ
  cases e with
  | lim n =>
    simp only [step] at h
    cases h
    refine ⟨h1, ?_, ?_⟩
    · show s.cur ≤ max s.maxLim n
      omega
    · show s.idle + s.busy ≤ max s.maxLim n
      omega
  | start =>
    simp only [step] at h
    split at h
    · cases h
    · rename_i ha
      split at h
      · cases h
      · rename_i hm
        cases h
        have ha' : s.idle + s.busy = 0 := by simpa [alive] using ha
        have hm' : s.maxLim ≠ 0 := by simpa using hm
        refine ⟨h1, h2, ?_⟩
        show 1 + s.busy ≤ s.maxLim
        omega
  | reserve =>
    simp only [step] at h
    split at h
    · cases h
    · rename_i hc
      cases h
      refine ⟨?_, ?_, h3⟩
      · show s.cur + 1 = s.hold + 1 + s.busy + s.rel
        omega
      · show s.cur + 1 ≤ s.maxLim
        omega
  | unreserve =>
    simp only [step] at h
    split at h
    · cases h
    · rename_i hg
      cases h
      have : s.hold ≠ 0 ∧ s.cur ≠ 0 := by simpa using hg
      refine ⟨?_, ?_, h3⟩
      · show s.cur - 1 = s.hold - 1 + s.busy + s.rel
        omega
      · show s.cur - 1 ≤ s.maxLim
        omega
  | take =>
    simp only [step] at h
    split at h
    · cases h
    · rename_i hh
      split at h
      · cases h
      · rename_i hi
        cases h
        have hh' : s.hold ≠ 0 := by simpa using hh
        have hi' : s.idle ≠ 0 := by simpa using hi
        refine ⟨?_, h2, ?_⟩
        · show s.cur = s.hold - 1 + (s.busy + 1) + s.rel
          omega
        · show s.idle - 1 + (s.busy + 1) ≤ s.maxLim
          omega
  | create =>
    simp only [step] at h
    split at h
    · cases h
    · rename_i hh
      split at h
      · cases h
      · rename_i hi
        cases h
        have hh' : s.hold ≠ 0 := by simpa using hh
        have hi' : s.idle = 0 := by simpa using hi
        refine ⟨?_, h2, ?_⟩
        · show s.cur = s.hold - 1 + (s.busy + 1) + s.rel
          omega
        · show s.idle + (s.busy + 1) ≤ s.maxLim
          omega
  | push =>
    simp only [step] at h
    split at h
    · cases h
    · rename_i hb
      cases h
      have hb' : s.busy ≠ 0 := by simpa using hb
      refine ⟨?_, h2, ?_⟩
      · show s.cur = s.hold + (s.busy - 1) + (s.rel + 1)
        omega
      · show s.idle + 1 + (s.busy - 1) ≤ s.maxLim
        omega
  | retire =>
    simp only [step] at h
    split at h
    · cases h
    · rename_i hb
      cases h
      have hb' : s.busy ≠ 0 := by simpa using hb
      refine ⟨?_, h2, ?_⟩
      · show s.cur = s.hold + (s.busy - 1) + (s.rel + 1)
        omega
      · show s.idle + (s.busy - 1) ≤ s.maxLim
        omega
  | release =>
    simp only [step] at h
    split at h
    · cases h
    · rename_i hg
      cases h
      have : s.rel ≠ 0 ∧ s.cur ≠ 0 := by simpa using hg
      refine ⟨?_, ?_, h3⟩
      · show s.cur - 1 = s.hold + s.busy + (s.rel - 1)
        omega
      · show s.cur - 1 ≤ s.maxLim
        omega
  | remove =>
    simp only [step] at h
    split at h
    · cases h
    · rename_i hi
      cases h
      refine ⟨h1, h2, ?_⟩
      show s.idle - 1 + s.busy ≤ s.maxLim
      omega

theorem inv_reach {s : State} (h : Reach s) : J s := by
  induction h with
  | init => exact J_init
  | step e _ hs ih => exact J_step e ih hs

/-- "the worker never keeps more worker goroutines than the largest concurrency configured" -/
theorem workers_le_limit {s : State} (h : Reach s) : alive s ≤ s.maxLim := (inv_reach h).workers

theorem slots_exact {s : State} (h : Reach s) : s.cur = s.hold + s.busy + s.rel := (inv_reach h).slots

theorem slots_le_limit {s : State} (h : Reach s) : s.cur ≤ s.maxLim := (inv_reach h).cap

/-- a worker is created only while fewer than maxLim exist -/
theorem create_only_below_limit {s s' : State} (h : Reach s) (hc : step s .create = .ok s') : alive s < s.maxLim := by
  have hJ := J_step .create (inv_reach h) hc
  simp only [step] at hc
  split at hc
  · cases hc
  · split at hc
    · cases hc
    · cases hc
      have := hJ.workers
      simp only [alive] at *
      omega

theorem reach_run {s s' : State} {es : List Ev} (h : Reach s) (hrun : run s es = .ok s') : Reach s' := by
  induction es generalizing s with
  | nil =>
    simp only [run] at hrun
    cases hrun
    exact h
  | cons e es ih =>
    simp only [run] at hrun
    split at hrun
    · rename_i s1 hs1
      exact ih (Reach.step e h hs1) hrun
    · cases hrun

/-! ## Non-vacuity and the order that matters -/

def okState : Except String State → Option State
  | .ok s => some s
  | .error _ => none

/-- limit 2: two jobs run on two workers, both come back, both stay idle: 2 workers, never 3 -/
example : (okState (run init [.lim 2, .start, .reserve, .take, .reserve, .create, .push, .release, .push, .release])).map
    (fun s => (alive s, s.cur, s.maxLim)) = some (2, 0, 2) := by decide

/-- a third worker cannot be created under limit 2 -/
example : (okState (run init [.lim 2, .start, .reserve, .take, .reserve, .create, .reserve])).isNone = true := by decide

/-- the pool goroutine gives its node back first and its slot afterwards; the other order is not an execution of this
    model (seeded change C18-a): -/
theorem release_before_push_rejected :
    (okState (run init [.lim 1, .start, .reserve, .take, .release])).isNone = true := by decide

/-- … and with the other order the bound would fail: if the slot were free while the worker is still out, the dispatcher
    would find the idle list empty and create a second worker under limit 1 (shown on the counts) -/
example : let s : State := { maxLim := 1, cur := 0, hold := 0, busy := 1, rel := 0, idle := 0 }
    (okState (run s [.reserve, .create])).map alive = some 2 := by decide

example : ∃ s, Reach s ∧ alive s = 2 ∧ s.maxLim = 2 :=
  ⟨_, reach_run Reach.init (es := [.lim 2, .start, .reserve, .take, .reserve, .create]) rfl, rfl, rfl⟩

#print axioms workers_le_limit
#print axioms slots_exact
#print axioms create_only_below_limit
#print axioms release_before_push_rejected

end Cap
end VarmqVerif
