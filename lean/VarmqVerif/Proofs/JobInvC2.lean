/-
  Preservation of layer 5 (`InvC`, response channels) of the `Job` invariant, second half of the
  events.
-/
import VarmqVerif.Proofs.JobLemmas

namespace VarmqVerif
namespace Job
set_option maxHeartbeats 1000000 in
theorem InvC.step_late {s s' : State} {e : Ev} (J : InvJ s) (D : InvD s) (I : InvC s)
    (he : e.early = false) (h : step s e = .ok s') : InvC s' := by
  have d1 := D.owes
  have d2 := D.cnt
  have d3 := D.wg_single
  have j1 := J.nex
  clear D J
  obtain ⟨a1, a2, a3, a4, a5, a6, a7, a8, a9, a10, a11, a12, a13⟩ := I
  cases e <;> simp [Ev.early] at he <;> step_cases h <;> constructor <;>
    first | assumption | grind [upd, setSt] | grind (instances := 4000) [upd, setSt]
end Job
end VarmqVerif
