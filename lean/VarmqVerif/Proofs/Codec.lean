/-
  Theorems about VarmqVerif/Model/Codec.lean (job status codec of /repo/job.go). Core tactics only.
-/
import VarmqVerif.Model.Codec

namespace VarmqVerif
namespace Codec

/-! ## Status constants -/

/-- The `iota` order: created < queued < processing < finished < closed. -/
theorem toNat_strictMono :
    JStatus.created.toNat < JStatus.queued.toNat ∧
    JStatus.queued.toNat < JStatus.processing.toNat ∧
    JStatus.processing.toNat < JStatus.finished.toNat ∧
    JStatus.finished.toNat < JStatus.closed.toNat := by decide

theorem toNat_lt_five (s : JStatus) : s.toNat < 5 := by cases s <;> decide

theorem ofNat?_toNat (s : JStatus) : JStatus.ofNat? s.toNat = some s := by cases s <;> rfl

theorem toNat_injective {a b : JStatus} (h : a.toNat = b.toNat) : a = b := by
  have := congrArg JStatus.ofNat? h
  rw [ofNat?_toNat, ofNat?_toNat] at this
  exact Option.some.inj this

theorem ofNat?_eq_some_iff (n : Nat) (s : JStatus) : JStatus.ofNat? n = some s ↔ n = s.toNat := by
  constructor
  · intro h
    match n, h with
    | 0, h | 1, h | 2, h | 3, h | 4, h => cases h; rfl
    | n + 5, h => simp [JStatus.ofNat?] at h
  · rintro rfl; exact ofNat?_toNat s

theorem mem_all (s : JStatus) : s ∈ JStatus.all := by cases s <;> decide

/-! ## The string table -/

/-- `statusStrings` is exactly the graph of `Status()` on the five constants, in `iota` order. -/
theorem statusStrings_eq : statusStrings = JStatus.all.map (fun s => (s.toNat, render s)) := by
  decide

/-- Both `switch` statements agree with the table. -/
theorem statusStrings_sound :
    ∀ p ∈ statusStrings, renderNat p.1 = p.2 ∧ (parse p.2).map JStatus.toNat = some p.1 := by
  decide

theorem render_mem_table (s : JStatus) : (s.toNat, render s) ∈ statusStrings := by
  cases s <;> decide

/-! ## render / parse -/

/-- **parse_render.** -/
theorem parse_render (s : JStatus) : parse (render s) = some s := by cases s <;> decide

/-- **render_injective.** -/
theorem render_injective {a b : JStatus} (h : render a = render b) : a = b := by
  have h1 := parse_render a
  rw [h, parse_render b] at h1
  exact (Option.some.inj h1).symm

/-- **parse_some_iff.** Exactly the five strings of `Status()` are accepted (case-sensitive, no
trimming), and each is mapped back to its own constant. -/
theorem parse_some_iff (str : String) (s : JStatus) : parse str = some s ↔ str = render s := by
  constructor
  · intro h
    unfold parse at h
    split at h
    · next hs => cases h; exact hs
    · split at h
      · next hs => cases h; exact hs
      · split at h
        · next hs => cases h; exact hs
        · split at h
          · next hs => cases h; exact hs
          · split at h
            · next hs => cases h; exact hs
            · cases h
  · rintro rfl; exact parse_render s

theorem parse_none_iff (str : String) : parse str = none ↔ ∀ s, str ≠ render s := by
  constructor
  · intro h s hs
    rw [(parse_some_iff str s).mpr hs] at h
    cases h
  · intro h
    cases hp : parse str with
    | none => rfl
    | some s => exact absurd ((parse_some_iff str s).mp hp) (h s)

/-- The rejected strings, listed explicitly. -/
theorem parse_none_iff' (str : String) :
    parse str = none ↔
      str ≠ "Created" ∧ str ≠ "Queued" ∧ str ≠ "Processing" ∧ str ≠ "Finished" ∧
        str ≠ "Closed" := by
  rw [parse_none_iff]
  constructor
  · intro h
    exact ⟨h .created, h .queued, h .processing, h .finished, h .closed⟩
  · rintro ⟨h0, h1, h2, h3, h4⟩ s
    cases s
    · exact h0
    · exact h1
    · exact h2
    · exact h3
    · exact h4

/-- `Status()` of an out-of-range status word is "Unknown", which `parseToJob` rejects: such a job
(unreachable: only the five constants are ever stored) would not survive a round trip. -/
theorem renderNat_unknown (n : Nat) (h : 5 ≤ n) : renderNat n = "Unknown" := by
  match n, h with
  | n + 5, _ => rfl

theorem parse_unknown : parse "Unknown" = none := by decide

theorem parse_renderNat (n : Nat) : parse (renderNat n) = JStatus.ofNat? n := by
  match n with
  | 0 | 1 | 2 | 3 | 4 => decide
  | n + 5 => exact parse_unknown

/-! ## Json / parseToJob -/

/-- **envelope_roundtrip.** `parseToJob (Json j)` succeeds and restores id, status and payload. -/
theorem envelope_roundtrip {π : Type} (j : Job π) :
    ∃ j', parseToJob (toEnvelope j) = .ok j' ∧
      j'.id = j.id ∧ j'.status = j.status ∧ j'.payload = j.payload := by
  refine ⟨j, ?_, rfl, rfl, rfl⟩
  simp [parseToJob, toEnvelope, parse_render]

theorem envelope_roundtrip_eq {π : Type} (j : Job π) : parseToJob (toEnvelope j) = .ok j := by
  simp [parseToJob, toEnvelope, parse_render]

/-- `parseToJob` succeeds exactly on the images of `Json`. -/
theorem parseToJob_ok_iff {π : Type} (e : Envelope π) (j : Job π) :
    parseToJob e = .ok j ↔ e = toEnvelope j := by
  constructor
  · intro h
    unfold parseToJob at h
    split at h
    · next s hs =>
      injection h with h
      subst h
      have := (parse_some_iff _ _).mp hs
      obtain ⟨eid, est, epl⟩ := e
      have this' : est = render s := this
      subst this'
      rfl
    · cases h
  · rintro rfl; exact envelope_roundtrip_eq j

/-- **parse_invalid.** A status string that is not one of the five is rejected with the
"invalid status" error … -/
theorem parse_invalid {π : Type} (e : Envelope π) (h : ∀ s, e.status ≠ render s) :
    parseToJob e = .error ("invalid status: " ++ e.status) := by
  simp [parseToJob, (parse_none_iff e.status).mpr h]

/-- … and nothing else is rejected. -/
theorem parseToJob_error_iff {π : Type} (e : Envelope π) (m : String) :
    parseToJob e = .error m ↔ (∀ s, e.status ≠ render s) ∧ m = "invalid status: " ++ e.status := by
  constructor
  · intro h
    unfold parseToJob at h
    split at h
    · cases h
    · next hn =>
      injection h with h
      exact ⟨(parse_none_iff _).mp hn, h.symm⟩
  · rintro ⟨h, rfl⟩; exact parse_invalid e h

/-! ## Non-vacuity -/

example : parse "Processing" = some .processing := by decide
example : parse "processing" = none := by decide       -- case-sensitive
example : parse " Closed" = none := by decide          -- no trimming
example : parse "" = none := by decide                 -- a missing "status" field
example : render .finished = "Finished" := by decide
example : parseToJob (toEnvelope { id := "a", status := .queued, payload := (7 : Nat) }) =
    .ok { id := "a", status := .queued, payload := 7 } := envelope_roundtrip_eq _
example : ∀ s, ({ id := "x", status := "Done", payload := () } : Envelope Unit).status ≠ render s := by
  intro s; cases s <;> decide
example : (parseToJob ({ id := "x", status := "Done", payload := () } : Envelope Unit)).toOption.isNone
    = true := by decide

/-! ## Axiom audit -/
#print axioms toNat_strictMono
#print axioms statusStrings_eq
#print axioms statusStrings_sound
#print axioms parse_render
#print axioms render_injective
#print axioms parse_some_iff
#print axioms parse_none_iff'
#print axioms envelope_roundtrip
#print axioms parseToJob_ok_iff
#print axioms parse_invalid
#print axioms parseToJob_error_iff

end Codec
end VarmqVerif
