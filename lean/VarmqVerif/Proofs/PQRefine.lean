import VarmqVerif.Model.PQ
import VarmqVerif.Spec.SortedQueue
import VarmqVerif.Proofs.Heap
import VarmqVerif.Proofs.SortedQueue

/-!
# The Go priority queue refines the stable sorted list

`PQ.step` (transcription of priority.go on top of the transcribed `container/heap`) is related to
`SortedQueue.step` by the abstraction function `abs` (sort the heap array by `less`).  All statements
are for arbitrary `α`, arbitrary `Int` priorities and operation sequences of any length.

Scope note: `Index` / `insertionCount` are Go `int`s; the model uses `Nat`.  After 2^63 accepted
enqueues on one queue the Go counter wraps to a negative number and the tie-break order of `Less`
would no longer be acceptance order.  That is outside this model (and outside any feasible run).
-/

namespace VarmqVerif
namespace PQ

open Heap SortedQueue
variable {α : Type}

/-! ## Equations of `PQ.step` -/

theorem step_enq_closed (s : State α) (x : α) (p : Int) (h : s.closed = true) :
    step s (.enq x p) = (s, .bool false) := by
  simp [step, h]

theorem step_enq_open (s : State α) (x : α) (p : Int) (h : s.closed = false) :
    step s (.enq x p) =
      ({ s with insertionCount := s.insertionCount + 1,
                items := heapPush s.items ⟨x, p, s.insertionCount⟩ }, .bool true) := by
  simp [step, h]

theorem step_deq_empty (s : State α) (h : s.items.size = 0) :
    step s .deq = (s, .item none) := by
  simp [step, h]

theorem step_deq_nonempty (s : State α) (h : 0 < s.items.size) :
    step s .deq =
      ({ s with items := (heapPop s.items h).2 }, .item (some (heapPop s.items h).1.val)) := by
  have : ¬ s.items.size = 0 := by omega
  simp [step, this]
/-! ## Invariant -/

/-- Representation invariant of `PriorityQueue`: the slice is a heap, every stored insertion index is
below the counter, and the stored insertion indices are pairwise distinct. -/
structure Inv (s : State α) : Prop where
  heap   : IsHeap s.items
  bound  : ∀ it ∈ s.items.toList, it.idx < s.insertionCount
  nodup  : IdxNodup s.items.toList

theorem inv_init : Inv (init : State α) := by
  refine ⟨?_, ?_, ?_⟩ <;> simp [init, heapInit_empty, isHeap_empty, IdxNodup]

theorem step_inv (s : State α) (op : Op α) (h : Inv s) : Inv (step s op).1 := by
  cases op with
  | enq x prio =>
    by_cases hc : s.closed = true
    · rw [step_enq_closed _ _ _ hc]; exact h
    · rw [step_enq_open _ _ _ (by simpa using hc)]
      have hp := heapPush_perm s.items ⟨x, prio, s.insertionCount⟩
      refine ⟨heapPush_isHeap _ _ h.heap, ?_, ?_⟩
      · intro it hit
        rcases List.mem_cons.mp (hp.mem_iff.mp hit) with rfl | hit
        · exact Nat.lt_succ_self _
        · exact Nat.lt_succ_of_lt (h.bound it hit)
      · refine IdxNodup.perm ?_ hp.symm
        unfold IdxNodup
        rw [List.map_cons, List.nodup_cons]
        refine ⟨?_, h.nodup⟩
        intro hmem
        obtain ⟨it, hit, heq⟩ := List.mem_map.mp hmem
        have := h.bound it hit
        simp at heq; omega
  | deq =>
    by_cases he : s.items.size = 0
    · rw [step_deq_empty _ he]; exact h
    · have hpos : 0 < s.items.size := by omega
      rw [step_deq_nonempty _ hpos]
      have hp := heapPop_perm s.items hpos
      refine ⟨heapPop_isHeap _ h.heap hpos, ?_, ?_⟩
      · intro it hit
        exact h.bound it (hp.mem_iff.mpr (List.mem_cons_of_mem _ hit))
      · have := h.nodup.perm hp
        unfold IdxNodup at this ⊢
        rw [List.map_cons, List.nodup_cons] at this
        exact this.2
  | len => exact h
  | values => exact h
  | purge =>
    refine ⟨?_, ?_, ?_⟩ <;> simp [step, heapInit_empty, isHeap_empty, IdxNodup]
  | close => exact ⟨h.heap, h.bound, h.nodup⟩

theorem run_inv (s : State α) (ops : List (Op α)) (h : Inv s) : Inv (run s ops).1 := by
  induction ops generalizing s with
  | nil => exact h
  | cons op ops ih => exact ih _ (step_inv s op h)

/-! ## Abstraction and refinement -/

/-- Abstraction function: the pending items in dequeue order. -/
def abs (s : State α) : SortedQueue.State α :=
  { items := sort s.items.toList, insertionCount := s.insertionCount, closed := s.closed }

/-- Output equivalence: equal, except that two `Values()` results only have to be permutations of
each other (the Go code returns the values in heap-array order, the specification in dequeue order). -/
def OutEq : Out α → Out α → Prop
  | .list l₁, .list l₂ => l₁.Perm l₂
  | o₁, o₂ => o₁ = o₂

/-- `OutEq` lifted to output sequences: same length, pointwise `OutEq`. -/
def OutsEq : List (Out α) → List (Out α) → Prop
  | [], [] => True
  | a :: as, b :: bs => OutEq a b ∧ OutsEq as bs
  | _, _ => False

theorem OutEq.refl (o : Out α) : OutEq o o := by
  cases o <;> simp [OutEq]

theorem abs_init : abs (init : State α) = SortedQueue.init := by
  simp [abs, init, SortedQueue.init, heapInit_empty, sort]

/-- Key fact for `Dequeue`: the sorted view of a non-empty heap is the item `heap.Pop` returns followed
by the sorted view of the heap it leaves behind. -/
theorem abs_items_of_nonempty (s : State α) (h : Inv s) (hpos : 0 < s.items.size) :
    (abs s).items = (heapPop s.items hpos).1 :: sort (heapPop s.items hpos).2.toList := by
  have hp := heapPop_perm s.items hpos
  show sort s.items.toList = _
  rw [sort_eq_of_perm h.nodup hp]
  apply sort_cons_min _ _ (h.nodup.perm hp)
  intro x hx
  apply heapPop_min s.items h.heap hpos
  exact Array.mem_def.mpr (hp.mem_iff.mpr (List.mem_cons_of_mem _ hx))

/-- Simulation step, state part: the specification, started in the abstraction of the model state,
ends in the abstraction of the model's next state. -/
theorem step_refines_state (s : State α) (op : Op α) (h : Inv s) :
    (SortedQueue.step (abs s) op).1 = abs (step s op).1 := by
  cases op with
  | enq x prio =>
    by_cases hc : s.closed = true
    · rw [step_enq_closed _ _ _ hc, SortedQueue.step_enq_closed _ _ _ hc]
    · have hc' : s.closed = false := by simpa using hc
      have hn : IdxNodup (heapPush s.items ⟨x, prio, s.insertionCount⟩).toList := by
        have := (step_inv s (.enq x prio) h).nodup
        rwa [step_enq_open _ _ _ hc'] at this
      rw [step_enq_open _ _ _ hc', SortedQueue.step_enq_open _ _ _ hc']
      simp only [abs]
      rw [sort_eq_of_perm hn (heapPush_perm _ _)]
      rfl
  | deq =>
    by_cases he : s.items.size = 0
    · have hnil : (abs s).items = [] := by
        have : s.items = #[] := Array.eq_empty_of_size_eq_zero he
        simp [abs, this, sort]
      rw [step_deq_empty _ he, SortedQueue.step_deq_nil _ hnil]
    · have hpos : 0 < s.items.size := by omega
      rw [step_deq_nonempty _ hpos, SortedQueue.step_deq_cons _ _ _ (abs_items_of_nonempty s h hpos)]
      rfl
  | len => rfl
  | values => rfl
  | purge => simp [step, SortedQueue.step, abs, heapInit_empty, sort]
  | close => rfl

/-- Simulation step, output part.  For every operation except `Values` the outputs are *equal*. -/
theorem step_refines_out_exact (s : State α) (op : Op α) (h : Inv s) (hop : op ≠ .values) :
    (step s op).2 = (SortedQueue.step (abs s) op).2 := by
  cases op with
  | enq x prio =>
    by_cases hc : s.closed = true
    · rw [step_enq_closed _ _ _ hc, SortedQueue.step_enq_closed _ _ _ hc]
    · have hc' : s.closed = false := by simpa using hc
      rw [step_enq_open _ _ _ hc', SortedQueue.step_enq_open _ _ _ hc']
  | deq =>
    by_cases he : s.items.size = 0
    · have hnil : (abs s).items = [] := by
        have : s.items = #[] := Array.eq_empty_of_size_eq_zero he
        simp [abs, this, sort]
      rw [step_deq_empty _ he, SortedQueue.step_deq_nil _ hnil]
    · have hpos : 0 < s.items.size := by omega
      rw [step_deq_nonempty _ hpos, SortedQueue.step_deq_cons _ _ _ (abs_items_of_nonempty s h hpos)]
  | len => simp [step, SortedQueue.step, abs, length_sort]
  | values => exact absurd rfl hop
  | purge => rfl
  | close => rfl

/-- Simulation step, `Values`: the model returns the values in heap-array order, the specification
the same values in dequeue order; the former is a permutation of the latter. -/
theorem step_refines_values (s : State α) :
    (step s .values).2 = .list (s.items.toList.map (·.val)) ∧
    (SortedQueue.step (abs s) .values).2 = .list ((sort s.items.toList).map (·.val)) ∧
    (s.items.toList.map (·.val)).Perm ((sort s.items.toList).map (·.val)) :=
  ⟨rfl, rfl, ((sort_perm _).map _).symm⟩

/-- Simulation step, combined. -/
theorem step_refines (s : State α) (op : Op α) (h : Inv s) :
    (SortedQueue.step (abs s) op).1 = abs (step s op).1 ∧
    OutEq (step s op).2 (SortedQueue.step (abs s) op).2 := by
  refine ⟨step_refines_state s op h, ?_⟩
  by_cases hop : op = .values
  · subst hop
    exact (step_refines_values s).2.2
  · rw [step_refines_out_exact s op h hop]; exact OutEq.refl _

/-! ## Refinement for unbounded operation sequences -/

theorem OutsEq.refl (l : List (Out α)) : OutsEq l l := by
  induction l with
  | nil => trivial
  | cons o os ih => exact ⟨OutEq.refl o, ih⟩

/-- Pointwise reading of `OutsEq`. -/
theorem outsEq_iff (l₁ l₂ : List (Out α)) :
    OutsEq l₁ l₂ ↔ l₁.length = l₂.length ∧
      ∀ i (h₁ : i < l₁.length) (h₂ : i < l₂.length), OutEq l₁[i] l₂[i] := by
  induction l₁ generalizing l₂ with
  | nil => cases l₂ <;> simp [OutsEq]
  | cons a as ih =>
    cases l₂ with
    | nil => simp [OutsEq]
    | cons b bs =>
      simp only [OutsEq, ih, List.length_cons, Nat.add_right_cancel_iff]
      constructor
      · rintro ⟨hab, hl, hi⟩
        refine ⟨hl, ?_⟩
        intro i h₁ h₂
        cases i with
        | zero => exact hab
        | succ i => exact hi i (by omega) (by omega)
      · rintro ⟨hl, hi⟩
        exact ⟨hi 0 (by omega) (by omega), hl,
          fun i h₁ h₂ => hi (i + 1) (by omega) (by omega)⟩

/-- Simulation from any state satisfying the invariant. -/
theorem run_refines (s : State α) (ops : List (Op α)) (h : Inv s) :
    (SortedQueue.run (abs s) ops).1 = abs (run s ops).1 ∧
    OutsEq (run s ops).2 (SortedQueue.run (abs s) ops).2 := by
  induction ops generalizing s with
  | nil => exact ⟨rfl, trivial⟩
  | cons op ops ih =>
    have hs := step_refines s op h
    have := ih (step s op).1 (step_inv s op h)
    simp only [run, SortedQueue.run, hs.1]
    exact ⟨this.1, hs.2, this.2⟩

/-- **Headline.**  For every sequence of calls on a fresh `PriorityQueue`, the Go implementation
(binary heap via `container/heap`) returns the same outputs as the stable sorted list, where the two
results of a `Values()` call are compared as multisets (`OutEq`). -/
theorem refines_sorted (ops : List (Op α)) :
    OutsEq (run init ops).2 (SortedQueue.run SortedQueue.init ops).2 := by
  have := (run_refines init ops inv_init).2
  rwa [abs_init] at this

/-- The final abstract states agree as well. -/
theorem refines_sorted_state (ops : List (Op α)) :
    abs (run init ops).1 = (SortedQueue.run SortedQueue.init ops).1 := by
  have := (run_refines init ops inv_init).1
  rw [abs_init] at this; exact this.symm

theorem run_refines_exact (s : State α) (ops : List (Op α)) (h : Inv s)
    (hv : ∀ op ∈ ops, op ≠ .values) :
    (run s ops).2 = (SortedQueue.run (abs s) ops).2 := by
  induction ops generalizing s with
  | nil => rfl
  | cons op ops ih =>
    have ho := step_refines_out_exact s op h (hv op List.mem_cons_self)
    have hst := step_refines_state s op h
    have := ih (step s op).1 (step_inv s op h) (fun o ho => hv o (List.mem_cons_of_mem _ ho))
    simp only [run, SortedQueue.run, hst, ho, this]

/-- **Headline, exact form.**  Without `Values()` calls the output sequences are equal. -/
theorem refines_sorted_exact (ops : List (Op α)) (hv : ∀ op ∈ ops, op ≠ .values) :
    (run init ops).2 = (SortedQueue.run SortedQueue.init ops).2 := by
  have := run_refines_exact init ops inv_init hv
  rwa [abs_init] at this

end PQ
end VarmqVerif
