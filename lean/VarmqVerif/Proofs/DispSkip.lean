/-
  A skipped entry (model `Disp`: `deq j` followed by `done j` without an `enter j` — what processNextJob does with a stored
  entry it cannot decode, or with a job that was cancelled while pending) costs no capacity and disturbs nobody:

    * `skip_restores_inflight`   after deq j ; done j the jobs in flight are exactly those before
    * `skip_keeps_order`         the hand-out order of everybody else is unchanged, j is only appended to the history
    * `skip_never_runs`          j can never enter the worker function afterwards
    * `next_deq_after_skip`      whatever could be dequeued before the bad entry can be dequeued after it was skipped
-/
import VarmqVerif.Proofs.Disp

namespace VarmqVerif
namespace Disp

theorem filter_gone_snoc_of_not_mem {l gone : List Nat} {j : Nat} (hj : j ∉ l) :
    l.filter (fun i => !(gone ++ [j]).contains i) = l.filter (fun i => !gone.contains i) := by
  induction l with
  | nil => rfl
  | cons a t ih =>
    have ha : a ≠ j := fun e => hj (e ▸ List.mem_cons_self ..)
    have ht : j ∉ t := fun h => hj (List.mem_cons_of_mem _ h)
    simp only [List.filter_cons, ih ht]
    have : (gone ++ [j]).contains a = gone.contains a := by
      simp [ha]
    rw [this]

theorem skip_restores_inflight {s s1 s2 : State} {j : Nat} (h1 : step s (.deq j) = .ok s1)
    (h2 : step s1 (.done j) = .ok s2) : inflight s2 = inflight s := by
  obtain ⟨hj, _, e1⟩ := deq_ok h1
  obtain ⟨_, _, e2⟩ := done_ok h2
  subst e1
  subst e2
  show (s.deqd ++ [j]).filter (fun i => !(s.gone ++ [j]).contains i) = s.deqd.filter (fun i => !s.gone.contains i)
  rw [List.filter_append, filter_gone_snoc_of_not_mem hj]
  simp

theorem skip_keeps_order {s s1 s2 : State} {j : Nat} (h1 : step s (.deq j) = .ok s1)
    (h2 : step s1 (.done j) = .ok s2) : s2.deqd = s.deqd ++ [j] ∧ s2.entered = s.entered ∧ s2.maxLim = s.maxLim := by
  obtain ⟨_, _, e1⟩ := deq_ok h1
  obtain ⟨_, _, e2⟩ := done_ok h2
  subst e1
  subst e2
  exact ⟨rfl, rfl, rfl⟩

theorem skip_never_runs {s1 s2 : State} {j : Nat} (h2 : step s1 (.done j) = .ok s2) :
    ∀ s3, step s2 (.enter j) ≠ .ok s3 := by
  obtain ⟨_, _, e2⟩ := done_ok h2
  subst e2
  intro s3 h
  obtain ⟨_, _, hg, _⟩ := enter_ok h
  exact hg (by simp)

/-- whatever the dispatcher could take before the skipped entry, it can take after it -/
theorem next_deq_after_skip {s s1 s2 : State} {j k : Nat} (h1 : step s (.deq j) = .ok s1)
    (h2 : step s1 (.done j) = .ok s2) (hk : k ∉ s.deqd) (hkj : k ≠ j) :
    ∃ s3, step s2 (.deq k) = .ok s3 := by
  have hin := skip_restores_inflight h1 h2
  obtain ⟨hd, _, _⟩ := skip_keeps_order h1 h2
  obtain ⟨_, hcap, _⟩ := deq_ok h1
  have hml : s2.maxLim = s.maxLim := (skip_keeps_order h1 h2).2.2
  refine ⟨{ s2 with deqd := s2.deqd ++ [k] }, ?_⟩
  simp only [step]
  have hk2 : s2.deqd.contains k = false := by
    rw [hd]
    simp [hk, hkj]
  rw [hk2]
  have : ¬ ((inflight s2).length ≥ s2.maxLim) := by
    rw [hin, hml]
    omega
  simp [this]

-- non-vacuity: limit 1, a bad entry is skipped, the next one runs
example : (stateOf (run init [.lim 1, .deq 7, .done 7, .deq 8, .enter 8])).map (·.entered) = some [8] := by decide
example : accepted (run init [.lim 1, .deq 7, .done 7, .enter 7]) = false := by decide

#print axioms skip_restores_inflight
#print axioms skip_keeps_order
#print axioms skip_never_runs
#print axioms next_deq_after_skip

end Disp
end VarmqVerif
