/-
  Inductive invariants of the model `Wake` (Model/Wake.lean): the event loop's wake-up protocol
  (as in `Sig`) plus the condition-variable side (owed Broadcasts, w.mx, WaitUntilFinished).

  For every reachable state (`reach_invAB`, `reach_invM`, `reach_ghost`, `reach_parkedList`):
    (A) Dispatchable s → tok ∨ 0 < nOwes ∨ dph.willEval
    (B) dph = sawCur c → c ≤ cur ∨ tok ∨ 0 < nOwes
    (M) wph g ∈ {locked, sawStatus _, sawLen0, willPark, willReturn} → mx = some g
    `Ghost`       nOwes / nOwesBc are the sums of owes / owesBc over a finite duplicate-free support
    `ParkedList`  the goroutines in phase `parked` form a duplicate-free list of length nParked

  and, with  Cov s g := owesBc g < nOwesBc ∨ dph.active ∨ tok ∨ 0 < nOwes ∨ 0 < cur
  (a Broadcast that g does not perform itself is on its way), `reach_inv`:
    (G) 0 < conc → wph g = sawStatus running → disp ≠ some g → ws = running ∨ Cov s g ∨ (qlen = 0 ∧ cur = 0)
    (E) 0 < conc → wph g = willPark → disp ≠ some g → CondTrue s ∨ Cov s g
    (C) 0 < conc → 0 < nParked → CondTrue s ∨ 0 < nOwesBc ∨ dph.active ∨ tok ∨ 0 < nOwes ∨ 0 < cur
  The premise `0 < conc` is part of the clauses, not of the reachability notion: every step from
  conc = 0 to conc > 0 is a `stConc` upwards, which owes a notify(), so the clauses are restored
  at that moment.  `disp ≠ some g` in (G), (E): `step` lets the event-loop goroutine evaluate
  condition() (it never does in the Go code), and for that goroutine the clauses are false; (C)
  survives because the first guard of `wPark` rejects Cond.Wait by the event-loop goroutine.
-/
import VarmqVerif.Model.Wake

namespace VarmqVerif
namespace Wake

/-! ## run / Reach -/

theorem reach_run {s s' : State} {es : List Ev} (hr : Reach s) (h : run s es = .ok s') : Reach s' := by
  induction es generalizing s with
  | nil => simp only [run] at h; cases h; exact hr
  | cons e es ih =>
    simp only [run] at h
    split at h
    · rename_i s1 h1
      exact ih (Reach.step e hr h1) h
    · cases h

/-- common opening: unfold the step function for one constructor, split all guards, discard the
    error branches, and substitute the successor state -/
macro "wstep_cases" h:ident : tactic =>
  `(tactic| (
    simp only [step] at $h:ident
    repeat' (split at $h:ident)
    all_goals (first | (cases $h:ident; done) | skip)
    all_goals (first | (injection $h:ident with $h:ident; subst $h:ident) | skip)))

/-! ## The wake-up invariant of the event loop (as in `Sig`) -/

def InvA (s : State) : Prop :=
  Dispatchable s → s.tok = true ∨ 0 < s.nOwes ∨ s.dph.willEval = true

def InvB (s : State) : Prop :=
  ∀ c, s.dph = .sawCur c → c ≤ s.cur ∨ s.tok = true ∨ 0 < s.nOwes

def InvAB (s : State) : Prop := InvA s ∧ InvB s

theorem invAB_init (c : Nat) : InvAB (init c) := by
  refine ⟨?_, ?_⟩
  · intro hd
    simp [Dispatchable, init, running] at hd
  · intro c' h
    simp [init] at h

theorem invAB_step {s s' : State} {e : Ev} (hi : InvAB s) (h : step s e = .ok s') : InvAB s' := by
  obtain ⟨hA, hB⟩ := hi
  unfold InvA Dispatchable at hA
  unfold InvB at hB
  unfold InvAB InvA InvB Dispatchable
  cases e <;> wstep_cases h <;> grind [DPh.willEval, owe, oweBc]

/-! ## Mutual exclusion -/

/-- phases of WaitUntilFinished in which the goroutine holds w.mx -/
def WPh.crit : WPh → Bool
  | .locked | .sawStatus _ | .sawLen0 | .willPark | .willReturn => true
  | _ => false

def InvM (s : State) : Prop := ∀ g, (s.wph g).crit = true → s.mx = some g

theorem invM_init (c : Nat) : InvM (init c) := by
  intro g h; simp [init, WPh.crit] at h

theorem invM_step {s s' : State} {e : Ev} (hi : InvM s) (h : step s e = .ok s') : InvM s' := by
  unfold InvM at hi ⊢
  cases e <;> wstep_cases h <;> grind [WPh.crit, owe, oweBc, upd]

/-! ## Covered waiters -/

/-- A Broadcast that goroutine `g` does not perform itself is on its way. -/
def Cov (s : State) (g : Nat) : Prop :=
  s.owesBc g < s.nOwesBc ∨ s.dph.active = true ∨ s.tok = true ∨ 0 < s.nOwes ∨ 0 < s.cur

/-- (E) a goroutine (other than the event loop) that has decided to park -/
def InvE (s : State) : Prop :=
  0 < s.conc → ∀ g, s.wph g = .willPark → s.disp ≠ some g → CondTrue s ∨ Cov s g

/-- (G) a goroutine (other than the event loop) that has read status = running in condition() -/
def InvG (s : State) : Prop :=
  0 < s.conc → ∀ g, s.wph g = .sawStatus running → s.disp ≠ some g →
    s.ws = running ∨ Cov s g ∨ (s.qlen = 0 ∧ s.cur = 0)

/-- (C) the parked goroutines -/
def InvC (s : State) : Prop :=
  0 < s.conc → 0 < s.nParked →
    CondTrue s ∨ 0 < s.nOwesBc ∨ s.dph.active = true ∨ s.tok = true ∨ 0 < s.nOwes ∨ 0 < s.cur

/-- Where the hypotheses are needed: `stStatus` away from running with cur = 0 ∧ 0 < qlen: the state
    before was dispatchable, (A) gives a token, an owed notify() or an event loop that is active;
    `bcast g'`: g' holds w.mx, so by (M) it is `g` itself and the Broadcasts owed by others are
    untouched; `dCur` in phase `exiting` with result 0: the event loop owes a Broadcast, it is not
    `g`, and `owesBc g ≤ nOwesBc` makes the inequality strict; `pCur` (pause() loading cur) is a
    pure read or adds an owed Broadcast, which preserves the strict inequality also when it is
    `g` itself. -/
theorem invG_step {s s' : State} {e : Ev} (hA : InvA s) (hM : InvM s) (hle : ∀ g, s.owesBc g ≤ s.nOwesBc)
    (hi : InvG s) (h : step s e = .ok s') : InvG s' := by
  unfold InvA Dispatchable at hA
  unfold InvM at hM
  unfold InvG Cov at hi ⊢
  cases e <;> wstep_cases h <;> (try simp only [owe, oweBc]) <;>
    grind [isDisp, WPh.crit, DPh.willEval, DPh.active, upd]

/-- as `invG_step`; `wLen g n` with 0 < n uses (G), `wCur g c` with 0 < c gives 0 < cur -/
theorem invE_step {s s' : State} {e : Ev} (hA : InvA s) (hM : InvM s) (hle : ∀ g, s.owesBc g ≤ s.nOwesBc)
    (hG : InvG s) (hi : InvE s) (h : step s e = .ok s') : InvE s' := by
  unfold InvA Dispatchable at hA
  unfold InvM at hM
  unfold InvG Cov at hG
  unfold InvE Cov CondTrue at hi ⊢
  cases e <;> wstep_cases h <;> (try simp only [owe, oweBc]) <;>
    grind [isDisp, isQuietStatus, WPh.crit, DPh.willEval, DPh.active, upd]

/-- `wPark g` uses (E) (`g` is not the event loop: first guard of `wPark`); `bcast` makes (C) vacuous -/
theorem invC_step {s s' : State} {e : Ev} (hA : InvA s) (hle : ∀ g, s.owesBc g ≤ s.nOwesBc)
    (hE : InvE s) (hi : InvC s) (h : step s e = .ok s') : InvC s' := by
  unfold InvA Dispatchable at hA
  unfold InvE Cov CondTrue at hE
  unfold InvC CondTrue at hi ⊢
  cases e <;> wstep_cases h <;> (try simp only [owe, oweBc]) <;>
    grind [isDisp, WPh.crit, DPh.willEval, DPh.active, upd]

/-! ## The ghost counters -/

theorem sum_map_upd_not_mem (f : Nat → Nat) (g v : Nat) (l : List Nat) (hg : g ∉ l) :
    (l.map (upd f g v)).sum = (l.map f).sum := by
  induction l with
  | nil => rfl
  | cons a t ih =>
    simp only [List.mem_cons, not_or] at hg
    have ha : a ≠ g := fun h => hg.1 h.symm
    simp [List.map_cons, List.sum_cons, ih hg.2, upd, ha]

theorem sum_map_upd_mem (f : Nat → Nat) (g v : Nat) (l : List Nat) (hn : l.Nodup) (hg : g ∈ l) :
    (l.map (upd f g v)).sum + f g = (l.map f).sum + v := by
  induction l with
  | nil => cases hg
  | cons a t ih =>
    rw [List.nodup_cons] at hn
    by_cases ha : a = g
    · subst ha
      simp only [List.map_cons, List.sum_cons, upd_same, sum_map_upd_not_mem f a v t hn.1]
      omega
    · have hgt : g ∈ t := by
        rcases List.mem_cons.mp hg with h | h
        · exact absurd h.symm ha
        · exact h
      have := ih hn.2 hgt
      simp only [List.map_cons, List.sum_cons, upd_other f g a v ha]
      omega

theorem le_sum_of_mem (f : Nat → Nat) (g : Nat) (l : List Nat) (hg : g ∈ l) : f g ≤ (l.map f).sum := by
  induction l with
  | nil => cases hg
  | cons a t ih =>
    simp only [List.map_cons, List.sum_cons]
    rcases List.mem_cons.mp hg with h | h
    · subst h; omega
    · have := ih h; omega

theorem exists_pos_of_sum_pos (f : Nat → Nat) (l : List Nat) (h : 0 < (l.map f).sum) : ∃ g, g ∈ l ∧ 0 < f g := by
  induction l with
  | nil => simp at h
  | cons a t ih =>
    simp only [List.map_cons, List.sum_cons] at h
    by_cases ha : 0 < f a
    · exact ⟨a, List.mem_cons_self, ha⟩
    · obtain ⟨g, hg, hp⟩ := ih (by omega)
      exact ⟨g, List.mem_cons_of_mem a hg, hp⟩

/-- `n` is the sum of `f` over a finite duplicate-free list outside of which `f` is 0 -/
def SumOf (f : Nat → Nat) (n : Nat) : Prop :=
  ∃ l : List Nat, l.Nodup ∧ (∀ g, g ∉ l → f g = 0) ∧ (l.map f).sum = n

theorem sumOf_zero : SumOf (fun _ => 0) 0 := ⟨[], by simp, by simp, by simp⟩

theorem sumOf_incr {f : Nat → Nat} {n : Nat} (g : Nat) (hs : SumOf f n) : SumOf (upd f g (f g + 1)) (n + 1) := by
  obtain ⟨l, hn, h0, hsum⟩ := hs
  by_cases hg : g ∈ l
  · refine ⟨l, hn, ?_, ?_⟩
    · intro x hx
      have hxg : x ≠ g := fun h => hx (h ▸ hg)
      simp [upd, hxg, h0 x hx]
    · have := sum_map_upd_mem f g (f g + 1) l hn hg
      omega
  · refine ⟨g :: l, List.nodup_cons.mpr ⟨hg, hn⟩, ?_, ?_⟩
    · intro x hx
      simp only [List.mem_cons, not_or] at hx
      simp [upd, hx.1, h0 x hx.2]
    · have := sum_map_upd_not_mem f g (f g + 1) l hg
      have hz := h0 g hg
      simp only [List.map_cons, List.sum_cons, upd_same]
      omega

theorem sumOf_decr {f : Nat → Nat} {n : Nat} (g : Nat) (hpos : f g ≠ 0) (hs : SumOf f n) :
    SumOf (upd f g (f g - 1)) (n - 1) := by
  obtain ⟨l, hn, h0, hsum⟩ := hs
  have hg : g ∈ l := by
    apply Classical.byContradiction
    intro hg
    exact hpos (h0 g hg)
  refine ⟨l, hn, ?_, ?_⟩
  · intro x hx
    have hxg : x ≠ g := fun h => hx (h ▸ hg)
    simp [upd, hxg, h0 x hx]
  · have := sum_map_upd_mem f g (f g - 1) l hn hg
    omega

theorem sumOf_le {f : Nat → Nat} {n : Nat} (hs : SumOf f n) (g : Nat) : f g ≤ n := by
  obtain ⟨l, _, h0, hsum⟩ := hs
  by_cases hg : g ∈ l
  · have := le_sum_of_mem f g l hg
    omega
  · have := h0 g hg
    omega

theorem sumOf_pos {f : Nat → Nat} {n : Nat} (hs : SumOf f n) (h : 0 < n) : ∃ g, 0 < f g := by
  obtain ⟨l, _, _, hsum⟩ := hs
  obtain ⟨g, _, hp⟩ := exists_pos_of_sum_pos f l (by omega)
  exact ⟨g, hp⟩

/-- `nOwes` is the sum of `owes`, `nOwesBc` the sum of `owesBc` -/
def Ghost (s : State) : Prop := SumOf s.owes s.nOwes ∧ SumOf s.owesBc s.nOwesBc

theorem ghost_init (c : Nat) : Ghost (init c) := ⟨sumOf_zero, sumOf_zero⟩

theorem ghost_step {s s' : State} {e : Ev} (hs : Ghost s) (h : step s e = .ok s') : Ghost s' := by
  obtain ⟨h1, h2⟩ := hs
  cases e with
  | notify g sent =>
    wstep_cases h
    · exact ⟨h1, h2⟩
    · rename_i _ hz _
      exact ⟨sumOf_decr g (by simpa using hz) h1, h2⟩
  | bcast g n =>
    wstep_cases h
    rename_i _ hz _ _
    exact ⟨h1, sumOf_decr g (by simpa using hz) h2⟩
  | _ =>
    wstep_cases h <;>
      first
      | exact ⟨h1, h2⟩
      | exact ⟨sumOf_incr _ h1, h2⟩
      | exact ⟨h1, sumOf_incr _ h2⟩
      | exact ⟨sumOf_incr _ h1, sumOf_incr _ h2⟩

theorem reach_ghost {s : State} (hr : Reach s) : Ghost s := by
  induction hr with
  | init c => exact ghost_init c
  | step e _ h ih => exact ghost_step ih h

/-! ## The parked goroutines -/

/-- `nParked` is the number of goroutines in phase `parked` -/
def ParkedList (s : State) : Prop :=
  ∃ l : List Nat, l.Nodup ∧ (∀ g, s.wph g = .parked ↔ g ∈ l) ∧ l.length = s.nParked

theorem parkedList_init (c : Nat) : ParkedList (init c) := ⟨[], by simp, by simp [init], by simp [init]⟩

theorem parkedList_upd {s : State} {g : Nat} {v : WPh} {w : Nat → WPh} {n : Nat}
    (hold : s.wph g ≠ .parked) (hv : v ≠ .parked) (hw : w = upd s.wph g v) (hn : n = s.nParked)
    (hs : ParkedList s) : ∃ l : List Nat, l.Nodup ∧ (∀ x, w x = .parked ↔ x ∈ l) ∧ l.length = n := by
  obtain ⟨l, hnd, hm, hlen⟩ := hs
  refine ⟨l, hnd, ?_, by omega⟩
  intro x
  subst hw
  by_cases hx : x = g
  · subst hx
    have := hm x
    simp [upd, hv]
    grind
  · simp [upd, hx, hm x]

theorem parkedList_step {s s' : State} {e : Ev} (hs : ParkedList s) (h : step s e = .ok s') : ParkedList s' := by
  cases e with
  | bcast g n =>
    wstep_cases h
    refine ⟨[], by simp, ?_, rfl⟩
    intro x
    by_cases hx : s.wph x = .parked <;> simp [hx]
  | wPark g =>
    wstep_cases h
    rename_i _ hp
    have hp' : s.wph g = .willPark := by simpa using hp
    obtain ⟨l, hnd, hm, hlen⟩ := hs
    have hg : g ∉ l := by
      intro hg
      have := (hm g).mpr hg
      simp [hp'] at this
    refine ⟨g :: l, List.nodup_cons.mpr ⟨hg, hnd⟩, ?_, by simp [hlen]⟩
    intro x
    by_cases hx : x = g
    · subst hx; simp [upd]
    · simp [upd, hx, hm x]
  | _ =>
    wstep_cases h <;>
      first
      | exact hs
      | (refine parkedList_upd (s := s) ?_ ?_ rfl rfl hs <;> grind)

theorem reach_parkedList {s : State} (hr : Reach s) : ParkedList s := by
  induction hr with
  | init c => exact parkedList_init c
  | step e _ h ih => exact parkedList_step ih h

/-! ## Putting the invariant together -/

theorem reach_invAB {s : State} (hr : Reach s) : InvAB s := by
  induction hr with
  | init c => exact invAB_init c
  | step e _ h ih => exact invAB_step ih h

theorem reach_invM {s : State} (hr : Reach s) : InvM s := by
  induction hr with
  | init c => exact invM_init c
  | step e _ h ih => exact invM_step ih h

structure Inv (s : State) : Prop where
  ab : InvAB s
  m : InvM s
  g : InvG s
  e : InvE s
  c : InvC s

theorem inv_init (c : Nat) : Inv (init c) := by
  refine ⟨invAB_init c, invM_init c, ?_, ?_, ?_⟩
  · intro _ g h; simp [init] at h
  · intro _ g h; simp [init] at h
  · intro _ h; simp [init] at h

theorem reach_inv {s : State} (hr : Reach s) : Inv s := by
  induction hr with
  | init c => exact inv_init c
  | @step s s' e hr h ih =>
    have hle : ∀ g, s.owesBc g ≤ s.nOwesBc := sumOf_le (reach_ghost hr).2
    exact ⟨invAB_step ih.ab h, invM_step ih.m h, invG_step ih.ab.1 ih.m hle ih.g h,
      invE_step ih.ab.1 ih.m hle ih.g ih.e h, invC_step ih.ab.1 hle ih.e ih.c h⟩

end Wake
end VarmqVerif
