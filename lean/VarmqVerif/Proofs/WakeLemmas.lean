import VarmqVerif.Model.Wake

namespace VarmqVerif
namespace Wake

/-! ## run / Reach -/

theorem reach_run {s s' : State} {es : List Ev} (hr : Reach s) (h : run s es = .ok s') : Reach s' := by
  induction es generalizing s with
  | nil => simp only [run] at h; cases h; exact hr
  | cons e es ih =>
    simp only [run] at h
    split at h
    · rename_i s1 h1
      exact ih (Reach.step e hr h1) h
    · cases h

/-- common opening: unfold the step function for one constructor, split all guards, discard the
    error branches, and substitute the successor state -/
macro "wstep_cases" h:ident : tactic =>
  `(tactic| (
    simp only [step] at $h:ident
    repeat' (split at $h:ident)
    all_goals (first | (cases $h:ident; done) | skip)
    all_goals (first | (injection $h:ident with $h:ident; subst $h:ident) | skip)))

/-! ## The wake-up invariant of the event loop (as in `Sig`) -/

def InvA (s : State) : Prop :=
  Dispatchable s → s.tok = true ∨ 0 < s.nOwes ∨ s.dph.willEval = true

def InvB (s : State) : Prop :=
  ∀ c, s.dph = .sawCur c → c ≤ s.cur ∨ s.tok = true ∨ 0 < s.nOwes

def InvAB (s : State) : Prop := InvA s ∧ InvB s

theorem invAB_init (c : Nat) : InvAB (init c) := by
  refine ⟨?_, ?_⟩
  · intro hd
    simp [Dispatchable, init, running] at hd
  · intro c' h
    simp [init] at h

theorem invAB_step {s s' : State} {e : Ev} (hi : InvAB s) (h : step s e = .ok s') : InvAB s' := by
  obtain ⟨hA, hB⟩ := hi
  unfold InvA Dispatchable at hA
  unfold InvB at hB
  unfold InvAB InvA InvB Dispatchable
  cases e <;> wstep_cases h <;> grind [DPh.willEval, owe, oweBc]

/-! ## Mutual exclusion -/

/-- phases of WaitUntilFinished in which the goroutine holds w.mx -/
def WPh.crit : WPh → Bool
  | .locked | .sawStatus _ | .sawLen0 | .willPark | .willReturn => true
  | _ => false

def InvM (s : State) : Prop := ∀ g, (s.wph g).crit = true → s.mx = some g

theorem invM_init (c : Nat) : InvM (init c) := by
  intro g h; simp [init, WPh.crit] at h

theorem invM_step {s s' : State} {e : Ev} (hi : InvM s) (h : step s e = .ok s') : InvM s' := by
  unfold InvM at hi ⊢
  cases e <;> wstep_cases h <;> grind [WPh.crit, owe, oweBc, upd]

/-! ## Covered waiters -/

/-- A Broadcast that goroutine `g` does not perform itself is on its way. -/
def Cov (s : State) (g : Nat) : Prop :=
  s.owesBc g < s.nOwesBc ∨ s.dph.active = true ∨ s.tok = true ∨ 0 < s.nOwes ∨ 0 < s.cur

/-- the event-loop goroutine is not in the middle of WaitUntilFinished's condition() -/
def LoopNotWaiting (s : State) : Prop :=
  ∀ d, s.disp = some d → s.wph d ≠ .willPark ∧ s.wph d ≠ .sawStatus running

def InvE (s : State) : Prop :=
  0 < s.conc → ∀ g, s.wph g = .willPark → CondTrue s ∨ Cov s g

def InvG (s : State) : Prop :=
  0 < s.conc → ∀ g, s.wph g = .sawStatus running → s.ws = running ∨ Cov s g ∨ (s.qlen = 0 ∧ s.cur = 0)

def InvC (s : State) : Prop :=
  0 < s.conc → 0 < s.nParked →
    CondTrue s ∨ 0 < s.nOwesBc ∨ s.dph.active = true ∨ s.tok = true ∨ 0 < s.nOwes ∨ 0 < s.cur

theorem invG_step {s s' : State} {e : Ev} (hA : InvA s) (hM : InvM s) (hle : ∀ g, s.owesBc g ≤ s.nOwesBc)
    (hsep : LoopNotWaiting s) (hi : InvG s) (h : step s e = .ok s') : InvG s' := by
  unfold InvA Dispatchable at hA
  unfold InvM at hM
  unfold LoopNotWaiting at hsep
  unfold InvG Cov at hi ⊢
  cases e <;> wstep_cases h <;> grind [isDisp, WPh.crit, DPh.willEval, DPh.active, owe, oweBc, upd]

end Wake
end VarmqVerif
