/-
  Theorems about the model of /repo/internal/helpers/manager.go (VarmqVerif/Model/Manager.lean).
  Core tactics only.

  Main results
  * `rr_spec` (+ `rr_ok_offset`, `rr_ok_iff`, `rr_allEmpty_iff`, `rr_allEmpty_cursor`,
    `rr_cursor_lt`, `rr_noItems_iff`): functional specification of `GetRoundRobinItem`; the index
    expression `m.items[m.roundRobinIndex]` never panics from an in-range cursor and the cursor
    stays in range.
  * `maxLen_spec`, `minLen_spec` (+ the unconditional `maxLen_ok`, `maxLen_allEmpty_iff`).
  * `total_eq_sum`.
  * `rr_no_starvation`, `rr_equal_share` (`rr_equal_share_int`): fairness of round robin over
    unbounded runs of the machine `step` (events `enq i`, `select`), via the cyclic distance
    `dist n rr i` from the cursor.
-/
import VarmqVerif.Model.Manager

namespace VarmqVerif
namespace Manager

/-! ## Arithmetic of the cyclic order -/


theorem mod_cases (x n : Nat) (h : x < 2 * n) :
    (x < n ∧ x % n = x) ∨ (n ≤ x ∧ x % n = x - n) := by
  by_cases hx : x < n
  · exact .inl ⟨hx, Nat.mod_eq_of_lt hx⟩
  · refine .inr ⟨by omega, ?_⟩
    rw [Nat.mod_eq_sub_mod (by omega), Nat.mod_eq_of_lt (by omega)]

/-- cyclic distance from the cursor `rr` to index `i` -/
def dist (n rr i : Nat) : Nat := (i + n - rr) % n

theorem dist_lt {n rr i : Nat} (hn : 0 < n) : dist n rr i < n := Nat.mod_lt _ hn

theorem add_dist {n rr i : Nat} (hr : rr < n) (hi : i < n) : (rr + dist n rr i) % n = i := by
  unfold dist
  rcases mod_cases (i + n - rr) n (by omega) with h | h <;>
  rcases mod_cases (rr + (i + n - rr) % n) n (by omega) with h' | h' <;> omega

theorem dist_add {n rr k : Nat} (hr : rr < n) (hk : k < n) : dist n rr ((rr + k) % n) = k := by
  unfold dist
  rcases mod_cases (rr + k) n (by omega) with h | h <;>
  rcases mod_cases ((rr + k) % n + n - rr) n (by omega) with h' | h' <;> omega

/-- Closed form of the cyclic distance without `%`: the number of steps from `rr` forward to `i`
in the order `rr, rr+1, …, n-1, 0, …, rr-1`. -/
theorem dist_eq {n rr i : Nat} (hr : rr < n) (hi : i < n) :
    dist n rr i = if rr ≤ i then i - rr else i + n - rr := by
  unfold dist
  rcases mod_cases (i + n - rr) n (by omega) with h | h <;> split <;> omega

theorem succ_mod {n q : Nat} (hq : q < n) : (q + 1) % n = if q + 1 = n then 0 else q + 1 := by
  rcases mod_cases (q + 1) n (by omega) with h | h <;> split <;> omega

/-- Distances seen from the cursor after item `q` has been served (`rr' = (q+1) % n`). -/
theorem dist_after {n rr q t : Nat} (hr : rr < n) (hq : q < n) (ht : t < n) :
    dist n ((q + 1) % n) t =
      if dist n rr q < dist n rr t then dist n rr t - dist n rr q - 1
      else dist n rr t + n - dist n rr q - 1 := by
  have hq1 : (q + 1) % n < n := Nat.mod_lt _ (by omega)
  rw [dist_eq hq1 ht, dist_eq hr hq, dist_eq hr ht, succ_mod hq]
  by_cases h1 : q + 1 = n <;> by_cases h2 : rr ≤ q <;> by_cases h3 : rr ≤ t <;>
    simp only [h1, h2, h3, if_true, if_false] <;> split <;> split <;> omega

/-! ## GetRoundRobinItem -/

/-- value at index `i`, 0 outside the list -/
abbrev at0 (lens : List Int) (i : Nat) : Int := lens[i]?.getD 0

theorem succ_ne_start {n start k : Nat} (hs : start < n) (hk : k + 1 < n) :
    ((start + k) % n + 1) % n ≠ start := by
  rw [Nat.mod_add_mod]
  rcases mod_cases (start + k + 1) n (by omega) with h | h <;> omega

theorem succ_eq_start {n start k : Nat} (hs : start < n) (hk : k + 1 = n) :
    ((start + k) % n + 1) % n = start := by
  rw [Nat.mod_add_mod]
  rcases mod_cases (start + k + 1) n (by omega) with h | h <;> omega

theorem rrLoop_spec (lens : List Int) (start : Nat) (hs : start < lens.length) :
    ∀ fuel k, k + fuel = lens.length → 0 < fuel →
      (∀ k', k' < k → at0 lens ((start + k') % lens.length) ≤ 0) →
      (∃ d, k ≤ d ∧ d < lens.length ∧ 0 < at0 lens ((start + d) % lens.length) ∧
          (∀ k', k' < d → at0 lens ((start + k') % lens.length) ≤ 0) ∧
          rrLoop lens start fuel ((start + k) % lens.length)
            = (.ok ((start + d) % lens.length), (start + d + 1) % lens.length)) ∨
      ((∀ k', k' < lens.length → at0 lens ((start + k') % lens.length) ≤ 0) ∧
          rrLoop lens start fuel ((start + k) % lens.length) = (.error .allEmpty, start)) := by
  intro fuel
  induction fuel with
  | zero => intro k _ h; omega
  | succ fuel ih =>
    intro k hk _ hpre
    have hn : 0 < lens.length := by omega
    have hlt : (start + k) % lens.length < lens.length := Nat.mod_lt _ hn
    rw [rrLoop, dif_pos hlt]
    have hat : at0 lens ((start + k) % lens.length) = lens[(start + k) % lens.length] := by
      simp [at0, hlt]
    by_cases hpos : lens[(start + k) % lens.length] > 0
    · left
      refine ⟨k, Nat.le_refl _, by omega, by rw [hat]; exact hpos, hpre, ?_⟩
      simp only [hpos, if_true]
      rw [Nat.mod_add_mod]
    · simp only [hpos, if_false]
      have hpre' : ∀ k', k' < k + 1 → at0 lens ((start + k') % lens.length) ≤ 0 := by
        intro k' hk'
        by_cases h : k' = k
        · subst h; rw [hat]; omega
        · exact hpre k' (by omega)
      by_cases hlast : k + 1 = lens.length
      · right
        rw [if_pos (succ_eq_start hs hlast)]
        refine ⟨fun k' hk' => hpre' k' (by omega), ?_⟩
        rw [succ_eq_start hs hlast]
      · rw [if_neg (succ_ne_start hs (by omega))]
        rw [Nat.mod_add_mod]
        rcases ih (k + 1) (by omega) (by omega) hpre' with ⟨d, h1, h2, h3, h4, h5⟩ | ⟨h1, h2⟩
        · left; exact ⟨d, by omega, h2, h3, h4, h5⟩
        · right; exact ⟨h1, h2⟩




/-- Offset form of the specification of `GetRoundRobinItem` for a cursor in range. -/
theorem roundRobin_offset_spec (lens : List Int) (rr : Nat) (hrr : rr < lens.length) :
    (∃ d, d < lens.length ∧ 0 < at0 lens ((rr + d) % lens.length) ∧
        (∀ k', k' < d → at0 lens ((rr + k') % lens.length) ≤ 0) ∧
        roundRobin lens rr = (.ok ((rr + d) % lens.length), (rr + d + 1) % lens.length)) ∨
    ((∀ k', k' < lens.length → at0 lens ((rr + k') % lens.length) ≤ 0) ∧
        roundRobin lens rr = (.error .allEmpty, rr)) := by
  have hn : lens.length ≠ 0 := by omega
  have h := rrLoop_spec lens rr hrr lens.length 0 (by omega) (by omega) (by intro k' hk'; omega)
  rw [Nat.add_zero, Nat.mod_eq_of_lt hrr] at h
  unfold roundRobin
  rw [if_neg hn]
  rcases h with ⟨d, _, h2, h3, h4, h5⟩ | ⟨h1, h2⟩
  · left; exact ⟨d, h2, h3, h4, h5⟩
  · right; exact ⟨h1, h2⟩

theorem at0_eq (lens : List Int) (i : Nat) (h : i < lens.length) : at0 lens i = lens[i] := by
  simp [at0, h]

/-- all cyclic offsets non-positive ↔ all entries non-positive -/
theorem all_offsets_iff (lens : List Int) (rr : Nat) (hrr : rr < lens.length) :
    (∀ k', k' < lens.length → at0 lens ((rr + k') % lens.length) ≤ 0) ↔
    (∀ j (hj : j < lens.length), lens[j] ≤ 0) := by
  have hn : 0 < lens.length := by omega
  constructor
  · intro h j hj
    have := h (dist lens.length rr j) (dist_lt hn)
    rw [add_dist hrr hj, at0_eq _ _ hj] at this
    exact this
  · intro h k' hk'
    have hlt : (rr + k') % lens.length < lens.length := Nat.mod_lt _ hn
    rw [at0_eq _ _ hlt]
    exact h _ hlt

/--
**rr_spec** (`dist` form). For a cursor in range, `GetRoundRobinItem`
* returns `.ok q` exactly when some length is positive; `q` is then the non-empty item that is
  cyclically closest to the cursor (`dist n rr q` = number of steps from `rr` to `q` in the order
  `rr, rr+1, …, n-1, 0, …, rr-1`), every item strictly before it in that order is empty, and the
  new cursor is `(q + 1) % n`;
* returns `ErrAllItemsEmpty` exactly when no length is positive, and then the cursor is back at
  its starting value.
-/
theorem rr_spec (lens : List Int) (rr : Nat) (hrr : rr < lens.length) :
    ((∃ j, ∃ hj : j < lens.length, 0 < lens[j]) →
      ∃ q, ∃ hq : q < lens.length,
        roundRobin lens rr = (.ok q, (q + 1) % lens.length) ∧ 0 < lens[q] ∧
        ∀ t (ht : t < lens.length), dist lens.length rr t < dist lens.length rr q → lens[t] ≤ 0) ∧
    ((∀ j (hj : j < lens.length), lens[j] ≤ 0) →
      roundRobin lens rr = (.error .allEmpty, rr)) := by
  have hn : 0 < lens.length := by omega
  rcases roundRobin_offset_spec lens rr hrr with ⟨d, h1, h2, h3, h4⟩ | ⟨h1, h2⟩
  · have hlt : (rr + d) % lens.length < lens.length := Nat.mod_lt _ hn
    constructor
    · intro _
      refine ⟨(rr + d) % lens.length, hlt, ?_, ?_, ?_⟩
      · rw [h4, Nat.mod_add_mod]
      · rw [← at0_eq _ _ hlt]; exact h2
      · intro t ht hdt
        rw [dist_add hrr h1] at hdt
        have := h3 _ hdt
        rw [add_dist hrr ht, at0_eq _ _ ht] at this
        exact this
    · intro hall
      have := hall _ hlt
      rw [← at0_eq _ _ hlt] at this
      omega
  · constructor
    · rintro ⟨j, hj, hpos⟩
      have := (all_offsets_iff lens rr hrr).mp h1 j hj
      omega
    · intro _; exact h2

/-- The first index in cyclic order: explicit offset version of `rr_spec` -/
theorem rr_ok_offset (lens : List Int) (rr : Nat) (hrr : rr < lens.length) (q rr' : Nat)
    (h : roundRobin lens rr = (.ok q, rr')) :
    ∃ k, k < lens.length ∧ q = (rr + k) % lens.length ∧ rr' = (q + 1) % lens.length ∧
      0 < at0 lens q ∧ ∀ k', k' < k → at0 lens ((rr + k') % lens.length) ≤ 0 := by
  rcases roundRobin_offset_spec lens rr hrr with ⟨d, h1, h2, h3, h4⟩ | ⟨h1, h2⟩
  · rw [h4] at h
    obtain ⟨hq, hr⟩ := Prod.mk.inj h
    have hq' : (rr + d) % lens.length = q := by injection hq
    subst hq'
    exact ⟨d, h1, rfl, by rw [← hr, Nat.mod_add_mod], h2, h3⟩
  · rw [h2] at h
    obtain ⟨hq, _⟩ := Prod.mk.inj h
    cases hq

theorem rr_noItems (rr : Nat) : roundRobin [] rr = (.error .noItems, rr) := rfl

theorem rr_noItems_iff (lens : List Int) (rr : Nat) (hrr : rr < lens.length ∨ lens = []) :
    (roundRobin lens rr).1 = .error .noItems ↔ lens = [] := by
  constructor
  · intro h
    rcases hrr with hrr | hrr
    · rcases roundRobin_offset_spec lens rr hrr with ⟨d, _, _, _, h4⟩ | ⟨_, h2⟩
      · rw [h4] at h; cases h
      · rw [h2] at h; cases h
    · exact hrr
  · rintro rfl; rfl

/-- `.ok` ↔ some item is non-empty. -/
theorem rr_ok_iff (lens : List Int) (rr : Nat) (hrr : rr < lens.length) :
    (∃ q, (roundRobin lens rr).1 = .ok q) ↔ ∃ j, ∃ hj : j < lens.length, 0 < lens[j] := by
  have hs := rr_spec lens rr hrr
  constructor
  · rintro ⟨q, hq⟩
    refine Classical.byContradiction fun hno => ?_
    have hall : ∀ j (hj : j < lens.length), lens[j] ≤ 0 := by
      intro j hj
      refine Classical.byContradiction fun hp => hno ⟨j, hj, by omega⟩
    rw [hs.2 hall] at hq
    cases hq
  · intro h
    obtain ⟨q, _, h1, _⟩ := hs.1 h
    exact ⟨q, by rw [h1]⟩

/-- `ErrAllItemsEmpty` ↔ no item is non-empty; the cursor is then unchanged. -/
theorem rr_allEmpty_iff (lens : List Int) (rr : Nat) (hrr : rr < lens.length) :
    (roundRobin lens rr).1 = .error .allEmpty ↔ ∀ j (hj : j < lens.length), lens[j] ≤ 0 := by
  have hs := rr_spec lens rr hrr
  constructor
  · intro h j hj
    refine Classical.byContradiction fun hp => ?_
    obtain ⟨q, _, h1, _⟩ := hs.1 ⟨j, hj, by omega⟩
    rw [h1] at h
    cases h
  · intro h; rw [hs.2 h]

theorem rr_allEmpty_cursor (lens : List Int) (rr : Nat) (hrr : rr < lens.length)
    (h : (roundRobin lens rr).1 = .error .allEmpty) : (roundRobin lens rr).2 = rr := by
  rw [(rr_spec lens rr hrr).2 ((rr_allEmpty_iff lens rr hrr).mp h)]

/-- The guard `rr < len(items)` is invariant: the index expression in the loop never panics. -/
theorem rr_cursor_lt (lens : List Int) (rr : Nat) (hrr : rr < lens.length) :
    (roundRobin lens rr).2 < lens.length := by
  have hn : 0 < lens.length := by omega
  rcases roundRobin_offset_spec lens rr hrr with ⟨d, _, _, _, h4⟩ | ⟨_, h2⟩
  · rw [h4]; exact Nat.mod_lt _ hn
  · rw [h2]; exact hrr


-- Non-vacuity (GetRoundRobinItem), all by `decide`.
-- rr_spec: cursor 2 of 4, items 0 and 2 empty: item 3 is served, cursor wraps to 0.
example : roundRobin [0, 3, 0, 2] 2 = (.ok 3, 0) := by decide
-- cursor 0: item 0 is empty and skipped, item 1 is served, cursor 2.
example : roundRobin [0, 3, 0, 2] 0 = (.ok 1, 2) := by decide
-- all empty (including a hypothetical negative length): error, cursor back at its start.
example : roundRobin [0, -1, 0] 1 = (.error .allEmpty, 1) := by decide
example : roundRobin [] 7 = (.error .noItems, 7) := by decide
-- hypotheses of rr_spec hold non-trivially
example : (2 : Nat) < [0, 3, 0, 2].length ∧ ∃ j, ∃ hj : j < [0, 3, 0, 2].length, (0 : Int) < [0, 3, 0, 2][j] :=
  ⟨by decide, 1, by decide, by decide⟩
-- out-of-range cursor (Go: index-out-of-range panic), totalised:
example : roundRobin [1, 1] 2 = (.error .allEmpty, 2) := by decide

/-! ## GetMaxLenItem -/


theorem maxFrom_spec : ∀ (xs : List Int) (i mi : Nat) (mv : Int),
    (maxFrom xs i mi mv = (mi, mv) ∧ ∀ x ∈ xs, x ≤ mv) ∨
    (∃ k, ∃ h : k < xs.length, maxFrom xs i mi mv = (i + k, xs[k]) ∧ mv < xs[k] ∧
      (∀ j (hj : j < k), xs[j] < xs[k]) ∧ ∀ j (hj : j < xs.length), xs[j] ≤ xs[k]) := by
  intro xs
  induction xs with
  | nil => intro i mi mv; left; simp [maxFrom]
  | cons x xs ih =>
    intro i mi mv
    rw [maxFrom]
    split
    · next hgt =>
      right
      rcases ih (i + 1) i x with ⟨h1, h2⟩ | ⟨k, hk, h1, h2, h3, h4⟩
      · refine ⟨0, by simp, by simpa using h1, by simp; omega, by intro j hj; omega, ?_⟩
        intro j hj
        cases j with
        | zero => simp
        | succ j => simpa using h2 _ (List.getElem_mem (by simpa using hj))
      · refine ⟨k + 1, by simpa using hk, ?_, by simp; omega, ?_, ?_⟩
        · rw [h1]; simp; omega
        · intro j hj
          cases j with
          | zero => simpa using h2
          | succ j => simpa using h3 j (by omega)
        · intro j hj
          cases j with
          | zero => simp; omega
          | succ j => simpa using h4 j (by simpa using hj)
    · next hle =>
      rcases ih (i + 1) mi mv with ⟨h1, h2⟩ | ⟨k, hk, h1, h2, h3, h4⟩
      · left
        refine ⟨h1, ?_⟩
        intro y hy
        rcases List.mem_cons.mp hy with rfl | hy
        · omega
        · exact h2 y hy
      · right
        refine ⟨k + 1, by simpa using hk, ?_, by simpa using h2, ?_, ?_⟩
        · rw [h1]; simp; omega
        · intro j hj
          cases j with
          | zero => simp; omega
          | succ j => simpa using h3 j (by omega)
        · intro j hj
          cases j with
          | zero => simp; omega
          | succ j => simpa using h4 j (by simpa using hj)

/-- The index/value pair computed by `slices.MaxFunc`: the first maximal element. -/
theorem maxFrom_top (x0 : Int) (xs : List Int) (mi : Nat) (mv : Int)
    (hr : maxFrom xs 1 0 x0 = (mi, mv)) :
    ∃ h : mi < (x0 :: xs).length,
      mv = (x0 :: xs)[mi] ∧
      (∀ j (hj : j < (x0 :: xs).length), (x0 :: xs)[j] ≤ mv) ∧
      (∀ j (hj : j < mi), (x0 :: xs)[j] < mv) := by
  rcases maxFrom_spec xs 1 0 x0 with ⟨h1, h2⟩ | ⟨k, hk, h1, h2, h3, h4⟩
  · rw [h1] at hr
    obtain ⟨rfl, rfl⟩ := Prod.mk.inj hr
    refine ⟨by simp, by simp, ?_, by intro j hj; simp at hj⟩
    intro j hj
    cases j with
    | zero => simp
    | succ j => simpa using h2 _ (List.getElem_mem (by simpa using hj))
  · rw [h1] at hr
    obtain ⟨rfl, rfl⟩ := Prod.mk.inj hr
    refine ⟨by simp; omega, ?_, ?_, ?_⟩
    · simp [Nat.add_comm 1 k]
    · intro j hj
      cases j with
      | zero => simp; omega
      | succ j => simpa using h4 j (by simpa using hj)
    · intro j hj
      cases j with
      | zero => simp; omega
      | succ j => simpa using h3 j (by omega)



theorem maxLen_nil : maxLen [] = .error .noItems := rfl

theorem maxLen_noItems_iff (lens : List Int) : maxLen lens = .error .noItems ↔ lens = [] := by
  cases lens with
  | nil => simp [maxLen]
  | cons x xs =>
    simp only [maxLen]
    split <;> simp

/--
**maxLen_ok** (part of `maxLen_spec`). `.ok i` → `lens[i]` is the maximum, `i` is the first index attaining it and
`lens[i] ≠ 0` (hence `> 0` when all lengths are `≥ 0`, see `maxLen_ok_pos`).
-/
theorem maxLen_ok (lens : List Int) (i : Nat) (h : maxLen lens = .ok i) :
    ∃ hi : i < lens.length,
      (∀ j (hj : j < lens.length), lens[j] ≤ lens[i]) ∧
      (∀ j (hj : j < i), lens[j] < lens[i]) ∧ lens[i] ≠ 0 := by
  cases lens with
  | nil => simp [maxLen] at h
  | cons x xs =>
    simp only [maxLen] at h
    generalize hr : maxFrom xs 1 0 x = r at h
    obtain ⟨mi, mv⟩ := r
    obtain ⟨h1, h2, h3, h4⟩ := maxFrom_top x xs mi mv hr
    simp only at h
    split at h
    · cases h
    · next hne =>
      injection h with h
      subst h
      subst h2
      exact ⟨h1, h3, h4, hne⟩

theorem maxLen_ok_pos (lens : List Int) (hnn : ∀ l ∈ lens, 0 ≤ l) (i : Nat)
    (h : maxLen lens = .ok i) : ∃ hi : i < lens.length, 0 < lens[i] := by
  obtain ⟨hi, _, _, hne⟩ := maxLen_ok lens i h
  have := hnn _ (List.getElem_mem hi)
  exact ⟨hi, by omega⟩

/-- `ErrAllItemsEmpty` ↔ the maximum is exactly 0. -/
theorem maxLen_allEmpty_iff (lens : List Int) :
    maxLen lens = .error .allEmpty ↔
      lens ≠ [] ∧ (∀ j (hj : j < lens.length), lens[j] ≤ 0) ∧
        ∃ j, ∃ hj : j < lens.length, lens[j] = 0 := by
  cases lens with
  | nil => simp [maxLen]
  | cons x xs =>
    simp only [maxLen]
    generalize hr : maxFrom xs 1 0 x = r
    obtain ⟨mi, mv⟩ := r
    obtain ⟨h1, h2, h3, h4⟩ := maxFrom_top x xs mi mv hr
    simp only
    constructor
    · intro h
      split at h
      · next h0 =>
        subst h0
        exact ⟨by simp, h3, mi, h1, h2.symm⟩
      · cases h
    · rintro ⟨_, hall, j, hj, hz⟩
      have h5 := h3 j hj
      have h6 := hall mi h1
      rw [if_pos (by omega)]

/-- With non-negative lengths: `ErrAllItemsEmpty` ↔ every length is 0. -/
theorem maxLen_allEmpty_iff_of_nonneg (lens : List Int) (hnn : ∀ l ∈ lens, 0 ≤ l) :
    maxLen lens = .error .allEmpty ↔ lens ≠ [] ∧ ∀ j (hj : j < lens.length), lens[j] = 0 := by
  rw [maxLen_allEmpty_iff]
  constructor
  · rintro ⟨h1, h2, _⟩
    refine ⟨h1, fun j hj => ?_⟩
    have := h2 j hj
    have := hnn _ (List.getElem_mem hj)
    omega
  · rintro ⟨h1, h2⟩
    refine ⟨h1, fun j hj => by rw [h2 j hj]; omega, 0, ?_, h2 0 ?_⟩ <;>
    · cases lens with
      | nil => exact absurd rfl h1
      | cons => simp

/-- With non-negative lengths: `.ok` ↔ some length is positive. -/
theorem maxLen_ok_iff_of_nonneg (lens : List Int) (hnn : ∀ l ∈ lens, 0 ≤ l) :
    (∃ i, maxLen lens = .ok i) ↔ ∃ j, ∃ hj : j < lens.length, 0 < lens[j] := by
  constructor
  · rintro ⟨i, h⟩
    obtain ⟨hi, hp⟩ := maxLen_ok_pos lens hnn i h
    exact ⟨i, hi, hp⟩
  · rintro ⟨j, hj, hp⟩
    cases hm : maxLen lens with
    | ok i => exact ⟨i, rfl⟩
    | error e =>
      cases e with
      | noItems =>
        rw [maxLen_noItems_iff] at hm
        subst hm; simp at hj
      | allEmpty =>
        have := ((maxLen_allEmpty_iff lens).mp hm).2.1 j hj
        omega


/--
**maxLen_spec** (bundle, for non-negative lengths, which is what `Len()` returns).
`.ok i` → `lens[i]` is positive and maximal and `i` is the first index attaining the maximum;
`ErrAllItemsEmpty` ↔ items are registered and all lengths are 0; `ErrNoItemsRegistered` ↔ no
items; `.ok` ↔ some length is positive. (Without the non-negativity assumption see `maxLen_ok`,
`maxLen_allEmpty_iff`: the Go test is `== 0`, so a negative maximum would be returned as `.ok`.)
-/
theorem maxLen_spec (lens : List Int) (hnn : ∀ l ∈ lens, 0 ≤ l) :
    (∀ i, maxLen lens = .ok i → ∃ hi : i < lens.length, 0 < lens[i] ∧
        (∀ j (hj : j < lens.length), lens[j] ≤ lens[i]) ∧ (∀ j (hj : j < i), lens[j] < lens[i])) ∧
    (maxLen lens = .error .allEmpty ↔ lens ≠ [] ∧ ∀ j (hj : j < lens.length), lens[j] = 0) ∧
    (maxLen lens = .error .noItems ↔ lens = []) ∧
    ((∃ i, maxLen lens = .ok i) ↔ ∃ j, ∃ hj : j < lens.length, 0 < lens[j]) := by
  refine ⟨?_, maxLen_allEmpty_iff_of_nonneg lens hnn, maxLen_noItems_iff lens,
    maxLen_ok_iff_of_nonneg lens hnn⟩
  intro i h
  obtain ⟨hi, h1, h2, _⟩ := maxLen_ok lens i h
  obtain ⟨_, hp⟩ := maxLen_ok_pos lens hnn i h
  exact ⟨hi, hp, h1, h2⟩

-- Non-vacuity (GetMaxLenItem).
-- maxLen_spec: first maximal element; minLen_spec: first smallest positive element.
example : maxLen [1, 3, 3, 2] = .ok 1 := by decide
example : maxLen [0, 0] = .error .allEmpty := by decide
example : maxLen [] = .error .noItems := by decide
-- `== 0` rather than `<= 0`: a (hypothetical) negative maximum is returned as a valid item.
example : maxLen [-1, -2] = .ok 0 := by decide

/-! ## GetMinLenItem -/


theorem minFrom_spec : ∀ (xs : List Int) (i mi : Nat) (ml : Int), (ml = -1 ∨ 0 < ml) →
    (minFrom xs i mi ml = (mi, ml) ∧ ∀ x ∈ xs, 0 < x → (ml ≠ -1 ∧ ml ≤ x)) ∨
    (∃ k, ∃ h : k < xs.length, minFrom xs i mi ml = (i + k, xs[k]) ∧ 0 < xs[k] ∧
      (ml = -1 ∨ xs[k] < ml) ∧
      (∀ j (hj : j < k), 0 < xs[j] → xs[k] < xs[j]) ∧
      ∀ j (hj : j < xs.length), 0 < xs[j] → xs[k] ≤ xs[j]) := by
  intro xs
  induction xs with
  | nil => intro i mi ml _; left; simp [minFrom]
  | cons x xs ih =>
    intro i mi ml hml
    rw [minFrom]
    split
    · next hc =>
      right
      rcases ih (i + 1) i x (.inr hc.1) with ⟨h1, h2⟩ | ⟨k, hk, h1, h2, h3, h4, h5⟩
      · refine ⟨0, by simp, by simpa using h1, by simpa using hc.1, by simpa using hc.2,
          by intro j hj; omega, ?_⟩
        intro j hj
        cases j with
        | zero => simp
        | succ j =>
          intro hp
          simpa using (h2 _ (List.getElem_mem (by simpa using hj)) (by simpa using hp)).2
      · have hlt : xs[k] < x := by omega
        refine ⟨k + 1, by simpa using hk, ?_, by simpa using h2, ?_, ?_, ?_⟩
        · rw [h1]; simp; omega
        · simp; omega
        · intro j hj
          cases j with
          | zero => intro _; simpa using hlt
          | succ j => simpa using h4 j (by omega)
        · intro j hj
          cases j with
          | zero => intro _; simp; omega
          | succ j => simpa using h5 j (by simpa using hj)
    · next hc =>
      have hc' : 0 < x → ml ≠ -1 ∧ ml ≤ x := by intro hx; omega
      rcases ih (i + 1) mi ml hml with ⟨h1, h2⟩ | ⟨k, hk, h1, h2, h3, h4, h5⟩
      · left
        refine ⟨h1, ?_⟩
        intro y hy
        rcases List.mem_cons.mp hy with rfl | hy
        · exact hc'
        · exact h2 y hy
      · right
        refine ⟨k + 1, by simpa using hk, ?_, by simpa using h2, by simpa using h3, ?_, ?_⟩
        · rw [h1]; simp; omega
        · intro j hj
          cases j with
          | zero => intro hx; simp at hx ⊢; have := hc' hx; omega
          | succ j => simpa using h4 j (by omega)
        · intro j hj
          cases j with
          | zero => intro hx; simp at hx ⊢; have := hc' hx; omega
          | succ j => simpa using h5 j (by simpa using hj)

theorem minLen_nil : minLen [] = .error .noItems := rfl

theorem minLen_noItems_iff (lens : List Int) : minLen lens = .error .noItems ↔ lens = [] := by
  unfold minLen
  cases lens with
  | nil => simp
  | cons x xs =>
    simp only [List.length_cons, Nat.add_one_ne_zero, if_false]
    split <;> simp

/--
**minLen_ok** (part of `minLen_spec`). `.ok i` → `lens[i] > 0`, it is the smallest positive length, and `i` is the first
index with that length.
-/
theorem minLen_ok (lens : List Int) (i : Nat) (h : minLen lens = .ok i) :
    ∃ hi : i < lens.length, 0 < lens[i] ∧
      (∀ j (hj : j < lens.length), 0 < lens[j] → lens[i] ≤ lens[j]) ∧
      (∀ j (hj : j < i), 0 < lens[j] → lens[i] < lens[j]) := by
  unfold minLen at h
  split at h
  · cases h
  · generalize hr : minFrom lens 0 0 (-1) = r at h
    obtain ⟨mi, ml⟩ := r
    simp only at h
    split at h
    · cases h
    · next hne =>
      injection h with h
      subst h
      rcases minFrom_spec lens 0 0 (-1) (.inl rfl) with ⟨h1, _⟩ | ⟨k, hk, h1, h2, _, h4, h5⟩
      · rw [h1] at hr
        obtain ⟨_, h⟩ := Prod.mk.inj hr
        exact absurd h.symm hne
      · rw [h1] at hr
        obtain ⟨h, _⟩ := Prod.mk.inj hr
        simp only [Nat.zero_add] at h
        subst h
        exact ⟨hk, h2, h5, h4⟩

/-- `ErrAllItemsEmpty` ↔ items are registered and none has a positive length. -/
theorem minLen_allEmpty_iff (lens : List Int) :
    minLen lens = .error .allEmpty ↔ lens ≠ [] ∧ ∀ j (hj : j < lens.length), lens[j] ≤ 0 := by
  unfold minLen
  cases lens with
  | nil => simp
  | cons x xs =>
    simp only [List.length_cons, Nat.add_one_ne_zero, if_false]
    generalize hr : minFrom (x :: xs) 0 0 (-1) = r
    obtain ⟨mi, ml⟩ := r
    simp only
    rcases minFrom_spec (x :: xs) 0 0 (-1) (.inl rfl) with ⟨h1, h2⟩ | ⟨k, hk, h1, h2, _, h4, h5⟩
    · rw [h1] at hr
      obtain ⟨_, h⟩ := Prod.mk.inj hr
      subst h
      simp only [if_true, true_iff]
      refine ⟨by simp, fun j hj => ?_⟩
      refine Classical.byContradiction fun hp => ?_
      exact (h2 _ (List.getElem_mem hj) (by omega)).1 rfl
    · rw [h1] at hr
      obtain ⟨_, h⟩ := Prod.mk.inj hr
      subst h
      have hne : ¬ (x :: xs)[k] = -1 := by omega
      rw [if_neg hne]
      constructor
      · intro h; cases h
      · rintro ⟨_, hall⟩
        have := hall k hk
        omega

/-- `.ok` ↔ some length is positive. -/
theorem minLen_ok_iff (lens : List Int) :
    (∃ i, minLen lens = .ok i) ↔ ∃ j, ∃ hj : j < lens.length, 0 < lens[j] := by
  constructor
  · rintro ⟨i, h⟩
    obtain ⟨hi, hp, _⟩ := minLen_ok lens i h
    exact ⟨i, hi, hp⟩
  · rintro ⟨j, hj, hp⟩
    cases hm : minLen lens with
    | ok i => exact ⟨i, rfl⟩
    | error e =>
      cases e with
      | noItems =>
        rw [minLen_noItems_iff] at hm
        subst hm; simp at hj
      | allEmpty =>
        have := ((minLen_allEmpty_iff lens).mp hm).2 j hj
        omega

/--
**minLen_spec** (bundle; no assumption on the lengths). `.ok i` → `lens[i]` is the smallest
positive length and `i` the first index with that length; `ErrAllItemsEmpty` ↔ items are
registered and no length is positive; `ErrNoItemsRegistered` ↔ no items; `.ok` ↔ some length is
positive.
-/
theorem minLen_spec (lens : List Int) :
    (∀ i, minLen lens = .ok i → ∃ hi : i < lens.length, 0 < lens[i] ∧
        (∀ j (hj : j < lens.length), 0 < lens[j] → lens[i] ≤ lens[j]) ∧
        (∀ j (hj : j < i), 0 < lens[j] → lens[i] < lens[j])) ∧
    (minLen lens = .error .allEmpty ↔ lens ≠ [] ∧ ∀ j (hj : j < lens.length), lens[j] ≤ 0) ∧
    (minLen lens = .error .noItems ↔ lens = []) ∧
    ((∃ i, minLen lens = .ok i) ↔ ∃ j, ∃ hj : j < lens.length, 0 < lens[j]) :=
  ⟨minLen_ok lens, minLen_allEmpty_iff lens, minLen_noItems_iff lens, minLen_ok_iff lens⟩

-- Non-vacuity (GetMinLenItem): first smallest positive element.
example : minLen [0, 3, 1, 1] = .ok 2 := by decide
example : minLen [0, -4] = .error .allEmpty := by decide
example : minLen [] = .error .noItems := by decide

/-! ## Len / Register / Count -/

theorem foldl_add_eq (lens : List Int) (a : Int) :
    lens.foldl (fun t l => t + l) a = a + lens.sum := by
  induction lens generalizing a with
  | nil => simp
  | cons x xs ih => simp [ih]; omega

/-- `Manager.Len` is the sum of the item lengths. -/
theorem total_eq_sum (lens : List Int) : total lens = lens.sum := by
  simp [total, foldl_add_eq]

theorem total_nonneg (lens : List Int) (hnn : ∀ l ∈ lens, 0 ≤ l) : 0 ≤ total lens := by
  rw [total_eq_sum]
  induction lens with
  | nil => simp
  | cons x xs ih =>
    have := hnn x (by simp)
    have := ih (fun l hl => hnn l (by simp [hl]))
    simp; omega

theorem count_register (lens : List Int) (l : Int) : count (register lens l) = count lens + 1 := by
  simp [count, register]

theorem total_register (lens : List Int) (l : Int) : total (register lens l) = total lens + l := by
  simp [total_eq_sum, register]

/-- `Register` keeps an in-range cursor in range and does not disturb existing indices. -/
theorem register_getElem (lens : List Int) (l : Int) (j : Nat) (hj : j < lens.length) :
    (register lens l)[j]'(by simp [register]; omega) = lens[j] := by
  simp [register, hj]

example : total [1, 2, 3] = 6 := by decide

/-! ## UnregisterItem (swap with the last slot, truncate, reset the cursor at or past the slot) -/

theorem unregister_absent (lens : List Int) (rr i : Nat) (h : lens.length ≤ i) :
    unregister lens rr i = (lens, rr) := by
  simp [unregister]; omega

theorem count_unregister (lens : List Int) (rr i : Nat) (h : i < lens.length) :
    count (unregister lens rr i).1 + 1 = count lens := by
  simp [unregister, h, count]; omega

/-- The cursor invariant `GetRoundRobinItem` needs (an in-range cursor, or an empty manager: the Go
code indexes `m.items[m.roundRobinIndex]` only after `len(m.items) == 0` has been excluded) is
kept by `UnregisterItem`. -/
theorem unregister_cursor (lens : List Int) (rr i : Nat) (hrr : rr < lens.length ∨ lens = []) :
    (unregister lens rr i).2 < (unregister lens rr i).1.length ∨ (unregister lens rr i).1 = [] := by
  unfold unregister
  by_cases h : i < lens.length
  · simp only [h, if_true]
    by_cases hge : rr ≥ i
    · simp only [hge, if_true]
      by_cases h1 : lens.length = 1
      · right; apply List.eq_nil_of_length_eq_zero; simp; omega
      · left; simp; omega
    · simp only [hge, if_false]; left; simp; omega
  · simp only [h, if_false]; exact hrr

/-- Slots before the last keep their item except slot `i`, which receives the former last item:
no other queue changes its index, and none is lost or duplicated. -/
theorem unregister_getElem (lens : List Int) (rr i j : Nat) (h : i < lens.length)
    (hj : j < lens.length - 1) :
    (unregister lens rr i).1[j]? = if j = i then lens[lens.length - 1]? else lens[j]? := by
  simp only [unregister, h, if_true]
  rw [List.getElem?_dropLast]
  simp only [List.length_set, hj, if_true]
  rw [List.getElem?_set]
  by_cases hji : i = j
  · subst hji; simp [h, List.getD_eq_getElem?_getD]
    have : lens.length - 1 < lens.length := by omega
    simp [List.getElem?_eq_getElem this]
  · have : ¬ j = i := fun e => hji e.symm
    simp [hji, this]

theorem perm_sum_int {l₁ l₂ : List Int} (h : l₁.Perm l₂) : l₁.sum = l₂.sum := by
  induction h with
  | nil => rfl
  | cons x _ ih => simp [ih]
  | swap x y l => simp; omega
  | trans _ _ ih1 ih2 => exact ih1.trans ih2

/-- `Manager.Len` after `UnregisterItem` is the old total minus the removed item's length. -/
theorem total_unregister (lens : List Int) (rr i : Nat) (h : i < lens.length) :
    total (unregister lens rr i).1 + lens[i] = total lens := by
  simp only [unregister, h, if_true, total_eq_sum]
  have hl : lens.length - 1 < lens.length := by omega
  have hperm : ((lens.set i (lens.getD (lens.length - 1) 0)).dropLast ++ [lens[i]]).Perm lens := by
    by_cases hil : i = lens.length - 1
    · have : lens.getD (lens.length - 1) 0 = lens[i] := by
        subst hil; simp [List.getD_eq_getElem?_getD, List.getElem?_eq_getElem hl]
      rw [this, List.set_getElem_self]
      have hne : lens ≠ [] := by intro e; simp [e] at h
      have hlast : lens.getLast hne = lens[i] := by
        rw [List.getLast_eq_getElem]; simp [hil]
      rw [← hlast, List.dropLast_concat_getLast]
    · -- i < length - 1: write lens = a ++ x :: b ++ [y]
      have hne : lens ≠ [] := by intro e; simp [e] at h
      have hd := List.dropLast_concat_getLast hne
      generalize hini : lens.dropLast = ini at hd
      generalize hy : lens.getLast hne = y at hd
      have hgetD : lens.getD (lens.length - 1) 0 = y := by
        rw [← hy, List.getLast_eq_getElem]; simp [List.getD_eq_getElem?_getD, List.getElem?_eq_getElem hl]
      rw [hgetD]
      have hinilen : ini.length = lens.length - 1 := by rw [← hini]; simp
      have hi' : i < ini.length := by omega
      have hx : lens[i] = ini[i] := by
        have : lens[i] = (ini ++ [y])[i]'(by simp; omega) := by simp [hd]
        rw [this, List.getElem_append_left hi']
      subst hd
      rw [List.set_append_left _ _ hi', List.dropLast_concat, hx]
      -- (ini.set i y) ++ [ini[i]] ~ ini ++ [y]
      have hs := List.set_eq_take_append_cons_drop (l := ini) (i := i) (a := y)
      simp only [hi', if_true] at hs
      rw [hs]
      have hini2 : ini = ini.take i ++ ini[i] :: ini.drop (i + 1) := by
        conv => lhs; rw [← List.take_append_drop i ini, List.drop_eq_getElem_cons hi']
      conv => rhs; rw [hini2]
      simp only [List.append_assoc, List.cons_append]
      apply List.Perm.append_left
      -- y :: d ++ [x] ~ x :: d ++ [y]
      have p1 : (y :: (ini.drop (i+1) ++ [ini[i]])).Perm (ini[i] :: y :: ini.drop (i+1)) := by
        have : (ini.drop (i+1) ++ [ini[i]]).Perm (ini[i] :: ini.drop (i+1)) := List.perm_append_singleton _ _
        exact (List.Perm.cons y this).trans (List.Perm.swap _ _ _)
      have p2 : (ini[i] :: (ini.drop (i+1) ++ [y])).Perm (ini[i] :: y :: ini.drop (i+1)) :=
        List.Perm.cons _ (List.perm_append_singleton _ _)
      exact p1.trans p2.symm
  have := perm_sum_int hperm
  rw [List.sum_append] at this
  simp only [List.sum_cons, List.sum_nil] at this
  omega

example : unregister [5, 6, 7, 8] 2 1 = ([5, 8, 7], 0) := by decide
example : unregister [5, 6, 7, 8] 0 1 = ([5, 8, 7], 0) := by decide
example : unregister [5, 6, 7, 8] 1 3 = ([5, 6, 7], 1) := by decide
example : unregister [5] 0 0 = ([], 0) := by decide

/-! ## queueManager.next -/

theorem next_roundRobin (lens : List Int) (rr : Nat) :
    next strategyRoundRobin lens rr =
      (liftErr ((roundRobin lens rr).1),
       (roundRobin lens rr).2) := by
  simp [next]

theorem next_maxLen (lens : List Int) (rr : Nat) :
    next strategyMaxLen lens rr =
      (liftErr (maxLen lens), rr) := by
  simp [next, strategyMaxLen, strategyRoundRobin]

theorem next_minLen (lens : List Int) (rr : Nat) :
    next strategyMinLen lens rr =
      (liftErr (minLen lens), rr) := by
  simp [next, strategyMinLen, strategyMaxLen, strategyRoundRobin]

theorem next_invalid (s : Nat) (hs : 2 < s) (lens : List Int) (rr : Nat) :
    next s lens rr = (.error .invalidStrategy, rr) := by
  have h0 : s ≠ strategyRoundRobin := by simp [strategyRoundRobin]; omega
  have h1 : s ≠ strategyMaxLen := by simp [strategyMaxLen]; omega
  have h2 : s ≠ strategyMinLen := by simp [strategyMinLen]; omega
  simp [next, h0, h1, h2]



example : next strategyMinLen [0, 3, 1] 2 = (.ok 2, 2) := by decide
example : next 3 [0, 3, 1] 2 = (.error .invalidStrategy, 2) := by decide

/-! ## Fairness of round robin (system-level) -/

/-- Well-formed machine state: one counter per queue, at least one queue, cursor in range. -/
def St.WF (s : St) : Prop := s.served.length = s.lens.length ∧ s.rr < s.lens.length

/-- Queue `i` is non-empty in every state in which a `select` event of `evs` fires. -/
def NonemptyAtSelects (i : Nat) : St → List Ev → Prop
  | _, [] => True
  | s, e :: es => (e = .select → 0 < s.lenOf i) ∧ NonemptyAtSelects i (step s e) es

instance (s : St) : Decidable s.WF := by unfold St.WF; infer_instance

instance decNonemptyAtSelects (i : Nat) :
    (s : St) → (evs : List Ev) → Decidable (NonemptyAtSelects i s evs)
  | _, [] => isTrue trivial
  | s, e :: es =>
    have := decNonemptyAtSelects i (step s e) es
    inferInstanceAs (Decidable ((e = .select → 0 < s.lenOf i) ∧ NonemptyAtSelects i (step s e) es))

theorem dist_inj {n rr a b : Nat} (hr : rr < n) (ha : a < n) (hb : b < n)
    (h : dist n rr a = dist n rr b) : a = b := by
  rw [← add_dist hr ha, ← add_dist hr hb, h]

theorem lenOf_eq (s : St) (t : Nat) (ht : t < s.lens.length) : s.lenOf t = s.lens[t] := by
  simp [St.lenOf, ht]

theorem servedOf_set (s : St) (q t v : Nat) (hq : q < s.served.length) :
    (s.served.set q v).getD t 0 = if t = q then v else s.servedOf t := by
  simp only [St.servedOf, List.getD_eq_getElem?_getD, List.getElem?_set]
  by_cases h : q = t
  · subst h; simp [hq]
  · have : ¬ t = q := fun h' => h h'.symm
    simp [h, this]

/-- What one `select` does when at least one queue is non-empty. -/
theorem step_select (s : St) (hwf : s.WF) (i : Nat) (hi : i < s.lens.length)
    (hpos : 0 < s.lenOf i) :
    ∃ q, q < s.lens.length ∧
      (∀ t, t < s.lens.length → 0 < s.lenOf t →
        dist s.lens.length s.rr q ≤ dist s.lens.length s.rr t) ∧
      (step s .select).rr = (q + 1) % s.lens.length ∧
      (step s .select).lens.length = s.lens.length ∧
      (step s .select).served.length = s.served.length ∧
      (∀ t, (step s .select).servedOf t = if t = q then s.servedOf t + 1 else s.servedOf t) := by
  obtain ⟨hlen, hrr⟩ := hwf
  have hrr' : s.rr < (s.lens.map Int.ofNat).length := by simpa using hrr
  have hex : ∃ j, ∃ hj : j < (s.lens.map Int.ofNat).length, 0 < (s.lens.map Int.ofNat)[j] := by
    refine ⟨i, by simpa using hi, ?_⟩
    rw [lenOf_eq s i hi] at hpos
    simp; omega
  obtain ⟨q, hq, h1, _, h3⟩ := (rr_spec (s.lens.map Int.ofNat) s.rr hrr').1 hex
  simp only [List.length_map] at hq h1 h3
  refine ⟨q, hq, ?_, ?_, ?_, ?_, ?_⟩
  · intro t ht htpos
    refine Classical.byContradiction fun hlt => ?_
    have := h3 t ht (by omega)
    rw [lenOf_eq s t ht] at htpos
    simp at this
    omega
  · simp [step, h1]
  · simp [step, h1]
  · simp [step, h1]
  · intro t
    simp only [step, h1]
    show (s.served.set q (s.servedOf q + 1)).getD t 0 = _
    rw [servedOf_set s q t _ (by omega)]
    by_cases h : t = q
    · subst h; simp
    · simp [h]

theorem step_enq (s : St) (k : Nat) :
    (step s (.enq k)).rr = s.rr ∧ (step s (.enq k)).served = s.served ∧
    (step s (.enq k)).lens.length = s.lens.length := by
  simp [step]

theorem step_wf (s : St) (hwf : s.WF) (e : Ev) : (step s e).WF ∧
    (step s e).lens.length = s.lens.length := by
  obtain ⟨hlen, hrr⟩ := hwf
  cases e with
  | enq k => simp [step, St.WF, hlen, hrr]
  | select =>
    have hrr' : s.rr < (s.lens.map Int.ofNat).length := by simpa using hrr
    have hc := rr_cursor_lt (s.lens.map Int.ofNat) s.rr hrr'
    simp only [List.length_map] at hc
    simp only [step]
    generalize roundRobin (s.lens.map Int.ofNat) s.rr = r at hc
    obtain ⟨r1, r2⟩ := r
    cases r1 with
    | ok q => simp [St.WF, hlen]; exact hc
    | error e => simp [St.WF, hlen]; exact hc

theorem run_wf (evs : List Ev) : ∀ (s : St), s.WF → (run s evs).WF ∧
    (run s evs).lens.length = s.lens.length := by
  induction evs with
  | nil => intro s h; exact ⟨h, rfl⟩
  | cons e es ih =>
    intro s h
    have h1 := step_wf s h e
    have h2 := ih (step s e) h1.1
    exact ⟨h2.1, by rw [← h1.2]; exact h2.2⟩

/-- `served` counters never decrease. -/
theorem step_served_mono (s : St) (e : Ev) (t : Nat) : s.servedOf t ≤ (step s e).servedOf t := by
  cases e with
  | enq k => simp [step, St.servedOf]
  | select =>
    simp only [step]
    generalize roundRobin (s.lens.map Int.ofNat) s.rr = r
    obtain ⟨r1, r2⟩ := r
    cases r1 with
    | error e => simp [St.servedOf]
    | ok q =>
      simp only [St.servedOf, List.getD_eq_getElem?_getD, List.getElem?_set]
      split
      · next h =>
        subst h
        split
        · simp
        · next hq => simp [List.getElem?_eq_none (Nat.le_of_not_lt hq)]
      · omega

theorem run_served_mono (evs : List Ev) : ∀ (s : St) (t : Nat),
    s.servedOf t ≤ (run s evs).servedOf t := by
  induction evs with
  | nil => intro s t; exact Nat.le_refl _
  | cons e es ih =>
    intro s t
    exact Nat.le_trans (step_served_mono s e t) (ih (step s e) t)

theorem numSelects_cons_select (es : List Ev) : numSelects (.select :: es) = numSelects es + 1 := by
  simp [numSelects]

theorem numSelects_cons_enq (k : Nat) (es : List Ev) :
    numSelects (.enq k :: es) = numSelects es := by
  simp [numSelects]

/-- Core of no-starvation: more selects than the cyclic distance from the cursor to `i`. -/
theorem rr_served_within_dist (i : Nat) (evs : List Ev) : ∀ (s : St), s.WF → i < s.lens.length →
    NonemptyAtSelects i s evs → dist s.lens.length s.rr i < numSelects evs →
    s.servedOf i < (run s evs).servedOf i := by
  induction evs with
  | nil => intro s _ _ _ h; simp [numSelects] at h
  | cons e es ih =>
    intro s hwf hi hne hd
    obtain ⟨hne1, hne2⟩ := hne
    have hwf' := step_wf s hwf e
    cases e with
    | enq k =>
      obtain ⟨h1, h2, h3⟩ := step_enq s k
      rw [numSelects_cons_enq] at hd
      have := ih (step s (.enq k)) hwf'.1 (by omega) hne2 (by rw [h1, h3]; exact hd)
      simpa [run, St.servedOf, h2] using this
    | select =>
      rw [numSelects_cons_select] at hd
      obtain ⟨q, hq, hmin, hrr, hlen, _, hserved⟩ := step_select s hwf i hi (hne1 rfl)
      by_cases hqi : i = q
      · have h1 : (step s .select).servedOf i = s.servedOf i + 1 := by rw [hserved]; simp [hqi]
        have h2 := run_served_mono es (step s .select) i
        show s.servedOf i < (run (step s .select) es).servedOf i
        omega
      · have hle := hmin i hi (hne1 rfl)
        have hne' : dist s.lens.length s.rr q ≠ dist s.lens.length s.rr i :=
          fun h => hqi (dist_inj hwf.2 hq hi h).symm
        have hda := dist_after (rr := s.rr) hwf.2 hq hi
        rw [if_pos (by omega)] at hda
        have h1 : (step s .select).servedOf i = s.servedOf i := by rw [hserved]; simp [hqi]
        have := ih (step s .select) hwf'.1 (by omega) hne2 (by rw [hrr, hlen, hda]; omega)
        show s.servedOf i < (run (step s .select) es).servedOf i
        omega

/--
**rr_no_starvation.** In any run from a well-formed state, if queue `i` is non-empty whenever a
`select` fires and the run contains at least `n` (= number of queues) selects, then queue `i` is
selected at least once.
-/
theorem rr_no_starvation (s : St) (hwf : s.WF) (i : Nat) (hi : i < s.lens.length)
    (evs : List Ev) (hne : NonemptyAtSelects i s evs) (hn : s.lens.length ≤ numSelects evs) :
    s.servedOf i + 1 ≤ (run s evs).servedOf i := by
  have hd : dist s.lens.length s.rr i < s.lens.length := dist_lt (by omega)
  exact rr_served_within_dist i evs s hwf hi hne (by omega)


-- rr_no_starvation: 3 queues, cursor just past queue 0, three selects: queue 0 is served
-- exactly at the third one.
example :
    let s : St := { lens := [1, 2, 1], rr := 1, served := [0, 0, 0] }
    let evs : List Ev := [.select, .enq 2, .select, .select]
    s.WF ∧ NonemptyAtSelects 0 s evs ∧ s.lens.length ≤ numSelects evs ∧
      (run s evs).servedOf 0 = s.servedOf 0 + 1 := by decide
-- the bound `n` is tight: after n - 1 selects queue 0 has not been served yet.
example :
    let s : St := { lens := [1, 2, 1], rr := 1, served := [0, 0, 0] }
    let evs : List Ev := [.select, .enq 2, .select]
    s.WF ∧ NonemptyAtSelects 0 s evs ∧ numSelects evs = s.lens.length - 1 ∧
      (run s evs).servedOf 0 = s.servedOf 0 := by decide
-- the hypothesis matters: a queue that is empty at the selects is (of course) not served.
example :
    let s : St := { lens := [0, 2, 1], rr := 1, served := [0, 0, 0] }
    let evs : List Ev := [.select, .select, .select]
    s.WF ∧ ¬ NonemptyAtSelects 0 s evs ∧ (run s evs).servedOf 0 = 0 := by decide

/-- `NonemptyAtSelects` in prefix form: before every `select` of the sequence queue `i` is non-empty. -/
theorem nonemptyAtSelects_iff (i : Nat) (evs : List Ev) : ∀ s : St,
    NonemptyAtSelects i s evs ↔
      ∀ pre post, evs = pre ++ Ev.select :: post → 0 < (run s pre).lenOf i := by
  induction evs with
  | nil => intro s; simp [NonemptyAtSelects]
  | cons e es ih =>
    intro s
    simp only [NonemptyAtSelects]
    rw [ih]
    constructor
    · rintro ⟨h1, h2⟩ pre post heq
      cases pre with
      | nil =>
        simp at heq
        exact h1 heq.1
      | cons p pre =>
        simp at heq
        obtain ⟨rfl, rfl⟩ := heq
        exact h2 pre post rfl
    · intro h
      refine ⟨?_, ?_⟩
      · intro he; subst he; exact h [] es rfl
      · intro pre post heq; subst heq; exact h (e :: pre) post rfl

/-- 1 if, walking from the cursor, queue `i` is reached before queue `j`; else 0. -/
def ahead (n rr i j : Nat) : Nat := if dist n rr i < dist n rr j then 1 else 0

theorem ahead_le_one (n rr i j : Nat) : ahead n rr i j ≤ 1 := by
  unfold ahead; split <;> omega

theorem ahead_cases (n rr i j : Nat) :
    (dist n rr i < dist n rr j ∧ ahead n rr i j = 1) ∨
    (¬ dist n rr i < dist n rr j ∧ ahead n rr i j = 0) := by
  unfold ahead; split <;> simp [*]

theorem dist_after_cases {n rr q t : Nat} (hr : rr < n) (hq : q < n) (ht : t < n) :
    (dist n rr q < dist n rr t ∧ dist n ((q + 1) % n) t = dist n rr t - dist n rr q - 1) ∨
    (¬ dist n rr q < dist n rr t ∧
      dist n ((q + 1) % n) t = dist n rr t + n - dist n rr q - 1) := by
  rw [dist_after hr hq ht]; split <;> simp [*]

/-- One step preserves `served i - served j + ahead i j` (written without subtraction). -/
theorem step_share (s : St) (hwf : s.WF) (i j : Nat) (hi : i < s.lens.length)
    (hj : j < s.lens.length) (hij : i ≠ j) (e : Ev)
    (hni : e = .select → 0 < s.lenOf i) (hnj : e = .select → 0 < s.lenOf j) :
    (step s e).servedOf i + ahead s.lens.length (step s e).rr i j + s.servedOf j =
      s.servedOf i + ahead s.lens.length s.rr i j + (step s e).servedOf j := by
  cases e with
  | enq k =>
    obtain ⟨h1, h2, _⟩ := step_enq s k
    simp [St.servedOf, h1, h2]
  | select =>
    obtain ⟨q, hq, hmin, hrr, _, _, hserved⟩ := step_select s hwf i hi (hni rfl)
    have hli := hmin i hi (hni rfl)
    have hlj := hmin j hj (hnj rfl)
    have hdiN : dist s.lens.length s.rr i < s.lens.length := dist_lt (by omega)
    have hdjN : dist s.lens.length s.rr j < s.lens.length := dist_lt (by omega)
    have hneij : dist s.lens.length s.rr i ≠ dist s.lens.length s.rr j :=
      fun h => hij (dist_inj hwf.2 hi hj h)
    have hqi : i ≠ q → dist s.lens.length s.rr q ≠ dist s.lens.length s.rr i :=
      fun hne h => hne (dist_inj hwf.2 hq hi h).symm
    have hqj : j ≠ q → dist s.lens.length s.rr q ≠ dist s.lens.length s.rr j :=
      fun hne h => hne (dist_inj hwf.2 hq hj h).symm
    have hsi := hserved i
    have hsj := hserved j
    rw [hrr]
    have key : ∀ (si' sj' : Nat),
        (i = q → si' = s.servedOf i + 1) → (i ≠ q → si' = s.servedOf i) →
        (j = q → sj' = s.servedOf j + 1) → (j ≠ q → sj' = s.servedOf j) →
        si' + ahead s.lens.length ((q + 1) % s.lens.length) i j + s.servedOf j =
          s.servedOf i + ahead s.lens.length s.rr i j + sj' := by
      intro si' sj' e1 e2 e3 e4
      by_cases h1 : i = q
      · subst h1
        have e1 := e1 rfl
        have e4 := e4 (fun h => hij h.symm)
        rcases ahead_cases s.lens.length s.rr i j with ⟨ha, ha'⟩ | ⟨ha, ha'⟩ <;>
        rcases ahead_cases s.lens.length ((i + 1) % s.lens.length) i j with ⟨hb, hb'⟩ | ⟨hb, hb'⟩ <;>
        rcases dist_after_cases (rr := s.rr) hwf.2 hi hi with ⟨hdi, hdi'⟩ | ⟨hdi, hdi'⟩ <;>
        rcases dist_after_cases (rr := s.rr) hwf.2 hi hj with ⟨hdj, hdj'⟩ | ⟨hdj, hdj'⟩ <;>
        omega
      · by_cases h2 : j = q
        · subst h2
          have e2 := e2 h1
          have e3 := e3 rfl
          rcases ahead_cases s.lens.length s.rr i j with ⟨ha, ha'⟩ | ⟨ha, ha'⟩ <;>
          rcases ahead_cases s.lens.length ((j + 1) % s.lens.length) i j with ⟨hb, hb'⟩ | ⟨hb, hb'⟩ <;>
          rcases dist_after_cases (rr := s.rr) hwf.2 hj hi with ⟨hdi, hdi'⟩ | ⟨hdi, hdi'⟩ <;>
          rcases dist_after_cases (rr := s.rr) hwf.2 hj hj with ⟨hdj, hdj'⟩ | ⟨hdj, hdj'⟩ <;>
          omega
        · have e2 := e2 h1
          have e4 := e4 h2
          have := hqi h1
          have := hqj h2
          rcases ahead_cases s.lens.length s.rr i j with ⟨ha, ha'⟩ | ⟨ha, ha'⟩ <;>
          rcases ahead_cases s.lens.length ((q + 1) % s.lens.length) i j with ⟨hb, hb'⟩ | ⟨hb, hb'⟩ <;>
          rcases dist_after_cases (rr := s.rr) hwf.2 hq hi with ⟨hdi, hdi'⟩ | ⟨hdi, hdi'⟩ <;>
          rcases dist_after_cases (rr := s.rr) hwf.2 hq hj with ⟨hdj, hdj'⟩ | ⟨hdj, hdj'⟩ <;>
          omega
    apply key
    · intro h; rw [hsi, if_pos h]
    · intro h; rw [hsi, if_neg h]
    · intro h; rw [hsj, if_pos h]
    · intro h; rw [hsj, if_neg h]

/-- The invariant of `step_share` along a whole run. -/
theorem run_share (i j : Nat) (hij : i ≠ j) (evs : List Ev) : ∀ (s : St), s.WF →
    i < s.lens.length → j < s.lens.length →
    NonemptyAtSelects i s evs → NonemptyAtSelects j s evs →
    (run s evs).servedOf i + ahead s.lens.length (run s evs).rr i j + s.servedOf j =
      s.servedOf i + ahead s.lens.length s.rr i j + (run s evs).servedOf j := by
  induction evs with
  | nil => intro s _ _ _ _ _; rfl
  | cons e es ih =>
    intro s hwf hi hj hni hnj
    obtain ⟨hni1, hni2⟩ := hni
    obtain ⟨hnj1, hnj2⟩ := hnj
    have hwf' := step_wf s hwf e
    have h1 := step_share s hwf i j hi hj hij e hni1 hnj1
    have h2 := ih (step s e) hwf'.1 (by omega) (by omega) hni2 hnj2
    rw [hwf'.2] at h2
    show (run (step s e) es).servedOf i + ahead s.lens.length (run (step s e) es).rr i j
        + s.servedOf j = _ + (run (step s e) es).servedOf j
    omega

/--
**rr_equal_share.** Over any run during which queues `i` and `j` are both non-empty whenever a
`select` fires, the numbers of selections of `i` and of `j` differ by at most one.
-/
theorem rr_equal_share (s : St) (hwf : s.WF) (i j : Nat) (hi : i < s.lens.length)
    (hj : j < s.lens.length) (evs : List Ev)
    (hni : NonemptyAtSelects i s evs) (hnj : NonemptyAtSelects j s evs) :
    ((run s evs).servedOf i - s.servedOf i) ≤ ((run s evs).servedOf j - s.servedOf j) + 1 ∧
    ((run s evs).servedOf j - s.servedOf j) ≤ ((run s evs).servedOf i - s.servedOf i) + 1 := by
  by_cases hij : i = j
  · subst hij; omega
  · have h := run_share i j hij evs s hwf hi hj hni hnj
    have h1 := ahead_le_one s.lens.length (run s evs).rr i j
    have h2 := ahead_le_one s.lens.length s.rr i j
    have := run_served_mono evs s i
    have := run_served_mono evs s j
    omega

/-- `rr_equal_share` with integer differences. -/
theorem rr_equal_share_int (s : St) (hwf : s.WF) (i j : Nat) (hi : i < s.lens.length)
    (hj : j < s.lens.length) (evs : List Ev)
    (hni : NonemptyAtSelects i s evs) (hnj : NonemptyAtSelects j s evs) :
    ((((run s evs).servedOf i : Int) - s.servedOf i) -
      (((run s evs).servedOf j : Int) - s.servedOf j)).natAbs ≤ 1 := by
  have := rr_equal_share s hwf i j hi hj evs hni hnj
  have := run_served_mono evs s i
  have := run_served_mono evs s j
  omega

-- rr_equal_share: queues 0 and 2 both non-empty at each of 4 selects, queue 1 joins late;
-- the shares are 2 and 1: the difference 1 is reached.
example :
    let s : St := { lens := [3, 0, 3], rr := 0, served := [5, 5, 5] }
    let evs : List Ev := [.select, .enq 1, .select, .select, .select]
    s.WF ∧ NonemptyAtSelects 0 s evs ∧ NonemptyAtSelects 2 s evs ∧
      (run s evs).served = [7, 6, 6] := by decide

/-! ## Axiom audit -/
#print axioms rr_spec
#print axioms rr_ok_offset
#print axioms rr_ok_iff
#print axioms rr_allEmpty_iff
#print axioms rr_allEmpty_cursor
#print axioms rr_cursor_lt
#print axioms rr_noItems_iff
#print axioms maxLen_spec
#print axioms maxLen_ok
#print axioms maxLen_ok_pos
#print axioms maxLen_allEmpty_iff
#print axioms maxLen_allEmpty_iff_of_nonneg
#print axioms maxLen_ok_iff_of_nonneg
#print axioms minLen_spec
#print axioms minLen_ok
#print axioms minLen_allEmpty_iff
#print axioms minLen_ok_iff
#print axioms total_eq_sum
#print axioms unregister_cursor
#print axioms unregister_getElem
#print axioms total_unregister
#print axioms count_unregister
#print axioms nonemptyAtSelects_iff
#print axioms rr_no_starvation
#print axioms rr_equal_share
#print axioms rr_equal_share_int

end Manager
end VarmqVerif
