import VarmqVerif.Model.Heap

/-!
# Proofs about the binary heap (`Model/Heap.lean`)

* `less` is a strict total order on items with distinct insertion indices.
* `up` / `down` restore the heap order from the respective "almost heap" preconditions
  (`UpInv`, `DownInv`); hence `heapPush`, `heapPop` and `heapInit` produce heaps.
* `heapPush` / `heapPop` / `heapInit` preserve the multiset of items (`List.Perm`).
* The item returned by `heapPop` is the root and a minimum.

Everything is for arbitrary `α`, arbitrary `Int` priorities, arrays of any size.  Core Lean only.
-/

namespace VarmqVerif
namespace Heap
variable {α : Type}

/-! ## Order facts -/

theorem less_iff (a b : Item α) :
    less a b = true ↔ a.prio < b.prio ∨ (a.prio = b.prio ∧ a.idx < b.idx) := by
  unfold less; split <;> simp <;> omega

/-- `le a b`: `b` is not strictly before `a` (`!Less(b, a)`). -/
def le (a b : Item α) : Prop := less b a = false

theorem le_iff (a b : Item α) :
    le a b ↔ a.prio < b.prio ∨ (a.prio = b.prio ∧ a.idx ≤ b.idx) := by
  unfold le
  rw [← Bool.not_eq_true, less_iff]; omega

theorem less_irrefl (a : Item α) : less a a = false := by
  rw [← Bool.not_eq_true, less_iff]; omega

theorem less_trans {a b c : Item α} (h1 : less a b = true) (h2 : less b c = true) :
    less a c = true := by
  rw [less_iff] at *; omega

theorem less_asymm {a b : Item α} (h : less a b = true) : less b a = false := by
  rw [← Bool.not_eq_true]; rw [less_iff] at *; omega

/-- Trichotomy: two items with different insertion indices are strictly ordered one way or the other
(and by `less_asymm` not both). -/
theorem less_total {a b : Item α} (h : a.idx ≠ b.idx) : less a b = true ∨ less b a = true := by
  rw [less_iff, less_iff]; omega

/-- Items that are `less`-incomparable agree on priority and insertion index. -/
theorem eq_of_not_less {a b : Item α} (h1 : less a b = false) (h2 : less b a = false) :
    a.prio = b.prio ∧ a.idx = b.idx := by
  rw [← Bool.not_eq_true, less_iff] at h1 h2; omega

theorem le_refl (a : Item α) : le a a := less_irrefl a
theorem le_trans {a b c : Item α} : le a b → le b c → le a c := by
  simp only [le_iff]; omega
theorem le_total (a b : Item α) : le a b ∨ le b a := by
  simp only [le_iff]; omega
theorem le_of_less {a b : Item α} (h : less a b = true) : le a b := less_asymm h
theorem le_of_not_le {a b : Item α} (h : ¬ le a b) : le b a := by
  simp only [le_iff] at *; omega
theorem less_of_le_of_ne {a b : Item α} (h : le a b) (hne : a.idx ≠ b.idx) : less a b = true := by
  rw [le_iff] at h; rw [less_iff]; omega

/-! ## Heap order -/

theorem parent_lt {i : Nat} (h : 0 < i) : parent i < i := by unfold parent; omega

/-- Heap order: no element is `less` than its parent. -/
def IsHeap (a : Array (Item α)) : Prop :=
  ∀ i (hi : i < a.size), 0 < i → less a[i] (a[parent i]'(by unfold parent; omega)) = false

/-- Heap order on the index range `[lo, n)`: every `k < n` whose parent is `≥ lo` respects it.
`HeapOn a 0 a.size` is `IsHeap a`. -/
def HeapOn (a : Array (Item α)) (lo n : Nat) : Prop :=
  ∀ k (hk : k < a.size), 0 < k → k < n → lo ≤ parent k →
    le (a[parent k]'(by unfold parent; omega)) a[k]

theorem isHeap_iff_heapOn (a : Array (Item α)) : IsHeap a ↔ HeapOn a 0 a.size := by
  unfold IsHeap HeapOn le
  constructor
  · intro h k hk h0 _ _; exact h k hk h0
  · intro h k hk h0; exact h k hk h0 hk (Nat.zero_le _)

/-! ## `up` -/

/-- Heap order everywhere except between `j` and its parent; the children of `j` already dominate
`j`'s parent. -/
structure UpInv (a : Array (Item α)) (j : Nat) : Prop where
  others : ∀ i (hi : i < a.size), 0 < i → i ≠ j →
    le (a[parent i]'(by unfold parent; omega)) a[i]
  grand  : ∀ c (hc : c < a.size), 0 < c → (hpc : parent c = j) → 0 < j →
    le (a[parent j]'(by unfold parent at *; omega)) a[c]

theorem up_heap (a : Array (Item α)) (j : Nat) (H : UpInv a j) : IsHeap (up a j) := by
  fun_induction up a j with
  | case1 a j hj hi h =>
      -- break: `i == j || !less(j, i)`
      intro i hi' hpos
      by_cases hij : i = j
      · subst hij
        rcases h with h | h
        · exact absurd h (by have := parent_lt hpos; omega)
        · exact h
      · exact H.others i hi' hpos hij
  | case2 a j hj hi h ih =>
      have hne : parent j ≠ j := fun e => h (Or.inl e)
      have hlt : less a[j] a[parent j] = true := by
        have := fun e => h (Or.inr e); simpa using this
      have h0 : 0 < j := by
        apply Nat.pos_of_ne_zero; intro h0; subst h0; simp [parent] at hne
      have hpj : parent j < j := parent_lt h0
      apply ih
      constructor
      · intro k hk hkpos hne'
        have hk' : k < a.size := by simpa using hk
        have hpk : parent k < a.size := by unfold parent; omega
        simp only [Array.getElem_swap]
        by_cases hkj : k = j
        · subst hkj
          simp only [hne', if_false, if_true]
          exact le_of_less hlt
        · have hkp : k ≠ parent j := hne'
          simp only [hkj, hkp, if_false]
          by_cases h1 : parent k = parent j
          · simp only [h1, if_true]
            have := H.others k hk' hkpos hkj
            simp only [h1] at this
            exact le_trans (le_of_less hlt) this
          · by_cases h2 : parent k = j
            · have hjp : j ≠ parent j := by omega
              simp only [h2, hjp, if_false, if_true]
              exact H.grand k hk' hkpos h2 (by omega)
            · simp only [h1, h2, if_false]
              exact H.others k hk' hkpos hkj
      · intro c hc hcpos hpc hppos
        have hc' : c < a.size := by simpa using hc
        have hne1 : parent (parent j) ≠ parent j := by unfold parent at *; omega
        have hne2 : parent (parent j) ≠ j := by unfold parent at *; omega
        simp only [Array.getElem_swap, hne1, hne2, if_false]
        have hPi := H.others (parent j) hi hppos (by omega)
        by_cases hcj : c = j
        · subst hcj
          have : c ≠ parent c := by omega
          simpa [this] using hPi
        · have hcp : c ≠ parent j := by intro h; rw [h] at hpc; unfold parent at *; omega
          simp only [hcj, hcp, if_false]
          have := H.others c hc' hcpos hcj
          simp only [hpc] at this
          exact le_trans hPi this
  | case3 a j hj =>
      intro i hi' hpos; exact H.others i hi' hpos (by omega)

/-- After the append of `heap.Push` the precondition of `up` holds at the new last index. -/
theorem upInv_push (a : Array (Item α)) (x : Item α) (H : IsHeap a) : UpInv (a.push x) a.size := by
  constructor
  · intro i hi hpos hne
    have hi' : i < a.size := by simp at hi; omega
    have hp : parent i < a.size := by unfold parent; omega
    have := H i hi' hpos
    simpa [Array.getElem_push_lt, hi', hp, le] using this
  · intro c hc _ hpc _
    simp at hc
    unfold parent at hpc; omega

/-- `heap.Push` keeps the heap order. -/
theorem heapPush_isHeap (a : Array (Item α)) (x : Item α) (H : IsHeap a) :
    IsHeap (heapPush a x) :=
  up_heap _ _ (upInv_push a x H)

/-! ## `down` -/

/-- What `down`'s choice of child guarantees: it is one of the (at most two) children below `n`, and
it is `le` every child below `n`. -/
theorem minChild_spec (a : Array (Item α)) (j1 n : Nat) (h1 : j1 < n) (hn : n ≤ a.size) :
    (minChild a j1 n h1 hn = j1 ∨ minChild a j1 n h1 hn = j1 + 1) ∧
    ∀ c (hc : c < n), c = j1 ∨ c = j1 + 1 →
      le (a[minChild a j1 n h1 hn]'(by have := minChild_lt a j1 n h1 hn; omega)) (a[c]'(by omega)) := by
  unfold minChild
  split
  · rename_i h2
    split
    · rename_i hl
      refine ⟨Or.inr rfl, ?_⟩
      intro c hc hcc
      rcases hcc with rfl | rfl
      · exact le_of_less hl
      · exact le_refl _
    · rename_i hl
      refine ⟨Or.inl rfl, ?_⟩
      intro c hc hcc
      rcases hcc with rfl | rfl
      · exact le_refl _
      · simpa [le] using hl
  · refine ⟨Or.inl rfl, ?_⟩
    intro c hc hcc
    rcases hcc with rfl | rfl
    · exact le_refl _
    · omega

/-- Heap order on `[lo, n)` everywhere except between `i` and its children; the children of `i`
already dominate `i`'s parent (when that parent is in range). -/
structure DownInv (a : Array (Item α)) (i n lo : Nat) : Prop where
  others : ∀ k (hk : k < a.size), 0 < k → k < n → lo ≤ parent k → parent k ≠ i →
    le (a[parent k]'(by unfold parent; omega)) a[k]
  grand  : ∀ c (hc : c < a.size), 0 < c → c < n → (hpc : parent c = i) → 0 < i → lo ≤ parent i →
    le (a[parent i]'(by unfold parent at *; omega)) a[c]

theorem down_heap (a : Array (Item α)) (i n lo : Nat) (hn : n ≤ a.size) (H : DownInv a i n lo) :
    HeapOn (down a i n) lo n := by
  fun_induction down a i n with
  | case1 a i h j hjn hij hl =>
      -- break: `!h.Less(j, i)`
      have hs : (j = 2 * i + 1 ∨ j = 2 * i + 1 + 1) ∧ ∀ c (hc : c < n), c = 2 * i + 1 ∨ c = 2 * i + 1 + 1 →
          le (a[j]'(by omega)) (a[c]'(by omega)) := minChild_spec a (2 * i + 1) n h.1 h.2
      intro k hk hkpos hkn hlo
      by_cases hp : parent k = i
      · subst hp
        exact le_trans hl (hs.2 k hkn (by unfold parent at *; omega))
      · exact H.others k hk hkpos hkn hlo hp
  | case2 a i h j hjn hij hl ih =>
      have hs : (j = 2 * i + 1 ∨ j = 2 * i + 1 + 1) ∧ ∀ c (hc : c < n), c = 2 * i + 1 ∨ c = 2 * i + 1 + 1 →
          le (a[j]'(by omega)) (a[c]'(by omega)) := minChild_spec a (2 * i + 1) n h.1 h.2
      have hlt : less (a[j]'(by omega)) (a[i]'(by omega)) = true := by simpa using hl
      have hpj : parent j = i := by unfold parent; omega
      have hij' : i ≠ j := by omega
      apply ih (by simpa using hn)
      constructor
      · intro k hk hkpos hkn hlo hne
        have hk' : k < a.size := by simpa using hk
        simp only [Array.getElem_swap]
        by_cases hkj : k = j
        · subst hkj
          simp only [hpj, if_true, hij'.symm, if_false]
          exact le_of_less hlt
        · by_cases hki : k = i
          · subst hki
            have h1 : parent k ≠ k := by have := parent_lt hkpos; omega
            simp only [h1, hne, if_false, if_true]
            exact H.grand j (by omega) (by omega) hjn hpj hkpos hlo
          · simp only [hkj, hki, if_false]
            by_cases hpk : parent k = i
            · simp only [hpk, if_true]
              exact hs.2 k hkn (by unfold parent at hpk; omega)
            · simp only [hpk, hne, if_false]
              exact H.others k hk' hkpos hkn hlo hpk
      · intro c hc hcpos hcn hpc hjpos hlo
        have hc' : c < a.size := by simpa using hc
        have hci : c ≠ i := by unfold parent at hpc; omega
        have hcj : c ≠ j := by unfold parent at hpc; omega
        simp only [Array.getElem_swap, hpj, if_true, hci, hcj, if_false]
        have := H.others c hc' hcpos hcn (by omega) (by omega)
        simpa only [hpc] using this
  | case3 a i h =>
      -- break: `j1 >= n`
      intro k hk hkpos hkn hlo
      by_cases hp : parent k = i
      · unfold parent at hp; omega
      · exact H.others k hk hkpos hkn hlo hp

theorem toList_eq_pop_append {β : Type} (xs : Array β) (h : 0 < xs.size) :
    xs.toList = xs.pop.toList ++ [xs[xs.size - 1]] := by
  have hne : xs.toList ≠ [] := by
    intro e; have := congrArg List.length e; simp at this; subst this; simp at h
  rw [Array.toList_pop]
  conv => lhs; rw [← List.dropLast_concat_getLast hne]
  congr 2
  rw [List.getLast_eq_getElem]
  simp

/-! ## Multiset preservation -/

theorem up_perm (a : Array (Item α)) (j : Nat) : (up a j).toList.Perm a.toList := by
  fun_induction up a j with
  | case1 => exact .refl _
  | case2 a j hj hi h ih => exact ih.trans (Array.swap_perm hi hj).toList
  | case3 => exact .refl _

theorem down_perm (a : Array (Item α)) (i n : Nat) : (down a i n).toList.Perm a.toList := by
  fun_induction down a i n with
  | case1 => exact .refl _
  | case2 a i h j hjn hij hl ih => exact ih.trans (Array.swap_perm _ _).toList
  | case3 => exact .refl _

/-- `down a i n` does not touch the slice from `n` on. -/
theorem down_getElem?_ge (a : Array (Item α)) (i n k : Nat) (hnk : n ≤ k) :
    (down a i n)[k]? = a[k]? := by
  fun_induction down a i n with
  | case1 => rfl
  | case2 a i h j hjn hij hl ih =>
      rw [ih]
      have h1 : i ≠ k := by omega
      have h2 : j ≠ k := by omega
      simp [Array.getElem?_swap, h1, h2]
  | case3 => rfl

theorem down_getElem_ge (a : Array (Item α)) (i n k : Nat) (hk : k < a.size) (hnk : n ≤ k) :
    (down a i n)[k]'(by rw [size_down]; exact hk) = a[k] := by
  have := down_getElem?_ge a i n k hnk
  rw [Array.getElem?_eq_getElem (by rw [size_down]; exact hk), Array.getElem?_eq_getElem hk] at this
  exact Option.some.inj this

theorem heapPush_perm (a : Array (Item α)) (x : Item α) :
    (heapPush a x).toList.Perm (x :: a.toList) := by
  unfold heapPush
  refine (up_perm _ _).trans ?_
  simp

theorem size_heapPush (a : Array (Item α)) (x : Item α) : (heapPush a x).size = a.size + 1 := by
  simp [heapPush, size_up]

/-! ## `heapPop` -/

theorem size_heapPop (a : Array (Item α)) (h : 0 < a.size) :
    (heapPop a h).2.size = a.size - 1 := by
  simp [heapPop, size_down]

/-- `heap.Pop` returns the root. -/
theorem heapPop_fst (a : Array (Item α)) (h : 0 < a.size) : (heapPop a h).1 = a[0] := by
  unfold heapPop
  simp only
  rw [down_getElem_ge _ _ _ _ (by simp; omega) (Nat.le_refl _)]
  simp

/-- `heap.Pop` splits the multiset of items into the returned item and the remaining heap. -/
theorem heapPop_perm (a : Array (Item α)) (h : 0 < a.size) :
    a.toList.Perm ((heapPop a h).1 :: (heapPop a h).2.toList) := by
  unfold heapPop
  simp only
  have hsz : 0 < (down (a.swap 0 (a.size - 1) h (by omega)) 0 (a.size - 1)).size := by
    simp [size_down]; exact h
  have e := toList_eq_pop_append _ hsz
  have hp : (down (a.swap 0 (a.size - 1) h (by omega)) 0 (a.size - 1)).toList.Perm a.toList :=
    (down_perm _ _ _).trans (Array.swap_perm _ _).toList
  rw [e] at hp
  refine hp.symm.trans ?_
  simp [size_down]

/-- In a heap the root is `le` every element. -/
theorem root_le (a : Array (Item α)) (H : IsHeap a) :
    ∀ k (hk : k < a.size), le (a[0]'(by omega)) a[k] := by
  intro k
  induction k using Nat.strongRecOn with
  | _ k ih =>
    intro hk
    by_cases h0 : k = 0
    · subst h0; exact le_refl _
    · have hp := parent_lt (Nat.pos_of_ne_zero h0)
      exact le_trans (ih (parent k) hp (by omega)) (H k hk (Nat.pos_of_ne_zero h0))

/-- The item returned by `heap.Pop` is a minimum: nothing in the heap is `less` than it. -/
theorem heapPop_min (a : Array (Item α)) (H : IsHeap a) (h : 0 < a.size) :
    ∀ x ∈ a, less x (heapPop a h).1 = false := by
  intro x hx
  rw [heapPop_fst]
  obtain ⟨k, hk, rfl⟩ := Array.mem_iff_getElem.mp hx
  exact root_le a H k hk

theorem isHeap_pop_of_heapOn (b : Array (Item α)) (h : HeapOn b 0 (b.size - 1)) : IsHeap b.pop := by
  intro k hk hkpos
  have hk' : k < b.size - 1 := by simpa using hk
  have := h k (by omega) hkpos hk' (Nat.zero_le _)
  simp only [Array.getElem_pop]
  exact this

/-- After the `Swap(0, n)` of `heap.Pop` the precondition of `down(h, 0, n)` holds. -/
theorem downInv_pop (a : Array (Item α)) (H : IsHeap a) (h : 0 < a.size) :
    DownInv (a.swap 0 (a.size - 1) h (by omega)) 0 (a.size - 1) 0 := by
  constructor
  · intro k hk hkpos hkn _ hpk
    have hk' : k < a.size := by simpa using hk
    have h1 : k ≠ 0 := by omega
    have h2 : k ≠ a.size - 1 := by omega
    have h3 : parent k ≠ a.size - 1 := by have := parent_lt hkpos; omega
    simp only [Array.getElem_swap, h1, h2, h3, hpk, if_false]
    exact H k hk' hkpos
  · intro c _ _ _ _ h0; omega

/-- `heap.Pop` keeps the heap order. -/
theorem heapPop_isHeap (a : Array (Item α)) (H : IsHeap a) (h : 0 < a.size) :
    IsHeap (heapPop a h).2 := by
  have hn : a.size - 1 ≤ (a.swap 0 (a.size - 1) h (by omega)).size := by simp
  have hH := down_heap _ 0 (a.size - 1) 0 hn (downInv_pop a H h)
  show IsHeap (down (a.swap 0 (a.size - 1) h (by omega)) 0 (a.size - 1)).pop
  apply isHeap_pop_of_heapOn
  simpa [size_down] using hH

/-! ## `heap.Init` -/

theorem size_initLoop (n k : Nat) (a : Array (Item α)) : (initLoop n k a).size = a.size := by
  induction k generalizing a with
  | zero => rfl
  | succ k ih => simp [initLoop, ih, size_down]

theorem initLoop_perm (n k : Nat) (a : Array (Item α)) : (initLoop n k a).toList.Perm a.toList := by
  induction k generalizing a with
  | zero => exact .refl _
  | succ k ih => exact (ih _).trans (down_perm _ _ _)

theorem initLoop_heapOn (n k : Nat) (a : Array (Item α)) (hn : n ≤ a.size) (H : HeapOn a k n) :
    HeapOn (initLoop n k a) 0 n := by
  induction k generalizing a with
  | zero => exact H
  | succ k ih =>
    apply ih _ (by simpa [size_down] using hn)
    apply down_heap _ _ _ _ hn
    constructor
    · intro x hx hxpos hxn hlo hne
      exact H x hx hxpos hxn (by omega)
    · intro c _ _ _ _ hkpos hlo
      have := parent_lt hkpos; omega

/-- `heap.Init` establishes the heap order on an arbitrary slice (priority.go only ever calls it on an
empty one, see `heapInit_empty`). -/
theorem heapInit_isHeap (a : Array (Item α)) : IsHeap (heapInit a) := by
  rw [isHeap_iff_heapOn]
  unfold heapInit
  rw [size_initLoop]
  apply initLoop_heapOn _ _ _ (Nat.le_refl _)
  intro k hk hkpos _ hlo
  unfold parent at hlo; omega

theorem heapInit_perm (a : Array (Item α)) : (heapInit a).toList.Perm a.toList :=
  initLoop_perm _ _ _

/-- What priority.go uses: `heap.Init` of the empty slice is the empty slice. -/
theorem heapInit_empty : heapInit (#[] : Array (Item α)) = #[] := by
  simp [heapInit, initLoop]

theorem isHeap_empty : IsHeap (#[] : Array (Item α)) := by
  intro i hi; simp at hi

/-! ## Non-vacuity examples and axiom audit

`IsHeap` is decidable, so concrete heaps are checked by `decide`.  Concrete runs of the (well-founded)
`up` / `down` loops are evaluated in the kernel (`decide +kernel`: no `native_decide`, no extra axiom). -/

instance (a : Array (Item α)) : Decidable (IsHeap a) := by
  unfold IsHeap; exact inferInstance

section Examples

/-- A six-element heap with extreme (`minInt64` / `maxInt64`), negative and equal priorities. -/
def exHeap : Array (Item String) :=
  #[⟨"e", -9223372036854775808, 4⟩, ⟨"b", -3, 1⟩, ⟨"f", -3, 5⟩,
    ⟨"d", 9223372036854775807, 3⟩, ⟨"a", 5, 0⟩, ⟨"c", 5, 2⟩]

example : IsHeap exHeap := by decide
/-- heap order is not sortedness: `exHeap` is a heap although ("d", maxInt64) precedes ("a", 5). -/
example : less exHeap[4] exHeap[3] = true := by decide
example : ¬ IsHeap (#[⟨(), 1, 0⟩, ⟨(), 0, 1⟩] : Array (Item Unit)) := by decide
/-- equal priorities: the earlier insertion index must be the parent. -/
example : ¬ IsHeap (#[⟨(), 7, 1⟩, ⟨(), 7, 0⟩] : Array (Item Unit)) := by decide

/-- `heap.Push` of an item that has to travel from the last leaf to the root (two swaps). -/
example : heapPush exHeap ⟨"z", -9223372036854775808, 3⟩ =
    #[⟨"z", -9223372036854775808, 3⟩, ⟨"b", -3, 1⟩, ⟨"e", -9223372036854775808, 4⟩,
      ⟨"d", 9223372036854775807, 3⟩, ⟨"a", 5, 0⟩, ⟨"c", 5, 2⟩, ⟨"f", -3, 5⟩] := by decide +kernel
example : IsHeap (heapPush exHeap ⟨"z", -9223372036854775808, 3⟩) :=
  heapPush_isHeap _ _ (by decide)

/-- `heap.Pop`: returns the root; the last leaf `c` sifts down two levels: the tie `(-3,1)` / `(-3,5)`
picks the left child, then `(5,0)` beats `maxInt64` and is `less` than `c = (5,2)`. -/
example : heapPop exHeap (by decide) =
    (⟨"e", -9223372036854775808, 4⟩,
     #[⟨"b", -3, 1⟩, ⟨"a", 5, 0⟩, ⟨"f", -3, 5⟩, ⟨"d", 9223372036854775807, 3⟩, ⟨"c", 5, 2⟩]) := by
  decide +kernel
example : IsHeap (heapPop exHeap (by decide)).2 := heapPop_isHeap _ (by decide) _
example : ∀ x ∈ exHeap, less x (heapPop exHeap (by decide)).1 = false :=
  heapPop_min _ (by decide) _

/-- `heap.Init` on an unordered slice (not reachable from priority.go, which only heapifies `[]`). -/
example : heapInit (#[⟨"a", 5, 0⟩, ⟨"b", -3, 1⟩, ⟨"c", 5, 2⟩, ⟨"d", 0, 3⟩, ⟨"e", -7, 4⟩] : Array (Item String)) =
    #[⟨"e", -7, 4⟩, ⟨"b", -3, 1⟩, ⟨"c", 5, 2⟩, ⟨"d", 0, 3⟩, ⟨"a", 5, 0⟩] := by decide +kernel

/-- `UpInv` / `DownInv` (hypotheses of `up_heap` / `down_heap`) hold in non-trivial situations where
the array is *not* a heap: -/
example : UpInv (exHeap.push ⟨"z", -9223372036854775808, 3⟩) 6 := upInv_push _ _ (by decide)
example : ¬ IsHeap (exHeap.push ⟨"z", -9223372036854775808, 3⟩) := by decide
example : DownInv (exHeap.swap 0 5) 0 5 0 := downInv_pop exHeap (by decide) (by decide)
example : ¬ IsHeap (exHeap.swap 0 5) := by decide

end Examples

#print axioms less_trans
#print axioms less_total
#print axioms up_heap
#print axioms down_heap
#print axioms heapPush_isHeap
#print axioms heapPop_isHeap
#print axioms heapPush_perm
#print axioms heapPop_perm
#print axioms heapPop_min
#print axioms heapInit_isHeap

end Heap
end VarmqVerif
