/-
  Theorems about the acknowledging-adapter model `Ack` (Model/Ack.lean): C11, nothing accepted is
  lost or duplicated at any crash point, and an item is acknowledged only after its worker function
  returned, at most once.

  Main results, for every reachable state (unbounded items, any interleaving, any number of
  `recover`s; every reachable state is a crash point):
    * `conservation`              pending ++ unacked ++ acked is a permutation of accepted
    * `accepted_nodup`, `accepted_lt_next`, and the corollaries `pending_nodup`, `unacked_nodup`,
      `ack_at_most_once` (= acked.Nodup), `pending_unacked_disjoint`, `pending_acked_disjoint`,
      `unacked_acked_disjoint`, `mem_accepted_iff`
    * `acked_processed`, `not_processed_not_acked`
    * `held_or_done`              the statement of C11 in one line
    * `recover_keeps_all` (needs no reachability), `recover_conservation`
    * process-local bookkeeping: `exited_sub_processed`, `exited_sub_entered`,
      `entered_sub_unacked_or_acked`, `ackCalled_sub_exited`, `acked_of_ack_ok`
  The inductive invariant is `Inv` (`reach_inv`).
  All statements were true for the model as written; no guard of `step` had to be changed.
-/
import VarmqVerif.Model.Ack

namespace VarmqVerif
namespace Ack

/-! ## List helpers -/

theorem perm_move {x : Nat} {a : List Nat} (b : List Nat) (h : x ∈ a) :
    (a.erase x ++ x :: b).Perm (a ++ b) :=
  List.perm_middle.trans ((List.perm_cons_erase h).symm.append_right b)

theorem contains_false_iff {x : Nat} {l : List Nat} : l.contains x = false ↔ x ∉ l := by
  simp

/-! ## The inductive invariant -/

structure Inv (s : State) : Prop where
  perm : (s.pending ++ s.unacked ++ s.acked).Perm s.accepted
  nodup : s.accepted.Nodup
  lt : ∀ x ∈ s.accepted, x < s.next
  ackedP : ∀ x ∈ s.acked, x ∈ s.processed
  exitedP : ∀ x ∈ s.exited, x ∈ s.processed
  exitedE : ∀ x ∈ s.exited, x ∈ s.entered
  enteredU : ∀ x ∈ s.entered, x ∈ s.unacked ∨ x ∈ s.acked
  ackCalledX : ∀ x ∈ s.ackCalled, x ∈ s.exited

theorem inv_init : Inv init := by
  constructor <;> simp [init]

theorem inv_enq_ok {s : State} (h : Inv s) :
    Inv { s with next := s.next + 1, accepted := s.next :: s.accepted, pending := s.pending ++ [s.next] } := by
  refine { h with perm := ?_, nodup := ?_, lt := ?_ }
  · have h1 : (s.pending ++ s.next :: (s.unacked ++ s.acked)).Perm
        (s.next :: (s.pending ++ (s.unacked ++ s.acked))) := List.perm_middle
    have h2 := h.perm
    simp only [List.append_assoc] at h2 ⊢
    exact h1.trans (h2.cons _)
  · refine List.nodup_cons.mpr ⟨fun hm => ?_, h.nodup⟩
    exact Nat.lt_irrefl _ (h.lt _ hm)
  · intro x hx
    rcases List.mem_cons.mp hx with rfl | hx
    · exact Nat.lt_succ_self _
    · exact Nat.lt_succ_of_lt (h.lt x hx)

theorem inv_deq {s : State} {x : Nat} (h : Inv s) (hx : x ∈ s.pending) :
    Inv { s with pending := s.pending.erase x, unacked := x :: s.unacked } := by
  refine { h with perm := ?_, enteredU := ?_ }
  · exact ((perm_move s.unacked hx).append_right s.acked).trans h.perm
  · intro y hy
    rcases h.enteredU y hy with hu | ha
    · exact Or.inl (List.mem_cons_of_mem _ hu)
    · exact Or.inr ha

theorem inv_enter {s : State} {x : Nat} (h : Inv s) (hx : x ∈ s.unacked) :
    Inv { s with entered := x :: s.entered } := by
  refine { h with exitedE := ?_, enteredU := ?_ }
  · intro y hy
    exact List.mem_cons_of_mem _ (h.exitedE y hy)
  · intro y hy
    rcases List.mem_cons.mp hy with rfl | hy
    · exact Or.inl hx
    · exact h.enteredU y hy

theorem inv_exit {s : State} {x : Nat} (h : Inv s) (hx : x ∈ s.entered) :
    Inv { s with exited := x :: s.exited, processed := x :: s.processed } := by
  refine { h with ackedP := ?_, exitedP := ?_, exitedE := ?_, ackCalledX := ?_ }
  · intro y hy
    exact List.mem_cons_of_mem _ (h.ackedP y hy)
  · intro y hy
    rcases List.mem_cons.mp hy with rfl | hy
    · exact List.mem_cons_self
    · exact List.mem_cons_of_mem _ (h.exitedP y hy)
  · intro y hy
    rcases List.mem_cons.mp hy with rfl | hy
    · exact hx
    · exact h.exitedE y hy
  · intro y hy
    exact List.mem_cons_of_mem _ (h.ackCalledX y hy)

theorem inv_ack_ok {s : State} {x : Nat} (h : Inv s) (hex : x ∈ s.exited) (hx : x ∈ s.unacked) :
    Inv { s with unacked := s.unacked.erase x, acked := x :: s.acked, ackCalled := x :: s.ackCalled } := by
  refine { h with perm := ?_, ackedP := ?_, enteredU := ?_, ackCalledX := ?_ }
  · have h2 := h.perm
    simp only [List.append_assoc] at h2 ⊢
    exact ((perm_move s.acked hx).append_left s.pending).trans h2
  · intro y hy
    rcases List.mem_cons.mp hy with rfl | hy
    · exact h.exitedP _ hex
    · exact h.ackedP y hy
  · intro y hy
    by_cases hyx : y = x
    · subst hyx
      exact Or.inr List.mem_cons_self
    · rcases h.enteredU y hy with hu | ha
      · exact Or.inl ((List.mem_erase_of_ne hyx).mpr hu)
      · exact Or.inr (List.mem_cons_of_mem _ ha)
  · intro y hy
    rcases List.mem_cons.mp hy with rfl | hy
    · exact hex
    · exact h.ackCalledX y hy

theorem inv_ack_refused {s : State} {x : Nat} (h : Inv s) (hex : x ∈ s.exited) :
    Inv { s with ackCalled := x :: s.ackCalled } := by
  refine { h with ackCalledX := ?_ }
  intro y hy
  rcases List.mem_cons.mp hy with rfl | hy
  · exact hex
  · exact h.ackCalledX y hy

theorem inv_recover {s : State} (h : Inv s) :
    Inv { s with pending := s.unacked.reverse ++ s.pending, unacked := [], entered := [],
                 exited := [], ackCalled := [] } := by
  refine { h with perm := ?_, exitedP := ?_, exitedE := ?_, enteredU := ?_, ackCalledX := ?_ }
  · have h1 : (s.unacked.reverse ++ s.pending).Perm (s.pending ++ s.unacked) :=
      ((List.reverse_perm s.unacked).append_right s.pending).trans List.perm_append_comm
    simpa using (h1.append_right s.acked).trans h.perm
  all_goals (intro y hy; cases hy)

theorem step_inv {s s' : State} {e : Ev} (h : Inv s) (hs : step s e = .ok s') : Inv s' := by
  cases e with
  | enq ok =>
    cases ok with
    | true =>
      simp only [step, if_true] at hs
      cases hs; exact inv_enq_ok h
    | false =>
      simp only [step] at hs
      cases hs; exact h
  | deq x =>
    simp only [step] at hs
    split at hs
    · cases hs
    · rename_i hc
      cases hs
      exact inv_deq h (by simpa using hc)
  | deqFail =>
    simp only [step] at hs
    cases hs; exact h
  | enter x =>
    simp only [step] at hs
    split at hs
    · cases hs
    · rename_i hc
      split at hs
      · cases hs
      · cases hs
        exact inv_enter h (by simpa using hc)
  | exit x =>
    simp only [step] at hs
    split at hs
    · cases hs
    · rename_i hc
      cases hs
      have : x ∈ s.entered := by
        simp only [Bool.or_eq_true, Bool.not_eq_true', not_or, Bool.not_eq_false,
          Bool.not_eq_true] at hc
        simpa using hc.1
      exact inv_exit h this
  | ack x ok =>
    simp only [step] at hs
    split at hs
    · cases hs
    · rename_i hex
      have hex' : x ∈ s.exited := by simpa using hex
      split at hs
      · cases hs
      · split at hs
        · split at hs
          · cases hs
          · rename_i hu
            cases hs
            exact inv_ack_ok h hex' (by simpa using hu)
        · cases hs
          exact inv_ack_refused h hex'
  | recover =>
    simp only [step] at hs
    cases hs; exact inv_recover h

theorem reach_inv {s : State} (h : Reach s) : Inv s := by
  induction h with
  | init => exact inv_init
  | step e _ hs ih => exact step_inv ih hs

theorem reach_run {s s' : State} {evs : List Ev} (h : Reach s) (hr : run s evs = .ok s') :
    Reach s' := by
  induction evs generalizing s with
  | nil => simp only [run] at hr; cases hr; exact h
  | cons e es ih =>
    simp only [run] at hr
    split at hr
    · rename_i s1 hs1
      exact ih (Reach.step e h hs1) hr
    · cases hr

/-! ## Main theorems -/

/-- C11: at every crash point every accepted item is pending, unacknowledged or acknowledged —
    nothing is lost, nothing is duplicated. -/
theorem conservation {s : State} (h : Reach s) :
    (s.pending ++ s.unacked ++ s.acked).Perm s.accepted :=
  (reach_inv h).perm

theorem accepted_nodup {s : State} (h : Reach s) : s.accepted.Nodup :=
  (reach_inv h).nodup

theorem accepted_lt_next {s : State} (h : Reach s) : ∀ x ∈ s.accepted, x < s.next :=
  (reach_inv h).lt

theorem held_nodup {s : State} (h : Reach s) : (s.pending ++ s.unacked ++ s.acked).Nodup :=
  (conservation h).nodup_iff.mpr (accepted_nodup h)

theorem mem_accepted_iff {s : State} (h : Reach s) (x : Nat) :
    x ∈ s.accepted ↔ x ∈ s.pending ∨ x ∈ s.unacked ∨ x ∈ s.acked := by
  rw [← (conservation h).mem_iff]
  simp

theorem pending_nodup {s : State} (h : Reach s) : s.pending.Nodup :=
  (List.nodup_append.mp (List.nodup_append.mp (held_nodup h)).1).1

theorem unacked_nodup {s : State} (h : Reach s) : s.unacked.Nodup :=
  (List.nodup_append.mp (List.nodup_append.mp (held_nodup h)).1).2.1

/-- an item is acknowledged at most once (over all processes) -/
theorem ack_at_most_once {s : State} (h : Reach s) : s.acked.Nodup :=
  (List.nodup_append.mp (held_nodup h)).2.1

theorem pending_unacked_disjoint {s : State} (h : Reach s) {x : Nat} :
    x ∈ s.pending → x ∉ s.unacked := by
  intro hp hu
  exact (List.nodup_append.mp (List.nodup_append.mp (held_nodup h)).1).2.2 x hp x hu rfl

theorem pending_acked_disjoint {s : State} (h : Reach s) {x : Nat} :
    x ∈ s.pending → x ∉ s.acked := by
  intro hp ha
  exact (List.nodup_append.mp (held_nodup h)).2.2 x (List.mem_append_left _ hp) x ha rfl

theorem unacked_acked_disjoint {s : State} (h : Reach s) {x : Nat} :
    x ∈ s.unacked → x ∉ s.acked := by
  intro hu ha
  exact (List.nodup_append.mp (held_nodup h)).2.2 x (List.mem_append_right _ hu) x ha rfl

/-- acknowledged only after the worker function returned for it -/
theorem acked_processed {s : State} (h : Reach s) : ∀ x ∈ s.acked, x ∈ s.processed :=
  (reach_inv h).ackedP

theorem not_processed_not_acked {s : State} {x : Nat} (h : Reach s) :
    x ∉ s.processed → x ∉ s.acked :=
  fun hn ha => hn (acked_processed h x ha)

/-- the statement of C11 in one line -/
theorem held_or_done {s : State} {x : Nat} (h : Reach s) (hx : x ∈ s.accepted) :
    x ∈ s.pending ∨ x ∈ s.unacked ∨ (x ∈ s.acked ∧ x ∈ s.processed) := by
  rcases (mem_accepted_iff h x).mp hx with hp | hu | ha
  · exact Or.inl hp
  · exact Or.inr (Or.inl hu)
  · exact Or.inr (Or.inr ⟨ha, acked_processed h x ha⟩)

/-- nothing outside `accepted` is ever held by the adapter -/
theorem held_sub_accepted {s : State} {x : Nat} (h : Reach s)
    (hx : x ∈ s.pending ∨ x ∈ s.unacked ∨ x ∈ s.acked) : x ∈ s.accepted :=
  (mem_accepted_iff h x).mpr hx

/-- what a fresh process finds after a crash at `s`: everything that was pending or delivered but
    unacknowledged is pending, nothing is in flight, the acknowledged set is unchanged.
    (True of `step` for any `s`; `Reach s` is kept in the signature for uniformity.) -/
theorem recover_keeps_all {s s' : State} (_h : Reach s) (hs : step s .recover = .ok s') :
    (∀ x, x ∈ s'.pending ↔ x ∈ s.pending ∨ x ∈ s.unacked) ∧ s'.unacked = [] ∧ s'.acked = s.acked := by
  simp only [step] at hs
  cases hs
  refine ⟨fun x => ?_, rfl, rfl⟩
  simp [or_comm]

/-- `recover` is always enabled -/
theorem recover_enabled (s : State) : ∃ s', step s .recover = .ok s' := ⟨_, rfl⟩

/-- `recover` changes neither the accepted set, nor the processed set, nor the counter -/
theorem recover_keeps_ghost {s s' : State} (hs : step s .recover = .ok s') :
    s'.accepted = s.accepted ∧ s'.processed = s.processed ∧ s'.next = s.next := by
  simp only [step] at hs
  cases hs
  exact ⟨rfl, rfl, rfl⟩

/-- after a crash and recovery every accepted item is pending again or acknowledged (and then
    processed): no accepted item is lost by the death of the process -/
theorem recover_conservation {s s' : State} {x : Nat} (h : Reach s)
    (hs : step s .recover = .ok s') (hx : x ∈ s.accepted) :
    x ∈ s'.pending ∨ (x ∈ s'.acked ∧ x ∈ s'.processed) := by
  obtain ⟨hp, _, ha⟩ := recover_keeps_all h hs
  obtain ⟨_, hpr, _⟩ := recover_keeps_ghost hs
  rcases held_or_done h hx with h1 | h1 | ⟨h1, h2⟩
  · exact Or.inl ((hp x).mpr (Or.inl h1))
  · exact Or.inl ((hp x).mpr (Or.inr h1))
  · exact Or.inr ⟨ha ▸ h1, hpr ▸ h2⟩

/-! ## Process-local bookkeeping -/

theorem exited_sub_processed {s : State} (h : Reach s) : ∀ x ∈ s.exited, x ∈ s.processed :=
  (reach_inv h).exitedP

theorem exited_sub_entered {s : State} (h : Reach s) : ∀ x ∈ s.exited, x ∈ s.entered :=
  (reach_inv h).exitedE

/-- a delivery whose worker function was entered in this process is still unacknowledged or has
    been acknowledged: it is never back in `pending` while the process lives -/
theorem entered_sub_unacked_or_acked {s : State} (h : Reach s) :
    ∀ x ∈ s.entered, x ∈ s.unacked ∨ x ∈ s.acked :=
  (reach_inv h).enteredU

theorem entered_not_pending {s : State} {x : Nat} (h : Reach s) (hx : x ∈ s.entered) :
    x ∉ s.pending := by
  intro hp
  rcases entered_sub_unacked_or_acked h x hx with hu | ha
  · exact pending_unacked_disjoint h hp hu
  · exact pending_acked_disjoint h hp ha

theorem ackCalled_sub_exited {s : State} (h : Reach s) : ∀ x ∈ s.ackCalled, x ∈ s.exited :=
  (reach_inv h).ackCalledX

/-- a successful Acknowledge puts the item into `acked`, removes it from `unacked`, and the item
    has been processed -/
theorem acked_of_ack_ok {s s' : State} {x : Nat} (h : Reach s) (hs : step s (.ack x true) = .ok s') :
    x ∈ s'.acked ∧ x ∉ s'.unacked ∧ x ∉ s'.pending ∧ x ∈ s'.processed := by
  have hr : Reach s' := Reach.step _ h hs
  have ha : x ∈ s'.acked := by
    simp only [step] at hs
    split at hs
    · cases hs
    · split at hs
      · cases hs
      · simp only [if_true] at hs
        split at hs
        · cases hs
        · cases hs
          exact List.mem_cons_self
  exact ⟨ha, fun hu => unacked_acked_disjoint hr hu ha, fun hp => pending_acked_disjoint hr hp ha,
    acked_processed hr x ha⟩

/-- a refused Acknowledge changes nothing the adapter holds -/
theorem ack_refused_keeps {s s' : State} {x : Nat} (hs : step s (.ack x false) = .ok s') :
    s'.pending = s.pending ∧ s'.unacked = s.unacked ∧ s'.acked = s.acked := by
  simp only [step] at hs
  split at hs
  · cases hs
  · split at hs
    · cases hs
    · simp only [Bool.false_eq_true, if_false] at hs
      cases hs
      exact ⟨rfl, rfl, rfl⟩

/-! ## Non-vacuity: concrete runs -/

/-- `Except` has no `DecidableEq` instance in core; needed to state runs with `decide`. -/
instance : DecidableEq (Except String State) := fun a b =>
  match a, b with
  | .ok x, .ok y =>
    if h : x = y then isTrue (by rw [h]) else isFalse (fun h' => by cases h'; exact h rfl)
  | .error x, .error y =>
    if h : x = y then isTrue (by rw [h]) else isFalse (fun h' => by cases h'; exact h rfl)
  | .ok _, .error _ => isFalse (fun h' => by cases h')
  | .error _, .ok _ => isFalse (fun h' => by cases h')

/-- 3 items accepted; item 0 delivered, processed, acknowledged; item 1 delivered and in flight
    (worker function entered); crash.  The fresh process finds 1 pending again (before 2), nothing
    unacknowledged, 0 acknowledged. -/
def trace1 : List Ev :=
  [.enq true, .enq true, .enq true,
   .deq 0, .enter 0, .exit 0, .ack 0 true,
   .deq 1, .enter 1,
   .recover]

def state1 : State :=
  { next := 3, accepted := [2, 1, 0], pending := [1, 2], unacked := [], acked := [0],
    entered := [], exited := [], ackCalled := [], processed := [0] }

example : run init trace1 = .ok state1 := by decide

/-- … then the in-flight item 1 is redelivered, processed and acknowledged. -/
def trace2 : List Ev := trace1 ++ [.deq 1, .enter 1, .exit 1, .ack 1 true]

def state2 : State :=
  { next := 3, accepted := [2, 1, 0], pending := [2], unacked := [], acked := [1, 0],
    entered := [1], exited := [1], ackCalled := [1], processed := [1, 0] }

example : run init trace2 = .ok state2 := by decide

theorem reach_state1 : Reach state1 := reach_run Reach.init (show run init trace1 = .ok state1 by decide)
theorem reach_state2 : Reach state2 := reach_run Reach.init (show run init trace2 = .ok state2 by decide)

/-- the crash point just before `recover` in `trace1`: item 1 is unacknowledged and entered, not
    processed, not acknowledged -/
def state1pre : State :=
  { next := 3, accepted := [2, 1, 0], pending := [2], unacked := [1], acked := [0],
    entered := [1, 0], exited := [0], ackCalled := [0], processed := [0] }

example : run init trace1.dropLast = .ok state1pre := by decide
theorem reach_state1pre : Reach state1pre :=
  reach_run Reach.init (show run init trace1.dropLast = .ok state1pre by decide)

/-- instances of the main theorems on these states (hypotheses are satisfiable, conclusions are
    not trivially true: all three components are non-empty in `state1pre`) -/
example : (state1pre.pending ++ state1pre.unacked ++ state1pre.acked).Perm state1pre.accepted :=
  conservation reach_state1pre
example : ([2] ++ [1] ++ [0] : List Nat).Perm [2, 1, 0] := conservation reach_state1pre
example : state1pre.accepted.Nodup ∧ state1pre.accepted ≠ [] := ⟨accepted_nodup reach_state1pre, by decide⟩
example : ∀ x ∈ state1pre.accepted, x < 3 := accepted_lt_next reach_state1pre
example : (0 : Nat) ∈ state2.acked ∧ (0 : Nat) ∈ state2.processed :=
  ⟨by decide, acked_processed reach_state2 0 (by decide)⟩
example : state2.acked.Nodup ∧ state2.acked.length = 2 := ⟨ack_at_most_once reach_state2, by decide⟩
example : (1 : Nat) ∉ state1pre.processed ∧ (1 : Nat) ∉ state1pre.acked :=
  ⟨by decide, not_processed_not_acked reach_state1pre (by decide)⟩
example : (1 : Nat) ∈ state1pre.accepted ∧ (1 : Nat) ∈ state1pre.unacked := by decide
example : (1 : Nat) ∈ state1pre.pending ∨ (1 : Nat) ∈ state1pre.unacked ∨
    ((1 : Nat) ∈ state1pre.acked ∧ (1 : Nat) ∈ state1pre.processed) :=
  held_or_done reach_state1pre (by decide)
example : step state1pre .recover = .ok state1 := by decide
example : (∀ x, x ∈ state1.pending ↔ x ∈ state1pre.pending ∨ x ∈ state1pre.unacked) ∧
    state1.unacked = [] ∧ state1.acked = state1pre.acked :=
  recover_keeps_all reach_state1pre (by decide)
example : (1 : Nat) ∈ state1pre.entered ∧ ((1 : Nat) ∈ state1pre.unacked ∨ (1 : Nat) ∈ state1pre.acked) :=
  ⟨by decide, entered_sub_unacked_or_acked reach_state1pre 1 (by decide)⟩

/-- a refused acknowledge (ok = false) leaves the item unacknowledged; a second Acknowledge for
    it in the same process is outside the library's program order (guard), and after a crash the
    item is pending again. -/
def trace3 : List Ev := [.enq true, .deq 0, .enter 0, .exit 0, .ack 0 false]

def state3 : State :=
  { next := 1, accepted := [0], pending := [], unacked := [0], acked := [],
    entered := [0], exited := [0], ackCalled := [0], processed := [0] }

example : run init trace3 = .ok state3 := by decide
theorem reach_state3 : Reach state3 := reach_run Reach.init (show run init trace3 = .ok state3 by decide)
example : (0 : Nat) ∈ state3.unacked ∧ (0 : Nat) ∉ state3.acked ∧ (0 : Nat) ∈ state3.processed := by decide
example : (run init (trace3 ++ [.recover])).toOption.map (·.pending) = some [0] := by decide
example : (run init (trace3 ++ [.ack 0 true])).toOption = none := by decide

/-- guards are live: acknowledging before the worker function returned, and delivering an item
    that is not pending, are rejected -/
example : (run init [.enq true, .deq 0, .enter 0, .ack 0 true]).toOption = none := by decide
example : (run init [.enq true, .deq 0, .deq 0]).toOption = none := by decide
/-- a refused Enqueue accepts nothing -/
example : run init [.enq false] = .ok init := by decide

end Ack
end VarmqVerif

#print axioms VarmqVerif.Ack.conservation
#print axioms VarmqVerif.Ack.accepted_nodup
#print axioms VarmqVerif.Ack.accepted_lt_next
#print axioms VarmqVerif.Ack.held_nodup
#print axioms VarmqVerif.Ack.mem_accepted_iff
#print axioms VarmqVerif.Ack.pending_nodup
#print axioms VarmqVerif.Ack.unacked_nodup
#print axioms VarmqVerif.Ack.ack_at_most_once
#print axioms VarmqVerif.Ack.pending_unacked_disjoint
#print axioms VarmqVerif.Ack.pending_acked_disjoint
#print axioms VarmqVerif.Ack.unacked_acked_disjoint
#print axioms VarmqVerif.Ack.acked_processed
#print axioms VarmqVerif.Ack.not_processed_not_acked
#print axioms VarmqVerif.Ack.held_or_done
#print axioms VarmqVerif.Ack.held_sub_accepted
#print axioms VarmqVerif.Ack.recover_keeps_all
#print axioms VarmqVerif.Ack.recover_keeps_ghost
#print axioms VarmqVerif.Ack.recover_conservation
#print axioms VarmqVerif.Ack.exited_sub_processed
#print axioms VarmqVerif.Ack.exited_sub_entered
#print axioms VarmqVerif.Ack.entered_sub_unacked_or_acked
#print axioms VarmqVerif.Ack.entered_not_pending
#print axioms VarmqVerif.Ack.ackCalled_sub_exited
#print axioms VarmqVerif.Ack.acked_of_ack_ok
#print axioms VarmqVerif.Ack.ack_refused_keeps
#print axioms VarmqVerif.Ack.reach_inv
#print axioms VarmqVerif.Ack.reach_run
