/-
  Theorems about the wake-up protocol model `Sig2` (Model/Sig2.lean): no lost wake-up across
  Stop / Restart (several signal channels, several event loops).

  Main results, for every reachable state (any number of goroutines, channels, event loops, events):
    * `no_lost_wakeup`           Dispatchable → a token on the CURRENT channel ∨ a notify() is still
                                 owed ∨ some event loop (possibly one of a previous run, listening on
                                 a closed channel) will evaluate the loop condition again
    * `no_lost_wakeup_strong`    … and that event loop does not hold a loaded `cur` above `cur`
    * `stale_cur_covered`        clause (B) of Proofs/SigLemmas.lean, in the form that is true here
    * `running_listening`        ws = running → the current channel exists, is open, and an event loop
                                 that has not ended listens on it
    * `asleep_not_dispatchable`  nobody owes, nobody is mid-activation, dispatchable → the token is on
                                 the current open channel and a live event loop listens on it
    * `closed_never_current`, `current_made`, `closed_made`, `loop_registered`
    * `owes_sum`, `owes_le_nOwes`, `nOwes_pos_iff`, `nOwes_eq_zero_iff`, `notify_enabled`: the ghost
      counter `nOwes` is the sum of `owes`; the guard "ghost counter nOwes is 0" of `step` is dead,
      also for a notify() on the nil channel.
  The inductive invariant is `Inv` in Proofs/Sig2Lemmas.lean (`reach_inv`).
  All statements were true for the model as written; no guard of `step` had to be changed.
-/
import VarmqVerif.Proofs.Sig2Lemmas

namespace VarmqVerif
namespace Sig2

/-! ## Helpers for concrete traces -/

/-- decidable form of `TokCur` -/
def tokCurB (s : State) : Bool :=
  match s.chan with
  | some ch => s.tok ch
  | none => false

/-- decidable form of `Listening` -/
def listeningB (s : State) : Bool :=
  match s.chan with
  | some ch => !s.closed ch && liveOn s ch
  | none => false

/-- no registered event loop is in a phase that evaluates the condition again -/
def quietB (s : State) : Bool := s.ds.all (fun d => !(s.dph d).willEval)

theorem tokCur_of_tokCurB {s : State} (h : tokCurB s = true) : TokCur s := by
  unfold tokCurB at h
  split at h
  · rename_i ch hc; exact ⟨ch, hc, h⟩
  · cases h

theorem not_tokCur_of_tokCurB {s : State} (h : tokCurB s = false) : ¬ TokCur s := by
  intro ⟨ch, hc, ht⟩
  simp [tokCurB, hc, ht] at h

theorem listening_of_listeningB {s : State} (h : listeningB s = true) : Listening s := by
  unfold listeningB at h
  split at h
  · rename_i ch hc
    simp only [Bool.and_eq_true, Bool.not_eq_eq_eq_not, Bool.not_true] at h
    exact ⟨ch, hc, h.1, (liveOn_iff s ch).mp h.2⟩
  · cases h

/-- what the examples look at.  `State` has function fields, so it has no `DecidableEq`; project.
    `loops` lists ⟨d, phase of d, channel of d⟩ for the goroutines started as event loops, the most
    recent first. -/
structure View where
  ws : Nat
  cur : Nat
  conc : Nat
  qlen : Nat
  chan : Option Nat
  tokCur : Bool
  nOwes : Nat
  loops : List (Nat × DPh × Nat)
  listening : Bool
  quiet : Bool
  deriving DecidableEq, Repr

def view (s : State) : View :=
  ⟨s.ws, s.cur, s.conc, s.qlen, s.chan, tokCurB s, s.nOwes, s.ds.map (fun d => (d, s.dph d, s.dch d)),
   listeningB s, quietB s⟩

def runProj {α : Type} (f : State → α) (c : Nat) (evs : List Ev) : Option α :=
  match run (init c) evs with
  | .ok s => some (f s)
  | .error _ => none

theorem reach_of_runProj {α : Type} {f : State → α} {c : Nat} {evs : List Ev} {x : α}
    (h : runProj f c evs = some x) : ∃ s, Reach s ∧ run (init c) evs = .ok s ∧ f s = x := by
  unfold runProj at h
  split at h
  · rename_i s hs
    exact ⟨s, reach_run (Reach.init c) hs, hs, by simpa using h⟩
  · cases h

/-- a reachable state with a given view -/
theorem reach_of_view {c : Nat} {evs : List Ev} {ws cur conc qlen nOwes : Nat} {chan : Option Nat}
    {tc li qu : Bool} {loops : List (Nat × DPh × Nat)}
    (h : runProj view c evs = some ⟨ws, cur, conc, qlen, chan, tc, nOwes, loops, li, qu⟩) :
    ∃ s, Reach s ∧ s.ws = ws ∧ s.cur = cur ∧ s.conc = conc ∧ s.qlen = qlen ∧ s.chan = chan ∧
      tokCurB s = tc ∧ s.nOwes = nOwes ∧ listeningB s = li ∧ quietB s = qu ∧
      s.ds.map (fun d => (d, s.dph d, s.dch d)) = loops := by
  obtain ⟨s, hr, _, hv⟩ := reach_of_runProj h
  simp only [view, View.mk.injEq] at hv
  obtain ⟨h1, h2, h3, h4, h5, h6, h7, h8, h9, h10⟩ := hv
  exact ⟨s, hr, h1, h2, h3, h4, h5, h6, h7, h9, h10, h8⟩

/-! ## Concrete runs -/

/-- conc = 1.  Start (make the channel, start event loop 10, store `running`, notify), an Add
    (enq + notify), the loop wakes and dispatches the job. -/
def exStart : List Ev := [
  .makeSig 1 100, .spawnD 1 10, .stStatus 1 running, .notify 1 true,
  .enq 5, .notify 5 false,
  .recvTok 10, .dStatus 10 running, .dCur 10 0, .dConc 10 1, .dLen 10 1, .dCasOk 10, .dDeq 10,
  .dStatus 10 running, .dCur 10 1, .dConc 10 1, .dCur 10 1]

example : exStart.length = 17 := rfl
-- 4: started, the token of Start's notify() is in channel 100, loop 10 parked on it
example : runProj view 1 (exStart.take 4) = some ⟨1, 0, 1, 0, some 100, true, 0, [(10, .parked, 100)], true, true⟩ := by decide
-- 5: dispatchable; token and an owed notify()
example : runProj view 1 (exStart.take 5) = some ⟨1, 0, 1, 1, some 100, true, 1, [(10, .parked, 100)], true, true⟩ := by decide
-- 6: dispatchable; only the token covers it
example : runProj view 1 (exStart.take 6) = some ⟨1, 0, 1, 1, some 100, true, 0, [(10, .parked, 100)], true, true⟩ := by decide
-- 7: dispatchable; only the woken event loop covers it
example : runProj view 1 (exStart.take 7) = some ⟨1, 0, 1, 1, some 100, false, 0, [(10, .fresh, 100)], true, false⟩ := by decide
-- 17: asleep, saturated
example : runProj view 1 exStart = some ⟨1, 1, 1, 0, some 100, false, 0, [(10, .parked, 100)], true, true⟩ := by decide

/-- conc = 1.  Start; event loop 10 wakes and has evaluated IsRunning() (6) when Stop stores
    `stopped` and closes channel 100 (7, 8).  An Add during the stop: its notify() finds the nil
    channel and is swallowed (9, 10).  Restart makes channel 101, starts event loop 11, stores
    `running` and notifies (11–14).  Loop 10 of the first run is still in the middle of its
    activation, on the closed channel. -/
def exRestart : List Ev := [
  .makeSig 1 100, .spawnD 1 10, .stStatus 1 running, .notify 1 true,
  .recvTok 10, .dStatus 10 running,
  .stStatus 2 stopped, .closeSig 2,
  .enq 5, .notify 5 false,
  .makeSig 3 101, .spawnD 3 11, .stStatus 3 running, .notify 3 true]

example : exRestart.length = 14 := rfl
-- 8: stopped, nil channel, nobody listens
example : runProj view 1 (exRestart.take 8) = some ⟨3, 0, 1, 0, none, false, 0, [(10, .sawRunning, 100)], false, false⟩ := by decide
-- 10: the Add's notify() was swallowed by the nil channel: a job is pending, no token, nothing owed
--     (not dispatchable: the worker is not running)
example : runProj view 1 (exRestart.take 10) = some ⟨3, 0, 1, 1, none, false, 0, [(10, .sawRunning, 100)], false, false⟩ := by decide
-- 13: running again, dispatchable: Restart's owed notify() covers it (and old loop 10)
example : runProj view 1 (exRestart.take 13) = some ⟨1, 0, 1, 1, some 101, false, 1, [(11, .parked, 101), (10, .sawRunning, 100)], true, false⟩ := by decide
-- 14: the token is on the new channel 101, new loop 11 listens; old loop 10 mid-activation on 100
example : runProj view 1 exRestart = some ⟨1, 0, 1, 1, some 101, true, 0, [(11, .parked, 101), (10, .sawRunning, 100)], true, false⟩ := by decide

/-- `exRestart`, then the old loop 10 finishes its activation: it dispatches the pending job itself
    (it reads the state of the second run), parks, finds its channel closed and ends; loop 11 takes
    the token, finds the pool saturated and parks. -/
def exRestartOldEnds : List Ev := exRestart ++ [
  .dCur 10 0, .dConc 10 1, .dLen 10 1, .dCasOk 10, .dDeq 10,
  .dStatus 10 running, .dCur 10 1, .dConc 10 1, .dCur 10 1, .recvClosed 10,
  .recvTok 11, .dStatus 11 running, .dCur 11 1, .dConc 11 1, .dCur 11 1]

example : exRestartOldEnds.length = 29 := rfl
example : runProj view 1 (exRestartOldEnds.take 24) = some ⟨1, 1, 1, 0, some 101, true, 0, [(11, .parked, 101), (10, .none, 100)], true, true⟩ := by decide
example : runProj view 1 exRestartOldEnds = some ⟨1, 1, 1, 0, some 101, false, 0, [(11, .parked, 101), (10, .none, 100)], true, true⟩ := by decide

-- rejected: a second channel while one is current; a channel id reused; close / replace while running
example : runProj view 1 [.makeSig 1 100, .makeSig 1 101] = none := by decide
example : runProj view 1 [.makeSig 1 100, .closeSig 1, .makeSig 1 100] = none := by decide
example : runProj view 1 [.makeSig 1 100, .spawnD 1 10, .stStatus 1 running, .closeSig 2] = none := by decide
-- … an event loop started on the nil channel; `running` stored without a channel / without a loop on it
example : runProj view 1 [.spawnD 1 10] = none := by decide
example : runProj view 1 [.stStatus 1 running] = none := by decide
example : runProj view 1 [.makeSig 1 100, .stStatus 1 running] = none := by decide
example : runProj view 1 [.makeSig 1 100, .spawnD 1 10, .closeSig 1, .makeSig 1 101, .stStatus 1 running] = none := by decide
-- … `for range` ends on an open channel, or on a closed one that still holds a token; a send on nil
example : runProj view 1 [.makeSig 1 100, .spawnD 1 10, .recvClosed 10] = none := by decide
example : runProj view 1 [.makeSig 1 100, .spawnD 1 10, .notify 1 true, .closeSig 1, .recvClosed 10] = none := by decide
example : runProj view 1 [.notify 1 true] = none := by decide
-- accepted: the token left in a closed channel is received, then the loop ends
example : runProj view 1 [.makeSig 1 100, .spawnD 1 10, .notify 1 true, .closeSig 1, .recvTok 10, .dStatus 10 0, .dCur 10 0, .recvClosed 10]
    = some ⟨0, 0, 1, 0, none, false, 0, [(10, .none, 100)], false, true⟩ := by decide

/-! ## Channels -/

/-- the current signal channel is never a closed one -/
theorem closed_never_current {s : State} (hr : Reach s) {ch : Nat} (h : s.chan = some ch) : s.closed ch = false :=
  ((reach_inv hr).1.1 ch h).1

theorem current_made {s : State} (hr : Reach s) {ch : Nat} (h : s.chan = some ch) : s.made ch = true :=
  ((reach_inv hr).1.1 ch h).2

theorem closed_made {s : State} (hr : Reach s) {ch : Nat} (h : s.closed ch = true) : s.made ch = true :=
  (reach_inv hr).1.2 ch h

/-- an event loop that has not ended was started by `spawnD` and listens on a channel that was made -/
theorem loop_registered {s : State} (hr : Reach s) {d : Nat} (h : s.dph d ≠ .none) :
    d ∈ s.ds ∧ s.made (s.dch d) = true :=
  reach_invD hr d h

theorem quiet_of_quietB {s : State} (hr : Reach s) (h : quietB s = true) : ∀ d, (s.dph d).willEval = false := by
  intro d
  by_cases hd : s.dph d = .none
  · simp [hd, DPh.willEval]
  · have hm := (loop_registered hr hd).1
    simp only [quietB, List.all_eq_true, Bool.not_eq_eq_eq_not, Bool.not_true] at h
    exact h d hm

-- non-vacuity: a closed channel and a current one
example : ∃ s, Reach s ∧ s.chan = some 101 ∧ s.closed 100 = true ∧ s.closed 101 = false := by
  have h : runProj (fun s => (s.chan, s.closed 100, s.closed 101)) 1 exRestart = some (some 101, true, false) := by decide
  obtain ⟨s, hr, _, hv⟩ := reach_of_runProj h
  simp only [Prod.mk.injEq] at hv
  exact ⟨s, hr, hv.1, hv.2.1, hv.2.2⟩

/-! ## While running, somebody listens -/

/-- While the status is `running` the signal channel exists, is open, and an event loop that has not
    ended listens on it. -/
theorem running_listening {s : State} (hr : Reach s) (hw : s.ws = running) : Listening s :=
  (reach_inv hr).2.1 hw

theorem running_chan {s : State} (hr : Reach s) (hw : s.ws = running) : s.chan.isSome = true := by
  obtain ⟨ch, hc, _⟩ := running_listening hr hw
  simp [hc]

-- non-vacuity: running after a Restart (second channel, second event loop), `Listening` checked directly
example : ∃ s, Reach s ∧ s.ws = running ∧ s.chan = some 101 ∧ Listening s ∧ s.closed 100 = true := by
  have h : runProj (fun s => (s.ws, s.chan, listeningB s, s.closed 100)) 1 exRestart = some (1, some 101, true, true) := by decide
  obtain ⟨s, hr, _, hv⟩ := reach_of_runProj h
  simp only [Prod.mk.injEq] at hv
  exact ⟨s, hr, hv.1, hv.2.1, listening_of_listeningB hv.2.2.1, hv.2.2.2⟩

-- … and not listening while stopped (the hypothesis ws = running is needed)
example : ∃ s, Reach s ∧ s.ws = stopped ∧ ¬ Listening s := by
  have h : runProj (fun s => (s.ws, s.chan)) 1 (exRestart.take 8) = some (3, none) := by decide
  obtain ⟨s, hr, _, hv⟩ := reach_of_runProj h
  simp only [Prod.mk.injEq] at hv
  refine ⟨s, hr, hv.1, ?_⟩
  intro ⟨ch, hc, _⟩
  simp [hv.2] at hc

/-! ## No lost wake-up -/

/-- Whenever the worker is running, a slot is free and a job is pending, either a wake-up token is
    in the current signal channel, or somebody still owes a notify(), or some event loop is in the
    middle of an activation and will (re)evaluate the loop condition. -/
theorem no_lost_wakeup {s : State} (hr : Reach s) (hd : Dispatchable s) :
    TokCur s ∨ 0 < s.nOwes ∨ ∃ d, (s.dph d).willEval = true := by
  rcases (reach_inv hr).2.2 hd with h | h | ⟨d, h⟩
  · exact .inl h
  · exact .inr (.inl h)
  · exact .inr (.inr ⟨d, h.1⟩)

/-- The invariant itself: the event loop that covers a dispatchable state does not hold a loaded
    value of `cur` above the current one (so that, in this state, it will not leave on account of a
    stale `cur`). -/
theorem no_lost_wakeup_strong {s : State} (hr : Reach s) (hd : Dispatchable s) :
    TokCur s ∨ 0 < s.nOwes ∨ ∃ d, (s.dph d).willEval = true ∧ ∀ c, s.dph d = .sawCur c → c ≤ s.cur :=
  (reach_inv hr).2.2 hd

/-- Clause (B) of Proofs/SigLemmas.lean for several event loops: if, in a dispatchable state, an
    event loop holds a loaded `cur` above `cur`, then a token on the current channel, an owed
    notify() or ANOTHER event loop that will evaluate exists. -/
theorem stale_cur_covered {s : State} {d c : Nat} (hr : Reach s) (hd : Dispatchable s)
    (hp : s.dph d = .sawCur c) (hc : s.cur < c) :
    TokCur s ∨ 0 < s.nOwes ∨ ∃ d', d' ≠ d ∧ (s.dph d').willEval = true := by
  rcases no_lost_wakeup_strong hr hd with h | h | ⟨d', h1, h2⟩
  · exact .inl h
  · exact .inr (.inl h)
  · refine .inr (.inr ⟨d', ?_, h1⟩)
    intro he
    subst he
    have := h2 c hp
    omega

/-- The hypothesis `Dispatchable s` of `stale_cur_covered` cannot be dropped (with one event loop and
    one channel it could: clause (B) of Proofs/SigLemmas.lean).  Event loop 10 holds the loaded
    cur = 1; a runner releases (cur = 0, it owes a notify()); Stop closes the channel; the runner's
    notify() is swallowed by the nil channel.  Now the stale `cur` is covered by nothing — and
    nothing is needed, the worker is not running; a Restart will owe a notify(). -/
def exStaleSwallowed : List Ev := [
  .makeSig 1 100, .spawnD 1 10, .stStatus 1 running, .notify 1 true, .enq 5, .notify 5 false,
  .recvTok 10, .dStatus 10 running, .dCur 10 0, .dConc 10 1, .dLen 10 1, .dCasOk 10, .dDeq 10,
  .dStatus 10 running, .dCur 10 1, .relX 7 0, .stStatus 2 stopped, .closeSig 2, .notify 7 false]

example : ∃ s, Reach s ∧ s.dph 10 = .sawCur 1 ∧ s.cur < 1 ∧ ¬ TokCur s ∧ s.nOwes = 0 ∧
    ∀ d, d ≠ 10 → (s.dph d).willEval = false := by
  have h : runProj (fun s => (s.dph 10, s.cur, tokCurB s, s.nOwes, s.ds)) 1 exStaleSwallowed
      = some (.sawCur 1, 0, false, 0, [10]) := by decide
  obtain ⟨s, hr, _, hv⟩ := reach_of_runProj h
  simp only [Prod.mk.injEq] at hv
  obtain ⟨h1, h2, h3, h4, h5⟩ := hv
  refine ⟨s, hr, h1, by omega, not_tokCur_of_tokCurB h3, h4, ?_⟩
  intro d hne
  by_cases hd : s.dph d = .none
  · simp [hd, DPh.willEval]
  · have hm := (loop_registered hr hd).1
    rw [h5] at hm
    simp at hm
    exact absurd hm hne

-- non-vacuity: reachable dispatchable states in which exactly one of the three disjuncts holds
example : ∃ s, Reach s ∧ Dispatchable s ∧ ¬ TokCur s ∧ 0 < s.nOwes ∧ ∀ d, (s.dph d).willEval = false := by
  have h : runProj view 1 [.makeSig 1 100, .spawnD 1 10, .stStatus 1 running, .enq 5]
      = some ⟨1, 0, 1, 1, some 100, false, 2, [(10, .parked, 100)], true, true⟩ := by decide
  obtain ⟨s, hr, h1, h2, h3, h4, _, h6, h7, _, h9, _⟩ := reach_of_view h
  exact ⟨s, hr, ⟨h1, by omega, by omega⟩, not_tokCur_of_tokCurB h6, by omega, quiet_of_quietB hr h9⟩

example : ∃ s, Reach s ∧ Dispatchable s ∧ TokCur s ∧ s.nOwes = 0 ∧ ∀ d, (s.dph d).willEval = false := by
  have h : runProj view 1 (exStart.take 6) = some ⟨1, 0, 1, 1, some 100, true, 0, [(10, .parked, 100)], true, true⟩ := by decide
  obtain ⟨s, hr, h1, h2, h3, h4, _, h6, h7, _, h9, _⟩ := reach_of_view h
  exact ⟨s, hr, ⟨h1, by omega, by omega⟩, tokCur_of_tokCurB h6, h7, quiet_of_quietB hr h9⟩

example : ∃ s, Reach s ∧ Dispatchable s ∧ ¬ TokCur s ∧ s.nOwes = 0 ∧ (s.dph 10).willEval = true := by
  have h : runProj (fun s => (view s, s.dph 10)) 1 (exStart.take 7)
      = some (⟨1, 0, 1, 1, some 100, false, 0, [(10, .fresh, 100)], true, false⟩, .fresh) := by decide
  obtain ⟨s, hr, _, hv⟩ := reach_of_runProj h
  simp only [Prod.mk.injEq, view, View.mk.injEq] at hv
  obtain ⟨⟨h1, h2, h3, h4, _, h6, h7, _⟩, h10⟩ := hv
  exact ⟨s, hr, ⟨h1, by omega, by omega⟩, not_tokCur_of_tokCurB h6, h7, by simp [h10, DPh.willEval]⟩

-- after a Restart: dispatchable, covered by the token on the NEW channel (and by the old loop)
example : ∃ s, Reach s ∧ Dispatchable s ∧ s.chan = some 101 ∧ TokCur s ∧ s.nOwes = 0 ∧ Listening s := by
  have h : runProj view 1 exRestart
      = some ⟨1, 0, 1, 1, some 101, true, 0, [(11, .parked, 101), (10, .sawRunning, 100)], true, false⟩ := by decide
  obtain ⟨s, hr, h1, h2, h3, h4, h5, h6, h7, h8, _, _⟩ := reach_of_view h
  exact ⟨s, hr, ⟨h1, by omega, by omega⟩, h5, tokCur_of_tokCurB h6, h7, listening_of_listeningB h8⟩

/-- the swallowed notify(): a job is pending, nothing is owed, no token, the nil channel.  Not a lost
    wake-up, because the worker is not running; the next `stStatus running` owes a notify(). -/
example : ∃ s, Reach s ∧ 0 < s.qlen ∧ s.cur < s.conc ∧ s.nOwes = 0 ∧ s.chan = none ∧ s.ws = stopped := by
  have h : runProj view 1 (exRestart.take 10)
      = some ⟨3, 0, 1, 1, none, false, 0, [(10, .sawRunning, 100)], false, false⟩ := by decide
  obtain ⟨s, hr, h1, h2, h3, h4, h5, h6, h7, _, _, _⟩ := reach_of_view h
  exact ⟨s, hr, by omega, by omega, h7, h5, h1⟩

/-! ## At rest -/

/-- If nobody owes a notify() and no event loop is in the middle of an activation, dispatchable work
    is covered by a token on the current, open channel on which a live event loop listens. -/
theorem asleep_not_dispatchable {s : State} (hr : Reach s) (h0 : s.nOwes = 0)
    (hq : ∀ d, (s.dph d).willEval = false) (hd : Dispatchable s) :
    TokCur s ∧ Listening s := by
  refine ⟨?_, running_listening hr hd.1⟩
  rcases no_lost_wakeup hr hd with h | h | ⟨d, h⟩
  · exact h
  · omega
  · rw [hq d] at h; cases h

/-- At rest without a token min(pending + in flight, limit) slots are in use. -/
theorem asleep_min_parallel {s : State} (hr : Reach s) (h0 : s.nOwes = 0)
    (hq : ∀ d, (s.dph d).willEval = false) (ht : ¬ TokCur s) (hw : s.ws = running) :
    min (s.cur + s.qlen) s.conc ≤ s.cur := by
  have h : ¬ Dispatchable s := fun hd => ht (asleep_not_dispatchable hr h0 hq hd).1
  unfold Dispatchable at h
  omega

-- non-vacuity: the hypotheses of `asleep_not_dispatchable` hold in a reachable state
example : ∃ s, Reach s ∧ s.nOwes = 0 ∧ (∀ d, (s.dph d).willEval = false) ∧ Dispatchable s := by
  have h : runProj view 1 (exStart.take 6) = some ⟨1, 0, 1, 1, some 100, true, 0, [(10, .parked, 100)], true, true⟩ := by decide
  obtain ⟨s, hr, h1, h2, h3, h4, _, h6, h7, _, h9, _⟩ := reach_of_view h
  exact ⟨s, hr, h7, quiet_of_quietB hr h9, ⟨h1, by omega, by omega⟩⟩

-- … and those of `asleep_min_parallel` (after a Restart, the old loop has ended)
example : ∃ s, Reach s ∧ s.nOwes = 0 ∧ (∀ d, (s.dph d).willEval = false) ∧ ¬ TokCur s ∧ s.ws = running ∧ s.cur = s.conc := by
  have h : runProj view 1 exRestartOldEnds
      = some ⟨1, 1, 1, 0, some 101, false, 0, [(11, .parked, 101), (10, .none, 100)], true, true⟩ := by decide
  obtain ⟨s, hr, h1, h2, h3, h4, _, h6, h7, _, h9, _⟩ := reach_of_view h
  exact ⟨s, hr, h7, quiet_of_quietB hr h9, not_tokCur_of_tokCurB h6, h1, by omega⟩

/-! ## The ghost counters -/

/-- `nOwes` is the sum of `owes` over a finite duplicate-free set of goroutines outside of which
    `owes` is 0. -/
theorem owes_sum {s : State} (hr : Reach s) :
    ∃ l : List Nat, l.Nodup ∧ (∀ g, g ∉ l → s.owes g = 0) ∧ (l.map s.owes).sum = s.nOwes :=
  reach_ghost hr

theorem owes_le_nOwes {s : State} (hr : Reach s) (g : Nat) : s.owes g ≤ s.nOwes := by
  obtain ⟨l, _, h0, hsum⟩ := owes_sum hr
  by_cases hg : g ∈ l
  · have := le_sum_of_mem s.owes g l hg
    omega
  · have := h0 g hg
    omega

theorem exists_pos_of_sum_pos (f : Nat → Nat) (l : List Nat) (h : 0 < (l.map f).sum) : ∃ g, g ∈ l ∧ 0 < f g := by
  induction l with
  | nil => simp at h
  | cons a t ih =>
    simp only [List.map_cons, List.sum_cons] at h
    by_cases ha : 0 < f a
    · exact ⟨a, List.mem_cons_self, ha⟩
    · obtain ⟨g, hg, hp⟩ := ih (by omega)
      exact ⟨g, List.mem_cons_of_mem a hg, hp⟩

theorem nOwes_pos_iff {s : State} (hr : Reach s) : 0 < s.nOwes ↔ ∃ g, 0 < s.owes g := by
  constructor
  · intro h
    obtain ⟨l, _, _, hsum⟩ := owes_sum hr
    obtain ⟨g, _, hp⟩ := exists_pos_of_sum_pos s.owes l (by omega)
    exact ⟨g, hp⟩
  · intro ⟨g, hp⟩
    have := owes_le_nOwes hr g
    omega

theorem nOwes_eq_zero_iff {s : State} (hr : Reach s) : s.nOwes = 0 ↔ ∀ g, s.owes g = 0 := by
  constructor
  · intro h g
    have := owes_le_nOwes hr g
    omega
  · intro h
    apply Classical.byContradiction
    intro hne
    obtain ⟨g, hp⟩ := (nOwes_pos_iff hr).mp (by omega)
    have := h g
    omega

/-- notify() is enabled in every reachable state with the send result the channel dictates (never
    "sent" on the nil channel): the guard "ghost counter nOwes is 0" of `step` is dead. -/
theorem notify_enabled {s : State} (hr : Reach s) (g : Nat) :
    ∃ s', step s (.notify g (match s.chan with | some ch => !s.tok ch | none => false)) = .ok s' := by
  have hle := owes_le_nOwes hr g
  cases hc : s.chan with
  | none =>
    by_cases h0 : s.owes g = 0
    · simp [step, hc, h0]
    · have hn : s.nOwes ≠ 0 := by omega
      simp [step, hc, h0, hn]
  | some ch =>
    have ht : ((!s.tok ch) == s.tok ch) = false := by cases s.tok ch <;> rfl
    by_cases h0 : s.owes g = 0
    · simp [step, hc, h0, ht]
    · have hn : s.nOwes ≠ 0 := by omega
      simp [step, hc, h0, hn, ht]

/-- `no_lost_wakeup` naming the goroutine that still has to call notify(). -/
theorem no_lost_wakeup_witness {s : State} (hr : Reach s) (hd : Dispatchable s) :
    TokCur s ∨ (∃ g, 0 < s.owes g) ∨ ∃ d, (s.dph d).willEval = true := by
  rcases no_lost_wakeup hr hd with h | h | h
  · exact .inl h
  · exact .inr (.inl ((nOwes_pos_iff hr).mp h))
  · exact .inr (.inr h)

-- non-vacuity of the ghost link: two goroutines owe three calls, one of them paid into the nil channel
example : runProj (fun s => (s.owes 5, s.owes 6, s.owes 7, s.nOwes)) 1 [.enq 5, .enq 6, .enq 5, .stConc 7 2, .notify 7 false]
    = some (2, 1, 0, 3) := by decide

/-! ## Axioms -/

#print axioms no_lost_wakeup
#print axioms running_listening
#print axioms asleep_not_dispatchable
#print axioms nOwes_eq_zero_iff
#print axioms notify_enabled
#print axioms closed_never_current
#print axioms no_lost_wakeup_strong
#print axioms stale_cur_covered
#print axioms asleep_min_parallel
#print axioms loop_registered
#print axioms no_lost_wakeup_witness

end Sig2
end VarmqVerif
