/-
  Lemmas for the happens-before race detector `Race` (Model/Race.lean).

    * `Map.get_set`, `testBit_bit`: association lists and bit masks
    * `HB.lt`, `HB.last`: edges go forward; an HB chain ends with a last edge
    * `Before tr t n i`: position i is, or happens before, an event at a position < n that goroutine t
      owns (an event of t, or the `go` statement that started t); `Rel tr o n i`: … an event at a
      position < n that releases o
    * `hb_last`: `HB tr i n` in terms of `Before` / `Rel` at n, by the kind of the event at n
    * `step_n`, `step_tm`, `step_om`, `step_accs`, `step_reports`: what one detector step does, in
      one form for all event kinds
    * `Inv`, `inv_step`, `inv_run`: the inductive invariant of `run (tr.take n)`
-/
import VarmqVerif.Model.Race

namespace VarmqVerif
namespace Race

-- ------------------------------------------------------------------ maps and masks

theorem Map.get_set (m : Map) (k v k' : Nat) :
    Map.get (Map.set m k v) k' = if k' = k then v else Map.get m k' := by
  induction m with
  | nil =>
    by_cases h : k' = k
    · simp [Map.set, Map.get, h]
    · have h' : ¬ k = k' := fun e => h e.symm
      simp [Map.set, Map.get, h, h']
  | cons p r ih =>
    obtain ⟨a, b⟩ := p
    by_cases hak : a = k
    · by_cases h : k' = k
      · simp [Map.set, Map.get, hak, h]
      · have h' : ¬ k = k' := fun e => h e.symm
        simp [Map.set, Map.get, hak, h, h']
    · by_cases h : k' = k
      · subst h
        simp [Map.set, Map.get, hak, ih]
      · by_cases hak' : a = k'
        · simp [Map.set, Map.get, h, hak']
        · simp [Map.set, Map.get, hak, h, hak', ih]

theorem testBit_bit (k i : Nat) : (bit k).testBit i = decide (k = i) := by
  simp [bit, Nat.one_shiftLeft, Nat.testBit_two_pow]

-- ------------------------------------------------------------------ happens-before

theorem Edge.lt {tr : List Ev} {i j : Nat} (h : Edge tr i j) : i < j := h.1

theorem HB.lt {tr : List Ev} {i j : Nat} (h : HB tr i j) : i < j := by
  induction h with
  | edge h => exact h.1
  | trans _ _ ih1 ih2 => omega

/-- an HB chain ends with a last edge -/
theorem HB.last {tr : List Ev} {i k : Nat} (h : HB tr i k) :
    ∃ j, Edge tr j k ∧ (i = j ∨ HB tr i j) := by
  induction h with
  | edge h => exact ⟨_, h, Or.inl rfl⟩
  | trans h1 _ _ ih2 =>
    obtain ⟨j', he, hj⟩ := ih2
    refine ⟨j', he, Or.inr ?_⟩
    cases hj with
    | inl h => subst h; exact h1
    | inr h => exact HB.trans h1 h

theorem HB.snoc {tr : List Ev} {i j k : Nat} (h : i = j ∨ HB tr i j) (he : Edge tr j k) :
    HB tr i k := by
  cases h with
  | inl h => subst h; exact HB.edge he
  | inr h => exact HB.trans h (HB.edge he)

/-- e is an event of goroutine t, or the `go` statement that started t -/
def owner (t : Nat) (e : Ev) : Prop := e.thread = t ∨ ∃ u, e = .fork u t

/-- i is, or happens before, a position < n owned by goroutine t -/
def Before (tr : List Ev) (t n i : Nat) : Prop :=
  ∃ j, j < n ∧ ∃ e, tr[j]? = some e ∧ owner t e ∧ (i = j ∨ HB tr i j)

/-- i is, or happens before, a position < n that releases o -/
def Rel (tr : List Ev) (o n i : Nat) : Prop :=
  ∃ j, j < n ∧ ∃ e, tr[j]? = some e ∧ e.releases = some o ∧ (i = j ∨ HB tr i j)

theorem Before_succ {tr : List Ev} {n : Nat} {e : Ev} (h : tr[n]? = some e) (t i : Nat) :
    Before tr t (n + 1) i ↔ Before tr t n i ∨ (owner t e ∧ (i = n ∨ HB tr i n)) := by
  constructor
  · rintro ⟨j, hj, e', he', ho, hi⟩
    by_cases hjn : j = n
    · subst hjn
      rw [h] at he'
      cases he'
      exact Or.inr ⟨ho, hi⟩
    · exact Or.inl ⟨j, by omega, e', he', ho, hi⟩
  · rintro (⟨j, hj, e', he', ho, hi⟩ | ⟨ho, hi⟩)
    · exact ⟨j, by omega, e', he', ho, hi⟩
    · exact ⟨n, by omega, e, h, ho, hi⟩

theorem Rel_succ {tr : List Ev} {n : Nat} {e : Ev} (h : tr[n]? = some e) (o i : Nat) :
    Rel tr o (n + 1) i ↔ Rel tr o n i ∨ (e.releases = some o ∧ (i = n ∨ HB tr i n)) := by
  constructor
  · rintro ⟨j, hj, e', he', ho, hi⟩
    by_cases hjn : j = n
    · subst hjn
      rw [h] at he'
      cases he'
      exact Or.inr ⟨ho, hi⟩
    · exact Or.inl ⟨j, by omega, e', he', ho, hi⟩
  · rintro (⟨j, hj, e', he', ho, hi⟩ | ⟨ho, hi⟩)
    · exact ⟨j, by omega, e', he', ho, hi⟩
    · exact ⟨n, by omega, e, h, ho, hi⟩

/-- the positions that happen before position n, by the kind of the event at n -/
theorem hb_last {tr : List Ev} {n : Nat} {f : Ev} (h : tr[n]? = some f) (i : Nat) :
    HB tr i n ↔
      Before tr f.thread n i
      ∨ (∃ o, f.acquires = some o ∧ Rel tr o n i)
      ∨ (∃ t o, f = .join t o ∧ Before tr o n i) := by
  constructor
  · intro hb
    obtain ⟨j, ⟨hlt, e, f', he, hf', hd⟩, hij⟩ := HB.last hb
    rw [h] at hf'
    cases hf'
    rcases hd with hd | ⟨t, hd⟩ | ⟨t, o, hf, hd⟩ | ⟨o, hr, ha⟩
    · exact Or.inl ⟨j, hlt, e, he, Or.inl hd, hij⟩
    · exact Or.inl ⟨j, hlt, e, he, Or.inr ⟨t, hd⟩, hij⟩
    · exact Or.inr (Or.inr ⟨t, o, hf, j, hlt, e, he, hd, hij⟩)
    · exact Or.inr (Or.inl ⟨o, ha, j, hlt, e, he, hr, hij⟩)
  · rintro (⟨j, hlt, e, he, ho, hij⟩ | ⟨o, ha, j, hlt, e, he, hr, hij⟩ | ⟨t, o, hf, j, hlt, e, he, ho, hij⟩)
    · refine HB.snoc hij ⟨hlt, e, f, he, h, ?_⟩
      rcases ho with ho | ⟨u, ho⟩
      · exact Or.inl ho
      · exact Or.inr (Or.inl ⟨u, ho⟩)
    · exact HB.snoc hij ⟨hlt, e, f, he, h, Or.inr (Or.inr (Or.inr ⟨o, hr, ha⟩))⟩
    · exact HB.snoc hij ⟨hlt, e, f, he, h, Or.inr (Or.inr (Or.inl ⟨t, o, hf, ho⟩))⟩

-- ------------------------------------------------------------------ one detector step

/-- the mask the detector computes for the event e at position `s.n`: the positions it takes to
    happen before e (or to be e) -/
def Pre (s : State) (e : Ev) (i : Nat) : Prop :=
  i = s.n
  ∨ (s.tm.get e.thread).testBit i = true
  ∨ (∃ o, e.acquires = some o ∧ (s.om.get o).testBit i = true)
  ∨ (∃ t o, e = .join t o ∧ (s.tm.get o).testBit i = true)

theorem step_n (s : State) (e : Ev) : (step s e).n = s.n + 1 := by
  cases e <;> rfl

theorem step_tm (s : State) (e : Ev) (t i : Nat) :
    ((step s e).tm.get t).testBit i = true ↔
      (s.tm.get t).testBit i = true ∨ (owner t e ∧ Pre s e i) := by
  cases e with
  | acq u o =>
    by_cases h : t = u <;>
      simp [step, Map.get_set, Nat.testBit_or, testBit_bit, owner, Pre, Ev.thread, Ev.acquires, h] <;>
      grind
  | rel u o =>
    by_cases h : t = u <;>
      simp [step, Map.get_set, Nat.testBit_or, testBit_bit, owner, Pre, Ev.thread, Ev.acquires, h] <;>
      grind
  | acqrel u o =>
    by_cases h : t = u <;>
      simp [step, Map.get_set, Nat.testBit_or, testBit_bit, owner, Pre, Ev.thread, Ev.acquires, h] <;>
      grind
  | fork u c =>
    by_cases h : t = u
    · subst h
      by_cases h' : c = t
      · subst h'
        simp [step, Map.get_set, Nat.testBit_or, testBit_bit, owner, Pre, Ev.thread, Ev.acquires]
        grind
      · have h'' : ¬ t = c := fun e => h' e.symm
        simp [step, Map.get_set, Nat.testBit_or, testBit_bit, owner, Pre, Ev.thread, Ev.acquires,
          h', h'']
        grind
    · by_cases h' : t = c
      · subst h'
        have h'' : ¬ u = t := fun e => h e.symm
        simp [step, Map.get_set, Nat.testBit_or, testBit_bit, owner, Pre, Ev.thread, Ev.acquires,
          h, h'']
        grind
      · simp [step, Map.get_set, owner, Pre, Ev.thread, Ev.acquires, h, h']
        grind
  | join u o =>
    by_cases h : t = u <;>
      simp [step, Map.get_set, Nat.testBit_or, testBit_bit, owner, Pre, Ev.thread, Ev.acquires, h] <;>
      grind
  | rd u a sz k =>
    by_cases h : t = u <;>
      simp [step, Map.get_set, Nat.testBit_or, testBit_bit, owner, Pre, Ev.thread, Ev.acquires, h] <;>
      grind
  | wr u a sz k =>
    by_cases h : t = u <;>
      simp [step, Map.get_set, Nat.testBit_or, testBit_bit, owner, Pre, Ev.thread, Ev.acquires, h] <;>
      grind

theorem step_om (s : State) (e : Ev) (o i : Nat) :
    ((step s e).om.get o).testBit i = true ↔
      (s.om.get o).testBit i = true ∨ (e.releases = some o ∧ Pre s e i) := by
  cases e with
  | acq u p => simp [step, Ev.releases]
  | rel u p =>
    by_cases h : o = p <;>
      simp [step, Map.get_set, Nat.testBit_or, testBit_bit, Pre, Ev.thread, Ev.acquires,
        Ev.releases, h] <;>
      grind
  | acqrel u p =>
    by_cases h : o = p <;>
      simp [step, Map.get_set, Nat.testBit_or, testBit_bit, Pre, Ev.thread, Ev.acquires,
        Ev.releases, h] <;>
      grind
  | fork u c => simp [step, Ev.releases]
  | join u p => simp [step, Ev.releases]
  | rd u a sz k => simp [step, Ev.releases]
  | wr u a sz k => simp [step, Ev.releases]

theorem step_accs (s : State) (e : Ev) (x : Acc) :
    x ∈ (step s e).accs ↔
      x ∈ s.accs
      ∨ (e.access = some (x.addr, x.size, x.write, x.site) ∧ x.idx = s.n ∧ x.t = e.thread) := by
  cases e with
  | acq u p => simp [step, Ev.access]
  | rel u p => simp [step, Ev.access]
  | acqrel u p => simp [step, Ev.access]
  | fork u c => simp [step, Ev.access]
  | join u p => simp [step, Ev.access]
  | rd u a sz k =>
    obtain ⟨xi, xt, xa, xs, xw, xk⟩ := x
    simp [step, Ev.access, Ev.thread]
    grind
  | wr u a sz k =>
    obtain ⟨xi, xt, xa, xs, xw, xk⟩ := x
    simp [step, Ev.access, Ev.thread]
    grind

theorem step_reports (s : State) (e : Ev) (r : Report) :
    r ∈ (step s e).reports ↔
      r ∈ s.reports
      ∨ (r.j = s.n ∧ ∃ x, x ∈ s.accs ∧ ∃ b u w l, e.access = some (b, u, w, l) ∧
          r.i = x.idx ∧ r.siteI = x.site ∧ r.siteJ = l ∧
          conflicts x e.thread b u w = true ∧ ¬ Pre s e x.idx) := by
  cases e with
  | acq u p => simp [step, Ev.access]
  | rel u p => simp [step, Ev.access]
  | acqrel u p => simp [step, Ev.access]
  | fork u c => simp [step, Ev.access]
  | join u p => simp [step, Ev.access]
  | rd u a sz k =>
    obtain ⟨ri, rj, rk, rl⟩ := r
    simp [step, Ev.access, Ev.thread, Ev.acquires, Pre, Nat.testBit_or, testBit_bit]
    grind
  | wr u a sz k =>
    obtain ⟨ri, rj, rk, rl⟩ := r
    simp [step, Ev.access, Ev.thread, Ev.acquires, Pre, Nat.testBit_or, testBit_bit]
    grind

-- ------------------------------------------------------------------ the invariant

/-- x records the access at position `x.idx < n` -/
def IsAcc (tr : List Ev) (n : Nat) (x : Acc) : Prop :=
  x.idx < n ∧ ∃ e, tr[x.idx]? = some e ∧
    e.access = some (x.addr, x.size, x.write, x.site) ∧ x.t = e.thread

/-- r names a race pair and the source sites of its two accesses -/
def RaceRep (tr : List Ev) (r : Report) : Prop :=
  r.i < r.j ∧ ∃ e f a s w b u x, tr[r.i]? = some e ∧ tr[r.j]? = some f ∧
    e.access = some (a, s, w, r.siteI) ∧ f.access = some (b, u, x, r.siteJ) ∧
    overlap a s b u = true ∧ (w = true ∨ x = true) ∧ e.thread ≠ f.thread ∧ ¬ HB tr r.i r.j

theorem RaceRep.racePair {tr : List Ev} {r : Report} (h : RaceRep tr r) : RacePair tr r.i r.j := by
  obtain ⟨hlt, e, f, a, s, w, b, u, x, h1, h2, h3, h4, h5, h6, h7, h8⟩ := h
  exact ⟨hlt, e, f, a, s, w, r.siteI, b, u, x, r.siteJ, h1, h2, h3, h4, h5, h6, h7, h8⟩

/-- the state of the detector after the first n events of tr -/
structure Inv (tr : List Ev) (n : Nat) (s : State) : Prop where
  hn : s.n = n
  htm : ∀ t i, (s.tm.get t).testBit i = true ↔ Before tr t n i
  hom : ∀ o i, (s.om.get o).testBit i = true ↔ Rel tr o n i
  hacc : ∀ x, x ∈ s.accs ↔ IsAcc tr n x
  hrep : ∀ r, r ∈ s.reports ↔ r.j < n ∧ RaceRep tr r

theorem Map.get_nil (k : Nat) : Map.get [] k = 0 := rfl

theorem inv_init (tr : List Ev) : Inv tr 0 {} where
  hn := rfl
  htm t i := by
    simp only [Map.get_nil, Nat.zero_testBit]
    constructor
    · intro h; cases h
    · rintro ⟨j, hj, _⟩; omega
  hom o i := by
    simp only [Map.get_nil, Nat.zero_testBit]
    constructor
    · intro h; cases h
    · rintro ⟨j, hj, _⟩; omega
  hacc x := by
    constructor
    · intro h; cases h
    · rintro ⟨hj, _⟩; omega
  hrep r := by
    constructor
    · intro h; cases h
    · rintro ⟨hj, _⟩; omega

theorem pre_iff {tr : List Ev} {n : Nat} {s : State} {e : Ev} (inv : Inv tr n s)
    (h : tr[n]? = some e) (i : Nat) : Pre s e i ↔ (i = n ∨ HB tr i n) := by
  unfold Pre
  rw [hb_last h, inv.hn, inv.htm]
  constructor
  · rintro (h1 | h1 | ⟨o, ha, h1⟩ | ⟨t, o, hf, h1⟩)
    · exact Or.inl h1
    · exact Or.inr (Or.inl h1)
    · exact Or.inr (Or.inr (Or.inl ⟨o, ha, (inv.hom o i).1 h1⟩))
    · exact Or.inr (Or.inr (Or.inr ⟨t, o, hf, (inv.htm o i).1 h1⟩))
  · rintro (h1 | h1 | ⟨o, ha, h1⟩ | ⟨t, o, hf, h1⟩)
    · exact Or.inl h1
    · exact Or.inr (Or.inl h1)
    · exact Or.inr (Or.inr (Or.inl ⟨o, ha, (inv.hom o i).2 h1⟩))
    · exact Or.inr (Or.inr (Or.inr ⟨t, o, hf, (inv.htm o i).2 h1⟩))

theorem inv_step {tr : List Ev} {n : Nat} {s : State} {e : Ev} (inv : Inv tr n s)
    (h : tr[n]? = some e) : Inv tr (n + 1) (step s e) where
  hn := by rw [step_n, inv.hn]
  htm t i := by rw [step_tm, Before_succ h, inv.htm, pre_iff inv h]
  hom o i := by rw [step_om, Rel_succ h, inv.hom, pre_iff inv h]
  hacc x := by
    rw [step_accs, inv.hacc, inv.hn]
    constructor
    · rintro (⟨hlt, e', he', ha, ht⟩ | ⟨ha, hi, ht⟩)
      · exact ⟨by omega, e', he', ha, ht⟩
      · exact ⟨by omega, e, by rw [hi]; exact h, ha, ht⟩
    · rintro ⟨hlt, e', he', ha, ht⟩
      by_cases hi : x.idx = n
      · rw [hi, h] at he'
        cases he'
        exact Or.inr ⟨ha, hi, ht⟩
      · exact Or.inl ⟨by omega, e', he', ha, ht⟩
  hrep r := by
    rw [step_reports, inv.hrep, inv.hn]
    constructor
    · rintro (⟨hlt, hr⟩ | ⟨hj, x, hx, b, u, w, l, ha, hi, hsi, hsj, hc, hp⟩)
      · exact ⟨by omega, hr⟩
      · obtain ⟨hlt, e', he', ha', ht⟩ := (inv.hacc x).1 hx
        rw [pre_iff inv h] at hp
        simp only [conflicts, Bool.and_eq_true, bne_iff_ne, ne_eq, Bool.or_eq_true] at hc
        obtain ⟨⟨hc1, hc2⟩, hc3⟩ := hc
        refine ⟨by omega, by omega, e', e, x.addr, x.size, x.write, b, u, w, ?_, ?_, ?_, ?_, hc3,
          hc2, ?_, ?_⟩
        · rw [hi]; exact he'
        · rw [hj]; exact h
        · rw [hsi]; exact ha'
        · rw [hsj]; exact ha
        · rw [← ht]; exact hc1
        · rw [hi, hj]; exact fun hb => hp (Or.inr hb)
    · rintro ⟨hlt, hr⟩
      by_cases hj : r.j = n
      · right
        obtain ⟨hij, e0, f, a, sz, w, b, u, x, h1, h2, h3, h4, h5, h6, h7, h8⟩ := hr
        rw [hj, h] at h2
        cases h2
        refine ⟨hj, ⟨r.i, e0.thread, a, sz, w, r.siteI⟩, ?_, b, u, x, r.siteJ, h4, rfl, rfl, rfl,
          ?_, ?_⟩
        · exact (inv.hacc _).2 ⟨by simp only; omega, e0, h1, h3, rfl⟩
        · simp only [conflicts, Bool.and_eq_true, bne_iff_ne, ne_eq, Bool.or_eq_true]
          exact ⟨⟨h7, h6⟩, h5⟩
        · rw [pre_iff inv h]
          rintro (hb | hb)
          · simp only at hb; omega
          · apply h8; rw [hj]; exact hb
      · exact Or.inl ⟨by omega, hr⟩

theorem inv_take (tr : List Ev) (n : Nat) (hn : n ≤ tr.length) : Inv tr n (run (tr.take n)) := by
  induction n with
  | zero => exact inv_init tr
  | succ n ih =>
    have hlt : n < tr.length := by omega
    have h : tr[n]? = some tr[n] := List.getElem?_eq_getElem hlt
    have := inv_step (ih (by omega)) h
    rw [run, List.take_add_one, h, Option.toList_some, List.foldl_append]
    exact this

theorem inv_run (tr : List Ev) : Inv tr tr.length (run tr) := by
  have := inv_take tr tr.length (Nat.le_refl _)
  rwa [List.take_length] at this

end Race
end VarmqVerif
