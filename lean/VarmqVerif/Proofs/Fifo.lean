/-
  Refinement proof: the segmented FIFO queue model (Model/Fifo.lean, transcribed from
  /repo/internal/queues/queue.go + /repo/internal/linkedbuffer/chunk.go) is observationally equal
  to a plain list queue (Spec/ListQueue.lean), for every operation sequence and all capacities
  `initCap ≥ 1`, `maxCap ≥ 1`; and it is NOT for `initCap = 0` or `maxCap = 0`
  (`refines_fails_without_caps`, `refines_iff_caps`).
-/
import VarmqVerif.Proofs.FifoLemmas

namespace VarmqVerif
universe u

/-! ## Lemmas about the list-queue specification -/

namespace ListQueue
variable {α : Type u}
open Fifo (Op Out)

theorem step_deq (s : State α) :
    step s .deq = ((s.1.tail, s.2), .item s.1.head?) := by
  obtain ⟨q, c⟩ := s
  cases q <;> rfl

theorem accepted_cons (op : Op α) (o : Out α) (ops : List (Op α)) (outs : List (Out α)) :
    accepted (op :: ops) (o :: outs) =
      (match op, o with
       | .enq x, .bool true => [x]
       | _, _ => []) ++ accepted ops outs := by
  simp only [accepted, List.zip_cons_cons, List.filterMap_cons]
  split <;> split <;> simp_all

theorem dequeued_cons (o : Out α) (outs : List (Out α)) :
    dequeued (o :: outs) =
      (match o with
       | .item (some x) => [x]
       | _ => []) ++ dequeued outs := by
  simp only [dequeued, List.filterMap_cons]
  split <;> split <;> simp_all

/-- Conservation law of the list queue without purge: what was in the queue plus what was accepted
    = what was handed out (in this order!) followed by what is still in the queue. -/
theorem run_conservation (s : State α) (ops : List (Op α))
    (hnp : ops.all notPurge = true) :
    s.1 ++ accepted ops (run s ops).2
      = dequeued (run s ops).2 ++ (run s ops).1.1 := by
  induction ops generalizing s with
  | nil => simp [run, accepted, dequeued]
  | cons op ops ih =>
    obtain ⟨q, c⟩ := s
    simp only [List.all_cons, Bool.and_eq_true] at hnp
    simp only [run, accepted_cons, dequeued_cons]
    cases op with
    | enq x =>
      cases c with
      | true => simpa [step] using ih (q, true) hnp.2
      | false => simpa [step] using ih (q ++ [x], false) hnp.2
    | deq =>
      cases q with
      | nil => simpa [step] using ih ([], c) hnp.2
      | cons y ys => simpa [step] using ih (ys, c) hnp.2
    | len => simpa [step] using ih (q, c) hnp.2
    | values => simpa [step] using ih (q, c) hnp.2
    | purge => simp [notPurge] at hnp
    | close => simpa [step] using ih (q, true) hnp.2

/-- With purges: handed-out items followed by the remaining ones are a subsequence (same relative
    order, no duplication, nothing invented) of initial content followed by accepted items. -/
theorem run_sublist (s : State α) (ops : List (Op α)) :
    (dequeued (run s ops).2 ++ (run s ops).1.1).Sublist
      (s.1 ++ accepted ops (run s ops).2) := by
  induction ops generalizing s with
  | nil => simp [run, accepted, dequeued]
  | cons op ops ih =>
    obtain ⟨q, c⟩ := s
    simp only [run, accepted_cons, dequeued_cons]
    cases op with
    | enq x =>
      cases c with
      | true => simpa [step] using ih (q, true)
      | false => simpa [step] using ih (q ++ [x], false)
    | deq =>
      cases q with
      | nil => simpa [step] using ih ([], c)
      | cons y ys => simpa [step] using ih (ys, c)
    | len => simpa [step] using ih (q, c)
    | values => simpa [step] using ih (q, c)
    | purge =>
      have := ih ([], c)
      simp only [step, List.nil_append] at this ⊢
      exact this.trans (List.sublist_append_right q _)
    | close => simpa [step] using ih (q, true)

/-- On an open list queue every enqueue is accepted. -/
theorem run_enq_open (x : α) : ∀ (k : Nat) (q : List α),
    (run (q, false) (List.replicate k (.enq x))).2 = List.replicate k (.bool true) := by
  intro k
  induction k with
  | zero => intro q; rfl
  | succ k ih => intro q; simp [List.replicate_succ, run, step, ih]

end ListQueue

namespace Fifo

variable {α : Type u}

/-! ## Invariant: initial state and preservation -/

theorem inv_init {ic mc : Nat} (h1 : 1 ≤ ic) (h2 : 1 ≤ mc) : Inv (init ic mc : State α) := by
  refine ⟨h1, h2, ?_, ?_⟩
  · show Chunk.WF _ _
    exact ⟨Nat.le_refl _, Nat.zero_le _, h1, Nat.le_max_left _ _⟩
  · simp [init, abs, State.chunks, absChunks, Chunk.unread, Chunk.new]

theorem inv_purge {s : State α} (h : Inv s) : Inv (purge s) := by
  refine ⟨h.ic_pos, h.mc_pos, ?_, ?_⟩
  · show Chunk.WF _ _
    exact ⟨Nat.le_refl _, Nat.zero_le _, h.ic_pos, Nat.le_max_left _ _⟩
  · simp [purge, abs, State.chunks, absChunks, Chunk.unread, Chunk.new]

theorem abs_purge (s : State α) : abs (purge s) = [] := by
  simp [purge, abs, State.chunks, absChunks, Chunk.unread, Chunk.new]

theorem inv_close {s : State α} (h : Inv s) : Inv (close s) :=
  ⟨h.ic_pos, h.mc_pos, h.chunks, h.count⟩

/-- `Inv` is preserved by every operation. -/
theorem step_inv {s : State α} (h : Inv s) (op : Op α) : Inv (step s op).1 := by
  cases op with
  | enq x =>
    cases hc : s.closed with
    | false => exact (enqueue_open h hc x).2.2.1
    | true => show Inv (enqueue s x).1; rw [enqueue_closed hc]; exact h
  | deq => exact (dequeue_spec h).2.2.1
  | len => exact h
  | values => exact h
  | purge => exact inv_purge h
  | close => exact inv_close h

-- Non-vacuity of `Inv`: a state with three chunks, the first partly read, the last partly filled.
example : Inv (run (init 2 3 : State Nat)
    [.enq 1, .enq 2, .enq 3, .enq 4, .enq 5, .enq 6, .deq]).1 :=
  ⟨by decide, by decide,
   ⟨⟨by decide, by decide, by decide, by decide⟩, by decide, ⟨by decide, by decide⟩,
    ⟨by decide, by decide, by decide, by decide⟩, by decide, ⟨by decide, by decide⟩,
    ⟨by decide, by decide, by decide, by decide⟩⟩,
   by decide⟩

/-- The capacity parameters are never changed. -/
theorem step_params (s : State α) (op : Op α) :
    (step s op).1.initCap = s.initCap ∧ (step s op).1.maxCap = s.maxCap := by
  cases op with
  | enq x => cases hc : s.closed <;> simp [step, enqueue, hc]
  | deq =>
    simp only [step, dequeue]
    split
    · exact ⟨rfl, rfl⟩
    · split
      · exact ⟨rfl, rfl⟩
      · split <;> exact ⟨rfl, rfl⟩
  | len => exact ⟨rfl, rfl⟩
  | values => exact ⟨rfl, rfl⟩
  | purge => exact ⟨rfl, rfl⟩
  | close => exact ⟨rfl, rfl⟩

/-! ## One-step refinement -/

theorem lenOf_eq {s : State α} (h : Inv s) : lenOf s = (abs s).length := by
  have := h.count; unfold lenOf; omega

theorem valuesOf_eq {s : State α} (h : Inv s) : valuesOf s = abs s := by
  unfold valuesOf
  rw [lenOf_eq h]
  split
  · next h0 => exact (List.eq_nil_of_length_eq_zero h0).symm
  · rfl

/-- Under `Inv`, every operation produces the same output as the list queue on `(abs s, closed)`,
    and the abstraction of the new state is the new list-queue state. -/
theorem step_refines {s : State α} (h : Inv s) (op : Op α) :
    (step s op).2 = (ListQueue.step (abs s, s.closed) op).2 ∧
    (abs (step s op).1, (step s op).1.closed) = (ListQueue.step (abs s, s.closed) op).1 := by
  cases op with
  | enq x =>
    cases hc : s.closed with
    | false =>
      obtain ⟨e1, e2, _, e4⟩ := enqueue_open h hc x
      simp [step, ListQueue.step, e1, e2, e4]
    | true => simp [step, ListQueue.step, enqueue_closed hc, hc]
  | deq =>
    obtain ⟨d1, d2, _, d4⟩ := dequeue_spec h
    rw [ListQueue.step_deq]
    simp [step, d1, d2, d4]
  | len => simp [step, ListQueue.step, lenOf_eq h]
  | values => simp [step, ListQueue.step, valuesOf_eq h]
  | purge => simp [step, ListQueue.step, abs_purge]; rfl
  | close => simp [step, ListQueue.step]; exact ⟨rfl, rfl⟩

-- Non-vacuity of `step_refines`: a dequeue that crosses a chunk boundary.
example :
    let s := (run (init 2 3 : State Nat) [.enq 1, .enq 2, .enq 3, .deq, .deq]).1
    shape s = [(2, 2, 2), (3, 0, 1)] ∧ abs s = [3] ∧
    step s .deq = ({ s with head := ⟨3, [3], 1⟩, rest := [], readCount := 3 }, .item (some 3)) := by
  decide

/-- `Len()` is exact (in the sequential model, 2^64 counter wrap-around excluded). -/
theorem len_exact {s : State α} (h : Inv s) : (step s .len).2 = .nat (abs s).length := by
  simp [step, lenOf_eq h]

example : (step (run (init 2 3 : State Nat) [.enq 1, .enq 2, .enq 3, .deq]).1 .len).2 = .nat 2 := by
  decide

/-! ## Whole runs -/

theorem run_inv {s : State α} (h : Inv s) (ops : List (Op α)) : Inv (run s ops).1 := by
  induction ops generalizing s with
  | nil => exact h
  | cons op ops ih => exact ih (step_inv h op)

theorem run_params (s : State α) (ops : List (Op α)) :
    (run s ops).1.initCap = s.initCap ∧ (run s ops).1.maxCap = s.maxCap := by
  induction ops generalizing s with
  | nil => exact ⟨rfl, rfl⟩
  | cons op ops ih =>
    have h1 := ih (step s op).1
    have h2 := step_params s op
    exact ⟨h1.1.trans h2.1, h1.2.trans h2.2⟩

/-- Refinement from an arbitrary state satisfying `Inv`: same outputs, and the final states are
    related by the abstraction function. -/
theorem run_refines {s : State α} (h : Inv s) (ops : List (Op α)) :
    (run s ops).2 = (ListQueue.run (abs s, s.closed) ops).2 ∧
    (abs (run s ops).1, (run s ops).1.closed) = (ListQueue.run (abs s, s.closed) ops).1 := by
  induction ops generalizing s with
  | nil => exact ⟨rfl, rfl⟩
  | cons op ops ih =>
    obtain ⟨r1, r2⟩ := step_refines h op
    obtain ⟨i1, i2⟩ := ih (step_inv h op)
    simp only [run, ListQueue.run]
    rw [← r2, ← r1]
    exact ⟨by rw [i1], i2⟩

/-- Refinement from the initial state, with the final-state relation. -/
theorem run_refines_init {ic mc : Nat} (h1 : 1 ≤ ic) (h2 : 1 ≤ mc) (ops : List (Op α)) :
    (run (init ic mc) ops).2 = (ListQueue.run ListQueue.init ops).2 ∧
    (abs (run (init ic mc) ops).1, (run (init ic mc) ops).1.closed)
      = (ListQueue.run ListQueue.init ops).1 :=
  run_refines (inv_init h1 h2) ops

/-- HEADLINE.  For all capacities `≥ 1` and every finite operation sequence, the segmented queue
    is observationally equal to a plain list queue. -/
theorem refines_list {ic mc : Nat} (h1 : 1 ≤ ic) (h2 : 1 ≤ mc) (ops : List (Op α)) :
    (run (init ic mc) ops).2 = (ListQueue.run ListQueue.init ops).2 :=
  (run_refines_init h1 h2 ops).1

/-- The ops of the non-vacuity examples: initCap = 2, maxCap = 3; 8 enqueues fill chunks of
    capacity 2, 3, 3 (two chunk boundaries crossed by the writer), 6 dequeues cross both boundaries
    on the read side, then a purge, and use after purge and after close. -/
def demoOps : List (Op Nat) :=
  [.enq 1, .enq 2, .enq 3, .len, .enq 4, .enq 5, .enq 6, .enq 7, .enq 8, .values,
   .deq, .deq, .deq, .deq, .deq, .deq, .len, .values, .purge, .len, .values, .deq,
   .enq 9, .enq 10, .enq 11, .close, .enq 12, .deq, .deq, .deq, .deq, .len]

example : (run (init 2 3) demoOps).2 =
    [.bool true, .bool true, .bool true, .nat 3, .bool true, .bool true, .bool true, .bool true,
     .bool true, .list [1, 2, 3, 4, 5, 6, 7, 8],
     .item (some 1), .item (some 2), .item (some 3), .item (some 4), .item (some 5), .item (some 6),
     .nat 2, .list [7, 8], .unit, .nat 0, .list [], .item none,
     .bool true, .bool true, .bool true, .unit, .bool false,
     .item (some 9), .item (some 10), .item (some 11), .item none, .nat 0] := by decide

example : (run (init 2 3) demoOps).2 = (ListQueue.run ListQueue.init demoOps).2 := by decide

-- chunk shapes (cap, r, w) along that run: after 8 enqueues; after 3 more dequeues; after purge+3 enq
example : shape (run (init 2 3) (demoOps.take 9)).1 = [(2, 0, 2), (3, 0, 3), (3, 0, 3)] := by decide
example : shape (run (init 2 3) (demoOps.take 13)).1 = [(3, 1, 3), (3, 0, 3)] := by decide
example : shape (run (init 2 3) (demoOps.take 25)).1 = [(2, 0, 2), (3, 0, 1)] := by decide

/-! ## Chunk capacities -/

/-- Sanity of the growth rule `min(cap + cap/2, maxCapacity)`: in every reachable state every
    reachable chunk has `1 ≤ Cap() ≤ max initCap maxCap` (and `r ≤ w ≤ cap`). -/
theorem chunk_caps {ic mc : Nat} (h1 : 1 ≤ ic) (h2 : 1 ≤ mc) (ops : List (Op α)) :
    ∀ c ∈ (run (init ic mc) ops).1.chunks,
      1 ≤ c.cap ∧ c.cap ≤ max ic mc ∧ c.r ≤ c.data.length ∧ c.data.length ≤ c.cap := by
  intro c hc
  have hinv := run_inv (inv_init (α := α) h1 h2) ops
  have hp := run_params (init ic mc : State α) ops
  have hwf := hinv.chunks.forall_wf c hc
  rw [hp.1, hp.2] at hwf
  exact ⟨hwf.cap_pos, hwf.cap_le, hwf.r_le, hwf.w_le⟩

example : ((run (init 2 3) (demoOps.take 9)).1.chunks.map (·.cap) = [2, 3, 3]) ∧
    ((run (init 5 3) (demoOps.take 9)).1.chunks.map (·.cap) = [5, 3]) := by decide

/-! ## FIFO order (on the specification, then transported to the model) -/

open ListQueue (accepted dequeued notPurge)

/-- FIFO ORDER.  In any run of the segmented queue without `Purge`, the sequence of items returned
    by successful `Dequeue`s is a prefix of the sequence of items accepted by `Enqueue`
    (so: same order, nothing lost in the middle, nothing duplicated, nothing invented); more
    precisely accepted = dequeued ++ current content. -/
theorem fifo_order {ic mc : Nat} (h1 : 1 ≤ ic) (h2 : 1 ≤ mc) (ops : List (Op α))
    (hnp : ops.all notPurge = true) :
    accepted ops (run (init ic mc) ops).2
      = dequeued (run (init ic mc) ops).2 ++ abs (run (init ic mc) ops).1 ∧
    dequeued (run (init ic mc) ops).2 <+: accepted ops (run (init ic mc) ops).2 := by
  obtain ⟨r1, r2⟩ := run_refines_init (α := α) h1 h2 ops
  have hc := ListQueue.run_conservation (ListQueue.init : ListQueue.State α) ops hnp
  have habs : abs (run (init ic mc : State α) ops).1
      = (ListQueue.run (ListQueue.init : ListQueue.State α) ops).1.1 := congrArg Prod.fst r2
  have e : accepted ops (run (init ic mc) ops).2
      = dequeued (run (init ic mc) ops).2 ++ abs (run (init ic mc) ops).1 := by
    rw [habs, r1]; simpa [ListQueue.init] using hc
  exact ⟨e, by rw [e]; exact List.prefix_append _ _⟩

/-- FIFO order with purges: dequeued items are a subsequence of the accepted items (purged items
    are the ones missing), in acceptance order. -/
theorem fifo_order_purge {ic mc : Nat} (h1 : 1 ≤ ic) (h2 : 1 ≤ mc) (ops : List (Op α)) :
    (dequeued (run (init ic mc) ops).2).Sublist (accepted ops (run (init ic mc) ops).2) := by
  obtain ⟨r1, _⟩ := run_refines_init (α := α) h1 h2 ops
  have hs := ListQueue.run_sublist (ListQueue.init : ListQueue.State α) ops
  rw [r1]
  simp only [ListQueue.init, List.nil_append] at hs ⊢
  exact (List.sublist_append_left _ _).trans hs

example : accepted demoOps (run (init 2 3) demoOps).2 = [1, 2, 3, 4, 5, 6, 7, 8, 9, 10, 11] ∧
    dequeued (run (init 2 3) demoOps).2 = [1, 2, 3, 4, 5, 6, 9, 10, 11] := by decide

example : (demoOps.take 16).all notPurge = true ∧
    accepted (demoOps.take 16) (run (init 2 3) (demoOps.take 16)).2 = [1, 2, 3, 4, 5, 6, 7, 8] ∧
    dequeued (run (init 2 3) (demoOps.take 16)).2 = [1, 2, 3, 4, 5, 6] := by decide

/-! ## The capacity guards are necessary -/

/-- Without the guards refinement is false.
    * `initialBufferCapacity = 0`: the first chunk has capacity 0, the grown capacity is
      `min(0 + 0/2, max) = 0`, so *every* `Enqueue` returns `false` ("Should never happen" branch)
      and each call links one more empty chunk (a leak), for every `maxCap`.
    * `chunkMaxCapacity = 0` (with `initCap = 1`): the first enqueue succeeds, the second one
      allocates a chunk of capacity `min(1, 0) = 0` and returns `false`. -/
theorem refines_fails_without_caps :
    (∀ mc, (run (init 0 mc) [Op.enq ()]).2 ≠ (ListQueue.run ListQueue.init [Op.enq ()]).2) ∧
    (run (init 1 0) [Op.enq (), .enq ()]).2 ≠ (ListQueue.run ListQueue.init [Op.enq (), .enq ()]).2 ∧
    (∀ mc, shape (run (init 0 mc) [Op.enq (), .enq ()]).1 = [(0, 0, 0), (0, 0, 0), (0, 0, 0)]) := by
  refine ⟨?_, by decide, ?_⟩
  · intro mc
    simp [run, step, enqueue, init, enqChunks, Chunk.push_eq, Chunk.new, ListQueue.run,
      ListQueue.step, ListQueue.init]
  · intro mc
    simp [run, step, enqueue, init, enqChunks, Chunk.push_eq, Chunk.new, shape, State.chunks]

/-- The state of `init ic mc` after `n ≤ ic` enqueues of `x` (only the first chunk in use). -/
def filled (ic mc n : Nat) (x : α) : State α :=
  { head := ⟨ic, List.replicate n x, 0⟩, rest := [], writeCount := n, readCount := 0,
    closed := false, initCap := ic, maxCap := mc }

theorem step_filled_lt {ic mc n : Nat} (x : α) (h : n < ic) :
    step (filled ic mc n x) (.enq x) = (filled ic mc (n + 1) x, .bool true) := by
  have h' : ¬ ic ≤ n := by omega
  simp [filled, step, enqueue, enqChunks, Chunk.push_eq, h', List.replicate_succ']

/-- With `maxCap = 0` the enqueue that finds the first chunk full fails. -/
theorem step_filled_full {ic : Nat} (x : α) :
    (step (filled ic 0 ic x) (.enq x)).2 = .bool false := by
  simp [filled, step, enqueue, enqChunks, Chunk.push_eq, Chunk.new]

theorem run_filled_false {ic : Nat} (x : α) : ∀ (k n : Nat), n ≤ ic → ic < n + k →
    Out.bool false ∈ (run (filled ic 0 n x) (List.replicate k (.enq x))).2 := by
  intro k
  induction k with
  | zero => intro n h1 h2; omega
  | succ k ih =>
    intro n h1 h2
    simp only [List.replicate_succ, run]
    by_cases hn : n < ic
    · rw [step_filled_lt x hn]
      exact List.mem_cons_of_mem _ (ih (n + 1) hn (by omega))
    · have : n = ic := by omega
      subst this
      rw [step_filled_full]
      exact List.mem_cons_self

/-- The guards `1 ≤ initCap`, `1 ≤ maxCap` are exactly the truth: for any inhabited element type,
    observational equality with the list queue holds for all operation sequences iff both
    capacities are positive.  (`maxCap = 0`: the `initCap + 1`-st enqueue returns `false`.) -/
theorem refines_iff_caps (x : α) (ic mc : Nat) :
    (∀ ops : List (Op α), (run (init ic mc) ops).2 = (ListQueue.run ListQueue.init ops).2)
      ↔ 1 ≤ ic ∧ 1 ≤ mc := by
  constructor
  · intro h
    refine ⟨?_, ?_⟩
    · apply Nat.pos_of_ne_zero
      intro h0
      subst h0
      have := h [.enq x]
      simp [run, step, enqueue, init, enqChunks, Chunk.push_eq, Chunk.new, ListQueue.run,
        ListQueue.step, ListQueue.init] at this
    · apply Nat.pos_of_ne_zero
      intro h0
      subst h0
      have h' := h (List.replicate (ic + 1) (.enq x))
      have hmem := run_filled_false x (ic + 1) 0 (Nat.zero_le ic) (by omega)
      have hinit : (init ic 0 : State α) = filled ic 0 0 x := rfl
      rw [← hinit, h', ListQueue.init, ListQueue.run_enq_open] at hmem
      have := List.eq_of_mem_replicate hmem
      simp at this
  · intro ⟨h1, h2⟩ ops
    exact refines_list h1 h2 ops

example : (∀ ops : List (Op Nat), (run (init 1 1) ops).2 = (ListQueue.run ListQueue.init ops).2) :=
  (refines_iff_caps 0 1 1).2 ⟨by decide, by decide⟩

end Fifo
end VarmqVerif

#print axioms VarmqVerif.Fifo.refines_list
#print axioms VarmqVerif.Fifo.step_inv
#print axioms VarmqVerif.Fifo.step_refines
#print axioms VarmqVerif.Fifo.len_exact
#print axioms VarmqVerif.Fifo.fifo_order
#print axioms VarmqVerif.Fifo.fifo_order_purge
#print axioms VarmqVerif.Fifo.chunk_caps
#print axioms VarmqVerif.Fifo.refines_fails_without_caps
#print axioms VarmqVerif.Fifo.refines_iff_caps
