/-
  Preservation of layers 1b (`InvM`, status history) and 2 (`InvD`, who owes a Done) of the `Job`
  invariant.
-/
import VarmqVerif.Proofs.JobLemmas

namespace VarmqVerif
namespace Job

set_option maxHeartbeats 1000000 in
theorem InvM.step {s s' : State} {e : Ev} (J : InvJ s) (I : InvM s) (h : step s e = .ok s') :
    InvM s' := by
  have j1 := J.head
  have j2 := J.st_le
  have j3 := J.run
  have j4 := J.ent_le
  have j5 := J.claims_le
  clear J
  obtain ⟨a1⟩ := I
  cases e <;> step_cases h <;> constructor <;> first | assumption | grind [upd, setSt, List.pairwise_cons]

set_option maxHeartbeats 1000000 in
theorem InvD.step {s s' : State} {e : Ev} (J : InvJ s) (I : InvD s) (h : step s e = .ok s') :
    InvD s' := by
  have j1 := J.nex
  have j2 := J.closes_le
  have j3 := J.closes0
  have j4 := J.ld_exist
  have j5 := J.head
  clear J
  obtain ⟨a1, a2, a3, a4, a5⟩ := I
  cases e <;> step_cases h <;> constructor <;> first | assumption | grind [upd, setSt]

end Job
end VarmqVerif
