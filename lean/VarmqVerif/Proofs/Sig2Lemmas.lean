/-
  Inductive invariants of the wake-up protocol model `Sig2` (Model/Sig2.lean): several signal
  channels, several event loops.

  `Inv` has four clauses:
    (Ch)  the current channel is open and was made;  a closed channel was made
    (L)   ws = running → Listening s      (the current channel exists, is open, and an event loop that
                                           has not ended listens on it)
    (W)   Dispatchable s → TokCur s ∨ 0 < nOwes ∨ ∃ d, Good s d
          where `Good s d`: the event loop d will evaluate the loop condition again and does not hold
          a loaded value of `cur` that is larger than the current `cur`.
          This merges clauses (A) and (B) of Proofs/SigLemmas.lean: with several event loops the
          clause "dph d = sawCur c → c ≤ cur ∨ token ∨ owed notify ∨ another loop will evaluate" is
          NOT inductive on its own (the other loop may leave because the worker is not running any
          more, and a notify() may be swallowed by the nil channel while the worker is stopped), but
          it is only ever needed in dispatchable states, and there (W) provides it.
  `Ghost` links the ghost fields `owes` and `nOwes` as in SigLemmas.
-/
import VarmqVerif.Model.Sig2

namespace VarmqVerif
namespace Sig2

/-! ## run / Reach -/

theorem reach_run {s s' : State} {es : List Ev} (hr : Reach s) (h : run s es = .ok s') : Reach s' := by
  induction es generalizing s with
  | nil => simp only [run] at h; cases h; exact hr
  | cons e es ih =>
    simp only [run] at h
    split at h
    · rename_i s1 h1
      exact ih (Reach.step e hr h1) h
    · cases h

/-! ## The invariant -/

/-- the current channel is open and was made; a closed channel was made -/
def InvCh (s : State) : Prop :=
  (∀ ch, s.chan = some ch → s.closed ch = false ∧ s.made ch = true) ∧
  (∀ ch, s.closed ch = true → s.made ch = true)

def InvL (s : State) : Prop := s.ws = running → Listening s

/-- the event loop `d` will evaluate the loop condition again, and the part of it that it has
    evaluated already is not stale in the dangerous direction: a loaded `cur` is not above `cur` -/
def Good (s : State) (d : Nat) : Prop :=
  (s.dph d).willEval = true ∧ ∀ c, s.dph d = .sawCur c → c ≤ s.cur

def InvW (s : State) : Prop :=
  Dispatchable s → TokCur s ∨ 0 < s.nOwes ∨ ∃ d, Good s d

def Inv (s : State) : Prop := InvCh s ∧ InvL s ∧ InvW s

theorem inv_init (c : Nat) : Inv (init c) := by
  refine ⟨⟨?_, ?_⟩, ?_, ?_⟩
  · intro ch h; simp [init] at h
  · intro ch h; simp [init] at h
  · intro h; simp [init, running] at h
  · intro hd; simp [Dispatchable, init, running] at hd

/-- common opening: unfold the step function for one constructor, split all guards, discard the
    error branches, and substitute the successor state -/
macro "step_cases" h:ident : tactic =>
  `(tactic| (
    simp only [step] at $h:ident
    repeat' (split at $h:ident)
    all_goals (first | (cases $h:ident; done) | skip)
    all_goals (first | (injection $h:ident with $h:ident; subst $h:ident) | skip)))

/-! ### (Ch) -/

theorem invCh_step {s s' : State} {e : Ev} (hi : InvCh s) (h : step s e = .ok s') : InvCh s' := by
  obtain ⟨h1, h2⟩ := hi
  unfold InvCh
  cases e <;> step_cases h <;> simp only [owe] <;> grind [upd]

/-! ### (L) -/

theorem liveOn_iff (s : State) (ch : Nat) :
    liveOn s ch = true ↔ ∃ d ∈ s.ds, s.dph d ≠ .none ∧ s.dch d = ch := by
  simp [liveOn, List.any_eq_true]

end Sig2
end VarmqVerif
