/-
  Inductive invariants of the wake-up protocol model `Sig2` (Model/Sig2.lean): several signal
  channels, several event loops.

  `Inv` has four clauses:
    (Ch)  the current channel is open and was made;  a closed channel was made
    (L)   ws = running → Listening s      (the current channel exists, is open, and an event loop that
                                           has not ended listens on it)
    (W)   Dispatchable s → TokCur s ∨ 0 < nOwes ∨ ∃ d, Good s d
          where `Good s d`: the event loop d will evaluate the loop condition again and does not hold
          a loaded value of `cur` that is larger than the current `cur`.
          This merges clauses (A) and (B) of Proofs/SigLemmas.lean: with several event loops the
          clause "dph d = sawCur c → c ≤ cur ∨ token ∨ owed notify ∨ another loop will evaluate" is
          is FALSE in some reachable states (the other loop may leave because the worker is not
          running any more, and a notify() may be swallowed by the nil channel while the worker is
          stopped: `exStaleSwallowed` in Proofs/Sig2.lean), but it is only ever needed in dispatchable
          states, and there (W) provides it (`stale_cur_covered`).
    (D)   (`InvD`, separate) an event loop that has not ended is in `ds` and its channel was made.
  `Ghost` links the ghost fields `owes` and `nOwes` as in SigLemmas.
-/
import VarmqVerif.Model.Sig2

namespace VarmqVerif
namespace Sig2

/-! ## run / Reach -/

theorem reach_run {s s' : State} {es : List Ev} (hr : Reach s) (h : run s es = .ok s') : Reach s' := by
  induction es generalizing s with
  | nil => simp only [run] at h; cases h; exact hr
  | cons e es ih =>
    simp only [run] at h
    split at h
    · rename_i s1 h1
      exact ih (Reach.step e hr h1) h
    · cases h

/-! ## The invariant -/

/-- the current channel is open and was made; a closed channel was made -/
def InvCh (s : State) : Prop :=
  (∀ ch, s.chan = some ch → s.closed ch = false ∧ s.made ch = true) ∧
  (∀ ch, s.closed ch = true → s.made ch = true)

def InvL (s : State) : Prop := s.ws = running → Listening s

/-- the event loop `d` will evaluate the loop condition again, and the part of it that it has
    evaluated already is not stale in the dangerous direction: a loaded `cur` is not above `cur` -/
def GoodP (ph : DPh) (cur : Nat) : Prop :=
  ph.willEval = true ∧ ∀ c, ph = .sawCur c → c ≤ cur

def Good (s : State) (d : Nat) : Prop := GoodP (s.dph d) s.cur

def InvW (s : State) : Prop :=
  Dispatchable s → TokCur s ∨ 0 < s.nOwes ∨ ∃ d, Good s d

def Inv (s : State) : Prop := InvCh s ∧ InvL s ∧ InvW s

theorem inv_init (c : Nat) : Inv (init c) := by
  refine ⟨⟨?_, ?_⟩, ?_, ?_⟩
  · intro ch h; simp [init] at h
  · intro ch h; simp [init] at h
  · intro h; simp [init, running] at h
  · intro hd; simp [Dispatchable, init, running] at hd

/-- common opening: unfold the step function for one constructor, split all guards, discard the
    error branches, and substitute the successor state -/
macro "step_cases" h:ident : tactic =>
  `(tactic| (
    simp only [step] at $h:ident
    repeat' (split at $h:ident)
    all_goals (first | (cases $h:ident; done) | skip)
    all_goals (first | (injection $h:ident with $h:ident; subst $h:ident) | skip)))

/-! ### (Ch) -/

theorem invCh_step {s s' : State} {e : Ev} (hi : InvCh s) (h : step s e = .ok s') : InvCh s' := by
  obtain ⟨h1, h2⟩ := hi
  unfold InvCh
  cases e <;> step_cases h <;> (try simp only [owe]) <;> grind [upd]

/-! ### (L) -/

theorem liveOn_iff (s : State) (ch : Nat) :
    liveOn s ch = true ↔ ∃ d ∈ s.ds, s.dph d ≠ .none ∧ s.dch d = ch := by
  simp [liveOn, List.any_eq_true]

theorem invL_step {s s' : State} {e : Ev} (hc : InvCh s) (hi : InvL s) (h : step s e = .ok s') : InvL s' := by
  obtain ⟨h1, h2⟩ := hc
  unfold InvL Listening at hi
  unfold InvL Listening
  cases e with
  | stStatus g v =>
    step_cases h
    · rename_i ch hch hl
      have hl' : liveOn s ch = true := by simpa using hl
      rw [liveOn_iff] at hl'
      intro _
      exact ⟨ch, hch, (h1 ch hch).1, hl'⟩
    · grind
  | _ => step_cases h <;> (try simp only [owe]) <;> grind [upd, isD]

/-! ### (W) -/

/-- updating the phase of one event loop keeps a good event loop, if the new phase is good or the
    updated loop was not -/
theorem exists_good_upd (f : Nat → DPh) (cur d : Nat) (x : DPh) (h : ∃ d', GoodP (f d') cur)
    (hx : GoodP x cur ∨ ¬ GoodP (f d) cur) : ∃ d', GoodP (upd f d x d') cur := by
  rcases hx with hx | hx
  · exact ⟨d, by simpa using hx⟩
  · obtain ⟨d', hd'⟩ := h
    have hne : d' ≠ d := fun he => hx (he ▸ hd')
    exact ⟨d', by simpa [upd_other _ _ _ _ hne] using hd'⟩

/-- (W) is kept by an event that only changes the phase of one event loop `d` (and possibly the
    tokens, the list of event loops, the channel an event loop listens on), if
    * in a dispatchable state the new phase is good, or the old one was not, and
    * a token on the current channel stays, or the new phase is good -/
theorem invW_upd {s s' : State} (hi : InvW s) (d : Nat) (x : DPh)
    (hws : s'.ws = s.ws) (hcur : s'.cur = s.cur) (hconc : s'.conc = s.conc) (hq : s'.qlen = s.qlen)
    (hn : s'.nOwes = s.nOwes) (hdph : s'.dph = upd s.dph d x)
    (hx : Dispatchable s → GoodP x s.cur ∨ ¬ GoodP (s.dph d) s.cur)
    (ht : TokCur s → TokCur s' ∨ GoodP x s.cur) : InvW s' := by
  intro hd'
  have hd : Dispatchable s := by
    unfold Dispatchable at hd' ⊢
    rw [hws, hcur, hconc, hq] at hd'
    exact hd'
  have hgood : GoodP x s.cur → ∃ d', Good s' d' := fun hg => ⟨d, by
    unfold Good
    rw [hdph, hcur, upd_same]
    exact hg⟩
  rcases hi hd with h | h | h
  · rcases ht h with h | h
    · exact .inl h
    · exact .inr (.inr (hgood h))
  · exact .inr (.inl (by omega))
  · obtain ⟨d', hd'⟩ := exists_good_upd s.dph s.cur d x h (hx hd)
    exact .inr (.inr ⟨d', by unfold Good; rw [hdph, hcur]; exact hd'⟩)

theorem invW_step {s s' : State} {e : Ev} (hl : InvL s) (hi : InvW s) (h : step s e = .ok s') : InvW s' := by
  have hl' : s.ws = running → ∃ ch, s.chan = some ch := fun hw => by
    obtain ⟨ch, hch, _⟩ := hl hw
    exact ⟨ch, hch⟩
  clear hl
  cases e with
  | makeSig g ch =>
    unfold InvW Dispatchable TokCur Good at hi
    unfold InvW Dispatchable TokCur Good
    step_cases h <;> grind [upd, isD, GoodP, DPh.willEval]
  | closeSig g =>
    unfold InvW Dispatchable TokCur Good at hi
    unfold InvW Dispatchable TokCur Good
    step_cases h <;> grind [upd, isD, GoodP, DPh.willEval]
  | spawnD g d =>
    step_cases h <;> refine invW_upd hi d _ rfl rfl rfl rfl rfl rfl ?_ ?_ <;> grind [Dispatchable, TokCur, upd, isD, GoodP, DPh.willEval]
  | recvTok d =>
    step_cases h <;> refine invW_upd hi d _ rfl rfl rfl rfl rfl rfl ?_ ?_ <;> grind [Dispatchable, TokCur, upd, isD, GoodP, DPh.willEval]
  | recvClosed d =>
    step_cases h <;> refine invW_upd hi d _ rfl rfl rfl rfl rfl rfl ?_ ?_ <;> grind [Dispatchable, TokCur, upd, isD, GoodP, DPh.willEval]
  | dStatus d v =>
    step_cases h <;> refine invW_upd hi d _ rfl rfl rfl rfl rfl rfl ?_ ?_ <;> grind [Dispatchable, TokCur, upd, isD, GoodP, DPh.willEval]
  | dCur d v =>
    step_cases h <;> refine invW_upd hi d _ rfl rfl rfl rfl rfl rfl ?_ ?_ <;> grind [Dispatchable, TokCur, upd, isD, GoodP, DPh.willEval]
  | dConc d v =>
    step_cases h <;> refine invW_upd hi d _ rfl rfl rfl rfl rfl rfl ?_ ?_ <;> grind [Dispatchable, TokCur, upd, isD, GoodP, DPh.willEval]
  | dLen d n =>
    step_cases h <;> refine invW_upd hi d _ rfl rfl rfl rfl rfl rfl ?_ ?_ <;> grind [Dispatchable, TokCur, upd, isD, GoodP, DPh.willEval]
  | dCasOk d =>
    unfold InvW Dispatchable TokCur Good at hi
    unfold InvW Dispatchable TokCur Good
    step_cases h <;> grind [upd, isD, GoodP, DPh.willEval]
  | dDeq d =>
    unfold InvW Dispatchable TokCur Good at hi
    unfold InvW Dispatchable TokCur Good
    step_cases h <;> grind [upd, isD, GoodP, DPh.willEval]
  | dRel d res =>
    unfold InvW Dispatchable TokCur Good at hi
    unfold InvW Dispatchable TokCur Good
    step_cases h <;> grind [upd, isD, GoodP, DPh.willEval]
  | enq g =>
    unfold InvW Dispatchable TokCur Good at hi
    unfold InvW Dispatchable TokCur Good
    step_cases h <;> (try simp only [owe]) <;> grind [upd, isD, GoodP, DPh.willEval]
  | deqX g =>
    unfold InvW Dispatchable TokCur Good at hi
    unfold InvW Dispatchable TokCur Good
    step_cases h <;> grind [upd, isD, GoodP, DPh.willEval]
  | relX g res =>
    unfold InvW Dispatchable TokCur Good at hi
    unfold InvW Dispatchable TokCur Good
    step_cases h <;> (try simp only [owe]) <;> grind [upd, isD, GoodP, DPh.willEval]
  | stStatus g v =>
    unfold InvW Dispatchable TokCur Good at hi
    unfold InvW Dispatchable TokCur Good
    step_cases h <;> (try simp only [owe]) <;> grind [upd, isD, GoodP, DPh.willEval]
  | stConc g v =>
    unfold InvW Dispatchable TokCur Good at hi
    unfold InvW Dispatchable TokCur Good
    step_cases h <;> (try simp only [owe]) <;> grind [upd, isD, GoodP, DPh.willEval]
  | notify g sent =>
    unfold InvW Dispatchable TokCur Good at hi
    unfold InvW Dispatchable TokCur Good
    step_cases h <;> grind [upd, isD, GoodP, DPh.willEval]

theorem inv_step {s s' : State} {e : Ev} (hi : Inv s) (h : step s e = .ok s') : Inv s' :=
  ⟨invCh_step hi.1 h, invL_step hi.1 hi.2.1 h, invW_step hi.2.1 hi.2.2 h⟩

theorem reach_inv {s : State} (hr : Reach s) : Inv s := by
  induction hr with
  | init c => exact inv_init c
  | step e _ h ih => exact inv_step ih h

/-! ### Event loops are registered and listen on a channel that was made -/

def InvD (s : State) : Prop := ∀ d, s.dph d ≠ .none → d ∈ s.ds ∧ s.made (s.dch d) = true

theorem invD_step {s s' : State} {e : Ev} (hc : InvCh s) (hi : InvD s) (h : step s e = .ok s') : InvD s' := by
  obtain ⟨h1, h2⟩ := hc
  unfold InvD at hi ⊢
  cases e <;> step_cases h <;> (try simp only [owe]) <;> grind [upd, isD]

theorem reach_invD {s : State} (hr : Reach s) : InvD s := by
  induction hr with
  | init c => intro d h; simp [init] at h
  | step e hr h ih => exact invD_step (reach_inv hr).1 ih h

/-! ## The ghost counters -/

theorem sum_map_upd_not_mem (f : Nat → Nat) (g v : Nat) (l : List Nat) (hg : g ∉ l) :
    (l.map (upd f g v)).sum = (l.map f).sum := by
  induction l with
  | nil => rfl
  | cons a t ih =>
    simp only [List.mem_cons, not_or] at hg
    have ha : a ≠ g := fun h => hg.1 h.symm
    simp [List.map_cons, List.sum_cons, ih hg.2, upd, ha]

theorem sum_map_upd_mem (f : Nat → Nat) (g v : Nat) (l : List Nat) (hn : l.Nodup) (hg : g ∈ l) :
    (l.map (upd f g v)).sum + f g = (l.map f).sum + v := by
  induction l with
  | nil => cases hg
  | cons a t ih =>
    rw [List.nodup_cons] at hn
    by_cases ha : a = g
    · subst ha
      simp only [List.map_cons, List.sum_cons, upd_same, sum_map_upd_not_mem f a v t hn.1]
      omega
    · have hgt : g ∈ t := by
        rcases List.mem_cons.mp hg with h | h
        · exact absurd h.symm ha
        · exact h
      have := ih hn.2 hgt
      simp only [List.map_cons, List.sum_cons, upd_other f g a v ha]
      omega

/-- `nOwes` is the sum of `owes` over a finite duplicate-free list outside of which `owes` is 0 -/
def Ghost (s : State) : Prop :=
  ∃ l : List Nat, l.Nodup ∧ (∀ g, g ∉ l → s.owes g = 0) ∧ (l.map s.owes).sum = s.nOwes

theorem ghost_init (c : Nat) : Ghost (init c) := ⟨[], by simp, by simp [init], by simp [init]⟩

theorem ghost_owe {s : State} (g : Nat) (hs : Ghost s) : Ghost (owe s g) := by
  obtain ⟨l, hn, h0, hsum⟩ := hs
  by_cases hg : g ∈ l
  · refine ⟨l, hn, ?_, ?_⟩
    · intro x hx
      have hxg : x ≠ g := fun h => hx (h ▸ hg)
      simp [owe, upd, hxg, h0 x hx]
    · have := sum_map_upd_mem s.owes g (s.owes g + 1) l hn hg
      simp only [owe]
      omega
  · refine ⟨g :: l, List.nodup_cons.mpr ⟨hg, hn⟩, ?_, ?_⟩
    · intro x hx
      simp only [List.mem_cons, not_or] at hx
      simp [owe, upd, hx.1, h0 x hx.2]
    · have := sum_map_upd_not_mem s.owes g (s.owes g + 1) l hg
      have hz := h0 g hg
      simp only [owe, List.map_cons, List.sum_cons, upd_same]
      omega

/-- paying one owed call -/
theorem ghost_pay {s t : State} (g : Nat) (hg0 : s.owes g ≠ 0)
    (ho : t.owes = upd s.owes g (s.owes g - 1)) (hn' : t.nOwes = s.nOwes - 1) (hs : Ghost s) : Ghost t := by
  obtain ⟨l, hn, h0, hsum⟩ := hs
  have hg : g ∈ l := by
    apply Classical.byContradiction
    intro hg
    exact hg0 (h0 g hg)
  refine ⟨l, hn, ?_, ?_⟩
  · intro x hx
    have hxg : x ≠ g := fun h => hx (h ▸ hg)
    rw [ho]
    simp [upd, hxg, h0 x hx]
  · have := sum_map_upd_mem s.owes g (s.owes g - 1) l hn hg
    rw [ho, hn']
    omega

/-- the ghost fields do not depend on the other fields -/
theorem ghost_congr {s t : State} (ho : t.owes = s.owes) (hn : t.nOwes = s.nOwes) (hs : Ghost s) : Ghost t := by
  unfold Ghost at *
  rw [ho, hn]
  exact hs

theorem ghost_step {s s' : State} {e : Ev} (hs : Ghost s) (h : step s e = .ok s') : Ghost s' := by
  cases e with
  | enq g => step_cases h; exact ghost_owe g (ghost_congr (s := s) rfl rfl hs)
  | relX g res => step_cases h; exact ghost_owe g (ghost_congr (s := s) rfl rfl hs)
  | stStatus g v =>
    step_cases h
    · exact ghost_owe g (ghost_congr (s := s) rfl rfl hs)
    · exact ghost_congr rfl rfl hs
  | stConc g v =>
    step_cases h
    · exact ghost_owe g (ghost_congr (s := s) rfl rfl hs)
    · exact ghost_congr rfl rfl hs
  | notify g sent =>
    step_cases h
    · exact ghost_congr rfl rfl hs
    · rename_i h2 _
      exact ghost_pay g (by simpa using h2) rfl rfl hs
    · exact hs
    · rename_i h2 _
      exact ghost_pay g (by simpa using h2) rfl rfl hs
  | _ => step_cases h <;> exact ghost_congr rfl rfl hs

theorem reach_ghost {s : State} (hr : Reach s) : Ghost s := by
  induction hr with
  | init c => exact ghost_init c
  | step e _ h ih => exact ghost_step ih h

theorem le_sum_of_mem (f : Nat → Nat) (g : Nat) (l : List Nat) (hg : g ∈ l) : f g ≤ (l.map f).sum := by
  induction l with
  | nil => cases hg
  | cons a t ih =>
    simp only [List.map_cons, List.sum_cons]
    rcases List.mem_cons.mp hg with h | h
    · subst h; omega
    · have := ih h; omega

end Sig2
end VarmqVerif
