import VarmqVerif.Proofs.PQRefine

/-!
# Priority queue: corollaries in plain words, non-vacuity examples, axiom audit

The refinement itself (`Inv`, `abs`, `step_refines`, `refines_sorted`) is in `Proofs/PQRefine.lean`;
the heap facts in `Proofs/Heap.lean`; the facts about the specification in `Proofs/SortedQueue.lean`.
-/

namespace VarmqVerif
namespace PQ
open Heap SortedQueue
variable {α : Type}

theorem abs_sinv (s : State α) (h : Inv s) : SInv (abs s) :=
  ⟨sort_sorted _ h.nodup, fun it hit => h.bound it (mem_sort.mp hit)⟩

/-- The same statement directly on the Go model: the value returned by `Dequeue` belongs to a stored
item that is strictly before (smaller priority, or equal priority and accepted earlier than) every
item that stays in the heap, and exactly that item is removed. -/
theorem deq_min_then_fifo_model (s s' : State α) (v : α) (h : Inv s)
    (hstep : step s .deq = (s', .item (some v))) :
    ∃ it : Item α, it.val = v ∧ s.items.toList.Perm (it :: s'.items.toList) ∧
      ∀ z ∈ s'.items.toList, it.prio < z.prio ∨ (it.prio = z.prio ∧ it.idx < z.idx) := by
  have hs := step_refines_state s .deq h
  have ho := step_refines_out_exact s .deq h (by simp)
  rw [hstep] at hs ho
  obtain ⟨it, hv, hitems, hlt, _⟩ :=
    SortedQueue.deq_is_min_then_fifo (abs s) (abs s') v (abs_sinv s h)
      (Prod.ext hs ho.symm)
  refine ⟨it, hv, ?_, fun z hz => hlt z (mem_sort.mpr hz)⟩
  have h1 : (sort s.items.toList).Perm (it :: sort s'.items.toList) := by
    have : sort s.items.toList = it :: sort s'.items.toList := hitems
    rw [this]
  exact (sort_perm _).symm.trans (h1.trans ((sort_perm _).cons it))

/-! ## The insertion counter -/

/-- No operation ever decreases `insertionCount` — in particular `Purge` does **not** reset it
(priority.go `Purge` only replaces `internal.items`). -/
theorem insertionCount_mono (s : State α) (op : Op α) :
    s.insertionCount ≤ (step s op).1.insertionCount := by
  cases op with
  | enq x p =>
    by_cases hc : s.closed = true
    · rw [step_enq_closed _ _ _ hc]; exact Nat.le_refl _
    · rw [step_enq_open _ _ _ (by simpa using hc)]; exact Nat.le_succ _
  | deq =>
    by_cases he : s.items.size = 0
    · rw [step_deq_empty _ he]; exact Nat.le_refl _
    · rw [step_deq_nonempty _ (by omega)]; exact Nat.le_refl _
  | len => exact Nat.le_refl _
  | values => exact Nat.le_refl _
  | purge => exact Nat.le_refl _
  | close => exact Nat.le_refl _

theorem run_insertionCount_mono (s : State α) (ops : List (Op α)) :
    s.insertionCount ≤ (run s ops).1.insertionCount := by
  induction ops generalizing s with
  | nil => exact Nat.le_refl _
  | cons op ops ih => exact Nat.le_trans (insertionCount_mono s op) (ih _)

/-- Every accepted `Enqueue` stores exactly one new item, stamped with the current counter value,
which is larger than the index of every pending item, and increments the counter.  Together with
`insertionCount_mono` (also across `Purge`): insertion indices are handed out in strictly increasing
acceptance order over the whole life of the queue, so "smallest index" in
`deq_is_min_then_fifo` means "accepted first", also after purge-and-reuse. -/
theorem index_fresh (s : State α) (x : α) (p : Int) (h : Inv s) (hc : s.closed = false) :
    (step s (.enq x p)).2 = .bool true ∧
    (step s (.enq x p)).1.insertionCount = s.insertionCount + 1 ∧
    (step s (.enq x p)).1.items.toList.Perm (⟨x, p, s.insertionCount⟩ :: s.items.toList) ∧
    ∀ it ∈ s.items.toList, it.idx < s.insertionCount := by
  rw [step_enq_open _ _ _ hc]
  exact ⟨rfl, rfl, heapPush_perm _ _, h.bound⟩

/-- `Enqueue` is rejected exactly on a closed queue, and then nothing changes. -/
theorem enq_rejected_iff (s : State α) (x : α) (p : Int) :
    (step s (.enq x p)).2 = .bool false ↔ s.closed = true := by
  by_cases hc : s.closed = true
  · simp [step_enq_closed _ _ _ hc, hc]
  · simp [step_enq_open _ _ _ (by simpa using hc), hc]

theorem enq_rejected_unchanged (s : State α) (x : α) (p : Int) (hc : s.closed = true) :
    (step s (.enq x p)).1 = s := by
  rw [step_enq_closed _ _ _ hc]

/-- A pending item with the same priority as a newly accepted one is strictly before it. -/
theorem fifo_ties (s : State α) (x : α) (p : Int) (h : Inv s) (y : Item α)
    (hy : y ∈ s.items.toList) (hp : y.prio = p) :
    less y ⟨x, p, s.insertionCount⟩ = true := by
  rw [less_iff]; right; exact ⟨hp, h.bound y hy⟩

/-- What the Go code does in `Purge`: empty slice, counter and `closed` kept. -/
theorem step_purge (s : State α) :
    step s .purge = ({ s with items := #[] }, .unit) := by
  simp [step, heapInit_empty]

/-- Remark (counterfactual): on an *empty* heap the invariant holds for every counter value, so a
`Purge` that reset `insertionCount` to 0 would be just as correct — FIFO order among ties only needs
the counter to exceed the indices of the *pending* items.  The Go code does not reset it. -/
theorem inv_empty_any_count (c : Nat) (b : Bool) :
    Inv ({ items := #[], insertionCount := c, closed := b } : State α) :=
  ⟨isHeap_empty, by simp, by simp [IdxNodup]⟩

/-- **FIFO among equal priorities, on the Go model**, from any reachable open state with an empty heap
(a fresh queue, or one that was drained or purged — the counter value is irrelevant): enqueueing `xs`
with the same priority and then dequeueing `|xs|` times yields `xs` in acceptance order. -/
theorem fifo_same_priority (s : State α) (h : Inv s) (hc : s.closed = false)
    (he : s.items = #[]) (p : Int) (xs : List α) :
    (run s (xs.map (fun x => Op.enq x p) ++ List.replicate xs.length Op.deq)).2 =
      xs.map (fun _ => Out.bool true) ++ xs.map (fun x => Out.item (some x)) := by
  rw [run_refines_exact s _ h]
  · exact SortedQueue.fifo_same_priority (abs s) hc (by simp [abs, he, sort]) p xs
  · intro op hop
    simp only [List.mem_append, List.mem_map, List.mem_replicate] at hop
    rcases hop with ⟨x, _, rfl⟩ | ⟨_, rfl⟩ <;> simp

/-! ## Non-vacuity examples

Concrete runs are evaluated by the kernel (`decide +kernel`; no `native_decide`, no extra axiom). -/

section Examples

/-- Negative, equal and extreme (`minInt64`, `maxInt64`) priorities, interleaved dequeues, `Values`
in heap order, `Purge` and reuse, `Close`, rejected `Enqueue`, draining a closed queue. -/
def demoOps : List (Op String) :=
  [.enq "a" 5, .enq "b" (-3), .enq "c" 5, .enq "d" 9223372036854775807,
   .enq "e" (-9223372036854775808), .enq "f" (-3), .len, .values, .deq, .deq,
   .enq "g" (-3), .deq, .deq, .values, .purge, .deq, .len, .enq "h" 0, .enq "i" 0, .enq "j" (-1),
   .deq, .deq, .close, .enq "k" 0, .deq, .deq, .len]

/-- What the Go model returns. -/
example : (run init demoOps).2 =
  [.bool true, .bool true, .bool true, .bool true, .bool true, .bool true, .nat 6,
   .list ["e", "b", "f", "d", "a", "c"],                    -- heap order: "d" (maxInt64) before "a"
   .item (some "e"), .item (some "b"), .bool true,
   .item (some "f"),                                         -- (-3, idx 5) before "g" = (-3, idx 6)
   .item (some "g"), .list ["a", "d", "c"], .unit, .item none, .nat 0,
   .bool true, .bool true, .bool true, .item (some "j"),
   .item (some "h"),                                         -- tie at priority 0 after Purge: FIFO
   .unit, .bool false, .item (some "i"), .item none, .nat 0] := by decide +kernel

/-- What the specification returns: the same except for the order inside the two `Values` results. -/
example : (SortedQueue.run SortedQueue.init demoOps).2 =
  [.bool true, .bool true, .bool true, .bool true, .bool true, .bool true, .nat 6,
   .list ["e", "b", "f", "a", "c", "d"],
   .item (some "e"), .item (some "b"), .bool true, .item (some "f"),
   .item (some "g"), .list ["a", "c", "d"], .unit, .item none, .nat 0,
   .bool true, .bool true, .bool true, .item (some "j"), .item (some "h"),
   .unit, .bool false, .item (some "i"), .item none, .nat 0] := by decide

/-- So plain equality of the output sequences is false here, `OutsEq` is the right statement … -/
example : (run init demoOps).2 ≠ (SortedQueue.run SortedQueue.init demoOps).2 := by decide +kernel
/-- … and it holds (instance of the headline theorem). -/
example : OutsEq (run init demoOps).2 (SortedQueue.run SortedQueue.init demoOps).2 :=
  refines_sorted demoOps

/-- White-box view after the first eight calls: a heap that is not sorted. -/
example : shape (run init (demoOps.take 8)).1 =
    [(-9223372036854775808, 4), (-3, 1), (-3, 5), (9223372036854775807, 3), (5, 0), (5, 2)] := by
  decide +kernel

/-- The counter survives `Purge` (10 accepted enqueues in `demoOps`, one rejected). -/
example : (run init demoOps).1 = { items := #[], insertionCount := 10, closed := true } := by
  decide +kernel

/-- `Inv` holds in non-trivial reachable states (hypothesis of `step_inv`, `step_refines`, …). -/
example : Inv (run init (demoOps.take 8)).1 := run_inv _ _ inv_init
example : (run init (demoOps.take 8)).1.items.size = 6 := by decide +kernel

/-- `Inv` is not trivially true: a duplicated insertion index, an index above the counter, or a
broken heap order violate it. -/
example : ¬ Inv ({ items := #[⟨"a", 0, 0⟩, ⟨"b", 1, 0⟩], insertionCount := 2, closed := false } : State String) :=
  fun h => absurd h.nodup (by unfold IdxNodup; decide)
example : ¬ Inv ({ items := #[⟨"a", 0, 5⟩], insertionCount := 2, closed := false } : State String) :=
  fun h => absurd (h.bound ⟨"a", 0, 5⟩ (by simp)) (by decide)
example : ¬ Inv ({ items := #[⟨"a", 1, 0⟩, ⟨"b", 0, 1⟩], insertionCount := 2, closed := false } : State String) :=
  fun h => absurd h.heap (by decide)

/-- `refines_sorted_exact`: a `Values`-free sequence, outputs literally equal. -/
example : (run init (demoOps.filter (· ≠ .values))).2 =
    (SortedQueue.run SortedQueue.init (demoOps.filter (· ≠ .values))).2 :=
  refines_sorted_exact _ (by decide)

/-- `deq_is_min_then_fifo`: hypotheses instantiated on the specification state reached by the first
eight calls (six pending items); the dequeued value is "e" (priority `minInt64`). -/
example : ∃ it : Item String, it.val = "e" ∧
    ∀ z ∈ (SortedQueue.run SortedQueue.init (demoOps.take 8)).1.items,
      it.prio ≤ z.prio ∧ (z.prio = it.prio → it.idx ≤ z.idx) := by
  obtain ⟨it, hv, _, _, hmin⟩ :=
    SortedQueue.deq_is_min_then_fifo (SortedQueue.run SortedQueue.init (demoOps.take 8)).1 _ "e"
      (SortedQueue.run_sinv _ _ SortedQueue.sinv_init) (Prod.ext rfl (by decide))
  exact ⟨it, hv, hmin⟩

/-- `fifo_same_priority` on a fresh queue and on a purged one (counter at 3). -/
example : (run (init : State String)
      ([.enq "x" 7, .enq "y" 7, .enq "z" 7] ++ [.deq, .deq, .deq])).2 =
    [.bool true, .bool true, .bool true, .item (some "x"), .item (some "y"), .item (some "z")] :=
  fifo_same_priority init inv_init rfl (by simp [init, heapInit_empty]) 7 ["x", "y", "z"]
example : (run (run (init : State String) [.enq "p" 1, .enq "q" 0, .enq "r" 2, .purge]).1
      ([.enq "x" (-7), .enq "y" (-7)] ++ [.deq, .deq])).2 =
    [.bool true, .bool true, .item (some "x"), .item (some "y")] :=
  fifo_same_priority _ (run_inv _ _ inv_init) (by decide +kernel) (by decide +kernel) (-7) ["x", "y"]

end Examples

/-! ## Axiom audit (allowed: `propext`, `Classical.choice`, `Quot.sound`) -/

#print axioms inv_init
#print axioms step_inv
#print axioms step_refines
#print axioms step_refines_out_exact
#print axioms step_refines_values
#print axioms run_refines
#print axioms refines_sorted
#print axioms refines_sorted_exact
#print axioms refines_sorted_state
#print axioms SortedQueue.deq_is_min_then_fifo
#print axioms deq_min_then_fifo_model
#print axioms insertionCount_mono
#print axioms index_fresh
#print axioms fifo_ties
#print axioms fifo_same_priority
#print axioms inv_empty_any_count

end PQ
end VarmqVerif
