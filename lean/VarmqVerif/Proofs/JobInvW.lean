/-
  Preservation of layer 4 (`InvW`, the batch wait group) of the `Job` invariant.
-/
import VarmqVerif.Proofs.JobLemmas
namespace VarmqVerif
namespace Job

/-- `WgList` only depends on who owes a wg.Done for `b` and on `wg`, `count` of `b`. -/
theorem WgList.congr {s s' : State} {b : Nat} {L : List Nat} (h : WgList s b L)
    (h1 : ∀ g, (s'.loc g).owesWg = some b ↔ (s.loc g).owesWg = some b)
    (h2 : (s'.batches b).wg = (s.batches b).wg) (h3 : (s'.batches b).count = (s.batches b).count) :
    WgList s' b L := by
  obtain ⟨hn, hm, hw⟩ := h
  exact ⟨hn, fun g => by rw [h1]; exact hm g, by rw [h2, h3]; exact hw⟩

/-- Events that touch neither `owesWg` nor `wg`, `count`, `exist` of any batch. -/
theorem InvW.frame {s s' : State} (I : InvW s)
    (h1 : ∀ g, (s'.loc g).owesWg = (s.loc g).owesWg)
    (h2 : ∀ b, (s'.batches b).wg = (s.batches b).wg ∧ (s'.batches b).count = (s.batches b).count ∧
      (s'.batches b).exist = (s.batches b).exist) : InvW s' := by
  constructor
  · intro g b h
    rw [h1] at h
    rw [(h2 b).2.2]
    exact I.wg_exist g b h
  · intro b
    obtain ⟨L, hL⟩ := I.wg_list b
    exact ⟨L, hL.congr (fun g => by rw [h1]) (h2 b).1 (h2 b).2.1⟩

set_option maxHeartbeats 1000000 in
theorem InvW.step {s s' : State} {e : Ev} (D : InvD s) (B : InvB s) (I : InvW s) (h : step s e = .ok s') : InvW s' := by
  have d1 := D.cnt
  have b1 := B.jb
  clear D B
  cases e
  case newBatch g b n ch =>
    obtain ⟨i1, i2⟩ := I
    step_cases h
    all_goals
      refine ⟨by grind [upd], fun b' => ?_⟩
      obtain ⟨L, hL⟩ := i2 b'
      by_cases hb : b' = b
      · subst hb
        refine ⟨[], by simp, ?_, by simp [upd]⟩
        intro g'
        have := i1 g' b'
        grind [upd]
      · exact ⟨L, hL.congr (by grind [upd]) (by grind [upd]) (by grind [upd])⟩
  case casCount g b old ok =>
    obtain ⟨i1, i2⟩ := I
    step_cases h
    all_goals
      refine ⟨by grind [upd], fun b' => ?_⟩
      obtain ⟨L, hn, hm, hw⟩ := i2 b'
    -- the successful CAS (twice: `old = 1` or not); the failed CAS is a frame step
    iterate 2
      · by_cases hb : b' = b
        · subst hb
          refine ⟨g :: L, ?_, ?_, ?_⟩
          · grind
          · intro g'; have := hm g'; grind [upd]
          · grind [upd]
        · exact ⟨L, hn, by (intro g'; have := hm g'; grind [upd]), by grind [upd]⟩
    · exact ⟨L, hn, by (intro g'; have := hm g'; grind [upd]), by grind [upd]⟩
  case wgDoneB g b =>
    obtain ⟨i1, i2⟩ := I
    step_cases h
    all_goals
      refine ⟨by grind [upd], fun b' => ?_⟩
      obtain ⟨L, hn, hm, hw⟩ := i2 b'
    · -- wg = 0: impossible, `g` is in the list
      by_cases hb : b' = b
      · subst hb
        have := (hm g).2 (by assumption)
        have := List.length_pos_of_mem this
        grind
      · exact ⟨L, hn, by (intro g'; have := hm g'; grind [upd]), by grind [upd]⟩
    · by_cases hb : b' = b
      · subst hb
        have hg := (hm g).2 (by assumption)
        refine ⟨L.erase g, hn.erase g, ?_, ?_⟩
        · intro g'; have := hm g'; rw [hn.mem_erase_iff]; grind [upd]
        · have := List.length_erase_of_mem hg
          have := List.length_pos_of_mem hg
          grind [upd]
      · exact ⟨L, hn, by (intro g'; have := hm g'; grind [upd]), by grind [upd]⟩
  all_goals (step_cases h <;> first | exact I | (apply I.frame <;> grind [upd, setSt]) | skip)

end Job
end VarmqVerif
