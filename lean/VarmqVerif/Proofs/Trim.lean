/-
  Theorems about the model `Trim` (Model/Trim.lean): how many workers the pool keeps.

  For every state reachable with the one-step shrink (`Reach false`):
    * `inv_reach`                     the inductive invariant `J`
    * `idle_worker_kept`              running ∧ nobody out of the list → 1 ≤ idle
    * `never_empty_handed`            running → an idle worker or a worker that is out
  About a single step:
    * `tune_keeps_minimum`            PopBackIfLonger(m) leaves at least m ≥ 1 idle workers
  The defect of the two-step shrink (code before c42df87), as a theorem about `Reach true`:
    * `old_shrink_can_empty_the_pool` a running pool with nobody out and an empty idle list (`oldRun`)
  Non-vacuity: `newRun` is accepted by the current code, `.tuneLookOld` is rejected by it, a worker
  that saw an empty list cannot retire.

  Invariant: a running pool has an idle worker, or somebody is out of the list who either has to look
  (again) before it may retire, or saw an empty list and therefore has to push itself back.
-/
import VarmqVerif.Model.Trim

namespace VarmqVerif
namespace Trim

/-! ## The invariant -/

def J (s : State) : Prop :=
  s.running = true →
    1 ≤ s.idle ∨ ∃ g, s.busy g = true ∧ (s.seen g = none ∨ s.seen g = some 0)

theorem J_init : J init := by
  intro hr
  simp [init] at hr

theorem J_step {s s' : State} (e : Ev) (hJ : J s) (h : step false s e = .ok s') : J s' := by
  cases e with
  | start =>
    simp only [step] at h
    split at h
    · cases h
    · cases h
      intro _
      exact Or.inl (by simp)
  | take g =>
    simp only [step] at h
    split at h
    · cases h
    · split at h
      · cases h
      · cases h
        intro _
        exact Or.inr ⟨g, by simp, Or.inl (by simp)⟩
  | create g =>
    simp only [step] at h
    split at h
    · cases h
    · cases h
      intro _
      exact Or.inr ⟨g, by simp, Or.inl (by simp)⟩
  | look g =>
    simp only [step] at h
    split at h
    · cases h
    · rename_i hb
      cases h
      intro _
      by_cases h0 : s.idle = 0
      · refine Or.inr ⟨g, ?_, Or.inr ?_⟩
        · simpa using hb
        · simp [h0]
      · exact Or.inl (by show 1 ≤ s.idle; omega)
  | keep g =>
    simp only [step] at h
    split at h
    · cases h
    · split at h
      · cases h
      · cases h
        intro _
        exact Or.inl (by simp)
  | retire g =>
    simp only [step] at h
    split at h
    · cases h
    · split at h
      · cases h
      · split at h
        · rename_i n hn
          split at h
          · cases h
          · rename_i hn0
            cases h
            intro hr
            rcases hJ hr with hi | ⟨g', hb', hs'⟩
            · exact Or.inl hi
            · have hne : g' ≠ g := by
                intro heq
                subst heq
                rcases hs' with hs' | hs'
                · rw [hs'] at hn; cases hn
                · rw [hs'] at hn
                  cases hn
                  simp at hn0
              refine Or.inr ⟨g', ?_, ?_⟩
              · simp [upd_other _ _ _ _ hne, hb']
              · simpa [upd_other _ _ _ _ hne] using hs'
        · cases h
  | tune m =>
    simp only [step] at h
    split at h
    · cases h
    · rename_i hm
      split at h
      · cases h
      · rename_i hle
        cases h
        intro _
        have : m ≠ 0 := by simpa using hm
        exact Or.inl (by show 1 ≤ s.idle - 1; omega)
  | stopAll =>
    simp only [step] at h
    split at h
    · cases h
    · cases h
      intro hr
      simp at hr
  | tuneLookOld g =>
    simp [step] at h
  | tunePopOld g m =>
    simp [step] at h

theorem inv_reach {s : State} (h : Reach false s) : J s := by
  induction h with
  | init => exact J_init
  | step e _ hs ih => exact J_step e ih hs

/-! ## The theorems about the current code -/

/-- with the one-step shrink: a running pool in which no worker is out of the idle list has at
    least one idle worker -/
theorem idle_worker_kept {s : State} (h : Reach false s) (hr : s.running = true)
    (hq : ∀ g, s.busy g = false) : 1 ≤ s.idle := by
  rcases inv_reach h hr with hi | ⟨g, hb, _⟩
  · exact hi
  · rw [hq g] at hb
    cases hb

/-- a running pool always has a worker: idle or out -/
theorem never_empty_handed {s : State} (h : Reach false s) (hr : s.running = true) :
    1 ≤ s.idle ∨ ∃ g, s.busy g = true := by
  rcases inv_reach h hr with hi | ⟨g, hb, _⟩
  · exact Or.inl hi
  · exact Or.inr ⟨g, hb⟩

/-- the one-step shrink never takes the list below the minimum it was given -/
theorem tune_keeps_minimum {s s' : State} {m : Nat} (h : step false s (.tune m) = .ok s') :
    m ≤ s'.idle ∧ 1 ≤ s'.idle := by
  simp only [step] at h
  split at h
  · cases h
  · rename_i hm
    split at h
    · cases h
    · rename_i hle
      cases h
      have : m ≠ 0 := by simpa using hm
      show m ≤ s.idle - 1 ∧ 1 ≤ s.idle - 1
      omega

/-! ## Concrete runs -/

theorem reach_run {old : Bool} {s s' : State} {es : List Ev} (h : Reach old s)
    (hrun : run old s es = .ok s') : Reach old s' := by
  induction es generalizing s with
  | nil =>
    simp only [run] at hrun
    cases hrun
    exact h
  | cons e es ih =>
    simp only [run] at hrun
    split at hrun
    · rename_i s1 hs1
      exact ih (Reach.step e h hs1) hrun
    · cases hrun

/-- the run that empties the pool with the two-step shrink: the tuner looks (2 idle), a worker is taken,
    finishes, sees 1 idle worker and retires, then the tuner pops the last one -/
def oldRun : List Ev :=
  [.start, .take 1, .create 2, .keep 1, .keep 2, .tuneLookOld 9, .take 3, .look 3, .retire 3,
   .tunePopOld 9 1]

/-- the final state of `oldRun` -/
def oldEnd : State :=
  { running := true, idle := 0, out := 0, nBusy := 0,
    seen := upd (upd (upd (upd (upd (upd (upd (upd (fun _ => none) 1 none) 2 none) 1 none) 2 none)
              9 (some 2)) 3 none) 3 (some 1)) 3 none |> fun f => upd f 9 none,
    busy := upd (upd (upd (upd (upd (fun _ => false) 1 true) 2 true) 1 false) 2 false) 3 true
              |> fun f => upd f 3 false }

theorem oldRun_ok : run true init oldRun = .ok oldEnd := by
  simp [oldRun, oldEnd, run, step, init]

theorem oldEnd_nobody_busy (g : Nat) : oldEnd.busy g = false := by
  simp only [oldEnd, upd]
  repeat' split
  all_goals rfl

/-- the defect of the two-step shrink: a running pool with nobody out and an empty idle list -/
theorem old_shrink_can_empty_the_pool :
    ∃ s, Reach true s ∧ s.running = true ∧ (∀ g, s.busy g = false) ∧ s.idle = 0 :=
  ⟨oldEnd, reach_run Reach.init oldRun_ok, rfl, oldEnd_nobody_busy, rfl⟩

/-! ## Non-vacuity -/

/-- what the examples look at.  `State` has function fields, so it has no `DecidableEq`; project. -/
structure View where
  running : Bool
  idle : Nat
  out : Nat
  nBusy : Nat
  busy : List Bool          -- goroutines 0 … 9
  deriving DecidableEq, Repr

def view (s : State) : View :=
  { running := s.running, idle := s.idle, out := s.out, nBusy := s.nBusy,
    busy := (List.range 10).map s.busy }

def viewOf : Except String State → Option View
  | .ok s => some (view s)
  | .error _ => none

def accepted : Except String State → Bool
  | .ok _ => true
  | .error _ => false

def newRun : List Ev := [.start, .take 1, .create 2, .keep 1, .keep 2, .tune 1]

/-- (a) the current code accepts the same prefix followed by a one-step shrink, and keeps a worker -/
example : viewOf (run false init newRun) =
    some { running := true, idle := 1, out := 0, nBusy := 0, busy := List.replicate 10 false } := by
  decide

/-- (a'), for every goroutine: nobody is busy at the end of `newRun` -/
example : ∃ s, run false init newRun = .ok s ∧ Reach false s ∧ s.running = true ∧ s.idle = 1 ∧
    ∀ g, s.busy g = false := by
  let s : State :=
    { running := true, idle := 1, out := 0, nBusy := 0,
      seen := upd (upd (upd (upd (fun _ => none) 1 none) 2 none) 1 none) 2 none,
      busy := upd (upd (upd (upd (fun _ => false) 1 true) 2 true) 1 false) 2 false }
  have hrun : run false init newRun = .ok s := by
    simp [s, newRun, run, step, init]
  refine ⟨s, hrun, reach_run Reach.init hrun, rfl, rfl, ?_⟩
  intro g
  simp only [s, upd]
  repeat' split
  all_goals rfl

/-- (b) the current code has no two-step shrink -/
example (s : State) : accepted (step false s (.tuneLookOld 9)) = false := by
  simp [step, accepted]

example : accepted (run false init [.start, .take 1, .create 2, .keep 1, .keep 2, .tuneLookOld 9]) = false := by
  decide

/-- … and `oldRun` is accepted only by the old code -/
example : accepted (run true init oldRun) = true ∧ accepted (run false init oldRun) = false := by
  decide

/-- (c) a worker that saw an empty list cannot retire -/
example : accepted (run false init [.start, .take 1, .look 1]) = true ∧
    accepted (run false init [.start, .take 1, .look 1, .retire 1]) = false := by
  decide

example (s s1 : State) (g : Nat) (h : step false s (.look g) = .ok s1) (h0 : s.idle = 0) :
    accepted (step false s1 (.retire g)) = false := by
  simp only [step] at h
  split at h
  · cases h
  · cases h
    simp only [step, upd_same, h0]
    repeat' split
    all_goals first | rfl | (rename_i hc; exact absurd rfl hc)

/-- … while a worker that saw an idle worker may -/
example : viewOf (run false init [.start, .take 1, .create 2, .keep 1, .look 2, .retire 2]) =
    some { running := true, idle := 1, out := 0, nBusy := 0, busy := List.replicate 10 false } := by
  decide

end Trim
end VarmqVerif
