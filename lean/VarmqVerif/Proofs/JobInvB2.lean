/-
  Preservation of layer 3 (`InvB`, structure of batches) of the `Job` invariant, second half of
  the events.
-/
import VarmqVerif.Proofs.JobLemmas

namespace VarmqVerif
namespace Job

set_option maxHeartbeats 1000000 in
theorem InvB.step_late {s s' : State} {e : Ev} (J : InvJ s) (D : InvD s) (I : InvB s)
    (he : e.early = false) (h : step s e = .ok s') : InvB s' := by
  have j1 := J.head
  have d1 := D.owes
  have d2 := D.cnt
  clear J D
  obtain ⟨a1, a2, a3, a4, a5, a6, a7⟩ := I
  cases e <;> simp [Ev.early] at he <;> step_cases h <;> constructor <;>
    first | assumption | grind [upd, setSt] | grind (instances := 4000) [upd, setSt]

end Job
end VarmqVerif
