/-
  Theorems about the metrics model `Metr` (Model/Metr.lean).

  For every reachable state (any number of goroutines and events):
    * `census`           the conservation laws: each real counter plus the goroutines that are past
                         the event but before the increment equals the ghost history counter
    * `ordering`         Completed ≤ Successful + Failed ≤ finished ≤ started invocations,
                         Failed ≤ failed invocations, Successful ≤ successful invocations,
                         Submitted ≤ accepted
    * `census_phases`    the ghost census really counts the goroutines in each phase
                         (`census_support` is the full statement with the support list)
    * `at_rest_exact`    at rest all the inequalities are equalities (`atRest_iff`: at rest ⇔ the
                         census is 0)
    * `read_exact`, `counters_monotone`   one step: a load returns the counter, counters never drop
    * `*_enabled`        the "ghost counter is 0" guards of `step` are dead
  The inductive invariants are `Cen` and `Sup` in Proofs/MetrLemmas.lean.
  All statements were true for the model as written; no guard of `step` had to be changed.
-/
import VarmqVerif.Proofs.MetrLemmas

namespace VarmqVerif
namespace Metr

/-! ## Helpers for concrete traces -/

/-- what the examples look at.  `State` has function fields, so it has no `DecidableEq`; project. -/
structure View where
  sub : Nat
  comp : Nat
  succ : Nat
  fail : Nat
  deriving DecidableEq, Repr

def view (s : State) : View := ⟨s.sub, s.comp, s.succ, s.fail⟩

/-- the ghost census -/
structure Census where
  nOwes : Nat
  nRunning : Nat
  nExited : Nat
  nExitedBad : Nat
  nCounted : Nat
  deriving DecidableEq, Repr

def censusOf (s : State) : Census := ⟨s.nOwes, s.nRunning, s.nExited, s.nExitedBad, s.nCounted⟩

/-- the ghost history -/
structure History where
  accepted : Nat
  entered : Nat
  exited : Nat
  exitedBad : Nat
  deriving DecidableEq, Repr

def historyOf (s : State) : History := ⟨s.accepted, s.entered, s.exited, s.exitedBad⟩

def runProj {α : Type} (f : State → α) (evs : List Ev) : Option α :=
  match run init evs with
  | .ok s => some (f s)
  | .error _ => none

theorem reach_of_runProj {α : Type} {f : State → α} {evs : List Ev} {x : α}
    (h : runProj f evs = some x) : ∃ s, Reach s ∧ run init evs = .ok s ∧ f s = x := by
  unfold runProj at h
  split at h
  · rename_i s hs
    exact ⟨s, reach_run Reach.init hs, hs, by simpa using h⟩
  · cases h

/-! ## 1. The conservation laws -/

theorem census (s : State) (h : Reach s) :
    s.comp + s.nCounted = s.succ + s.fail ∧ s.succ + s.fail + s.nExited = s.exited ∧ s.exited + s.nRunning = s.entered ∧
    s.fail + s.nExitedBad = s.exitedBad ∧ s.sub + s.nOwes = s.accepted :=
  reach_cen h

/-! ## 3. The census counts the goroutines -/

/-- the full link between the ghost census and the per-goroutine data: a duplicate-free support list
    outside of which every goroutine is idle and owes nothing, and the census entries are the numbers
    of goroutines of the list in the respective phase / the sum of `owes` -/
theorem census_support (s : State) (h : Reach s) :
    ∃ l : List Nat, l.Nodup ∧ (∀ g, g ∉ l → s.ph g = .idle ∧ s.owes g = 0) ∧
      (l.filter (fun g => s.ph g = .running)).length = s.nRunning ∧
      (l.filter (fun g => s.ph g = .exited false ∨ s.ph g = .exited true)).length = s.nExited ∧
      (l.filter (fun g => s.ph g = .exited true)).length = s.nExitedBad ∧
      (l.filter (fun g => s.ph g = .counted)).length = s.nCounted ∧
      (l.map s.owes).sum = s.nOwes := by
  obtain ⟨l, hs⟩ := reach_sup h
  have key : ∀ (w : Ph → Nat) (p : Ph → Bool), (∀ x, w x = if p x then 1 else 0) →
      ∀ t : List Nat, (t.filter (fun g => p (s.ph g))).length = sumOn w s.ph t := by
    intro w p hw t
    induction t with
    | nil => rfl
    | cons a t ih =>
      simp only [sumOn_cons, List.filter_cons, hw (s.ph a)]
      cases p (s.ph a) <;> simp [ih, Nat.add_comm]
  refine ⟨l, hs.nodup, hs.out, ?_, ?_, ?_, ?_, ?_⟩
  · rw [← hs.run, ← key wRun (fun x => x = .running) (fun x => by cases x <;> simp [wRun])]
  · rw [← hs.ex, ← key wEx (fun x => x = .exited false ∨ x = .exited true)
      (fun x => by rcases x with _ | _ | b | _ <;> first | cases b <;> simp [wEx] | simp [wEx])]
  · rw [← hs.bad, ← key wBad (fun x => x = .exited true)
      (fun x => by rcases x with _ | _ | b | _ <;> first | cases b <;> simp [wBad] | simp [wBad])]
  · rw [← hs.cnt, ← key wCnt (fun x => x = .counted) (fun x => by cases x <;> simp [wCnt])]
  · rw [← hs.owe]; rfl

theorem census_phases (s : State) (h : Reach s) :
    (s.nRunning = 0 ↔ ∀ g, s.ph g ≠ .running) ∧ (s.nExited = 0 ↔ ∀ g b, s.ph g ≠ .exited b) ∧
    (s.nCounted = 0 ↔ ∀ g, s.ph g ≠ .counted) ∧ (s.nOwes = 0 ↔ ∀ g, s.owes g = 0) := by
  obtain ⟨l, hs⟩ := reach_sup h
  refine ⟨?_, ?_, ?_, sup_owes_zero_iff hs⟩
  · rw [← hs.run, sup_zero_iff hs wRun rfl]
    exact forall_congr' fun g => wRun_eq_zero_iff _
  · rw [← hs.ex, sup_zero_iff hs wEx rfl]
    exact forall_congr' fun g => wEx_eq_zero_iff _
  · rw [← hs.cnt, sup_zero_iff hs wCnt rfl]
    exact forall_congr' fun g => wCnt_eq_zero_iff _

theorem nExitedBad_le_nExited (s : State) (h : Reach s) : s.nExitedBad ≤ s.nExited := by
  obtain ⟨l, hs⟩ := reach_sup h
  exact sup_bad_le_ex hs

theorem nExitedBad_eq_zero_iff (s : State) (h : Reach s) : s.nExitedBad = 0 ↔ ∀ g, s.ph g ≠ .exited true := by
  obtain ⟨l, hs⟩ := reach_sup h
  rw [← hs.bad, sup_zero_iff hs wBad rfl]
  refine forall_congr' fun g => ?_
  rcases s.ph g with _ | _ | b | _ <;> first | cases b <;> simp [wBad] | simp [wBad]

/-! ## 2. The order of the counters -/

theorem ordering (s : State) (h : Reach s) :
    s.comp ≤ s.succ + s.fail ∧ s.succ + s.fail ≤ s.exited ∧ s.exited ≤ s.entered ∧ s.fail ≤ s.exitedBad ∧
    s.succ + s.exitedBad ≤ s.exited + s.fail ∧ s.sub ≤ s.accepted := by
  have hc := census s h
  have hb := nExitedBad_le_nExited s h
  omega

/-! ## 4. At rest the counters are exact -/

/-- at rest ⇔ the ghost census is 0 -/
theorem atRest_iff (s : State) (h : Reach s) :
    AtRest s ↔ s.nRunning = 0 ∧ s.nExited = 0 ∧ s.nCounted = 0 ∧ s.nOwes = 0 := by
  obtain ⟨h1, h2, h3, h4⟩ := census_phases s h
  constructor
  · intro ⟨hp, ho⟩
    exact ⟨h1.mpr fun g => by simp [hp g], h2.mpr fun g b => by simp [hp g], h3.mpr fun g => by simp [hp g], h4.mpr ho⟩
  · intro ⟨a1, a2, a3, a4⟩
    refine ⟨fun g => ?_, h4.mp a4⟩
    have b1 := h1.mp a1 g
    have b2 := h2.mp a2 g
    have b3 := h3.mp a3 g
    cases hp : s.ph g with
    | idle => rfl
    | running => exact absurd hp b1
    | exited b => exact absurd hp (b2 b)
    | counted => exact absurd hp b3

theorem at_rest_exact (s : State) (h : Reach s) (hr : AtRest s) :
    s.comp = s.succ + s.fail ∧ s.succ + s.fail = s.exited ∧ s.exited = s.entered ∧ s.fail = s.exitedBad ∧ s.sub = s.accepted := by
  have hc := census s h
  have hb := nExitedBad_le_nExited s h
  have hz := (atRest_iff s h).mp hr
  omega

/-! ## 5./6. One step -/

theorem read_exact (s s' : State) (c : Ctr) (v : Nat) (h : step s (.ld c v) = .ok s') : v = s.ctr c ∧ s' = s := by
  simp only [step] at h
  split at h
  · cases h
  · rename_i hv
    injection h with h
    exact ⟨by simpa using hv, h.symm⟩

theorem counters_monotone (s s' : State) (e : Ev) (h : step s e = .ok s') :
    s.sub ≤ s'.sub ∧ s.comp ≤ s'.comp ∧ s.succ ≤ s'.succ ∧ s.fail ≤ s'.fail := by
  cases e <;> step_cases h <;> simp

/-- along a run the counters never drop -/
theorem counters_monotone_run (s s' : State) (es : List Ev) (h : run s es = .ok s') :
    s.sub ≤ s'.sub ∧ s.comp ≤ s'.comp ∧ s.succ ≤ s'.succ ∧ s.fail ≤ s'.fail := by
  induction es generalizing s with
  | nil => simp only [run] at h; cases h; simp
  | cons e es ih =>
    simp only [run] at h
    split at h
    · rename_i s1 h1
      have a := counters_monotone s s1 e h1
      have b := ih s1 h
      omega
    · cases h

/-! ## The ghost guards are dead -/

theorem owes_le_nOwes (s : State) (h : Reach s) (g : Nat) : s.owes g ≤ s.nOwes := by
  obtain ⟨l, hs⟩ := reach_sup h
  by_cases hg : g ∈ l
  · have := le_sumOn_of_mem id s.owes g l hg
    have := hs.owe
    simp only [id] at *
    omega
  · have := (hs.out g hg).2
    omega

/-- incSubmitted by a goroutine that owes one is enabled (with the value the counter dictates) -/
theorem incSub_enabled (s : State) (h : Reach s) (g : Nat) (ho : s.owes g ≠ 0) :
    ∃ s', step s (.incSub g (s.sub + 1)) = .ok s' := by
  have := owes_le_nOwes s h g
  have hn : s.nOwes ≠ 0 := by omega
  simp [step, ho, hn]

theorem exit_enabled (s : State) (h : Reach s) (g : Nat) (bad : Bool) (hp : s.ph g = .running) :
    ∃ s', step s (.exit g bad) = .ok s' := by
  have hn : s.nRunning ≠ 0 := fun h0 => (census_phases s h).1.mp h0 g hp
  simp [step, hp, hn]

theorem incSucc_enabled (s : State) (h : Reach s) (g : Nat) (hp : s.ph g = .exited false) :
    ∃ s', step s (.incSucc g (s.succ + 1)) = .ok s' := by
  have hn : s.nExited ≠ 0 := fun h0 => (census_phases s h).2.1.mp h0 g false hp
  simp [step, hp, hn]

theorem incFail_enabled (s : State) (h : Reach s) (g : Nat) (hp : s.ph g = .exited true) :
    ∃ s', step s (.incFail g (s.fail + 1)) = .ok s' := by
  have hn : s.nExited ≠ 0 := fun h0 => (census_phases s h).2.1.mp h0 g true hp
  have hb : s.nExitedBad ≠ 0 := fun h0 => (nExitedBad_eq_zero_iff s h).mp h0 g hp
  simp [step, hp, hn, hb]

theorem incComp_enabled (s : State) (h : Reach s) (g : Nat) (hp : s.ph g = .counted) :
    ∃ s', step s (.incComp g (s.comp + 1)) = .ok s' := by
  have hn : s.nCounted ≠ 0 := fun h0 => (census_phases s h).2.2.1.mp h0 g hp
  simp [step, hp, hn]

/-! ## 7. Non-vacuity -/

/-- two submissions by goroutine 5, two workers 1 and 2: job of 1 succeeds, job of 2 fails -/
def exTwoJobs : List Ev := [
  .enqOk 5, .incSub 5 1, .enqOk 5, .enter 1, .incSub 5 2, .enter 2,
  .exit 2 true, .exit 1 false, .incFail 2 1, .incSucc 1 1, .incComp 1 1, .ld .comp 1, .incComp 2 2,
  .ld .sub 2, .ld .comp 2, .ld .succ 1, .ld .fail 1]

example : exTwoJobs.length = 17 := rfl
-- 3: two accepted, one counted as submitted
example : runProj (fun s => (view s, censusOf s)) (exTwoJobs.take 3) = some (⟨1, 0, 0, 0⟩, ⟨1, 0, 0, 0, 0⟩) := by decide
-- 8: both worker functions have returned, nothing is counted yet
example : runProj (fun s => (view s, censusOf s, historyOf s)) (exTwoJobs.take 8)
    = some (⟨2, 0, 0, 0⟩, ⟨0, 0, 2, 1, 0⟩, ⟨2, 2, 2, 1⟩) := by decide
-- 10: both jobs counted, none completed
example : runProj (fun s => (view s, censusOf s, s.ph 1, s.ph 2)) (exTwoJobs.take 10)
    = some (⟨2, 0, 1, 1⟩, ⟨0, 0, 0, 0, 2⟩, .counted, .counted) := by decide
-- 17: at rest
example : runProj (fun s => (view s, censusOf s, historyOf s)) exTwoJobs
    = some (⟨2, 2, 1, 1⟩, ⟨0, 0, 0, 0, 0⟩, ⟨2, 2, 2, 1⟩) := by decide

/-- (a) a reachable state that is not at rest, with comp < succ + fail: a job was counted successful
    but is not yet completed -/
example : ∃ s, Reach s ∧ ¬ AtRest s ∧ s.comp < s.succ + s.fail := by
  have h : runProj (fun s => (view s, s.ph 1)) [.enqOk 5, .incSub 5 1, .enter 1, .exit 1 false, .incSucc 1 1]
      = some (⟨1, 0, 1, 0⟩, .counted) := by decide
  obtain ⟨s, hr, _, hv⟩ := reach_of_runProj h
  simp only [view, Prod.mk.injEq, View.mk.injEq] at hv
  obtain ⟨⟨h1, h2, h3, h4⟩, h5⟩ := hv
  refine ⟨s, hr, ?_, by omega⟩
  intro ⟨hp, _⟩
  have := hp 1
  rw [h5] at this
  cases this

/-- (b) a reachable at-rest state after two jobs, one successful, one failed -/
example : ∃ s, Reach s ∧ AtRest s ∧ s.sub = 2 ∧ s.comp = 2 ∧ s.succ = 1 ∧ s.fail = 1 := by
  have h : runProj (fun s => (view s, censusOf s)) exTwoJobs = some (⟨2, 2, 1, 1⟩, ⟨0, 0, 0, 0, 0⟩) := by decide
  obtain ⟨s, hr, _, hv⟩ := reach_of_runProj h
  simp only [view, censusOf, Prod.mk.injEq, View.mk.injEq, Census.mk.injEq] at hv
  obtain ⟨⟨h1, h2, h3, h4⟩, c1, c2, c3, c4, c5⟩ := hv
  exact ⟨s, hr, (atRest_iff s hr).mpr ⟨c2, c3, c5, c1⟩, h1, h2, h3, h4⟩

-- at_rest_exact is not vacuous: in that state the history counters are what the theorem says
example : ∃ s, Reach s ∧ AtRest s ∧ s.entered = 2 ∧ s.exitedBad = 1 ∧ s.accepted = 2 := by
  have h : runProj (fun s => (censusOf s, historyOf s)) exTwoJobs = some (⟨0, 0, 0, 0, 0⟩, ⟨2, 2, 2, 1⟩) := by decide
  obtain ⟨s, hr, _, hv⟩ := reach_of_runProj h
  simp only [historyOf, censusOf, Prod.mk.injEq, Census.mk.injEq, History.mk.injEq] at hv
  obtain ⟨⟨c1, c2, c3, c4, c5⟩, a1, a2, a3, a4⟩ := hv
  exact ⟨s, hr, (atRest_iff s hr).mpr ⟨c2, c3, c5, c1⟩, a2, a4, a1⟩

-- (c) rejected: incCompleted before incSuccessful …
example : runProj view [.enter 1, .exit 1 false, .incComp 1 1] = none := by decide
example : run init [.enter 1, .exit 1 false, .incComp 1 1]
    = .error "incCompleted by a goroutine whose job has not been counted successful or failed" := rfl
-- … incSuccessful for a job that failed or panicked …
example : runProj view [.enter 1, .exit 1 true, .incSucc 1 1] = none := by decide
example : run init [.enter 1, .exit 1 true, .incSucc 1 1]
    = .error "incSuccessful for a job that did not return successfully" := rfl
-- … incFailed for a job that succeeded, a second incCompleted, a worker function entered twice,
-- an incSubmitted nobody owes, a counter that returns a wrong value, a stale read
example : runProj view [.enter 1, .exit 1 false, .incFail 1 1] = none := by decide
example : runProj view [.enter 1, .exit 1 false, .incSucc 1 1, .incComp 1 1, .incComp 1 2] = none := by decide
example : runProj view [.enter 1, .enter 1] = none := by decide
example : runProj view [.enqOk 5, .incSub 6 1] = none := by decide
example : runProj view [.enqOk 5, .incSub 5 1, .incSub 5 2] = none := by decide
example : runProj view [.enqOk 5, .enqOk 6, .incSub 5 1, .incSub 6 1] = none := by decide
example : runProj view [.enqOk 5, .incSub 5 1, .ld .sub 0] = none := by decide
-- the same goroutine may run one job after the other
example : runProj view [.enter 1, .exit 1 false, .incSucc 1 1, .incComp 1 1, .enter 1, .exit 1 true, .incFail 1 1, .incComp 1 2]
    = some ⟨0, 2, 1, 1⟩ := by decide

/-! ## Axioms -/

#print axioms census
#print axioms ordering
#print axioms census_phases
#print axioms census_support
#print axioms at_rest_exact
#print axioms read_exact
#print axioms counters_monotone

end Metr
end VarmqVerif
