/-
  Theorems about the wake-up protocol model `Sig` (Model/Sig.lean): no lost wake-up.

  Main results, for every reachable state (any number of goroutines and events):
    * `no_lost_wakeup`           Dispatchable → token in the channel ∨ a notify() is still owed ∨ the
                                 event loop is active (and will re-evaluate the loop condition)
    * `no_lost_wakeup_witness`   same, naming a goroutine g with `0 < owes g`
    * `asleep_not_dispatchable`, `asleep_characterisation`, `asleep_min_parallel`
    * `owes_sum` (+ `owes_le_nOwes`, `nOwes_eq_zero_iff`, `notify_enabled`): the ghost counter
      `nOwes` is the sum of `owes`; the guard "ghost counter nOwes is 0" of `step` is dead.
  The inductive invariant is `Inv` in Proofs/SigLemmas.lean (`reach_inv`); clause (B) of it is
  exported here as `stale_cur_covered`.
  All statements were true for the model as written; no guard of `step` had to be changed.
-/
import VarmqVerif.Proofs.SigLemmas

namespace VarmqVerif
namespace Sig

/-! ## Helpers for concrete traces -/

/-- what the examples look at: ⟨ws, cur, conc, qlen, tok, nOwes, dph⟩.  `State` has a function
    field, so it has no `DecidableEq`; project. -/
structure View where
  ws : Nat
  cur : Nat
  conc : Nat
  qlen : Nat
  tok : Bool
  nOwes : Nat
  dph : DPh
  deriving DecidableEq, Repr

def view (s : State) : View := ⟨s.ws, s.cur, s.conc, s.qlen, s.tok, s.nOwes, s.dph⟩

def runProj {α : Type} (f : State → α) (c : Nat) (evs : List Ev) : Option α :=
  match run (init c) evs with
  | .ok s => some (f s)
  | .error _ => none

theorem reach_of_runProj {α : Type} {f : State → α} {c : Nat} {evs : List Ev} {x : α}
    (h : runProj f c evs = some x) : ∃ s, Reach s ∧ run (init c) evs = .ok s ∧ f s = x := by
  unfold runProj at h
  split at h
  · rename_i s hs
    exact ⟨s, reach_run (Reach.init c) hs, hs, by simpa using h⟩
  · cases h

/-- a reachable state with a given view -/
theorem reach_of_view {c : Nat} {evs : List Ev} {ws cur conc qlen nOwes : Nat} {tok : Bool} {dph : DPh}
    (h : runProj view c evs = some ⟨ws, cur, conc, qlen, tok, nOwes, dph⟩) :
    ∃ s, Reach s ∧ s.ws = ws ∧ s.cur = cur ∧ s.conc = conc ∧ s.qlen = qlen ∧ s.tok = tok ∧
      s.nOwes = nOwes ∧ s.dph = dph := by
  obtain ⟨s, hr, _, hv⟩ := reach_of_runProj h
  simp only [view, View.mk.injEq] at hv
  exact ⟨s, hr, hv⟩

/-! ## Concrete runs -/

/-- conc = 1.  Start + notify; the event loop wakes, evaluates the condition and reads Len() = 0
    (event 7); before it has parked an Add enqueues and notifies (8, 9: the token is put into the
    empty channel); the loop parks (10), receives that token (11), evaluates again, reserves,
    dequeues, re-evaluates with cur = conc and parks (21). -/
def exOvertaken : List Ev := [
  .stStatus 7 running, .notify 7 true, .recvTok 0, .dStatus 0 running, .dCur 0 0, .dConc 0 1, .dLen 0 0,
  .enq 5, .notify 5 true, .dCur 0 0,
  .recvTok 0, .dStatus 0 running, .dCur 0 0, .dConc 0 1, .dLen 0 1, .dCasOk 0, .dDeq 0,
  .dStatus 0 running, .dCur 0 1, .dConc 0 1, .dCur 0 1]

example : exOvertaken.length = 21 := rfl
-- 7: Len() = 0 was read, the loop is on its way to park, nothing is pending
example : runProj view 1 (exOvertaken.take 7) = some ⟨1, 0, 1, 0, false, 0, .exiting⟩ := by decide
-- 8: overtaken by the enqueue: dispatchable, loop inactive, no token: only the owed notify() covers it
example : runProj view 1 (exOvertaken.take 8) = some ⟨1, 0, 1, 1, false, 1, .exiting⟩ := by decide
-- 9: the notify() put the token into the channel: only the token covers it
example : runProj view 1 (exOvertaken.take 9) = some ⟨1, 0, 1, 1, true, 0, .exiting⟩ := by decide
-- 10: parked with the token pending
example : runProj view 1 (exOvertaken.take 10) = some ⟨1, 0, 1, 1, true, 0, .parked⟩ := by decide
-- 11: woken again: only the activity of the loop covers it
example : runProj view 1 (exOvertaken.take 11) = some ⟨1, 0, 1, 1, false, 0, .fresh⟩ := by decide
-- 17: the item was reserved and dequeued
example : runProj view 1 (exOvertaken.take 17) = some ⟨1, 1, 1, 0, false, 0, .busy⟩ := by decide
-- 21: asleep, saturated, nothing pending
example : runProj view 1 exOvertaken = some ⟨1, 1, 1, 0, false, 0, .parked⟩ := by decide

/-- conc = 2, three items.  The loop dispatches two, finds cur = conc and parks with one item still
    queued: asleep and saturated. -/
def exSaturated : List Ev := [
  .stStatus 7 running, .notify 7 true, .enq 5, .notify 5 false, .enq 5, .notify 5 false, .enq 6, .notify 6 false,
  .recvTok 0, .dStatus 0 running, .dCur 0 0, .dConc 0 2, .dLen 0 3, .dCasOk 0, .dDeq 0,
  .dStatus 0 running, .dCur 0 1, .dConc 0 2, .dLen 0 2, .dCasOk 0, .dDeq 0,
  .dStatus 0 running, .dCur 0 2, .dConc 0 2, .dCur 0 2]

example : exSaturated.length = 25 := rfl
example : runProj view 2 exSaturated = some ⟨1, 2, 2, 1, false, 0, .parked⟩ := by decide

/-- conc = 1, two items.  After dispatching the first the loop loads cur = 1 (event 15); a runner
    releases (16: cur = 0); the loop compares the stale 1 with conc = 1 and leaves (17) although
    cur < conc holds by now.  The state is dispatchable, the loop inactive, the channel empty: the
    runner's owed notify() (18) is what covers it (clause (B) of the invariant). -/
def exStaleCur : List Ev := [
  .stStatus 7 running, .notify 7 true, .enq 5, .notify 5 false, .enq 5, .notify 5 false,
  .recvTok 0, .dStatus 0 running, .dCur 0 0, .dConc 0 1, .dLen 0 2, .dCasOk 0, .dDeq 0,
  .dStatus 0 running, .dCur 0 1, .relX 9 0, .dConc 0 1,
  .notify 9 true, .dCur 0 0, .recvTok 0]

example : exStaleCur.length = 20 := rfl
example : runProj view 1 (exStaleCur.take 15) = some ⟨1, 1, 1, 1, false, 0, .sawCur 1⟩ := by decide
example : runProj view 1 (exStaleCur.take 16) = some ⟨1, 0, 1, 1, false, 1, .sawCur 1⟩ := by decide
example : runProj view 1 (exStaleCur.take 17) = some ⟨1, 0, 1, 1, false, 1, .exiting⟩ := by decide
example : runProj view 1 exStaleCur = some ⟨1, 0, 1, 1, false, 0, .fresh⟩ := by decide

-- rejected: the loop receives while the channel is empty (a wake-up out of nothing) …
example : runProj view 1 [.stStatus 7 running, .enq 5, .recvTok 0] = none := by decide
-- … receives again before it has parked …
example : runProj view 1 [.stStatus 7 running, .notify 7 true, .recvTok 0, .notify 7 true, .recvTok 0] = none := by decide
-- … a send that reports "sent" although the token was already there, or "not sent" on an empty channel
example : runProj view 1 [.notify 7 true, .notify 7 true] = none := by decide
example : runProj view 1 [.notify 7 false] = none := by decide

/-! ## No lost wake-up -/

/-- Whenever the worker is running, a slot is free and a job is pending, either a wake-up token is
    in the channel, or somebody still owes a notify(), or the event loop is active and will
    (re)evaluate its condition. -/
theorem no_lost_wakeup {s : State} (hr : Reach s) (hd : Dispatchable s) :
    s.tok = true ∨ 0 < s.nOwes ∨ s.dph.active = true :=
  (reach_inv hr).1 hd

-- non-vacuity: reachable dispatchable states in which exactly one of the three disjuncts holds
example : ∃ s, Reach s ∧ Dispatchable s ∧ s.tok = false ∧ 0 < s.nOwes ∧ s.dph.active = false := by
  have h : runProj view 1 (exOvertaken.take 8) = some ⟨1, 0, 1, 1, false, 1, .exiting⟩ := by decide
  obtain ⟨s, hr, h1, h2, h3, h4, h5, h6, h7⟩ := reach_of_view h
  exact ⟨s, hr, ⟨h1, by omega, by omega⟩, h5, by omega, by simp [h7, DPh.active]⟩

example : ∃ s, Reach s ∧ Dispatchable s ∧ s.tok = true ∧ s.nOwes = 0 ∧ s.dph.active = false := by
  have h : runProj view 1 (exOvertaken.take 10) = some ⟨1, 0, 1, 1, true, 0, .parked⟩ := by decide
  obtain ⟨s, hr, h1, h2, h3, h4, h5, h6, h7⟩ := reach_of_view h
  exact ⟨s, hr, ⟨h1, by omega, by omega⟩, h5, h6, by simp [h7, DPh.active]⟩

example : ∃ s, Reach s ∧ Dispatchable s ∧ s.tok = false ∧ s.nOwes = 0 ∧ s.dph.active = true := by
  have h : runProj view 1 (exOvertaken.take 11) = some ⟨1, 0, 1, 1, false, 0, .fresh⟩ := by decide
  obtain ⟨s, hr, h1, h2, h3, h4, h5, h6, h7⟩ := reach_of_view h
  exact ⟨s, hr, ⟨h1, by omega, by omega⟩, h5, h6, by simp [h7, DPh.active]⟩

/-- Clause (B) of the invariant: while the event loop holds a loaded value `c` of `cur` that is
    larger than the current `cur`, a token or an owed notify() exists. -/
theorem stale_cur_covered {s : State} {c : Nat} (hr : Reach s) (hp : s.dph = .sawCur c) (hc : s.cur < c) :
    s.tok = true ∨ 0 < s.nOwes := by
  rcases (reach_inv hr).2 c hp with h | h
  · omega
  · exact h

example : ∃ s c, Reach s ∧ s.dph = .sawCur c ∧ s.cur < c ∧ Dispatchable s := by
  have h : runProj view 1 (exStaleCur.take 16) = some ⟨1, 0, 1, 1, false, 1, .sawCur 1⟩ := by decide
  obtain ⟨s, hr, h1, h2, h3, h4, h5, h6, h7⟩ := reach_of_view h
  exact ⟨s, 1, hr, h7, by omega, h1, by omega, by omega⟩

/-! ## At rest -/

theorem asleep_not_dispatchable {s : State} (hr : Reach s) (ha : Asleep s) : ¬ Dispatchable s := by
  intro hd
  obtain ⟨h1, h2, h3⟩ := ha
  rcases no_lost_wakeup hr hd with h | h | h
  · simp [h1] at h
  · omega
  · simp [h3] at h

theorem asleep_characterisation {s : State} (hr : Reach s) (ha : Asleep s) :
    s.ws ≠ running ∨ s.conc ≤ s.cur ∨ s.qlen = 0 := by
  have h := asleep_not_dispatchable hr ha
  unfold Dispatchable at h
  omega

/-- At rest min(pending + in flight, limit) slots are in use: the pool is saturated or nothing is
    pending. -/
theorem asleep_min_parallel {s : State} (hr : Reach s) (ha : Asleep s) (hw : s.ws = running) :
    min (s.cur + s.qlen) s.conc ≤ s.cur := by
  have h := asleep_characterisation hr ha
  omega

-- non-vacuity: asleep while running, saturated with work pending / with nothing pending
example : ∃ s, Reach s ∧ Asleep s ∧ s.ws = running ∧ s.cur = s.conc ∧ 0 < s.qlen := by
  have h : runProj view 2 exSaturated = some ⟨1, 2, 2, 1, false, 0, .parked⟩ := by decide
  obtain ⟨s, hr, h1, h2, h3, h4, h5, h6, h7⟩ := reach_of_view h
  exact ⟨s, hr, ⟨h5, h6, by simp [h7, DPh.active]⟩, h1, by omega, by omega⟩

example : ∃ s, Reach s ∧ Asleep s ∧ s.ws = running ∧ s.cur = s.conc ∧ s.qlen = 0 := by
  have h : runProj view 1 exOvertaken = some ⟨1, 1, 1, 0, false, 0, .parked⟩ := by decide
  obtain ⟨s, hr, h1, h2, h3, h4, h5, h6, h7⟩ := reach_of_view h
  exact ⟨s, hr, ⟨h5, h6, by simp [h7, DPh.active]⟩, h1, by omega, h4⟩

-- asleep on the way to parking (phase `exiting`), slots free, nothing pending
example : ∃ s, Reach s ∧ Asleep s ∧ s.ws = running ∧ s.cur < s.conc ∧ s.qlen = 0 ∧ s.dph = .exiting := by
  have h : runProj view 1 (exOvertaken.take 7) = some ⟨1, 0, 1, 0, false, 0, .exiting⟩ := by decide
  obtain ⟨s, hr, h1, h2, h3, h4, h5, h6, h7⟩ := reach_of_view h
  exact ⟨s, hr, ⟨h5, h6, by simp [h7, DPh.active]⟩, h1, by omega, h4, h7⟩

/-! ## The ghost counters -/

/-- `nOwes` is the sum of `owes` over a finite duplicate-free set of goroutines outside of which
    `owes` is 0. -/
theorem owes_sum {s : State} (hr : Reach s) :
    ∃ l : List Nat, l.Nodup ∧ (∀ g, g ∉ l → s.owes g = 0) ∧ (l.map s.owes).sum = s.nOwes :=
  reach_ghost hr

theorem owes_le_nOwes {s : State} (hr : Reach s) (g : Nat) : s.owes g ≤ s.nOwes := by
  obtain ⟨l, _, h0, hsum⟩ := owes_sum hr
  by_cases hg : g ∈ l
  · have := le_sum_of_mem s.owes g l hg
    omega
  · have := h0 g hg
    omega

theorem exists_pos_of_sum_pos (f : Nat → Nat) (l : List Nat) (h : 0 < (l.map f).sum) : ∃ g, g ∈ l ∧ 0 < f g := by
  induction l with
  | nil => simp at h
  | cons a t ih =>
    simp only [List.map_cons, List.sum_cons] at h
    by_cases ha : 0 < f a
    · exact ⟨a, List.mem_cons_self, ha⟩
    · obtain ⟨g, hg, hp⟩ := ih (by omega)
      exact ⟨g, List.mem_cons_of_mem a hg, hp⟩

theorem nOwes_pos_iff {s : State} (hr : Reach s) : 0 < s.nOwes ↔ ∃ g, 0 < s.owes g := by
  constructor
  · intro h
    obtain ⟨l, _, _, hsum⟩ := owes_sum hr
    obtain ⟨g, _, hp⟩ := exists_pos_of_sum_pos s.owes l (by omega)
    exact ⟨g, hp⟩
  · intro ⟨g, hp⟩
    have := owes_le_nOwes hr g
    omega

theorem nOwes_eq_zero_iff {s : State} (hr : Reach s) : s.nOwes = 0 ↔ ∀ g, s.owes g = 0 := by
  constructor
  · intro h g
    have := owes_le_nOwes hr g
    omega
  · intro h
    apply Classical.byContradiction
    intro hne
    obtain ⟨g, hp⟩ := (nOwes_pos_iff hr).mp (by omega)
    have := h g
    omega

/-- notify() is enabled in every reachable state with the send result the channel dictates: the
    guard "ghost counter nOwes is 0" of `step` is dead. -/
theorem notify_enabled {s : State} (hr : Reach s) (g : Nat) : ∃ s', step s (.notify g (!s.tok)) = .ok s' := by
  have hle := owes_le_nOwes hr g
  simp only [step]
  split
  · rename_i h; cases ht : s.tok <;> simp [ht] at h
  · split
    · exact ⟨_, rfl⟩
    · rename_i h
      have h' : s.owes g ≠ 0 := by simpa using h
      split
      · rename_i hn
        have : s.nOwes = 0 := by simpa using hn
        omega
      · exact ⟨_, rfl⟩

/-- `no_lost_wakeup` naming the goroutine that still has to call notify(). -/
theorem no_lost_wakeup_witness {s : State} (hr : Reach s) (hd : Dispatchable s) :
    s.tok = true ∨ (∃ g, 0 < s.owes g) ∨ s.dph.active = true := by
  rcases no_lost_wakeup hr hd with h | h | h
  · exact .inl h
  · exact .inr (.inl ((nOwes_pos_iff hr).mp h))
  · exact .inr (.inr h)

-- non-vacuity of the ghost link: two goroutines owe three calls
example : runProj (fun s => (s.owes 5, s.owes 6, s.owes 7, s.nOwes)) 1 [.enq 5, .enq 6, .enq 5, .stStatus 7 running, .notify 7 true]
    = some (2, 1, 0, 3) := by decide

/-! ## Axioms -/

#print axioms no_lost_wakeup
#print axioms no_lost_wakeup_witness
#print axioms stale_cur_covered
#print axioms asleep_not_dispatchable
#print axioms asleep_characterisation
#print axioms asleep_min_parallel
#print axioms owes_sum
#print axioms owes_le_nOwes
#print axioms nOwes_pos_iff
#print axioms nOwes_eq_zero_iff
#print axioms notify_enabled

end Sig
end VarmqVerif
