import VarmqVerif.Model.LifeC
/-
  Proofs for model `LifeC` (C14): the concrete lifecycle of worker.go at call granularity, with one
  context listener per run, refines the documented lifecycle machine `Spec.Life.step` extended with
  the configured context (`LifeC.rstep`), for every unbounded interleaving of calls, cancellation of
  the configured context and listener firings.

  `Status()`, `IsRunning()`, `IsPaused()`, `IsStopped()` all read the single field `ws`, so they are
  functions of `ws`; no theorem is needed for them.
-/
namespace VarmqVerif
namespace LifeC
open Spec

/-- reachable-state invariant -/
def Inv (s : State) : Prop :=
  -- without a configured context nothing is ever cancelled and no listener exists
  (s.hasCtx = false → s.cfgCancelled = false ∧ s.runCancelled = false ∧ s.listeners = []) ∧
  -- listeners belong to the current or to an earlier run
  (∀ k ∈ s.listeners, k ≤ s.run) ∧
  -- the listener of the current run is alive as long as the run is running or paused
  (s.hasCtx = true → (s.ws = .running ∨ s.ws = .paused) → s.run ∈ s.listeners) ∧
  -- the run's own cancel function is called by stop() only
  (s.runCancelled = true → s.ws = .stopped) ∧
  -- no listener before the first start
  (s.ws = .initiated → s.listeners = []) ∧
  -- at most one listener per run
  s.listeners.Nodup

def Rel (s : State) (r : Ref) : Prop :=
  s.ws = r.st ∧ s.conc = r.conc ∧ r.cancelled = s.cfgCancelled

theorem inv_init (hc : Bool) (c : Nat) : Inv (init hc c) := by
  simp [Inv, init]

theorem rel_init (hc : Bool) (c : Nat) : Rel (init hc c) (rinit c) := by
  simp [Rel, init, rinit]

/-! ### invariant preservation, one lemma per lifecycle function -/

theorem inv_startRun {s : State} (h : Inv s) : Inv (startRun s).1 := by
  obtain ⟨ws, conc, hasCtx, cfgC, run, runC, ls⟩ := s
  obtain ⟨h1, h2, h3, h4, h5, h6⟩ := h
  simp only at h1 h2 h3 h4 h5 h6
  cases ws <;> cases hasCtx <;> simp_all [startRun, Inv]

theorem inv_pause {s : State} (h : Inv s) : Inv (pause s).1 := by
  obtain ⟨ws, conc, hasCtx, cfgC, run, runC, ls⟩ := s
  obtain ⟨h1, h2, h3, h4, h5, h6⟩ := h
  simp only at h1 h2 h3 h4 h5 h6
  cases ws <;> simp_all [pause, Inv]

theorem inv_stop {s : State} (h : Inv s) : Inv (stop s).1 := by
  obtain ⟨ws, conc, hasCtx, cfgC, run, runC, ls⟩ := s
  obtain ⟨h1, h2, h3, h4, h5, h6⟩ := h
  simp only at h1 h2 h3 h4 h5 h6
  cases ws <;> cases hasCtx <;> simp_all [stop, Inv]

theorem inv_restart {s : State} (h : Inv s) : Inv (restart s).1 := by
  obtain ⟨ws, conc, hasCtx, cfgC, run, runC, ls⟩ := s
  obtain ⟨h1, h2, h3, h4, h5, h6⟩ := h
  simp only at h1 h2 h3 h4 h5 h6
  cases hasCtx
  · simp_all [restart, startRun, Inv]
  · simp only [restart, startRun, Inv]
    simp
    refine ⟨?_, ?_, h6⟩
    · intro k hk; have := h2 k hk; omega
    · intro hk; have := h2 _ hk; omega

theorem inv_resume {s : State} (h : Inv s) : Inv (resume s).1 := by
  have hs := inv_startRun h
  obtain ⟨ws, conc, hasCtx, cfgC, run, runC, ls⟩ := s
  obtain ⟨h1, h2, h3, h4, h5, h6⟩ := h
  simp only at h1 h2 h3 h4 h5 h6
  cases ws
  · simpa [resume] using hs
  all_goals simp_all [resume, Inv]

theorem inv_tune {s : State} (n : Int) (h : Inv s) : Inv (tune s n).1 := by
  unfold tune
  split
  · exact h
  · split
    · exact h
    · exact h

theorem inv_cancelCfg {s : State} (h : Inv s) : Inv { s with cfgCancelled := s.hasCtx } := by
  obtain ⟨ws, conc, hasCtx, cfgC, run, runC, ls⟩ := s
  obtain ⟨h1, h2, h3, h4, h5, h6⟩ := h
  simp only at h1 h2 h3 h4 h5 h6
  cases hasCtx <;> simp_all [Inv]

theorem inv_fire {s s' : State} {k : Nat} {o} (h : Inv s) (hs : step s (.fire k) = some (s', o)) :
    Inv s' := by
  obtain ⟨ws, conc, hasCtx, cfgC, run, runC, ls⟩ := s
  obtain ⟨h1, h2, h3, h4, h5, h6⟩ := h
  simp only at h1 h2 h3 h4 h5 h6
  simp only [step] at hs
  split at hs
  · rename_i hen
    simp at hen
    obtain ⟨hmem, hdone⟩ := hen
    simp at hs
    obtain ⟨rfl, rfl⟩ := hs
    have hnd : (ls.erase k).Nodup := h6.erase k
    have hsub : ∀ j ∈ ls.erase k, j ≤ run := fun j hj => h2 j (List.mem_of_mem_erase hj)
    by_cases hk : k = run
    · subst hk
      cases hasCtx
      · simp_all
      · cases ws <;> simp_all [stop, Inv]
    · have hkeep : run ∈ ls → run ∈ ls.erase k := fun hm => (List.mem_erase_of_ne (Ne.symm hk)).2 hm
      cases hasCtx
      · simp_all
      · cases ws <;> simp_all [Inv]
  · simp at hs

theorem inv_step {s s' : State} {e : Ev} {o} (h : Inv s) (hs : step s e = some (s', o)) : Inv s' := by
  cases e with
  | fire k => exact inv_fire h hs
  | cancelCfg =>
    simp [step] at hs
    obtain ⟨rfl, rfl⟩ := hs
    exact inv_cancelCfg h
  | call c =>
    cases c <;> simp [step] at hs <;> obtain ⟨rfl, rfl⟩ := hs <;>
      first
        | exact h
        | exact inv_startRun h
        | exact inv_pause h
        | exact inv_stop h
        | exact inv_restart h
        | exact inv_resume h
        | exact inv_tune _ h

/-! ### refinement of the documented machine -/

theorem call_refines {s s' : State} {r : Ref} {c : Call} {o} (hr : Rel s r)
    (hs : step s (.call c) = some (s', o)) :
    ∃ r', rstep r (.call c) = some (r', o) ∧ Rel s' r' := by
  obtain ⟨ws, conc, hasCtx, cfgC, run, runC, ls⟩ := s
  obtain ⟨st, rc, rcan⟩ := r
  obtain ⟨h1, h2, h3⟩ := hr
  simp only at h1 h2 h3
  subst h1 h2 h3
  cases c <;> simp only [step] at hs <;> simp only [Option.some.injEq, Prod.mk.injEq] at hs <;>
    obtain ⟨rfl, rfl⟩ := hs
  all_goals try (exact ⟨_, by simp [rstep, Life.step], by simp [Rel]⟩)
  case tune n =>
    by_cases hw : ws = .running
    · subst hw
      by_cases hn : C02.limOf 16 n = conc
      · simp [rstep, Life.step, Rel, tune, hn]
      · simp [rstep, Life.step, Rel, tune, hn]
    · simp [rstep, Life.step, Rel, tune, hw]
  all_goals cases ws <;> cases hasCtx <;>
    simp [rstep, Life.step, Rel, startRun, pause, stop, restart, resume]

theorem cancelCfg_refines {s s' : State} {r : Ref} {o} (hi : Inv s) (hr : Rel s r)
    (hs : step s .cancelCfg = some (s', o)) :
    ∃ r', rstep r (absEv s .cancelCfg) = some (r', o) ∧ Rel s' r' := by
  obtain ⟨ws, conc, hasCtx, cfgC, run, runC, ls⟩ := s
  obtain ⟨st, rc, rcan⟩ := r
  obtain ⟨h1, h2, h3⟩ := hr
  have hi1 := hi.1
  simp only at h1 h2 h3 hi1
  subst h1 h2 h3
  simp only [step, Option.some.injEq, Prod.mk.injEq] at hs
  obtain ⟨rfl, rfl⟩ := hs
  cases hasCtx
  · simp_all [absEv, rstep, Rel]
  · simp [absEv, rstep, Rel]

theorem fire_refines {s s' : State} {r : Ref} {k : Nat} {o} (hi : Inv s) (hr : Rel s r)
    (hs : step s (.fire k) = some (s', o)) :
    ∃ r', rstep r (absEv s (.fire k)) = some (r', o) ∧ Rel s' r' := by
  obtain ⟨ws, conc, hasCtx, cfgC, run, runC, ls⟩ := s
  obtain ⟨st, rc, rcan⟩ := r
  obtain ⟨h1, h2, h3⟩ := hr
  have hi4 := hi.2.2.2.1
  simp only at h1 h2 h3 hi4
  subst h1 h2 h3
  simp only [step] at hs
  split at hs
  · rename_i hen
    simp [ctxDone] at hen
    obtain ⟨hmem, hdone⟩ := hen
    simp only [Option.some.injEq, Prod.mk.injEq] at hs
    obtain ⟨rfl, rfl⟩ := hs
    by_cases hk : k = run
    · subst hk
      cases rcan
      · -- the configured context is not cancelled: the run was stopped by stop()
        have hst : ws = .stopped := by simp_all
        subst hst
        simp [absEv, rstep, Rel, stop]
      · cases ws <;> simp [absEv, rstep, Rel, stop]
    · simp [absEv, rstep, Rel, hk]
  · simp at hs

/-- **C14, one step.** Every call of the concrete lifecycle returns exactly the error and reports
    exactly the Status the documented machine prescribes; cancelling the configured context is the
    documented cancellation (or nothing when no context is configured); a listener firing is either
    the documented "context cancelled → Stopped" transition or invisible. -/
theorem step_refines {s s' : State} {r : Ref} {e : Ev} {o} (hi : Inv s) (hr : Rel s r)
    (hs : step s e = some (s', o)) :
    ∃ r', rstep r (absEv s e) = some (r', o) ∧ Rel s' r' := by
  cases e with
  | call c => exact call_refines hr hs
  | cancelCfg => exact cancelCfg_refines hi hr hs
  | fire k => exact fire_refines hi hr hs

/-- the abstract events seen along a concrete run -/
def absEvs (s : State) : List Ev → List REv
  | [] => []
  | e :: es => absEv s e :: (match step s e with | some (s', _) => absEvs s' es | none => [])

theorem absEvs_length {s : State} {evs : List Ev} {s' os} (h : run s evs = some (s', os)) :
    (absEvs s evs).length = evs.length := by
  induction evs generalizing s s' os with
  | nil => rfl
  | cons e es ih =>
    simp only [run] at h
    split at h
    · rename_i s1 o1 hs1
      split at h
      · rename_i s2 os2 hr2
        simp [absEvs, hs1, ih hr2]
      · simp at h
    · simp at h

theorem inv_run {s s' : State} {evs : List Ev} {os} (hi : Inv s) (h : run s evs = some (s', os)) :
    Inv s' := by
  induction evs generalizing s os with
  | nil => simp [run] at h; obtain ⟨rfl, _⟩ := h; exact hi
  | cons e es ih =>
    simp only [run] at h
    split at h
    · rename_i s1 o1 hs1
      split at h
      · rename_i s2 os2 hr2
        simp at h
        obtain ⟨rfl, _⟩ := h
        exact ih (inv_step hi hs1) hr2
      · simp at h
    · simp at h

theorem run_refines {s s' : State} {r : Ref} {evs : List Ev} {os} (hi : Inv s) (hr : Rel s r)
    (h : run s evs = some (s', os)) :
    ∃ r', rrun r (absEvs s evs) = some (r', os) ∧ Rel s' r' := by
  induction evs generalizing s r os with
  | nil =>
    simp [run] at h
    obtain ⟨rfl, rfl⟩ := h
    exact ⟨r, by simp [absEvs, rrun], hr⟩
  | cons e es ih =>
    simp only [run] at h
    split at h
    · rename_i s1 o1 hs1
      split at h
      · rename_i s2 os2 hr2
        simp only [Option.some.injEq, Prod.mk.injEq] at h
        obtain ⟨rfl, rfl⟩ := h
        obtain ⟨r1, hr1, hrel1⟩ := step_refines hi hr hs1
        obtain ⟨r2, hrr2, hrel2⟩ := ih (inv_step hi hs1) hrel1 hr2
        exact ⟨r2, by simp [absEvs, rrun, hs1, hr1, hrr2], hrel2⟩
      · simp at h
    · simp at h

/-- **C14, every event sequence** (explicit abstract event list). -/
theorem lifecycle_refines_explicit {hc : Bool} {c : Nat} {evs : List Ev} {s os}
    (h : run (init hc c) evs = some (s, os)) :
    ∃ r, rrun (rinit c) (absEvs (init hc c) evs) = some (r, os) ∧ Rel s r :=
  run_refines (inv_init hc c) (rel_init hc c) h

/-- **C14, every event sequence.** Whatever calls, cancellations and listener firings happen, in
    whatever order, the errors and statuses the calls return are those of a run of the documented
    machine with one reference event per concrete event. -/
theorem lifecycle_refines {hc : Bool} {c : Nat} {evs : List Ev} {s os}
    (h : run (init hc c) evs = some (s, os)) :
    ∃ revs r, revs.length = evs.length ∧ rrun (rinit c) revs = some (r, os) ∧ Rel s r := by
  obtain ⟨r, h1, h2⟩ := lifecycle_refines_explicit h
  exact ⟨_, r, absEvs_length h, h1, h2⟩

/-- every state reached from `init` satisfies the invariant -/
theorem inv_reachable {hc : Bool} {c : Nat} {evs : List Ev} {s os}
    (h : run (init hc c) evs = some (s, os)) : Inv s :=
  inv_run (inv_init hc c) h

/-! ### consequences -/

/-- Restart from any status (also Stopped, also with a cancelled context) leaves the worker Running
    and returns nil. -/
theorem restart_leaves_running {s s' : State} {o} (hs : step s (.call .restart) = some (s', o)) :
    s'.ws = .running ∧ o = some (.none, .running) := by
  simp only [step, Option.some.injEq, Prod.mk.injEq] at hs
  obtain ⟨rfl, rfl⟩ := hs
  cases h : s.hasCtx <;> simp [restart, startRun, h]

/-- binding another queue to a worker that was already started does not change its status
    (in particular it does not revive a Stopped or Paused worker) -/
theorem bind_preserves_state {s s' : State} {o} (hw : s.ws ≠ .initiated)
    (hs : step s (.call .bind) = some (s', o)) : s'.ws = s.ws := by
  simp only [step, Option.some.injEq, Prod.mk.injEq] at hs
  obtain ⟨rfl, rfl⟩ := hs
  simp [startRun, hw]

/-- … and not even the rest of the state -/
theorem bind_preserves_state' {s s' : State} {o} (hw : s.ws ≠ .initiated)
    (hs : step s (.call .bind) = some (s', o)) : s' = s ∧ o = some (.none, s.ws) := by
  simp only [step, Option.some.injEq, Prod.mk.injEq] at hs
  obtain ⟨rfl, rfl⟩ := hs
  simp [startRun, hw]

/-- the listener of an earlier run (its context was cancelled by Restart) cannot stop the
    current run -/
theorem stale_listener_inert {s s' : State} {k : Nat} {o} (hk : k ≠ s.run)
    (hs : step s (.fire k) = some (s', o)) :
    s'.ws = s.ws ∧ s'.conc = s.conc ∧ s'.run = s.run ∧ o = none := by
  simp only [step] at hs
  split at hs
  · simp only [Option.some.injEq, Prod.mk.injEq] at hs
    obtain ⟨rfl, rfl⟩ := hs
    simp [hk]
  · simp at hs

/-- cancelling the configured context stops the worker: in every reachable state with a cancelled
    configured context and a Running or Paused worker, the listener of the current run exists, is
    enabled, and its firing stops the worker (also for a run started by Restart/Resume/Bind after
    the context was cancelled). -/
theorem ctx_cancel_can_stop {s : State} (hi : Inv s) (hc : s.hasCtx = true)
    (hcc : s.cfgCancelled = true) (hw : s.ws = .running ∨ s.ws = .paused) :
    ∃ s', step s (.fire s.run) = some (s', none) ∧ s'.ws = .stopped := by
  have hmem := hi.2.2.1 hc hw
  have hen : (s.listeners.contains s.run && ctxDone s s.run) = true := by simp [ctxDone, hcc, hmem]
  refine ⟨(stop { s with listeners := s.listeners.erase s.run }).1, ?_, ?_⟩
  · simp only [step]
    rw [if_pos hen]
    simp
  · rcases hw with hw | hw <;> simp [stop, hw]

/-- … and the documented machine sees that firing as its "context cancelled → Stopped" step -/
theorem ctx_cancel_absEv {s : State} (hcc : s.cfgCancelled = true)
    (hw : s.ws = .running ∨ s.ws = .paused) : absEv s (.fire s.run) = .ctxStop := by
  rcases hw with hw | hw <;> simp [absEv, hcc, hw]

/-- no other listener is ever enabled while the configured context is alive and the run was not
    stopped: firings are possible only for done contexts -/
theorem fire_enabled_iff {s : State} {k : Nat} :
    (step s (.fire k)).isSome = (s.listeners.contains k && ctxDone s k) := by
  simp only [step]
  split <;> simp_all

/-! ### non-vacuity -/

/-- a 14-event run with a context: bind, pause, resume, tune, cancelCfg, fire → Stopped,
    restart (Running), stale listener can no longer fire (tested separately), fire of the new run →
    Stopped again, resume → ErrNotRunningWorker, bind does not revive, stop is a no-op -/
def demo : List Ev :=
  [.call .bind, .call .pause, .call .resume, .call (.tune 0), .call (.tune 0), .cancelCfg, .fire 0,
   .call .status, .call .restart, .fire 1, .call .resume, .call .bind, .call .stop, .call (.tune 3)]

example : (run (init true 4) demo).map (·.2) =
    some [some (.none, .running), some (.none, .paused), some (.none, .running),
          some (.none, .running), some (.sameConcurrency, .running), none, none,
          none, some (.none, .running), none, some (.notRunningWorker, .stopped),
          some (.none, .stopped), some (.none, .stopped), some (.notRunningWorker, .stopped)] := by
  decide

example : (run (init true 4) demo).map (·.2) =
    (rrun (rinit 4) (absEvs (init true 4) demo)).map (·.2) := by decide

example : absEvs (init true 4) demo =
    [.call .bind, .call .pause, .call .resume, .call (.tune 0), .call (.tune 0), .cancelCfg, .ctxStop,
     .call .status, .call .restart, .ctxStop, .call .resume, .call .bind, .call .stop,
     .call (.tune 3)] := by decide

-- the listener of run 0 is gone after it fired; a listener can fire only once
example : run (init true 4) [.call .bind, .cancelCfg, .fire 0, .fire 0] = none := by decide
-- a listener cannot fire while its context is alive
example : run (init true 4) [.call .bind, .fire 0] = none := by decide
-- Stop cancels the run's context: the listener fires and is invisible (stop on Stopped is a no-op)
example : (run (init true 4) [.call .bind, .call .stop, .fire 0, .call .restart, .call .pause]).map (·.2) =
    some [some (.none, .running), some (.none, .stopped), none, some (.none, .running),
          some (.none, .paused)] := by decide
-- Restart cancels the previous run's context: the stale listener fires, the new run goes on
example : (run (init true 4) [.call .bind, .call .restart, .fire 0, .call .pause]).map (·.2) =
    some [some (.none, .running), some (.none, .running), none, some (.none, .paused)] := by decide
-- without a configured context cancelCfg is a no-op and no listener ever exists
example : (run (init false 1) [.call .resume, .cancelCfg, .call .pause, .call .restart]).map (·.2) =
    some [some (.none, .running), none, some (.none, .paused), some (.none, .running)] := by decide
example : run (init false 1) [.call .resume, .cancelCfg, .fire 0] = none := by decide
-- hypotheses of `ctx_cancel_can_stop` are satisfiable, also for a run started after the cancellation
example : ∃ s os, run (init true 2) [.cancelCfg, .call .bind, .call .pause] = some (s, os) ∧
    s.hasCtx = true ∧ s.cfgCancelled = true ∧ s.ws = .paused ∧ s.run ∈ s.listeners := by
  refine ⟨_, _, rfl, ?_⟩; decide
-- hypotheses of `stale_listener_inert` / `bind_preserves_state` / `restart_leaves_running`
example : ∃ s', step { ws := .paused, hasCtx := true, run := 1, listeners := [1, 0] } (.fire 0)
    = some (s', none) ∧ s'.ws = .paused := by refine ⟨_, rfl, ?_⟩; decide
example : step { ws := .stopped } (.call .bind) = some ({ ws := .stopped }, some (.none, .stopped)) := by
  decide
example : (step { ws := .stopped, hasCtx := true, cfgCancelled := true, runCancelled := true }
    (.call .restart)).map (·.2) = some (some (.none, .running)) := by decide

#print axioms inv_init
#print axioms inv_step
#print axioms step_refines
#print axioms lifecycle_refines
#print axioms lifecycle_refines_explicit
#print axioms inv_reachable
#print axioms restart_leaves_running
#print axioms bind_preserves_state
#print axioms bind_preserves_state'
#print axioms stale_listener_inert
#print axioms ctx_cancel_can_stop
#print axioms ctx_cancel_absEv
#print axioms fire_enabled_iff

end LifeC
end VarmqVerif
