/-
  Theorems about the reservation / barrier protocol model `Res` (Model/Res.lean): properties C06
  (safety half) and C09, the bounds on `curProcessing`, and the limit re-check of reserve().  The inductive invariants are in
  Proofs/ResLemmas.lean (`reach_inv`).

  History: for the first version of the model four of these theorems (`stopped_quiet`,
  `frozen_quiet`, `no_start_when_frozen`, `barrier_return_exact`) were FALSE, because a barrier
  result (`bst`, `checked`) survived the critical section in which it had been computed.  The model
  was repaired in two places (checked against real traces by the model owner):
    (a) `.ldCurB` sets `checked` only if the loaded status is still the current one (`b == s.ws`);
    (b) `.lockL g` clears `bst g` and `checked g`.
  The three counterexample traces are kept at the end of this file as examples that are now rejected.
-/
import VarmqVerif.Proofs.ResLemmas

namespace VarmqVerif
namespace Res

/-! ## Helpers for concrete traces -/

/-- run a trace from `init c` and project the final state (`State` has function fields, so it has
    no `DecidableEq`; project what is to be checked) -/
def runProj {α : Type} (f : State → α) (c : Nat) (evs : List Ev) : Option α :=
  match run (init c) evs with
  | .ok s => some (f s)
  | .error _ => none

theorem reach_of_runProj {α : Type} {f : State → α} {c : Nat} {evs : List Ev} {x : α}
    (h : runProj f c evs = some x) : ∃ s, Reach s ∧ run (init c) evs = .ok s ∧ f s = x := by
  unfold runProj at h
  split at h
  · rename_i s hs
    exact ⟨s, reach_run (Reach.init c) hs, hs, by simpa using h⟩
  · cases h

/-- Bind starts the run; one job is reserved, handed over, executed and released; then a
    PauseAndWait locks, stores paused, evaluates its barrier condition, unlocks, returns nil. -/
def exFrozen : List Ev := [
  .call 0 .bind, .lockL 0, .ldStatusL 0 initiated, .stStatus 0 running, .unlockL 0, .ret 0 .bind true,
  .ldCurD 5 0, .ldConcD 5 2, .casCur 5 0 1 true, .ldStatusD 5 running, .ldConcR 5 2, .send 5,
  .enter 7 0, .ldCurAny 9 1, .exit 7 0, .relR 7 0,
  .call 1 .pauseAndWait, .lockL 1, .ldStatusL 1 running, .stStatus 1 paused,
  .ldStatusB 1 paused, .ldCurB 1 0, .unlockL 1, .ret 1 .pauseAndWait true]

/-- as `exFrozen`, but the call is Stop and it stores `stopped` after the barrier -/
def exStopped : List Ev := [
  .call 0 .bind, .lockL 0, .ldStatusL 0 initiated, .stStatus 0 running, .unlockL 0, .ret 0 .bind true,
  .ldCurD 5 0, .ldConcD 5 2, .casCur 5 0 1 true, .ldStatusD 5 running, .ldConcR 5 2, .send 5,
  .enter 7 0, .exit 7 0, .relR 7 0,
  .call 1 .stop, .lockL 1, .ldStatusL 1 running, .stStatus 1 paused,
  .ldStatusB 1 paused, .ldCurB 1 0, .stStatus 1 stopped, .unlockL 1, .ret 1 .stop true]

/-- a plain Pause returns while one dispatcher is past reserve(): budget 1; the job is sent and
    starts: budget 0 -/
def exBudget : List Ev := [
  .call 0 .bind, .lockL 0, .ldStatusL 0 initiated, .stStatus 0 running, .unlockL 0, .ret 0 .bind true,
  .ldCurD 5 0, .ldConcD 5 2, .casCur 5 0 1 true, .ldStatusD 5 running, .ldConcR 5 2,
  .call 1 .pause, .lockL 1, .ldStatusL 1 running, .stStatus 1 paused, .unlockL 1, .ret 1 .pause true]

example : exFrozen.length = 24 := rfl
example : runProj (fun s => (s.frozen, s.ws, s.cur, s.starts, s.nExec)) 2 exFrozen = some (true, paused, 0, 1, 0) := by decide
example : runProj (fun s => (s.frozen, s.ws, s.cur)) 2 exStopped = some (true, stopped, 0) := by decide
example : runProj (fun s => (s.budget, s.nHold, s.ws)) 2 exBudget = some (some 1, 1, paused) := by decide
example : runProj (fun s => (s.budget, s.nHold, s.handed, s.nExec)) 2 (exBudget ++ [.send 5, .enter 7 0]) = some (some 0, 0, 0, 1) := by decide
/-- a dispatcher that reserves after the Pause must give the slot back: phase `mustRelease`, not `holding` -/
example : runProj (fun s => (s.budget, s.ph 6, s.nHold, s.nRes)) 2
    (exBudget ++ [.ldCurD 6 1, .ldConcD 6 2, .casCur 6 1 2 true, .ldStatusD 6 paused]) = some (some 1, .mustRelease, 1, 1) := by decide

/-- the Pause returns while the dispatcher is between the two re-checks (phase `checked`): it is
    counted in the budget, because it may still hand its job over — the limit re-check passes -/
def exBudgetChecked : List Ev := [
  .call 0 .bind, .lockL 0, .ldStatusL 0 initiated, .stStatus 0 running, .unlockL 0, .ret 0 .bind true,
  .ldCurD 5 0, .ldConcD 5 2, .casCur 5 0 1 true, .ldStatusD 5 running,
  .call 1 .pause, .lockL 1, .ldStatusL 1 running, .stStatus 1 paused, .unlockL 1, .ret 1 .pause true]

example : runProj (fun s => (s.budget, s.ph 5, s.tk 5, s.nHold, s.nRes)) 2 exBudgetChecked = some (some 1, .checked, 1, 1, 0) := by decide
example : runProj (fun s => (s.budget, s.ph 5, s.nHold, s.handed, s.ws)) 2 (exBudgetChecked ++ [.ldConcR 5 2, .send 5])
    = some (some 1, .idle, 0, 1, paused) := by decide

/-- the limit is lowered between the first load of the limit and the CAS: goroutine 6 takes the
    value 2 while the limit is 1; the limit re-check sends it to `mustRelease`, it cannot send -/
def exLimit : List Ev := [
  .call 0 .bind, .lockL 0, .ldStatusL 0 initiated, .stStatus 0 running, .unlockL 0, .ret 0 .bind true,
  .ldCurD 5 0, .ldConcD 5 2, .casCur 5 0 1 true, .ldStatusD 5 running, .ldConcR 5 2,
  .ldCurD 6 1, .ldConcD 6 2, .stConc 3 1, .casCur 6 1 2 true, .ldStatusD 6 running, .ldConcR 6 1]

example : runProj (fun s => (s.ph 6, s.tk 6, s.conc, s.cur, s.nHold, s.nRes)) 2 exLimit = some (.mustRelease, 2, 1, 2, 1, 1) := by decide
example : runProj (·.cur) 2 (exLimit ++ [.send 6]) = none := by decide
example : runProj (fun s => (s.ph 6, s.cur, s.nRes)) 2 (exLimit ++ [.relD 6 1]) = some (.idle, 1, 0) := by decide
/-- the limit re-check cannot be skipped: no hand-over from phase `checked` -/
example : runProj (·.cur) 2 (exLimit.take 16 ++ [.send 6]) = none := by decide

/-! ## Counting -/

/-- every unit of `curProcessing` is accounted for by exactly one protocol stage -/
theorem acc_inv {s : State} (r : Reach s) : Acc s := (reach_inv r).1.acc

theorem conc_le_maxConc {s : State} (r : Reach s) : s.conc ≤ s.maxConc := (reach_inv r).1.conc

theorem lcc_le_maxConc {s : State} (r : Reach s) : ∀ g cc, s.lcc g = some cc → cc ≤ s.maxConc :=
  (reach_inv r).1.lcc

/-- `curProcessing` never exceeds the largest concurrency limit ever configured -/
theorem cur_le_maxConc {s : State} (r : Reach s) : s.cur ≤ s.maxConc := (reach_inv r).1.cur

theorem executing_le_cur {s : State} (r : Reach s) : s.nExec + s.handed + s.nHold ≤ s.cur := by
  have := acc_inv r; unfold Acc at this; omega

/-- in-flight worker functions never exceed the largest limit ever configured -/
theorem executing_le_maxConc {s : State} (r : Reach s) : s.nExec ≤ s.maxConc := by
  have := executing_le_cur r; have := cur_le_maxConc r; omega

/-- what NumProcessing() can return -/
theorem read_cur_le_maxConc {s s' : State} {g v : Nat} (r : Reach s)
    (h : step s (.ldCurAny g v) = .ok s') : v ≤ s.maxConc := by
  have := cur_le_maxConc r
  res_step_cases h
  simp at *
  omega

example : ∃ s, Reach s ∧ s.nExec = 1 ∧ s.cur = 1 ∧ s.maxConc = 2 ∧
    ∃ s', step s (.ldCurAny 9 1) = .ok s' :=
  have h : runProj (fun s => (s.nExec, s.cur, s.maxConc, (step s (.ldCurAny 9 1)).toOption.isSome)) 2
      (exFrozen.take 13) = some (1, 1, 2, true) := by decide
  by
    obtain ⟨s, r, _, hs⟩ := reach_of_runProj h
    simp only [Prod.mk.injEq] at hs
    obtain ⟨h1, h2, h3, h4⟩ := hs
    refine ⟨s, r, h1, h2, h3, ?_⟩
    cases hst : step s (.ldCurAny 9 1) with
    | ok s' => exact ⟨s', rfl⟩
    | error m => simp [hst, Except.toOption] at h4

/-! ## The limit re-check of reserve() -/

/-- a dispatcher only keeps its slot if the value it took is within the limit in effect at the re-check -/
theorem holding_within_limit {s s' : State} {g v : Nat} (h : step s (.ldConcR g v) = .ok s')
    (hh : s'.ph g = .holding) : s.tk g ≤ s.conc := by
  res_step_cases h
  all_goals (simp at *)
  all_goals (try omega)

/-- … and has to give it back otherwise -/
theorem recheck_gives_back {s s' : State} {g v : Nat} (h : step s (.ldConcR g v) = .ok s')
    (hg : s.conc < s.tk g) : s'.ph g = .mustRelease := by
  res_step_cases h
  all_goals (simp at *)
  all_goals (try omega)

/-- the value taken by a dispatcher that holds a slot (any phase but `idle`) is at least 1 and at most
    the largest limit ever configured -/
theorem taken_bounds {s : State} (hr : Reach s) (g : Nat) (hp : s.ph g ≠ .idle) :
    1 ≤ s.tk g ∧ s.tk g ≤ s.maxConc := reach_tk hr g hp

theorem taken_le_cur {s : State} (hr : Reach s) (g : Nat) (hp : s.ph g = .checked ∨ s.ph g = .reserved) :
    1 ≤ s.tk g :=
  (taken_bounds hr g (by rcases hp with hp | hp <;> simp [hp])).1

/-- a dispatcher that passes the limit re-check took a value between 1 and the current limit -/
theorem holding_taken_le {s s' : State} {g v : Nat} (r : Reach s) (h : step s (.ldConcR g v) = .ok s')
    (hh : s'.ph g = .holding) : 1 ≤ s.tk g ∧ s.tk g ≤ s.conc ∧ s.conc ≤ s.maxConc := by
  have hc := holding_within_limit h hh
  have hm := conc_le_maxConc r
  have hp : s.ph g ≠ .idle := by
    res_step_cases h
    all_goals (simp at *)
    all_goals (simp [*])
  exact ⟨(taken_bounds r g hp).1, hc, hm⟩

example : ∃ s s', Reach s ∧ step s (.ldConcR 6 1) = .ok s' ∧ s.conc < s.tk 6 := by
  have h : runProj (fun s => ((step s (.ldConcR 6 1)).toOption.isSome, s.conc, s.tk 6)) 2
      (exLimit.take 16) = some (true, 1, 2) := by decide
  obtain ⟨s, r, _, hs⟩ := reach_of_runProj h
  simp only [Prod.mk.injEq] at hs
  obtain ⟨h1, h2, h3⟩ := hs
  cases hst : step s (.ldConcR 6 1) with
  | ok s' => exact ⟨s, s', r, hst, by omega⟩
  | error m => simp [hst, Except.toOption] at h1

/-! ## Quiet windows -/

/-- a stopped worker holds no dispatched job -/
theorem stopped_quiet {s : State} (r : Reach s) (h : s.ws = stopped) : Quiet s := (reach_inv r).2.1.S h

example : ∃ s, Reach s ∧ s.ws = stopped := by
  have h : runProj (·.ws) 2 exStopped = some stopped := by decide
  obtain ⟨s, r, _, hs⟩ := reach_of_runProj h
  exact ⟨s, r, hs⟩

/-- THE key invariant: after PauseAndWait/Stop/WaitAndStop returned nil, with no Resume/Restart/Bind
    in progress during it or called since, the worker is paused/stopped and no dispatched job exists -/
theorem frozen_quiet {s : State} (r : Reach s) (h : s.frozen = true) : Quiet s := ((reach_inv r).2.1.F h).2

theorem frozen_no_resumer {s : State} (r : Reach s) (h : s.frozen = true) : s.openResumers = 0 :=
  ((reach_inv r).2.1.F h).1

example : ∃ s, Reach s ∧ s.frozen = true ∧ s.starts = 1 := by
  have h : runProj (fun s => (s.frozen, s.starts)) 2 exFrozen = some (true, 1) := by decide
  obtain ⟨s, r, _, hs⟩ := reach_of_runProj h
  simp only [Prod.mk.injEq] at hs
  exact ⟨s, r, hs.1, hs.2⟩

theorem no_start_of_handed_zero {s : State} (h : s.handed = 0) (g k : Nat) :
    ∃ m, step s (.enter g k) = .error m := by
  simp only [step]
  split
  · exact ⟨_, rfl⟩
  · simp [h]

/-- property C09: after PauseAndWait/Stop/WaitAndStop returned nil (and no Resume/Restart/Bind was in
    progress during it), no worker function starts until a Resume/Restart/Bind is called -/
theorem no_start_when_frozen {s : State} (r : Reach s) (h : s.frozen = true) :
    ∀ g k, ∃ m, step s (.enter g k) = .error m :=
  no_start_of_handed_zero (frozen_quiet r h).2.2.1

/-- property C06 (safety half): a barrier call that was not overlapped by a resumer returns nil only
    when no worker function is executing and none is about to start -/
theorem barrier_return_exact {s s' : State} {g : Nat} {a : Api} (r : Reach s) (hb : a.isBarrier = true)
    (h : step s (.ret g a true) = .ok s') (hd : s.dirty g = false) :
    s.nExec = 0 ∧ s.handed = 0 ∧ s.nHold = 0 := by
  obtain ⟨_, i, _⟩ := reach_inv r
  have hK := i.K g
  have hL := i.L g
  have hbr : a.isResumer = false := by cases a <;> simp_all [Api.isBarrier, Api.isResumer]
  have hq : Quiet s := by
    res_step_cases h
    all_goals (simp at *)
    all_goals grind
  exact ⟨hq.2.2.2.1, hq.2.2.1, hq.2.1⟩

example : ∃ s s', Reach s ∧ Api.pauseAndWait.isBarrier = true ∧
    step s (.ret 1 .pauseAndWait true) = .ok s' ∧ s.dirty 1 = false := by
  have h : runProj (fun s => ((step s (.ret 1 .pauseAndWait true)).toOption.isSome, s.dirty 1)) 2
      (exFrozen.take 23) = some (true, false) := by decide
  obtain ⟨s, r, _, hs⟩ := reach_of_runProj h
  simp only [Prod.mk.injEq] at hs
  cases hst : step s (.ret 1 .pauseAndWait true) with
  | ok s' => exact ⟨s, s', r, rfl, hst, hs.2⟩
  | error m => simp [hst, Except.toOption] at hs

/-! ## Budget after a plain Pause -/

theorem budget_bound {s : State} {b : Nat} (r : Reach s) (h : s.budget = some b) :
    isQuietStatus s.ws = true ∧ s.nHold + s.handed ≤ b :=
  ((reach_inv r).2.2 b h).2

theorem no_start_when_budget_zero {s : State} (r : Reach s) (h : s.budget = some 0) :
    ∀ g k, ∃ m, step s (.enter g k) = .error m := by
  have := (budget_bound r h).2
  exact no_start_of_handed_zero (by omega)

/-- property C09, second clause: at the moment a plain Pause returns, the number of jobs that may
    still start (already dispatched ones) is at most the largest configured limit; by `budget_bound`
    no job reserved later is among them -/
theorem budget_le_maxConc {s s' : State} {g b : Nat} (r : Reach s)
    (h : step s (.ret g .pause true) = .ok s') (hb : s'.budget = some b) (hn : s.budget = none) :
    b ≤ s.maxConc := by
  have h1 := executing_le_cur r
  have h2 := cur_le_maxConc r
  res_step_cases h
  all_goals (simp at *)
  all_goals (try omega)
  all_goals (try grind)

example : ∃ s, Reach s ∧ s.budget = some 1 := by
  have h : runProj (·.budget) 2 exBudget = some (some 1) := by decide
  obtain ⟨s, r, _, hs⟩ := reach_of_runProj h
  exact ⟨s, r, hs⟩

example : ∃ s, Reach s ∧ s.budget = some 0 ∧ s.nExec = 1 := by
  have h : runProj (fun s => (s.budget, s.nExec)) 2 (exBudget ++ [.send 5, .enter 7 0]) = some (some 0, 1) := by decide
  obtain ⟨s, r, _, hs⟩ := reach_of_runProj h
  simp only [Prod.mk.injEq] at hs
  exact ⟨s, r, hs.1, hs.2⟩

example : ∃ s s', Reach s ∧ step s (.ret 1 .pause true) = .ok s' ∧ s'.budget = some 1 ∧ s.budget = none := by
  have h : runProj (fun s => ((step s (.ret 1 .pause true)).toOption.map (·.budget), s.budget)) 2
      (exBudget.take 16) = some (some (some 1), none) := by decide
  obtain ⟨s, r, _, hs⟩ := reach_of_runProj h
  simp only [Prod.mk.injEq] at hs
  cases hst : step s (.ret 1 .pause true) with
  | ok s' => exact ⟨s, s', r, hst, by simpa [hst, Except.toOption] using hs.1, hs.2⟩
  | error m => simp [hst, Except.toOption] at hs

/-! ## Why guards (a) and (b) are there: the counterexamples to the first version of the model

  Against the FIRST version of the model (no `b == s.ws` in `.ldCurB`, `.lockL` not clearing
  `bst`/`checked`) `#eval` gave:
    run (init 2) cexFrozen                      = ok, frozen = true, ws = running, dirty 2 = false
    run (init 2) (cexFrozen ++ cexFrozenStart)  = ok, frozen = true, nExec = 1        (a start while frozen)
    run (init 2) cexStopped1                    = ok, ws = stopped, nHold = 1, cur = 1
    run (init 2) cexStopped2                    = ok, ws = stopped, nHold = 1, cur = 1
  Now each trace is rejected at the event that used the stale barrier result. -/

/-- stale `bst`: goroutine 2 loaded the status `paused` long before its PauseAndWait; a Resume
    completed in between; under the lock only `cur` is loaded -/
def cexFrozen : List Ev := [
  .call 0 .bind, .lockL 0, .stStatus 0 running, .unlockL 0, .ret 0 .bind true,
  .call 1 .pause, .lockL 1, .stStatus 1 paused, .unlockL 1, .ret 1 .pause true,
  .ldStatusB 2 paused,
  .call 0 .resume, .lockL 0, .stStatus 0 running, .unlockL 0, .ret 0 .resume true,
  .call 2 .pauseAndWait, .lockL 2, .ldCurB 2 0, .unlockL 2, .ret 2 .pauseAndWait true]

def cexFrozenStart : List Ev :=
  [.ldCurD 5 0, .ldConcD 5 2, .casCur 5 0 1 true, .ldStatusD 5 running, .ldConcR 5 2, .send 5, .enter 7 0]

/-- stale `bst` inside one Stop call: status loaded before the lock, Resume in between -/
def cexStopped1 : List Ev := [
  .call 0 .bind, .lockL 0, .stStatus 0 running, .unlockL 0, .ret 0 .bind true,
  .call 1 .pause, .lockL 1, .stStatus 1 paused, .unlockL 1, .ret 1 .pause true,
  .call 2 .stop, .ldStatusB 2 paused,
  .call 0 .resume, .lockL 0, .stStatus 0 running, .unlockL 0, .ret 0 .resume true,
  .lockL 2, .ldCurB 2 0,
  .ldCurD 5 0, .ldConcD 5 2, .casCur 5 0 1 true, .ldStatusD 5 running, .ldConcR 5 2,
  .stStatus 2 stopped]

/-- stale `checked`: computed in a first critical section, used in a second one -/
def cexStopped2 : List Ev := [
  .call 0 .bind, .lockL 0, .stStatus 0 running, .unlockL 0, .ret 0 .bind true,
  .call 2 .stop, .lockL 2, .stStatus 2 paused, .ldStatusB 2 paused, .ldCurB 2 0, .unlockL 2,
  .call 0 .resume, .lockL 0, .stStatus 0 running, .unlockL 0, .ret 0 .resume true,
  .ldCurD 5 0, .ldConcD 5 2, .casCur 5 0 1 true, .ldStatusD 5 running, .ldConcR 5 2,
  .lockL 2, .stStatus 2 stopped]

/-- accepted up to and including `lockL 2`, rejected at `ldCurB 2 0` ("cur loaded before status") -/
example : runProj (fun s => (s.frozen, s.bst 2)) 2 (cexFrozen.take 18) = some (false, none) := by decide
example : runProj (·.frozen) 2 (cexFrozen.take 19) = none := by decide
example : runProj (·.frozen) 2 cexFrozen = none := by decide
/-- … and if goroutine 2 evaluates its condition properly (status load under the lock: `running`),
    `checked` is not set and the nil return is rejected: `frozen` is never reached on this trace -/
example : runProj (fun s => (s.frozen, s.checked 2)) 2
    (cexFrozen.take 18 ++ [.ldStatusB 2 running, .ldCurB 2 0, .unlockL 2]) = some (false, false) := by decide
example : runProj (·.frozen) 2
    (cexFrozen.take 18 ++ [.ldStatusB 2 running, .ldCurB 2 0, .unlockL 2, .ret 2 .pauseAndWait true]) = none := by decide

/-- rejected at `ldCurB 2 0` (event 19) -/
example : runProj (·.ws) 2 (cexStopped1.take 18) = some running := by decide
example : runProj (·.ws) 2 (cexStopped1.take 19) = none := by decide
example : runProj (·.ws) 2 cexStopped1 = none := by decide

/-- accepted up to the second `lockL 2` (event 22), which clears `checked 2`; the store of `stopped` is rejected -/
example : runProj (fun s => (s.ws, s.nHold, s.checked 2)) 2 (cexStopped2.take 22) = some (running, 1, false) := by decide
example : runProj (·.ws) 2 cexStopped2 = none := by decide

end Res
end VarmqVerif

section Axioms
open VarmqVerif.Res
#print axioms acc_inv
#print axioms cur_le_maxConc
#print axioms executing_le_maxConc
#print axioms executing_le_cur
#print axioms read_cur_le_maxConc
#print axioms stopped_quiet
#print axioms frozen_quiet
#print axioms no_start_when_frozen
#print axioms barrier_return_exact
#print axioms budget_bound
#print axioms no_start_when_budget_zero
#print axioms budget_le_maxConc
#print axioms holding_within_limit
#print axioms recheck_gives_back
#print axioms taken_le_cur
#print axioms taken_bounds
#print axioms holding_taken_le
end Axioms
