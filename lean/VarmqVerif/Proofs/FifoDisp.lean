/-
  Theorems about the model `FifoDisp` (Model/FifoDisp.lean): Disp composed with the FIFO specification.

    * `inv_reach`                      (deqd ++ pending) is a subsequence of the acceptance order, and the Disp part is reachable in Disp
    * `handout_is_acceptance_order`    the hand-out order is a subsequence of the acceptance order (what is missing was purged)
    * `serial_is_acceptance_order`     limit never above 1 → the order in which worker functions start is a subsequence of the
                                       acceptance order (C04: "with concurrency 1 this is exactly the execution order")
    * `started_were_accepted`          nothing runs that was not accepted
    * `accepted_is_somewhere`          every accepted job was handed out, is pending, or was purged
    * `ahead_slack`                    Disp's slack bound, for the composed model
  Non-vacuity examples at the end.
-/
import VarmqVerif.Model.FifoDisp
import VarmqVerif.Proofs.Disp

namespace VarmqVerif
namespace FifoDisp

structure J (s : State) : Prop where
  disp : Disp.Reach s.d
  sub : (s.d.deqd ++ s.pending).Sublist s.accepted
  kept : ∀ j ∈ s.accepted, j ∈ s.d.deqd ∨ j ∈ s.pending ∨ j ∈ s.dropped

theorem J_init : J init := ⟨Disp.Reach.init, by simp [init], by simp [init]⟩

theorem J_step {s s' : State} (e : Ev) (hJ : J s) (h : step s e = .ok s') : J s' := by
  obtain ⟨hd, hs, hk⟩ := hJ
  cases e with
  | enq j =>
    simp only [step] at h
    split at h
    · cases h
    · cases h
      refine ⟨hd, ?_, ?_⟩
      · show (s.d.deqd ++ (s.pending ++ [j])).Sublist (s.accepted ++ [j])
        rw [← List.append_assoc]
        exact List.Sublist.append hs (List.Sublist.refl _)
      · intro x hx
        show x ∈ s.d.deqd ∨ x ∈ s.pending ++ [j] ∨ x ∈ s.dropped
        rcases List.mem_append.mp hx with hx | hx
        · rcases hk x hx with h | h | h
          · exact Or.inl h
          · exact Or.inr (Or.inl (List.mem_append_left _ h))
          · exact Or.inr (Or.inr h)
        · exact Or.inr (Or.inl (List.mem_append_right _ hx))
  | drop j =>
    simp only [step] at h
    split at h
    · cases h
    · rename_i hd' rest hp
      split at h
      · cases h
      · cases h
        rename_i hne
        have hj : hd' = j := by simpa using hne
        refine ⟨hd, ?_, ?_⟩
        · show (s.d.deqd ++ rest).Sublist s.accepted
          rw [hp] at hs
          exact List.Sublist.trans (List.Sublist.append (List.Sublist.refl _) (List.sublist_cons_self _ _)) hs
        · intro x hx
          show x ∈ s.d.deqd ∨ x ∈ rest ∨ x ∈ s.dropped ++ [j]
          rcases hk x hx with h | h | h
          · exact Or.inl h
          · rw [hp] at h
            rcases List.mem_cons.mp h with h | h
            · exact Or.inr (Or.inr (List.mem_append_right _ (by rw [h, hj]; exact List.mem_singleton.mpr rfl)))
            · exact Or.inr (Or.inl h)
          · exact Or.inr (Or.inr (List.mem_append_left _ h))
  | d e =>
    cases e with
    | deq j =>
      simp only [step] at h
      split at h
      · cases h
      · rename_i hd' rest hp
        split at h
        · cases h
        · rename_i hne
          split at h
          · rename_i d' hd2
            cases h
            have hj : hd' = j := by simpa using hne
            obtain ⟨_, _, hd3⟩ := Disp.deq_ok hd2
            refine ⟨Disp.Reach.step _ hd hd2, ?_, ?_⟩
            · show (d'.deqd ++ rest).Sublist s.accepted
              rw [hd3]
              show ((s.d.deqd ++ [j]) ++ rest).Sublist s.accepted
              rw [hp, hj] at hs
              simpa [List.append_assoc] using hs
            · intro x hx
              show x ∈ d'.deqd ∨ x ∈ rest ∨ x ∈ s.dropped
              rw [hd3]
              show x ∈ s.d.deqd ++ [j] ∨ x ∈ rest ∨ x ∈ s.dropped
              rcases hk x hx with h | h | h
              · exact Or.inl (List.mem_append_left _ h)
              · rw [hp] at h
                rcases List.mem_cons.mp h with h | h
                · exact Or.inl (List.mem_append_right _ (by rw [h, hj]; exact List.mem_singleton.mpr rfl))
                · exact Or.inr (Or.inl h)
              · exact Or.inr (Or.inr h)
          · cases h
    | lim n =>
      simp only [step] at h
      split at h
      · rename_i d' hd2
        cases h
        have := Disp.lim_ok hd2
        refine ⟨Disp.Reach.step _ hd hd2, ?_, ?_⟩
        · show (d'.deqd ++ s.pending).Sublist s.accepted
          rw [this]
          exact hs
        · intro x hx
          show x ∈ d'.deqd ∨ x ∈ s.pending ∨ x ∈ s.dropped
          rw [this]
          exact hk x hx
      · cases h
    | enter j =>
      simp only [step] at h
      split at h
      · rename_i d' hd2
        cases h
        obtain ⟨_, _, _, this⟩ := Disp.enter_ok hd2
        refine ⟨Disp.Reach.step _ hd hd2, ?_, ?_⟩
        · show (d'.deqd ++ s.pending).Sublist s.accepted
          rw [this]
          exact hs
        · intro x hx
          show x ∈ d'.deqd ∨ x ∈ s.pending ∨ x ∈ s.dropped
          rw [this]
          exact hk x hx
      · cases h
    | done j =>
      simp only [step] at h
      split at h
      · rename_i d' hd2
        cases h
        obtain ⟨_, _, this⟩ := Disp.done_ok hd2
        refine ⟨Disp.Reach.step _ hd hd2, ?_, ?_⟩
        · show (d'.deqd ++ s.pending).Sublist s.accepted
          rw [this]
          exact hs
        · intro x hx
          show x ∈ d'.deqd ∨ x ∈ s.pending ∨ x ∈ s.dropped
          rw [this]
          exact hk x hx
      · cases h

theorem inv_reach {s : State} (h : Reach s) : J s := by
  induction h with
  | init => exact J_init
  | step e _ hs ih => exact J_step e ih hs

/-- the Disp part of a reachable state is reachable in Disp: every theorem of Proofs/Disp.lean applies to it -/
theorem disp_reach {s : State} (h : Reach s) : Disp.Reach s.d := (inv_reach h).disp

/-- a standard queue hands out jobs in the order their submissions were accepted (what is missing was purged) -/
theorem handout_is_acceptance_order {s : State} (h : Reach s) : s.d.deqd.Sublist s.accepted :=
  List.Sublist.trans (List.sublist_append_left _ _) (inv_reach h).sub

/-- … and what is still pending comes after everything handed out, in acceptance order -/
theorem handout_then_pending {s : State} (h : Reach s) : (s.d.deqd ++ s.pending).Sublist s.accepted :=
  (inv_reach h).sub

/-- nothing accepted disappears inside the queue: every accepted job has been handed to the dispatcher, is still pending, or
    was removed by a Purge (which closes what it removes) -/
theorem accepted_is_somewhere {s : State} (h : Reach s) : ∀ j ∈ s.accepted, j ∈ s.d.deqd ∨ j ∈ s.pending ∨ j ∈ s.dropped :=
  (inv_reach h).kept

/-- "with concurrency 1 this is exactly the execution order": as long as the limit never exceeded 1, worker functions
    start in acceptance order (the jobs missing from the sequence were purged, cancelled or skipped) -/
theorem serial_is_acceptance_order {s : State} (h : Reach s) (hl : s.d.maxLim ≤ 1) : s.d.entered.Sublist s.accepted :=
  List.Sublist.trans (Disp.serial_is_handout_order (disp_reach h) hl) (handout_is_acceptance_order h)

/-- nothing runs that was not accepted -/
theorem started_were_accepted {s : State} (h : Reach s) : ∀ j ∈ s.d.entered, j ∈ s.accepted := by
  intro j hj
  exact (handout_is_acceptance_order h).subset (Disp.entered_subset_deqd (disp_reach h) j hj)

/-- with limit n: when job j starts, at most n − 1 of the jobs handed out before it are still waiting to start -/
theorem ahead_slack {s : State} (h : Reach s) {j : Nat} (hj : j ∈ s.d.entered) :
    (Disp.waitingAhead s.d j).length + 1 ≤ s.d.maxLim :=
  Disp.ahead_slack_stable (disp_reach h) hj

theorem reach_run {s s' : State} {es : List Ev} (h : Reach s) (hrun : run s es = .ok s') : Reach s' := by
  induction es generalizing s with
  | nil =>
    simp only [run] at hrun
    cases hrun
    exact h
  | cons e es ih =>
    simp only [run] at hrun
    split at hrun
    · rename_i s1 hs1
      exact ih (Reach.step e h hs1) hrun
    · cases hrun

/-! ## Non-vacuity -/

def okState : Except String State → Option State
  | .ok s => some s
  | .error _ => none

/-- three submissions, limit 1: they run in acceptance order -/
example : (okState (run init [.d (.lim 1), .enq 1, .enq 2, .enq 3, .d (.deq 1), .d (.enter 1), .d (.done 1),
    .d (.deq 2), .d (.enter 2), .d (.done 2), .d (.deq 3), .d (.enter 3)])).map (fun s => (s.d.entered, s.accepted)) =
    some ([1, 2, 3], [1, 2, 3]) := by decide

/-- the dispatcher cannot take the second job first -/
example : (okState (run init [.d (.lim 1), .enq 1, .enq 2, .d (.deq 2)])).isNone = true := by decide

/-- a purged job is missing from the execution order, the rest keeps its order -/
example : (okState (run init [.d (.lim 1), .enq 1, .enq 2, .enq 3, .d (.deq 1), .drop 2, .d (.enter 1), .d (.done 1),
    .d (.deq 3), .d (.enter 3)])).map (fun s => (s.d.entered, s.accepted)) = some ([1, 3], [1, 2, 3]) := by decide

/-- with limit 2 the second job may start before the first -/
example : (okState (run init [.d (.lim 2), .enq 1, .enq 2, .d (.deq 1), .d (.deq 2), .d (.enter 2), .d (.enter 1)])).map
    (fun s => s.d.entered) = some [2, 1] := by decide

example : ∃ s, Reach s ∧ s.d.maxLim ≤ 1 ∧ s.d.entered = [1, 2] ∧ s.accepted = [1, 2] := by
  refine ⟨_, reach_run Reach.init (es := [.d (.lim 1), .enq 1, .enq 2, .d (.deq 1), .d (.enter 1), .d (.done 1), .d (.deq 2), .d (.enter 2)]) rfl, ?_, rfl, rfl⟩
  decide

#print axioms accepted_is_somewhere
#print axioms handout_is_acceptance_order
#print axioms serial_is_acceptance_order
#print axioms started_were_accepted
#print axioms ahead_slack

end FifoDisp
end VarmqVerif
