/-
  Representation invariant and abstraction function of the segmented FIFO model, and the
  per-method lemmas (`enqueue`, `dequeue`) used by Proofs/Fifo.lean.
-/
import VarmqVerif.Spec.ListQueue

namespace VarmqVerif
namespace Fifo

universe u
variable {α : Type u}

/-! ## Abstraction function -/

/-- Unread items of a list of chunks, in order. -/
def absChunks (cs : List (Chunk α)) : List α := cs.flatMap Chunk.unread

/-- The abstract queue content: the unread items of all reachable chunks, oldest first. -/
def abs (s : State α) : List α := absChunks s.chunks

/-! ## Representation invariant -/

/-- Per-chunk well-formedness: `NextReadIndex ≤ NextWriteIndex ≤ Cap()`, `1 ≤ Cap() ≤ M`. -/
structure Chunk.WF (M : Nat) (c : Chunk α) : Prop where
  r_le : c.r ≤ c.data.length
  w_le : c.data.length ≤ c.cap
  cap_pos : 1 ≤ c.cap
  cap_le : c.cap ≤ M

/-- What holds of every chunk behind `readChunk`: nothing read yet, at least one item written. -/
structure Chunk.Tail (c : Chunk α) : Prop where
  r_zero : c.r = 0
  nonempty : 1 ≤ c.data.length

/-- Invariant of the chunk list `c :: rest` (`c` = read chunk, last = write chunk):
    every chunk is well-formed, every chunk except the last is full (`NextWriteIndex = Cap()`),
    every chunk except the first satisfies `Tail`. -/
def ListInv (M : Nat) : Chunk α → List (Chunk α) → Prop
  | c, [] => c.WF M
  | c, d :: ds => c.WF M ∧ c.data.length = c.cap ∧ d.Tail ∧ ListInv M d ds

/-- The representation invariant of the queue. -/
structure Inv (s : State α) : Prop where
  ic_pos : 1 ≤ s.initCap
  mc_pos : 1 ≤ s.maxCap
  chunks : ListInv (max s.initCap s.maxCap) s.head s.rest
  /-- `readCount ≤ writeCount` and `writeCount - readCount = |abs s|`, in one equation. -/
  count : s.writeCount = s.readCount + (abs s).length

/-! ## Chunk lemmas -/

theorem Chunk.push_eq (c : Chunk α) (x : α) :
    c.push x = if c.cap ≤ c.data.length then (c, false)
               else ({ c with data := c.data ++ [x] }, true) := by
  simp [Chunk.push, Chunk.isFull, Chunk.w]

theorem Chunk.pop_eq (c : Chunk α) :
    c.pop = if h : c.r < c.data.length then ({ c with r := c.r + 1 }, some c.data[c.r])
            else (c, none) := by
  unfold Chunk.pop Chunk.w
  by_cases h : c.r < c.data.length
  · have : ¬ c.r ≥ c.data.length := by omega
    simp [h, this]
  · have : c.r ≥ c.data.length := by omega
    simp [h, this]

theorem ListInv.head_wf {M : Nat} {c : Chunk α} {rest : List (Chunk α)} (h : ListInv M c rest) :
    c.WF M := by
  cases rest with
  | nil => exact h
  | cons d ds => exact h.1

/-- Every reachable chunk is well-formed. -/
theorem ListInv.forall_wf {M : Nat} : ∀ {rest : List (Chunk α)} {c : Chunk α}, ListInv M c rest →
    ∀ c' ∈ c :: rest, c'.WF M := by
  intro rest
  induction rest with
  | nil => intro c h c' hc'; simp at hc'; subst hc'; exact h
  | cons d ds ih =>
    intro c h c' hc'
    rcases List.mem_cons.1 hc' with rfl | hc'
    · exact h.1
    · exact ih h.2.2.2 c' hc'

/-- Replacing the head chunk by one with the same `data`/`cap` (i.e. changing only `r`). -/
theorem ListInv.replace_head {M : Nat} {c c' : Chunk α} {rest : List (Chunk α)}
    (h : ListInv M c rest) (hd : c'.data = c.data) (hc : c'.cap = c.cap) (hwf : c'.WF M) :
    ListInv M c' rest := by
  cases rest with
  | nil => exact hwf
  | cons d ds => exact ⟨hwf, by rw [hd, hc]; exact h.2.1, h.2.2⟩

/-- Every chunk behind the read chunk is unread (`r = 0`) and non-empty. -/
theorem ListInv.rest_tail {M : Nat} : ∀ {rest : List (Chunk α)} {c : Chunk α}, ListInv M c rest →
    ∀ d ∈ rest, d.Tail := by
  intro rest
  induction rest with
  | nil => intro c _ d hd; simp at hd
  | cons e es ih =>
    intro c h d hd
    rcases List.mem_cons.1 hd with rfl | hd
    · exact h.2.2.1
    · exact ih h.2.2.2 d hd

/-- Every chunk except the write chunk (the last one) is full. -/
theorem ListInv.dropLast_full {M : Nat} : ∀ {rest : List (Chunk α)} {c : Chunk α}, ListInv M c rest →
    ∀ d ∈ (c :: rest).dropLast, d.data.length = d.cap := by
  intro rest
  induction rest with
  | nil => intro c _ d hd; simp at hd
  | cons e es ih =>
    intro c h d hd
    rw [List.dropLast_cons_cons] at hd
    rcases List.mem_cons.1 hd with rfl | hd
    · exact h.2.1
    · exact ih h.2.2.2 d hd

/-- `Inv` spelled out without the recursive `ListInv`. -/
theorem Inv.readable {s : State α} (h : Inv s) :
    1 ≤ s.initCap ∧ 1 ≤ s.maxCap ∧
    (∀ c ∈ s.chunks, c.r ≤ c.data.length ∧ c.data.length ≤ c.cap ∧ 1 ≤ c.cap ∧
        c.cap ≤ max s.initCap s.maxCap) ∧
    (∀ c ∈ s.chunks.dropLast, c.data.length = c.cap) ∧
    (∀ c ∈ s.rest, c.r = 0 ∧ 1 ≤ c.data.length) ∧
    s.readCount ≤ s.writeCount ∧ s.writeCount - s.readCount = (abs s).length := by
  refine ⟨h.ic_pos, h.mc_pos, ?_, h.chunks.dropLast_full, ?_, ?_, ?_⟩
  · intro c hc
    have := h.chunks.forall_wf c hc
    exact ⟨this.r_le, this.w_le, this.cap_pos, this.cap_le⟩
  · intro c hc
    have := h.chunks.rest_tail c hc
    exact ⟨this.r_zero, this.nonempty⟩
  · have := h.count; omega
  · have := h.count; omega

theorem absChunks_cons (c : Chunk α) (cs : List (Chunk α)) :
    absChunks (c :: cs) = c.unread ++ absChunks cs := by
  simp [absChunks]

@[simp] theorem absChunks_nil : absChunks ([] : List (Chunk α)) = [] := rfl

/-! ## Enqueue -/

theorem enqChunks_spec {M mc : Nat} (x : α) (h1 : 1 ≤ mc) (hM : mc ≤ M) :
    ∀ (rest : List (Chunk α)) (c : Chunk α), ListInv M c rest →
      (enqChunks mc x c rest).2 = true ∧
      ListInv M (enqChunks mc x c rest).1.1 (enqChunks mc x c rest).1.2 ∧
      absChunks ((enqChunks mc x c rest).1.1 :: (enqChunks mc x c rest).1.2)
        = absChunks (c :: rest) ++ [x] ∧
      (c.Tail → (enqChunks mc x c rest).1.1.Tail) := by
  intro rest
  induction rest with
  | nil =>
    intro c h
    have hwf : c.WF M := h
    by_cases hf : c.cap ≤ c.data.length
    · -- write chunk full: link a new chunk
      have hn : ¬ (min (c.cap + c.cap / 2) mc ≤ 0) := by have := hwf.cap_pos; omega
      have hn1 : 1 ≤ min (c.cap + c.cap / 2) mc := by omega
      have hn2 : min (c.cap + c.cap / 2) mc ≤ M := by omega
      have hres : enqChunks mc x c [] =
          ((c, [{ cap := min (c.cap + c.cap / 2) mc, data := [x], r := 0 }]), true) := by
        simp only [enqChunks, Chunk.push_eq, hf, if_true, Chunk.new, List.length_nil, hn,
          if_false, List.nil_append]
      rw [hres]
      refine ⟨rfl, ⟨hwf, ?_, ⟨rfl, by simp⟩, ⟨by simp, by simpa using hn1, hn1, hn2⟩⟩, ?_, fun t => t⟩
      · show c.data.length = c.cap
        have := hwf.w_le; omega
      · simp [absChunks, Chunk.unread]
    · have hres : enqChunks mc x c [] = (({ c with data := c.data ++ [x] }, []), true) := by
        simp only [enqChunks, Chunk.push_eq, hf, if_false]
      rw [hres]
      refine ⟨rfl, ?_, ?_, ?_⟩
      · show Chunk.WF M _
        exact ⟨by simp; have := hwf.r_le; omega, by simp; omega, hwf.cap_pos, hwf.cap_le⟩
      · simp [absChunks, Chunk.unread, List.drop_append_of_le_length hwf.r_le]
      · intro t; exact ⟨t.r_zero, by simp⟩
  | cons d ds ih =>
    intro c h
    obtain ⟨hwf, hfull, htail, hrest⟩ := h
    obtain ⟨ih1, ih2, ih3, ih4⟩ := ih d hrest
    have hres : enqChunks mc x c (d :: ds) =
        ((c, (enqChunks mc x d ds).1.1 :: (enqChunks mc x d ds).1.2), (enqChunks mc x d ds).2) := by
      simp only [enqChunks]
    rw [hres]
    refine ⟨ih1, ⟨hwf, hfull, ih4 htail, ih2⟩, ?_, fun t => t⟩
    rw [absChunks_cons, ih3, absChunks_cons c, List.append_assoc]

/-- `Enqueue` on an open queue satisfying `Inv`: succeeds, appends, keeps `Inv`. -/
theorem enqueue_open {s : State α} (h : Inv s) (hc : s.closed = false) (x : α) :
    (enqueue s x).2 = true ∧ abs (enqueue s x).1 = abs s ++ [x] ∧ Inv (enqueue s x).1 ∧
    (enqueue s x).1.closed = false := by
  have hM : s.maxCap ≤ max s.initCap s.maxCap := by omega
  obtain ⟨e1, e2, e3, _⟩ := enqChunks_spec x h.mc_pos hM s.rest s.head h.chunks
  have habs : abs (enqueue s x).1 = abs s ++ [x] := by
    simp only [enqueue, hc, Bool.false_eq_true, if_false, abs, State.chunks]
    exact e3
  refine ⟨by simp [enqueue, hc, e1], habs, ⟨?_, ?_, ?_, ?_⟩, by simp [enqueue, hc]⟩
  · simpa [enqueue, hc] using h.ic_pos
  · simpa [enqueue, hc] using h.mc_pos
  · simpa [enqueue, hc] using e2
  · rw [habs]
    simp only [enqueue, hc, Bool.false_eq_true, if_false, e1, if_true, List.length_append,
      List.length_cons, List.length_nil]
    have := h.count; omega

theorem enqueue_closed {s : State α} (hc : s.closed = true) (x : α) :
    enqueue s x = (s, false) := by
  simp [enqueue, hc]

/-! ## Dequeue -/

/-- `Dequeue` under `Inv`: returns the head of the abstract queue (or `none` iff it is empty),
    leaves the tail, keeps `Inv`, and does not touch `closed`/`initCap`/`maxCap`. -/
theorem dequeue_spec {s : State α} (h : Inv s) :
    (dequeue s).2 = (abs s).head? ∧ abs (dequeue s).1 = (abs s).tail ∧ Inv (dequeue s).1 ∧
    (dequeue s).1.closed = s.closed := by
  have hwf := h.chunks.head_wf
  have hcount := h.count
  by_cases hr : s.head.r < s.head.data.length
  · -- the read chunk has an item
    have hres : dequeue s =
        ({ s with head := { s.head with r := s.head.r + 1 }, readCount := s.readCount + 1 },
         some s.head.data[s.head.r]) := by
      simp only [dequeue, Chunk.pop_eq, hr, dite_true]
    have habs : abs s = s.head.data[s.head.r] :: abs (dequeue s).1 := by
      rw [hres]
      simp only [abs, State.chunks, absChunks_cons, Chunk.unread]
      rw [List.drop_eq_getElem_cons hr]; rfl
    refine ⟨by rw [habs, hres]; rfl, by rw [habs]; rfl, ?_, by rw [hres]⟩
    have hcount' : s.writeCount = s.readCount + 1 + (abs (dequeue s).1).length := by
      rw [habs] at hcount; simp at hcount; omega
    rw [hres] at hcount' ⊢
    refine ⟨h.ic_pos, h.mc_pos, ?_, hcount'⟩
    exact h.chunks.replace_head rfl rfl ⟨by show s.head.r + 1 ≤ s.head.data.length; omega, hwf.w_le, hwf.cap_pos, hwf.cap_le⟩
  · -- the read chunk is exhausted
    have hdrop : List.drop s.head.r s.head.data = [] := List.drop_eq_nil_of_le (by omega)
    cases hrest : s.rest with
    | nil =>
      have hres : dequeue s = (s, none) := by
        simp only [dequeue, Chunk.pop_eq, hr, dite_false, hrest]
      have habs : abs s = [] := by
        simp [abs, State.chunks, absChunks_cons, Chunk.unread, hdrop, hrest]
      rw [hres, habs]
      exact ⟨rfl, rfl, h, rfl⟩
    | cons d ds =>
      have hch := h.chunks
      rw [hrest] at hch
      obtain ⟨_, _, htail, hds⟩ := hch
      have hdwf := hds.head_wf
      have hd : d.r < d.data.length := by have := htail.r_zero; have := htail.nonempty; omega
      have hres : dequeue s =
          ({ s with head := { d with r := d.r + 1 }, rest := ds, readCount := s.readCount + 1 },
           some d.data[d.r]) := by
        simp only [dequeue, Chunk.pop_eq, hr, dite_false, hrest, hd, dite_true]
      have habs : abs s = d.data[d.r] :: abs (dequeue s).1 := by
        rw [hres]
        simp only [abs, State.chunks, absChunks_cons, hrest, Chunk.unread, hdrop, List.nil_append]
        rw [List.drop_eq_getElem_cons hd]; rfl
      refine ⟨by rw [habs, hres]; rfl, by rw [habs]; rfl, ?_, by rw [hres]⟩
      have hcount' : s.writeCount = s.readCount + 1 + (abs (dequeue s).1).length := by
        rw [habs] at hcount; simp at hcount; omega
      rw [hres] at hcount' ⊢
      refine ⟨h.ic_pos, h.mc_pos, ?_, hcount'⟩
      exact hds.replace_head rfl rfl ⟨by show d.r + 1 ≤ d.data.length; omega, hdwf.w_le, hdwf.cap_pos, hdwf.cap_le⟩

end Fifo
end VarmqVerif
