/-
  Theorems about the model `Wake` (Model/Wake.lean): the wake-up of WaitUntilFinished callers.

  For every reachable state (`Reach`, any number of goroutines and events):
    * `no_lost_wakeup`, `stale_cur_covered`      as in `Sig`
    * `crit_holds_mx`, `crit_exclusive`           mutual exclusion of condition() / Broadcast
    * `owes_sum`, `owesBc_sum`, `nOwesBc_pos_iff`, `bcast_enabled_counts`, `notify_enabled`
                                                  the ghost guards of `step` are dead
    * `nParked_counts`, `nParked_pos_iff`         nParked counts the goroutines in phase `parked`
    * `parked_covered`, `will_park_covered` (E), `saw_running_covered` (G), for 0 < conc
    * `no_waiter_stranded`                        idle ∧ 0 < conc → nobody parked
  `0 < conc` concerns the state in question only; earlier values of conc are arbitrary.
  The hypothesis is needed (`no_waiter_stranded_conc0_false`, `parked_covered_conc0_false`, `exConc0`): with a
  concurrency limit 0 no state is dispatchable, nobody ever owes anything, and a Pause strands a waiter
  that saw running ∧ Len() > 0. Before fix 185c5b0 TunePool(2^32) stored 0 (former known finding); now
  withSafeConcurrency never yields 0 (`Config.safe_concurrency_never_zero`).
  History: before `wPark` got its first guard ("Cond.Wait by the event loop goroutine") the two main
  theorems were false: `exLoopWaits` (now rejected) parked the event-loop goroutine in an idle state.
  The inductive invariant is `Inv` in Proofs/WakeLemmas.lean.
-/
import VarmqVerif.Proofs.WakeLemmas

namespace VarmqVerif
namespace Wake

/-! ## Helpers for concrete traces -/

/-- what the examples look at.  `State` has function fields, so it has no `DecidableEq`; project. -/
structure View where
  ws : Nat
  cur : Nat
  conc : Nat
  qlen : Nat
  tok : Bool
  nOwes : Nat
  nOwesBc : Nat
  dph : DPh
  mx : Option Nat
  nParked : Nat
  deriving DecidableEq, Repr

def view (s : State) : View := ⟨s.ws, s.cur, s.conc, s.qlen, s.tok, s.nOwes, s.nOwesBc, s.dph, s.mx, s.nParked⟩

def runProj {α : Type} (f : State → α) (c : Nat) (evs : List Ev) : Option α :=
  match run (init c) evs with
  | .ok s => some (f s)
  | .error _ => none

theorem reach_of_runProj {α : Type} {f : State → α} {c : Nat} {evs : List Ev} {x : α}
    (h : runProj f c evs = some x) : ∃ s, Reach s ∧ f s = x := by
  unfold runProj at h
  split at h
  · rename_i s hs
    exact ⟨s, reach_run (Reach.init c) hs, by simpa using h⟩
  · cases h

theorem of_view {s : State} {ws cur conc qlen nOwes nOwesBc nParked : Nat} {tok : Bool} {dph : DPh} {mx : Option Nat}
    (h : view s = ⟨ws, cur, conc, qlen, tok, nOwes, nOwesBc, dph, mx, nParked⟩) :
    s.ws = ws ∧ s.cur = cur ∧ s.conc = conc ∧ s.qlen = qlen ∧ s.tok = tok ∧ s.nOwes = nOwes ∧ s.nOwesBc = nOwesBc ∧
      s.dph = dph ∧ s.mx = mx ∧ s.nParked = nParked := by
  simpa only [view, View.mk.injEq] using h

/-! ## Concrete runs -/

/-- conc = 1.  A job is dispatched and in flight (events 1–15, the event loop parks with cur = 1).
    Goroutine 9 calls WaitUntilFinished: locks, reads running, Len() = 0, cur = 1, and parks (16–20).
    The runner 4 releases to 0 (21: it now owes a notify() and a Broadcast), locks, broadcasts to
    the one parked goroutine, unlocks, notifies (22–25).  9 wakes, re-locks, re-evaluates
    (running, 0, 0) and returns (26–31).  The event loop takes the token, finds nothing to do and
    ends its activation with its own Broadcast to nobody (32–40). -/
def exWait : List Ev := [
  .stStatus 7 running, .notify 7 true, .enq 5, .notify 5 false,
  .recvTok 0, .dStatus 0 running, .dCur 0 0, .dConc 0 1, .dLen 0 1, .dCasOk 0, .dDeq 0,
  .dStatus 0 running, .dCur 0 1, .dConc 0 1, .dCur 0 1,
  .lockMx 9, .wStatus 9 running, .wLen 9 0, .wCur 9 1, .wPark 9,
  .relX 4 0, .lockMx 4, .bcast 4 1, .unlockMx 4, .notify 4 true,
  .wWake 9, .lockMx 9, .wStatus 9 running, .wLen 9 0, .wCur 9 0, .unlockMx 9,
  .recvTok 0, .dStatus 0 running, .dCur 0 0, .dConc 0 1, .dLen 0 0, .dCur 0 0,
  .lockMx 0, .bcast 0 0, .unlockMx 0]

example : exWait.length = 40 := rfl
-- 15: the job is in flight, the event loop parked
example : runProj view 1 (exWait.take 15) = some ⟨1, 1, 1, 0, false, 0, 0, .parked, none, 0⟩ := by decide
-- 19: goroutine 9 holds the mutex and has decided to park
example : runProj (fun s => (s.wph 9, s.mx)) 1 (exWait.take 19) = some (.willPark, some 9) := by decide
-- 20: parked; the condition is still true (cur = 1)
example : runProj (fun s => (s.wph 9, view s)) 1 (exWait.take 20)
    = some (.parked, ⟨1, 1, 1, 0, false, 0, 0, .parked, none, 1⟩) := by decide
-- 21: the release made the condition false; a Broadcast (and a notify) is owed by goroutine 4
example : runProj (fun s => (s.owesBc 4, view s)) 1 (exWait.take 21)
    = some (1, ⟨1, 0, 1, 0, false, 1, 1, .parked, none, 1⟩) := by decide
-- 23: the Broadcast signalled goroutine 9
example : runProj (fun s => (s.wph 9, view s)) 1 (exWait.take 23)
    = some (.signalled, ⟨1, 0, 1, 0, false, 1, 0, .parked, some 4, 0⟩) := by decide
-- 30: re-evaluated: the condition is false, 9 will return
example : runProj (fun s => (s.wph 9, s.mx)) 1 (exWait.take 30) = some (.willReturn, some 9) := by decide
-- 40: at rest, nobody parked
example : runProj (fun s => (s.wph 9, view s)) 1 exWait
    = some (.idle, ⟨1, 0, 1, 0, false, 0, 0, .parked, none, 0⟩) := by decide

/-- conc = 1.  Start and one Add have happened, the token is in the channel, the event loop has not
    run yet.  Goroutine 9 (WaitUntilFinished) locks and reads status = running (5, 6); goroutine 8
    pauses the worker (7); 9 reads Len() = 1 and parks (8, 9) although its condition
    (paused ∧ cur = 0) is false by now.  The event loop takes the token, sees `paused`, leaves the
    loop, loads cur = 0 and so owes the post-loop Broadcast (10–12), which frees 9 (13–15);
    9 re-evaluates (paused, cur = 0) and returns (16–20). -/
def exPause : List Ev := [
  .stStatus 7 running, .notify 7 true, .enq 5, .notify 5 false,
  .lockMx 9, .wStatus 9 running, .stStatus 8 paused, .wLen 9 1, .wPark 9,
  .recvTok 0, .dStatus 0 paused, .dCur 0 0,
  .lockMx 0, .bcast 0 1, .unlockMx 0,
  .wWake 9, .lockMx 9, .wStatus 9 paused, .wCur 9 0, .unlockMx 9]

example : exPause.length = 20 := rfl
-- 7: 9 has read `running`, the worker is paused: only the token covers 9
example : runProj (fun s => (s.wph 9, view s)) 1 (exPause.take 7)
    = some (.sawStatus running, ⟨2, 0, 1, 1, true, 0, 0, .parked, some 9, 0⟩) := by decide
-- 9: parked with a false condition; the token covers it
example : runProj (fun s => (s.wph 9, view s)) 1 (exPause.take 9)
    = some (.parked, ⟨2, 0, 1, 1, true, 0, 0, .parked, none, 1⟩) := by decide
-- 11: the token is consumed; the active event loop covers it
example : runProj view 1 (exPause.take 11) = some ⟨2, 0, 1, 1, false, 0, 0, .exiting, none, 1⟩ := by decide
-- 12: the event loop owes the Broadcast
example : runProj (fun s => (s.owesBc 0, view s)) 1 (exPause.take 12)
    = some (1, ⟨2, 0, 1, 1, false, 0, 1, .parked, none, 1⟩) := by decide
-- 14: signalled
example : runProj (fun s => (s.wph 9, view s)) 1 (exPause.take 14)
    = some (.signalled, ⟨2, 0, 1, 1, false, 0, 0, .parked, some 0, 0⟩) := by decide
-- 20: returned; the worker is paused with one job queued, nobody parked
example : runProj (fun s => (s.wph 9, view s)) 1 exPause
    = some (.idle, ⟨2, 0, 1, 1, false, 0, 0, .parked, none, 0⟩) := by decide

/-- conc = 1, pause() = `status.Store(paused); releaseWaiters(cur.Load())`.  Start and one Add have
    happened, the token is pending, the event loop has not run yet.  Goroutine 9 sees running,
    Len() = 1 and parks (5–8).  Goroutine 8 pauses: stores `paused` (9), loads cur = 0 and so owes a
    Broadcast (10), locks, broadcasts to the one parked goroutine, unlocks (11–13).  9 wakes,
    re-evaluates (paused, cur = 0) and returns (14–18), before the event loop has even taken the
    token; the event loop's own post-loop Broadcast then reaches nobody (19–24). -/
def exPauseBc : List Ev := [
  .stStatus 7 running, .notify 7 true, .enq 5, .notify 5 false,
  .lockMx 9, .wStatus 9 running, .wLen 9 1, .wPark 9,
  .stStatus 8 paused, .pCur 8 0, .lockMx 8, .bcast 8 1, .unlockMx 8,
  .wWake 9, .lockMx 9, .wStatus 9 paused, .wCur 9 0, .unlockMx 9,
  .recvTok 0, .dStatus 0 paused, .dCur 0 0, .lockMx 0, .bcast 0 0, .unlockMx 0]

example : exPauseBc.length = 24 := rfl
-- 8: parked on a running worker with a job queued (dispatchable: the pending token covers that)
example : runProj (fun s => (s.wph 9, view s)) 1 (exPauseBc.take 8)
    = some (.parked, ⟨1, 0, 1, 1, true, 0, 0, .parked, none, 1⟩) := by decide
-- 10: paused; pause() loaded cur = 0 and owes the Broadcast
example : runProj (fun s => (s.owesBc 8, view s)) 1 (exPauseBc.take 10)
    = some (1, ⟨2, 0, 1, 1, true, 0, 1, .parked, none, 1⟩) := by decide
-- 12: the Broadcast signalled goroutine 9
example : runProj (fun s => (s.wph 9, view s)) 1 (exPauseBc.take 12)
    = some (.signalled, ⟨2, 0, 1, 1, true, 0, 0, .parked, some 8, 0⟩) := by decide
-- 18: 9 has returned while the token is still pending
example : runProj (fun s => (s.wph 9, view s)) 1 (exPauseBc.take 18)
    = some (.idle, ⟨2, 0, 1, 1, true, 0, 0, .parked, none, 0⟩) := by decide
-- 24: at rest
example : runProj (fun s => (s.wph 9, view s)) 1 exPauseBc
    = some (.idle, ⟨2, 0, 1, 1, false, 0, 0, .parked, none, 0⟩) := by decide
-- with slots in use pause() does not broadcast (the last release will); a wrong loaded value is rejected
example : runProj (fun s => s.nOwesBc) 1 ((exWait.take 20) ++ [.stStatus 8 paused, .pCur 8 1]) = some 0 := by decide
example : runProj view 1 ((exWait.take 20) ++ [.stStatus 8 paused, .pCur 8 0]) = none := by decide

-- rejected: a Broadcast without the mutex, a Broadcast nobody owed, a Broadcast that reports the wrong
-- number of woken goroutines, Cond.Wait returning without a Broadcast, w.mx taken twice, Cond.Wait
-- after condition() = false
example : runProj view 1 ((exWait.take 21) ++ [.bcast 4 1]) = none := by decide
example : runProj view 1 ((exWait.take 20) ++ [.lockMx 4, .bcast 4 1]) = none := by decide
example : runProj view 1 ((exWait.take 22) ++ [.bcast 4 0]) = none := by decide
example : runProj view 1 ((exWait.take 20) ++ [.wWake 9]) = none := by decide
example : runProj view 1 ((exWait.take 16) ++ [.lockMx 4]) = none := by decide
example : runProj view 1 ((exWait.take 30) ++ [.wPark 9]) = none := by decide

/-! ## No lost wake-up of the event loop (as in `Sig`) -/

/-- Whenever the worker is running, a slot is free and a job is pending, either a wake-up token is
    in the channel, or somebody still owes a notify(), or the event loop is going to evaluate its
    loop condition again. -/
theorem no_lost_wakeup {s : State} (hr : Reach s) (hd : Dispatchable s) :
    s.tok = true ∨ 0 < s.nOwes ∨ s.dph.willEval = true :=
  (reach_invAB hr).1 hd

example : ∃ s, Reach s ∧ Dispatchable s ∧ s.tok = true ∧ s.nOwes = 0 ∧ s.dph.willEval = false := by
  have h : runProj view 1 (exPause.take 4) = some ⟨1, 0, 1, 1, true, 0, 0, .parked, none, 0⟩ := by decide
  obtain ⟨s, hr, hv⟩ := reach_of_runProj h
  obtain ⟨h1, h2, h3, h4, h5, h6, h7, h8, h9, h10⟩ := of_view hv
  exact ⟨s, hr, ⟨h1, by omega, by omega⟩, h5, h6, by simp [h8, DPh.willEval]⟩

/-- Clause (B) of the invariant: while the event loop holds a loaded value `c` of `cur` that is
    larger than the current `cur`, a token or an owed notify() exists. -/
theorem stale_cur_covered {s : State} {c : Nat} (hr : Reach s) (hp : s.dph = .sawCur c) (hc : s.cur < c) :
    s.tok = true ∨ 0 < s.nOwes := by
  rcases (reach_invAB hr).2 c hp with h | h
  · omega
  · exact h

/-! ## Mutual exclusion -/

/-- a goroutine between `w.mx.Lock()` / waking up in Cond.Wait and `Cond.Wait` / `w.mx.Unlock()`
    holds the mutex -/
theorem crit_holds_mx {s : State} (hr : Reach s) (g : Nat) (hc : (s.wph g).crit = true) : s.mx = some g :=
  reach_invM hr g hc

theorem crit_exclusive {s : State} (hr : Reach s) (g g' : Nat) (hc : (s.wph g).crit = true)
    (hc' : (s.wph g').crit = true) : g = g' := by
  have h1 := reach_invM hr g hc
  have h2 := reach_invM hr g' hc'
  rw [h1] at h2
  exact Option.some.inj h2

example : ∃ s, Reach s ∧ (s.wph 9).crit = true := by
  have h : runProj (fun s => s.wph 9) 1 (exWait.take 19) = some .willPark := by decide
  obtain ⟨s, hr, hv⟩ := reach_of_runProj h
  have hv' : s.wph 9 = .willPark := hv
  exact ⟨s, hr, by simp [hv', WPh.crit]⟩

/-! ## The ghost counters -/

/-- `nOwes` is the sum of `owes` over a finite duplicate-free set of goroutines outside of which
    `owes` is 0. -/
theorem owes_sum {s : State} (hr : Reach s) :
    ∃ l : List Nat, l.Nodup ∧ (∀ g, g ∉ l → s.owes g = 0) ∧ (l.map s.owes).sum = s.nOwes :=
  (reach_ghost hr).1

/-- `nOwesBc` is the sum of `owesBc` in the same sense. -/
theorem owesBc_sum {s : State} (hr : Reach s) :
    ∃ l : List Nat, l.Nodup ∧ (∀ g, g ∉ l → s.owesBc g = 0) ∧ (l.map s.owesBc).sum = s.nOwesBc :=
  (reach_ghost hr).2

theorem owes_le_nOwes {s : State} (hr : Reach s) (g : Nat) : s.owes g ≤ s.nOwes :=
  sumOf_le (reach_ghost hr).1 g

theorem owesBc_le_nOwesBc {s : State} (hr : Reach s) (g : Nat) : s.owesBc g ≤ s.nOwesBc :=
  sumOf_le (reach_ghost hr).2 g

theorem nOwesBc_pos_iff {s : State} (hr : Reach s) : 0 < s.nOwesBc ↔ ∃ g, 0 < s.owesBc g := by
  constructor
  · exact sumOf_pos (reach_ghost hr).2
  · intro ⟨g, hp⟩
    have := owesBc_le_nOwesBc hr g
    omega

theorem nOwes_pos_iff {s : State} (hr : Reach s) : 0 < s.nOwes ↔ ∃ g, 0 < s.owes g := by
  constructor
  · exact sumOf_pos (reach_ghost hr).1
  · intro ⟨g, hp⟩
    have := owes_le_nOwes hr g
    omega

/-- The ghost guards of `bcast` are never hit: whoever holds w.mx and owes a Broadcast can perform
    it, waking exactly the `nParked` parked goroutines. -/
theorem bcast_enabled_counts {s : State} {g : Nat} (hr : Reach s) (hm : s.mx = some g) (ho : 0 < s.owesBc g) :
    ∃ s', step s (.bcast g s.nParked) = .ok s' := by
  have hle := owesBc_le_nOwesBc hr g
  have h1 : s.owesBc g ≠ 0 := by omega
  have h2 : s.nOwesBc ≠ 0 := by omega
  simp [step, hm, h1, h2]

/-- notify() is enabled in every reachable state with the send result the channel dictates. -/
theorem notify_enabled {s : State} (hr : Reach s) (g : Nat) : ∃ s', step s (.notify g (!s.tok)) = .ok s' := by
  have hle := owes_le_nOwes hr g
  by_cases h0 : s.owes g = 0
  · cases ht : s.tok <;> simp [step, ht, h0]
  · have h2 : s.nOwes ≠ 0 := by omega
    cases ht : s.tok <;> simp [step, ht, h0, h2]

/-- `nParked` is the number of goroutines in phase `parked`: they form a duplicate-free list of that
    length. -/
theorem nParked_counts {s : State} (hr : Reach s) :
    ∃ l : List Nat, l.Nodup ∧ (∀ g, s.wph g = .parked ↔ g ∈ l) ∧ l.length = s.nParked :=
  reach_parkedList hr

theorem nParked_pos_iff {s : State} (hr : Reach s) : 0 < s.nParked ↔ ∃ g, s.wph g = .parked := by
  obtain ⟨l, _, hm, hlen⟩ := nParked_counts hr
  constructor
  · intro h
    cases l with
    | nil => simp at hlen; omega
    | cons a t => exact ⟨a, (hm a).mpr List.mem_cons_self⟩
  · intro ⟨g, hg⟩
    have := List.length_pos_of_mem ((hm g).mp hg)
    omega

-- non-vacuity: a reachable state in which the mutex holder owes a Broadcast and one goroutine is parked
example : ∃ s g, Reach s ∧ s.mx = some g ∧ 0 < s.owesBc g ∧ s.nParked = 1 ∧ s.wph 9 = .parked := by
  have h : runProj (fun s => (s.mx, s.owesBc 4, s.nParked, s.wph 9)) 1 (exWait.take 22) = some (some 4, 1, 1, .parked) := by
    decide
  obtain ⟨s, hr, hv⟩ := reach_of_runProj h
  simp only [Prod.mk.injEq] at hv
  exact ⟨s, 4, hr, hv.1, by omega, hv.2.2.1, hv.2.2.2⟩

-- two goroutines owe one Broadcast each (the runner has notified but not yet got the mutex)
example : runProj (fun s => (s.owesBc 0, s.owesBc 4, s.nOwesBc)) 1
    ((exWait.take 21) ++ [.notify 4 true] ++ (exWait.drop 31).take 6)
    = some (1, 1, 2) := by decide

/-! ## Parked waiters are covered -/

/-- a Broadcast is on its way: one is owed; or the event loop is active and will end its activation
    with releaseWaiters(cur.Load()); or a token / an owed notify() will activate it; or slots are in
    use, and the release that brings `cur` to 0 broadcasts -/
def BcComing (s : State) : Prop :=
  0 < s.nOwesBc ∨ s.dph.active = true ∨ s.tok = true ∨ 0 < s.nOwes ∨ 0 < s.cur

/-- A goroutine parked in WaitUntilFinished and not yet signalled either still has a true condition,
    or a Broadcast is on its way.  False when the concurrency limit is 0, see
    `parked_covered_conc0_false`. -/
theorem parked_covered {s : State} (hr : Reach s) (hc : 0 < s.conc) (hp : 0 < s.nParked) :
    CondTrue s ∨ BcComing s :=
  (reach_inv hr).c hc hp

/-- (E) a goroutine, not the event loop, that has decided to park (and still holds w.mx): its condition is still true or
    a Broadcast *by somebody else* is on its way -/
theorem will_park_covered {s : State} {g : Nat} (hr : Reach s) (hc : 0 < s.conc) (hp : s.wph g = .willPark)
    (hd : s.disp ≠ some g) :
    CondTrue s ∨ s.owesBc g < s.nOwesBc ∨ s.dph.active = true ∨ s.tok = true ∨ 0 < s.nOwes ∨ 0 < s.cur :=
  (reach_inv hr).e hc g hp hd

/-- (G) a goroutine, not the event loop, that has read status = running inside condition() -/
theorem saw_running_covered {s : State} {g : Nat} (hr : Reach s) (hc : 0 < s.conc)
    (hp : s.wph g = .sawStatus running) (hd : s.disp ≠ some g) :
    s.ws = running ∨ (s.owesBc g < s.nOwesBc ∨ s.dph.active = true ∨ s.tok = true ∨ 0 < s.nOwes ∨ 0 < s.cur) ∨
      (s.qlen = 0 ∧ s.cur = 0) :=
  (reach_inv hr).g hc g hp hd

-- non-vacuity: parked with a false condition, covered only by the token / only by the active event
-- loop / only by an owed Broadcast; parked with a true condition and nothing coming but cur > 0
example : ∃ s, Reach s ∧ 0 < s.conc ∧ 0 < s.nParked ∧ ¬ CondTrue s ∧
    s.nOwesBc = 0 ∧ s.dph.active = false ∧ s.tok = true ∧ s.nOwes = 0 ∧ s.cur = 0 := by
  have h : runProj view 1 (exPause.take 9) = some ⟨2, 0, 1, 1, true, 0, 0, .parked, none, 1⟩ := by decide
  obtain ⟨s, hr, hv⟩ := reach_of_runProj h
  obtain ⟨h1, h2, h3, h4, h5, h6, h7, h8, h9, h10⟩ := of_view hv
  exact ⟨s, hr, by omega, by omega, by simp [CondTrue, h1, h2], h7, by simp [h8, DPh.active], h5, h6, h2⟩

example : ∃ s, Reach s ∧ 0 < s.conc ∧ 0 < s.nParked ∧ ¬ CondTrue s ∧
    s.nOwesBc = 0 ∧ s.dph.active = true ∧ s.tok = false ∧ s.nOwes = 0 ∧ s.cur = 0 := by
  have h : runProj view 1 (exPause.take 11) = some ⟨2, 0, 1, 1, false, 0, 0, .exiting, none, 1⟩ := by decide
  obtain ⟨s, hr, hv⟩ := reach_of_runProj h
  obtain ⟨h1, h2, h3, h4, h5, h6, h7, h8, h9, h10⟩ := of_view hv
  exact ⟨s, hr, by omega, by omega, by simp [CondTrue, h1, h2], h7, by simp [h8, DPh.active], h5, h6, h2⟩

example : ∃ s, Reach s ∧ 0 < s.conc ∧ 0 < s.nParked ∧ ¬ CondTrue s ∧
    0 < s.nOwesBc ∧ s.dph.active = false ∧ s.tok = false ∧ s.nOwes = 0 ∧ s.cur = 0 := by
  have h : runProj view 1 (exPause.take 12) = some ⟨2, 0, 1, 1, false, 0, 1, .parked, none, 1⟩ := by decide
  obtain ⟨s, hr, hv⟩ := reach_of_runProj h
  obtain ⟨h1, h2, h3, h4, h5, h6, h7, h8, h9, h10⟩ := of_view hv
  exact ⟨s, hr, by omega, by omega, by simp [CondTrue, h1, h2], by omega, by simp [h8, DPh.active], h5, h6, h2⟩

example : ∃ s, Reach s ∧ 0 < s.conc ∧ 0 < s.nParked ∧ CondTrue s ∧
    s.nOwesBc = 0 ∧ s.dph.active = false ∧ s.tok = false ∧ s.nOwes = 0 ∧ 0 < s.cur := by
  have h : runProj view 1 (exWait.take 20) = some ⟨1, 1, 1, 0, false, 0, 0, .parked, none, 1⟩ := by decide
  obtain ⟨s, hr, hv⟩ := reach_of_runProj h
  obtain ⟨h1, h2, h3, h4, h5, h6, h7, h8, h9, h10⟩ := of_view hv
  exact ⟨s, hr, by omega, by omega, by simp [CondTrue, h1, h2], h7, by simp [h8, DPh.active], h5, h6, by omega⟩

/-- C06/C03 "cannot miss the wake-up and sleep forever": in a state where nothing is going to happen
    any more on the library side, nobody is parked in WaitUntilFinished / PauseAndWait.
    False for conc = 0 (`no_waiter_stranded_conc0_false`). -/
theorem no_waiter_stranded {s : State} (hr : Reach s) (hi : Idle s) (hc : 0 < s.conc) : s.nParked = 0 := by
  obtain ⟨h1, h2, h3, h4, h5, h6⟩ := hi
  apply Classical.byContradiction
  intro hp
  rcases parked_covered hr hc (by omega) with h | h
  · have hd : Dispatchable s := by
      unfold CondTrue at h
      unfold Dispatchable
      omega
    rcases no_lost_wakeup hr hd with h' | h' | h'
    · simp [h1] at h'
    · omega
    · simp [h4, DPh.willEval] at h'
  · unfold BcComing at h
    rcases h with h | h | h | h | h
    · omega
    · simp [h4, DPh.active] at h
    · simp [h1] at h
    · omega
    · omega

-- non-vacuity: idle states after somebody had parked
example : ∃ s, Reach s ∧ Idle s ∧ 0 < s.conc ∧ s.ws = running := by
  have h : runProj view 1 exWait = some ⟨1, 0, 1, 0, false, 0, 0, .parked, none, 0⟩ := by decide
  obtain ⟨s, hr, hv⟩ := reach_of_runProj h
  obtain ⟨h1, h2, h3, h4, h5, h6, h7, h8, h9, h10⟩ := of_view hv
  exact ⟨s, hr, ⟨h5, h6, h7, h8, h2, h9⟩, by omega, h1⟩

example : ∃ s, Reach s ∧ Idle s ∧ 0 < s.conc ∧ s.ws = paused ∧ 0 < s.qlen := by
  have h : runProj view 1 exPause = some ⟨2, 0, 1, 1, false, 0, 0, .parked, none, 0⟩ := by decide
  obtain ⟨s, hr, hv⟩ := reach_of_runProj h
  obtain ⟨h1, h2, h3, h4, h5, h6, h7, h8, h9, h10⟩ := of_view hv
  exact ⟨s, hr, ⟨h5, h6, h7, h8, h2, h9⟩, by omega, h1, by omega⟩

/-! ## Counterexamples -/

/-- `step` lets the goroutine that runs the event loop evaluate condition() (it never does in the
    Go code).  conc = 1.  The event loop 0 has reserved a slot and dequeued (cur = 1; events 1–11);
    the worker is paused (12); goroutine 0 itself locks w.mx, reads paused and cur = 1 and decides to
    park (13–15).  Still holding the mutex it releases the slot (16: result 0, it owes a Broadcast),
    broadcasts to nobody (17), leaves the loop, loads cur = 0, owes and performs the post-loop
    Broadcast, again to nobody (18–20): an idle-but-for-the-mutex state with a false condition in
    which goroutine 0 is about to park.  Its Cond.Wait (21) is rejected by the first guard of
    `wPark`; without that guard `no_waiter_stranded` was false. -/
def exLoopWaits : List Ev := [
  .stStatus 7 running, .notify 7 true, .enq 5, .notify 5 false,
  .recvTok 0, .dStatus 0 running, .dCur 0 0, .dConc 0 1, .dLen 0 1, .dCasOk 0, .dDeq 0,
  .stStatus 8 paused,
  .lockMx 0, .wStatus 0 paused, .wCur 0 1,
  .dRel 0 0, .bcast 0 0, .dStatus 0 paused, .dCur 0 0, .bcast 0 0,
  .wPark 0]

example : exLoopWaits.length = 21 := rfl
example : runProj (fun s => (s.wph 0, view s)) 1 (exLoopWaits.take 20)
    = some (.willPark, ⟨2, 0, 1, 0, false, 0, 0, .parked, some 0, 0⟩) := by decide
example : runProj view 1 exLoopWaits = none := by decide

/-- the same through `sawStatus running`: goroutine 0 locks and reads `running` (14, 15), the worker
    is paused (16), 0 releases, broadcasts, leaves the loop, broadcasts (17–21), reads Len() = 1
    (22); its Cond.Wait (23) is rejected.  This is why (E) and (G) exclude the event loop. -/
def exLoopWaits' : List Ev := [
  .stStatus 7 running, .notify 7 true, .enq 5, .notify 5 false, .enq 5, .notify 5 false,
  .recvTok 0, .dStatus 0 running, .dCur 0 0, .dConc 0 1, .dLen 0 2, .dCasOk 0, .dDeq 0,
  .lockMx 0, .wStatus 0 running,
  .stStatus 8 paused,
  .dRel 0 0, .bcast 0 0, .dStatus 0 paused, .dCur 0 0, .bcast 0 0,
  .wLen 0 1, .wPark 0]

example : runProj (fun s => (s.wph 0, view s)) 1 (exLoopWaits'.take 22)
    = some (.willPark, ⟨2, 0, 1, 1, false, 0, 0, .parked, some 0, 0⟩) := by decide
example : runProj view 1 exLoopWaits' = none := by decide

/-- (E) is false for the event-loop goroutine: the hypothesis `disp ≠ some g` cannot be dropped. -/
theorem will_park_covered_loop_false :
    ∃ s g, Reach s ∧ 0 < s.conc ∧ s.wph g = .willPark ∧ s.disp = some g ∧ ¬ CondTrue s ∧ ¬ BcComing s := by
  have h : runProj (fun s => (s.wph 0, s.disp, view s)) 1 (exLoopWaits.take 20)
      = some (.willPark, some 0, ⟨2, 0, 1, 0, false, 0, 0, .parked, some 0, 0⟩) := by decide
  obtain ⟨s, hr, hv⟩ := reach_of_runProj h
  simp only [Prod.mk.injEq] at hv
  obtain ⟨h1, h2, h3, h4, h5, h6, h7, h8, h9, h10⟩ := of_view hv.2.2
  refine ⟨s, 0, hr, by omega, hv.1, hv.2.1, by simp [CondTrue, h1, h2], ?_⟩
  simp [BcComing, h7, h8, h5, h6, h2, DPh.active]

/-- The concurrency limit 0 (TunePool(2^32) stores 0): the event loop leaves at once (cur < conc is
    false) and broadcasts (6–12); goroutine 9 sees running ∧ Len() = 1 and parks (13–16); the worker
    is paused (17).  Nothing dispatchable ever existed, so nobody owes anything: 9 sleeps with a
    false condition in an idle state. -/
def exConc0 : List Ev := [
  .stConc 3 0, .stStatus 7 running, .notify 7 true, .enq 5, .notify 5 false,
  .recvTok 0, .dStatus 0 running, .dCur 0 0, .dConc 0 0, .dCur 0 0, .lockMx 0, .bcast 0 0, .unlockMx 0,
  .lockMx 9, .wStatus 9 running, .wLen 9 1, .wPark 9,
  .stStatus 8 paused]

#eval runProj (fun s => (s.wph 9, view s)) 1 exConc0

theorem exConc0_view :
    runProj (fun s => (s.wph 9, view s)) 1 exConc0 = some (.parked, ⟨2, 0, 0, 1, false, 0, 0, .parked, none, 1⟩) := by
  decide

theorem no_waiter_stranded_conc0_false :
    ∃ s, Reach s ∧ Idle s ∧ s.conc = 0 ∧ 0 < s.nParked ∧ ¬ CondTrue s ∧ ¬ BcComing s := by
  obtain ⟨s, hr, hv⟩ := reach_of_runProj exConc0_view
  simp only [Prod.mk.injEq] at hv
  obtain ⟨h1, h2, h3, h4, h5, h6, h7, h8, h9, h10⟩ := of_view hv.2
  refine ⟨s, hr, ⟨h5, h6, h7, h8, h2, h9⟩, h3, by omega, by simp [CondTrue, h1, h2], ?_⟩
  simp [BcComing, h7, h8, h5, h6, h2, DPh.active]

theorem parked_covered_conc0_false : ∃ s, Reach s ∧ 0 < s.nParked ∧ ¬ (CondTrue s ∨ BcComing s) := by
  obtain ⟨s, hr, _, _, hp, h1, h2⟩ := no_waiter_stranded_conc0_false
  exact ⟨s, hr, hp, fun h => h.elim h1 h2⟩

/-! ## Axioms -/

#print axioms no_lost_wakeup
#print axioms stale_cur_covered
#print axioms crit_holds_mx
#print axioms crit_exclusive
#print axioms owes_sum
#print axioms owesBc_sum
#print axioms nOwesBc_pos_iff
#print axioms bcast_enabled_counts
#print axioms notify_enabled
#print axioms nParked_counts
#print axioms nParked_pos_iff
#print axioms parked_covered
#print axioms will_park_covered
#print axioms saw_running_covered
#print axioms no_waiter_stranded
#print axioms will_park_covered_loop_false
#print axioms no_waiter_stranded_conc0_false
#print axioms parked_covered_conc0_false

end Wake
end VarmqVerif
