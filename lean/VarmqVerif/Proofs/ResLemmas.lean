/-
  Inductive invariants of the reservation / barrier protocol model `Res` (Model/Res.lean) and their
  preservation by every `step`.  The user-facing theorems are in Proofs/Res.lean.

  Four invariants, proved separately (each is inductive given the previous ones):

  * `Inv1`  counting:  `Acc` (cur = nRes + nHold + handed + nExec + nDone), `conc ≤ maxConc`,
            every `conc` value loaded by a reserving dispatcher is `≤ maxConc`, `cur ≤ maxConc`.
  * `Inv`   quiet windows (needs `Acc`):
       D  dirty g = false → openResumers = 0
       K  checked g ∧ dirty g = false → Quiet            (no resumer since `call g`: Quiet is stable)
       J  lockL = some g ∧ checked g ∧ inCall g = some a ∧ a not a resumer → Quiet
                                                          (stable because g holds w.lifecycle)
       S  ws = stopped → Quiet
       L  ls g = some stopped ∧ dirty g = false → Quiet
       F  frozen → openResumers = 0 ∧ Quiet
  * `Bud`   budget = some b → openResumers = 0 ∧ ws quiet ∧ nHold + handed ≤ b   (needs D)
  * `TkOk`  ph g ≠ idle → 1 ≤ tk g ≤ maxConc   (the value taken by the CAS of reserve(); needs `Inv1.lcc`)

  `nHold` counts the dispatchers past the status re-check (phases `checked` and `holding`): under a
  quiet status no dispatcher enters `checked` (`ldStatusD` sends it to `mustRelease`), and the limit
  re-check `ldConcR` only moves a dispatcher out of `nHold` or leaves the counters alone, so `Quiet`
  and `Bud` are stable under it.

  Proof style: `cases e`, unfold `step`, split every `if`/`match` (`res_step_cases`), the error
  branches disappear, the `.ok` branches substitute the explicit successor state; the remaining
  goals are closed by `simp`/`omega`/`grind`.
-/
import VarmqVerif.Model.Res

namespace VarmqVerif
namespace Res

/-- slot accounting: every unit of `curProcessing` is owned by exactly one protocol stage -/
def Acc (s : State) : Prop := s.cur = s.nRes + s.nHold + s.handed + s.nExec + s.nDone

/-- the worker is paused/stopped and no dispatched job exists: nothing can start, nothing runs.
    (`nRes` may be non-zero: a dispatcher may still hold a reservation it is about to give back.) -/
def Quiet (s : State) : Prop :=
  isQuietStatus s.ws = true ∧ s.nHold = 0 ∧ s.handed = 0 ∧ s.nExec = 0 ∧ s.nDone = 0

/-- unfold `step` on a concrete constructor, split all guards, discard error branches and
    substitute the successor state -/
macro "res_step_cases " h:ident : tactic =>
  `(tactic| (simp only [step] at $h:ident <;> (repeat' split at $h:ident) <;> (try (cases $h:ident))))

/-! ## Counting invariant -/

structure Inv1 (s : State) : Prop where
  acc : Acc s
  conc : s.conc ≤ s.maxConc
  lcc : ∀ g cc, s.lcc g = some cc → cc ≤ s.maxConc
  cur : s.cur ≤ s.maxConc

theorem inv1_init (c : Nat) : Inv1 (init c) := by
  refine ⟨?_, ?_, ?_, ?_⟩ <;> simp [Acc, init]

theorem inv1_step {s s' : State} {e : Ev} (h : step s e = .ok s') (i : Inv1 s) : Inv1 s' := by
  obtain ⟨ha, hc, hl, hm⟩ := i
  unfold Acc at ha
  cases e <;> res_step_cases h
  all_goals (refine ⟨?_, ?_, ?_, ?_⟩ <;> (try simp only [Acc]) <;> (try assumption))
  all_goals (try simp at *)
  all_goals (try omega)
  all_goals (try grind [upd])

/-! ## `Quiet` is stable as long as no non-quiet status is stored -/

theorem quiet_step {s s' : State} {e : Ev} (h : step s e = .ok s') (q : Quiet s)
    (hst : ∀ g v, e = .stStatus g v → isQuietStatus v = true) : Quiet s' := by
  obtain ⟨q1, q2, q3, q4, q5⟩ := q
  cases e <;> res_step_cases h
  all_goals (refine ⟨?_, ?_, ?_, ?_, ?_⟩ <;> (try assumption))
  all_goals (try simp at *)
  all_goals (try omega)
  all_goals (try grind)

theorem quiet_of_cur_zero {s : State} (a : Acc s) (h0 : s.cur = 0) (hw : isQuietStatus s.ws = true) :
    Quiet s := by
  unfold Acc at a; refine ⟨hw, ?_, ?_, ?_, ?_⟩ <;> omega

/-! ## What `mayStore` allows -/

theorem mayStore_nonresumer {a : Api} {v : Nat} (h : mayStore a v = true) (hr : a.isResumer = false) :
    isQuietStatus v = true := by
  cases a <;> simp_all [mayStore, Api.isResumer, isQuietStatus]

theorem mayStore_cases {a : Api} {v : Nat} (h : mayStore a v = true) :
    isQuietStatus v = true ∨ v = running ∨ v = initiated := by
  cases a <;> simp_all [mayStore, isQuietStatus] <;> omega

theorem mayStore_stopped {a : Api} (h : mayStore a stopped = true) : a.isResumer = false := by
  cases a <;> first | rfl | exact absurd h (by decide)

/-! ## Quiet-window invariant -/

structure Inv (s : State) : Prop where
  D : ∀ g, s.dirty g = false → s.openResumers = 0
  K : ∀ g, s.checked g = true → s.dirty g = false → Quiet s
  J : ∀ g a, s.lockL = some g → s.checked g = true → s.inCall g = some a → a.isResumer = false → Quiet s
  S : s.ws = stopped → Quiet s
  L : ∀ g, s.ls g = some stopped → s.dirty g = false → Quiet s
  F : s.frozen = true → s.openResumers = 0 ∧ Quiet s

theorem inv_init (c : Nat) : Inv (init c) := by
  refine ⟨?_, ?_, ?_, ?_, ?_, ?_⟩ <;> simp [init]

/-- every event except a status store -/
theorem inv_step_nonst {s s' : State} {e : Ev} (h : step s e = .ok s') (a : Acc s) (i : Inv s)
    (hst : ∀ g v, e ≠ .stStatus g v) : Inv s' := by
  have hq : Quiet s → Quiet s' := fun q => quiet_step h q (fun g v he => absurd he (hst g v))
  have hz : s.cur = 0 → isQuietStatus s.ws = true → Quiet s := quiet_of_cur_zero a
  obtain ⟨hD, hK, hJ, hS, hL, hF⟩ := i
  cases e <;> res_step_cases h
  all_goals (refine ⟨?_, ?_, ?_, ?_, ?_, ?_⟩)
  all_goals (try simp at *)
  all_goals (try assumption)
  all_goals (try grind [upd])

/-- a status store: the storing goroutine holds `w.lifecycle`; a non-resumer stores paused/stopped
    only; `stopped` only after its barrier condition was met in this critical section; running /
    initiated only while a resumer call is open (then nobody is non-dirty and `frozen` is false) -/
theorem inv_step_st {s s' : State} {g v : Nat} (h : step s (.stStatus g v) = .ok s') (i : Inv s) :
    Inv s' := by
  have hq : Quiet s → isQuietStatus v = true → Quiet s' :=
    fun q hv => quiet_step h q (fun g' v' he => by cases he; exact hv)
  obtain ⟨hD, hK, hJ, hS, hL, hF⟩ := i
  res_step_cases h
  rename_i a _ hms _ _
  have h1 := @mayStore_nonresumer a v
  have h2 := @mayStore_cases a v
  have h3 := @mayStore_stopped a
  all_goals (refine ⟨?_, ?_, ?_, ?_, ?_, ?_⟩)
  all_goals (try simp at *)
  all_goals (try assumption)
  all_goals grind

theorem inv_step {s s' : State} {e : Ev} (h : step s e = .ok s') (a : Acc s) (i : Inv s) : Inv s' := by
  by_cases hst : ∃ g v, e = .stStatus g v
  · obtain ⟨g, v, rfl⟩ := hst
    exact inv_step_st h i
  · exact inv_step_nonst h a i (fun g v he => hst ⟨g, v, he⟩)

/-! ## Budget invariant -/

def Bud (s : State) : Prop :=
  ∀ b, s.budget = some b → s.openResumers = 0 ∧ isQuietStatus s.ws = true ∧ s.nHold + s.handed ≤ b

theorem bud_init (c : Nat) : Bud (init c) := by
  simp [Bud, init]

theorem bud_step_st {s s' : State} {g v : Nat} (h : step s (.stStatus g v) = .ok s') (hB : Bud s) :
    Bud s' := by
  unfold Bud at *
  res_step_cases h
  rename_i a _ hms _ _
  have h2 := @mayStore_cases a v
  simp at *
  grind

theorem bud_step {s s' : State} {e : Ev} (h : step s e = .ok s')
    (hD : ∀ g, s.dirty g = false → s.openResumers = 0) (hB : Bud s) : Bud s' := by
  by_cases hst : ∃ g v, e = .stStatus g v
  · obtain ⟨g, v, rfl⟩ := hst
    exact bud_step_st h hB
  · unfold Bud at *
    cases e <;> res_step_cases h
    all_goals (try simp at *)
    all_goals (try assumption)
    all_goals (try grind)

/-! ## The value taken by the CAS of reserve() -/

/-- a dispatcher that holds a slot took a value `c + 1` with `c <` a limit it had loaded: at least 1
    and at most the largest limit ever configured -/
def TkOk (s : State) : Prop := ∀ g, s.ph g ≠ .idle → 1 ≤ s.tk g ∧ s.tk g ≤ s.maxConc

theorem tk_init (c : Nat) : TkOk (init c) := by
  simp [TkOk, init]

theorem tk_step {s s' : State} {e : Ev} (h : step s e = .ok s') (i : Inv1 s) (t : TkOk s) : TkOk s' := by
  have hl := i.lcc
  unfold TkOk at *
  cases e <;> res_step_cases h
  all_goals (intro g')
  all_goals (have tg := t g')
  all_goals (try simp at *)
  all_goals (try assumption)
  all_goals (try grind [upd])

/-! ## All invariants hold in every reachable state -/

theorem reach_inv {s : State} (r : Reach s) : Inv1 s ∧ Inv s ∧ Bud s := by
  induction r with
  | init c => exact ⟨inv1_init c, inv_init c, bud_init c⟩
  | step e _ h ih =>
    obtain ⟨i1, i, b⟩ := ih
    exact ⟨inv1_step h i1, inv_step h i1.acc i, bud_step h i.D b⟩

theorem reach_tk {s : State} (r : Reach s) : TkOk s := by
  induction r with
  | init c => exact tk_init c
  | step e r' h ih => exact tk_step h (reach_inv r').1 ih

theorem reach_run {s s' : State} {evs : List Ev} (r : Reach s) (h : run s evs = .ok s') : Reach s' := by
  induction evs generalizing s with
  | nil => simp [run] at h; cases h; exact r
  | cons e es ih =>
    simp only [run] at h
    split at h
    · rename_i s1 h1; exact ih (Reach.step e r h1) h
    · cases h

end Res
end VarmqVerif
