/-
  Theorems about VarmqVerif/Model/Config.lean (Go integer conversions in config.go / worker.go).
  Kernel-only tactics (`omega`, `simp`, `decide`); no `bv_decide`.

  Main results
  * `withSafeConcurrency`: REPAIRED. The function used to end with a bare `uint32(concurrency)`, which
    truncates, so it returned 0 exactly for the positive multiples of 2^32 (`TunePool(1 << 32)`,
    `WithConcurrency(1 << 32)`, `NewWorker(fn, 1 << 32)` gave concurrency 0; the former theorems
    `safe_conc_zero`, `safe_conc_zero_iff`). It now clamps: `uint64(concurrency) > math.MaxUint32`
    returns `math.MaxUint32`. The three ranges are `safe_conc_cpus` (`c < 1`: the CPUs), `safe_conc_id`
    (`1 ≤ c < 2^32`: identity), `safe_conc_clamp` (`2^32 ≤ c`: `0xFFFFFFFF`); `safe_conc_never_zero`: the
    result is never 0 for any `int` (given `cpus ≠ 0`); `safe_conc_pos` is its old, weaker form.
  * `clamp_range`, `clamp_id`.
  * `min_idle_toNat` (exact for all inputs), `min_idle_ge_one`, `min_idle_exact`,
    `min_idle_le_conc`, `min_idle_no_overflow`, and the wrap curiosity `min_idle_wrap`.
-/
import VarmqVerif.Model.Config

namespace VarmqVerif
namespace Config

/-! ## withSafeConcurrency -/


theorem wsc_toNat (cpus : BitVec 32) (c : BitVec 64) :
    (withSafeConcurrency cpus c).toNat =
      if c.toInt < 1 then cpus.toNat else if 2 ^ 32 ≤ c.toNat then 2 ^ 32 - 1 else c.toNat := by
  unfold withSafeConcurrency
  have hgt : c > 0xFFFFFFFF#64 ↔ 2 ^ 32 ≤ c.toNat := by
    show (0xFFFFFFFF#64 : BitVec 64) < c ↔ _
    rw [BitVec.lt_def]
    have : (0xFFFFFFFF#64 : BitVec 64).toNat = 4294967295 := rfl
    rw [this]; omega
  by_cases h : c.toInt < 1
  · simp [BitVec.slt, h]
  · have hs : c.slt 1 = false := by simp [BitVec.slt, h]
    rw [hs, if_neg (by simp), if_neg h]
    by_cases h2 : 2 ^ 32 ≤ c.toNat
    · rw [if_pos (hgt.mpr h2), if_pos h2]; rfl
    · rw [if_neg (fun hh => h2 (hgt.mp hh)), if_neg h2, BitVec.toNat_setWidth]
      exact Nat.mod_eq_of_lt (by omega)

theorem toInt_of_pos (c : BitVec 64) (h : 1 ≤ c.toInt) : c.toInt = c.toNat := by
  have h1 := BitVec.toInt_eq_toNat_cond c
  have h2 := c.isLt
  split at h1 <;> omega

theorem ne_zero_iff32 (x : BitVec 32) : x ≠ 0 ↔ x.toNat ≠ 0 := by
  constructor
  · intro h h0; exact h (BitVec.eq_of_toNat_eq (by simpa using h0))
  · intro h h0; subst h0; simp at h

/-- REPAIRED (was the defect `safe_conc_zero`): with at least one CPU the limit is never 0, for every
    Go `int` whatsoever -- no side condition on the argument any more. -/
theorem safe_conc_never_zero (cpus : BitVec 32) (c : BitVec 64) (hc : cpus ≠ 0) :
    withSafeConcurrency cpus c ≠ 0 := by
  have hc' := (ne_zero_iff32 cpus).mp hc
  apply (ne_zero_iff32 _).mpr
  rw [wsc_toNat]
  by_cases h : c.toInt < 1
  · rw [if_pos h]; exact hc'
  · rw [if_neg h]
    have := toInt_of_pos c (by omega)
    split <;> omega

/-- the old positive side, kept with its statement: the disjunction is no longer needed -/
theorem safe_conc_pos (cpus : BitVec 32) (c : BitVec 64) (hc : cpus ≠ 0)
    (_h : c.toInt % 2 ^ 32 ≠ 0 ∨ c.toInt < 1) : withSafeConcurrency cpus c ≠ 0 :=
  safe_conc_never_zero cpus c hc

theorem safe_conc_id (cpus : BitVec 32) (c : BitVec 64) (h1 : 1 ≤ c.toInt)
    (h2 : c.toInt < 2 ^ 32) : (withSafeConcurrency cpus c).toNat = c.toInt.toNat := by
  have h := wsc_toNat cpus c
  have := toInt_of_pos c h1
  rw [h, if_neg (by omega), if_neg (by omega)]
  omega

/-- values that do not fit in a `uint32` are clamped to `math.MaxUint32` (they used to be truncated) -/
theorem safe_conc_clamp (cpus : BitVec 32) (c : BitVec 64) (h : 2 ^ 32 ≤ c.toInt) :
    withSafeConcurrency cpus c = 0xFFFFFFFF#32 := by
  apply BitVec.eq_of_toNat_eq
  have := toInt_of_pos c (by omega)
  rw [wsc_toNat, if_neg (by omega), if_pos (by omega)]
  rfl

/-- below 1 (zero and every negative `int`) the number of CPUs is used -/
theorem safe_conc_cpus (cpus : BitVec 32) (c : BitVec 64) (h : c.toInt < 1) :
    withSafeConcurrency cpus c = cpus := by
  apply BitVec.eq_of_toNat_eq
  rw [wsc_toNat, if_pos h]


-- non-vacuity
example : (8#32) ≠ 0 := by decide
example : withSafeConcurrency (8#32) (5#64) = 5#32 := by decide
example : withSafeConcurrency (8#32) (0#64) = 8#32 := by decide
example : withSafeConcurrency (8#32) (BitVec.ofInt 64 (-3)) = 8#32 := by decide
example : (BitVec.ofInt 64 (-3)).toInt < 1 := by decide
-- the old zeros (every positive multiple of 2^32, e.g. 2^32 and 2^33) are clamped now
example : (2 : Int) ^ 32 ≤ (8589934592#64).toInt := by decide
example : withSafeConcurrency (8#32) (4294967296#64) = 0xFFFFFFFF#32 := by decide
example : withSafeConcurrency (8#32) (8589934592#64) = 0xFFFFFFFF#32 := by decide
-- just above: 2^32 + 1 used to be truncated to 1 silently
example : withSafeConcurrency (8#32) (4294967297#64) = 0xFFFFFFFF#32 := by decide
-- the boundary: 2^32 - 1 is the last value kept as it is; the largest int is clamped
example : withSafeConcurrency (8#32) (4294967295#64) = 4294967295#32 := by decide
example : withSafeConcurrency (8#32) (9223372036854775807#64) = 0xFFFFFFFF#32 := by decide
-- the smallest int (sign bit only: as a uint64 it is 2^63 > MaxUint32, but `concurrency < 1` is tested first)
example : withSafeConcurrency (8#32) (9223372036854775808#64) = 8#32 := by decide
example : 1 ≤ (1000#64).toInt ∧ (1000#64).toInt < 2 ^ 32 := by decide

/-! ## clampPercentage -/


theorem clamp_toNat (p : BitVec 8) :
    (clampPercentage p).toNat =
      if p.toNat = 0 then 1 else if 100 < p.toNat then 100 else p.toNat := by
  unfold clampPercentage
  have h0 : p = 0 ↔ p.toNat = 0 := by
    constructor
    · rintro rfl; rfl
    · intro h; exact BitVec.eq_of_toNat_eq (by simpa using h)
  have h1 : p > 100 ↔ 100 < p.toNat := by
    show (100 : BitVec 8) < p ↔ _
    rw [BitVec.lt_def]; rfl
  by_cases hp0 : p.toNat = 0
  · rw [if_pos (h0.mpr hp0), if_pos hp0]; rfl
  · rw [if_neg (fun h => hp0 (h0.mp h)), if_neg hp0]
    by_cases hp1 : 100 < p.toNat
    · rw [if_pos (h1.mpr hp1), if_pos hp1]; rfl
    · rw [if_neg (fun h => hp1 (h1.mp h)), if_neg hp1]

theorem clamp_range (p : BitVec 8) :
    1 ≤ (clampPercentage p).toNat ∧ (clampPercentage p).toNat ≤ 100 := by
  rw [clamp_toNat]
  split
  · omega
  · split <;> omega

theorem clamp_id (p : BitVec 8) (h1 : 1 ≤ p.toNat) (h2 : p.toNat ≤ 100) :
    clampPercentage p = p := by
  apply BitVec.eq_of_toNat_eq
  rw [clamp_toNat, if_neg (by omega), if_neg (by omega)]

theorem clamp_idem (p : BitVec 8) : clampPercentage (clampPercentage p) = clampPercentage p :=
  clamp_id _ (clamp_range p).1 (clamp_range p).2

/-- Exact value of `numMinIdleWorkers`, for all inputs, wrap included. -/
theorem min_idle_toNat (conc : BitVec 32) (pct : BitVec 8) :
    (numMinIdleWorkers conc pct).toNat =
      max ((conc.toNat * pct.toNat % 2 ^ 32) / 100) 1 := by
  have hp := pct.isLt
  unfold numMinIdleWorkers umax32
  simp only [BitVec.lt_def, BitVec.toNat_udiv, BitVec.toNat_mul, BitVec.toNat_setWidth]
  have h100 : (100 : BitVec 32).toNat = 100 := rfl
  have h1 : (1 : BitVec 32).toNat = 1 := rfl
  rw [h100, h1]
  have hp' : pct.toNat % 2 ^ 32 = pct.toNat := Nat.mod_eq_of_lt (by omega)
  rw [hp']
  split
  · simp only [h1]; omega
  · simp only [BitVec.toNat_udiv, BitVec.toNat_mul, BitVec.toNat_setWidth, h100, hp']
    omega


-- non-vacuity
example : clampPercentage 0#8 = 1#8 ∧ clampPercentage 200#8 = 100#8 ∧ clampPercentage 50#8 = 50#8 := by
  decide
example : 1 ≤ (50#8).toNat ∧ (50#8).toNat ≤ 100 := by decide

/-! ## numMinIdleWorkers -/
/-- `numMinIdleWorkers` never returns less than 1 (for all inputs). -/
theorem min_idle_ge_one (conc : BitVec 32) (pct : BitVec 8) :
    1 ≤ (numMinIdleWorkers conc pct).toNat := by
  rw [min_idle_toNat]; omega

/-- The result always fits in 32 bits, so it is a positive Go `int`. -/
theorem min_idle_lt (conc : BitVec 32) (pct : BitVec 8) :
    (numMinIdleWorkers conc pct).toNat < 2 ^ 32 := by
  rw [min_idle_toNat]
  have : conc.toNat * pct.toNat % 2 ^ 32 < 2 ^ 32 := Nat.mod_lt _ (by omega)
  omega

theorem min_idle_toInt (conc : BitVec 32) (pct : BitVec 8) :
    (numMinIdleWorkers conc pct).toInt = ((numMinIdleWorkers conc pct).toNat : Int) := by
  have h1 := BitVec.toInt_eq_toNat_cond (numMinIdleWorkers conc pct)
  have h2 := min_idle_lt conc pct
  split at h1 <;> omega

/-- Without 32-bit overflow the value is `max (conc * pct / 100) 1`. -/
theorem min_idle_exact (conc : BitVec 32) (pct : BitVec 8)
    (hno : conc.toNat * pct.toNat < 2 ^ 32) :
    (numMinIdleWorkers conc pct).toNat = max (conc.toNat * pct.toNat / 100) 1 := by
  rw [min_idle_toNat, Nat.mod_eq_of_lt hno]

/-- Without overflow, with `conc ≥ 1` and a clamped percentage: `1 ≤ result ≤ conc`. -/
theorem min_idle_le_conc (conc : BitVec 32) (pct : BitVec 8)
    (hno : conc.toNat * pct.toNat < 2 ^ 32) (hc : 1 ≤ conc.toNat) (hp : pct.toNat ≤ 100) :
    1 ≤ (numMinIdleWorkers conc pct).toNat ∧ (numMinIdleWorkers conc pct).toNat ≤ conc.toNat := by
  refine ⟨min_idle_ge_one conc pct, ?_⟩
  rw [min_idle_exact conc pct hno]
  have h1 : conc.toNat * pct.toNat ≤ conc.toNat * 100 := Nat.mul_le_mul_left _ hp
  have h2 : conc.toNat * pct.toNat / 100 ≤ conc.toNat := by
    apply Nat.div_le_of_le_mul; omega
  omega

/-- No overflow is possible below 42 949 673 workers when the percentage is clamped. -/
theorem min_idle_no_overflow (conc : BitVec 32) (pct : BitVec 8)
    (hc : conc.toNat ≤ 42949672) (hp : pct.toNat ≤ 100) : conc.toNat * pct.toNat < 2 ^ 32 := by
  have h1 : conc.toNat * pct.toNat ≤ 42949672 * 100 := Nat.mul_le_mul hc hp
  omega

/-- Curiosity, outside any realistic configuration: for `conc = 2^31`, `pct = 100` the 32-bit
product wraps to 0 and the function returns 1 instead of `2^31`. -/
theorem min_idle_wrap :
    numMinIdleWorkers (2147483648#32) (100#8) = 1#64 ∧
    max ((2147483648#32).toNat * (100#8).toNat / 100) 1 = 2147483648 := by
  decide

/-- The first concurrency at which a wrap happens with `pct = 100`: 42 949 673 (result 0 → 1
… in fact `(42949673 * 100) mod 2^32 = 4`, `4 / 100 = 0`, `max 0 1 = 1`). -/
theorem min_idle_wrap_first :
    numMinIdleWorkers (42949673#32) (100#8) = 1#64 ∧
    numMinIdleWorkers (42949672#32) (100#8) = 42949672#64 := by
  decide

/-! ### the `Nat`/`Int` wrappers agree with the obvious mathematical reading on in-range input -/

theorem toInt_ofInt64 (c : Int) (h1 : -(2 ^ 63) ≤ c) (h2 : c < 2 ^ 63) :
    (BitVec.ofInt 64 c).toInt = c := by
  rw [BitVec.toInt_ofInt]
  exact Int.bmod_eq_of_le_mul_two (by omega) (by omega)

theorem withSafeConcurrencyI_eq (cpus : Nat) (c : Int) (hcpus : cpus < 2 ^ 32)
    (h1 : -(2 ^ 63) ≤ c) (h2 : c < 2 ^ 63) :
    withSafeConcurrencyI cpus c =
      if c < 1 then cpus else if c ≥ 2 ^ 32 then 2 ^ 32 - 1 else c.toNat := by
  unfold withSafeConcurrencyI
  rw [wsc_toNat, toInt_ofInt64 c h1 h2]
  split
  · simp; omega
  · have hpos : 1 ≤ (BitVec.ofInt 64 c).toInt := by rw [toInt_ofInt64 c h1 h2]; omega
    have := toInt_of_pos _ hpos
    rw [toInt_ofInt64 c h1 h2] at this
    split <;> split <;> omega

theorem clampPercentageI_eq (p : Nat) (hp : p < 256) :
    clampPercentageI p = if p = 0 then 1 else if 100 < p then 100 else p := by
  unfold clampPercentageI
  rw [clamp_toNat]
  have : (BitVec.ofNat 8 p).toNat = p := by simp; omega
  rw [this]

theorem numMinIdleWorkersI_eq (conc pct : Nat) (hc : conc < 2 ^ 32) (hp : pct < 256) :
    numMinIdleWorkersI conc pct = ((max ((conc * pct % 2 ^ 32) / 100) 1 : Nat) : Int) := by
  unfold numMinIdleWorkersI
  rw [min_idle_toInt, min_idle_toNat]
  have h1 : (BitVec.ofNat 32 conc).toNat = conc := by simp; omega
  have h2 : (BitVec.ofNat 8 pct).toNat = pct := by simp; omega
  rw [h1, h2]


-- non-vacuity: the documented example "WithMinIdleWorkerRatio(20): with concurrency=10, 2 idle workers"
example : numMinIdleWorkers (10#32) (20#8) = 2#64 := by decide
example : (10#32).toNat * (20#8).toNat < 2 ^ 32 ∧ 1 ≤ (10#32).toNat ∧ (20#8).toNat ≤ 100 := by decide
-- rounding down and the floor of 1: 3 workers at 20 % → 0 → 1
example : numMinIdleWorkers (3#32) (20#8) = 1#64 := by decide
-- an unset ratio (0, `WithMinIdleWorkerRatio` never called) gives 1
example : numMinIdleWorkers (1000#32) (0#8) = 1#64 := by decide
example : withSafeConcurrencyI 8 4294967296 = 4294967295 := by decide
example : withSafeConcurrencyI 8 4294967295 = 4294967295 := by decide
example : withSafeConcurrencyI 8 (-1) = 8 := by decide
example : numMinIdleWorkersI 10 50 = 5 := by decide

/-! ## Axiom audit -/
#print axioms safe_conc_never_zero
#print axioms safe_conc_pos
#print axioms safe_conc_id
#print axioms safe_conc_clamp
#print axioms safe_conc_cpus
#print axioms clamp_range
#print axioms clamp_id
#print axioms min_idle_toNat
#print axioms min_idle_ge_one
#print axioms min_idle_le_conc
#print axioms min_idle_exact
#print axioms min_idle_no_overflow
#print axioms min_idle_wrap
#print axioms withSafeConcurrencyI_eq
#print axioms clampPercentageI_eq
#print axioms numMinIdleWorkersI_eq

end Config
end VarmqVerif
