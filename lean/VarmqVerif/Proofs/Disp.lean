/-
  Theorems about the model `Disp` (Model/Disp.lean): execution order against hand-out order
  (dispatcher goroutine / pool goroutines of worker.go).

  For every reachable state (`Reach`):
    * `inv_reach`                 the inductive invariant `J`
    * `inflight_le_limit`         never more jobs in flight than the largest limit seen so far
    * `ahead_slack_deqd`          for EVERY handed-out job j, at every later moment: at most maxLim − 1 of
                                  the jobs handed out before j are still waiting to start
    * `ahead_slack`               … in particular at the moment j enters the worker function
    * `ahead_slack_stable`        … and at every moment after j has started
    * `started_before_prefix`     the same, spelled out without `waitingAhead`
    * `entered_subset_deqd`       only handed-out jobs start
    * `entered_nodup`             a job starts at most once
  With concurrency 1 (`s.maxLim ≤ 1`; `maxLim` only grows, so this holds of the whole history):
    * `serial_prefix`             every job handed out before a handed-out job j has started or is gone
    * `serial_order`              … in particular when j enters the worker function
    * `serial_filter`             entered = deqd.filter (· ∈ entered)
    * `serial_is_handout_order`   entered.Sublist deqd: the execution order is the hand-out order
  Concrete runs: `reach_run`.
  Non-vacuity: with limit 2 job 2 may start before job 1 (waitingAhead = [1] at that moment); a third
  dequeue with two in flight is rejected; limit 1 rejects a second dequeue while the first job is in
  flight and accepts one-after-the-other with entered = [1, 2]; enter without deq is rejected; a skipped
  job gives its slot back, the next one runs, and the skipped one cannot start afterwards.

  Invariant: deqd, entered, gone have no duplicates; entered ⊆ deqd; gone ⊆ deqd; inflight.length ≤ maxLim;
  and for every j ∈ deqd, (waitingAhead s j).length + 1 ≤ maxLim.  The last clause is inductive because
  the prefix of deqd before j is fixed once j is in deqd (deqd only grows at the end), entered and gone
  only grow (the filter only shrinks), maxLim only grows, and at the moment j is dequeued the jobs
  waiting ahead of it are among the fewer-than-maxLim jobs in flight.
-/
import VarmqVerif.Model.Disp

namespace VarmqVerif
namespace Disp

/-! ## List facts -/

theorem filter_length_mono {p q : Nat → Bool} (l : List Nat)
    (h : ∀ x ∈ l, p x = true → q x = true) : (l.filter p).length ≤ (l.filter q).length := by
  induction l with
  | nil => simp
  | cons a l ih =>
    have ih' := ih (fun x hx => h x (List.mem_cons_of_mem a hx))
    have ha := h a (List.mem_cons_self ..)
    by_cases hp : p a = true
    · have hq := ha hp
      simp [hp, hq]
      exact ih'
    · by_cases hq : q a = true
      · simp [hp, hq]
        omega
      · simp [hp, hq]
        exact ih'

theorem takeWhile_ne_append_of_mem {l : List Nat} {j : Nat} (m : List Nat) (h : j ∈ l) :
    (l ++ m).takeWhile (· != j) = l.takeWhile (· != j) := by
  induction l with
  | nil => simp at h
  | cons a l ih =>
    by_cases ha : a = j
    · subst ha
      simp
    · have hj : j ∈ l := by
        rcases List.mem_cons.mp h with h1 | h1
        · exact absurd h1.symm ha
        · exact h1
      simp [ha, ih hj]

theorem takeWhile_ne_append_of_not_mem {l : List Nat} {j : Nat} (m : List Nat) (h : j ∉ l) :
    (l ++ m).takeWhile (· != j) = l ++ m.takeWhile (· != j) := by
  induction l with
  | nil => simp
  | cons a l ih =>
    have ha : a ≠ j := fun e => h (by simp [e])
    have hj : j ∉ l := fun e => h (by simp [e])
    simp [ha, ih hj]

theorem mem_takeWhile_ne {l : List Nat} {i j : Nat} (h : i ∈ l.takeWhile (· != j)) :
    i ∈ l ∧ i ≠ j := by
  induction l with
  | nil => simp at h
  | cons a l ih =>
    by_cases ha : a = j
    · subst ha
      simp at h
    · simp [ha] at h
      rcases h with h1 | h1
      · subst h1
        exact ⟨by simp, ha⟩
      · have := ih h1
        exact ⟨by simp [this.1], this.2⟩

/-- of two different members of a list one comes before the other -/
theorem before_or_after {l : List Nat} {j k : Nat} (hj : j ∈ l) (hk : k ∈ l) (hne : j ≠ k) :
    j ∈ l.takeWhile (· != k) ∨ k ∈ l.takeWhile (· != j) := by
  induction l with
  | nil => simp at hj
  | cons a l ih =>
    by_cases haj : a = j
    · subst haj
      exact Or.inl (by simp [hne])
    · by_cases hak : a = k
      · subst hak
        exact Or.inr (by simp [haj])
      · have hj' : j ∈ l := by
          rcases List.mem_cons.mp hj with h1 | h1
          · exact absurd h1.symm haj
          · exact h1
        have hk' : k ∈ l := by
          rcases List.mem_cons.mp hk with h1 | h1
          · exact absurd h1.symm hak
          · exact h1
        rcases ih hj' hk' with h1 | h1
        · exact Or.inl (by simp [hak, h1])
        · exact Or.inr (by simp [haj, h1])

/-- if every member of `e` that is in `l` comes before `j` in `l`, then selecting the members of
    `e ++ [j]` from `l` is selecting the members of `e` and then `j` -/
theorem filter_snoc_of_before {l e : List Nat} {j : Nat} (hnd : l.Nodup) (hj : j ∈ l) (hje : j ∉ e)
    (hpre : ∀ k ∈ e, k ∈ l → k ∈ l.takeWhile (· != j)) :
    l.filter (fun i => (e ++ [j]).contains i) = l.filter (fun i => e.contains i) ++ [j] := by
  induction l with
  | nil => simp at hj
  | cons a l ih =>
    have hal : a ∉ l := (List.nodup_cons.mp hnd).1
    have hndl : l.Nodup := (List.nodup_cons.mp hnd).2
    by_cases haj : a = j
    · subst haj
      have hnone : ∀ k ∈ e, k ∉ l := by
        intro k hk hkl
        have := hpre k hk (by simp [hkl])
        simp at this
      have h1 : l.filter (fun i => (e ++ [a]).contains i) = [] := by
        rw [List.filter_eq_nil_iff]
        intro x hx
        simp
        refine ⟨fun hxe => hnone x hxe hx, ?_⟩
        intro hxa
        subst hxa
        exact hal hx
      have h2 : l.filter (fun i => e.contains i) = [] := by
        rw [List.filter_eq_nil_iff]
        intro x hx
        simp
        exact fun hxe => hnone x hxe hx
      have e1 : (a :: l).filter (fun i => (e ++ [a]).contains i) =
          a :: l.filter (fun i => (e ++ [a]).contains i) := List.filter_cons_of_pos (by simp)
      have e2 : (a :: l).filter (fun i => e.contains i) = l.filter (fun i => e.contains i) :=
        List.filter_cons_of_neg (by simpa using hje)
      rw [e1, e2, h1, h2]
      rfl
    · have hj' : j ∈ l := by
        rcases List.mem_cons.mp hj with h1 | h1
        · exact absurd h1.symm haj
        · exact h1
      have hpre' : ∀ k ∈ e, k ∈ l → k ∈ l.takeWhile (· != j) := by
        intro k hk hkl
        have := hpre k hk (by simp [hkl])
        simp [haj] at this
        rcases this with h1 | h1
        · subst h1
          exact absurd hkl hal
        · exact h1
      have := ih hndl hj' hpre'
      by_cases hae : a ∈ e
      · simpa [List.filter_cons, hae] using this
      · simpa [List.filter_cons, hae, haj] using this

/-! ## What an accepted step says -/

theorem lim_ok {s s' : State} {n : Nat} (h : step s (.lim n) = .ok s') :
    s' = { s with maxLim := max s.maxLim n } := by
  simp only [step] at h
  cases h
  rfl

theorem deq_ok {s s' : State} {j : Nat} (h : step s (.deq j) = .ok s') :
    j ∉ s.deqd ∧ (inflight s).length < s.maxLim ∧ s' = { s with deqd := s.deqd ++ [j] } := by
  simp only [step] at h
  split at h
  · cases h
  · rename_i h1
    split at h
    · cases h
    · rename_i h2
      cases h
      simp at h1 h2
      exact ⟨h1, h2, rfl⟩

theorem enter_ok {s s' : State} {j : Nat} (h : step s (.enter j) = .ok s') :
    j ∈ s.deqd ∧ j ∉ s.entered ∧ j ∉ s.gone ∧ s' = { s with entered := s.entered ++ [j] } := by
  simp only [step] at h
  split at h
  · cases h
  · rename_i h1
    split at h
    · cases h
    · rename_i h2
      split at h
      · cases h
      · rename_i h3
        cases h
        simp at h1 h2 h3
        exact ⟨h1, h2, h3, rfl⟩

theorem done_ok {s s' : State} {j : Nat} (h : step s (.done j) = .ok s') :
    j ∈ s.deqd ∧ j ∉ s.gone ∧ s' = { s with gone := s.gone ++ [j] } := by
  simp only [step] at h
  split at h
  · cases h
  · rename_i h1
    split at h
    · cases h
    · rename_i h2
      cases h
      simp at h1 h2
      exact ⟨h1, h2, rfl⟩

theorem nodup_snoc {l : List Nat} {j : Nat} (hnd : l.Nodup) (hj : j ∉ l) : (l ++ [j]).Nodup := by
  rw [List.nodup_append]
  refine ⟨hnd, by simp, ?_⟩
  intro a ha b hb
  simp at hb
  subst hb
  intro hab
  subst hab
  exact hj ha

/-! ## The invariant -/

structure J (s : State) : Prop where
  deqdNodup : s.deqd.Nodup
  enteredNodup : s.entered.Nodup
  goneNodup : s.gone.Nodup
  enteredSub : ∀ j ∈ s.entered, j ∈ s.deqd
  goneSub : ∀ j ∈ s.gone, j ∈ s.deqd
  cap : (inflight s).length ≤ s.maxLim
  slack : ∀ j ∈ s.deqd, (waitingAhead s j).length + 1 ≤ s.maxLim

theorem J_init : J init := by
  refine ⟨?_, ?_, ?_, ?_, ?_, ?_, ?_⟩ <;> simp [init, inflight]

theorem J_step {s s' : State} (e : Ev) (hJ : J s) (h : step s e = .ok s') : J s' := by
  obtain ⟨hdn, hen, hgn, hes, hgs, hcap, hsl⟩ := hJ
  cases e with
  | lim n =>
    have h' := lim_ok h
    subst h'
    refine ⟨hdn, hen, hgn, hes, hgs, ?_, ?_⟩
    · show (inflight s).length ≤ max s.maxLim n
      omega
    · intro j hj
      show (waitingAhead s j).length + 1 ≤ max s.maxLim n
      have := hsl j hj
      omega
  | deq k =>
    obtain ⟨hk, hlt, h'⟩ := deq_ok h
    subst h'
    have hkg : k ∉ s.gone := fun hg => hk (hgs k hg)
    refine ⟨nodup_snoc hdn hk, hen, hgn, ?_, ?_, ?_, ?_⟩
    · intro j hj
      show j ∈ s.deqd ++ [k]
      simp [hes j hj]
    · intro j hj
      show j ∈ s.deqd ++ [k]
      simp [hgs j hj]
    · show ((s.deqd ++ [k]).filter (fun i => !s.gone.contains i)).length ≤ s.maxLim
      rw [List.filter_append, List.length_append]
      have h1 : ([k].filter (fun i => !s.gone.contains i)).length ≤ 1 :=
        List.length_filter_le _ [k]
      have h2 : (s.deqd.filter (fun i => !s.gone.contains i)).length < s.maxLim := hlt
      omega
    · intro j hj
      have hj' : j ∈ s.deqd ++ [k] := hj
      show (((s.deqd ++ [k]).takeWhile (· != j)).filter
        (fun i => !s.entered.contains i && !s.gone.contains i)).length + 1 ≤ s.maxLim
      rcases List.mem_append.mp hj' with h1 | h1
      · rw [takeWhile_ne_append_of_mem [k] h1]
        exact hsl j h1
      · simp at h1
        subst h1
        rw [takeWhile_ne_append_of_not_mem [j] hk]
        simp only [List.takeWhile_cons, bne_self_eq_false, List.takeWhile_nil]
        simp only [Bool.false_eq_true, if_false, List.append_nil]
        have h2 : (s.deqd.filter (fun i => !s.entered.contains i && !s.gone.contains i)).length ≤
            (s.deqd.filter (fun i => !s.gone.contains i)).length := by
          apply filter_length_mono
          intro x _ hx
          simp at hx ⊢
          exact hx.2
        have h3 : (s.deqd.filter (fun i => !s.gone.contains i)).length < s.maxLim := hlt
        omega
  | enter k =>
    obtain ⟨hkd, hke, hkg, h'⟩ := enter_ok h
    subst h'
    refine ⟨hdn, nodup_snoc hen hke, hgn, ?_, hgs, hcap, ?_⟩
    · intro j hj
      have hj' : j ∈ s.entered ++ [k] := hj
      show j ∈ s.deqd
      rcases List.mem_append.mp hj' with h1 | h1
      · exact hes j h1
      · simp at h1
        subst h1
        exact hkd
    · intro j hj
      have hj' : j ∈ s.deqd := hj
      have h1 := hsl j hj'
      show ((s.deqd.takeWhile (· != j)).filter
        (fun i => !(s.entered ++ [k]).contains i && !s.gone.contains i)).length + 1 ≤ s.maxLim
      have h2 : ((s.deqd.takeWhile (· != j)).filter
          (fun i => !(s.entered ++ [k]).contains i && !s.gone.contains i)).length ≤
          (waitingAhead s j).length := by
        apply filter_length_mono
        intro x _ hx
        simp at hx ⊢
        exact ⟨hx.1.1, hx.2⟩
      omega
  | done k =>
    obtain ⟨hkd, hkg, h'⟩ := done_ok h
    subst h'
    refine ⟨hdn, hen, nodup_snoc hgn hkg, hes, ?_, ?_, ?_⟩
    · intro j hj
      have hj' : j ∈ s.gone ++ [k] := hj
      show j ∈ s.deqd
      rcases List.mem_append.mp hj' with h1 | h1
      · exact hgs j h1
      · simp at h1
        subst h1
        exact hkd
    · show (s.deqd.filter (fun i => !(s.gone ++ [k]).contains i)).length ≤ s.maxLim
      have h2 : (s.deqd.filter (fun i => !(s.gone ++ [k]).contains i)).length ≤
          (inflight s).length := by
        apply filter_length_mono
        intro x _ hx
        simp at hx ⊢
        exact hx.1
      omega
    · intro j hj
      have hj' : j ∈ s.deqd := hj
      have h1 := hsl j hj'
      show ((s.deqd.takeWhile (· != j)).filter
        (fun i => !s.entered.contains i && !(s.gone ++ [k]).contains i)).length + 1 ≤ s.maxLim
      have h2 : ((s.deqd.takeWhile (· != j)).filter
          (fun i => !s.entered.contains i && !(s.gone ++ [k]).contains i)).length ≤
          (waitingAhead s j).length := by
        apply filter_length_mono
        intro x _ hx
        simp at hx ⊢
        exact ⟨hx.1, hx.2.1⟩
      omega

theorem inv_reach {s : State} (h : Reach s) : J s := by
  induction h with
  | init => exact J_init
  | step e _ hs ih => exact J_step e ih hs

/-! ## The theorems -/

/-- never more jobs in flight than the largest limit seen so far -/
theorem inflight_le_limit {s : State} (h : Reach s) : (inflight s).length ≤ s.maxLim :=
  (inv_reach h).cap

/-- for every job that was handed out, at every later moment, at most maxLim − 1 of the jobs handed out
    before it are still waiting to start -/
theorem ahead_slack_deqd {s : State} (h : Reach s) {j : Nat} (hj : j ∈ s.deqd) :
    (waitingAhead s j).length + 1 ≤ s.maxLim :=
  (inv_reach h).slack j hj

/-- when job j enters the worker function, at most maxLim − 1 of the jobs handed out before it have
    not started yet -/
theorem ahead_slack {s s' : State} {j : Nat} (h : Reach s) (he : step s (.enter j) = .ok s') :
    (waitingAhead s j).length + 1 ≤ s.maxLim :=
  ahead_slack_deqd h (enter_ok he).1

theorem entered_subset_deqd {s : State} (h : Reach s) : ∀ j ∈ s.entered, j ∈ s.deqd :=
  (inv_reach h).enteredSub

/-- a job starts at most once -/
theorem entered_nodup {s : State} (h : Reach s) : s.entered.Nodup :=
  (inv_reach h).enteredNodup

/-- the stable form of `ahead_slack`: for a job that has started -/
theorem ahead_slack_stable {s : State} (h : Reach s) {j : Nat} (hj : j ∈ s.entered) :
    (waitingAhead s j).length + 1 ≤ s.maxLim :=
  ahead_slack_deqd h (entered_subset_deqd h j hj)

theorem started_before_prefix {s : State} (h : Reach s) {i j : Nat}
    (_hij : i ∈ s.deqd.takeWhile (· != j)) (hj : j ∈ s.entered) :
    ((s.deqd.takeWhile (· != j)).filter
      (fun i => !s.entered.contains i && !s.gone.contains i)).length + 1 ≤ s.maxLim :=
  ahead_slack_stable h hj

/-- with concurrency 1 nobody handed out before a handed-out job j is still waiting -/
theorem serial_prefix {s : State} {j : Nat} (h : Reach s) (hl : s.maxLim ≤ 1) (hj : j ∈ s.deqd) :
    ∀ i ∈ s.deqd.takeWhile (· != j), i ∈ s.entered ∨ i ∈ s.gone := by
  have h1 := ahead_slack_deqd h hj
  have h2 : waitingAhead s j = [] := by
    apply List.eq_nil_of_length_eq_zero
    omega
  unfold waitingAhead at h2
  rw [List.filter_eq_nil_iff] at h2
  intro i hi
  have := h2 i hi
  simp at this
  by_cases hie : i ∈ s.entered
  · exact Or.inl hie
  · exact Or.inr (this hie)

/-- with concurrency 1, every job handed out before j has started (or was skipped) before j starts -/
theorem serial_order {s s' : State} {j : Nat} (h : Reach s) (hl : s.maxLim ≤ 1)
    (he : step s (.enter j) = .ok s') :
    ∀ i ∈ s.deqd.takeWhile (· != j), i ∈ s.entered ∨ i ∈ s.gone :=
  serial_prefix h hl (enter_ok he).1

/-- with concurrency 1 the jobs that started are, in the order in which they started, the jobs of the
    hand-out order that started -/
theorem serial_filter {s : State} (h : Reach s) (hl : s.maxLim ≤ 1) :
    s.entered = s.deqd.filter (fun i => s.entered.contains i) := by
  induction h with
  | init => simp [init]
  | @step s s' e hr hs ih =>
    have hJ := inv_reach hr
    cases e with
    | lim n =>
      have h' := lim_ok hs
      subst h'
      have hl' : max s.maxLim n ≤ 1 := hl
      exact ih (by omega)
    | deq k =>
      obtain ⟨hk, _, h'⟩ := deq_ok hs
      subst h'
      have ih' := ih hl
      have hke : k ∉ s.entered := fun he => hk (hJ.enteredSub k he)
      show s.entered = (s.deqd ++ [k]).filter (fun i => s.entered.contains i)
      rw [List.filter_append, ← ih']
      simp [hke]
    | done k =>
      obtain ⟨_, _, h'⟩ := done_ok hs
      subst h'
      exact ih hl
    | enter k =>
      obtain ⟨hkd, hke, hkg, h'⟩ := enter_ok hs
      subst h'
      have hl' : s.maxLim ≤ 1 := hl
      have ih' := ih hl'
      show s.entered ++ [k] = s.deqd.filter (fun i => (s.entered ++ [k]).contains i)
      rw [filter_snoc_of_before hJ.deqdNodup hkd hke, ← ih']
      intro i hie hid
      have hne : k ≠ i := fun e => hke (e ▸ hie)
      rcases before_or_after hkd hid hne with h1 | h1
      · rcases serial_prefix hr hl' hid k h1 with h2 | h2
        · exact absurd h2 hke
        · exact absurd h2 hkg
      · exact h1

/-- with concurrency 1 the execution order is the hand-out order -/
theorem serial_is_handout_order {s : State} (h : Reach s) (hl : s.maxLim ≤ 1) :
    s.entered.Sublist s.deqd := by
  have h1 := serial_filter h hl
  have h2 : (s.deqd.filter (fun i => s.entered.contains i)).Sublist s.deqd := List.filter_sublist
  rw [← h1] at h2
  exact h2

/-! ## Concrete runs -/

theorem reach_run {s s' : State} {es : List Ev} (h : Reach s) (hrun : run s es = .ok s') :
    Reach s' := by
  induction es generalizing s with
  | nil =>
    simp only [run] at hrun
    cases hrun
    exact h
  | cons e es ih =>
    simp only [run] at hrun
    split at hrun
    · rename_i s1 hs1
      exact ih (Reach.step e h hs1) hrun
    · cases hrun

/-! ## Non-vacuity -/

def accepted : Except String State → Bool
  | .ok _ => true
  | .error _ => false

def stateOf : Except String State → Option State
  | .ok s => some s
  | .error _ => none

/-- (a) with limit 2 job 2 may start before job 1; when it does, job 1 is the one job waiting ahead -/
example : accepted (run init [.lim 2, .deq 1, .deq 2, .enter 2, .enter 1]) = true := by
  decide

example : (stateOf (run init [.lim 2, .deq 1, .deq 2])).map (waitingAhead · 2) = some [1] := by
  decide

example : (stateOf (run init [.lim 2, .deq 1, .deq 2, .enter 2, .enter 1])).map (·.entered) =
    some [2, 1] := by
  decide

/-- (b) a third dequeue with two jobs in flight is rejected -/
example : accepted (run init [.lim 2, .deq 1, .deq 2]) = true ∧
    accepted (run init [.lim 2, .deq 1, .deq 2, .deq 3]) = false := by
  decide

/-- (c) limit 1: no second dequeue while the first job is in flight; one after the other is fine -/
example : accepted (run init [.lim 1, .deq 1, .deq 2]) = false := by
  decide

example : (stateOf (run init [.lim 1, .deq 1, .enter 1, .done 1, .deq 2, .enter 2])).map (·.entered) =
    some [1, 2] := by
  decide

/-- (d) entering the worker function without a dequeue is rejected -/
example : accepted (run init [.lim 1, .enter 1]) = false ∧
    accepted (run init [.lim 2, .deq 1, .enter 2]) = false := by
  decide

/-- (e) a skipped job: its slot is given back without it having started; it cannot start afterwards -/
example : accepted (run init [.lim 1, .deq 1, .done 1, .deq 2, .enter 2]) = true ∧
    accepted (run init [.lim 1, .deq 1, .done 1, .deq 2, .enter 2, .enter 1]) = false ∧
    accepted (run init [.lim 1, .deq 1, .done 1, .enter 1]) = false := by
  decide

/-- the limit-1 theorems are about reachable states: a state with limit 1 and two started jobs -/
example : ∃ s, Reach s ∧ s.maxLim ≤ 1 ∧ s.entered = [1, 2] ∧ s.deqd = [1, 2] :=
  ⟨{ maxLim := 1, deqd := [1, 2], entered := [1, 2], gone := [1] },
    reach_run (es := [.lim 1, .deq 1, .enter 1, .done 1, .deq 2, .enter 2]) Reach.init rfl,
    by decide, rfl, rfl⟩

end Disp
end VarmqVerif

#print axioms VarmqVerif.Disp.inv_reach
#print axioms VarmqVerif.Disp.inflight_le_limit
#print axioms VarmqVerif.Disp.ahead_slack
#print axioms VarmqVerif.Disp.ahead_slack_deqd
#print axioms VarmqVerif.Disp.ahead_slack_stable
#print axioms VarmqVerif.Disp.started_before_prefix
#print axioms VarmqVerif.Disp.serial_order
#print axioms VarmqVerif.Disp.serial_is_handout_order
#print axioms VarmqVerif.Disp.entered_subset_deqd
#print axioms VarmqVerif.Disp.entered_nodup
#print axioms VarmqVerif.Disp.reach_run
