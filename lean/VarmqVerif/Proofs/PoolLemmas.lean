/-
  The inductive invariant of the `Pool` model (ownership of worker-pool nodes) and its preservation.

  Per node (`NOK`): with `pend nd` = number of stop sentinels in the channel (0/1) and `live loc` = 1
  for `held`/`idle`/`inflight`, 0 for `unborn`/`cached`/`fresh`/`stopping`:

      srvs.length = pend nd + live nd.loc          (server accounting)
      buf = some (job j)  ⇔  loc = inflight
      loc = unborn → buf = none,        srvs.Nodup

  Globally (`Inv`): `idle.Nodup` and `n ∈ idle ⇔ (nodes n).loc = idle`.
-/
import VarmqVerif.Model.Pool

namespace VarmqVerif
namespace Pool

/-- sentinels pending in the node channel (0 or 1) -/
def pend (nd : Node) : Nat := if nd.buf = some .stop then 1 else 0

/-- servers a node at this location must keep once a pending sentinel has been consumed -/
def live : Loc → Nat
  | .held _ | .idle | .inflight => 1
  | _ => 0

/-- servers that remain once a pending stop sentinel has been consumed -/
def eff (nd : Node) : Nat := nd.srvs.length - (if nd.buf = some .stop then 1 else 0)

/-! ### generic `upd` facts -/

theorem forall_upd {β} {P : β → Prop} {f : Nat → β} {n : Nat} {v : β}
    (hf : ∀ m, P (f m)) (hv : P v) : ∀ m, P (upd f n v m) := by
  intro m; unfold upd; split
  · exact hv
  · exact hf m

/-! ### list facts -/

theorem dropLast_of_getLast? {l : List Nat} {n : Nat} (h : l.getLast? = some n) : l = l.dropLast ++ [n] := by
  obtain ⟨ys, rfl⟩ := List.getLast?_eq_some_iff.1 h
  simp

theorem nodup_dropLast {l : List Nat} {n : Nat} (h : l.getLast? = some n) (hn : l.Nodup) :
    l.dropLast.Nodup ∧ ∀ m, m ∈ l.dropLast ↔ (m ∈ l ∧ m ≠ n) := by
  have e := dropLast_of_getLast? h
  generalize l.dropLast = d at e
  subst e
  have := List.nodup_append.1 hn
  refine ⟨this.1, fun m => ?_⟩
  simp only [List.mem_append, List.mem_singleton]
  constructor
  · intro hm
    refine ⟨Or.inl hm, fun hmn => ?_⟩
    exact this.2.2 m hm n (by simp) hmn
  · rintro ⟨hm | hm, hne⟩
    · exact hm
    · exact absurd hm hne

/-! ### the invariant -/

/-- per-node invariant -/
structure NOK (nd : Node) : Prop where
  nodup : nd.srvs.Nodup
  cnt : nd.srvs.length = pend nd + live nd.loc
  job_inflight : ∀ j, nd.buf = some (.job j) → nd.loc = .inflight
  inflight_job : nd.loc = .inflight → ∃ j, nd.buf = some (.job j)
  unborn : nd.loc = .unborn → nd.buf = none

structure Inv (s : State) : Prop where
  nodup : s.idle.Nodup
  mem : ∀ n, n ∈ s.idle ↔ (s.nodes n).loc = .idle
  node : ∀ n, NOK (s.nodes n)

theorem Inv.init : Inv init := by
  refine ⟨by simp [Pool.init], by simp [Pool.init], fun n => ?_⟩
  constructor <;> simp [Pool.init, pend, live]

/-- membership bookkeeping when node `n` moves to a non-idle location and leaves `l` -/
theorem mem_upd_out {s : State} {l : List Nat} {n : Nat} {v : Node}
    (h : ∀ m, m ∈ s.idle ↔ (s.nodes m).loc = .idle)
    (hl : ∀ m, m ∈ l ↔ (m ∈ s.idle ∧ m ≠ n)) (hv : v.loc ≠ .idle) :
    ∀ m, m ∈ l ↔ (upd s.nodes n v m).loc = .idle := by
  intro m
  by_cases hm : m = n
  · subst hm; simp [hl, hv]
  · simp [hl, hm, h]

/-- membership bookkeeping when a node that is not idle changes, the list staying the same -/
theorem mem_upd_same {s : State} {n : Nat} {v : Node}
    (h : ∀ m, m ∈ s.idle ↔ (s.nodes m).loc = .idle)
    (hn : (s.nodes n).loc ≠ .idle) (hv : v.loc ≠ .idle) :
    ∀ m, m ∈ s.idle ↔ (upd s.nodes n v m).loc = .idle := by
  intro m
  by_cases hm : m = n
  · subst hm; simp [h, hn, hv]
  · simp [hm, h]

/-- membership bookkeeping when a node changes but keeps its location -/
theorem mem_upd_loc {s : State} {n : Nat} {v : Node}
    (h : ∀ m, m ∈ s.idle ↔ (s.nodes m).loc = .idle) (hv : v.loc = (s.nodes n).loc) :
    ∀ m, m ∈ s.idle ↔ (upd s.nodes n v m).loc = .idle := by
  intro m
  by_cases hm : m = n
  · subst hm; simp [h, hv]
  · simp [hm, h]

theorem Inv.step {s s' : State} {e : Ev} (h : Inv s) (hs : step s e = .ok s') : Inv s' := by
  have hn := h.node
  cases e with
  | get g n =>
    simp only [Pool.step] at hs
    split at hs
    · rename_i hc
      cases hs
      obtain ⟨w1, w2, w3, w4, w5⟩ := hn n
      refine ⟨h.nodup, mem_upd_same h.mem ?_ (by simp), forall_upd hn ?_⟩
      · grind
      · constructor <;> grind [pend, live]
    · cases hs
  | spawn g n r =>
    simp only [Pool.step] at hs
    split at hs
    · cases hs
    · split at hs
      · cases hs
      · rename_i hl hc
        cases hs
        obtain ⟨w1, w2, w3, w4, w5⟩ := hn n
        refine ⟨h.nodup, mem_upd_same h.mem ?_ ?_, forall_upd hn ?_⟩
        · grind
        · grind
        · constructor <;> grind [pend, live]
  | push g n =>
    simp only [Pool.step] at hs
    split at hs
    · cases hs
    · split at hs
      · cases hs
      · rename_i hl hc
        cases hs
        obtain ⟨w1, w2, w3, w4, w5⟩ := hn n
        refine ⟨?_, ?_, forall_upd hn ?_⟩
        · have := h.nodup
          simp only [List.contains_eq_mem, decide_eq_true_eq] at hc
          exact List.nodup_append.2 ⟨this, by simp, by
            intro a ha b hb; simp at hb; subst hb; intro hab; subst hab; exact hc ha⟩
        · intro m
          by_cases hm : m = n
          · subst hm; simp
          · simp [hm, h.mem]
        · constructor <;> grind [pend, live]
  | pop g n =>
    cases n with
    | none =>
      simp only [Pool.step] at hs
      split at hs
      · cases hs; exact h
      · cases hs
    | some n =>
      simp only [Pool.step] at hs
      split at hs
      · cases hs
      · rename_i hc
        cases hs
        have hl : s.idle.getLast? = some n := by simpa using hc
        have hd := nodup_dropLast hl h.nodup
        obtain ⟨w1, w2, w3, w4, w5⟩ := hn n
        refine ⟨hd.1, mem_upd_out h.mem hd.2 (by simp), forall_upd hn ?_⟩
        have hmem : n ∈ s.idle := List.mem_of_getLast? hl
        have : (s.nodes n).loc = .idle := (h.mem n).1 hmem
        constructor <;> grind [pend, live]
  | remove g n ok =>
    simp only [Pool.step] at hs
    split at hs
    · cases hs
    · split at hs
      · rename_i hc hok
        cases hs
        subst hok
        have hmem : n ∈ s.idle := by simpa using hc
        have : (s.nodes n).loc = .idle := (h.mem n).1 hmem
        obtain ⟨w1, w2, w3, w4, w5⟩ := hn n
        refine ⟨h.nodup.erase n, mem_upd_out h.mem ?_ (by simp), forall_upd hn ?_⟩
        · intro m; rw [h.nodup.mem_erase_iff]; exact And.comm
        · constructor <;> grind [pend, live]
      · cases hs; exact h
  | sendJob g n j =>
    simp only [Pool.step] at hs
    split at hs
    · cases hs
    · split at hs
      · cases hs
      · rename_i hl hc
        cases hs
        obtain ⟨w1, w2, w3, w4, w5⟩ := hn n
        refine ⟨h.nodup, mem_upd_same h.mem ?_ (by simp), forall_upd hn ?_⟩
        · grind
        · constructor <;> grind [pend, live]
  | sendStop g n =>
    simp only [Pool.step] at hs
    split at hs
    · cases hs
    · split at hs
      · cases hs
      · rename_i hl hc
        cases hs
        obtain ⟨w1, w2, w3, w4, w5⟩ := hn n
        refine ⟨h.nodup, mem_upd_same h.mem ?_ (by simp), forall_upd hn ?_⟩
        · grind
        · constructor <;> grind [pend, live]
  | recv r n m =>
    simp only [Pool.step] at hs
    split at hs
    · cases hs
    · split at hs
      · cases hs
      · rename_i hl hc
        obtain ⟨w1, w2, w3, w4, w5⟩ := hn n
        split at hs
        · cases hs
          have : (s.nodes n).loc = .inflight := w3 _ (by simpa using hc)
          refine ⟨h.nodup, mem_upd_same h.mem ?_ (by simp), forall_upd hn ?_⟩
          · grind
          · constructor <;> grind [pend, live]
        · cases hs
          have hb : (s.nodes n).buf = some .stop := by simpa using hc
          have hr : r ∈ (s.nodes n).srvs := by simpa using hl
          refine ⟨h.nodup, mem_upd_loc h.mem rfl, forall_upd hn ?_⟩
          constructor
          · exact w1.erase r
          · simp only [List.length_erase_of_mem hr]
            simp only [pend, hb, if_true] at w2
            have hp : pend { loc := (s.nodes n).loc, buf := none, srvs := (s.nodes n).srvs.erase r } = 0 := by
              simp [pend]
            rw [hp]
            omega
          · simp
          · intro hi; obtain ⟨j, hj⟩ := w4 hi; simp [hb] at hj
          · intro _; rfl
  | put g n =>
    simp only [Pool.step] at hs
    split at hs
    · cases hs
    · rename_i hl
      cases hs
      obtain ⟨w1, w2, w3, w4, w5⟩ := hn n
      refine ⟨h.nodup, mem_upd_same h.mem ?_ (by simp), forall_upd hn ?_⟩
      · grind
      · constructor <;> grind [pend, live]

theorem Inv.of_reach {s : State} (h : Reach s) : Inv s := by
  induction h with
  | init => exact Inv.init
  | step e _ hs ih => exact ih.step hs

end Pool
end VarmqVerif
