/-
  Theorems about the model `Reap` (Model/Reap.lean): which workers the pool keeps when an idle-worker
  expiry is configured (the reaper goroutine of worker.go).

  For every state reachable with the current reaper (`Reach false`, stop-channel check of b9eba0f):
    * `inv_reach`                          the inductive invariant `J`
    * `never_empty_handed`                 running → an idle worker or a worker that is out
    * `idle_worker_kept`                   running ∧ nobody out of the list → 1 ≤ idle.length
    * `reaper_spares_protected`            the nodes[:target] of the live pass stay in the pool
    * `idle_nodup`                         no node is in the idle list twice
    * `out_nodup`, `idle_out_disjoint`     no node is out twice; no node is both idle and out
    * `reaper_keeps_minimum`               counted form: prot.length ≤ idle.length + out.length while a pass of
                                           the live reaper is under way (the reaper never goes below the minimum)
  About a single step of the current code:
    * `reaper_removes_only_beyond_target`  a successful Remove: by the reaper of the current run, while
                                           its stop channel is open, of a node of nodes[target:]
    * `ended_run_cannot_remove`            the reaper of an ended run removes nothing (fix b9eba0f)
    * `snapshot_split`                     the pass is nodes[:t] / nodes[t:] with t ≥ 1
    * `snapshot_protects_min`              … so the new pass protects min t idle.length nodes
  The defect of the reaper before b9eba0f, as a theorem about `Reach true`:
    * `old_reaper_can_empty_the_pool`      a running pool with nobody out and an empty idle list (`oldRun`)
  Non-vacuity: `oldRun` is rejected by the current code and accepted by the old one; a live pass with
  non-empty `prot` and `cand` is reachable, its candidate may be removed, its protected node may not;
  after `kill` the reaper of run 0 removes nothing.

  Invariant: the idle list has no duplicates; a reaper that is not live has no pass; a running pool has
  an idle worker or a worker that is out; and while the pool runs and its reaper is live, the protected
  part of the pass is non-empty whenever there are candidates, is disjoint from the candidates, and
  all of it is still in the pool (idle or out). For the counting argument of `reaper_keeps_minimum`:
  `outNodup` (the out list has no duplicates), `disj` (no idle node is out) and `protNodup` (the protected
  part of a pass has no duplicates); a duplicate-free `prot` contained in the duplicate-free union of
  `idle` and `out` is no longer than it (`length_le_of_nodup_subset`).
-/
import VarmqVerif.Model.Reap

namespace VarmqVerif
namespace Reap

/-! ## List facts -/

theorem dropLast_append_of_getLast? {l : List Nat} {n : Nat} (h : l.getLast? = some n) :
    l.dropLast ++ [n] = l := by
  induction l with
  | nil => simp at h
  | cons a l ih =>
    cases l with
    | nil =>
      simp at h
      simp [h]
    | cons b l =>
      have h' : (b :: l).getLast? = some n := by simpa [List.getLast?_cons_cons] using h
      have := ih h'
      simp only [List.dropLast_cons_cons, List.cons_append]
      rw [this]

theorem mem_dropLast_or_eq {l : List Nat} {n x : Nat} (h : l.getLast? = some n) (hx : x ∈ l) :
    x ∈ l.dropLast ∨ x = n := by
  rw [← dropLast_append_of_getLast? h] at hx
  simpa using hx

theorem take_drop_disjoint {l : List Nat} (hn : l.Nodup) (t : Nat) :
    ∀ x ∈ l.drop t, x ∉ l.take t := by
  intro x hd ht
  have h := hn
  rw [← List.take_append_drop t l, List.nodup_append] at h
  exact h.2.2 x ht x hd rfl

theorem take_ne_nil_of_drop_ne_nil {l : List Nat} {t : Nat} (ht : t ≠ 0) (hd : l.drop t ≠ []) :
    l.take t ≠ [] := by
  intro h
  rcases List.take_eq_nil_iff.mp h with h0 | h0
  · exact ht h0
  · subst h0
    simp at hd

theorem length_le_of_nodup_subset {l m : List Nat} (hn : l.Nodup) (hs : ∀ x ∈ l, x ∈ m) :
    l.length ≤ m.length := by
  induction l generalizing m with
  | nil => simp
  | cons a l ih =>
    rw [List.nodup_cons] at hn
    have ha : a ∈ m := hs a (by simp)
    have h1 : l.length ≤ (m.erase a).length := by
      apply ih hn.2
      intro x hx
      have hxa : x ≠ a := fun e => hn.1 (e ▸ hx)
      exact (List.mem_erase_of_ne hxa).mpr (hs x (by simp [hx]))
    have h2 := List.length_erase_of_mem ha
    have h3 : 0 < m.length := List.length_pos_of_mem ha
    simp only [List.length_cons]
    omega

theorem not_mem_dropLast_of_getLast? {l : List Nat} {n : Nat} (hn : l.Nodup) (h : l.getLast? = some n) :
    n ∉ l.dropLast := by
  intro hm
  rw [← dropLast_append_of_getLast? h, List.nodup_append] at hn
  exact hn.2.2 n hm n (by simp) rfl

/-! ## The invariant -/

structure J (s : State) : Prop where
  nodup : s.idle.Nodup
  dead : s.live = false → s.pass = none
  fed : s.running = true → (s.idle ≠ [] ∨ s.out ≠ [])
  spared : s.running = true → s.live = true → ∀ p, s.pass = some p →
    (∀ x ∈ p.prot, x ∈ s.idle ∨ x ∈ s.out) ∧ (∀ x ∈ p.cand, x ∉ p.prot) ∧
    (p.cand ≠ [] → p.prot ≠ [])
  outNodup : s.out.Nodup
  disj : ∀ x ∈ s.idle, x ∉ s.out
  protNodup : ∀ p, s.pass = some p → p.prot.Nodup

theorem J_init : J init := by
  refine ⟨?_, ?_, ?_, ?_, ?_, ?_, ?_⟩ <;> simp [init]

theorem J_step {s s' : State} (e : Ev) (hJ : J s) (h : step false s e = .ok s') : J s' := by
  obtain ⟨hnd, hdead, hfed, hsp, hond, hdj, hpn⟩ := hJ
  cases e with
  | start n =>
    simp only [step] at h
    split at h
    · cases h
    · split at h
      · cases h
      · rename_i hlive
        split at h
        · cases h
        · rename_i hin
          cases h
          simp at hlive hin
          refine ⟨?_, ?_, ?_, ?_, hond, ?_, ?_⟩
          · show (s.idle ++ [n]).Nodup
            rw [List.nodup_append]
            refine ⟨hnd, by simp, ?_⟩
            intro a ha b hb
            simp at hb
            subst hb
            intro hab
            subst hab
            exact hin.1 ha
          · intro hl
            simp at hl
          · intro _
            exact Or.inl (by simp)
          · intro _ _ p hp
            have : s.pass = some p := hp
            rw [hdead hlive] at this
            cases this
          · intro x hx
            have hx' : x ∈ s.idle ++ [n] := hx
            simp at hx'
            rcases hx' with hi | he
            · exact hdj x hi
            · subst he
              exact hin.2
          · intro p hp
            have : s.pass = some p := hp
            rw [hdead hlive] at this
            cases this
  | take n =>
    simp only [step] at h
    split at h
    · cases h
    · rename_i hlast
      split at h
      · cases h
      · rename_i hno
        cases h
        simp at hlast hno
        refine ⟨?_, hdead, ?_, ?_, ?_, ?_, hpn⟩
        · exact List.Nodup.sublist (List.dropLast_sublist _) hnd
        · intro _
          exact Or.inr (by simp)
        · intro hr hl p hp
          obtain ⟨h1, h2, h3⟩ := hsp hr hl p hp
          refine ⟨?_, h2, h3⟩
          intro x hx
          show x ∈ s.idle.dropLast ∨ x ∈ n :: s.out
          rcases h1 x hx with hi | ho
          · rcases mem_dropLast_or_eq hlast hi with hd | he
            · exact Or.inl hd
            · exact Or.inr (by simp [he])
          · exact Or.inr (by simp [ho])
        · show (n :: s.out).Nodup
          exact List.nodup_cons.mpr ⟨hno, hond⟩
        · intro x hx
          have hx' : x ∈ s.idle.dropLast := hx
          show x ∉ n :: s.out
          intro hm
          rcases List.mem_cons.mp hm with he | ho
          · subst he
            exact not_mem_dropLast_of_getLast? hnd hlast hx'
          · exact hdj x ((List.dropLast_sublist _).subset hx') ho
  | create n =>
    simp only [step] at h
    split at h
    · cases h
    · rename_i hin
      cases h
      simp at hin
      refine ⟨hnd, hdead, ?_, ?_, ?_, ?_, hpn⟩
      · intro _
        exact Or.inr (by simp)
      · intro hr hl p hp
        obtain ⟨h1, h2, h3⟩ := hsp hr hl p hp
        refine ⟨?_, h2, h3⟩
        intro x hx
        show x ∈ s.idle ∨ x ∈ n :: s.out
        rcases h1 x hx with hi | ho
        · exact Or.inl hi
        · exact Or.inr (by simp [ho])
      · show (n :: s.out).Nodup
        exact List.nodup_cons.mpr ⟨hin.2, hond⟩
      · intro x hx
        have hx' : x ∈ s.idle := hx
        show x ∉ n :: s.out
        intro hm
        rcases List.mem_cons.mp hm with he | ho
        · subst he
          exact hin.1 hx'
        · exact hdj x hx' ho
  | back n =>
    simp only [step] at h
    split at h
    · cases h
    · split at h
      · cases h
      · rename_i hni
        cases h
        simp at hni
        refine ⟨?_, hdead, ?_, ?_, ?_, ?_, hpn⟩
        · show (s.idle ++ [n]).Nodup
          rw [List.nodup_append]
          refine ⟨hnd, by simp, ?_⟩
          intro a ha b hb
          simp at hb
          subst hb
          intro hab
          subst hab
          exact hni ha
        · intro _
          exact Or.inl (by simp)
        · intro hr hl p hp
          obtain ⟨h1, h2, h3⟩ := hsp hr hl p hp
          refine ⟨?_, h2, h3⟩
          intro x hx
          show x ∈ s.idle ++ [n] ∨ x ∈ s.out.erase n
          rcases h1 x hx with hi | ho
          · exact Or.inl (by simp [hi])
          · by_cases hxn : x = n
            · exact Or.inl (by simp [hxn])
            · exact Or.inr ((List.mem_erase_of_ne hxn).mpr ho)
        · exact hond.erase n
        · intro x hx
          have hx' : x ∈ s.idle ++ [n] := hx
          show x ∉ s.out.erase n
          intro hm
          simp at hx'
          rcases hx' with hi | he
          · exact hdj x hi (List.mem_of_mem_erase hm)
          · exact ((List.Nodup.mem_erase_iff hond).mp hm).1 he
  | snap r t =>
    simp only [step] at h
    split at h
    · cases h
    · rename_i ht
      split at h
      · cases h
      · split at h
        · rename_i hcur
          cases h
          simp at ht hcur
          refine ⟨hnd, ?_, hfed, ?_, hond, hdj, ?_⟩
          · intro hl
            have : s.live = false := hl
            rw [hcur.2] at this
            cases this
          · intro _ _ p hp
            have hp' : some { prot := s.idle.take t, cand := s.idle.drop t : Pass } = some p := hp
            cases hp'
            refine ⟨?_, ?_, ?_⟩
            · intro x hx
              exact Or.inl (List.mem_of_mem_take hx)
            · exact take_drop_disjoint hnd t
            · exact take_ne_nil_of_drop_ne_nil ht
          · intro p hp
            have hp' : some { prot := s.idle.take t, cand := s.idle.drop t : Pass } = some p := hp
            cases hp'
            exact List.Nodup.sublist (List.take_sublist t s.idle) hnd
        · simp at h
          cases h
          exact ⟨hnd, hdead, hfed, hsp, hond, hdj, hpn⟩
  | rmv r n ok =>
    simp only [step] at h
    split at h
    · cases h
    · split at h
      · rename_i hcur
        simp at hcur
        split at h
        · cases h
        · rename_i p hp
          split at h
          · cases h
          · rename_i hc
            cases h
            simp at hc
            refine ⟨hnd.erase n, hdead, ?_, ?_, hond, fun x hx => hdj x (List.mem_of_mem_erase hx), hpn⟩
            · intro hr
              obtain ⟨h1, h2, h3⟩ := hsp hr hcur.2 p hp
              obtain ⟨x, hx⟩ := List.exists_mem_of_ne_nil _ (h3 (List.ne_nil_of_mem hc))
              have hxn : x ≠ n := fun e => h2 n hc (e ▸ hx)
              show s.idle.erase n ≠ [] ∨ s.out ≠ []
              rcases h1 x hx with hi | ho
              · exact Or.inl (List.ne_nil_of_mem ((List.mem_erase_of_ne hxn).mpr hi))
              · exact Or.inr (List.ne_nil_of_mem ho)
            · intro hr hl q hq
              have hq' : s.pass = some q := hq
              rw [hp] at hq'
              cases hq'
              obtain ⟨h1, h2, h3⟩ := hsp hr hcur.2 p hp
              refine ⟨?_, h2, h3⟩
              intro x hx
              show x ∈ s.idle.erase n ∨ x ∈ s.out
              have hxn : x ≠ n := fun e => h2 n hc (e ▸ hx)
              rcases h1 x hx with hi | ho
              · exact Or.inl ((List.mem_erase_of_ne hxn).mpr hi)
              · exact Or.inr ho
      · simp at h
  | kill =>
    simp only [step] at h
    cases h
    refine ⟨hnd, ?_, hfed, ?_, hond, hdj, ?_⟩
    · intro _
      rfl
    · intro _ hl
      simp at hl
    · intro p hp
      simp at hp
  | stopAll =>
    simp only [step] at h
    split at h
    · cases h
    · cases h
      refine ⟨hnd, hdead, ?_, ?_, hond, hdj, hpn⟩
      · intro hr
        simp at hr
      · intro hr
        simp at hr
  | stopRmv n ok =>
    simp only [step] at h
    split at h
    · cases h
    · rename_i hrun
      split at h
      · cases h
      · cases h
        have hrun' : s.running = false := by simpa using hrun
        refine ⟨hnd.erase n, hdead, ?_, ?_, hond, fun x hx => hdj x (List.mem_of_mem_erase hx), hpn⟩
        · intro hr
          have hr' : s.running = true := hr
          rw [hrun'] at hr'
          cases hr'
        · intro hr
          have hr' : s.running = true := hr
          rw [hrun'] at hr'
          cases hr'

theorem inv_reach {s : State} (h : Reach false s) : J s := by
  induction h with
  | init => exact J_init
  | step e _ hs ih => exact J_step e ih hs

/-! ## The theorems about the current code -/

/-- a running pool always has a worker: idle or out -/
theorem never_empty_handed {s : State} (h : Reach false s) (hr : s.running = true) :
    s.idle ≠ [] ∨ s.out ≠ [] :=
  (inv_reach h).fed hr

/-- a running pool in which no worker is out of the idle list has at least one idle worker: the reaper
    never takes the last one -/
theorem idle_worker_kept {s : State} (h : Reach false s) (hr : s.running = true)
    (hq : s.out = []) : 1 ≤ s.idle.length := by
  rcases never_empty_handed h hr with hi | ho
  · cases hs : s.idle with
    | nil => exact absurd hs hi
    | cons a l => simp
  · exact absurd hq ho

/-- the nodes before the target in the live reaper's snapshot are still in the pool -/
theorem reaper_spares_protected {s : State} {p : Pass} (h : Reach false s) (hr : s.running = true)
    (hl : s.live = true) (hp : s.pass = some p) : ∀ x ∈ p.prot, x ∈ s.idle ∨ x ∈ s.out :=
  ((inv_reach h).spared hr hl p hp).1

/-- … and the pass has a protected node whenever it has a candidate, none of which is protected -/
theorem pass_wellformed {s : State} {p : Pass} (h : Reach false s) (hr : s.running = true)
    (hl : s.live = true) (hp : s.pass = some p) :
    (∀ x ∈ p.cand, x ∉ p.prot) ∧ (p.cand ≠ [] → p.prot ≠ []) :=
  ((inv_reach h).spared hr hl p hp).2

/-- a Remove that succeeded was made by the reaper of the current run while its stop channel was open,
    on a node beyond the target in its snapshot -/
theorem reaper_removes_only_beyond_target {s s' : State} {r n : Nat}
    (h : step false s (.rmv r n true) = .ok s') :
    r = s.gen ∧ s.live = true ∧ ∃ p, s.pass = some p ∧ n ∈ p.cand ∧ s'.idle = s.idle.erase n := by
  simp only [step] at h
  split at h
  · cases h
  · split at h
    · rename_i hcur
      simp at hcur
      split at h
      · cases h
      · rename_i p hp
        split at h
        · cases h
        · rename_i hc
          cases h
          simp at hc
          exact ⟨hcur.1, hcur.2, p, hp, hc, rfl⟩
    · simp at h

/-- the stop-channel check of fix b9eba0f: the reaper of an ended run (or of a run whose stop channel
    is closed) removes nothing, whatever Remove would have returned -/
theorem ended_run_cannot_remove {s : State} {r n : Nat} {ok : Bool}
    (hne : r ≠ s.gen ∨ s.live = false) : ∀ s', step false s (.rmv r n ok) ≠ .ok s' := by
  intro s' h
  simp only [step] at h
  split at h
  · cases h
  · split at h
    · rename_i hcur
      simp at hcur
      rcases hne with h1 | h1
      · exact h1 hcur.1
      · rw [hcur.2] at h1
        cases h1
    · simp at h

/-- the snapshot of the live reaper: target at least 1, the first `t` idle nodes protected -/
theorem snapshot_split {s s' : State} {t : Nat} (hl : s.live = true)
    (h : step false s (.snap s.gen t) = .ok s') :
    1 ≤ t ∧ s'.pass = some { prot := s.idle.take t, cand := s.idle.drop t } := by
  simp only [step] at h
  split at h
  · cases h
  · rename_i ht
    simp at ht
    split at h
    · cases h
    · split at h
      · cases h
        exact ⟨by omega, rfl⟩
      · rename_i hcur
        simp [hl] at hcur

theorem idle_nodup {s : State} (h : Reach false s) : s.idle.Nodup :=
  (inv_reach h).nodup

/-- no node is out of the list twice, and no node is both idle and out -/
theorem out_nodup {s : State} (h : Reach false s) : s.out.Nodup :=
  (inv_reach h).outNodup

theorem idle_out_disjoint {s : State} (h : Reach false s) : ∀ x ∈ s.idle, x ∉ s.out :=
  (inv_reach h).disj

/-- while a pass of the live reaper is under way, at least as many workers are alive (idle or out with a job) as the
    pass protects: the first min(numMinIdleWorkers(), snapshot length) nodes of its snapshot -/
theorem reaper_keeps_minimum {s : State} {p : Pass} (h : Reach false s) (hr : s.running = true) (hl : s.live = true)
    (hp : s.pass = some p) : p.prot.length ≤ s.idle.length + s.out.length := by
  have hJ := inv_reach h
  have hsub : ∀ x ∈ p.prot, x ∈ s.idle ++ s.out := by
    intro x hx
    exact List.mem_append.mpr ((hJ.spared hr hl p hp).1 x hx)
  have := length_le_of_nodup_subset (hJ.protNodup p hp) hsub
  simpa [List.length_append] using this

/-- the moment the snapshot is taken: the pass protects min(target, idle length) nodes -/
theorem snapshot_protects_min {s s' : State} {t : Nat} (hl : s.live = true) (h : step false s (.snap s.gen t) = .ok s') :
    ∃ p, s'.pass = some p ∧ p.prot.length = min t s.idle.length :=
  ⟨_, (snapshot_split hl h).2, List.length_take⟩

/-! ## Concrete runs -/

theorem reach_run {old : Bool} {s s' : State} {es : List Ev} (h : Reach old s)
    (hrun : run old s es = .ok s') : Reach old s' := by
  induction es generalizing s with
  | nil =>
    simp only [run] at hrun
    cases hrun
    exact h
  | cons e es ih =>
    simp only [run] at hrun
    split at hrun
    · rename_i s1 hs1
      exact ih (Reach.step e h hs1) hrun
    · cases hrun

/-- the run that empties the pool with the reaper before b9eba0f: the reaper of run 0 snapshots [1, 2]
    with target 1, the pool is stopped and started again with node 2 (recycled through the cache) as its
    only idle worker, and the reaper of run 0 — which never looks at its stop channel — removes it -/
def oldRun : List Ev :=
  [.start 1, .take 1, .create 2, .back 1, .back 2, .snap 0 1, .kill, .stopAll, .stopRmv 1 true, .stopRmv 2 true,
   .start 2, .rmv 0 2 true]

/-- the final state of `oldRun` -/
def oldEnd : State :=
  { running := true, idle := [], out := [], gen := 1, live := true, pass := none, stale := [2] }

theorem oldRun_ok : run true init oldRun = .ok oldEnd := by
  rfl

/-- the defect of the reaper before b9eba0f: a running pool with nobody out and an empty idle list -/
theorem old_reaper_can_empty_the_pool :
    ∃ s, Reach true s ∧ s.running = true ∧ s.out = [] ∧ s.idle = [] :=
  ⟨oldEnd, reach_run Reach.init oldRun_ok, rfl, rfl, rfl⟩

/-! ## Non-vacuity -/

def accepted : Except String State → Bool
  | .ok _ => true
  | .error _ => false

def stateOf : Except String State → Option State
  | .ok s => some s
  | .error _ => none

/-- (a) `oldRun` is accepted only by the old code: the current code rejects its last step -/
example : accepted (run true init oldRun) = true ∧ accepted (run false init oldRun) = false := by
  decide

example : accepted (run false init oldRun.dropLast) = true := by
  decide

/-- (b) a live pass with a protected node and a candidate -/
def passRun : List Ev := [.start 1, .take 1, .create 2, .back 1, .back 2, .snap 0 1]

def passEnd : State :=
  { running := true, idle := [1, 2], out := [], gen := 0, live := true,
    pass := some { prot := [1], cand := [2] }, stale := [] }

theorem passRun_ok : run false init passRun = .ok passEnd := by
  rfl

example : ∃ s p, Reach false s ∧ s.running = true ∧ s.live = true ∧ s.pass = some p ∧
    p.prot ≠ [] ∧ p.cand ≠ [] :=
  ⟨passEnd, { prot := [1], cand := [2] }, reach_run Reach.init passRun_ok, rfl, rfl, rfl,
    by decide, by decide⟩

/-- … the pass protects one node (target 1) and two workers are alive: `reaper_keeps_minimum` is not vacuous -/
example : ∃ s p, Reach false s ∧ s.running = true ∧ s.live = true ∧ s.pass = some p ∧
    p.prot.length = 1 ∧ s.idle.length + s.out.length = 2 :=
  ⟨passEnd, { prot := [1], cand := [2] }, reach_run Reach.init passRun_ok, rfl, rfl, rfl, rfl, rfl⟩

example : (1 : Nat) ≤ passEnd.idle.length + passEnd.out.length :=
  reaper_keeps_minimum (p := { prot := [1], cand := [2] }) (reach_run Reach.init passRun_ok) rfl rfl rfl

/-- … and the snapshot of `passEnd` (target 1 on an idle list of 2) protects min 1 2 = 1 node -/
example : ∃ p, passEnd.pass = some p ∧ p.prot.length = min 1 2 :=
  snapshot_protects_min (s := { passEnd with pass := none }) (t := 1) rfl rfl

/-- … the candidate may be removed, which leaves the protected node idle -/
example : (stateOf (step false passEnd (.rmv 0 2 true))).map (·.idle) = some [1] := by
  decide

/-- … the protected node may not, and neither may a node outside the snapshot -/
example : accepted (step false passEnd (.rmv 0 1 true)) = false ∧
    accepted (step false passEnd (.rmv 0 3 false)) = false := by
  decide

/-- (c) after `kill` the reaper of run 0 removes nothing -/
example : accepted (run false init (passRun ++ [.kill])) = true ∧
    accepted (run false init (passRun ++ [.kill, .rmv 0 2 true])) = false ∧
    accepted (run false init (passRun ++ [.kill, .rmv 0 2 false])) = false ∧
    accepted (run false init (passRun ++ [.kill, .rmv 1 2 true])) = false := by
  decide

end Reap
end VarmqVerif

#print axioms VarmqVerif.Reap.inv_reach
#print axioms VarmqVerif.Reap.never_empty_handed
#print axioms VarmqVerif.Reap.idle_worker_kept
#print axioms VarmqVerif.Reap.reaper_spares_protected
#print axioms VarmqVerif.Reap.reaper_removes_only_beyond_target
#print axioms VarmqVerif.Reap.ended_run_cannot_remove
#print axioms VarmqVerif.Reap.snapshot_split
#print axioms VarmqVerif.Reap.idle_nodup
#print axioms VarmqVerif.Reap.reaper_keeps_minimum
#print axioms VarmqVerif.Reap.snapshot_protects_min
#print axioms VarmqVerif.Reap.old_reaper_can_empty_the_pool
