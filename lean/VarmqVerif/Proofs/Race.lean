/-
  Theorems about the happens-before race detector `Race` (Model/Race.lean), property C19.

  Main results, for every trace (any number of goroutines, synchronisation objects, events):
    * `detect_sound`     every report of `detect` is a `RacePair` of the trace: two conflicting accesses
                         of different goroutines that `HB` does not order (no false alarm)
    * `detect_sites`     … and the report carries the source sites of exactly these two accesses
    * `detect_complete`  every `RacePair` of the trace is reported
    * `detect_nil_iff`   `detect tr = []` exactly when the trace is not `Racy`
  The inductive invariant of `run (tr.take n)` is `Inv` in Proofs/RaceLemmas.lean (`inv_take`): the
  mask of goroutine t holds exactly the positions that are, or happen before, an event < n that t
  owns (its own events and the `go` statement that started it); the mask of object o holds exactly
  the positions that are, or happen before, an event < n that releases o; `accs` are exactly the
  accesses < n; `reports` are exactly the race pairs whose later access is < n.
  All statements were true for the model as written; the model was not changed.
-/
import VarmqVerif.Proofs.RaceLemmas

namespace VarmqVerif
namespace Race

/-- every report is a pair of unordered conflicting accesses of different goroutines -/
theorem detect_sound (tr : List Ev) (r : Report) (h : r ∈ detect tr) : RacePair tr r.i r.j :=
  (((inv_run tr).hrep r).1 h).2.racePair

/-- a report carries the source sites of its two accesses -/
theorem detect_sites (tr : List Ev) (r : Report) (h : r ∈ detect tr) :
    ∃ e f a s w b u x, tr[r.i]? = some e ∧ tr[r.j]? = some f ∧
      e.access = some (a, s, w, r.siteI) ∧ f.access = some (b, u, x, r.siteJ) := by
  obtain ⟨_, e, f, a, s, w, b, u, x, h1, h2, h3, h4, _⟩ := (((inv_run tr).hrep r).1 h).2
  exact ⟨e, f, a, s, w, b, u, x, h1, h2, h3, h4⟩

/-- every pair of unordered conflicting accesses of different goroutines is reported -/
theorem detect_complete (tr : List Ev) (i j : Nat) (h : RacePair tr i j) :
    ∃ r ∈ detect tr, r.i = i ∧ r.j = j := by
  obtain ⟨hlt, e, f, a, s, w, k, b, u, x, l, h1, h2, h3, h4, h5, h6, h7, h8⟩ := h
  refine ⟨⟨i, j, k, l⟩, ?_, rfl, rfl⟩
  refine ((inv_run tr).hrep _).2 ⟨?_, hlt, e, f, a, s, w, b, u, x, h1, h2, h3, h4, h5, h6, h7, h8⟩
  have := (List.getElem?_eq_some_iff.1 h2).1
  exact this

theorem detect_nil_iff (tr : List Ev) : detect tr = [] ↔ ¬ Racy tr := by
  constructor
  · rintro h ⟨i, j, hr⟩
    obtain ⟨r, hm, _⟩ := detect_complete tr i j hr
    rw [h] at hm
    cases hm
  · intro h
    cases hd : detect tr with
    | nil => rfl
    | cons r rs =>
      exact absurd ⟨r.i, r.j, detect_sound tr r (by rw [hd]; exact List.mem_cons_self)⟩ h

/-! ## Concrete traces (the detector is computable; these also show the statements are not vacuous) -/

open Ev

/-- two writes of different goroutines after the `go` statement: reported -/
example : detect [fork 0 1, wr 0 100 8 1, wr 1 100 8 2] = [⟨1, 2, 1, 2⟩] := by decide

/-- … so the trace is racy -/
example : Racy [fork 0 1, wr 0 100 8 1, wr 1 100 8 2] := by
  exact ⟨1, 2, detect_sound _ ⟨1, 2, 1, 2⟩ (by decide)⟩

/-- the same two writes under one lock -/
example : detect [fork 0 1, acq 0 7, wr 0 100 8 1, rel 0 7, acq 1 7, wr 1 100 8 2, rel 1 7] = [] := by
  decide

/-- … so the trace is not racy -/
example : ¬ Racy [fork 0 1, acq 0 7, wr 0 100 8 1, rel 0 7, acq 1 7, wr 1 100 8 2, rel 1 7] := by
  rw [← detect_nil_iff]
  decide

/-- two different locks do not protect -/
example : detect [fork 0 1, acq 0 7, wr 0 100 8 1, rel 0 7, acq 1 9, wr 1 100 8 2, rel 1 9]
    = [⟨2, 5, 1, 2⟩] := by decide

/-- a write before the `go` statement is ordered before everything the child does -/
example : detect [wr 0 100 8 1, fork 0 1, rd 1 100 8 2] = [] := by decide

/-- non-overlapping addresses -/
example : detect [fork 0 1, wr 0 100 8 1, wr 1 108 8 2] = [] := by decide

/-- overlapping ranges of different sizes -/
example : detect [fork 0 1, wr 0 100 8 1, rd 1 104 4 2] = [⟨1, 2, 1, 2⟩] := by decide

/-- two reads do not conflict -/
example : detect [fork 0 1, rd 0 100 8 1, rd 1 100 8 2] = [] := by decide

/-- join: the parent continues after the child's work -/
example : detect [fork 0 1, wr 1 100 8 1, join 0 1, rd 0 100 8 2] = [] := by decide

/-- without the join the read races with the child's write -/
example : detect [fork 0 1, wr 1 100 8 1, rd 0 100 8 2] = [⟨1, 2, 1, 2⟩] := by decide

/-- a channel (acqrel on both sides) orders the sender's earlier write before the receiver's read;
    the sender's later write is not ordered -/
example : detect [fork 0 1, wr 0 100 8 1, acqrel 0 5, wr 0 200 8 3, acqrel 1 5, rd 1 100 8 2,
    rd 1 200 8 4] = [⟨3, 6, 3, 4⟩] := by decide

/-- one access can race with several earlier ones: all are reported -/
example : detect [fork 0 1, fork 0 2, wr 1 100 8 1, wr 2 100 8 2, wr 0 100 8 3]
    = [⟨2, 3, 1, 2⟩, ⟨3, 4, 2, 3⟩, ⟨2, 4, 1, 3⟩] := by decide

end Race
end VarmqVerif
