/-
  Definitions and small lemmas shared by the proofs about the model `Job`
  (VarmqVerif/Model/Job.lean): the layered inductive invariant, the case-analysis tactic for
  `step`, a pigeonhole lemma on duplicate-free lists. Core tactics only.

  The invariant is split in layers so that every preservation proof sees only the facts it needs
  (`grind` is the work horse, its cost grows quickly with the number of quantified hypotheses):

    InvJ  status word, claim/enter/exit/close counters, `running` and `ld` locals
    InvM  the ghost history of the status word
    InvD  who owes a Done (`owesDone`), Done counters, the own wait group, `cnt` locals
    InvB  structure of batches: items, doneItems, count
    InvW  batch wait group = count + number of goroutines that owe a batch wg.Done
    InvC  response channels: owner, who owes the close, closed

  Preservation: JobInvJ*.lean, JobInvD.lean, JobInvB*.lean, JobInvW.lean, JobInvC*.lean.
  Theorems: Job.lean.
-/
import VarmqVerif.Model.Job

namespace VarmqVerif
namespace Job

/-! ## Lists -/

/-- A duplicate-free list included in another list is not longer. -/
theorem length_le_of_nodup_subset : ∀ {l₁ l₂ : List Nat}, l₁.Nodup → (∀ x ∈ l₁, x ∈ l₂) → l₁.length ≤ l₂.length
  | [], _, _, _ => by simp
  | a :: l, l₂, hn, hs => by
    have ha : a ∈ l₂ := hs a (by simp)
    have hn' := List.nodup_cons.mp hn
    have ih := length_le_of_nodup_subset (l₁ := l) (l₂ := l₂.erase a) hn'.2 (by
      intro x hx
      have hne : x ≠ a := by
        intro h
        subst h
        exact hn'.1 hx
      exact (List.mem_erase_of_ne hne).mpr (hs x (by simp [hx])))
    have hl := List.length_erase_of_mem ha
    have hpos : 0 < l₂.length := List.length_pos_of_mem ha
    simp only [List.length_cons]
    omega

/-- Pigeonhole: a duplicate-free sublist-as-a-set that is at least as long as the whole list
contains every element of it. -/
theorem mem_of_nodup_subset_length {l₁ l₂ : List Nat} (hn : l₁.Nodup) (hs : ∀ x ∈ l₁, x ∈ l₂)
    (hl : l₂.length ≤ l₁.length) : ∀ x ∈ l₂, x ∈ l₁ := by
  intro x hx
  apply Classical.byContradiction
  intro hnx
  have h := length_le_of_nodup_subset (l₁ := l₁) (l₂ := l₂.erase x) hn (by
    intro y hy
    have hne : y ≠ x := by
      intro h
      subst h
      exact hnx hy
    exact (List.mem_erase_of_ne hne).mpr (hs y hy))
  have hl' := List.length_erase_of_mem hx
  have hpos : 0 < l₂.length := List.length_pos_of_mem hx
  omega

/-! ## Case analysis of one step -/

/-- Turn `h : step s e = .ok s'` (for a constructor `e`) into one goal per successful branch of
`step`, with the guards as hypotheses and `s'` replaced by the explicit successor state. -/
macro "step_cases" h:ident : tactic => `(tactic| (
  simp only [step] at $h:ident <;> (repeat' split at $h:ident) <;> (try (simp at $h:ident)) <;>
  (try subst $h:ident) <;> simp at *))

/-- The preservation proofs are split over two files per layer along this partition of events. -/
def Ev.early : Ev → Bool
  | .newJob .. | .newBatch .. | .newItem .. | .stQueued .. | .stParsed .. | .ldClaim .. | .casClaim ..
  | .enter .. | .exit .. | .stFinished .. | .ldClose .. => true
  | _ => false

/-! ## The invariant -/

/-- Layer 1: the status word, the counters of claim/enter/exit/close, the `running` and `ld` locals. -/
structure InvJ (s : State) : Prop where
  nex : ∀ j, (s.jobs j).exist = false →
    (s.jobs j).claims = 0 ∧ (s.jobs j).closes = 0 ∧ (s.jobs j).st = created
  st_le : ∀ j, (s.jobs j).st ≤ closed
  head : ∀ j, (s.jobs j).hist.head? = some (s.jobs j).st
  claims_le : ∀ j, (s.jobs j).claims ≤ 1
  ent_le : ∀ j, (s.jobs j).entered ≤ (s.jobs j).claims
  ex_le : ∀ j, (s.jobs j).exited ≤ (s.jobs j).entered
  /-- outside `processing` nothing is pending: every claim was entered, every entry exited -/
  idle : ∀ j, (s.jobs j).st ≠ processing →
    (s.jobs j).entered = (s.jobs j).claims ∧ (s.jobs j).exited = (s.jobs j).entered
  low : ∀ j, (s.jobs j).st ≤ queued → (s.jobs j).claims = 0
  closes_le : ∀ j, (s.jobs j).closes ≤ 1
  closes0 : ∀ j, (s.jobs j).st ≠ closed → (s.jobs j).closes = 0
  canc : ∀ j, (s.jobs j).cancelled = true → (s.jobs j).st = closed ∧ (s.jobs j).claims = 0
  run : ∀ g j, (s.loc g).running = some j → (s.jobs j).st = processing ∧ (s.jobs j).entered = 1
  run_uniq : ∀ g g' j, (s.loc g).running = some j → (s.loc g').running = some j → g = g'
  ld_exist : ∀ g j v, (s.loc g).ld = some (j, v) → (s.jobs j).exist = true

/-- Layer 1b: the ghost history. For a job that was not parsed from a "Finished" envelope the
current status is the maximum of the history and the history is sorted. -/
structure InvM (s : State) : Prop where
  mono : ∀ j, (s.jobs j).parsedFinished = false →
    (∀ v ∈ (s.jobs j).hist, v ≤ (s.jobs j).st) ∧ List.Pairwise (· ≥ ·) (s.jobs j).hist ∧
    ((s.jobs j).st = finished → (s.jobs j).claims = 1)

/-- Layer 2: who owes a Done, Done counters, the own wait group, the locals of `WgCounter.Done`. -/
structure InvD (s : State) : Prop where
  owes : ∀ g j, (s.loc g).owesDone = some j →
    (s.jobs j).st = closed ∧ (s.jobs j).closes = 1 ∧ (s.jobs j).dones = 0
  owes_uniq : ∀ g g' j, (s.loc g).owesDone = some j → (s.loc g').owesDone = some j → g = g'
  dones_le : ∀ j, (s.jobs j).dones ≤ (s.jobs j).closes
  wg_single : ∀ j, (s.jobs j).exist = true → (s.jobs j).batch = none → (s.jobs j).wg + (s.jobs j).dones = 1
  cnt : ∀ g b c, (s.loc g).cnt = some (b, c) →
    c ≠ 0 ∧ ∃ j, (s.loc g).owesDone = some j ∧ (s.jobs j).batch = some b

/-- Layer 3: structure of batches. -/
structure InvB (s : State) : Prop where
  jb : ∀ j b, (s.jobs j).batch = some b →
    (s.jobs j).exist = true ∧ (s.batches b).exist = true ∧ (s.jobs j).chan = (s.batches b).chan ∧
    j ∈ (s.batches b).items
  items_ex : ∀ b j, j ∈ (s.batches b).items → (s.jobs j).exist = true ∧ (s.jobs j).batch = some b
  items_nodup : ∀ b, (s.batches b).items.Nodup
  items_len : ∀ b, (s.batches b).items.length ≤ (s.batches b).size
  done_mem : ∀ b j, j ∈ (s.batches b).doneItems →
    j ∈ (s.batches b).items ∧ (s.jobs j).st = closed ∧ (s.jobs j).dones = 1
  done_nodup : ∀ b, (s.batches b).doneItems.Nodup
  count_exact : ∀ b, (s.batches b).count + (s.batches b).doneItems.length = (s.batches b).size

/-- `L` enumerates, without repetition, exactly the goroutines that won the count CAS of batch `b`
and have not yet performed the `wg.Done()`; the wait group counter is ahead of `count` by `|L|`. -/
def WgList (s : State) (b : Nat) (L : List Nat) : Prop :=
  L.Nodup ∧ (∀ g, g ∈ L ↔ (s.loc g).owesWg = some b) ∧
  (s.batches b).wg = (s.batches b).count + L.length

/-- Layer 4: the batch wait group. -/
structure InvW (s : State) : Prop where
  wg_exist : ∀ g b, (s.loc g).owesWg = some b → (s.batches b).exist = true
  wg_list : ∀ b, ∃ L, WgList s b L

/-- Layer 5: response channels. A channel belongs either to one single job or to one batch; it is
closed, or somebody owes its close, only after the owner is done (`dones = 1` resp. `count = 0`);
at most one goroutine owes the close, and none once it is closed. -/
structure InvC (s : State) : Prop where
  cj : ∀ j c, (s.jobs j).chan = some c → (s.chans c).exist = true
  cb : ∀ b c, (s.batches b).chan = some c → (s.chans c).exist = true
  co : ∀ g c, (s.loc g).owesClose = some c → (s.chans c).exist = true
  cc : ∀ c, (s.chans c).closed = true → (s.chans c).exist = true
  u1 : ∀ j j' c, (s.jobs j).batch = none → (s.jobs j').batch = none →
    (s.jobs j).chan = some c → (s.jobs j').chan = some c → j = j'
  u2 : ∀ b b' c, (s.batches b).chan = some c → (s.batches b').chan = some c → b = b'
  u3 : ∀ j b c, (s.jobs j).batch = none → (s.jobs j).chan = some c → (s.batches b).chan ≠ some c
  sj_closed : ∀ j c, (s.jobs j).batch = none → (s.jobs j).chan = some c → (s.chans c).closed = true →
    (s.jobs j).dones = 1
  sj_owes : ∀ j c g, (s.jobs j).batch = none → (s.jobs j).chan = some c → (s.loc g).owesClose = some c →
    (s.jobs j).dones = 1
  sb_closed : ∀ b c, (s.batches b).chan = some c → (s.chans c).closed = true → (s.batches b).count = 0
  sb_owes : ∀ b c g, (s.batches b).chan = some c → (s.loc g).owesClose = some c → (s.batches b).count = 0
  close_uniq : ∀ g g' c, (s.loc g).owesClose = some c → (s.loc g').owesClose = some c → g = g'
  closed_free : ∀ g c, (s.chans c).closed = true → (s.loc g).owesClose ≠ some c

/-! ## The initial state -/

theorem InvJ.init : InvJ init := by constructor <;> simp [Job.init]
theorem InvM.init : InvM init := by constructor <;> simp [Job.init]
theorem InvD.init : InvD init := by constructor <;> simp [Job.init]
theorem InvB.init : InvB init := by constructor <;> simp [Job.init]
theorem InvW.init : InvW init :=
  ⟨by simp [Job.init], fun _ => ⟨[], by simp [WgList, Job.init]⟩⟩
theorem InvC.init : InvC init := by constructor <;> simp [Job.init]

end Job
end VarmqVerif
