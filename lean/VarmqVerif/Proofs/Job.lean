/-
  Theorems about the model `Job` (VarmqVerif/Model/Job.lean): the per-job protocol of job.go /
  group_job.go / internal/helpers/{wg_counter,response}.go on the repaired tree. Core tactics only.
  All statements are about every reachable state: unbounded numbers of jobs, batches, channels,
  goroutines and events.

  Main results (`Reach s` is the only standing hypothesis)
  * `claims_le_one`, `runs_le_one` (C01), `cancelled_never_runs` (C01/C10), `closes_le_one` (C10)
  * `no_crash` (C05/C08/C10): no negative WaitGroup counter, no close of a closed channel, no send
    on a closed channel
  * `status_le_closed`, `status_head`, `status_monotone` (C16; for every job that was not parsed
    from an envelope that says "Finished" — `status_monotone_parsedFinished_real` shows that the
    excluded case is a real behaviour of the code), `closed_is_final`
  * `processing_while_running`, `closed_not_running`, `wait_returns_closed` (C05)
  * `batch_count_exact` (C08), `batch_wg_exact`, `batch_wg_le`, `batch_wg_le_list`, `batch_wg_eq`,
    `batch_wait_all_closed` (C05/C08)
  * `stream_closed_all_closed`, `stream_closed_no_closer`, `stream_closer_unique` (C08)

  The inductive invariant is `Inv` (layers `InvJ`, `InvM`, `InvD`, `InvB`, `InvW`, `InvC` of
  JobLemmas.lean plus `crashed = false`); `inv_of_reach : Reach s → Inv s`.
-/
import VarmqVerif.Proofs.JobInvJ1
import VarmqVerif.Proofs.JobInvJ2
import VarmqVerif.Proofs.JobInvD
import VarmqVerif.Proofs.JobInvB1
import VarmqVerif.Proofs.JobInvB2
import VarmqVerif.Proofs.JobInvW
import VarmqVerif.Proofs.JobInvC1
import VarmqVerif.Proofs.JobInvC2

namespace VarmqVerif
namespace Job

/-! ## The bundled invariant -/

theorem InvJ.step {s s' : State} {e : Ev} (I : InvJ s) (h : step s e = .ok s') : InvJ s' := by
  cases he : e.early
  · exact I.step_late he h
  · exact I.step_early he h

theorem InvB.step {s s' : State} {e : Ev} (J : InvJ s) (D : InvD s) (I : InvB s)
    (h : step s e = .ok s') : InvB s' := by
  cases he : e.early
  · exact InvB.step_late J D I he h
  · exact InvB.step_early J D I he h

theorem InvC.step {s s' : State} {e : Ev} (J : InvJ s) (D : InvD s) (I : InvC s)
    (h : step s e = .ok s') : InvC s' := by
  cases he : e.early
  · exact InvC.step_late J D I he h
  · exact InvC.step_early J D I he h

/-- The inductive invariant of the model. -/
structure Inv (s : State) : Prop where
  J : InvJ s
  M : InvM s
  D : InvD s
  B : InvB s
  W : InvW s
  C : InvC s
  ok : s.crashed = false

/-- When the count of a batch is 0 every item created so far has performed its Done
(pigeonhole: `doneItems` is a duplicate-free part of `items` of length `size ≥ |items|`). -/
theorem Inv.all_done {s : State} (I : Inv s) {b : Nat} (h0 : (s.batches b).count = 0) :
    ∀ j ∈ (s.batches b).items, j ∈ (s.batches b).doneItems := by
  have h1 := I.B.count_exact b
  have h2 := I.B.items_len b
  exact mem_of_nodup_subset_length (I.B.done_nodup b) (fun x hx => (I.B.done_mem b x hx).1) (by omega)

theorem Inv.items_full {s : State} (I : Inv s) {b : Nat} (h0 : (s.batches b).count = 0) :
    (s.batches b).items.length = (s.batches b).size := by
  have h1 := I.B.count_exact b
  have h2 := I.B.items_len b
  have h3 := length_le_of_nodup_subset (I.B.done_nodup b) (fun x hx => (I.B.done_mem b x hx).1)
  omega

/-- A closed response channel: every job that uses it is closed. -/
theorem Inv.stream_closed {s : State} (I : Inv s) {c j : Nat} (hc : (s.chans c).closed = true)
    (hj : (s.jobs j).chan = some c) : (s.jobs j).st = closed := by
  cases hb : (s.jobs j).batch with
  | none =>
    have h1 := I.C.sj_closed j c hb hj hc
    have h2 := I.D.dones_le j
    have h3 := I.J.closes0 j
    apply Classical.byContradiction
    intro hne
    have := h3 hne
    omega
  | some b =>
    obtain ⟨_, _, hch, hmem⟩ := I.B.jb j b hb
    have h0 := I.C.sb_closed b c (by rw [← hch]; exact hj) hc
    exact (I.B.done_mem b j (I.all_done h0 j hmem)).2.1

set_option maxHeartbeats 1000000 in
/-- none of the three panics can happen from a state that satisfies the invariant -/
theorem Inv.step_ok {s s' : State} {e : Ev} (I : Inv s) (h : step s e = .ok s') :
    s'.crashed = false := by
  have hok := I.ok
  have j1 := I.J.nex
  have j2 := I.J.run
  have d1 := I.D.owes
  have d2 := I.D.wg_single
  have w1 := I.W.wg_list
  have c1 := I.C.closed_free
  have c2 := fun c j => I.stream_closed (c := c) (j := j)
  clear I
  cases e <;> step_cases h <;> try assumption
  · -- wgDone with counter 0
    rename_i g j _ _ _
    have h1 := d1 g j (by assumption)
    have h2 := d2 j
    have h3 := j1 j
    cases hx : (s.jobs j).exist <;> grind
  · -- wgDoneB with counter 0
    rename_i g b _ _
    obtain ⟨L, _, hm, hw⟩ := w1 b
    have hg := (hm g).2 (by assumption)
    have := List.length_pos_of_mem hg
    omega
  · -- close of a closed channel
    grind
  · -- send on a closed channel
    grind

theorem Inv.step {s s' : State} {e : Ev} (I : Inv s) (h : step s e = .ok s') : Inv s' :=
  ⟨I.J.step h, InvM.step I.J I.M h, InvD.step I.J I.D h, InvB.step I.J I.D I.B h,
   InvW.step I.D I.B I.W h, InvC.step I.J I.D I.C h, I.step_ok h⟩

theorem Inv.init : Inv init :=
  ⟨InvJ.init, InvM.init, InvD.init, InvB.init, InvW.init, InvC.init, rfl⟩

theorem inv_of_reach {s : State} (h : Reach s) : Inv s := by
  induction h with
  | init => exact Inv.init
  | step e _ hs ih => exact ih.step hs

theorem reach_run {s s' : State} (hr : Reach s) : ∀ {evs : List Ev}, run s evs = .ok s' → Reach s'
  | [], h => by
    simp [run] at h
    exact h ▸ hr
  | e :: es, h => by
    simp only [run] at h
    split at h
    · rename_i s₁ hs
      exact reach_run (hr.step e hs) h
    · simp at h

/-! ## Claim, run, close: at most once (C01, C10) -/

theorem claims_le_one {s : State} {j : Nat} (h : Reach s) : (s.jobs j).claims ≤ 1 :=
  (inv_of_reach h).J.claims_le j

/-- C01: the worker function of a job is entered at most once. -/
theorem runs_le_one {s : State} {j : Nat} (h : Reach s) : (s.jobs j).entered ≤ 1 := by
  have := (inv_of_reach h).J.claims_le j
  have := (inv_of_reach h).J.ent_le j
  omega

/-- C01/C10: a job whose Close() succeeded before it started never runs, in any later state
(the statement is about every reachable state in which the flag is set). -/
theorem cancelled_never_runs {s : State} {j : Nat} (h : Reach s) (hc : (s.jobs j).cancelled = true) :
    (s.jobs j).entered = 0 := by
  have := ((inv_of_reach h).J.canc j hc).2
  have := (inv_of_reach h).J.ent_le j
  omega

/-- C10: at most one tryClose CAS succeeds. -/
theorem closes_le_one {s : State} {j : Nat} (h : Reach s) : (s.jobs j).closes ≤ 1 :=
  (inv_of_reach h).J.closes_le j

/-- C05/C08/C10: no negative WaitGroup counter, no close of a closed channel, no send on a closed
channel. -/
theorem no_crash {s : State} (h : Reach s) : s.crashed = false := (inv_of_reach h).ok

/-! ## The status word (C16) -/

theorem status_le_closed {s : State} {j : Nat} (h : Reach s) : (s.jobs j).st ≤ closed :=
  (inv_of_reach h).J.st_le j

theorem status_head {s : State} {j : Nat} (h : Reach s) : (s.jobs j).hist.head? = some (s.jobs j).st :=
  (inv_of_reach h).J.head j

/-- C16: the status word only moves forward (`hist` is newest first). Holds for every job that
was not created by parseToJob from an envelope whose status is "Finished" (no such job has a
user-visible handle). -/
theorem status_monotone {s : State} {j : Nat} (h : Reach s) (hp : (s.jobs j).parsedFinished = false) :
    List.Pairwise (· ≥ ·) (s.jobs j).hist :=
  ((inv_of_reach h).M.mono j hp).2.1

theorem status_max {s : State} {j : Nat} (h : Reach s) (hp : (s.jobs j).parsedFinished = false) :
    ∀ v ∈ (s.jobs j).hist, v ≤ (s.jobs j).st :=
  ((inv_of_reach h).M.mono j hp).1

set_option maxHeartbeats 1000000 in
/-- Closed is final: no event changes the status word of a closed job. -/
theorem closed_is_final {s s' : State} {e : Ev} {j : Nat} (h : Reach s) (hc : (s.jobs j).st = closed)
    (hs : step s e = .ok s') : (s'.jobs j).st = closed := by
  have j1 := (inv_of_reach h).J.nex
  have j2 := (inv_of_reach h).J.head
  clear h
  cases e <;> step_cases hs <;> first | assumption | grind [upd, setSt]

/-- C16/C10: while the worker function is executing the status is Processing (so a Close() on an
executing job reads Processing and fails with ErrJobProcessing). -/
theorem processing_while_running {s : State} {j : Nat} (h : Reach s)
    (hr : (s.jobs j).exited < (s.jobs j).entered) : (s.jobs j).st = processing := by
  apply Classical.byContradiction
  intro hne
  have := ((inv_of_reach h).J.idle j hne).2
  omega

theorem closed_not_running {s : State} {j : Nat} (h : Reach s) (hc : (s.jobs j).st = closed) :
    (s.jobs j).exited = (s.jobs j).entered :=
  ((inv_of_reach h).J.idle j (by rw [hc]; decide)).2

/-- C05: `Wait()` on a single job returns only when the job is closed (it finished or was
cancelled) and its worker function is not executing. -/
theorem wait_returns_closed {s s' : State} {g j : Nat} (h : Reach s)
    (hs : step s (.wgWait g j) = .ok s') (hb : (s.jobs j).batch = none) :
    (s.jobs j).st = closed ∧ (s.jobs j).exited = (s.jobs j).entered := by
  have I := inv_of_reach h
  have hst : (s.jobs j).st = closed := by
    simp only [step] at hs
    split at hs
    · simp at hs
    · split at hs
      · simp at hs
      · rename_i he hw
        have h1 := I.D.wg_single j (by simpa using he) hb
        have h2 := I.D.dones_le j
        have h3 := I.J.closes0 j
        have hw' : (s.jobs j).wg = 0 := by simpa using hw
        apply Classical.byContradiction
        intro hne
        have := h3 hne
        omega
  exact ⟨hst, closed_not_running h hst⟩

/-! ## Batches (C05, C08) -/

/-- C08: `NumPending()` is exactly the number of items that have not performed their Done.
(Holds for every `b`; a batch that does not exist has `0 + 0 = 0`.) -/
theorem batch_count_exact' {s : State} {b : Nat} (h : Reach s) :
    (s.batches b).count + (s.batches b).doneItems.length = (s.batches b).size :=
  (inv_of_reach h).B.count_exact b

theorem batch_count_exact {s : State} {b : Nat} (h : Reach s) (_ : (s.batches b).exist = true) :
    (s.batches b).count + (s.batches b).doneItems.length = (s.batches b).size :=
  batch_count_exact' h

/-- The done items are distinct members of the batch, each closed. -/
theorem batch_done_items {s : State} {b : Nat} (h : Reach s) :
    (s.batches b).doneItems.Nodup ∧ (s.batches b).items.Nodup ∧
    (s.batches b).items.length ≤ (s.batches b).size ∧
    ∀ j ∈ (s.batches b).doneItems, j ∈ (s.batches b).items ∧ (s.jobs j).st = closed :=
  have I := inv_of_reach h
  ⟨I.B.done_nodup b, I.B.items_nodup b, I.B.items_len b,
   fun j hj => ⟨(I.B.done_mem b j hj).1, (I.B.done_mem b j hj).2.1⟩⟩

/-- The batch wait group counter is ahead of `count` by exactly the number of goroutines that won
the count CAS and have not yet called `wg.Done()`: there is a duplicate-free enumeration `L` of
precisely these goroutines with `wg = count + |L|`. -/
theorem batch_wg_exact {s : State} {b : Nat} (h : Reach s) :
    ∃ L : List Nat, L.Nodup ∧ (∀ g, g ∈ L ↔ (s.loc g).owesWg = some b) ∧
      (s.batches b).wg = (s.batches b).count + L.length :=
  (inv_of_reach h).W.wg_list b

theorem batch_wg_le {s : State} {b : Nat} (h : Reach s) : (s.batches b).count ≤ (s.batches b).wg := by
  obtain ⟨L, _, _, hw⟩ := batch_wg_exact (b := b) h
  omega

/-- every set of distinct goroutines that owe a `wg.Done()` for `b` is accounted for in `wg` -/
theorem batch_wg_le_list {s : State} {b : Nat} {L : List Nat} (h : Reach s) (hn : L.Nodup)
    (ho : ∀ g ∈ L, (s.loc g).owesWg = some b) :
    (s.batches b).count + L.length ≤ (s.batches b).wg := by
  obtain ⟨L', _, hm, hw⟩ := batch_wg_exact (b := b) h
  have := length_le_of_nodup_subset hn (fun g hg => (hm g).2 (ho g hg))
  omega

theorem batch_wg_eq {s : State} {b : Nat} (h : Reach s) (hno : ∀ g, (s.loc g).owesWg ≠ some b) :
    (s.batches b).wg = (s.batches b).count := by
  obtain ⟨L, _, hm, hw⟩ := batch_wg_exact (b := b) h
  cases L with
  | nil => simpa using hw
  | cons g L => exact absurd ((hm g).1 (by simp)) (hno g)

/-- C05/C08: the batch `Wait()` returns only when all `size` items have been created, every one
of them is closed, and `NumPending()` is 0. -/
theorem batch_wait_all_closed {s s' : State} {g b : Nat} (h : Reach s)
    (hs : step s (.wgWaitB g b) = .ok s') :
    (∀ j ∈ (s.batches b).items, (s.jobs j).st = closed) ∧
    (s.batches b).items.length = (s.batches b).size ∧ (s.batches b).count = 0 := by
  have I := inv_of_reach h
  have h0 : (s.batches b).count = 0 := by
    simp only [step] at hs
    split at hs
    · simp at hs
    · split at hs
      · simp at hs
      · rename_i _ hw
        have hw' : (s.batches b).wg = 0 := by simpa using hw
        have := batch_wg_le (b := b) h
        omega
  exact ⟨fun j hj => (I.B.done_mem b j (I.all_done h0 j hj)).2.1, I.items_full h0, h0⟩

/-! ## Response channels (C08) -/

/-- C08: a response channel is closed only after every job that uses it is closed … -/
theorem stream_closed_all_closed {s : State} {c : Nat} (h : Reach s) (hc : (s.chans c).closed = true) :
    ∀ j, (s.jobs j).chan = some c → (s.jobs j).st = closed :=
  fun _ hj => (inv_of_reach h).stream_closed hc hj

/-- … hence nobody is left who would close it a second time … -/
theorem stream_closed_no_closer {s : State} {c : Nat} (h : Reach s) (hc : (s.chans c).closed = true) :
    ∀ g, (s.loc g).owesClose ≠ some c :=
  fun g => (inv_of_reach h).C.closed_free g c hc

/-- … at any time at most one goroutine is about to close it … -/
theorem stream_closer_unique {s : State} {c g g' : Nat} (h : Reach s)
    (h1 : (s.loc g).owesClose = some c) (h2 : (s.loc g').owesClose = some c) : g = g' :=
  (inv_of_reach h).C.close_uniq g g' c h1 h2

/-- … and nobody can send on it any more: a sender is inside the worker function of a job in
status Processing. -/
theorem stream_closed_no_sender {s : State} {c g j : Nat} (h : Reach s) (hc : (s.chans c).closed = true)
    (hr : (s.loc g).running = some j) : (s.jobs j).chan ≠ some c := by
  intro hj
  have h1 := stream_closed_all_closed h hc j hj
  have h2 := ((inv_of_reach h).J.run g j hr).1
  rw [h1] at h2
  exact absurd h2 (by decide)

/-- Who still owes the Done of a job: exactly one goroutine, the job is closed and its Done has
not been performed (so `wg.Done()` / `WgCounter.Done()` happens at most once per job). -/
theorem done_owner_unique {s : State} {j g g' : Nat} (h : Reach s)
    (h1 : (s.loc g).owesDone = some j) (h2 : (s.loc g').owesDone = some j) :
    g = g' ∧ (s.jobs j).st = closed ∧ (s.jobs j).dones = 0 :=
  have I := inv_of_reach h
  ⟨I.D.owes_uniq g g' j h1 h2, (I.D.owes g j h1).1, (I.D.owes g j h1).2.2⟩

theorem dones_le_one {s : State} {j : Nat} (h : Reach s) : (s.jobs j).dones ≤ 1 := by
  have := (inv_of_reach h).D.dones_le j
  have := (inv_of_reach h).J.closes_le j
  omega

/-! ## Non-vacuity: concrete runs -/

/-- final state of a run from `init` (the initial state when the run is rejected) -/
def finalOf (evs : List Ev) : State :=
  match run init evs with
  | .ok s => s
  | .error _ => init

def accepted (evs : List Ev) : Bool :=
  match run init evs with
  | .ok _ => true
  | .error _ => false

theorem reach_finalOf (evs : List Ev) : Reach (finalOf evs) := by
  unfold finalOf
  split
  · rename_i s hs
    exact reach_run Reach.init hs
  · exact Reach.init

/-- what the examples look at in a job -/
def jobObs (s : State) (j : Nat) : List Nat :=
  let js := s.jobs j
  [js.st, js.claims, js.entered, js.exited, js.closes, js.dones, js.wg, if js.cancelled then 1 else 0]

/-- A single result job (goroutine 0 adds it, worker goroutine 1 claims and runs it and sends the
result, stores Finished and closes it; the user, goroutine 2, calls Close() concurrently, loads
Finished as well and loses the CAS), then `Wait()` returns. -/
def exSingle : List Ev :=
  [.newJob 0 0 (some 0), .stQueued 0 0, .ldClaim 1 0 1, .casClaim 1 0 1 true, .enter 1 0, .sendChan 1 0,
   .exit 1 0, .stFinished 1 0, .ldClose 1 0 3, .ldClose 2 0 3, .casClose 1 0 3 true, .casClose 2 0 3 false,
   .wgDone 1 0, .closeChan 1 0, .wgWait 2 0]

example : accepted exSingle = true := by decide
example : jobObs (finalOf exSingle) 0 = [closed, 1, 1, 1, 1, 1, 0, 0] := by decide
example : (finalOf exSingle).crashed = false ∧ ((finalOf exSingle).chans 0).closed = true ∧
    ((finalOf exSingle).chans 0).sends = 1 ∧ ((finalOf exSingle).jobs 0).hist = [4, 3, 2, 1, 0] := by decide
/-- hypotheses of `processing_while_running`, `wait_returns_closed`, `stream_closed_all_closed`,
`closed_is_final` occur: -/
example : ((finalOf (exSingle.take 6)).jobs 0).exited < ((finalOf (exSingle.take 6)).jobs 0).entered := by
  decide
example : ∃ s', step (finalOf (exSingle.take 14)) (.wgWait 2 0) = .ok s' ∧
    ((finalOf (exSingle.take 14)).jobs 0).batch = none := ⟨_, rfl, by decide⟩
example : ((finalOf exSingle).jobs 0).chan = some 0 ∧ ((finalOf exSingle).chans 0).closed = true := by decide

/-- A job that is cancelled while the dispatcher (goroutine 1) is between the load and the CAS of
claim(): the user's Close() (goroutine 2) wins, the claim CAS fails, the next load sees Closed. -/
def exCancel : List Ev :=
  [.newJob 0 0 none, .stQueued 0 0, .ldClaim 1 0 1, .ldClose 2 0 1, .casClose 2 0 1 true, .casClaim 1 0 1 false,
   .ldClaim 1 0 4, .wgDone 2 0, .wgWait 2 0]

example : accepted exCancel = true := by decide
example : jobObs (finalOf exCancel) 0 = [closed, 0, 0, 0, 1, 1, 0, 1] := by decide
example : ((finalOf exCancel).jobs 0).cancelled = true := by decide

/-- A rejected Add: the adder closes the job it has just created (status still Created). -/
def exRejected : List Ev := [.newJob 0 0 none, .ldClose 0 0 0, .casClose 0 0 0 true, .wgDone 0 0, .wgWait 0 0]

example : accepted exRejected = true := by decide
example : jobObs (finalOf exRejected) 0 = [closed, 0, 0, 0, 1, 1, 0, 1] := by decide

/-- A batch of two result items (stream 0). The items are created while nothing has completed;
worker goroutines 1 and 2 run one item each; both load count 2, goroutine 1 wins the CAS,
goroutine 2 retries, takes the count to 0 and closes the stream; then the batch `Wait()` returns. -/
def exBatch : List Ev :=
  [.newBatch 0 0 2 (some 0), .newItem 0 0 0, .stQueued 0 0, .newItem 0 1 0, .stQueued 0 1,
   .ldClaim 1 0 1, .casClaim 1 0 1 true, .ldClaim 2 1 1, .casClaim 2 1 1 true, .enter 1 0, .enter 2 1,
   .sendChan 1 0, .sendChan 2 0, .exit 1 0, .exit 2 1, .stFinished 1 0, .stFinished 2 1,
   .ldClose 1 0 3, .casClose 1 0 3 true, .ldClose 2 1 3, .casClose 2 1 3 true,
   .ldCount 1 0 2, .ldCount 2 0 2, .casCount 1 0 2 true, .casCount 2 0 2 false, .wgDoneB 1 0,
   .ldCount 2 0 1, .casCount 2 0 1 true, .wgDoneB 2 0, .closeChan 2 0, .wgWaitB 0 0]

def batchObs (s : State) (b : Nat) : List Nat × List Nat × List Nat :=
  let bs := s.batches b
  ([bs.size, bs.count, bs.wg], bs.items, bs.doneItems)

example : accepted exBatch = true := by decide
example : batchObs (finalOf exBatch) 0 = ([2, 0, 0], [1, 0], [1, 0]) := by decide
example : jobObs (finalOf exBatch) 0 = [closed, 1, 1, 1, 1, 1, 0, 0] ∧
    jobObs (finalOf exBatch) 1 = [closed, 1, 1, 1, 1, 1, 0, 0] := by decide
example : (finalOf exBatch).crashed = false ∧ ((finalOf exBatch).chans 0).closed = true ∧
    ((finalOf exBatch).chans 0).sends = 2 := by decide
/-- in the middle (after the first count CAS) goroutine 1 owes the batch wg.Done: wg = count + 1 -/
example : batchObs (finalOf (exBatch.take 24)) 0 = ([2, 1, 2], [1, 0], [0]) ∧
    ((finalOf (exBatch.take 24)).loc 1).owesWg = some 0 := by decide
example : ∃ s', step (finalOf (exBatch.take 30)) (.wgWaitB 0 0) = .ok s' := ⟨_, rfl⟩

/-- An item of a batch completes while a later item has not even been created. -/
def exBatchEarly : List Ev :=
  [.newBatch 0 0 2 none, .newItem 0 0 0, .stQueued 0 0, .ldClaim 1 0 1, .casClaim 1 0 1 true, .enter 1 0, .exit 1 0,
   .stFinished 1 0, .ldClose 1 0 3, .casClose 1 0 3 true, .ldCount 1 0 2, .casCount 1 0 2 true, .wgDoneB 1 0,
   .newItem 0 1 0, .stQueued 0 1]

example : accepted exBatchEarly = true := by decide
example : batchObs (finalOf exBatchEarly) 0 = ([2, 1, 1], [1, 0], [0]) := by decide

/-- An empty batch: nothing will ever finish, the creator closes the stream; `Wait()` returns. -/
def exEmpty : List Ev := [.newBatch 0 0 0 (some 0), .closeChan 0 0, .wgWaitB 0 0]

example : accepted exEmpty = true := by decide
example : batchObs (finalOf exEmpty) 0 = ([0, 0, 0], [], []) ∧ ((finalOf exEmpty).chans 0).closed = true ∧
    (finalOf exEmpty).crashed = false := by decide
example : ((finalOf (exEmpty.take 1)).loc 0).owesClose = some 0 := by decide

/-- The case excluded from `status_monotone` is real: parseToJob stores whatever the envelope says
and claim() moves every status except Closed to Processing. -/
def exParsedFinished : List Ev := [.newJob 0 0 none, .stParsed 0 0 3, .ldClaim 1 0 3, .casClaim 1 0 3 true]

theorem status_monotone_parsedFinished_real :
    Reach (finalOf exParsedFinished) ∧ ((finalOf exParsedFinished).jobs 0).parsedFinished = true ∧
    ((finalOf exParsedFinished).jobs 0).hist = [processing, finished, created] ∧
    ¬ List.Pairwise (· ≥ ·) ((finalOf exParsedFinished).jobs 0).hist :=
  ⟨reach_finalOf _, by decide, by decide, by decide⟩

/-- the theorems apply to the example runs, e.g.: -/
example : ((finalOf exCancel).jobs 0).entered = 0 := cancelled_never_runs (reach_finalOf _) (by decide)
example : List.Pairwise (· ≥ ·) ((finalOf exSingle).jobs 0).hist := status_monotone (reach_finalOf _) (by decide)

/-! ## Axioms -/

#print axioms claims_le_one
#print axioms runs_le_one
#print axioms cancelled_never_runs
#print axioms closes_le_one
#print axioms no_crash
#print axioms status_le_closed
#print axioms status_head
#print axioms status_monotone
#print axioms status_max
#print axioms closed_is_final
#print axioms processing_while_running
#print axioms closed_not_running
#print axioms wait_returns_closed
#print axioms batch_count_exact
#print axioms batch_count_exact'
#print axioms batch_done_items
#print axioms batch_wg_exact
#print axioms batch_wg_le
#print axioms batch_wg_le_list
#print axioms batch_wg_eq
#print axioms batch_wait_all_closed
#print axioms stream_closed_all_closed
#print axioms stream_closed_no_closer
#print axioms stream_closer_unique
#print axioms stream_closed_no_sender
#print axioms done_owner_unique
#print axioms dones_le_one
#print axioms status_monotone_parsedFinished_real
#print axioms inv_of_reach

end Job
end VarmqVerif

namespace VarmqVerif
namespace Job

/-- Acknowledge is called only by the goroutine that closed the job, on a Closed job whose worker
    function is not running -/
theorem ack_by_closer {s s' : State} {g j : Nat} (h : Reach s) (hst : step s (.ack g j) = .ok s') :
    (s.jobs j).st = closed ∧ (s.jobs j).exited = (s.jobs j).entered ∧ (s.jobs j).acks = 0 := by
  have hown : (s.loc g).owesDone = some j ∧ (s.jobs j).acks = 0 := by
    simp only [step] at hst
    split at hst
    · cases hst
    · split at hst
      · cases hst
      · rename_i h1 h2
        constructor
        · simpa using h1
        · simpa using h2
  have hd := (done_owner_unique h hown.1 hown.1).2
  exact ⟨hd.1, closed_not_running h hd.1, hown.2⟩

end Job
end VarmqVerif
