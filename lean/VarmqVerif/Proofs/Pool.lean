/-
  Theorems about the `Pool` model (ownership of worker-pool nodes; C01/C03: a job handed to a node is
  never stranded), for ALL reachable states — unbounded nodes, goroutines, events.

  The inductive invariant is `Inv` in `PoolLemmas.lean`; its core is the server accounting

      (s.nodes n).srvs.length = pend (s.nodes n) + live (s.nodes n).loc          (`srvs_count`)

  (`pend` = sentinels in the channel, `live` = 1 for held/idle/inflight, 0 otherwise), from which every
  statement below is a two-line consequence.

  History: with the first version of the model (`get` gave `held g` directly and `spawn` only needed
  `held g`) the counting statements were FALSE — a holder could skip `go Serve` or start it repeatedly:
      [get 0 0, spawn 0 0 1, spawn 0 0 2, spawn 0 0 3]   held, srvs = [3,2,1]            (servers_bounded)
      [get 0 0, push 0 0]                                idle, srvs = []                 (idle_ready)
      [get 0 0, sendJob 0 0 7]                           inflight, job 7, srvs = []      (inflight_has_server, recv_enabled)
      [get 0 0, sendStop 0 0]                            buf = stop, srvs = []           (recv_enabled)
      [get 0 0, sendStop 0 0, put 0 0, get 1 0]          held 1, buf = stop, srvs = []   (held_send_unblocks)
  The model now transcribes `initPoolNode` (`Cache.Get(); go Serve`) with `Loc.fresh`; these five runs
  are rejected (`examples` at the end) and all statements hold for plain `Reach`.
-/
import VarmqVerif.Proofs.PoolLemmas

namespace VarmqVerif
namespace Pool

variable {s : State} {n : Nat}

/-! ### idle list -/

theorem idle_iff (h : Reach s) : n ∈ s.idle ↔ (s.nodes n).loc = .idle := (Inv.of_reach h).mem n

theorem idle_nodup (h : Reach s) : s.idle.Nodup := (Inv.of_reach h).nodup

/-! ### server accounting -/

/-- The master equation: servers = pending sentinels + (1 if the location needs a server). -/
theorem srvs_count (h : Reach s) : (s.nodes n).srvs.length = pend (s.nodes n) + live (s.nodes n).loc :=
  ((Inv.of_reach h).node n).cnt

theorem srvs_nodup (h : Reach s) : (s.nodes n).srvs.Nodup := ((Inv.of_reach h).node n).nodup

/-- `eff` is a function of the location alone. -/
theorem eff_eq_live (h : Reach s) : eff (s.nodes n) = live (s.nodes n).loc := by
  have := srvs_count (n := n) h
  simp only [pend] at this
  simp only [eff]
  omega

/-- A pending sentinel always has a goroutine that can consume it. -/
theorem stop_has_server (h : Reach s) (hb : (s.nodes n).buf = some .stop) : (s.nodes n).srvs ≠ [] := by
  have := srvs_count (n := n) h
  simp only [pend, hb, if_true] at this
  intro h0; simp [h0] at this; omega

/-! ### jobs in node channels -/

theorem job_in_buffer_inflight (h : Reach s) {j : Nat} (hb : (s.nodes n).buf = some (.job j)) :
    (s.nodes n).loc = .inflight := ((Inv.of_reach h).node n).job_inflight j hb

/-- an in-flight node has exactly one server, and a job in its channel -/
theorem inflight_exact (h : Reach s) (hl : (s.nodes n).loc = .inflight) :
    (s.nodes n).srvs.length = 1 ∧ ∃ j, (s.nodes n).buf = some (.job j) := by
  obtain ⟨j, hj⟩ := ((Inv.of_reach h).node n).inflight_job hl
  have := srvs_count (n := n) h
  simp [pend, hj, hl, live] at this
  exact ⟨this, j, hj⟩

/-- C01/C03: a job handed to a node is never stranded: a goroutine is serving that node's channel. -/
theorem inflight_has_server (h : Reach s) (hl : (s.nodes n).loc = .inflight) :
    (s.nodes n).srvs ≠ [] ∧ ∃ j, (s.nodes n).buf = some (.job j) := by
  obtain ⟨h1, h2⟩ := inflight_exact h hl
  exact ⟨fun h0 => by simp [h0] at h1, h2⟩

/-- Whatever sits in a node channel has a server. -/
theorem buf_has_server (h : Reach s) {m : Msg} (hb : (s.nodes n).buf = some m) : (s.nodes n).srvs ≠ [] := by
  cases m with
  | job j => exact (inflight_has_server h (job_in_buffer_inflight h hb)).1
  | stop => exact stop_has_server h hb

/-- Whatever sits in a node channel can be received: no message without a receiver (in particular no
    stop sentinel in a node whose servers have all gone). -/
theorem recv_enabled (h : Reach s) {m : Msg} (hb : (s.nodes n).buf = some m) :
    ∃ r s', step s (.recv r n m) = .ok s' := by
  have hne := buf_has_server h hb
  cases hs : (s.nodes n).srvs with
  | nil => exact absurd hs hne
  | cons r rs =>
    refine ⟨r, ?_⟩
    cases m with
    | job j => simp [step, hs, hb]
    | stop => simp [step, hs, hb]

/-! ### idle, held, fresh, stopping nodes -/

/-- An idle node has exactly one goroutine that will keep serving it, and no job in its channel. -/
theorem idle_ready (h : Reach s) {j : Nat} (hl : (s.nodes n).loc = .idle) :
    eff (s.nodes n) = 1 ∧ (s.nodes n).buf ≠ some (.job j) := by
  refine ⟨by rw [eff_eq_live h, hl]; rfl, fun hb => ?_⟩
  have := job_in_buffer_inflight h hb
  rw [hl] at this; cases this

/-- A held node has exactly one goroutine that will keep serving it. -/
theorem held_ready (h : Reach s) {g : Nat} (hl : (s.nodes n).loc = .held g) : eff (s.nodes n) = 1 := by
  rw [eff_eq_live h, hl]; rfl

/-- A holder's send can only be delayed by a pending sentinel, which somebody will consume (there are
    then exactly two servers: the old one, about to leave, and the new one): no deadlock on the 1-slot
    channel. -/
theorem held_send_unblocks (h : Reach s) {g : Nat} {m : Msg} (hl : (s.nodes n).loc = .held g)
    (hb : (s.nodes n).buf = some m) : m = .stop ∧ (s.nodes n).srvs ≠ [] := by
  refine ⟨?_, buf_has_server h hb⟩
  cases m with
  | stop => rfl
  | job j => have := job_in_buffer_inflight h hb; rw [hl] at this; cases this

theorem held_blocked_two_servers (h : Reach s) {g : Nat} (hl : (s.nodes n).loc = .held g)
    (hb : (s.nodes n).buf = some .stop) : (s.nodes n).srvs.length = 2 := by
  have := srvs_count (n := n) h
  simpa [pend, hb, hl, live] using this

/-- Progress of a holder: its send is enabled now, or after one receive of the pending sentinel. -/
theorem held_send_eventually (h : Reach s) {g j : Nat} (hl : (s.nodes n).loc = .held g) :
    (∃ s', step s (.sendJob g n j) = .ok s') ∨
    (∃ r s₁ s', step s (.recv r n .stop) = .ok s₁ ∧ step s₁ (.sendJob g n j) = .ok s') := by
  cases hb : (s.nodes n).buf with
  | none => left; simp [step, hl, hb]
  | some m =>
    right
    obtain ⟨rfl, hne⟩ := held_send_unblocks h hl hb
    cases hs : (s.nodes n).srvs with
    | nil => exact absurd hs hne
    | cons r rs =>
      refine ⟨r, { s with nodes := (upd s.nodes n
        { s.nodes n with buf := none, srvs := (s.nodes n).srvs.erase r }) }, ?_⟩
      simp [step, hs, hb, hl]

/-- `go Serve` is only ever executed on a node without a live server. -/
theorem fresh_no_live_server (h : Reach s) {g : Nat} (hl : (s.nodes n).loc = .fresh g) :
    eff (s.nodes n) = 0 := by
  rw [eff_eq_live h, hl]; rfl

/-- The strongest bound: at most two goroutines serve a node (a recycled node may briefly have its old
    goroutine, which has not yet seen the sentinel, and the new one — `example` below shows 2 is
    attained), and at most one remains. -/
theorem servers_bounded (h : Reach s) : (s.nodes n).srvs.length ≤ 2 ∧ eff (s.nodes n) ≤ 1 := by
  have h1 := srvs_count (n := n) h
  have h2 := eff_eq_live (n := n) h
  have h3 : pend (s.nodes n) ≤ 1 := by simp only [pend]; split <;> omega
  have h4 : live (s.nodes n).loc ≤ 1 := by cases (s.nodes n).loc <;> simp [live]
  omega

/-- two servers only while a sentinel is pending -/
theorem two_servers_pending (h : Reach s) (h2 : (s.nodes n).srvs.length = 2) :
    (s.nodes n).buf = some .stop := by
  have h1 := srvs_count (n := n) h
  have h4 : live (s.nodes n).loc ≤ 1 := by cases (s.nodes n).loc <;> simp [live]
  simp only [pend] at h1
  split at h1
  · assumption
  · omega

/-- Locations are exclusive by construction (`loc` is a function of the node); what a stopper leaves
    behind: no live server, and either the sentinel with its single consumer or nothing at all. -/
theorem unique_holder (h : Reach s) {g : Nat} (hl : (s.nodes n).loc = .stopping g) :
    eff (s.nodes n) = 0 ∧
    (((s.nodes n).buf = some .stop ∧ (s.nodes n).srvs.length = 1) ∨
     ((s.nodes n).buf = none ∧ (s.nodes n).srvs = [])) := by
  refine ⟨by rw [eff_eq_live h, hl]; rfl, ?_⟩
  have h1 := srvs_count (n := n) h
  cases hb : (s.nodes n).buf with
  | none => right; simpa [pend, hb, hl, live] using h1
  | some m =>
    cases m with
    | stop => left; simpa [pend, hb, hl, live] using h1
    | job j => have := job_in_buffer_inflight h hb; rw [hl] at this; cases this

/-- the same for a cached node: what `Cache.Get` can return -/
theorem cached_shape (h : Reach s) (hl : (s.nodes n).loc = .cached) :
    ((s.nodes n).buf = some .stop ∧ (s.nodes n).srvs.length = 1) ∨
    ((s.nodes n).buf = none ∧ (s.nodes n).srvs = []) := by
  have h1 := srvs_count (n := n) h
  cases hb : (s.nodes n).buf with
  | none => right; simpa [pend, hb, hl, live] using h1
  | some m =>
    cases m with
    | stop => left; simpa [pend, hb, hl, live] using h1
    | job j => have := job_in_buffer_inflight h hb; rw [hl] at this; cases this

/-- Only the holder sends on a node channel (by the guards of `step`). -/
theorem send_only_by_holder {g j : Nat} {s' : State} (hs : step s (.sendJob g n j) = .ok s') :
    (s.nodes n).loc = .held g ∧ (s.nodes n).buf = none := by
  simp only [step] at hs
  split at hs
  · cases hs
  · split at hs
    · cases hs
    · rename_i h1 h2
      exact ⟨by simpa using h1, by simpa using h2⟩

/-! ### non-vacuity: concrete runs -/

theorem reach_run {s s' : State} (h : Reach s) {es : List Ev} (hr : run s es = .ok s') : Reach s' := by
  induction es generalizing s with
  | nil => simp [run] at hr; cases hr; exact h
  | cons e es ih =>
    simp only [run] at hr
    split at hr
    · rename_i s₁ hs; exact ih (.step e h hs) hr
    · cases hr

/-- final state of a run from `init` (`init` if the run is rejected) -/
def runD (es : List Ev) : State := match run init es with | .ok s => s | .error _ => init

def accepted (es : List Ev) : Bool := match run init es with | .ok _ => true | .error _ => false

theorem reach_runD (es : List Ev) : Reach (runD es) := by
  unfold runD
  split
  · rename_i s hs; exact reach_run .init hs
  · exact .init

/-- two nodes, both created (`Cache.Get`; `go Serve`) and pushed; idle list [1, 0] -/
def t0 : List Ev := [.get 0 1, .spawn 0 1 11, .push 0 1, .get 0 0, .spawn 0 0 10, .push 0 0]
/-- a dispatcher (goroutine 5) pops node 0 and sends job 7 -/
def t1 : List Ev := t0 ++ [.pop 5 (some 0), .sendJob 5 0 7]
/-- its server 10 receives the job and pushes the node back -/
def t2 : List Ev := t1 ++ [.recv 10 0 (.job 7), .push 10 0]
/-- a reaper (goroutine 6) removes node 0 (a second Remove returns false) and stops it -/
def t3 : List Ev := t2 ++ [.remove 6 0 true, .remove 6 0 false, .sendStop 6 0]
/-- ... and caches it; goroutine 10 has not yet consumed the sentinel -/
def t4 : List Ev := t3 ++ [.put 6 0]
/-- node 0 is recycled before its old goroutine consumed the sentinel: two servers -/
def t5 : List Ev := t4 ++ [.get 5 0, .spawn 5 0 12]
/-- the old goroutine leaves; the dispatcher's send is unblocked -/
def t6 : List Ev := t5 ++ [.recv 10 0 .stop, .sendJob 5 0 8]
/-- a runner that stops itself: 12 receives the job, stops and caches its own node, then receives
    its own sentinel and leaves -/
def t7 : List Ev := t6 ++ [.recv 12 0 (.job 8), .sendStop 12 0, .put 12 0, .recv 12 0 .stop]

example : accepted t7 = true := by decide
-- idle_iff / idle_nodup / idle_ready: both nodes idle with one server each
example : (runD t0).idle = [1, 0] ∧ (runD t0).nodes 0 = { loc := .idle, buf := none, srvs := [10] } := by decide
-- inflight_has_server / job_in_buffer_inflight / recv_enabled
example : (runD t1).idle = [1] ∧ (runD t1).nodes 0 = { loc := .inflight, buf := some (.job 7), srvs := [10] } := by decide
example : (runD t2).idle = [1, 0] ∧ (runD t2).nodes 0 = { loc := .idle, buf := none, srvs := [10] } := by decide
-- unique_holder (first alternative); Remove returning false changes nothing
example : (runD t3).idle = [1] ∧ (runD t3).nodes 0 = { loc := .stopping 6, buf := some .stop, srvs := [10] } := by decide
-- cached_shape (first alternative): what Cache.Get may return
example : (runD t4).nodes 0 = { loc := .cached, buf := some .stop, srvs := [10] } := by decide
-- servers_bounded is tight; held_send_unblocks / held_blocked_two_servers / two_servers_pending
example : (runD t5).nodes 0 = { loc := .held 5, buf := some .stop, srvs := [12, 10] } := by decide
example : accepted (t5 ++ [.sendJob 5 0 8]) = false := by decide          -- the send blocks ...
example : (runD t6).nodes 0 = { loc := .inflight, buf := some (.job 8), srvs := [12] } := by decide   -- ... until the sentinel is consumed
-- the new goroutine may just as well be the one that consumes the sentinel
example : (runD (t5 ++ [.recv 12 0 .stop])).nodes 0 = { loc := .held 5, buf := none, srvs := [10] } := by decide
-- a recycled node may even be pushed with the sentinel still pending (idle, two servers, eff = 1)
example : (runD (t5 ++ [.push 5 0])).nodes 0 = { loc := .idle, buf := some .stop, srvs := [12, 10] } := by decide
-- unique_holder (second alternative), then cached with nothing left
example : (runD t7).nodes 0 = { loc := .cached, buf := none, srvs := [] } ∧ (runD t7).idle = [1] := by decide
-- node 1 was never touched again; node 2 was never born
example : (runD t7).nodes 1 = { loc := .idle, buf := none, srvs := [11] } ∧ (runD t7).nodes 2 = {} := by decide
-- PopBack nil only on an empty list; PopBack pops the back
example : accepted [.pop 5 none] = true ∧ accepted (t0 ++ [.pop 5 none]) = false ∧
    accepted (t0 ++ [.pop 5 (some 1)]) = false := by decide
-- only the holder sends; nobody sends to an idle node
example : accepted (t0 ++ [.sendJob 5 0 7]) = false ∧ accepted (t1 ++ [.sendStop 5 0]) = false := by decide
-- the five counterexamples of the first model version are now rejected
example : accepted [.get 0 0, .spawn 0 0 1, .spawn 0 0 2] = false ∧
    accepted [.get 0 0, .push 0 0] = false ∧
    accepted [.get 0 0, .sendJob 0 0 7] = false ∧
    accepted [.get 0 0, .sendStop 0 0] = false ∧
    accepted [.get 0 0, .spawn 0 0 1, .sendStop 0 0, .put 0 0, .get 1 0, .sendJob 1 0 7] = false := by decide

-- the hypotheses of the main theorems are satisfiable on reachable states
example : ∃ s, Reach s ∧ (s.nodes 0).loc = .inflight := ⟨runD t1, reach_runD _, by decide⟩
example : ∃ s, Reach s ∧ (s.nodes 0).loc = .idle ∧ 0 ∈ s.idle := ⟨runD t2, reach_runD _, by decide⟩
example : ∃ s, Reach s ∧ (s.nodes 0).loc = .held 5 ∧ (s.nodes 0).buf = some .stop :=
  ⟨runD t5, reach_runD _, by decide⟩
example : ∃ s, Reach s ∧ (s.nodes 0).loc = .stopping 6 := ⟨runD t3, reach_runD _, by decide⟩
example : ∃ s, Reach s ∧ (s.nodes 0).srvs.length = 2 := ⟨runD t5, reach_runD _, by decide⟩
example : ∃ s, Reach s ∧ (s.nodes 0).loc = .fresh 5 ∧ (s.nodes 0).buf = some .stop :=
  ⟨runD (t4 ++ [.get 5 0]), reach_runD _, by decide⟩

end Pool
end VarmqVerif

#print axioms VarmqVerif.Pool.idle_iff
#print axioms VarmqVerif.Pool.idle_nodup
#print axioms VarmqVerif.Pool.srvs_count
#print axioms VarmqVerif.Pool.inflight_has_server
#print axioms VarmqVerif.Pool.job_in_buffer_inflight
#print axioms VarmqVerif.Pool.recv_enabled
#print axioms VarmqVerif.Pool.idle_ready
#print axioms VarmqVerif.Pool.held_send_unblocks
#print axioms VarmqVerif.Pool.held_send_eventually
#print axioms VarmqVerif.Pool.servers_bounded
#print axioms VarmqVerif.Pool.two_servers_pending
#print axioms VarmqVerif.Pool.unique_holder
#print axioms VarmqVerif.Pool.cached_shape
