/-
  Model `Race`: happens-before data-race detection on one execution (property C19).

  An execution is the list of its synchronisation events and plain memory accesses in the order the
  deterministic scheduler performed them (one goroutine runs at a time, so the list is a
  linearisation of the execution). `HB` is the happens-before order of the Go memory model,
  over-approximated: every edge the memory model guarantees is an edge here, and a few that it does
  not guarantee are edges too (all operations on one channel are ordered, RUnlock → RLock, …). With
  more edges fewer pairs are unordered, so a pair reported here is unordered in the Go memory model
  too: a report is a real data race of this execution; a race may be missed.

    acq t o      goroutine t acquires synchronisation object o   (Lock, RLock, atomic load, WaitGroup.Wait, Pool.Get, Cond wake-up, <-ctx.Done())
    rel t o      … releases o                                      (Unlock, RUnlock, atomic store, Pool.Put, Broadcast, cancel())
    acqrel t o   … both                                            (atomic add/cas/swap, channel send/receive/close, WaitGroup.Add/Done)
    fork t c     `go`: everything t did so far happens before everything c does
    join t o     t continues after o's work so far (the harness' main goroutine after the client threads)
    rd / wr      plain read / write of the bytes [addr, addr+size) at source site `site`

  `detect` is the executable detector (sets of event indices as bit masks in `Nat`); `Racy` is the
  specification (an unordered conflicting pair exists).
-/
namespace VarmqVerif
namespace Race

inductive Ev where
  | acq (t o : Nat)
  | rel (t o : Nat)
  | acqrel (t o : Nat)
  | fork (t c : Nat)
  | join (t o : Nat)
  | rd (t addr size site : Nat)
  | wr (t addr size site : Nat)
  deriving DecidableEq, Repr, Inhabited

def Ev.thread : Ev → Nat
  | .acq t _ | .rel t _ | .acqrel t _ | .fork t _ | .join t _ | .rd t _ _ _ | .wr t _ _ _ => t

def Ev.releases : Ev → Option Nat
  | .rel _ o | .acqrel _ o => some o
  | _ => none

def Ev.acquires : Ev → Option Nat
  | .acq _ o | .acqrel _ o => some o
  | _ => none

/-- (addr, size, isWrite, site) of a memory access -/
def Ev.access : Ev → Option (Nat × Nat × Bool × Nat)
  | .rd _ a s k => some (a, s, false, k)
  | .wr _ a s k => some (a, s, true, k)
  | _ => none

def overlap (a s b u : Nat) : Bool := a < b + u && b < a + s

-- ------------------------------------------------------------------ specification

/-- a direct happens-before edge from position i to position j (i < j) of the trace -/
def Edge (tr : List Ev) (i j : Nat) : Prop :=
  i < j ∧ ∃ e f, tr[i]? = some e ∧ tr[j]? = some f ∧
    (e.thread = f.thread                                   -- program order
     ∨ (∃ t, e = .fork t f.thread)                          -- go statement: the fork is the first event of the child
     ∨ (∃ t o, f = .join t o ∧ (e.thread = o ∨ ∃ u, e = .fork u o))   -- join: after everything o did (and its fork)
     ∨ (∃ o, e.releases = some o ∧ f.acquires = some o))    -- synchronises-with

/-- happens-before: the transitive closure of `Edge` -/
inductive HB (tr : List Ev) : Nat → Nat → Prop
  | edge {i j} : Edge tr i j → HB tr i j
  | trans {i j k} : HB tr i j → HB tr j k → HB tr i k

/-- positions i < j hold conflicting accesses of different goroutines that are not ordered -/
def RacePair (tr : List Ev) (i j : Nat) : Prop :=
  i < j ∧ ∃ e f a s w k b u x l, tr[i]? = some e ∧ tr[j]? = some f ∧
    e.access = some (a, s, w, k) ∧ f.access = some (b, u, x, l) ∧
    overlap a s b u = true ∧ (w = true ∨ x = true) ∧ e.thread ≠ f.thread ∧ ¬ HB tr i j

def Racy (tr : List Ev) : Prop := ∃ i j, RacePair tr i j

-- ------------------------------------------------------------------ detector

abbrev Map := List (Nat × Nat)

def Map.get (m : Map) (k : Nat) : Nat :=
  match m with
  | [] => 0
  | (k', v) :: r => if k' = k then v else Map.get r k

def Map.set (m : Map) (k v : Nat) : Map :=
  match m with
  | [] => [(k, v)]
  | (k', v') :: r => if k' = k then (k, v) :: r else (k', v') :: Map.set r k v

def bit (i : Nat) : Nat := 1 <<< i

structure Acc where
  idx : Nat
  t : Nat
  addr : Nat
  size : Nat
  write : Bool
  site : Nat
  deriving Repr, DecidableEq, Inhabited

structure Report where
  i : Nat            -- earlier access
  j : Nat            -- later access
  siteI : Nat
  siteJ : Nat
  deriving Repr, DecidableEq, Inhabited

structure State where
  n : Nat := 0             -- events processed
  tm : Map := []           -- goroutine ↦ set of events that happen before its next event
  om : Map := []           -- synchronisation object ↦ set of events released into it
  accs : List Acc := []    -- accesses so far, latest first
  reports : List Report := []
  deriving Repr

def conflicts (a : Acc) (t addr size : Nat) (write : Bool) : Bool :=
  a.t != t && (a.write || write) && overlap a.addr a.size addr size

def step (s : State) (e : Ev) : State :=
  let k := s.n
  let t := e.thread
  let base := s.tm.get t ||| bit k
  match e with
  | .acq _ o =>
    { s with n := k + 1, tm := s.tm.set t (base ||| s.om.get o) }
  | .rel _ o =>
    { s with n := k + 1, tm := s.tm.set t base, om := s.om.set o (s.om.get o ||| base) }
  | .acqrel _ o =>
    let m := base ||| s.om.get o
    { s with n := k + 1, tm := s.tm.set t m, om := s.om.set o m }
  | .fork _ c =>
    let tm := s.tm.set t base
    { s with n := k + 1, tm := tm.set c (tm.get c ||| base) }
  | .join _ o =>
    { s with n := k + 1, tm := s.tm.set t (base ||| s.tm.get o) }
  | .rd _ a sz site =>
    let bad := s.accs.filter (fun x => conflicts x t a sz false && !(base.testBit x.idx))
    { s with n := k + 1, tm := s.tm.set t base,
             accs := { idx := k, t := t, addr := a, size := sz, write := false, site := site } :: s.accs,
             reports := s.reports ++ bad.map (fun x => { i := x.idx, j := k, siteI := x.site, siteJ := site }) }
  | .wr _ a sz site =>
    let bad := s.accs.filter (fun x => conflicts x t a sz true && !(base.testBit x.idx))
    { s with n := k + 1, tm := s.tm.set t base,
             accs := { idx := k, t := t, addr := a, size := sz, write := true, site := site } :: s.accs,
             reports := s.reports ++ bad.map (fun x => { i := x.idx, j := k, siteI := x.site, siteJ := site }) }

def run (tr : List Ev) : State := tr.foldl step {}

/-- all unordered conflicting pairs of the execution -/
def detect (tr : List Ev) : List Report := (run tr).reports

end Race
end VarmqVerif
