/-
  Model `FifoDisp`: model `Disp` composed with the FIFO queue's specification (the list queue that
  `Fifo.refines_list` proves the segmented FIFO of queue.go to be): submissions are accepted at the back
  (`enq`), the dispatcher takes the oldest pending job (`deq`, the `Disp` event), a Purge or a cancelling
  client removes the oldest pending job without running it (`drop`), everything else is `Disp`.

  It states the first sentence of C04 end to end for a standard queue: hand-out order is acceptance order, and with
  concurrency 1 so is the execution order.
-/
import VarmqVerif.Model.Disp
namespace VarmqVerif
namespace FifoDisp

inductive Ev where
  | enq (j : Nat)            -- Enqueue accepted job j (one event per critical section of the queue lock)
  | drop (j : Nat)           -- a Dequeue by somebody other than the dispatcher (Purge) removed j
  | d (e : Disp.Ev)          -- lim / deq / enter / done of model Disp
  deriving DecidableEq, Repr, Inhabited

structure State where
  d : Disp.State := {}
  pending : List Nat := []       -- the queue, oldest first
  accepted : List Nat := []      -- acceptance order
  dropped : List Nat := []       -- jobs removed by somebody other than the dispatcher (Purge), in order
  deriving DecidableEq, Repr, Inhabited

def init : State := {}

def step (s : State) : Ev → Except String State
  | .enq j =>
    if s.accepted.contains j then .error s!"job {j} accepted twice"
    else .ok { s with pending := s.pending ++ [j], accepted := s.accepted ++ [j] }
  | .drop j =>
    match s.pending with
    | [] => .error s!"Dequeue returned job {j} from an empty queue"
    | h :: rest => if h != j then .error s!"Dequeue returned job {j}, the oldest pending job is {h}" else .ok { s with pending := rest, dropped := s.dropped ++ [j] }
  | .d (.deq j) =>
    match s.pending with
    | [] => .error s!"Dequeue returned job {j} from an empty queue"
    | h :: rest =>
      if h != j then .error s!"Dequeue returned job {j}, the oldest pending job is {h}"
      else match Disp.step s.d (.deq j) with
        | .ok d' => .ok { s with d := d', pending := rest }
        | .error m => .error m
  | .d e =>
    match Disp.step s.d e with
    | .ok d' => .ok { s with d := d' }
    | .error m => .error m

def run (s : State) : List Ev → Except String State
  | [] => .ok s
  | e :: es => match step s e with
    | .ok s' => run s' es
    | .error m => .error m

inductive Reach : State → Prop
  | init : Reach init
  | step {s s' : State} (e : Ev) : Reach s → step s e = .ok s' → Reach s'

end FifoDisp
end VarmqVerif
