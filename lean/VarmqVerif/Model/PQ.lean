import VarmqVerif.Model.Heap

/-!
# Model of `internal/queues/priority.go` (`PriorityQueue[T]`)

Sequential transcription: every method body runs under `q.mx` (write lock for `Enqueue`, `Dequeue`,
`Purge`; read lock for `Len`, `Values`), so method bodies are atomic with respect to each other and
one `step` per call is exact.  Two things happen outside the lock and are *not* hidden by this model
but are outside its (sequential) scope: `Enqueue` loads `closed` *before* taking the lock, and
`Close` stores it without the lock.  (So an `Enqueue` racing with `Close` may still be accepted
after `Close` returned; that belongs to the concurrent models, not to this container model.)

Core Lean only; executable.
-/

namespace VarmqVerif
namespace PQ

open Heap

/-- `type PriorityQueue[T any] struct { internal *heapQueue[T]; insertionCount int; mx sync.RWMutex;
closed atomic.Bool }` — `items` is `internal.items`. -/
structure State (α : Type) where
  items          : Array (Item α)
  insertionCount : Nat
  closed         : Bool
deriving DecidableEq, Repr

/-- The public methods of `PriorityQueue[T]`. -/
inductive Op (α : Type) where
  | enq (x : α) (prio : Int)   -- `Enqueue(item any, priority int) bool`
  | deq                        -- `Dequeue() (any, bool)`
  | len                        -- `Len() int`
  | values                     -- `Values() []any`
  | purge                      -- `Purge()`
  | close                      -- `Close() error` (always nil)
deriving DecidableEq, Repr

/-- Results.  `Dequeue` returns `(zeroValue, false)` on an empty queue: `item none`; `(v, true)`:
`item (some v)`. -/
inductive Out (α : Type) where
  | bool (b : Bool)
  | item (v : Option α)
  | nat  (n : Nat)
  | list (l : List α)
  | unit
deriving DecidableEq, Repr

variable {α : Type}

/-- `NewPriorityQueue`: `pq := &heapQueue[T]{items: make([]*enqItem[T], 0)}; heap.Init(pq);
return &PriorityQueue[T]{internal: pq}` — `insertionCount` and `closed` take their zero values. -/
def init : State α :=
  { items := heapInit #[], insertionCount := 0, closed := false }

/-- One method call.

* `Enqueue`:
  ```go
  if q.closed.Load() { return false }
  q.mx.Lock(); defer q.mx.Unlock()
  typedValue, ok := item.(T); if !ok { return false }
  i := enqItem[T]{Value: typedValue, Priority: priority, Index: q.insertionCount}
  q.insertionCount++
  heap.Push(q.internal, &i)
  return true
  ```
  The dynamic type assertion `item.(T)` cannot fail here because `Op.enq` carries an `α`; a value
  of the wrong dynamic type is rejected by Go with `false` and no state change, exactly like the
  `closed` case.
* `Dequeue`:
  ```go
  var zeroValue T
  if q.internal.Len() == 0 { return zeroValue, false }
  popped := heap.Pop(q.internal).(*enqItem[T]); return popped.Value, true
  ```
  Works on a closed queue too (no `closed` test in the Go code).
* `Len`: `return q.internal.Len()`.
* `Values`: `for _, item := range q.internal.items { values = append(values, item.Value) }` — the
  values in *heap array order*, not in dequeue order.
* `Purge`: `q.internal.items = make([]*enqItem[T], 0); heap.Init(q.internal)`.  `insertionCount` is
  **not** reset and `closed` is not touched.
* `Close`: `q.closed.Store(true); return nil`.  The items stay and remain dequeueable. -/
def step (s : State α) : Op α → State α × Out α
  | .enq x prio =>
      if s.closed then (s, .bool false)
      else
        let i : Item α := { val := x, prio := prio, idx := s.insertionCount }
        ({ s with insertionCount := s.insertionCount + 1, items := heapPush s.items i }, .bool true)
  | .deq =>
      if h : s.items.size = 0 then (s, .item none)
      else
        let r := heapPop s.items (by omega)
        ({ s with items := r.2 }, .item (some r.1.val))
  | .len    => (s, .nat s.items.size)
  | .values => (s, .list (s.items.toList.map (·.val)))
  | .purge  => ({ s with items := heapInit #[] }, .unit)
  | .close  => ({ s with closed := true }, .unit)

/-- Run a sequence of calls; returns the final state and the outputs in call order. -/
def run (s : State α) : List (Op α) → State α × List (Out α)
  | []        => (s, [])
  | op :: ops =>
      let r  := step s op
      let rs := run r.1 ops
      (rs.1, r.2 :: rs.2)

/-- The heap array as `(Priority, Index)` pairs, in slice order: white-box view for the differential
test against the Go implementation. -/
def shape (s : State α) : List (Int × Nat) :=
  s.items.toList.map (fun it => (it.prio, it.idx))

end PQ
end VarmqVerif
