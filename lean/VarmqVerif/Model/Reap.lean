/-
  Model `Reap`: which workers the pool keeps when an idle-worker expiry is configured
  (worker.go: run / sendToNextChannel / freePoolNode / goRemoveIdleWorkers / stopTickers /
  stopAndRemoveAllWorkers; the complement of model `Trim`, which covers workers without expiry).

    run()                 goRemoveIdleWorkers(); … ; w.pool.PushNode(w.initPoolNode())      -- start n
    sendToNextChannel     node := pool.PopBack(); if nil → initPoolNode()                   -- take n / create n
    freePoolNode(node)    expiry configured → always pool.PushNode(node)                    -- back n
    reaper goroutine      target := numMinIdleWorkers()          (≥ 1)
      (one per run)       if pool.Len() <= target { continue }
                          nodes := pool.NodeSlice()                                         -- snap r t
                          for node in nodes[target:] { if expired {
                             w.mx.RLock(); select { case <-stop: return; default: }
                             removed := pool.Remove(node); w.mx.RUnlock()                   -- rmv r n ok
                             if removed { node.Stop(); cache.Put(node) } } }
    stop()                stopTickers() closes the run's stop channel under w.mx.Lock       -- kill
                          stopAndRemoveAllWorkers(): nodes := pool.NodeSlice()              -- stopAll
                             for node in nodes { if pool.Remove(node) { node.Stop(); … } }    -- stopRmv n ok

  Pool nodes are identified by number. `idle` is the idle list front to back, `out` the nodes that are
  out of the list with a job (or about to get one). A reaper belongs to the run `r` that started it;
  `gen` counts the runs that have been ended (`kill`). Only the reaper of the current run, and only
  while that run's stop channel is open (`live`), may remove — this is the stop-channel check under
  w.mx.RLock of fix b9eba0f. What it may remove are the nodes of ITS snapshot beyond the first `t`.
  Wall-clock expiry is not modelled (any candidate may be found expired).

  `old = true` is the reaper BEFORE b9eba0f: no stop-channel check, so the pass of an ended run keeps
  removing the nodes it remembers (`stale`), which by then may be idle workers of the next run (nodes
  are recycled through the cache). Kept to state that defect as a theorem.
-/
namespace VarmqVerif
namespace Reap

inductive Ev where
  | start (n : Nat)                   -- run(): the run's reaper exists, the first idle worker n is pushed
  | take (n : Nat)                    -- dispatcher: PopBack returned node n
  | create (n : Nat)                  -- dispatcher: PopBack had found the list empty, a worker on node n is created
  | back (n : Nat)                    -- a finishing worker pushes its node back
  | snap (r t : Nat)                  -- the reaper of run r computed target t and took its snapshot (NodeSlice)
  | rmv (r n : Nat) (ok : Bool)       -- the reaper of run r called Remove(n), which returned ok
  | kill                              -- stopTickers: the stop channel of the current run is closed
  | stopAll                           -- stopAndRemoveAllWorkers begins (its NodeSlice) on a pool with nobody out: the run is over
  | stopRmv (n : Nat) (ok : Bool)     -- … and removes the nodes of its snapshot one by one (Remove(n) returned ok)
  deriving DecidableEq, Repr, Inhabited

/-- the pass of the live reaper: its snapshot, split at the target -/
structure Pass where
  prot : List Nat                     -- nodes[:target]   never touched by this pass
  cand : List Nat                     -- nodes[target:]   removed if expired and still idle
  deriving DecidableEq, Repr, Inhabited

structure State where
  running : Bool := false
  idle : List Nat := []
  out : List Nat := []
  gen : Nat := 0
  live : Bool := false                -- the reaper of run `gen` exists and its stop channel is open
  pass : Option Pass := none          -- the live reaper's current pass
  stale : List Nat := []              -- old code only: candidates remembered by reapers of ended runs
  deriving DecidableEq, Repr, Inhabited

def init : State := {}

def step (old : Bool) (s : State) : Ev → Except String State
  | .start n =>
    if s.running then .error "run() on a running pool"
    else if s.live then .error "run() while the reaper of the previous run has not been told to stop"
    else if s.idle.contains n || s.out.contains n then .error s!"run() pushed node {n} which is in use"
    else .ok { s with running := true, live := true, idle := s.idle ++ [n] }
  | .take n =>
    if s.idle.getLast? != some n then .error s!"PopBack returned node {n} which is not the last idle node"
    else if s.out.contains n then .error s!"node {n} taken twice"
    else .ok { s with idle := s.idle.dropLast, out := n :: s.out }
  | .create n =>
    if s.idle.contains n || s.out.contains n then .error s!"a worker was created on node {n} which is in use"
    else .ok { s with out := n :: s.out }
  | .back n =>
    if !s.out.contains n then .error s!"PushNode of node {n} by a worker that is not out of the list"
    else if s.idle.contains n then .error s!"node {n} pushed twice"
    else .ok { s with out := s.out.erase n, idle := s.idle ++ [n] }
  | .snap r t =>
    if t == 0 then .error "numMinIdleWorkers() is at least 1"
    else if r > s.gen then .error s!"a reaper of run {r} before that run"
    else if r == s.gen && s.live then
      .ok { s with pass := some { prot := s.idle.take t, cand := s.idle.drop t } }
    else if old then .ok { s with stale := s.stale ++ s.idle.drop t }
    else .ok s                         -- the reaper of an ended run: it will not get past its stop check
  | .rmv r n ok =>
    if ok != s.idle.contains n then .error s!"Remove({n}) returned {ok}"
    else if r == s.gen && s.live then
      match s.pass with
      | none => .error "Remove by a reaper that has no snapshot"
      | some p =>
        if !p.cand.contains n then .error s!"the reaper removed node {n}, which is not beyond the target in its snapshot"
        else .ok { s with idle := s.idle.erase n }
    else if !old then .error "Remove by the reaper of a run that has ended (stop channel closed)"
    else if !s.stale.contains n then .error s!"a stale reaper removed node {n}, which is not in its snapshot"
    else .ok { s with idle := s.idle.erase n }
  | .kill =>
    .ok { s with gen := s.gen + 1, live := false, pass := none,
                 stale := if old then s.stale ++ (match s.pass with | some p => p.cand | none => []) else s.stale }
  | .stopAll =>
    if !s.out.isEmpty then .error "stopAndRemoveAllWorkers while a worker is out of the list"
    else .ok { s with running := false }
  | .stopRmv n ok =>
    if s.running then .error "stopAndRemoveAllWorkers removes a node of a running pool"
    else if ok != s.idle.contains n then .error s!"Remove({n}) returned {ok}"
    else .ok { s with idle := s.idle.erase n }

def run (old : Bool) (s : State) : List Ev → Except String State
  | [] => .ok s
  | e :: es => match step old s e with
    | .ok s' => run old s' es
    | .error m => .error m

inductive Reach (old : Bool) : State → Prop
  | init : Reach old init
  | step {s s' : State} (e : Ev) : Reach old s → step old s e = .ok s' → Reach old s'

end Reap
end VarmqVerif
