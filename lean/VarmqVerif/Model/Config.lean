/-
  Model of the integer arithmetic in /repo/config.go (`withSafeConcurrency`, `clampPercentage`)
  and /repo/worker.go (`numMinIdleWorkers`), with Go's real conversions.

  Go `int` is 64-bit two's complement on the supported platforms (amd64/arm64): `BitVec 64`,
  signed comparison `BitVec.slt`. `uint32(x)` of an `int` is truncation to the low 32 bits
  (`BitVec.setWidth 32`). `uint8` is `BitVec 8`, `uint32(percentage)` is zero extension.
  `uint32 * uint32` wraps modulo 2^32, `/` on `uint32` is unsigned division, `int(uint32)` is zero
  extension to 64 bits. `<`, `>` on `BitVec` are the unsigned comparisons.

  `utils.Cpus()` (`uint32(runtime.NumCPU())`) is a parameter `cpus`.

  Core-only imports; everything is executable.
-/

namespace VarmqVerif
namespace Config

/--
```go
func withSafeConcurrency(concurrency int) uint32 {
	// If concurrency is less than 1, use the number of CPUs as the concurrency
	if concurrency < 1 {
		return utils.Cpus()
	}
	// values that do not fit are clamped, not truncated (k*2^32 used to become limit 0)
	if uint64(concurrency) > math.MaxUint32 {
		return math.MaxUint32
	}
	return uint32(concurrency)
}
```
`uint64(concurrency)` keeps the 64 bits and reads them unsigned, so the second test is the unsigned
`BitVec` comparison with `0xFFFFFFFF`. (Before the repair the function ended with the bare
`uint32(concurrency)`, which truncates: every positive multiple of 2^32 became limit 0.)
-/
def withSafeConcurrency (cpus : BitVec 32) (c : BitVec 64) : BitVec 32 :=
  if c.slt 1 then cpus
  else if c > 0xFFFFFFFF#64 then 0xFFFFFFFF#32
  else c.setWidth 32

/--
```go
func clampPercentage(percentage uint8) uint8 {
	if percentage == 0 { return 1 }
	if percentage > 100 { return 100 }
	return percentage
}
```
-/
def clampPercentage (p : BitVec 8) : BitVec 8 :=
  if p = 0 then 1
  else if p > 100 then 100
  else p

/-- Go builtin `max` on `uint32` (unsigned order). -/
def umax32 (a b : BitVec 32) : BitVec 32 := if a < b then b else a

/--
```go
func (w *worker[T, JobType]) numMinIdleWorkers() int {
	percentage := w.Configs.minIdleWorkerRatio   // uint8
	concurrency := w.concurrency.Load()          // uint32
	return int(max((concurrency*uint32(percentage))/100, 1))
}
```
-/
def numMinIdleWorkers (conc : BitVec 32) (pct : BitVec 8) : BitVec 64 :=
  (umax32 ((conc * pct.setWidth 32) / 100) 1).setWidth 64

/-! ### Plain `Nat`/`Int` wrappers for a line-protocol driver (differential testing against Go)

Arguments are reduced exactly as a Go conversion of an out-of-range constant would
(`BitVec.ofInt`/`BitVec.ofNat` wrap modulo 2^w); the driver is expected to send in-range values
(`int64` for `c`, `uint32` for `cpus`/`conc`, `uint8` for `pct`). -/

def withSafeConcurrencyI (cpus : Nat) (c : Int) : Nat :=
  (withSafeConcurrency (BitVec.ofNat 32 cpus) (BitVec.ofInt 64 c)).toNat

def clampPercentageI (p : Nat) : Nat := (clampPercentage (BitVec.ofNat 8 p)).toNat

/-- The result is a Go `int`; it is always in `[1, 2^32)`, so `toNat` and `toInt` agree. -/
def numMinIdleWorkersI (conc : Nat) (pct : Nat) : Int :=
  (numMinIdleWorkers (BitVec.ofNat 32 conc) (BitVec.ofNat 8 pct)).toInt

end Config
end VarmqVerif
